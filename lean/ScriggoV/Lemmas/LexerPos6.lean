import ScriggoV.Lemmas.LexerPos5
/-! # Position invariant: flushing text, `caseMarkdown`, `caseLT`, `caseAttr`, `caseTag` -/
namespace ScriggoV.Lexer
open ScriggoV ScriggoV.Gen.LexTables ScriggoV.Spec.Position

theorem flushText_pos {E : Env} {st st1 : St} {lp : Loop} (hI : PInv E st lp) (h : flushText E st lp = .ok st1) :
    PosAt E st1 st1.base ∧ AllTok E st1 ∧ st1.base = st.base + lp.p ∧ st1.line = st.line ∧ st1.col = st.col := by
  unfold flushText at h
  split at h
  · obtain ⟨t, ht, _, _, _, _, hl, hc, hb⟩ := emitAt_tok h
    refine ⟨?_, allTok_emitAt h hI.toks hI.strt, hb, hl, hc⟩
    rw [hb]; exact posAt_congr hI.cur hl hc
  · rename_i hp
    have hp0 : lp.p = 0 := by omega
    simp only [pure_eq_ok] at h
    cases h
    exact ⟨by have := hI.cur; rw [hp0] at this; simpa using this, hI.toks, by rw [hp0]; rfl, rfl, rfl⟩

theorem emit_pos {E : Env} {st st' : St} {typ n : Nat} (h : emit E st typ n = .ok st') (hp : PosAt E st st.base)
    (ha : AllTok E st) :
    AllTok E st' ∧ st'.base = st.base + n ∧ st'.line = st.line ∧ st'.col = st.col := by
  unfold emit at h
  obtain ⟨t, ht, _, _, _, _, hl, hc, hb⟩ := emitAt_tok h
  exact ⟨allTok_emitAt h ha hp, hb, hl, hc⟩

/-- after flushing the pending text and emitting an empty token, the loop restarts at `p = 0` -/
theorem flush_emit0 {E : Env} {st st1 st2 : St} {lp : Loop} {typ : Nat} (hI : PInv E st lp)
    (h1 : flushText E st lp = .ok st1) (h2 : emit E st1 typ 0 = .ok st2) :
    (∀ lp', lp'.p = 0 → lp'.lin = st2.line → lp'.tcol = st2.col → PInv E st2 lp') ∧ st2.base = st.base + lp.p ∧
      st2.line = st.line ∧ st2.col = st.col := by
  obtain ⟨p1, a1, b1, l1, c1⟩ := flushText_pos hI h1
  obtain ⟨a2, b2, l2, c2⟩ := emit_pos h2 p1 a1
  have hp2 : PosAt E st2 st2.base := by
    rw [b2]; simpa using posAt_congr p1 l2 c2
  refine ⟨?_, by rw [b2, b1]; rfl, by rw [l2, l1], by rw [c2, c1]⟩
  intro lp' h0 hl hc
  exact ⟨by rw [h0]; simpa using hp2, by rw [hl, hc]; exact hp2, a2⟩

theorem plainRun_of_prefix {E : Env} {off : Nat} {pre : Bytes} (h : hasPrefix (E.text.drop off) pre = true)
    (hpl : pre.all plainByte = true) (k : Nat) (hk : k ≤ pre.length) : PlainRun E off k := by
  intro j hj
  have hget := hasPrefix_getElem h j (by omega)
  rw [List.getElem?_drop] at hget
  refine ⟨_, hget, ?_⟩
  exact List.all_eq_true.mp hpl _ (List.getElem_mem _)

theorem caseMarkdown_pos {E : Env} {st : St} {lp : Loop} {c : UInt8} {o : CaseOut} (hI : PInv E st lp)
    (hq : QuoteOK lp.quote) (hpk : peek E st lp.p = some c) (h : caseMarkdown E st lp = .ok o) : CasePos E c o := by
  unfold caseMarkdown at h
  cases hs : srcFrom E st lp.p with
  | error f => rw [hs] at h; cases h
  | ok rest =>
    rw [hs] at h
    simp only [bind_ok] at h
    have hrest : rest = E.text.drop (st.base + lp.p) := by
      unfold srcFrom at hs; split at hs
      · cases hs; rfl
      · cases hs
    have stay : CasePos E c (.fall st lp) := ⟨fallPos_stay hI hpk rfl rfl rfl rfl rfl rfl rfl, hq⟩
    split at h
    · cases he : isMarkdownEndURL rest with
      | error f => rw [he] at h; cases h
      | ok b =>
        rw [he] at h
        simp only [bind_ok] at h
        cases b with
        | false => simp only [Bool.false_eq_true, if_false, pure_eq_ok] at h; cases h; exact stay
        | true =>
          simp only [if_true] at h
          cases h1 : flushText E st lp with
          | error f => rw [h1] at h; cases h
          | ok st1 =>
            rw [h1] at h
            simp only [bind_ok] at h
            cases h2 : emit E st1 tokenEndURL 0 with
            | error f => rw [h2] at h; cases h
            | ok st2 =>
              rw [h2] at h
              simp only [bind_ok, pure_eq_ok] at h
              cases h
              obtain ⟨mk, hb, _, _⟩ := flush_emit0 hI h1 h2
              refine ⟨⟨mk _ rfl rfl rfl, c, ?_, SameKind.refl c⟩, hq⟩
              show peek E st2 0 = some c
              unfold peek at hpk ⊢; rw [hb]; simpa using hpk
    · cases hp : (if lp.p = 0 then pure true else Except.map (fun c => !isAlpha c) (srcAtPred E st lp.p) : Except Fault Bool) with
      | error f => rw [hp] at h; cases h
      | ok b =>
        rw [hp] at h
        simp only [bind_ok] at h
        split at h
        · rename_i hcond
          cases h1 : flushText E st lp with
          | error f => rw [h1] at h; cases h
          | ok st1 =>
            rw [h1] at h
            simp only [bind_ok] at h
            cases h2 : emit E st1 tokenStartURL 0 with
            | error f => rw [h2] at h; cases h
            | ok st2 =>
              rw [h2] at h
              simp only [bind_ok] at h
              cases h4 : srcAt E st2 4 with
              | error f => rw [h4] at h; cases h
              | ok c4 =>
                rw [h4] at h
                simp only [bind_ok, pure_eq_ok] at h
                cases h
                obtain ⟨mk, hb, hl, hc⟩ := flush_emit0 hI h1 h2
                have base := mk { lp with p := 0, lin := st2.line, tcol := st2.col } rfl rfl rfl
                have hurl : isMarkdownStartURL (E.text.drop (st.base + lp.p)) = true := by rw [← hrest]; exact hcond.2
                have hc4 : (E.text.drop (st.base + lp.p))[4]? = some c4 := by
                  have := getAt_eq_ok_iff.mp h4
                  rw [List.getElem?_drop, ← hb]; exact this
                unfold isMarkdownStartURL at hurl
                -- the run of plain bytes `https://` or `http://`
                have hrun : PlainRun E st2.base (if c4 = 0x73 then 8 else 7) := by
                  rw [hb]
                  rcases Bool.or_eq_true _ _ |>.mp hurl with hh | hh
                  · have h4' := hasPrefix_getElem hh 4 (by simp [https])
                    rw [hc4] at h4'
                    have : c4 = 0x73 := by simpa [https] using h4'
                    rw [if_pos this]
                    exact plainRun_of_prefix hh (by decide) 8 (by simp [https])
                  · have h4' := hasPrefix_getElem hh 4 (by simp [http])
                    rw [hc4] at h4'
                    have : c4 = 0x3a := by simpa [http] using h4'
                    have hne : ¬ c4 = 0x73 := by rw [this]; decide
                    rw [if_neg hne]
                    exact plainRun_of_prefix hh (by decide) 7 (by simp [http])
                refine ⟨?_, hq⟩
                refine ⟨?_, base.strt, base.toks⟩
                show PosAt E (addCol st2 _) (st2.base + (if c4 = 0x73 then 8 else 7))
                exact posAt_plain _ (by have := base.cur; simpa using this) hrun
        · simp only [pure_eq_ok] at h; cases h; exact stay


theorem caseLT_pos {E : Env} (hal : Aligned E.text) {st : St} {lp : Loop} {o : CaseOut} (hI : PInv E st lp)
    (hq : QuoteOK lp.quote) (hpk : peek E st lp.p = some 0x3c) (h : caseLT E st lp = .ok o) : CasePos E 0x3c o := by
  unfold caseLT at h
  simp only [] at h
  cases hcd : (if st.ctx = ContextHTML ∧ lp.p + 8 < srcLen E st then do
        let d ← srcAt E st (lp.p + 1)
        if d = 0x21 then pure (hasPrefix (E.text.drop (st.base + lp.p)) cdataStart) else pure false
      else pure false : Except Fault Bool) with
  | error f => rw [hcd] at h; cases h
  | ok b =>
    rw [hcd] at h
    simp only [bind_ok] at h
    cases b with
    | true =>
      simp only [if_true] at h
      -- the prefix `<![CDATA[`
      have hpre : hasPrefix (E.text.drop (st.base + lp.p)) cdataStart = true := by
        split at hcd
        · cases hd : srcAt E st (lp.p + 1) with
          | error f => rw [hd] at hcd; cases hcd
          | ok d =>
            rw [hd] at hcd
            simp only [bind_ok] at hcd
            split at hcd
            · simp only [pure_eq_ok] at hcd; exact (Except.ok.inj hcd)
            · simp only [pure_eq_ok] at hcd; cases hcd
        · simp only [pure_eq_ok] at hcd; cases hcd
      cases hs : srcFrom E (addCol st 6) (lp.p + 6) with
      | error f => rw [hs] at h; cases h
      | ok rest =>
        rw [hs] at h
        simp only [bind_ok] at h
        generalize cdataEndAt rest (lp.p + 6) (srcLen E (addCol st 6)) = t at h
        cases hw : walk E (t - (lp.p + 6)) (lp.p + 6) (addCol st 6) with
        | error f => rw [hw] at h; cases h
        | ok st1 =>
          rw [hw] at h
          simp only [bind_ok, pure_eq_ok] at h
          cases h
          have p6 : PosAt E (addCol st 6) (st.base + lp.p + 6) :=
            posAt_plain 6 hI.cur (plainRun_of_prefix hpre (by decide) 6 (by simp [cdataStart]))
          have pw := walkCode_posAt _ _ _ _ hw (by show PosAt E (addCol st 6) (st.base + (lp.p + 6)); rw [← Nat.add_assoc]; exact p6)
          have hsb := walkCode_sameButPos _ _ _ _ hw
          have hb1 : st1.base = st.base := hsb.base
          refine ⟨⟨?_, ?_, ?_⟩, hq⟩
          · show PosAt E st1 (st1.base + (if lp.p + 6 < t then t else lp.p + 6))
            rw [hb1]
            have e : (addCol st 6).base + (lp.p + 6) + (t - (lp.p + 6)) = st.base + (if lp.p + 6 < t then t else lp.p + 6) := by
              show st.base + (lp.p + 6) + (t - (lp.p + 6)) = _
              split <;> omega
            rw [← e]; exact pw
          · show (lp.lin, lp.tcol) = _; rw [hb1]; exact hI.strt
          · intro tk hm; rw [hsb.toks] at hm; exact hI.toks tk hm
    | false =>
      simp only [Bool.false_eq_true, if_false] at h
      cases hst : scanTag E (addCol st 1) (lp.p + 1) with
      | error f => rw [hst] at h; cases h
      | ok r =>
        obtain ⟨st1, name, q⟩ := r
        rw [hst] at h
        simp only [bind_ok, pure_eq_ok] at h
        cases h
        have hget : E.text[st.base + lp.p]? = some 0x3c := hpk
        have p1 : PosAt E (addCol st 1) ((addCol st 1).base + (lp.p + 1)) := by
          show PosAt E (addCol st 1) (st.base + (lp.p + 1))
          rw [← Nat.add_assoc]
          exact posAt_plain 1 hI.cur (fun j hj => by
            have : j = 0 := by omega
            subst this
            exact ⟨_, hget, by decide⟩)
        have pt := scanTag_pos hal hst p1
        obtain ⟨s', n', q', hst', hsb, _, _⟩ := scanTag_ok (E := E) (st := addCol st 1) (p := lp.p + 1)
          (by
            -- `p < len(l.src)`: the byte at `p` exists
            have := peek_some_lt_srcLen hpk
            show lp.p + 1 ≤ srcLen E st; omega)
        rw [hst] at hst'
        cases hst'
        have hb1 : st1.base = st.base := hsb.base
        have key : ∀ s : St, s.base = st1.base → s.toks = st1.toks → s.line = st1.line → s.col = st1.col →
            PInv E s { lp with p := q } := by
          intro s a b c d
          refine ⟨?_, ?_, ?_⟩
          · show PosAt E s (s.base + q); rw [a, hb1]; exact posAt_congr pt c d
          · show (lp.lin, lp.tcol) = _; rw [a, hb1]; exact hI.strt
          · intro tk hm; rw [b, hsb.toks] at hm; exact hI.toks tk hm
        refine ⟨?_, hq⟩
        split
        · split
          · exact key _ rfl rfl rfl rfl
          · split <;> exact key _ rfl rfl rfl rfl
        · exact key _ rfl rfl rfl rfl

theorem typeAttr_same {E : Env} {F : Fixed} {st st1 : St} {p : Nat} (h : typeAttr E F st p = .ok st1) :
    st1 = { st with tagCtx := st1.tagCtx } := by
  unfold typeAttr at h
  split at h
  · split at h
    · cases hs : sliceOf E.text st.tagIndex (st.base + p) with
      | error f => rw [hs] at h; cases h
      | ok typ =>
        rw [hs] at h
        simp only [bind_ok] at h
        split at h
        · simp only [pure_eq_ok] at h; cases h; rfl
        · split at h
          · split at h
            · simp only [pure_eq_ok] at h; cases h; rfl
            · split at h <;> (simp only [pure_eq_ok] at h; cases h; rfl)
          · simp only [pure_eq_ok] at h; cases h; rfl
    · split at h
      · cases hs : sliceOf E.text st.tagIndex (st.base + p) with
        | error f => rw [hs] at h; cases h
        | ok typ =>
          rw [hs] at h
          simp only [bind_ok] at h
          split at h <;> (simp only [pure_eq_ok] at h; cases h; rfl)
      · simp only [pure_eq_ok] at h; cases h; rfl
  · simp only [pure_eq_ok] at h; cases h; rfl

theorem caseAttr_pos {E : Env} {F : Fixed} {st : St} {lp : Loop} {c : UInt8} {o : CaseOut} (hI : PInv E st lp)
    (hq : QuoteOK lp.quote) (hpk : peek E st lp.p = some c) (h : caseAttr E F st lp c = .ok o) : CasePos E c o := by
  unfold caseAttr at h
  split at h
  · simp only [] at h
    -- the URL / type step, as a function of its result
    cases hstep : (if lp.emittedURL = true then do
          let st ← flushText E st { lp with quote := 0 }
          let st ← emit E st tokenEndURL 0
          pure (st, { resetTok st { lp with quote := 0 } with emittedURL := false })
        else do
          let st ← typeAttr E F st lp.p
          pure (st, { lp with quote := 0 }) : Except Fault (St × Loop)) with
    | error f => rw [hstep] at h; cases h
    | ok r =>
      obtain ⟨st1, lp1⟩ := r
      rw [hstep] at h
      simp only [bind_ok] at h
      have hres : PInv E st1 lp1 ∧ peek E st1 lp1.p = some c ∧ lp1.quote = 0 := by
        split at hstep
        · have hI' : PInv E st { lp with quote := 0 } := ⟨hI.cur, hI.strt, hI.toks⟩
          cases h1 : flushText E st { lp with quote := 0 } with
          | error f => rw [h1] at hstep; cases hstep
          | ok sa =>
            rw [h1] at hstep
            simp only [bind_ok] at hstep
            cases h2 : emit E sa tokenEndURL 0 with
            | error f => rw [h2] at hstep; cases hstep
            | ok sb =>
              rw [h2] at hstep
              simp only [bind_ok, pure_eq_ok] at hstep
              cases hstep
              obtain ⟨mk, hb, _, _⟩ := flush_emit0 hI' h1 h2
              refine ⟨mk _ rfl rfl rfl, ?_, rfl⟩
              show peek E st1 0 = some c
              unfold peek at hpk ⊢; rw [hb]; simpa using hpk
        · cases h1 : typeAttr E F st lp.p with
          | error f => rw [h1] at hstep; cases hstep
          | ok sa =>
            rw [h1] at hstep
            simp only [bind_ok, pure_eq_ok] at hstep
            cases hstep
            have hs := typeAttr_same h1
            refine ⟨PInv.same hI (by rw [hs]) (by rw [hs]) (by rw [hs]) (by rw [hs]) rfl rfl rfl, ?_, rfl⟩
            show peek E st1 lp.p = some c
            unfold peek at hpk ⊢; rw [hs]; exact hpk
      obtain ⟨hI1, hpk1, hq1⟩ := hres
      have hI2 : PInv E { st1 with ctx := ContextTag, tagAttr := [], tagIndex := 0 } lp1 :=
        PInv.same hI1 rfl rfl rfl rfl rfl rfl rfl
      split at h
      · simp only [pure_eq_ok] at h; cases h
        exact ⟨hI2, by rw [hq1]; exact Or.inl rfl⟩
      · simp only [pure_eq_ok] at h; cases h
        exact ⟨⟨hI2, c, hpk1, SameKind.refl c⟩, by rw [hq1]; exact Or.inl rfl⟩
  · simp only [pure_eq_ok] at h; cases h
    exact ⟨fallPos_stay hI hpk rfl rfl rfl rfl rfl rfl rfl, hq⟩

end ScriggoV.Lexer
