import ScriggoV.Lemmas.ConstIntFast
/-! `representedBy` of the model (generated range tests `repFast`, `repBigUint64`, `repBigIntKind`)
against representability = range membership; the shift-count guard. -/
namespace ScriggoV.ConstEval
open ScriggoV.Spec.GoConst ScriggoV.Gen.ConstInt

theorem representable_iff (k : Kind) (n : Int) :
    representable k n = true ↔ minOf k ≤ n ∧ n ≤ maxOf k := by
  unfold representable; simp

/-- the range of every kind, as numbers -/
theorem range_values :
    (minOf .int8 = -128 ∧ maxOf .int8 = 127) ∧ (minOf .int16 = -32768 ∧ maxOf .int16 = 32767) ∧
    (minOf .int32 = -2147483648 ∧ maxOf .int32 = 2147483647) ∧
    (minOf .int64 = -9223372036854775808 ∧ maxOf .int64 = 9223372036854775807) ∧
    (minOf .int = -9223372036854775808 ∧ maxOf .int = 9223372036854775807) ∧
    (minOf .uint8 = 0 ∧ maxOf .uint8 = 255) ∧ (minOf .uint16 = 0 ∧ maxOf .uint16 = 65535) ∧
    (minOf .uint32 = 0 ∧ maxOf .uint32 = 4294967295) ∧
    (minOf .uint64 = 0 ∧ maxOf .uint64 = 18446744073709551615) ∧
    (minOf .uint = 0 ∧ maxOf .uint = 18446744073709551615) ∧
    (minOf .uintptr = 0 ∧ maxOf .uintptr = 18446744073709551615) := by decide

theorem lit_toInt :
    (BitVec.ofInt 64 (-128)).toInt = -128 ∧ (127#64 : BitVec 64).toInt = 127 ∧
    (BitVec.ofInt 64 (-32768)).toInt = -32768 ∧ (32767#64 : BitVec 64).toInt = 32767 ∧
    (BitVec.ofInt 64 (-2147483648)).toInt = -2147483648 ∧ (2147483647#64 : BitVec 64).toInt = 2147483647 ∧
    (BitVec.ofInt 64 (-9223372036854775808)).toInt = -9223372036854775808 ∧
    (9223372036854775807#64 : BitVec 64).toInt = 9223372036854775807 ∧
    (255#64 : BitVec 64).toInt = 255 ∧ (65535#64 : BitVec 64).toInt = 65535 ∧
    (4294967295#64 : BitVec 64).toInt = 4294967295 ∧ (0#64 : BitVec 64).toInt = 0 ∧
    (18446744073709551615#64 : BitVec 64).toNat = 18446744073709551615 := by decide

set_option linter.unusedSimpArgs false in
/-- **the int64 range tests are range membership**, for every kind and every int64 value -/
theorem repFast_spec (k : Kind) (n : BitVec 64) :
    repFast (kindCode k) n = if representable k n.toInt = true then .ok else .overflow := by
  obtain ⟨ln, hn⟩ := toInt_bounds n
  obtain ⟨⟨a1, a2⟩, ⟨b1, b2⟩, ⟨c1, c2⟩, ⟨d1, d2⟩, ⟨e1, e2⟩, ⟨f1, f2⟩, ⟨g1, g2⟩, ⟨h1, h2⟩, ⟨i1, i2⟩,
    ⟨j1, j2⟩, ⟨l1, l2⟩⟩ := range_values
  obtain ⟨t1, t2, t3, t4, t5, t6, t7, t8, t9, t10, t11, t12, t13⟩ := lit_toInt
  have hu := n.isLt
  cases k <;>
    simp only [repFast, kindCode, kInt, kInt8, kInt16, kInt32, kInt64, kUint, kUint8, kUint16, kUint32,
      kUint64, kUintptr, BitVec.sle_eq_decide, BitVec.ule_eq_decide, representable, Nat.reduceEqDiff,
      Nat.reduceBEq, Bool.false_eq_true, if_false, if_true, beq_self_eq_true, Bool.or_false, Bool.false_or,
      Bool.or_self, Bool.or_true, Bool.true_or, reduceIte,
      a1, a2, b1, b2, c1, c2, d1, d2, e1, e2, f1, f2, g1, g2, h1, h2, i1, i2, j1, j2, l1, l2,
      t1, t2, t3, t4, t5, t6, t7, t8, t9, t10, t11, t12, t13, Bool.and_eq_true, decide_eq_true_eq] <;>
    (first
      | rfl
      | (split <;> split <;> first | rfl | omega)
      | (split <;> first | rfl | omega)
      | (rw [if_pos (by omega)]))

theorem ofInt_toInt_of_fits (v : Int) (h : fitsInt64 v = true) : (BitVec.ofInt 64 v).toInt = v := by
  rw [fitsInt64_iff] at h
  exact BitVec.toInt_ofInt_eq_self (by decide) (by omega) (by omega)

theorem fitsUint64_iff (n : Int) : fitsUint64 n = true ↔ 0 ≤ n ∧ n ≤ 18446744073709551615 := by
  unfold fitsUint64 maxUint64; simp

theorem repBig_kinds (k : Kind) :
    repBigIntKind (kindCode k) = true ∧
    (repBigUint64 (kindCode k) = true ↔ (k = .uint ∨ k = .uint64 ∨ k = .uintptr)) := by
  cases k <;> decide

/-- **`representedBy` is range membership** for both representations of a constant; the constant
it returns has the same value -/
theorem sRep_spec (k : Kind) (c : SC) :
    (representable k c.val = true → ∃ c', sRep (kindCode k) c = .ok c' ∧ c'.val = c.val) ∧
    (representable k c.val = false → sRep (kindCode k) c = .error .overflow) := by
  cases c with
  | small n =>
    simp only [sRep, sRepSmall, SC.val, repFast_spec]
    constructor <;> intro h <;> simp [h]
  | big v =>
    simp only [sRep, SC.val]
    by_cases hf : fitsInt64 v = true
    · have e := ofInt_toInt_of_fits v hf
      simp only [hf, if_true, sRepSmall, repFast_spec, e]
      constructor <;> intro h <;> simp [h, e]
    · have hf' : fitsInt64 v = false := by simpa using hf
      have hnf : ¬ (-9223372036854775808 ≤ v ∧ v ≤ 9223372036854775807) := by
        rw [← fitsInt64_iff]; simp [hf']
      obtain ⟨hk1, hk2⟩ := repBig_kinds k
      obtain ⟨⟨a1, a2⟩, ⟨b1, b2⟩, ⟨c1, c2⟩, ⟨d1, d2⟩, ⟨e1, e2⟩, ⟨f1, f2⟩, ⟨g1, g2⟩, ⟨h1, h2⟩, ⟨i1, i2⟩,
        ⟨j1, j2⟩, ⟨l1, l2⟩⟩ := range_values
      simp only [hf', Bool.false_eq_true, if_false, hk1, if_true]
      by_cases hu : fitsUint64 v = true
      · have hu' := (fitsUint64_iff v).mp hu
        by_cases hk : repBigUint64 (kindCode k) = true
        · have hr : representable k v = true := by
            rw [representable_iff]
            rcases hk2.mp hk with rfl | rfl | rfl <;> omega
          simp [hu, hk, hr]
        · have hk' : repBigUint64 (kindCode k) = false := by simpa using hk
          have hr : representable k v = false := by
            have : ¬ (minOf k ≤ v ∧ v ≤ maxOf k) := by
              cases k <;> first | omega | (exfalso; exact hk (hk2.mpr (by simp)))
            rw [← representable_iff] at this; simpa using this
          simp [hu, hk', hr]
      · have hu' : fitsUint64 v = false := by simpa using hu
        have hnu : ¬ (0 ≤ v ∧ v ≤ 18446744073709551615) := by
          rw [← fitsUint64_iff]; simp [hu']
        have hr : representable k v = false := by
          have : ¬ (minOf k ≤ v ∧ v ≤ maxOf k) := by cases k <;> omega
          rw [← representable_iff] at this; simpa using this
        simp [hu', hr]

/-- the count type of the shift guard is `uint` -/
theorem shiftCountKind_eq : shiftCountKind = kindCode .uint := by decide

/-- **shift guard**: `shiftConstError` on a constant is Scriggo's rule on its value -/
theorem sShiftGuard_eq (isLeft : Bool) (c : SC) : sShiftGuard isLeft c = scriggoRule isLeft c.val := by
  obtain ⟨h1, h2⟩ := sRep_spec .uint c
  unfold sShiftGuard scriggoRule
  rw [shiftCountKind_eq]
  obtain ⟨_, _, _, _, _, _, _, _, _, ⟨j1, j2⟩, _⟩ := range_values
  by_cases hr : representable .uint c.val = true
  · obtain ⟨c', hc', _⟩ := h1 hr
    have hnn : ¬ c.val < 0 := by
      have := (representable_iff _ _).mp hr; omega
    simp [hc', hr, hnn]
  · have hr' : representable .uint c.val = false := by simpa using hr
    rw [h2 hr']
    simp [hr']
end ScriggoV.ConstEval
