import ScriggoV.Model.ImporterPolicy
import ScriggoV.Lemmas.Scopes
/-! C19 — importer trees: the first decisive answer, and what the scope machine can reach. -/
namespace ScriggoV.ImporterPolicy
open ScriggoV.Packages ScriggoV.Scopes

def bothRule : StopRule := ⟨true, true⟩

theorem stops_both (a : Answer) : bothRule.stops a = decisive a := by
  simp [StopRule.stops, bothRule, decisive]

theorem firstDecisive_append (A B : List Tree) (path : String) :
    firstDecisive (A ++ B) path =
      (if decisive (firstDecisive A path) then firstDecisive A path else firstDecisive B path) := by
  induction A with
  | nil => simp [firstDecisive, decisive]
  | cons i is ih =>
    simp only [List.cons_append, firstDecisive]
    by_cases h : decisive (leafAnswer i path) = true
    · simp only [h, if_true]
    · simp only [h]; exact ih

theorem decisive_or_none (x : Answer) : (if decisive x = true then x else ((none, none) : Answer)) = x := by
  rcases x with ⟨_ | _, _ | _⟩ <;> rfl

theorem eval_aux (i : Tree) : ∀ (path : String), eval bothRule i path = firstDecisive i.leaves path := by
  induction i using Imp.rec
    (motive_2 := fun (is : List Tree) => ∀ (path : String),
      evalList bothRule is path = firstDecisive (leavesList is) path) with
  | packages m =>
    intro path
    simp only [eval, Imp.leaves, firstDecisive]
    exact (decisive_or_none _).symm
  | custom id g =>
    intro path
    simp only [eval, Imp.leaves, firstDecisive]
    exact (decisive_or_none _).symm
  | combined is ih =>
    intro path
    simp only [eval, Imp.leaves]; exact ih path
  | nil => rfl
  | cons i is ihi ihis =>
    simp only [evalList, leavesList, firstDecisive_append, ihi, ihis, stops_both]

/-- a refusal before any supplier makes the first decisive answer an error -/
theorem firstDecisive_refused {leaves : List Tree} {path : String}
    (h : RefusedBeforeSupplied leaves path) : (firstDecisive leaves path).2.isSome = true := by
  obtain ⟨A, m, B, rfl, hA, hm⟩ := h
  induction A with
  | nil =>
    simp only [List.nil_append, firstDecisive]
    have hd : decisive (leafAnswer m path) = true := by simp [decisive, hm]
    simp only [hd, if_true]; exact hm
  | cons a as ih =>
    simp only [List.cons_append, firstDecisive]
    have ha : (leafAnswer a path).1 = none := hA a List.mem_cons_self
    by_cases hd : decisive (leafAnswer a path) = true
    · simp only [hd, if_true]
      simpa [decisive, ha] using hd
    · simp only [hd]
      exact ih (fun x hx => hA x (List.mem_cons_of_mem _ hx))

theorem toResult_err {a : Answer} (h : a.2.isSome = true) : toResult a = .err := by
  rcases a with ⟨p, _ | e⟩
  · cases h
  · cases p <;> rfl

theorem lookup_tableOf {r : StopRule} {t : Tree} {p : String} {k : NativePkg} :
    ∀ (paths : List String), (tableOf r t paths).lookup p = some k → toResult (eval r t p) = .pkg k := by
  intro paths
  induction paths with
  | nil => intro h; simp [tableOf] at h
  | cons q qs ih =>
    intro h
    simp only [tableOf] at h
    cases hq : toResult (eval r t q) with
    | pkg k' =>
      simp only [hq, List.lookup] at h
      by_cases hpq : p = q
      · subst hpq
        simp only [beq_self_eq_true, Option.some.injEq] at h
        rw [← h]; exact hq
      · have : (p == q) = false := by simpa using hpq
        simp only [this] at h
        exact ih h
    | nilPkg => simp only [hq] at h; exact ih h
    | err => simp only [hq] at h; exact ih h

theorem importPath_pkg {c : Cfg} {p : String} {k : NativePkg} (h : c.importPath p = some (.pkg k)) :
    ∃ tbl, c.importer = some tbl ∧ tbl.lookup p = some k := by
  unfold Cfg.importPath at h
  split at h
  · cases h
  · rename_i tbl htbl
    split at h
    · cases h
    · split at h
      · rename_i k' hk
        simp only [Option.some.injEq, ImportResult.pkg.injEq] at h
        exact ⟨tbl, htbl, by rw [hk, h]⟩
      · cases h

/-- whatever the flat configuration says is a package for a path is what the tree answers -/
theorem flat_importPath_pkg {r : StopRule} {t : Option Tree} {paths : List String}
    {globals : List GlobalDecl} {allowGo : Bool} {p : String} {k : NativePkg}
    (h : (flatCfg r t paths globals allowGo).importPath p = some (.pkg k)) :
    ∃ t', t = some t' ∧ toResult (eval r t' p) = .pkg k := by
  obtain ⟨tbl, htbl, hl⟩ := importPath_pkg h
  cases t with
  | none => simp [flatCfg] at htbl
  | some t' =>
    simp only [flatCfg, Option.some.injEq] at htbl
    subst htbl
    exact ⟨t', rfl, lookup_tableOf paths hl⟩

end ScriggoV.ImporterPolicy
