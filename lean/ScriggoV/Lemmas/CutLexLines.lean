import ScriggoV.Model.Cut
import ScriggoV.Lemmas.LexAdvance
import ScriggoV.Lemmas.PositionSpec
/-! C15 — the line numbers the cut rule reads.

`Model/Cut.lean` gives every token `posLine`/`lin` by counting the LF of the tokens before it
(`assignAux`): that is an assumption about the *lexer* (its hidden `lin` field). Here: the
assumption in closed form (`assignAux_lines`), and the line half of C21's segment theorem
(`Seg.line_counts_LF`: a checked segment of the lexer's byte walk adds to the line exactly the
number of LF among the bytes it steps over — the CR-after-LF step included, whose *column* only
is off). -/
namespace ScriggoV.Cut

/-- number of LF in the tokens -/
def nlSum : List Raw → Nat
  | [] => 0
  | r :: rs => r.nl + nlSum rs

/-- **the model's line attribution in closed form**: the token after `pre` starts on line
`line + (number of LF in pre)`, and its `lin` is that plus the LF of the token itself when the
lexer emits it after having scanned it (texts, comments) -/
theorem assignAux_lines (total : Nat) : ∀ (pre : List Raw) (r : Raw) (post : List Raw) (line off : Nat),
    (assignAux total line off (pre ++ r :: post))[pre.length]? =
      some ⟨r, line + nlSum pre, line + nlSum pre + r.linAdd, off + spanSum pre + r.head == total⟩ := by
  intro pre
  induction pre with
  | nil => intro r post line off; simp [assignAux, nlSum, spanSum]
  | cons x xs ih =>
    intro r post line off
    simp only [List.cons_append, assignAux, List.length_cons, List.getElem?_cons_succ, nlSum, spanSum]
    rw [ih]
    simp only [Nat.add_assoc]

/-- a text's `nl` is the number of LF among its bytes -/
theorem nl_text (bs : Bytes) : (Raw.text bs).nl = bs.count 10 := rfl

end ScriggoV.Cut

namespace ScriggoV.Lexer.Advance
open ScriggoV ScriggoV.Spec.Position

/-- the line half of `Seg.check_sound` -/
theorem Seg.line_counts_LF_of_check (s : Seg) (h : s.check = true) {src : Bytes} {p : Nat} {q : UInt8}
    (hq : q ∈ quotes) (hg : GuardHolds s.guard src p q) (lc : Nat × Nat) :
    (run s.evs (lc, s.base)).1.1
      = lc.1 + ((src.drop (p + s.base)).take ((run s.evs (lc, s.base)).2 - s.base)).count 0x0a := by
  have h3 := (Seg.check_sound s h hq hg lc).2.2
  rw [h3]
  obtain ⟨l, k⟩ := lc
  rw [advance_closed]

/-- the CR-after-LF step moves the line as the specification does (its column only is off) -/
theorem Seg.line_counts_LF_of_isLFCR (s : Seg) (h : s.isLFCR = true) {src : Bytes} {p : Nat} {q : UInt8}
    (hg : GuardHolds s.guard src p q) (lc : Nat × Nat) :
    (run s.evs (lc, s.base)).1.1
      = lc.1 + ((src.drop (p + s.base)).take ((run s.evs (lc, s.base)).2 - s.base)).count 0x0a := by
  unfold Seg.isLFCR at h
  simp only [Bool.and_eq_true, beq_iff_eq, List.contains_iff_mem] at h
  obtain ⟨⟨⟨hb, h0⟩, h1⟩, he⟩ := h
  obtain ⟨c0, hc0, e0⟩ := hg _ h0
  obtain ⟨c1, hc1, e1⟩ := hg _ h1
  simp only [List.any_cons, List.any_nil, Bool.or_false, Atom.eval, beq_iff_eq] at e0 e1
  rw [he, hb]
  obtain ⟨l, k⟩ := lc
  simp only [run, List.foldl_cons, List.foldl_nil, Ev.step, Nat.add_zero, Nat.zero_add, Nat.sub_zero]
  have hlen : p + 1 < src.length := by
    rcases Nat.lt_or_ge (p + 1) src.length with h | h
    · exact h
    · rw [List.getElem?_eq_none h] at hc1; cases hc1
  have hd : src.drop p = c0 :: c1 :: src.drop (p + 2) := by
    have hp : p < src.length := by omega
    rw [List.drop_eq_getElem_cons hp, List.drop_eq_getElem_cons hlen]
    have a0 : src[p] = c0 := by
      have := List.getElem?_eq_getElem hp; rw [Nat.add_zero] at hc0; rw [this] at hc0; exact Option.some.inj hc0
    have a1 : src[p + 1] = c1 := by
      have := List.getElem?_eq_getElem hlen; rw [this] at hc1; exact Option.some.inj hc1
    rw [a0, a1]
  rw [hd]
  have n0 : c0 = 0x0a := by
    apply UInt8.toNat_inj.mp; simpa using e0
  have n1 : c1 = 0x0d := by
    apply UInt8.toNat_inj.mp; simpa using e1
  subst n0 n1
  simp [List.take]

end ScriggoV.Lexer.Advance
