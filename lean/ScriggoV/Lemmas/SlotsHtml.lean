import ScriggoV.Spec.Slots
import ScriggoV.Lemmas.EscapeHtml
/-! C06, HTML part: the output of `htmlEscape` / `attributeEscape` stays inside the slot of the
HTML tokenizer it is written into (text node, double- or single-quoted and unquoted attribute
value), and every `&` it writes starts a complete character reference.

The first half of the file is generic (reused by `SlotsJs`, `SlotsCss`, `SlotsUrl`): a scanner
state that every output byte maps to itself is a fixed point of the scan, and a byte predicate
that holds of every piece of a per-byte substitution holds of the whole output. Table facts
are checked over all 256 bytes (`allBytes_spec` + `decide +kernel`) and lifted by induction. -/
namespace ScriggoV.Slots
open ScriggoV ScriggoV.Slots ScriggoV.Escape ScriggoV.Gen.EscapeTables

/-! ### generic: fixed points of a scan, byte predicates over a substitution -/

/-- a state that every byte of `out` maps to itself is where the scan of `out` ends -/
theorem foldl_fix {σ : Type} (step : σ → UInt8 → σ) (st : σ) (out : Bytes)
    (h : ∀ c ∈ out, step st c = st) : out.foldl step st = st := by
  induction out with
  | nil => rfl
  | cons c t ih =>
    simp only [List.foldl_cons]
    rw [h c List.mem_cons_self]
    exact ih (fun x hx => h x (List.mem_cons_of_mem _ hx))

theorem foldl_fix_all {σ : Type} (step : σ → UInt8 → σ) (st : σ) (p : UInt8 → Bool)
    (hp : ∀ c, p c = true → step st c = st) (out : Bytes) (h : out.all p = true) :
    out.foldl step st = st :=
  foldl_fix step st out (fun c hc => hp c (List.all_eq_true.mp h c hc))

/-- a predicate on bytes that holds of every piece holds of the whole output -/
theorem simple_all (f : UInt8 → Bytes → List Bytes) (p : UInt8 → Bool)
    (h : ∀ c rest, (piece f c rest).all p = true) (s : Bytes) : (simple f s).all p = true := by
  induction s with
  | nil => rfl
  | cons c rest ih => simp only [simple, List.all_append, h, ih, Bool.and_self]

theorem simple_ne_nil (f : UInt8 → Bytes → List Bytes)
    (h : ∀ c rest, piece f c rest ≠ []) (s : Bytes) (hs : s ≠ []) : simple f s ≠ [] := by
  cases s with
  | nil => exact absurd rfl hs
  | cons c rest =>
    simp only [simple]
    intro he
    exact h c rest (List.append_eq_nil_iff.mp he).1

theorem all_mono (p q : UInt8 → Bool) (hpq : ∀ c, p c = true → q c = true) (out : Bytes)
    (h : out.all p = true) : out.all q = true := by
  rw [List.all_eq_true] at h ⊢
  exact fun c hc => hpq c (h c hc)

/-! ### generic: a `switch` table (`none` = the byte is written unchanged) -/

/-- every byte the table writes for `c` satisfies `p`, and it writes at least one -/
def caseAll (cs : UInt8 → Option Bytes) (p : UInt8 → Bool) (c : UInt8) : Bool :=
  match cs c with
  | some e => !e.isEmpty && e.all p
  | none => p c

theorem piece_case_all (cs : UInt8 → Option Bytes) (p : UInt8 → Bool)
    (h : ∀ c, caseAll cs p c = true) (c : UInt8) (rest : Bytes) :
    (piece (fun c _ => ofCase (cs c)) c rest).all p = true := by
  have hc := h c
  unfold caseAll at hc
  cases hcs : cs c with
  | none =>
    rw [hcs] at hc
    rw [piece_ofCase_none cs c rest hcs]
    simpa using hc
  | some e =>
    rw [hcs] at hc
    rw [piece_ofCase_some cs c rest e hcs]
    simp only [Bool.and_eq_true] at hc
    exact hc.2

theorem piece_case_ne_nil (cs : UInt8 → Option Bytes) (p : UInt8 → Bool)
    (h : ∀ c, caseAll cs p c = true) (c : UInt8) (rest : Bytes) :
    piece (fun c _ => ofCase (cs c)) c rest ≠ [] := by
  have hc := h c
  unfold caseAll at hc
  cases hcs : cs c with
  | none => rw [piece_ofCase_none cs c rest hcs]; simp
  | some e =>
    rw [hcs] at hc
    rw [piece_ofCase_some cs c rest e hcs]
    intro he
    subst he
    simp at hc

theorem case_out_all (cs : UInt8 → Option Bytes) (p : UInt8 → Bool)
    (h : ∀ c, caseAll cs p c = true) (s : Bytes) :
    (simple (fun c _ => ofCase (cs c)) s).all p = true :=
  simple_all _ p (piece_case_all cs p h) s

/-! ### scanners: sufficient byte conditions -/

theorem dataConfined_of_all (out : Bytes) (h : out.all (fun c => c != 0x3C) = true) :
    dataConfined out = true := by
  unfold dataConfined dataScan
  rw [foldl_fix_all dataStep .data (fun c => c != 0x3C) _ out h]
  · rfl
  · intro c hc
    have : (c == 0x3C) = false := by simpa using hc
    simp [dataStep, this]

theorem attrDq_of_all (out : Bytes) (h : out.all (fun c => c != 0x22) = true) :
    attrDqConfined out = true := by
  unfold attrDqConfined attrScan
  rw [foldl_fix_all attrStep .dq (fun c => c != 0x22) _ out h]
  · rfl
  · intro c hc
    have : (c == 0x22) = false := by simpa using hc
    simp [attrStep, this]

theorem attrSq_of_all (out : Bytes) (h : out.all (fun c => c != 0x27) = true) :
    attrSqConfined out = true := by
  unfold attrSqConfined attrScan
  rw [foldl_fix_all attrStep .sq (fun c => c != 0x27) _ out h]
  · rfl
  · intro c hc
    have : (c == 0x27) = false := by simpa using hc
    simp [attrStep, this]

/-- script / style element content: without a `<` the scan never leaves the `d` state -/
theorem rawText_of_all (out : Bytes) (h : out.all (fun c => c != 0x3C) = true) :
    rawTextConfined out = true := by
  unfold rawTextConfined rawScan
  rw [foldl_fix_all rawStep .d (fun c => c != 0x3C) _ out h]
  · rfl
  · intro c hc
    have : (c == 0x3C) = false := by simpa using hc
    simp [rawStep, this]

/-- a byte that neither ends an unquoted value nor, as its first byte, opens a quoted one -/
def unqOk (c : UInt8) : Bool := !(htmlWs c || c == 0x3E || c == 0x22 || c == 0x27)

theorem attrStep_before_unqOk (c : UInt8) (h : unqOk c = true) : attrStep .before c = .unq := by
  simp only [unqOk, Bool.not_eq_true', Bool.or_eq_false_iff] at h
  obtain ⟨⟨⟨h1, h2⟩, h3⟩, h4⟩ := h
  simp [attrStep, h1, h2, h3, h4]

theorem attrStep_unq_unqOk (c : UInt8) (h : unqOk c = true) : attrStep .unq c = .unq := by
  simp only [unqOk, Bool.not_eq_true', Bool.or_eq_false_iff] at h
  obtain ⟨⟨⟨h1, h2⟩, _⟩, _⟩ := h
  simp [attrStep, h1, h2]

theorem attrUnq_of_all (out : Bytes) (hne : out ≠ []) (h : out.all unqOk = true) :
    attrUnqConfined out = true := by
  unfold attrUnqConfined attrScan
  cases out with
  | nil => exact absurd rfl hne
  | cons c t =>
    simp only [List.all_cons, Bool.and_eq_true] at h
    simp only [List.foldl_cons]
    rw [attrStep_before_unqOk c h.1, foldl_fix_all attrStep .unq unqOk attrStep_unq_unqOk t h.2]
    rfl

/-! ### character references -/

def noAmp (t : Bytes) : Bool := t.all (fun c => c != 0x26)

theorem startsWith_append (r e t : Bytes) (h : startsWith r e = true) :
    startsWith r (e ++ t) = true := by
  unfold startsWith at h ⊢
  rw [List.isPrefixOf_iff_prefix] at h ⊢
  exact h.trans (List.prefix_append e t)

theorem refsClosed_skip (allowed : List Bytes) (tl t : Bytes) (h : noAmp tl = true) :
    refsClosed allowed (tl ++ t) = refsClosed allowed t := by
  induction tl with
  | nil => rfl
  | cons c tl ih =>
    simp only [noAmp, List.all_cons, Bool.and_eq_true] at h
    have hc : (c == 0x26) = false := by simpa using h.1
    simp only [List.cons_append, refsClosed, hc, Bool.false_eq_true, if_false, Bool.true_and]
    exact ih h.2

/-- `e` is `&` + bytes without `&`, and starts with one of the allowed references -/
def refPiece (allowed : List Bytes) (e : Bytes) : Bool :=
  match e with
  | [] => false
  | a :: tl => a == 0x26 && noAmp tl && allowed.any (fun r => startsWith r (a :: tl))

theorem refsClosed_piece (allowed : List Bytes) (e t : Bytes) (h : refPiece allowed e = true) :
    refsClosed allowed (e ++ t) = refsClosed allowed t := by
  match e, h with
  | a :: tl, h =>
    simp only [refPiece, Bool.and_eq_true, beq_iff_eq] at h
    obtain ⟨⟨ha, htl⟩, hany⟩ := h
    subst ha
    have hany' : allowed.any (fun r => startsWith r (0x26 :: (tl ++ t))) = true := by
      rw [List.any_eq_true] at hany ⊢
      obtain ⟨r, hr, hs⟩ := hany
      exact ⟨r, hr, startsWith_append r (0x26 :: tl) t hs⟩
    simp only [List.cons_append, refsClosed, beq_self_eq_true, if_true, hany', Bool.true_and]
    exact refsClosed_skip allowed tl t htl

/-- per byte: an entry is a reference piece, a byte written unchanged is not `&` -/
def refFact (allowed : List Bytes) (cs : UInt8 → Option Bytes) (c : UInt8) : Bool :=
  match cs c with
  | some e => refPiece allowed e
  | none => c != 0x26

theorem refsClosed_out (allowed : List Bytes) (cs : UInt8 → Option Bytes)
    (h : ∀ c, refFact allowed cs c = true) (s : Bytes) :
    refsClosed allowed (simple (fun c _ => ofCase (cs c)) s) = true := by
  induction s with
  | nil => rfl
  | cons c rest ih =>
    simp only [simple]
    have hc := h c
    unfold refFact at hc
    cases hcs : cs c with
    | none =>
      rw [hcs] at hc
      have hc' : (c == 0x26) = false := by simpa using hc
      rw [piece_ofCase_none cs c rest hcs]
      simp only [List.cons_append, List.nil_append, refsClosed, hc', Bool.false_eq_true, if_false,
        Bool.true_and]
      exact ih
    | some e =>
      rw [hcs] at hc
      rw [piece_ofCase_some cs c rest e hcs, refsClosed_piece allowed e _ hc]
      exact ih

/-! the same for `refsNamedOrDec` -/

/-- the test `refsNamedOrDec` makes at an `&` -/
def ndHead (e : Bytes) : Bool :=
  startsWith [38, 97, 109, 112, 59] e || startsWith [38, 108, 116, 59] e ||
  startsWith [38, 103, 116, 59] e || isDecRef2 e

theorem isDecRef2_append (e t : Bytes) (h : isDecRef2 e = true) : isDecRef2 (e ++ t) = true := by
  match e, h with
  | a :: b :: d1 :: d2 :: z :: r, h => simpa [isDecRef2] using h

theorem ndHead_append (e t : Bytes) (h : ndHead e = true) : ndHead (e ++ t) = true := by
  unfold ndHead at h ⊢
  simp only [Bool.or_eq_true] at h ⊢
  rcases h with ((h | h) | h) | h
  · exact Or.inl (Or.inl (Or.inl (startsWith_append _ e t h)))
  · exact Or.inl (Or.inl (Or.inr (startsWith_append _ e t h)))
  · exact Or.inl (Or.inr (startsWith_append _ e t h))
  · exact Or.inr (isDecRef2_append e t h)

theorem refsNamedOrDec_cons (c : UInt8) (rest : Bytes) :
    refsNamedOrDec (c :: rest) =
      ((if c == 0x26 then ndHead (c :: rest) else true) && refsNamedOrDec rest) := by
  simp only [refsNamedOrDec, ndHead]

theorem refsNamedOrDec_skip (tl t : Bytes) (h : noAmp tl = true) :
    refsNamedOrDec (tl ++ t) = refsNamedOrDec t := by
  induction tl with
  | nil => rfl
  | cons c tl ih =>
    simp only [noAmp, List.all_cons, Bool.and_eq_true] at h
    have hc : (c == 0x26) = false := by simpa using h.1
    rw [List.cons_append, refsNamedOrDec_cons]
    simp only [hc, Bool.false_eq_true, if_false, Bool.true_and]
    exact ih h.2

def ndPiece (e : Bytes) : Bool :=
  match e with
  | [] => false
  | a :: tl => a == 0x26 && noAmp tl && ndHead (a :: tl)

theorem refsNamedOrDec_piece (e t : Bytes) (h : ndPiece e = true) :
    refsNamedOrDec (e ++ t) = refsNamedOrDec t := by
  match e, h with
  | a :: tl, h =>
    simp only [ndPiece, Bool.and_eq_true, beq_iff_eq] at h
    obtain ⟨⟨ha, htl⟩, hhead⟩ := h
    subst ha
    have hh := ndHead_append (0x26 :: tl) t hhead
    rw [List.cons_append] at hh ⊢
    rw [refsNamedOrDec_cons]
    simp only [beq_self_eq_true, if_true, hh, Bool.true_and]
    exact refsNamedOrDec_skip tl t htl

def ndFact (cs : UInt8 → Option Bytes) (c : UInt8) : Bool :=
  match cs c with
  | some e => ndPiece e
  | none => c != 0x26

theorem refsNamedOrDec_out (cs : UInt8 → Option Bytes) (h : ∀ c, ndFact cs c = true) (s : Bytes) :
    refsNamedOrDec (simple (fun c _ => ofCase (cs c)) s) = true := by
  induction s with
  | nil => rfl
  | cons c rest ih =>
    simp only [simple]
    have hc := h c
    unfold ndFact at hc
    cases hcs : cs c with
    | none =>
      rw [hcs] at hc
      have hc' : (c == 0x26) = false := by simpa using hc
      rw [piece_ofCase_none cs c rest hcs, List.singleton_append, refsNamedOrDec_cons]
      simp only [hc', Bool.false_eq_true, if_false, Bool.true_and]
      exact ih
    | some e =>
      rw [hcs] at hc
      rw [piece_ofCase_some cs c rest e hcs, refsNamedOrDec_piece e _ hc]
      exact ih

/-! ### the escapers as per-byte substitutions -/

theorem htmlEscapeOut_eq (s : Bytes) :
    htmlEscapeOut s = simple (fun c _ => ofCase (htmlEscapeCase c)) s := by
  simp [htmlEscapeOut, htmlEscapeChunks, escLoop_flatten]

/-- the `switch` table `attributeEscape` runs with -/
def attrCase (ee quoted : Bool) : UInt8 → Option Bytes :=
  if quoted then (if ee then htmlEscapeCase else htmlNoEntitiesEscapeCase)
  else attributeEscapeCase ee

theorem attributeEscapeOut_eq (ee quoted : Bool) (s : Bytes) :
    attributeEscapeOut ee quoted s = simple (fun c _ => ofCase (attrCase ee quoted c)) s := by
  cases quoted <;> cases ee <;>
    simp [attributeEscapeOut, attributeEscapeChunks, htmlEscapeChunks, htmlNoEntitiesEscapeChunks,
      attrCase, escLoop_flatten]

/-! ### table facts (all 256 bytes) -/

/-- what a quoted value / a text node must not contain: `<`, `"`, `'` -/
def pQuoted (c : UInt8) : Bool := c != 0x3C && c != 0x22 && c != 0x27

def quotedFact (c : UInt8) : Bool :=
  caseAll htmlEscapeCase pQuoted c && caseAll htmlNoEntitiesEscapeCase pQuoted c

theorem quotedFact_all : ∀ c, quotedFact c = true := allBytes_spec (by decide +kernel)

theorem attrCase_quoted_all (ee : Bool) : ∀ c, caseAll (attrCase ee true) pQuoted c = true := by
  intro c
  have h := quotedFact_all c
  simp only [quotedFact, Bool.and_eq_true] at h
  cases ee
  · exact h.2
  · exact h.1

/-- what an unquoted value must not contain: white space, `>`, and the five bytes the
unquoted state flags (`"` `'` `<` `=` `` ` ``) -/
def pUnq (c : UInt8) : Bool :=
  unqOk c && !(c == 0x22 || c == 0x27 || c == 0x3C || c == 0x3D || c == 0x60)

def unqFact (c : UInt8) : Bool :=
  caseAll (attributeEscapeCase true) pUnq c && caseAll (attributeEscapeCase false) pUnq c

theorem unqFact_all : ∀ c, unqFact c = true := allBytes_spec (by decide +kernel)

theorem attrCase_unq_all (ee : Bool) : ∀ c, caseAll (attrCase ee false) pUnq c = true := by
  intro c
  have h := unqFact_all c
  simp only [unqFact, Bool.and_eq_true] at h
  cases ee
  · exact h.2
  · exact h.1

theorem htmlRefFact_all : ∀ c, refFact fiveRefs htmlEscapeCase c = true :=
  allBytes_spec (by decide +kernel)

theorem attrNdFact_all : ∀ c, ndFact (attributeEscapeCase true) c = true :=
  allBytes_spec (by decide +kernel)

/-! ### the theorems -/

theorem attrQuoted_all (ee : Bool) (s : Bytes) :
    (attributeEscapeOut ee true s).all pQuoted = true := by
  rw [attributeEscapeOut_eq]
  exact case_out_all _ pQuoted (attrCase_quoted_all ee) s

theorem htmlEscapeOut_attr (s : Bytes) : htmlEscapeOut s = attributeEscapeOut true true s := by
  rw [htmlEscapeOut_eq, attributeEscapeOut_eq]
  rfl

/-- **text node**: the output of `htmlEscape` contains no `<`, so the tokenizer stays in the
data state -/
theorem htmlEscape_data (s : Bytes) : dataConfined (htmlEscapeOut s) = true := by
  rw [htmlEscapeOut_attr]
  apply dataConfined_of_all
  refine all_mono pQuoted _ ?_ _ (attrQuoted_all true s)
  intro c hc
  simp only [pQuoted, Bool.and_eq_true] at hc
  exact hc.1.1

/-- every `&` in the output of `htmlEscape` starts one of `&amp;` `&lt;` `&gt;` `&#34;` `&#39;` -/
theorem htmlEscape_refs (s : Bytes) : refsClosed fiveRefs (htmlEscapeOut s) = true := by
  rw [htmlEscapeOut_eq]
  exact refsClosed_out fiveRefs htmlEscapeCase htmlRefFact_all s

/-- **`name="{{ v }}"`** -/
theorem attrQuoted_dq (ee : Bool) (s : Bytes) :
    attrDqConfined (attributeEscapeOut ee true s) = true := by
  apply attrDq_of_all
  refine all_mono pQuoted _ ?_ _ (attrQuoted_all ee s)
  intro c hc
  simp only [pQuoted, Bool.and_eq_true] at hc
  exact hc.1.2

/-- **`name='{{ v }}'`** -/
theorem attrQuoted_sq (ee : Bool) (s : Bytes) :
    attrSqConfined (attributeEscapeOut ee true s) = true := by
  apply attrSq_of_all
  refine all_mono pQuoted _ ?_ _ (attrQuoted_all ee s)
  intro c hc
  simp only [pQuoted, Bool.and_eq_true] at hc
  exact hc.2

/-- a quoted value contains no `<` either -/
theorem attrQuoted_data (ee : Bool) (s : Bytes) :
    dataConfined (attributeEscapeOut ee true s) = true := by
  apply dataConfined_of_all
  refine all_mono pQuoted _ ?_ _ (attrQuoted_all ee s)
  intro c hc
  simp only [pQuoted, Bool.and_eq_true] at hc
  exact hc.1.1

theorem attrQuoted_refs (s : Bytes) :
    refsClosed fiveRefs (attributeEscapeOut true true s) = true := by
  rw [← htmlEscapeOut_attr]
  exact htmlEscape_refs s

theorem attrUnq_all (ee : Bool) (s : Bytes) :
    (attributeEscapeOut ee false s).all pUnq = true := by
  rw [attributeEscapeOut_eq]
  exact case_out_all _ pUnq (attrCase_unq_all ee) s

/-- **`name={{ v }}`**, non-empty value: the tokenizer enters the unquoted state at the first
byte written and is still in it after the last -/
theorem attrUnq_confined (ee : Bool) (s : Bytes) (h : s ≠ []) :
    attrUnqConfined (attributeEscapeOut ee false s) = true := by
  apply attrUnq_of_all
  · rw [attributeEscapeOut_eq]
    exact simple_ne_nil _ (piece_case_ne_nil _ pUnq (attrCase_unq_all ee)) s h
  · refine all_mono pUnq _ ?_ _ (attrUnq_all ee s)
    intro c hc
    simp only [pUnq, Bool.and_eq_true] at hc
    exact hc.1

theorem attrUnq_clean (ee : Bool) (s : Bytes) :
    unqClean (attributeEscapeOut ee false s) = true := by
  unfold unqClean
  refine all_mono pUnq _ ?_ _ (attrUnq_all ee s)
  intro c hc
  simp only [pUnq, Bool.and_eq_true] at hc
  exact hc.2

theorem attrUnq_refs (s : Bytes) : refsNamedOrDec (attributeEscapeOut true false s) = true := by
  rw [attributeEscapeOut_eq]
  exact refsNamedOrDec_out (attributeEscapeCase true) attrNdFact_all s

/-- the empty value writes nothing: the tokenizer is still BEFORE the value, so the slot
collapses (what follows `name=` in the template becomes the value) -/
theorem attrUnq_empty (ee : Bool) : attrScan .before (attributeEscapeOut ee false []) = .before := by
  cases ee <;> rfl

end ScriggoV.Slots
