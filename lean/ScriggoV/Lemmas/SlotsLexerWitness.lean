import ScriggoV.Model.Lexer
/-! C06 layer 2 — only the REFUTATION side. `lexer.go`'s context at a hole inside a script is
compared with the lexical state of a reference ECMAScript scanner (strings, template literals,
regular-expression literals with the usual "previous token" rule, comments). The full statement
`ScriptCtxAgree` is false of today's lexer; it is refuted on b-c04c21's lexer model
(`Model/Lexer`, tied to lexer.go by C04/C21's correspondence) by two concrete scripts (a third, a
string ending in an escaped backslash, has been repaired: `backslashWitness_ctx` now states agreement). No
positive (`_partial`) theorem is proved: agreement on the class without regex and template literals is covered
only by the end-to-end oracle of go/props/c06. -/
namespace ScriggoV.Slots.LexerWitness
open ScriggoV ScriggoV.Lexer ScriggoV.Gen.LexTables

/-- ASCII-exact character classes (the witnesses are ASCII) -/
def asciiU : Unicode where
  isLetter := fun r => (65 ≤ r && r ≤ 90) || (97 ≤ r && r ≤ 122)
  isDigit := fun r => 48 ≤ r && r ≤ 57
  isGraphic := fun r => 32 ≤ r && r ≤ 126
  isNonchar := fun _ => false
  isSpace := fun r => r == 32 || (9 ≤ r && r ≤ 13)
  toLower := fun r => if 65 ≤ r && r ≤ 90 then r + 32 else r

/-- the contexts the model lexer gives to the `{{` tokens of an HTML template -/
def holeCtxs (text : Bytes) : Option (List Nat) :=
  match scanTemplate asciiU FormatHTML false text with
  | .ok (toks, none) => some ((toks.filter (fun t => t.typ == tokenLeftBraces)).map (·.ctx))
  | _ => none

/-! ### reference: ECMAScript lexical state at the end of a script prefix -/
inductive JsSt
  | code (regexOk : Bool)        -- between tokens; `regexOk`: a `/` here starts a regex literal
  | slash (regexOk : Bool)       -- just after a `/`
  | str (q : UInt8) | strEsc (q : UInt8)
  | tmpl | tmplEsc
  | regex (inClass : Bool) | regexEsc (inClass : Bool)
  | lineC | blockC | blockCStar
  deriving DecidableEq, Repr

def isIdentByte (c : UInt8) : Bool :=
  (48 ≤ c && c ≤ 57) || (65 ≤ c && c ≤ 90) || (97 ≤ c && c ≤ 122) || c == 95 || c == 36

def codeStep (ro : Bool) (c : UInt8) : JsSt :=
  if c == 0x22 || c == 0x27 then .str c
  else if c == 0x60 then .tmpl
  else if c == 0x2F then .slash ro
  else if c == 32 || c == 9 || c == 10 || c == 13 then .code ro
  else if isIdentByte c || c == 0x29 || c == 0x5D || c == 0x7D then .code false
  else .code true

def regexStep (cls : Bool) (c : UInt8) : JsSt :=
  if c == 0x5C then .regexEsc cls
  else if c == 10 || c == 13 then .code true
  else if c == 0x5B then .regex true
  else if c == 0x5D then .regex false
  else if c == 0x2F && !cls then .code false
  else .regex cls

def jsStep : JsSt → UInt8 → JsSt
  | .code ro, c => codeStep ro c
  | .slash ro, c =>
    if c == 0x2F then .lineC else if c == 0x2A then .blockC
    else if ro then regexStep false c else codeStep true c
  | .str q, c => if c == 0x5C then .strEsc q else if c == q then .code false
                 else if c == 10 || c == 13 then .code true else .str q
  | .strEsc q, _ => .str q
  | .tmpl, c => if c == 0x5C then .tmplEsc else if c == 0x60 then .code false else .tmpl
  | .tmplEsc, _ => .tmpl
  | .regex cls, c => regexStep cls c
  | .regexEsc cls, _ => .regex cls
  | .lineC, c => if c == 10 || c == 13 then .code true else .lineC
  | .blockC, c => if c == 0x2A then .blockCStar else .blockC
  | .blockCStar, c => if c == 0x2F then .code true else if c == 0x2A then .blockCStar else .blockC

def jsRef (p : Bytes) : JsSt := p.foldl jsStep (.code true)

/-- the Scriggo context that abstracts a reference state: a hole inside a string literal is
JSString, everywhere else JS -/
def ctxOf : JsSt → Nat
  | .str _ => ContextJSString
  | .strEsc _ => ContextJSString
  | _ => ContextJS

def scriptOpen : Bytes := [60, 115, 99, 114, 105, 112, 116, 62]                       -- <script>
def holeClose : Bytes := [123, 123, 32, 115, 32, 125, 125, 60, 47, 115, 99, 114, 105, 112, 116, 62]  -- {{ s }}</script>

/-- The full statement (layer 2, restricted to inline scripts): for every ASCII script prefix `p`
without `<` and `{`, the context of the hole in `<script>p{{ s }}</script>` abstracts the
reference lexical state after `p`. -/
def ScriptCtxAgree : Prop :=
  ∀ p : Bytes, (∀ c ∈ p, c.toNat < 128 ∧ c ≠ 0x3C ∧ c ≠ 0x7B) →
    holeCtxs (scriptOpen ++ p ++ holeClose) = some [ctxOf (jsRef p)]

/-- `var r = /"/; var x = ` — a quote inside a regular-expression literal -/
def regexWitness : Bytes :=
  [118, 97, 114, 32, 114, 32, 61, 32, 47, 34, 47, 59, 32, 118, 97, 114, 32, 120, 32, 61, 32]
/-- ``var t = `"`; var x = `` — a quote inside a template literal -/
def templateWitness : Bytes :=
  [118, 97, 114, 32, 116, 32, 61, 32, 96, 34, 96, 59, 32, 118, 97, 114, 32, 120, 32, 61, 32]
/-- `var p = "C:\\"; var x = ` — a string literal ending in an escaped backslash -/
def backslashWitness : Bytes :=
  [118, 97, 114, 32, 112, 32, 61, 32, 34, 67, 58, 92, 92, 34, 59, 32, 118, 97, 114, 32, 120, 32, 61, 32]

theorem regexWitness_ctx :
    holeCtxs (scriptOpen ++ regexWitness ++ holeClose) = some [ContextJSString] ∧
    ctxOf (jsRef regexWitness) = ContextJS := by decide +kernel

theorem templateWitness_ctx :
    holeCtxs (scriptOpen ++ templateWitness ++ holeClose) = some [ContextJSString] ∧
    ctxOf (jsRef templateWitness) = ContextJS := by decide +kernel

/-- REPAIRED (8287339, finding string-escaped-backslash-desync closed): after a string literal that
ends in an escaped backslash the model lexer is in code position, as the reference is (it was in
JSString: `\"` was read as an escaped quote) -/
theorem backslashWitness_ctx :
    holeCtxs (scriptOpen ++ backslashWitness ++ holeClose) = some [ContextJS] ∧
    ctxOf (jsRef backslashWitness) = ContextJS := by decide +kernel

/-- a benign script on which the two agree (the statement is not vacuous): `var x = ` and
`var y = "a` -/
theorem agree_examples :
    holeCtxs (scriptOpen ++ [118, 97, 114, 32, 120, 32, 61, 32] ++ holeClose) = some [ContextJS] ∧
    ctxOf (jsRef [118, 97, 114, 32, 120, 32, 61, 32]) = ContextJS ∧
    holeCtxs (scriptOpen ++ [118, 97, 114, 32, 121, 32, 61, 32, 34, 97] ++ holeClose) = some [ContextJSString] ∧
    ctxOf (jsRef [118, 97, 114, 32, 121, 32, 61, 32, 34, 97]) = ContextJSString := by decide +kernel

theorem scriptCtxAgree_false : ¬ ScriptCtxAgree := by
  intro h
  have h1 := h regexWitness (by decide)
  rw [regexWitness_ctx.1, regexWitness_ctx.2] at h1
  revert h1
  decide

end ScriggoV.Slots.LexerWitness
