import ScriggoV.Lemmas.LexCtxAllShow
import ScriggoV.Lemmas.LexCtxAllStep
/-! # C06 layer 2, EVERY hole: the main loop of the full lexer model against the reference tokenizer

`LexCtxSim` proves the agreement of the lexer's context with the reference HTML tokenizer at the
FIRST hole of a template. Here the reference reads the template text as it is, show statements
included, and the statement is about every hole the main loop of the FULL model (`Lexer.step`,
`Model/Lexer/Template.lean`) comes to, as long as the shows passed so far are neutral
(`{{` letters / digits / `_` / `.` `}}`) and stand at stable points (`LexCtxAllShow`).

* `Track E st lp`: the states the main loop goes through, from the state in which
  `scanTemplateBody` enters it, by iterations at delimiter-free positions (`plain`) and iterations
  at a `{{` whose show is neutral and stands at a stable point (`neutral`).
* `track_agree`: at every such state the simulation relation `R` of `LexCtxSimBasic` holds between
  the projection of the lexer state and the reference run over the real text — provided a hole lies
  ahead (or here) up to which the text is in the class `D`.
* `track_show_ctx`: at every hole reached, the lexer's context and URL flag are the abstraction of
  the reference state. `track_show_tok`: the `{{` token the iteration pushes carries that context.
Core Lean only. -/
namespace ScriggoV.LexCtx
open ScriggoV ScriggoV.Lexer ScriggoV.Gen.LexTables ScriggoV.HtmlTok

/-- the lexer state in which `scanTemplateBody` enters the main loop for an HTML file (no shebang line):
the initial state after `l.base = l.ctx` -/
def st0 : St := { initSt FormatHTML ContextHTML with lbase := (initSt FormatHTML ContextHTML).ctx }

/-- the loop variables in which `scanTemplateBody` enters the main loop -/
def lp0 : Loop :=
  { p := 0, lin := st0.line, tcol := st0.col, quote := 0, emittedURL := false, jsComment := 0, spacesOnly := true }

/-- The states the main loop of the full model goes through on an HTML template, with the side
conditions on the template made explicit: every iteration is either at a position where no
delimiter starts, or at a `{{` that stands at a stable point of the reference run and whose show
(the bytes up to where the next iteration starts) is neutral. -/
inductive Track (E : Env) : St → Loop → Prop
  | init : Track E st0 lp0
  | plain {st lp st' lp'} : Track E st lp → lp.p < srcLen E st → delimAt E.text (st.base + lp.p) = false →
      step E st lp = .ok (.cont st' lp') → Track E st' lp'
  | neutral {st lp st' lp'} : Track E st lp → E.text[st.base + lp.p]? = some 0x7b →
      E.text[st.base + lp.p + 1]? = some 0x7b → stable (rs E.text (st.base + lp.p)) →
      step E st lp = .ok (.cont st' lp') →
      NeutralShow E.text (st.base + lp.p) (st'.base + lp'.p) → Track E st' lp'

theorem delimAt_hole {text : Bytes} {lo n : Nat} (H : Hole text lo n) : delimAt text n = true := by
  obtain ⟨d, hd, hdd⟩ := H.at1
  unfold delimAt
  rw [H.at0, hd]
  rcases hdd with rfl | rfl | rfl <;> rfl

/-- the hole hypotheses do not depend on where the delimiter-free stretch starts, once it is empty -/
theorem Hole.self {text : Bytes} {lo n : Nat} (H : Hole text lo n) : Hole text n n :=
  ⟨H.at0, H.at1, fun i h1 h2 => by omega, H.good, H.habs⟩

/-- a `{{` at a stable point up to which the text is in `D` is a hole -/
theorem Hole.of_show {text : Bytes} {a : Nat} (h0 : text[a]? = some 0x7b) (h1 : text[a + 1]? = some 0x7b)
    (hst : stable (rs text a)) (hgood : ∀ i, i ≤ a → rs text i ≠ .bad) : Hole text a a := by
  obtain ⟨_, c, u, habs, _⟩ := hst
  exact ⟨h0, ⟨_, h1, Or.inl rfl⟩, fun i h1 h2 => by omega, hgood, by rw [habs]; simp⟩

/-- the invariants carried along `Track` -/
theorem track_all {E : Env} (hE : E.noParseShow = false) {st : St} {lp : Loop} (h : Track E st lp) :
    LoopInv E st lp ∧ htmlFamily st.ctx ∧ htmlFamily st.tagCtx ∧ st.lbase = ContextHTML ∧ Bal st ∧
    ∀ n, st.base + lp.p ≤ n → Hole E.text n n → R E.text (proj st lp) (rs E.text (st.base + lp.p)) := by
  induction h with
  | init =>
    refine ⟨⟨Nat.zero_le _, Nat.zero_le _, Nat.le_refl _⟩, by decide, by decide, rfl, rfl, ?_⟩
    intro n _ _
    exact R_init _
  | @plain st lp st' lp' _ hlt hd hs ih =>
    obtain ⟨hI, hf, hft, hlb, hB, hR⟩ := ih
    obtain ⟨st1, lp1, hs1, hp, hI1, _, hmu, hf1, hft1, _, hlb1, hB1⟩ := step_refines hI hlt hf hft hd hlb hB
    rw [hs] at hs1
    injection hs1 with hs1
    injection hs1 with e1 e2
    subst e1 e2
    refine ⟨hI1, hf1, hft1, hlb1, hB1, ?_⟩
    intro n hn H
    have hmono : st.base + lp.p ≤ st'.base + lp'.p := by
      have h1 := hI1.pos_le
      have h2 := hI.pos_le
      have h3 := attrCtx_le st.ctx
      unfold Lexer.mu at hmu
      omega
    have hne : st.base + lp.p ≠ n := by
      intro h
      have := delimAt_hole H
      rw [← h, hd] at this
      cases this
    have hltn : (proj st lp).pos < n := by show st.base + lp.p < n; omega
    have hR0 := hR n (by omega) H
    obtain ⟨_, h2, _⟩ := step_all (U := E.U) H hltn hR0
    rw [← hp] at h2
    exact h2
  | @neutral st lp st' lp' _ h0 h1 hst hs hN ih =>
    obtain ⟨hI, hf, hft, hlb, hB, hR⟩ := ih
    obtain ⟨o, tok, older, newer, hso, hg, _, _, _, _, _, hcont⟩ := show_step hI hf hft hE h0 h1 hB
    rw [hs] at hso
    injection hso with hso
    subst hso
    obtain ⟨hp, hp0, hf1, hft1, hlb1, _⟩ := hcont st' lp' rfl
    refine ⟨hg.1, hf1, hft1, hlb1.trans hlb, hg.2.1.bal hB, ?_⟩
    intro n hn H
    have hae : st.base + lp.p + 4 ≤ st'.base + lp'.p := hN.1
    have hgood : ∀ i, i ≤ st.base + lp.p → rs E.text i ≠ .bad := fun i hi => H.good i (by omega)
    have hR0 := hR _ (Nat.le_refl _) (Hole.of_show h0 h1 hst hgood)
    have hnb : rs E.text (st'.base + lp'.p) ≠ .bad := H.good _ hn
    obtain ⟨h2, _⟩ := R_across_show hR0 rfl hN hst hnb
    rw [hp]
    exact h2

/-- **Every hole, the relation.** Along the main loop of the full model — over delimiter-free
stretches and across neutral shows at stable points — the simulation relation holds between the
projection of the lexer state and the reference run over the real text up to the lexer's position,
provided that a hole lies at some `n` at or after that position, with the text in the class `D` up
to `n` and a claim of the abstraction at `n` (`Hole E.text n n`; obtain it from any `Hole E.text lo n`
by `Hole.self`). -/
theorem track_agree {E : Env} {st : St} {lp : Loop} (hE : E.noParseShow = false) (h : Track E st lp)
    {n : Nat} (hn : st.base + lp.p ≤ n) (H : Hole E.text n n) :
    R E.text (proj st lp) (rs E.text (st.base + lp.p)) ∧
      LoopInv E st lp ∧ htmlFamily st.ctx ∧ htmlFamily st.tagCtx := by
  obtain ⟨h1, h2, h3, _, _, h4⟩ := track_all hE h
  exact ⟨h4 n hn H, h1, h2, h3⟩

/-- **Every hole, the context.** Whenever the main loop of the full model, having passed only
neutral shows at stable points, stands at a hole (`{{`, `{%` or `{#`) with the text in `D` up to
there, the lexer's context and its URL flag are the ones that abstract the state of the reference
tokenizer — which has read the whole text before the hole, earlier show statements included. -/
theorem track_show_ctx {E : Env} {st : St} {lp : Loop} (hE : E.noParseShow = false) (h : Track E st lp)
    (hgood : ∀ i, i ≤ st.base + lp.p → rs E.text i ≠ .bad)
    (h0 : E.text[st.base + lp.p]? = some 0x7b)
    (h1 : ∃ d, E.text[st.base + lp.p + 1]? = some d ∧ (d = 0x7b ∨ d = 0x25 ∨ d = 0x23))
    {c : HtmlTok.Ctx} {u : Bool} (ha : abs containsURL (rs E.text (st.base + lp.p)) = some (c, u)) :
    st.ctx = ctxNat c ∧ lp.emittedURL = u := by
  have H : Hole E.text (st.base + lp.p) (st.base + lp.p) :=
    ⟨h0, h1, fun i h1 h2 => by omega, hgood, by rw [ha]; simp⟩
  obtain ⟨hR, _⟩ := track_agree hE h (Nat.le_refl _) H
  exact R_readout hR h0 ha

/-- **Every hole, the token.** At a `{{` reached along `Track` the iteration of the main loop
returns without fault and pushes, below whatever `lexShow` emits and above the flushed Text token,
a `{{` token that starts at the hole and carries the context the reference tokenizer prescribes. -/
theorem track_show_tok {E : Env} {st : St} {lp : Loop} (hE : E.noParseShow = false) (h : Track E st lp)
    (hgood : ∀ i, i ≤ st.base + lp.p → rs E.text i ≠ .bad)
    (h0 : E.text[st.base + lp.p]? = some 0x7b) (h1 : E.text[st.base + lp.p + 1]? = some 0x7b)
    {c : HtmlTok.Ctx} {u : Bool} (ha : abs containsURL (rs E.text (st.base + lp.p)) = some (c, u)) :
    ∃ (o : Out) (tok : Tok) (older newer : List Tok), step E st lp = .ok o ∧ OutGood E st lp o ∧
      Flushed st lp older ∧ (outSt o).toks = newer ++ tok :: older ∧ tok.typ = tokenLeftBraces ∧
      tok.ctx = ctxNat c ∧ tok.start = ((st.base + lp.p : Nat) : Int) ∧ lp.emittedURL = u := by
  obtain ⟨hI, hf, hft, _, hB, _⟩ := track_all hE h
  obtain ⟨hc, hu⟩ := track_show_ctx hE h hgood h0 ⟨_, h1, Or.inl rfl⟩ ha
  obtain ⟨o, tok, older, newer, hso, hg, hfl, htoks, hty, hcx, hstt, _⟩ := show_step hI hf hft hE h0 h1 hB
  exact ⟨o, tok, older, newer, hso, hg, hfl, htoks, hty, by rw [hcx, hc], hstt, hu⟩

end ScriggoV.LexCtx
