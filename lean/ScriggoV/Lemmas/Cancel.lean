import ScriggoV.Model.Cancel
/-! helper lemmas for C11 -/
namespace ScriggoV.Cancel

/-- the invariant "the flag is only ever set after the context was cancelled" -/
def WF (s : Sys) : Prop := s.flag = true → s.ctxClosed = true

theorem blockStep_stop {F : Facts} {c rdy : Bool} {v : VM} {b : Blocked}
    (h : (blockStep F c rdy v b).stop = true) : c = true := by
  unfold blockStep at h
  split at h
  · simp at h
  · split at h
    · rename_i h2; simp at h2; exact h2.2
    · simp at h

/-- a VM calls `vm.stop()` only when the flag is set or the context's channel is closed -/
theorem stepVM_stop {F : Facts} {prog : List Instr} {c flag rdy : Bool} {v : VM}
    (h : (stepVM F prog c flag rdy v).stop = true) : flag = true ∨ c = true := by
  unfold stepVM at h
  split at h
  any_goals (simp at h; done)
  · exact Or.inr (blockStep_stop h)
  · split at h
    · rename_i h2; simp at h2; exact Or.inl h2.2
    · split at h
      any_goals (simp at h; done)
      any_goals exact Or.inr (blockStep_stop h)
      · split at h
        · simp at h
        · exact Or.inr (blockStep_stop h)

theorem apply_cancel (F : Facts) (s : Sys) : s.apply F .cancel = { s with ctxClosed := true } := rfl
theorem apply_watch (F : Facts) (s : Sys) :
    s.apply F .watch = if s.ctxClosed then { s with flag := true } else s := rfl
theorem apply_step (F : Facts) (s : Sys) (i : Nat) (rdy : Bool) :
    s.apply F (.step i rdy) = match s.vms[i]? with
      | none => s
      | some v => s.stepAt F i rdy v := rfl

theorem stepAt_flag (F : Facts) (s : Sys) (i : Nat) (rdy : Bool) (v : VM) :
    (s.stepAt F i rdy v).flag
      = (s.flag || ((stepVM F s.prog s.ctxClosed s.flag rdy v).stop && F.stopSetsFlag)) := rfl
theorem stepAt_ctx (F : Facts) (s : Sys) (i : Nat) (rdy : Bool) (v : VM) :
    (s.stepAt F i rdy v).ctxClosed = s.ctxClosed := rfl
theorem stepAt_prog (F : Facts) (s : Sys) (i : Nat) (rdy : Bool) (v : VM) :
    (s.stepAt F i rdy v).prog = s.prog := rfl
theorem stepAt_vms (F : Facts) (s : Sys) (i : Nat) (rdy : Bool) (v : VM) :
    (s.stepAt F i rdy v).vms
      = (s.vms.set i (stepVM F s.prog s.ctxClosed s.flag rdy v).vm)
          ++ (stepVM F s.prog s.ctxClosed s.flag rdy v).spawn.toList := rfl

theorem WF_apply (F : Facts) (s : Sys) (e : Ev) (h : WF s) : WF (s.apply F e) := by
  unfold WF at *
  cases e with
  | cancel => intro _; rfl
  | watch =>
    rw [apply_watch]
    split
    · rename_i hc; intro _; exact hc
    · exact h
  | step i rdy =>
    rw [apply_step]
    split
    · exact h
    · rename_i v hv
      rw [stepAt_flag, stepAt_ctx]
      intro hf
      simp only [Bool.or_eq_true, Bool.and_eq_true] at hf
      rcases hf with hf | ⟨hs, _⟩
      · exact h hf
      · rcases stepVM_stop hs with h1 | h1
        · exact h h1
        · exact h1

theorem flag_mono (F : Facts) (s : Sys) (e : Ev) (h : s.flag = true) : (s.apply F e).flag = true := by
  cases e with
  | cancel => exact h
  | watch => rw [apply_watch]; split <;> simp [h]
  | step i rdy =>
    rw [apply_step]
    split
    · exact h
    · rw [stepAt_flag]; simp [h]

theorem ctx_mono (F : Facts) (s : Sys) (e : Ev) (h : s.ctxClosed = true) :
    (s.apply F e).ctxClosed = true := by
  cases e with
  | cancel => rfl
  | watch => rw [apply_watch]; split <;> simp [h]
  | step i rdy =>
    rw [apply_step]
    split
    · exact h
    · exact h

/-- with the epilogue fact a stopping VM takes its whole goroutine out -/
theorem stopVM_budget (F : Facts) (hF : F.all = true) (v : VM) : budget (stopVM F v).vm = 0 := by
  have he : F.epilogue = true := by
    simp only [Facts.all, Bool.and_eq_true] at hF; exact hF.2
  simp [stopVM, he, budget]

/-- once the flag is set (and hence the context's channel is closed) every own step of a VM uses
up its budget -/
theorem budget_step (F : Facts) (hF : F.all = true) (prog : List Instr) (rdy : Bool) (v : VM) :
    budget (stepVM F prog true true rdy v).vm ≤ budget v - 1 := by
  have hF' := hF
  simp only [Facts.all, Bool.and_eq_true] at hF'
  obtain ⟨⟨⟨⟨⟨h1, h2⟩, h3⟩, h4⟩, h5⟩, _⟩ := hF'
  have hd : ∀ b, F.doneCase b = true := by
    intro b; cases b <;> simp [Facts.doneCase, *]
  have hb : ∀ (w : VM) b, budget (blockStep F true rdy w b).vm ≤ 1 := by
    intro w b
    unfold blockStep
    split
    · simp [budget]
    · simp [hd b, stopVM_budget F hF]
  obtain ⟨pc, st, frames⟩ := v
  cases st with
  | running => simp [stepVM, h1, stopVM_budget F hF]
  | blocked b =>
    have := hb ⟨pc, .blocked b, frames⟩ b
    show budget (blockStep F true rdy ⟨pc, .blocked b, frames⟩ b).vm ≤ 2 - 1
    omega
  | inNative k => cases k <;> simp [stepVM, budget]
  | finishing => simp [stepVM, budget]
  | stopped => simp [stepVM, budget]
  | finished => simp [stepVM, budget]

/-- what an event does to the VM at index `i` -/
theorem apply_vm_other (F : Facts) (s : Sys) (e : Ev) (i : Nat) (v : VM)
    (hv : s.vms[i]? = some v) (hne : ∀ rdy, e ≠ .step i rdy) :
    (s.apply F e).vms[i]? = some v := by
  have hi : i < s.vms.length := by
    rcases Nat.lt_or_ge i s.vms.length with h | h
    · exact h
    · rw [List.getElem?_eq_none h] at hv; cases hv
  cases e with
  | cancel => exact hv
  | watch => rw [apply_watch]; split <;> exact hv
  | step j rdy =>
    have hji : j ≠ i := by intro h; exact hne rdy (by rw [h])
    rw [apply_step]
    split
    · exact hv
    · rw [stepAt_vms, List.getElem?_append_left (by simp [hi])]
      simp [hji, hv]

theorem apply_vm_self (F : Facts) (s : Sys) (i : Nat) (rdy : Bool) (v : VM)
    (hv : s.vms[i]? = some v) :
    (s.apply F (.step i rdy)).vms[i]? = some (stepVM F s.prog s.ctxClosed s.flag rdy v).vm := by
  have hi : i < s.vms.length := by
    rcases Nat.lt_or_ge i s.vms.length with h | h
    · exact h
    · rw [List.getElem?_eq_none h] at hv; cases hv
  rw [apply_step, hv]
  simp only
  rw [stepAt_vms, List.getElem?_append_left (by simp [hi])]
  simp [hi]

theorem prog_apply (F : Facts) (s : Sys) (e : Ev) : (s.apply F e).prog = s.prog := by
  cases e with
  | cancel => rfl
  | watch => rw [apply_watch]; split <;> rfl
  | step i rdy => rw [apply_step]; split <;> rfl

end ScriggoV.Cancel
