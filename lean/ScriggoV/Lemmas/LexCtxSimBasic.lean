import ScriggoV.Model.LexCtx
import ScriggoV.Spec.HtmlTok
/-! # C06 layer 2: the context machine of the lexer simulates the reference tokenizer — basics

Definitions (`ctxNat`, `startsDelim`, `delimFree`, the simulation relation `R`), byte facts,
the reference run as a function of the position (`rs`), and the generic driver that lifts a
one-step simulation to `crun` / `ctxAt`. Core Lean only. -/
namespace ScriggoV.LexCtx
open ScriggoV ScriggoV.Lexer ScriggoV.Gen.LexTables ScriggoV.HtmlTok

def ctxNat : HtmlTok.Ctx → Nat
  | .html => ContextHTML | .tag => ContextTag | .quotedAttr => ContextQuotedAttr
  | .unquotedAttr => ContextUnquotedAttr
  | .js => ContextJS | .jsString => ContextJSString | .css => ContextCSS | .cssString => ContextCSSString

/-- `t` starts with a show / statement / comment delimiter `{{`, `{%`, `{#` -/
def startsDelim (t : Bytes) : Prop :=
  ∃ d rest, t = 0x7b :: d :: rest ∧ (d = 0x7b ∨ d = 0x25 ∨ d = 0x23)

/-- no delimiter (`{{ {% {# #}`) starts inside the prefix of length n -/
def delimFree (text : Bytes) (n : Nat) : Prop := ∀ i, i < n → delimAt text i = false

/-! ## constants -/

theorem strBytes_type : strBytes "type" = sType := by decide +kernel
theorem strBytes_script : strBytes "script" = sScript := by decide +kernel
theorem strBytes_style : strBytes "style" = sStyle := by decide +kernel

/-! ## the reference run as a function of the position -/

/-- the reference state after the first `i` bytes of `text` -/
def rs (text : Bytes) (i : Nat) : RSt := run (text.take i)

theorem rs_zero (text : Bytes) : rs text 0 = .data := by simp [rs, run]

theorem rs_succ {text : Bytes} {i : Nat} {c : UInt8} (h : text[i]? = some c) :
    rs text (i + 1) = rstep (rs text i) c := by
  simp [rs, run, List.take_add_one, h, List.foldl_append]

theorem foldl_bad (l : Bytes) : l.foldl rstep .bad = .bad := by
  induction l with
  | nil => rfl
  | cons c l ih => simpa [List.foldl_cons, rstep] using ih

theorem rs_add (text : Bytes) (i k : Nat) :
    rs text (i + k) = ((text.drop i).take k).foldl rstep (rs text i) := by
  simp only [rs, run]
  rw [← List.foldl_append]
  congr 1
  rw [List.take_add]

theorem rs_bad_mono {text : Bytes} {i j : Nat} (hij : i ≤ j) (h : rs text i = .bad) : rs text j = .bad := by
  obtain ⟨k, rfl⟩ := Nat.exists_eq_add_of_le hij
  rw [rs_add, h, foldl_bad]

/-! ## the hypotheses on the template: a hole at `n`, no delimiter in `[lo, n)`, prefix in `D` -/

/-- `n` is the next hole after the offset `lo`: a delimiter opens at `n`, none starts in `[lo, n)`,
the reference run over the REAL text up to `n` stays in the class `D` and makes a claim at `n`.
(`lo = 0`: the first hole. `free` is used by `crun_sim` only — the one-step lemmas hold for
every `lo`, in particular for `lo = n`, where `free` is vacuous.) -/
structure Hole (text : Bytes) (lo n : Nat) : Prop where
  at0 : text[n]? = some 0x7b
  at1 : ∃ d, text[n + 1]? = some d ∧ (d = 0x7b ∨ d = 0x25 ∨ d = 0x23)
  free : ∀ i, lo ≤ i → i < n → delimAt text i = false
  good : ∀ i, i ≤ n → rs text i ≠ .bad
  habs : abs containsURL (rs text n) ≠ none

theorem Hole.lt_length {text : Bytes} {lo n : Nat} (H : Hole text lo n) : n + 1 < text.length := by
  obtain ⟨d, hd, _⟩ := H.at1
  exact (List.getElem?_eq_some_iff.mp hd).1

theorem Hole.get {text : Bytes} {lo n : Nat} (H : Hole text lo n) {i : Nat} (hi : i ≤ n) :
    ∃ c, text[i]? = some c := by
  have := H.lt_length
  exact ⟨text[i]'(by omega), List.getElem?_eq_getElem (by omega)⟩

theorem Hole.step {text : Bytes} {lo n : Nat} (H : Hole text lo n) {i : Nat} (hi : i < n) {c : UInt8}
    (hc : text[i]? = some c) : rstep (rs text i) c ≠ .bad := by
  rw [← rs_succ hc]; exact H.good _ hi

/-- a `{` between `lo` and the hole is not followed by `{`, `%`, `#` -/
theorem Hole.brace {text : Bytes} {lo n : Nat} (H : Hole text lo n) {i : Nat} (hlo : lo ≤ i) (hi : i < n)
    (hc : text[i]? = some 0x7b) {d : UInt8} (hd : text[i + 1]? = some d) :
    ¬ (d = 0x7b ∨ d = 0x25 ∨ d = 0x23) := by
  have := H.free i hlo hi
  simp only [delimAt, hc, hd] at this
  intro h; rcases h with rfl | rfl | rfl <;> simp at this

/-! ## byte facts -/

theorem space_ws (c : UInt8) : isASCIISpace c = ws c := by
  have := allBytes_spec (p := fun c => isASCIISpace c == ws c) (by decide +kernel) c
  simpa using this

theorem alpha_letter (c : UInt8) : isAlpha c = HtmlTok.isLetter c := by
  have := allBytes_spec (p := fun c => isAlpha c == HtmlTok.isLetter c) (by decide +kernel) c
  simpa using this

/-! ## the simulation relation -/

/-- `l.tagCtx` while inside the start tag `tag` -/
def tagCtxOf (tag : Bytes) : Nat :=
  if tag = sScript then ContextJS else if tag = sStyle then ContextCSS else ContextHTML

def Clean (s : CSt) : Prop :=
  s.tagCtx = ContextHTML ∧ s.quote = 0 ∧ s.url = false ∧ s.jsComment = 0

/-- reference states that go with the lexer context HTML -/
def HtmlRef (text : Bytes) (pos : Nat) : RSt → Prop
  | .data | .endTagOpen | .endTagName => True
  | .tagOpen => ∀ c, text[pos]? = some c → isAlpha c = false
  | .raw k m => m = k.name.length + 2
  | _ => False

/-- reference states that go with the lexer context Tag -/
def TagRef (text : Bytes) (pos : Nat) (tag : Bytes) : RSt → Prop
  | .tagName t => t = tag ∧ ∀ c, text[pos]? = some c → tagNameByte c = false
  | .beforeAttrName t | .afterAttrValQ t | .selfClosing t => t = tag
  | .attrName t _ => t = tag ∧ ∀ c, text[pos]? = some c → c = 0x3e ∨ c = 0x2f ∨ c = 0x7b
  | .afterAttrName t _ => t = tag ∧ ∀ c, text[pos]? = some c → c ≠ 0x3d ∧ ws c = false
  | .beforeAttrValue t _ | .attrValUnq t _ => t = tag ∧ text[pos]? = some 0x3e
  | _ => False

def TagSt (s : CSt) : Prop :=
  s.tagCtx = tagCtxOf s.tagName ∧ s.quote = 0 ∧ s.url = false ∧ s.jsComment = 0

/-- reference states that go with the attribute-value contexts -/
def AttrRef (text : Bytes) (s : CSt) : RSt → Prop
  | .attrValDq t m => t = s.tagName ∧ m = s.tagAttr ∧ s.ctx = ContextQuotedAttr ∧ s.quote = 0x22
  | .attrValSq t m => t = s.tagName ∧ m = s.tagAttr ∧ s.ctx = ContextQuotedAttr ∧ s.quote = 0x27
  | .attrValUnq t m => t = s.tagName ∧ m = s.tagAttr ∧ s.ctx = ContextUnquotedAttr ∧ s.quote = 0
  | .beforeAttrValue t m => t = s.tagName ∧ m = s.tagAttr ∧ s.ctx = ContextUnquotedAttr ∧ s.quote = 0 ∧
      ∀ c, text[s.pos]? = some c → ws c = false ∧ c ≠ 0x22 ∧ c ≠ 0x27
  | _ => False

def AttrSt (s : CSt) : Prop :=
  s.tagCtx = tagCtxOf s.tagName ∧ s.jsComment = 0 ∧ s.url = containsURL s.tagName s.tagAttr ∧
    attrDone s.tagName s.tagAttr = true

def JsRef (text : Bytes) (s : CSt) : JsS → Prop
  | .code _ => s.ctx = ContextJS ∧ s.jsComment = 0 ∧ s.quote = 0
  | .slash _ => s.ctx = ContextJS ∧ s.jsComment = 0 ∧ s.quote = 0 ∧
      text[s.pos]? ≠ some 0x2f ∧ text[s.pos]? ≠ some 0x2a
  | .lineC => s.ctx = ContextJS ∧ s.jsComment = 1 ∧ s.quote = 0
  | .blockC => s.ctx = ContextJS ∧ s.jsComment = 2 ∧ s.quote = 0
  | .blockCStar => s.ctx = ContextJS ∧ s.jsComment = 2 ∧ s.quote = 0 ∧ text[s.pos]? ≠ some 0x2f
  | .str q | .strBs q => s.ctx = ContextJSString ∧ s.jsComment = 0 ∧ s.quote = q ∧ (q = 0x22 ∨ q = 0x27)
  | .strEsc q => s.ctx = ContextJSString ∧ s.jsComment = 0 ∧ s.quote = q ∧ (q = 0x22 ∨ q = 0x27) ∧
      text[s.pos]? ≠ some q ∧ text[s.pos]? ≠ some 0x5c
  | .bad => False

def CssRef (text : Bytes) (s : CSt) : CssS → Prop
  | .code | .slash | .blockC | .blockCStar => s.ctx = ContextCSS ∧ s.quote = 0
  | .str q | .strBs q => s.ctx = ContextCSSString ∧ s.quote = q ∧ (q = 0x22 ∨ q = 0x27)
  | .strEsc q => s.ctx = ContextCSSString ∧ s.quote = q ∧ (q = 0x22 ∨ q = 0x27) ∧
      text[s.pos]? ≠ some q ∧ text[s.pos]? ≠ some 0x5c
  | .bad => False

/-- the simulation relation between the lexer's context state (at a position of `text`) and the
reference tokenizer's state after the same number of bytes -/
def R (text : Bytes) (s : CSt) (r : RSt) : Prop :=
  (s.ctx = ContextHTML ∧ Clean s ∧ HtmlRef text s.pos r) ∨
  (s.ctx = ContextTag ∧ TagSt s ∧ TagRef text s.pos s.tagName r) ∨
  (AttrSt s ∧ AttrRef text s r) ∨
  (∃ k m, r = .raw (.js k) m ∧ m ≤ 1 ∧ (m = 1 → text[s.pos]? ≠ some 0x2f) ∧
    s.tagCtx = ContextHTML ∧ s.url = false ∧ JsRef text s k) ∨
  (∃ k m, r = .raw (.css k) m ∧ m ≤ 1 ∧ (m = 1 → text[s.pos]? ≠ some 0x2f) ∧
    s.tagCtx = ContextHTML ∧ s.url = false ∧ s.jsComment = 0 ∧ CssRef text s k)

theorem R_init (text : Bytes) : R text init (rs text 0) := by
  rw [rs_zero]; left
  simp [init, Clean, HtmlRef]

/-- at the hole, `R` and the abstraction of the reference state determine context and URL flag -/
theorem R_readout {text : Bytes} {s : CSt} {r : RSt} (h : R text s r) (h0 : text[s.pos]? = some 0x7b)
    {c : HtmlTok.Ctx} {u : Bool} (ha : abs containsURL r = some (c, u)) :
    s.ctx = ctxNat c ∧ s.url = u := by
  rcases h with ⟨hc, hcl, hr⟩ | ⟨hc, hst, hr⟩ | ⟨hst, hr⟩ | ⟨k, m, rfl, hm, hm1, htc, hu, hr⟩ |
    ⟨k, m, rfl, hm, hm1, htc, hu, hj, hr⟩
  · obtain ⟨_, _, hu, _⟩ := hcl
    cases r <;> simp [HtmlRef, abs] at hr ha <;> try (obtain ⟨rfl, rfl⟩ := ha; simp [ctxNat, hc, hu])
    next k m =>
      subst hr
      cases k <;> simp [RawK.name] at ha
  · obtain ⟨_, _, hu, _⟩ := hst
    cases r <;> simp [TagRef, abs, h0] at hr ha <;> try (obtain ⟨rfl, rfl⟩ := ha; simp [ctxNat, hc, hu])
  · obtain ⟨_, _, hu, _⟩ := hst
    cases r <;> simp [AttrRef, abs] at hr ha <;>
      (obtain ⟨rfl, rfl⟩ := ha; obtain ⟨rfl, rfl, hc, _⟩ := hr; simp [ctxNat, hc, hu])
  · simp only [abs, hm, if_true] at ha
    cases k <;> simp [JsRef, jsCtx] at hr ha <;> (obtain ⟨rfl, rfl⟩ := ha; simp [ctxNat, hr, hu])
  · simp only [abs, hm, if_true] at ha
    cases k <;> simp [CssRef, cssCtx] at hr ha <;> (obtain ⟨rfl, rfl⟩ := ha; simp [ctxNat, hr, hu])

/-! ## the driver: from one step to `crun` -/

/-- what one `cstep` from a related state must achieve -/
def StepOK (U : Unicode) (text : Bytes) (n : Nat) (s : CSt) : Prop :=
  (cstep U text s).pos ≤ n ∧ R text (cstep U text s) (rs text (cstep U text s).pos) ∧
  (s.pos < (cstep U text s).pos ∨
    ((cstep U text s).pos = s.pos ∧ s.ctx = ContextUnquotedAttr ∧ (cstep U text s).ctx = ContextTag))

def mu (n : Nat) (s : CSt) : Nat := 2 * (n - s.pos) + (if s.ctx = ContextUnquotedAttr then 1 else 0)

theorem crun_sim {U : Unicode} {text : Bytes} {lo n : Nat} (H : Hole text lo n)
    (hstep : ∀ s, s.pos < n → R text s (rs text s.pos) → StepOK U text n s) :
    ∀ fuel s, lo ≤ s.pos → s.pos ≤ n → R text s (rs text s.pos) → mu n s ≤ fuel →
      (crun U text n fuel s).pos = n ∧ R text (crun U text n fuel s) (rs text n) := by
  intro fuel
  induction fuel with
  | zero =>
    intro s hlo hp hR hmu
    have : s.pos = n := by simp only [mu] at hmu; omega
    simp only [crun]; subst this; exact ⟨rfl, hR⟩
  | succ fuel ih =>
    intro s hlo hp hR hmu
    simp only [crun]
    by_cases hlt : s.pos < n
    · have hd := H.free _ hlo hlt
      simp only [hlt, hd, Bool.not_false, and_self, if_true]
      obtain ⟨h1, h2, h3⟩ := hstep s hlt hR
      have hlo' : lo ≤ (cstep U text s).pos := by
        rcases h3 with h3 | ⟨h3, _, _⟩ <;> omega
      apply ih _ hlo' h1 h2
      simp only [mu] at hmu ⊢
      rcases h3 with h3 | ⟨h3, h4, h5⟩
      · split <;> split at hmu <;> omega
      · rw [h3, if_pos h4] at *
        rw [if_neg (by rw [h5]; decide)]
        omega
    · have : s.pos = n := by omega
      simp only [hlt, false_and, if_false]
      subst this; exact ⟨rfl, hR⟩

/-! ## from the hypotheses of the theorem to `Hole`, and the final read-out -/

theorem rs_append_left (p t : Bytes) {i : Nat} (hi : i ≤ p.length) : rs (p ++ t) i = run (p.take i) := by
  simp [rs, List.take_append_of_le_length hi]

theorem Hole.of_hyps {p t : Bytes} (ht : startsDelim t) (hfree : delimFree (p ++ t) p.length)
    {c : HtmlTok.Ctx} {u : Bool} (habs : abs containsURL (run p) = some (c, u)) :
    Hole (p ++ t) 0 p.length := by
  obtain ⟨d, rest, rfl, hd⟩ := ht
  have hn : rs (p ++ 0x7b :: d :: rest) p.length = run p := by
    rw [rs_append_left _ _ (Nat.le_refl _)]; simp
  refine ⟨by simp, ⟨d, by simp, hd⟩, fun i _ hi => hfree i hi, ?_, ?_⟩
  · intro i hi hb
    have := rs_bad_mono hi hb
    rw [hn] at this
    rw [this] at habs
    simp [abs] at habs
  · rw [hn, habs]; simp

theorem ctx_agree_of_step {U : Unicode} {p t : Bytes} (ht : startsDelim t)
    (hfree : delimFree (p ++ t) p.length) {c : HtmlTok.Ctx} {u : Bool}
    (habs : abs containsURL (run p) = some (c, u))
    (hstep : Hole (p ++ t) 0 p.length → ∀ s, s.pos < p.length → R (p ++ t) s (rs (p ++ t) s.pos) →
      StepOK U (p ++ t) p.length s) :
    (ctxAt U (p ++ t) p.length).pos = p.length ∧ (ctxAt U (p ++ t) p.length).ctx = ctxNat c ∧
      (ctxAt U (p ++ t) p.length).url = u := by
  have H := Hole.of_hyps ht hfree habs
  have hmu : mu p.length init ≤ 2 * (p ++ t).length + 4 := by
    simp [mu, init, ContextHTML, ContextUnquotedAttr]; omega
  obtain ⟨h1, h2⟩ := crun_sim H (hstep H) (2 * (p ++ t).length + 4) init (Nat.zero_le _)
    (Nat.zero_le _) (R_init _) hmu
  refine ⟨h1, ?_⟩
  have hn : rs (p ++ t) p.length = run p := by
    rw [rs_append_left _ _ (Nat.le_refl _)]; simp
  rw [hn] at h2
  have h0 : (p ++ t)[(ctxAt U (p ++ t) p.length).pos]? = some 0x7b := by
    show (p ++ t)[(crun U (p ++ t) p.length (2 * (p ++ t).length + 4) init).pos]? = some 0x7b
    rw [h1]; exact H.at0
  exact R_readout h2 h0 habs

/-! ## the sub-classes as properties of all intermediate reference states -/

theorem trace_all (f : RSt → Bool) : ∀ (l : Bytes) (st : RSt), (trace st l).all f = true →
    ∀ i, i < l.length → f ((l.take (i + 1)).foldl rstep st) = true := by
  intro l
  induction l with
  | nil => intro st _ i hi; simp at hi
  | cons c l ih =>
    intro st h i hi
    simp only [trace, List.all_cons, Bool.and_eq_true] at h
    cases i with
    | zero => simpa using h.1
    | succ i =>
      simp only [List.take_succ_cons, List.foldl_cons]
      exact ih _ h.2 i (by simpa using hi)

theorem rs_of_trace_all (f : RSt → Bool) (hf : f .data = true) (p t : Bytes)
    (h : (trace .data p).all f = true) : ∀ i, i ≤ p.length → f (rs (p ++ t) i) = true := by
  intro i hi
  rw [rs_append_left _ _ hi]
  cases i with
  | zero => simpa [run] using hf
  | succ i => exact trace_all f p .data h i hi

end ScriggoV.LexCtx
