import ScriggoV.Model.ErrorPaths
/-! The loop of `typecheck()` over a chain of extends nodes when both stores take the tree's name. -/
namespace ScriggoV.Model.ErrorPaths
open ScriggoV.Gen.ErrorPaths

theorem swapLoop_treePath (chain : List Ext) (st st' : St)
    (h : swapLoop .treePath .treePath chain st = some st') (h0 : st.tcPath = st.treePath) :
    st'.tcPath = st'.treePath ∧ (chain ≠ [] → ∃ e ∈ chain, st'.tcPath = e.loaded) := by
  induction chain generalizing st with
  | nil =>
    simp only [swapLoop, Option.some.injEq] at h
    subst h
    exact ⟨h0, fun hn => absurd rfl hn⟩
  | cons e es ih =>
    simp only [swapLoop, pick] at h
    have := ih ⟨e.loaded, e.loaded⟩ h rfl
    refine ⟨this.1, fun _ => ?_⟩
    by_cases hes : es = []
    · subst hes
      simp only [swapLoop, Option.some.injEq] at h
      subst h
      exact ⟨e, List.mem_cons_self, rfl⟩
    · obtain ⟨x, hx, hxe⟩ := this.2 hes
      exact ⟨x, List.mem_cons_of_mem _ hx, hxe⟩

end ScriggoV.Model.ErrorPaths
