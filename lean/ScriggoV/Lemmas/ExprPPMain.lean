import ScriggoV.Lemmas.ExprPP
/-!
Lemmas for C27, part 2: the invariants `Main`, `MainTy`, `Root` and their proof for every
expression (`invariants`), by the recursor of the nested type.
-/
namespace ScriggoV.ExprPP
open ScriggoV.Gen.Precedence

/-- the operand-expected state of a call of `parseExpr` in type position -/
abbrev T0 (p : List Frame) (K : List Ctx) : St := ⟨.operand, p, true, K⟩

/-- what parsing `print e` does outside type position -/
def Main (e : Expr) : Prop :=
  WF e → Plain e → isDflt e = false → ∀ (fs : List Frame) (K : List Ctx),
    (∀ f ∈ fs, f.prec < lowPrec e) → (startsChan e = true → recvHead fs = false) →
    ∃ s x gs, run (S0 fs K) (print e) = some s ∧ settle s = SOp x gs K ∧
      (endsTy false e = false → s = SOp x gs K) ∧
      ∀ q, q ≤ lowPrec e → reduce q x gs = reduce q (norm e) fs

/-- what parsing `print t` does in type position -/
def MainTy (t : Expr) : Prop :=
  WF t → Plain t → IsType t = true → ∀ (p : List Frame) (K : List Ctx), recvHead p = false →
    ∃ s, run (T0 p K) (print t) = some s ∧ settle s = complete (norm t) p true K ∧
      (endsTy true t = false → s = complete (norm t) p true K)

/-- `e` is everything a call of `parseExpr` parses -/
def Root (e : Expr) : Prop :=
  WF e → Plain e → ∀ (K : List Ctx), ∃ s, run (S0 [] K) (print e) = some s ∧
    (∀ t, Terminator t → step s t = ret (norm e) t K) ∧ finish s = closeDflt (norm e) K

def RootOpt (o : Option Expr) : Prop :=
  WFOpt o → PlainOpt o → ∀ (K : List Ctx), ∃ s, run (S0 [] K) (printOpt o) = some s ∧
    ∀ t, Terminator t → step s t = (match o with | none => retNil t K | some e => ret (norm e) t K)

def MainArgs (args : List Expr) : Prop :=
  WFArgs args → PlainArgs args → args ≠ [] → ∀ (fs : List Frame) (K : List Ctx) (f : Expr) (pre : List Expr),
    run (S0 [] (⟨.call f pre, fs, false⟩ :: K)) (printArgs args ++ [.rparen]) =
        some (SOp (.call f (pre ++ normArgs args) false) fs K) ∧
    run (S0 [] (⟨.call f pre, fs, false⟩ :: K)) (printArgs args ++ [.ellipsis, .rparen]) =
        some (SOp (.call f (pre ++ normArgs args) true) fs K)

/-- the three invariants together: the motive of the induction -/
def Inv (e : Expr) : Prop := Main e ∧ MainTy e ∧ Root e

/-! ### generic steps -/

theorem root_of_main {e : Expr} (nd : isDflt e = false) (h : Main e) : Root e := by
  intro wf pl K
  obtain ⟨s, x, gs, hr, hs, _, hq⟩ := h wf pl nd [] K (by simp) (fun _ => rfl)
  have hc : closeAll x gs = norm e := by
    have := closeAll_eq_of_reduce (hq 0 (Nat.zero_le _))
    simpa [closeAll] using this
  refine ⟨s, hr, ?_, ?_⟩
  · intro t ht
    rw [step_settle ht.ne_period, hs, step_SOp_terminator ht, hc]
  · simp [finish, hs, hc]

theorem step_S0_lparen (fs : List Frame) (K : List Ctx) :
    step (S0 fs K) .lparen = some (S0 [] (⟨.paren, fs, false⟩ :: K)) := by
  simp [step, stepOperand, push]

theorem step_S0_unop (u : UnOp) (fs : List Frame) (K : List Ctx) :
    step (S0 fs K) (.op (unTok u)) = some (S0 (.un u :: fs) K) := by
  simp [step, stepOperand, unaryOf_unTok]

/-- an operand as the printer writes it: in parentheses (`c`) or as it is -/
theorem operand {e : Expr} (h : Main e) (hroot : Root e) (wf : WF e) (pl : Plain e) (nd : isDflt e = false)
    (c : Bool) (fs : List Frame) (K : List Ctx)
    (hfs : c = false → ∀ f ∈ fs, f.prec < lowPrec e)
    (hch : c = false → startsChan e = true → recvHead fs = false) :
    ∃ s x gs, run (S0 fs K) (wrap c (print e)) = some s ∧ settle s = SOp x gs K ∧
      ((c = true ∨ endsTy false e = false) → s = SOp x gs K) ∧
      ∀ q, q ≤ (if c then uprec + 1 else lowPrec e) → reduce q x gs = reduce q (wrapP c (norm e)) fs := by
  cases c with
  | false =>
    obtain ⟨s, x, gs, hr, hs, he, hq⟩ := h wf pl nd fs K (hfs rfl) (hch rfl)
    exact ⟨s, x, gs, by simpa [wrap] using hr, hs, fun h' => he (by simpa using h'),
      by simpa [wrapP] using hq⟩
  | true =>
    obtain ⟨s1, hr, ht, _⟩ := hroot wf pl (⟨.paren, fs, false⟩ :: K)
    have h2 : step s1 .rparen = some (SOp (.paren (norm e)) fs K) := by
      rw [ht _ (by simp [Terminator])]; simp [ret, complete_false]
    refine ⟨SOp (.paren (norm e)) fs K, .paren (norm e), fs, ?_, rfl, fun _ => rfl, fun q _ => by simp [wrapP]⟩
    simp only [wrap, if_true]
    rw [run_cons_of (step_S0_lparen fs K), run_append_of hr, run_cons_of h2]; rfl

/-- an operand that ends above every operator (in parentheses, or not an operator): the state after
it is exact up to a pending type name -/
theorem operand_exact {e : Expr} (h : Main e) (hroot : Root e) (wf : WF e) (pl : Plain e) (nd : isDflt e = false)
    (c : Bool) (fs : List Frame) (K : List Ctx)
    (hc : c = false → lowPrec e = uprec + 1)
    (hch : c = false → startsChan e = true → recvHead fs = false) :
    ∃ s, run (S0 fs K) (wrap c (print e)) = some s ∧ settle s = SOp (wrapP c (norm e)) fs K ∧
      ((c = true ∨ endsTy false e = false) → s = SOp (wrapP c (norm e)) fs K) := by
  have hfs : c = false → ∀ f ∈ fs, f.prec < lowPrec e := by
    intro h0 f _; rw [hc h0]; exact Nat.lt_succ_of_le f.prec_le
  obtain ⟨s, x, gs, hr, hs, he, hq⟩ := operand h hroot wf pl nd c fs K hfs hch
  have hl : (if c = true then uprec + 1 else lowPrec e) = uprec + 1 := by
    cases c with
    | true => simp
    | false => simp [hc rfl]
  have := hq (uprec + 1) (by rw [hl]; exact Nat.le_refl _)
  rw [reduce_top, reduce_top] at this
  obtain ⟨rfl, rfl⟩ := Prod.mk.inj this
  exact ⟨s, hr, hs, he⟩

/-- the conclusion of `Main` for a primary expression whose last token closes it -/
theorem main_of_exact {e : Expr} {fs : List Frame} {K : List Ctx}
    (h : run (S0 fs K) (print e) = some (SOp (norm e) fs K)) :
    ∃ s x gs, run (S0 fs K) (print e) = some s ∧ settle s = SOp x gs K ∧
      (endsTy false e = false → s = SOp x gs K) ∧
      ∀ q, q ≤ lowPrec e → reduce q x gs = reduce q (norm e) fs :=
  ⟨_, _, _, h, rfl, fun _ => rfl, fun _ _ => rfl⟩

/-- … or that may end with a pending type name -/
theorem main_of_settle {e : Expr} {fs : List Frame} {K : List Ctx} {s : St}
    (h : run (S0 fs K) (print e) = some s) (hs : settle s = SOp (norm e) fs K)
    (he : endsTy false e = false → s = SOp (norm e) fs K) :
    ∃ s x gs, run (S0 fs K) (print e) = some s ∧ settle s = SOp x gs K ∧
      (endsTy false e = false → s = SOp x gs K) ∧
      ∀ q, q ≤ lowPrec e → reduce q x gs = reduce q (norm e) fs :=
  ⟨_, _, _, h, hs, he, fun _ _ => rfl⟩

/-- the type-position invariant is void for what is not a type -/
theorem mainTy_of_not_type {e : Expr} (h : IsType e = false) : MainTy e := by
  intro _ _ ht; rw [h] at ht; cases ht

/-! ### identifiers, literals, parentheses -/

theorem inv_ident (n : Nat) : Inv (.ident n) := by
  have hm : Main (.ident n) := by
    intro _ _ _ fs K _ _
    exact main_of_exact (e := .ident n) (by simp [print, norm, run, step, stepOperand])
  refine ⟨hm, ?_, root_of_main (by simp [isDflt, Expr.core]) hm⟩
  intro _ _ _ p K hp
  refine ⟨⟨.tyIdent n, p, true, K⟩, ?_, ?_, ?_⟩
  · simp [print, run, step, stepOperand, hp]
  · simp [settle, norm]
  · simp [endsTy]

theorem inv_lit (k : LiteralType) (n : Nat) : Inv (.lit k n) := by
  have hm : Main (.lit k n) := by
    intro _ _ _ fs K _ _
    exact main_of_exact (e := .lit k n) (by simp [print, norm, run, step, stepOperand])
  exact ⟨hm, mainTy_of_not_type (by simp [IsType]), root_of_main (by simp [isDflt, Expr.core]) hm⟩

theorem inv_paren (e : Expr) (ih : Inv e) : Inv (.paren e) := by
  obtain ⟨hm, ht, hr⟩ := ih
  refine ⟨?_, ?_, ?_⟩
  · intro wf pl nd fs K hfs hch
    rw [lowPrec_paren] at hfs
    obtain ⟨s, x, gs, h1, h2, h3, h4⟩ := hm (by simpa [WF] using wf) (by simpa [Plain] using pl)
      (by simpa [isDflt_paren] using nd) fs K hfs (by simpa [startsChan] using hch)
    refine ⟨s, x, gs, by simpa [print] using h1, h2, by simpa [endsTy] using h3, ?_⟩
    intro q hq; rw [lowPrec_paren] at hq; simpa [norm] using h4 q hq
  · intro wf pl it p K hp
    obtain ⟨s, h1, h2, h3⟩ := ht (by simpa [WF] using wf) (by simpa [Plain] using pl)
      (by simpa [IsType] using it) p K hp
    exact ⟨s, by simpa [print] using h1, by simpa [norm] using h2, by simpa [endsTy, norm] using h3⟩
  · intro wf pl K
    obtain ⟨s, h1, h2, h3⟩ := hr (by simpa [WF] using wf) (by simpa [Plain] using pl) K
    exact ⟨s, by simpa [print] using h1, by simpa [norm] using h2, by simpa [norm] using h3⟩

/-! ### unary and binary operators -/

theorem main_unary (u : UnOp) (e : Expr) (ih : Inv e) : Main (.unary u e) := by
  obtain ⟨hm, _, hr⟩ := ih
  intro wf pl _ fs K _ _
  simp only [WF] at wf
  simp only [Plain] at pl
  obtain ⟨s, h1, h2, h3⟩ := operand_exact hm hr wf pl.1 pl.2.1 (needs (unaryParens u.toOp uprec) e) (.un u :: fs) K
    (fun h => needs_false_lowPrec h (fun _ hc => unaryParens_false hc))
    (by
      intro hw hs
      cases u <;> first | rfl | exact absurd hs (by rw [pl.2.2 rfl hw]; simp))
  refine ⟨s, _, _, by rw [print, run_cons_of (step_S0_unop u fs K)]; exact h1, h2, ?_, ?_⟩
  · intro he
    apply h3
    simp only [endsTy] at he
    cases hw : needs (unaryParens u.toOp uprec) e with
    | true => exact Or.inl rfl
    | false => rw [hw] at he; exact Or.inr (by simpa using he)
  · intro q hq
    rw [lowPrec_unary] at hq
    rw [reduce_cons_le _ _ _ (by simpa [Frame.prec] using hq)]
    simp [norm, Frame.plug]

theorem main_binary (b : BinOp) (l r : Expr) (ihl : Inv l) (ihr : Inv r) : Main (.binary b l r) := by
  obtain ⟨hml, _, hrl⟩ := ihl
  obtain ⟨hmr, _, hrr⟩ := ihr
  intro wf pl _ fs K hfs hch
  simp only [WF] at wf
  simp only [Plain] at pl
  rw [lowPrec_binary] at hfs
  have hb := Nat.le_of_lt (bprec_lt_uprec b)
  -- left operand
  obtain ⟨s1, x, gs, hrun1, hs1, _, hql⟩ := operand hml hrl wf.1 pl.1 pl.2.2.1
    (needs (binaryLeftParens b.toOp (bprec b)) l) fs K
    (fun h f hf => Nat.lt_of_lt_of_le (hfs f hf)
      (needs_false_le h (fun _ hc => binaryLeftParens_false hc) hb))
    (fun h hs => hch (by simp [startsChan, h, hs]))
  have hlev : bprec b ≤ (if needs (binaryLeftParens b.toOp (bprec b)) l = true then uprec + 1 else lowPrec l) := by
    cases h : needs (binaryLeftParens b.toOp (bprec b)) l with
    | true => simp; omega
    | false => simpa using needs_false_le h (fun _ hc => binaryLeftParens_false hc) hb
  have hred := hql (bprec b) hlev
  rw [reduce_of_lt _ _ _ hfs] at hred
  -- right operand
  obtain ⟨s2, y, hs, hrun2, hs2, he2, hqr⟩ := operand hmr hrr wf.2 pl.2.1 pl.2.2.2
    (needs (binaryRightParens b.toOp (bprec b)) r)
    (.bin b (wrapP (needs (binaryLeftParens b.toOp (bprec b)) l) (norm l)) :: fs) K
    (by
      intro h f hf
      have hlt := needs_false_lt h (fun _ hc => binaryRightParens_false hc) hb
      rcases List.mem_cons.1 hf with rfl | hf
      · exact hlt
      · exact Nat.lt_trans (hfs f hf) hlt)
    (fun _ _ => rfl)
  have hlev' : bprec b ≤ (if needs (binaryRightParens b.toOp (bprec b)) r = true then uprec + 1 else lowPrec r) := by
    cases h : needs (binaryRightParens b.toOp (bprec b)) r with
    | true => simp; omega
    | false => simpa using Nat.le_of_lt (needs_false_lt h (fun _ hc => binaryRightParens_false hc) hb)
  refine ⟨s2, y, hs, ?_, hs2, ?_, ?_⟩
  · rw [print, List.append_assoc, run_append_of hrun1, run_binToks_settle b hs1, hred]
    exact hrun2
  · intro he
    apply he2
    simp only [endsTy] at he
    cases hw : needs (binaryRightParens b.toOp (bprec b)) r with
    | true => exact Or.inl rfl
    | false => rw [hw] at he; exact Or.inr (by simpa using he)
  · intro q hq
    rw [lowPrec_binary] at hq
    rw [hqr q (Nat.le_trans hq hlev'), reduce_cons_le _ _ _ (by simpa [Frame.prec] using hq)]
    simp [norm, Frame.plug]

theorem step_T0_star (p : List Frame) (K : List Ctx) (hp : recvHead p = false) :
    step (T0 p K) (.op (unTok .pointer)) = some (T0 (.un .pointer :: p) K) := by
  simp [step, stepOperand, unTok, unaryOf, hp]

theorem step_T0_lparen (p : List Frame) (K : List Ctx) (hp : recvHead p = false) :
    step (T0 p K) .lparen = some (T0 [] (⟨.paren, p, true⟩ :: K)) := by
  simp [step, stepOperand, push, hp]

/-- a call of `parseExpr` in type position that has its operand and waits for its closing token -/
theorem step_tyOperator (x : Expr) (t : Token) (K : List Ctx) :
    step ⟨.operator x, [], true, K⟩ t = ret x t K := by
  simp [step, stepOperator, closeAll]

theorem mainTy_unary (u : UnOp) (e : Expr) (ih : Inv e) : MainTy (.unary u e) := by
  obtain ⟨_, ht, _⟩ := ih
  intro wf pl it p K hp
  have hu : u = .pointer := by cases u <;> simp [IsType] at it <;> rfl
  subst hu
  simp only [WF] at wf
  simp only [Plain] at pl
  have ite : IsType e = true := by simpa [IsType] using it
  cases hw : needs (unaryParens UnOp.pointer.toOp uprec) e with
  | false =>
    obtain ⟨s, h1, h2, h3⟩ := ht wf pl.1 ite (.un .pointer :: p) K rfl
    refine ⟨s, ?_, ?_, ?_⟩
    · rw [print, run_cons_of (step_T0_star p K hp), hw]; simpa [wrap] using h1
    · rw [h2, complete_cons]; simp [norm, hw, wrapP, Frame.plug]
    · intro he
      rw [h3 (by simpa [endsTy, hw] using he), complete_cons]; simp [norm, hw, wrapP, Frame.plug]
  | true =>
    obtain ⟨s1, h1, h2, _⟩ := ht wf pl.1 ite [] (⟨.paren, .un .pointer :: p, true⟩ :: K) rfl
    have hs1 : settle s1 = ⟨.operator (norm e), [], true, ⟨.paren, .un .pointer :: p, true⟩ :: K⟩ := by
      rw [h2]; simp [complete, closeAll]
    have hstep : step s1 .rparen = some (complete (.paren (norm e)) (.un .pointer :: p) true K) := by
      rw [step_settle (by simp), hs1, step_tyOperator]; simp [ret]
    have hfin : complete (.paren (norm e)) (.un .pointer :: p) true K =
        complete (norm (.unary .pointer e)) p true K := by
      rw [complete_cons]; simp [norm, hw, wrapP, Frame.plug]
    refine ⟨_, ?_, by rw [← hfin, settle_complete], fun _ => hfin⟩
    rw [print, run_cons_of (step_T0_star p K hp), hw]
    simp only [wrap, if_true]
    rw [run_cons_of (step_T0_lparen _ K rfl), run_append_of h1, run_cons_of hstep]; rfl

theorem inv_unary (u : UnOp) (e : Expr) (ih : Inv e) : Inv (.unary u e) :=
  ⟨main_unary u e ih, mainTy_unary u e ih, root_of_main (by simp [isDflt, Expr.core]) (main_unary u e ih)⟩

theorem inv_binary (b : BinOp) (l r : Expr) (ihl : Inv l) (ihr : Inv r) : Inv (.binary b l r) :=
  ⟨main_binary b l r ihl ihr, mainTy_of_not_type (by simp [IsType]),
    root_of_main (by simp [isDflt, Expr.core]) (main_binary b l r ihl ihr)⟩

/-! ### primary expressions -/

/-- the conclusion of `Main` from a run that ends in the exact state -/
theorem main_exact' {e : Expr} {fs : List Frame} {K : List Ctx}
    (h : run (S0 fs K) (print e) = some (SOp (norm e) fs K)) :
    ∃ s x gs, run (S0 fs K) (print e) = some s ∧ settle s = SOp x gs K ∧
      (endsTy false e = false → s = SOp x gs K) ∧
      ∀ q, q ≤ lowPrec e → reduce q x gs = reduce q (norm e) fs := main_of_exact h

theorem run_settled_cons {s : St} {x : Expr} {gs : List Frame} {K : List Ctx} {t : Token}
    (hs : settle s = SOp x gs K) (ht : t ≠ .period) (ts : List Token) :
    run s (t :: ts) = run (SOp x gs K) (t :: ts) := by
  rw [run_cons_settle ht, hs]

theorem main_selector (e : Expr) (n : Nat) (ih : Inv e) : Main (.selector e n) := by
  obtain ⟨hm, _, hr⟩ := ih
  intro wf pl _ fs K _ hch
  simp only [WF] at wf
  simp only [Plain] at pl
  obtain ⟨s, h1, _, h3⟩ := operand_exact hm hr wf pl.1 pl.2.2.1 false fs K
    (fun _ => lowPrec_of_not_isOperator pl.2.1) (fun _ hs => hch (by simpa [startsChan] using hs))
  have hs := h3 (Or.inr pl.2.2.2)
  subst hs
  simp only [wrap, wrapP, Bool.false_eq_true, if_false] at h1
  apply main_exact'
  rw [print, run_append_of h1]
  simp [run, step, stepOperator, norm]

theorem main_typeAssert (e t : Expr) (ihe : Inv e) (iht : Inv t) : Main (.typeAssert e t) := by
  obtain ⟨hm, _, hr⟩ := ihe
  obtain ⟨_, hty, _⟩ := iht
  intro wf pl _ fs K _ hch
  simp only [WF] at wf
  simp only [Plain] at pl
  obtain ⟨s, h1, _, h3⟩ := operand_exact hm hr wf.1 pl.1 pl.2.2.2.1 false fs K
    (fun _ => lowPrec_of_not_isOperator pl.2.2.1) (fun _ hs => hch (by simpa [startsChan] using hs))
  have hs := h3 (Or.inr pl.2.2.2.2)
  subst hs
  simp only [wrap, wrapP, Bool.false_eq_true, if_false] at h1
  obtain ⟨s2, g1, g2, _⟩ := hty wf.2.1 pl.2.1 wf.2.2 [] (⟨.assertTy (norm e), fs, false⟩ :: K) rfl
  have hs2 : settle s2 = ⟨.operator (norm t), [], true, ⟨.assertTy (norm e), fs, false⟩ :: K⟩ := by
    rw [g2]; simp [complete, closeAll]
  have hstep : step s2 .rparen = some (SOp (.typeAssert (norm e) (norm t)) fs K) := by
    rw [step_settle (by simp), hs2, step_tyOperator]; simp [ret, complete_false]
  have hd : step (SOp (norm e) fs K) .period = some ⟨.dot (norm e), fs, false, K⟩ := by
    simp [step, stepOperator]
  have hp : step ⟨.dot (norm e), fs, false, K⟩ .lparen = some (T0 [] (⟨.assertTy (norm e), fs, false⟩ :: K)) := by
    simp [step, push]
  apply main_exact'
  rw [print, run_append_of h1, run_cons_of hd, run_cons_of hp, run_append_of g1, run_cons_of hstep]
  simp [run, norm]

theorem main_index (e i : Expr) (ihe : Inv e) (ihi : Inv i) : Main (.index e i) := by
  obtain ⟨hm, _, hr⟩ := ihe
  obtain ⟨_, _, hri⟩ := ihi
  intro wf pl _ fs K _ hch
  simp only [WF] at wf
  simp only [Plain] at pl
  obtain ⟨s, h1, h2, _⟩ := operand_exact hm hr wf.1 pl.1 pl.2.2.2 false fs K
    (fun _ => lowPrec_of_not_isOperator pl.2.2.1) (fun _ hs => hch (by simpa [startsChan] using hs))
  simp only [wrap, wrapP, Bool.false_eq_true, if_false] at h1 h2
  obtain ⟨s2, g1, g2, _⟩ := hri wf.2 pl.2.1 (⟨.index (norm e), fs, false⟩ :: K)
  have hl : step (SOp (norm e) fs K) .lbrack = some (S0 [] (⟨.index (norm e), fs, false⟩ :: K)) := by
    simp [step, stepOperator, push]
  have hstep : step s2 .rbrack = some (SOp (.index (norm e) (norm i)) fs K) := by
    rw [g2 _ (by simp [Terminator])]; simp [ret, complete_false]
  apply main_exact'
  rw [print, run_append_of h1, run_settled_cons h2 (by simp), run_cons_of hl, run_append_of g1, run_cons_of hstep]
  simp [run, norm]

theorem print_slicing (e : Expr) (lo hi mx : Option Expr) (full : Bool) :
    print (.slicing e lo hi mx full) = print e ++ .lbrack :: (printOpt lo ++ .colon :: (printOpt hi ++
      ((match mx with | some m => .colon :: print m | none => []) ++ [.rbrack]))) := by
  cases mx <;> simp [print]

/-- an optional bound followed by `:` -/
theorem rootOpt_colon {o : Option Expr} (h : RootOpt o) (wf : WFOpt o) (pl : PlainOpt o)
    (K : List Ctx) (c : Ctx) (mk : Option Expr → CtxKind)
    (hnil : retNil .colon (c :: K) = some (S0 [] (⟨mk none, c.path, c.ty⟩ :: K)))
    (hsome : ∀ e, ret e .colon (c :: K) = some (S0 [] (⟨mk (some e), c.path, c.ty⟩ :: K))) :
    ∀ rest, run (S0 [] (c :: K)) (printOpt o ++ .colon :: rest) =
      run (S0 [] (⟨mk (normOpt o), c.path, c.ty⟩ :: K)) rest := by
  intro rest
  obtain ⟨s, h1, h2⟩ := h wf pl (c :: K)
  have := h2 .colon (by simp [Terminator])
  cases o with
  | none => rw [run_append_of h1, run_cons_of (by rw [this]; exact hnil)]; simp [normOpt]
  | some e => rw [run_append_of h1, run_cons_of (by rw [this]; exact hsome _)]; simp [normOpt]

theorem main_slicing (e : Expr) (lo hi mx : Option Expr) (full : Bool) (ihe : Inv e)
    (ihlo : RootOpt lo) (ihhi : RootOpt hi) (ihmx : RootOpt mx) : Main (.slicing e lo hi mx full) := by
  obtain ⟨hm, _, hr⟩ := ihe
  intro wf pl _ fs K _ hch
  simp only [WF] at wf
  simp only [Plain] at pl
  obtain ⟨s, h1, h2, _⟩ := operand_exact hm hr wf.1 pl.1 pl.2.2.2.2.2 false fs K
    (fun _ => lowPrec_of_not_isOperator pl.2.2.2.2.1) (fun _ hs => hch (by simpa [startsChan] using hs))
  simp only [wrap, wrapP, Bool.false_eq_true, if_false] at h1 h2
  have hl : step (SOp (norm e) fs K) .lbrack = some (S0 [] (⟨.index (norm e), fs, false⟩ :: K)) := by
    simp [step, stepOperator, push]
  have hlo := rootOpt_colon ihlo wf.2.1 pl.2.1 K ⟨.index (norm e), fs, false⟩ (fun o => .sliceHi (norm e) o)
    (by simp [retNil]) (by intro x; simp [ret])
  apply main_exact'
  rw [print_slicing, run_append_of h1, run_settled_cons h2 (by simp), run_cons_of hl, hlo]
  obtain ⟨s3, k1, k2⟩ := ihhi wf.2.2.1 pl.2.2.1 (⟨.sliceHi (norm e) (normOpt lo), fs, false⟩ :: K)
  cases mx with
  | none =>
    have hfull : full = false := by simpa using wf.2.2.2.2
    subst hfull
    have hstep : step s3 .rbrack = some (SOp (.slicing (norm e) (normOpt lo) (normOpt hi) none false) fs K) := by
      rw [k2 _ (by simp [Terminator])]
      cases hi <;> simp [retNil, ret, complete_false, normOpt]
    rw [run_append_of k1]
    simp only [List.nil_append]
    rw [run_cons_of hstep]
    simp [run, norm, normOpt]
  | some m =>
    have hfull : full = true := by simpa using wf.2.2.2.2
    subst hfull
    have hhi := rootOpt_colon ihhi wf.2.2.1 pl.2.2.1 K ⟨.sliceHi (norm e) (normOpt lo), fs, false⟩
      (fun o => .sliceMax (norm e) (normOpt lo) o) (by simp [retNil]) (by intro x; simp [ret])
    obtain ⟨s4, m1, m2⟩ := ihmx wf.2.2.2.1 pl.2.2.2.1 (⟨.sliceMax (norm e) (normOpt lo) (normOpt hi), fs, false⟩ :: K)
    have hstep : step s4 .rbrack =
        some (SOp (.slicing (norm e) (normOpt lo) (normOpt hi) (some (norm m)) true) fs K) := by
      rw [m2 _ (by simp [Terminator])]; simp [ret, complete_false]
    simp only [List.cons_append]
    rw [hhi]
    have hm1 : run (S0 [] (⟨.sliceMax (norm e) (normOpt lo) (normOpt hi), fs, false⟩ :: K)) (print m) = some s4 := by
      simpa [printOpt] using m1
    rw [run_append_of hm1, run_cons_of hstep]
    simp [run, norm, normOpt]

/-! ### calls -/

theorem mainArgs_nil : MainArgs [] := by
  intro _ _ h; exact absurd rfl h

theorem mainArgs_cons (a : Expr) (as : List Expr) (iha : Inv a) (ihas : MainArgs as) :
    MainArgs (a :: as) := by
  obtain ⟨_, _, hra⟩ := iha
  intro wf pl _ fs K f pre
  simp only [WFArgs] at wf
  simp only [PlainArgs] at pl
  obtain ⟨s, hr, ht, _⟩ := hra wf.1 pl.1 (⟨.call f pre, fs, false⟩ :: K)
  cases as with
  | nil =>
    rw [printArgs_single]
    have h1 : step s .rparen = some (SOp (.call f (pre ++ [norm a]) false) fs K) := by
      rw [ht _ (by simp [Terminator])]; simp [ret, complete_false]
    have h2 : step s .ellipsis = some ⟨.variadic (.call f (pre ++ [norm a]) true), fs, false, K⟩ := by
      rw [ht _ (by simp [Terminator])]; simp [ret]
    constructor
    · rw [run_append_of hr, run_cons_of h1]; simp [run, normArgs]
    · rw [run_append_of hr, run_cons_of h2]; simp [run, step, complete_false, normArgs]
  | cons b bs =>
    have hcomma : step s .comma = some (S0 [] (⟨.call f (pre ++ [norm a]), fs, false⟩ :: K)) := by
      rw [ht _ (by simp [Terminator])]; simp [ret]
    obtain ⟨h1, h2⟩ := ihas wf.2 pl.2 (by simp) fs K f (pre ++ [norm a])
    rw [printArgs_cons2]
    constructor
    · rw [List.append_assoc, run_append_of hr, List.cons_append, run_cons_of hcomma, h1]
      simp [normArgs]
    · rw [List.append_assoc, run_append_of hr, List.cons_append, run_cons_of hcomma, h2]
      simp [normArgs]

theorem main_call (f : Expr) (args : List Expr) (v : Bool) (ihf : Inv f) (ihargs : MainArgs args) :
    Main (.call f args v) := by
  obtain ⟨hm, _, hr⟩ := ihf
  intro wf pl _ fs K _ hch
  simp only [WF] at wf
  simp only [Plain] at pl
  obtain ⟨s, h1, h2, _⟩ := operand_exact hm hr wf.1 pl.1 pl.2.2.2 (callParens f) fs K
    (fun h => by
      apply lowPrec_of_not_isOperator
      cases ho : isOperator f with
      | false => rfl
      | true => rw [pl.2.2.1 ho] at h; cases h)
    (fun h hs => hch (by simp [startsChan, h, hs]))
  have hl : step (SOp (wrapP (callParens f) (norm f)) fs K) .lparen =
      some (S0 [] (⟨.call (wrapP (callParens f) (norm f)) [], fs, false⟩ :: K)) := by
    simp [step, stepOperator, push]
  apply main_exact'
  rw [print, run_append_of h1, run_settled_cons h2 (by simp), run_cons_of hl]
  cases args with
  | nil =>
    cases v with
    | true => exact absurd rfl (wf.2.2 rfl)
    | false => simp [printArgs, run, step, stepOperand, recvHead, retNil, complete_false, norm, normArgs]
  | cons a as =>
    obtain ⟨g1, g2⟩ := ihargs wf.2.1 pl.2.1 (by simp) fs K (wrapP (callParens f) (norm f)) []
    cases v with
    | true => simpa [norm] using g2
    | false => simpa [norm] using g1

/-! ### optional bounds -/

theorem rootOpt_none : RootOpt none := by
  intro _ _ K
  exact ⟨S0 [] K, by simp [printOpt, run], fun t ht => step_S0_terminator ht K⟩

theorem rootOpt_some (e : Expr) (ih : Inv e) : RootOpt (some e) := by
  obtain ⟨_, _, hr⟩ := ih
  intro wf pl K
  obtain ⟨s, h1, h2, _⟩ := hr (by simpa [WFOpt] using wf) (by simpa [PlainOpt] using pl) K
  exact ⟨s, by simpa [printOpt] using h1, h2⟩

/-! ### `default` -/

theorem dfltLhs_facts : ∀ {l : Expr}, dfltLhsOk l = true →
    isDflt l = false ∧ l.prec? = none ∧ endsTy false l = false ∧ dfltLhsOk (norm l) = true
  | .ident _, _ => by simp [isDflt, Expr.core, Expr.prec?, endsTy, norm, dfltLhsOk]
  | .call _ _ _, _ => by simp [isDflt, Expr.core, Expr.prec?, endsTy, norm, dfltLhsOk]
  | .paren e, h => by
    have := dfltLhs_facts (l := e) (by simpa [dfltLhsOk] using h)
    simpa [isDflt_paren, Expr.prec?, endsTy, norm] using this
  | .lit _ _, h => by simp [dfltLhsOk] at h
  | .unary _ _, h => by simp [dfltLhsOk] at h
  | .binary _ _ _, h => by simp [dfltLhsOk] at h
  | .index _ _, h => by simp [dfltLhsOk] at h
  | .slicing _ _ _ _ _, h => by simp [dfltLhsOk] at h
  | .selector _ _, h => by simp [dfltLhsOk] at h
  | .typeAssert _ _, h => by simp [dfltLhsOk] at h
  | .dflt _ _, h => by simp [dfltLhsOk] at h
  | .sliceT _, h => by simp [dfltLhsOk] at h
  | .arrayT _ _, h => by simp [dfltLhsOk] at h
  | .mapT _ _, h => by simp [dfltLhsOk] at h
  | .chanT _ _, h => by simp [dfltLhsOk] at h
  | .iface, h => by simp [dfltLhsOk] at h

theorem inv_dflt (l r : Expr) (ihl : Inv l) (ihr : Inv r) : Inv (.dflt l r) := by
  obtain ⟨hml, _, _⟩ := ihl
  obtain ⟨_, _, hrr⟩ := ihr
  refine ⟨?_, mainTy_of_not_type (by simp [IsType]), ?_⟩
  · intro _ _ nd; simp [isDflt, Expr.core] at nd
  · intro wf pl K
    simp only [WF] at wf
    simp only [Plain] at pl
    obtain ⟨nd, hp, he, hok⟩ := dfltLhs_facts wf.2.2
    have hlow : lowPrec l = uprec + 1 := lowPrec_of_prec?_none hp
    obtain ⟨s1, x, gs, h1, _, h3, h4⟩ := hml wf.1 pl.1 nd [] K (by simp) (fun _ => rfl)
    have hx := h4 (uprec + 1) (by rw [hlow]; exact Nat.le_refl _)
    rw [reduce_top, reduce_top] at hx
    obtain ⟨rfl, rfl⟩ := Prod.mk.inj hx
    have hs1 := h3 he
    subst hs1
    have hd : step (SOp (norm l) [] K) .kwDefault = some (S0 [] (⟨.dfltRhs (norm l), [], false⟩ :: K)) := by
      simp [step, stepOperator, hok, push]
    obtain ⟨s2, g1, g2, g3⟩ := hrr wf.2.1 pl.2 (⟨.dfltRhs (norm l), [], false⟩ :: K)
    refine ⟨s2, ?_, ?_, ?_⟩
    · rw [print, run_append_of h1, run_cons_of hd]; exact g1
    · intro t ht
      rw [g2 t ht]
      cases t <;> first | (simp [Terminator] at ht; done) | simp [ret, closeAll, norm]
    · rw [g3]; simp [closeDflt, closeAll, norm]

/-! ### qualified type names -/

theorem core_ident_facts : ∀ {e : Expr} {m : Nat}, e.core = .ident m → print e = [.ident m] ∧ norm e = .ident m
  | .ident _, _, h => by simp [Expr.core] at h; subst h; simp [print, norm]
  | .paren e, m, h => by
    have := core_ident_facts (e := e) (m := m) (by simpa [Expr.core] using h)
    simpa [print, norm] using this
  | .lit _ _, _, h => by simp [Expr.core] at h
  | .unary _ _, _, h => by simp [Expr.core] at h
  | .binary _ _ _, _, h => by simp [Expr.core] at h
  | .call _ _ _, _, h => by simp [Expr.core] at h
  | .index _ _, _, h => by simp [Expr.core] at h
  | .slicing _ _ _ _ _, _, h => by simp [Expr.core] at h
  | .selector _ _, _, h => by simp [Expr.core] at h
  | .typeAssert _ _, _, h => by simp [Expr.core] at h
  | .dflt _ _, _, h => by simp [Expr.core] at h
  | .sliceT _, _, h => by simp [Expr.core] at h
  | .arrayT _ _, _, h => by simp [Expr.core] at h
  | .mapT _ _, _, h => by simp [Expr.core] at h
  | .chanT _ _, _, h => by simp [Expr.core] at h
  | .iface, _, h => by simp [Expr.core] at h

theorem isType_selector {e : Expr} {n : Nat} (h : IsType (.selector e n) = true) : ∃ m, e.core = .ident m := by
  simp only [IsType] at h
  split at h
  · exact ⟨_, by assumption⟩
  · cases h

theorem mainTy_selector (e : Expr) (n : Nat) : MainTy (.selector e n) := by
  intro _ _ it p K hp
  obtain ⟨m, hm⟩ := isType_selector it
  obtain ⟨hpr, hn⟩ := core_ident_facts hm
  refine ⟨complete (norm (.selector e n)) p true K, ?_, settle_complete _ _ _ _, fun _ => rfl⟩
  rw [print, hpr]
  simp [run, step, stepOperand, hp, norm, hn]

theorem inv_selector (e : Expr) (n : Nat) (ih : Inv e) : Inv (.selector e n) :=
  ⟨main_selector e n ih, mainTy_selector e n, root_of_main (by simp [isDflt, Expr.core]) (main_selector e n ih)⟩

theorem inv_typeAssert (e t : Expr) (ihe : Inv e) (iht : Inv t) : Inv (.typeAssert e t) :=
  ⟨main_typeAssert e t ihe iht, mainTy_of_not_type (by simp [IsType]),
    root_of_main (by simp [isDflt, Expr.core]) (main_typeAssert e t ihe iht)⟩

theorem inv_index (e i : Expr) (ihe : Inv e) (ihi : Inv i) : Inv (.index e i) :=
  ⟨main_index e i ihe ihi, mainTy_of_not_type (by simp [IsType]),
    root_of_main (by simp [isDflt, Expr.core]) (main_index e i ihe ihi)⟩

theorem inv_slicing (e : Expr) (lo hi mx : Option Expr) (full : Bool) (ihe : Inv e)
    (ihlo : RootOpt lo) (ihhi : RootOpt hi) (ihmx : RootOpt mx) : Inv (.slicing e lo hi mx full) :=
  ⟨main_slicing e lo hi mx full ihe ihlo ihhi ihmx, mainTy_of_not_type (by simp [IsType]),
    root_of_main (by simp [isDflt, Expr.core]) (main_slicing e lo hi mx full ihe ihlo ihhi ihmx)⟩

theorem inv_call (f : Expr) (args : List Expr) (v : Bool) (ihf : Inv f) (ihargs : MainArgs args) :
    Inv (.call f args v) :=
  ⟨main_call f args v ihf ihargs, mainTy_of_not_type (by simp [IsType]),
    root_of_main (by simp [isDflt, Expr.core]) (main_call f args v ihf ihargs)⟩

/-! ### type literals: the same tokens in and outside type position -/

/-- the operand-expected state of a call of `parseExpr`, `mustBeType` or not -/
abbrev A0 (p : List Frame) (ty : Bool) (K : List Ctx) : St := ⟨.operand, p, ty, K⟩

/-- what the invariants say of a type literal `e`, for both values of `mustBeType` -/
def TyLit (e : Expr) (needNoRecv : Bool) : Prop :=
  ∀ (p : List Frame) (ty : Bool) (K : List Ctx), (ty = true ∨ needNoRecv = true → recvHead p = false) →
    ∃ s, run (A0 p ty K) (print e) = some s ∧ settle s = complete (norm e) p ty K ∧
      (endsTy true e = false → s = complete (norm e) p ty K)

theorem step_A0_lbrack (p : List Frame) (ty : Bool) (K : List Ctx) (hp : ty = true → recvHead p = false) :
    step (A0 p ty K) .lbrack = some (S0 [] (⟨.arrLen, p, ty⟩ :: K)) := by
  cases ty with
  | false => simp [step, stepOperand, push]
  | true => simp [step, stepOperand, push, hp rfl]

theorem tyLit_sliceT (t : Expr) (ih : MainTy t) (wf : WF t) (pl : Plain t) (it : IsType t = true) :
    TyLit (.sliceT t) false := by
  intro p ty K hp
  obtain ⟨s, h1, h2, h3⟩ := ih wf pl it [] (⟨.sliceElem, p, ty⟩ :: K) rfl
  have hb : step (S0 [] (⟨.arrLen, p, ty⟩ :: K)) .rbrack = some (T0 [] (⟨.sliceElem, p, ty⟩ :: K)) := by
    rw [step_S0_terminator (by simp [Terminator])]; simp [retNil]
  have hc : complete (norm t) [] true (⟨.sliceElem, p, ty⟩ :: K) = complete (norm (.sliceT t)) p ty K := by
    simp [complete, closeAll, norm]
  refine ⟨s, ?_, by rw [h2, hc], fun he => by rw [h3 (by simpa [endsTy] using he), hc]⟩
  rw [print, run_cons_of (step_A0_lbrack p ty K (fun h => hp (Or.inl h))), run_cons_of hb]
  exact h1

theorem print_arrayT (len : Option Expr) (t : Expr) :
    print (.arrayT len t) = .lbrack :: ((match len with | some l => print l | none => [.ellipsis]) ++ .rbrack :: print t) := by
  cases len <;> simp [print]

theorem tyLit_arrayT (len : Option Expr) (t : Expr) (ihlen : RootOpt len) (ih : MainTy t)
    (wfl : WFOpt len) (pll : PlainOpt len) (wf : WF t) (pl : Plain t) (it : IsType t = true) :
    TyLit (.arrayT len t) false := by
  intro p ty K hp
  obtain ⟨s, h1, h2, h3⟩ := ih wf pl it [] (⟨.arrElem (normOpt len), p, ty⟩ :: K) rfl
  have hc : complete (norm t) [] true (⟨.arrElem (normOpt len), p, ty⟩ :: K) =
      complete (norm (.arrayT len t)) p ty K := by
    simp [complete, closeAll, norm]
  refine ⟨s, ?_, by rw [h2, hc], fun he => by rw [h3 (by simpa [endsTy] using he), hc]⟩
  rw [print_arrayT, run_cons_of (step_A0_lbrack p ty K (fun h => hp (Or.inl h)))]
  cases len with
  | none =>
    have he : step (S0 [] (⟨.arrLen, p, ty⟩ :: K)) .ellipsis = some ⟨.arrEllipsis, [], false, ⟨.arrLen, p, ty⟩ :: K⟩ := by
      rw [step_S0_terminator (by simp [Terminator])]; simp [retNil]
    have hb : step ⟨.arrEllipsis, [], false, ⟨.arrLen, p, ty⟩ :: K⟩ .rbrack =
        some (T0 [] (⟨.arrElem none, p, ty⟩ :: K)) := by simp [step]
    simp only [List.cons_append, List.nil_append]
    rw [run_cons_of he, run_cons_of hb]
    simpa [normOpt] using h1
  | some l =>
    obtain ⟨s1, g1, g2⟩ := ihlen wfl pll (⟨.arrLen, p, ty⟩ :: K)
    have hb : step s1 .rbrack = some (T0 [] (⟨.arrElem (some (norm l)), p, ty⟩ :: K)) := by
      rw [g2 _ (by simp [Terminator])]; simp [ret]
    have g1' : run (S0 [] (⟨.arrLen, p, ty⟩ :: K)) (print l) = some s1 := by simpa [printOpt] using g1
    simp only []
    rw [run_append_of g1', run_cons_of hb]
    simpa [normOpt] using h1

theorem tyLit_mapT (k v : Expr) (ihk : MainTy k) (ihv : MainTy v)
    (wfk : WF k) (plk : Plain k) (itk : IsType k = true) (wfv : WF v) (plv : Plain v) (itv : IsType v = true) :
    TyLit (.mapT k v) false := by
  intro p ty K hp
  obtain ⟨s1, g1, g2, _⟩ := ihk wfk plk itk [] (⟨.mapKey, p, ty⟩ :: K) rfl
  obtain ⟨s, h1, h2, h3⟩ := ihv wfv plv itv [] (⟨.mapVal (norm k), p, ty⟩ :: K) rfl
  have hm : step (A0 p ty K) .kwMap = some ⟨.mapOpen, p, ty, K⟩ := by
    cases ty with
    | false => simp [step, stepOperand]
    | true => simp [step, stepOperand, hp (Or.inl rfl)]
  have hl : step ⟨.mapOpen, p, ty, K⟩ .lbrack = some (T0 [] (⟨.mapKey, p, ty⟩ :: K)) := by simp [step, push]
  have hs1 : settle s1 = ⟨.operator (norm k), [], true, ⟨.mapKey, p, ty⟩ :: K⟩ := by
    rw [g2]; simp [complete, closeAll]
  have hb : step s1 .rbrack = some (T0 [] (⟨.mapVal (norm k), p, ty⟩ :: K)) := by
    rw [step_settle (by simp), hs1, step_tyOperator]; simp [ret]
  have hc : complete (norm v) [] true (⟨.mapVal (norm k), p, ty⟩ :: K) = complete (norm (.mapT k v)) p ty K := by
    simp [complete, closeAll, norm]
  refine ⟨s, ?_, by rw [h2, hc], fun he => by rw [h3 (by simpa [endsTy] using he), hc]⟩
  rw [print, run_cons_of hm, run_cons_of hl, run_append_of g1, run_cons_of hb]
  exact h1

theorem tyLit_iface : TyLit .iface false := by
  intro p ty K hp
  refine ⟨complete (norm .iface) p ty K, ?_, settle_complete _ _ _ _, fun _ => rfl⟩
  cases ty with
  | false => simp [print, run, step, stepOperand, norm]
  | true => simp [print, run, step, stepOperand, norm, hp (Or.inl rfl)]

theorem print_head_not_arrow : ∀ {t : Expr}, IsType t = true → chanParens .NoDirection t = false →
    ∃ t0 rest, print t = t0 :: rest ∧ t0 ≠ .op .arrow
  | .ident n, _, _ => ⟨.ident n, [], by simp [print], by simp⟩
  | .selector e n, h, _ => by
    obtain ⟨m, hm⟩ := isType_selector h
    exact ⟨.ident m, _, by rw [print, (core_ident_facts hm).1]; rfl, by simp⟩
  | .unary u c, h, _ => by
    have hu : u = .pointer := by cases u <;> simp [IsType] at h <;> rfl
    subst hu
    exact ⟨_, _, by rw [print], by simp [unTok]⟩
  | .paren t, h, hc => by
    obtain ⟨t0, rest, h1, h2⟩ := print_head_not_arrow (t := t) (by simpa [IsType] using h)
      (by simpa [chanParens, Expr.core] using hc)
    exact ⟨t0, rest, by simpa [print] using h1, h2⟩
  | .sliceT t, _, _ => ⟨.lbrack, .rbrack :: print t, by simp [print], by simp⟩
  | .arrayT len t, _, _ => ⟨.lbrack, _, print_arrayT len t, by simp⟩
  | .mapT k v, _, _ => ⟨.kwMap, .lbrack :: (print k ++ .rbrack :: print v), by simp [print], by simp⟩
  | .iface, _, _ => ⟨.kwInterface, [.lbrace, .rbrace], by simp [print], by simp⟩
  | .chanT d t, _, hc => by
    cases d with
    | NoDirection => exact ⟨.kwChan, wrap (chanParens .NoDirection t) (print t), by simp [print, chanToks], by simp⟩
    | SendDirection =>
      exact ⟨.kwChan, .op .arrow :: wrap (chanParens .SendDirection t) (print t), by simp [print, chanToks], by simp⟩
    | ReceiveDirection => simp [chanParens, Expr.core] at hc
  | .lit _ _, h, _ => by simp [IsType] at h
  | .binary _ _ _, h, _ => by simp [IsType] at h
  | .call _ _ _, h, _ => by simp [IsType] at h
  | .index _ _, h, _ => by simp [IsType] at h
  | .slicing _ _ _ _ _, h, _ => by simp [IsType] at h
  | .typeAssert _ _, h, _ => by simp [IsType] at h
  | .dflt _ _, h, _ => by simp [IsType] at h

theorem step_chanOpen {t0 : Token} (h : t0 ≠ .op .arrow) (p : List Frame) (ty : Bool) (K : List Ctx) :
    step ⟨.chanOpen, p, ty, K⟩ t0 = step (T0 [] (⟨.chanElem .NoDirection, p, ty⟩ :: K)) t0 := by
  cases t0 with
  | op o => cases o <;> first | exact absurd rfl h | rfl
  | _ => rfl

theorem tyLit_chanT (d : ChanDirection) (t : Expr) (ih : MainTy t) (wf : WF t) (pl : Plain t) (it : IsType t = true) :
    TyLit (.chanT d t) (match d with | .ReceiveDirection => false | _ => true) := by
  intro p ty K hp
  have hc : ∀ x, complete x [] true (⟨.chanElem d, p, ty⟩ :: K) = complete (.chanT d x) p ty K := by
    intro x; simp [complete, closeAll]
  cases d with
  | ReceiveDirection =>
    obtain ⟨s, h1, h2, h3⟩ := ih wf pl it [] (⟨.chanElem .ReceiveDirection, p, ty⟩ :: K) rfl
    have ha : step (A0 p ty K) (.op .arrow) = some (A0 (.un .receive :: p) ty K) := by
      cases ty with
      | false => simp [step, stepOperand, unaryOf]
      | true => simp [step, stepOperand, unaryOf, hp (Or.inl rfl)]
    have hk : step (A0 (.un .receive :: p) ty K) .kwChan = some (T0 [] (⟨.chanElem .ReceiveDirection, p, ty⟩ :: K)) := by
      cases ty <;> simp [step, stepOperand, push, recvHead]
    have hn : norm (.chanT .ReceiveDirection t) = .chanT .ReceiveDirection (norm t) := by
      simp [norm, chanParens, wrapP]
    refine ⟨s, ?_, by rw [h2, hc, hn], fun he => by
      rw [h3 (by simpa [endsTy, chanParens] using he), hc, hn]⟩
    simp only [print, chanToks, chanParens, wrap, List.cons_append, List.nil_append, Bool.false_eq_true, if_false]
    rw [run_cons_of ha, run_cons_of hk]; exact h1
  | SendDirection =>
    obtain ⟨s, h1, h2, h3⟩ := ih wf pl it [] (⟨.chanElem .SendDirection, p, ty⟩ :: K) rfl
    have hp' : recvHead p = false := hp (Or.inr rfl)
    have hk : step (A0 p ty K) .kwChan = some ⟨.chanOpen, p, ty, K⟩ := by
      cases p with
      | nil => cases ty <;> simp [step, stepOperand, recvHead]
      | cons f p' =>
        cases f with
        | bin b l => cases ty <;> simp [step, stepOperand, recvHead]
        | un u => cases u <;> first | (simp [recvHead] at hp'; done) | (cases ty <;> simp [step, stepOperand, recvHead])
    have ha : step ⟨.chanOpen, p, ty, K⟩ (.op .arrow) = some (T0 [] (⟨.chanElem .SendDirection, p, ty⟩ :: K)) := by
      simp [step, push]
    have hn : norm (.chanT .SendDirection t) = .chanT .SendDirection (norm t) := by
      simp [norm, chanParens, wrapP]
    refine ⟨s, ?_, by rw [h2, hc, hn], fun he => by
      rw [h3 (by simpa [endsTy, chanParens] using he), hc, hn]⟩
    simp only [print, chanToks, chanParens, wrap, List.cons_append, List.nil_append, Bool.false_eq_true, if_false]
    rw [run_cons_of hk, run_cons_of ha]; exact h1
  | NoDirection =>
    have hp' : recvHead p = false := hp (Or.inr rfl)
    have hk : step (A0 p ty K) .kwChan = some ⟨.chanOpen, p, ty, K⟩ := by
      cases p with
      | nil => cases ty <;> simp [step, stepOperand, recvHead]
      | cons f p' =>
        cases f with
        | bin b l => cases ty <;> simp [step, stepOperand, recvHead]
        | un u => cases u <;> first | (simp [recvHead] at hp'; done) | (cases ty <;> simp [step, stepOperand, recvHead])
    cases hw : chanParens .NoDirection t with
    | false =>
      obtain ⟨s, h1, h2, h3⟩ := ih wf pl it [] (⟨.chanElem .NoDirection, p, ty⟩ :: K) rfl
      obtain ⟨t0, rest, hpr, hne⟩ := print_head_not_arrow it hw
      have hn : norm (.chanT .NoDirection t) = .chanT .NoDirection (norm t) := by simp [norm, hw, wrapP]
      refine ⟨s, ?_, by rw [h2, hc, hn], fun he => by
        rw [h3 (by simpa [endsTy, hw] using he), hc, hn]⟩
      simp only [print, chanToks, hw, wrap, List.cons_append, List.nil_append, Bool.false_eq_true, if_false]
      rw [run_cons_of hk]
      rw [hpr] at h1 ⊢
      simp only [run] at h1 ⊢
      rw [step_chanOpen hne]; exact h1
    | true =>
      obtain ⟨s1, g1, g2, _⟩ := ih wf pl it []
        (⟨.paren, [], true⟩ :: ⟨.chanElem .NoDirection, p, ty⟩ :: K) rfl
      have hs1 : settle s1 = ⟨.operator (norm t), [], true, ⟨.paren, [], true⟩ :: ⟨.chanElem .NoDirection, p, ty⟩ :: K⟩ := by
        rw [g2]; simp [complete, closeAll]
      have hl : step ⟨.chanOpen, p, ty, K⟩ .lparen =
          some (T0 [] (⟨.paren, [], true⟩ :: ⟨.chanElem .NoDirection, p, ty⟩ :: K)) := by
        rw [step_chanOpen (by simp)]; exact step_T0_lparen _ _ rfl
      have hn : norm (.chanT .NoDirection t) = .chanT .NoDirection (.paren (norm t)) := by simp [norm, hw, wrapP]
      have hr : step s1 .rparen = some (complete (norm (.chanT .NoDirection t)) p ty K) := by
        rw [step_settle (by simp), hs1, step_tyOperator, hn]; simp [ret, complete, closeAll]
      refine ⟨_, ?_, settle_complete _ _ _ _, fun _ => rfl⟩
      simp only [print, chanToks, hw, wrap, List.cons_append, List.nil_append, if_true]
      rw [run_cons_of hk, run_cons_of hl, run_append_of g1, run_cons_of hr]; rfl

/-- from the two-mode statement to the invariants -/
theorem inv_of_tyLit {e : Expr} {b : Bool} (h : WF e → Plain e → TyLit e b)
    (hnd : isDflt e = false) (hends : endsTy false e = endsTy true e)
    (hsc : b = true → startsChan e = true) : Inv e := by
  have hm : Main e := by
    intro wf pl _ fs K _ hch
    obtain ⟨s, h1, h2, h3⟩ := h wf pl fs false K (by
      intro hb
      rcases hb with hb | hb
      · cases hb
      · exact hch (hsc hb))
    rw [complete_false] at h2 h3
    exact main_of_settle h1 h2 (by rw [hends]; exact h3)
  refine ⟨hm, ?_, root_of_main hnd hm⟩
  intro wf pl _ p K hp
  exact h wf pl p true K (fun _ => hp)

theorem inv_sliceT (t : Expr) (ih : Inv t) : Inv (.sliceT t) :=
  inv_of_tyLit (b := false)
    (fun wf pl => by
      simp only [WF] at wf; simp only [Plain] at pl
      exact tyLit_sliceT t ih.2.1 wf.1 pl wf.2)
    (by simp [isDflt, Expr.core]) (by simp [endsTy]) (by intro h; cases h)

theorem inv_arrayT (len : Option Expr) (t : Expr) (ihlen : RootOpt len) (ih : Inv t) : Inv (.arrayT len t) :=
  inv_of_tyLit (b := false)
    (fun wf pl => by
      simp only [WF] at wf; simp only [Plain] at pl
      exact tyLit_arrayT len t ihlen ih.2.1 wf.1 pl.1 wf.2.1 pl.2 wf.2.2)
    (by simp [isDflt, Expr.core]) (by simp [endsTy]) (by intro h; cases h)

theorem inv_mapT (k v : Expr) (ihk : Inv k) (ihv : Inv v) : Inv (.mapT k v) :=
  inv_of_tyLit (b := false)
    (fun wf pl => by
      simp only [WF] at wf; simp only [Plain] at pl
      exact tyLit_mapT k v ihk.2.1 ihv.2.1 wf.1 pl.1 wf.2.1 wf.2.2.1 pl.2 wf.2.2.2)
    (by simp [isDflt, Expr.core]) (by simp [endsTy]) (by intro h; cases h)

theorem inv_chanT (d : ChanDirection) (t : Expr) (ih : Inv t) : Inv (.chanT d t) :=
  inv_of_tyLit (b := match d with | .ReceiveDirection => false | _ => true)
    (fun wf pl => by
      simp only [WF] at wf; simp only [Plain] at pl
      exact tyLit_chanT d t ih.2.1 wf.1 pl wf.2)
    (by simp [isDflt, Expr.core]) (by simp [endsTy]) (by cases d <;> simp [startsChan])

theorem inv_iface : Inv .iface :=
  inv_of_tyLit (b := false) (fun _ _ => tyLit_iface)
    (by simp [isDflt, Expr.core]) (by simp [endsTy]) (by intro h; cases h)

/-- the invariants hold of every expression -/
theorem invariants (e : Expr) : Inv e :=
  Expr.rec (motive_1 := Inv) (motive_2 := MainArgs) (motive_3 := RootOpt)
    inv_ident inv_lit inv_unary inv_binary inv_call inv_index inv_slicing inv_selector inv_typeAssert
    inv_dflt inv_sliceT inv_arrayT inv_mapT inv_chanT inv_iface inv_paren
    mainArgs_nil mainArgs_cons rootOpt_none rootOpt_some e

end ScriggoV.ExprPP
