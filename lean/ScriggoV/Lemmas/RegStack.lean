import ScriggoV.Model.RegStack
/-! Invariant of the register-stack machine (`Model/RegStack.lean`) under a configuration whose
growth guards all read `≥` (`Good`): the running function's window and the window of every frame
that can be resumed lie inside the stack. Helper lemmas for `Props/C05.lean`. -/
namespace ScriggoV.RegStack
open ScriggoV.Gen.GrowthGuards (Cmp Site GoUpper)

/-- the facts about the code the invariant needs -/
structure Good (c : Config) : Prop where
  callFunc : c.cmp .callFunc = some .ge
  callIndirect : c.cmp .callIndirect = some .ge
  callMacro : c.cmp .callMacro = some .ge
  tailCall : c.cmp .tailCall = some .ge
  swapStack : c.cmp .swapStack = some .ge
  growStack : c.cmp .growStack = some .ge
  factor : c.factor = 2
  deferGrows : c.deferGrows = true
  nextCallGrows : c.nextCallGrows = true
  goUpper : c.goUpper = .minFpPlusLen 127
  initLen : c.initLen = 512

theorem grow_ge {c : Config} {site : Site} (h : c.cmp site = some .ge) (hf : c.factor = 2)
    (lhs len : Nat) : grow c site lhs len = if lhs ≥ len then len * 2 else len := by
  simp [grow, h, hf, cmpHolds]

/-- one doubling is enough when the left-hand side is below twice the length -/
theorem grow_spec {c : Config} {site : Site} (h : c.cmp site = some .ge) (hf : c.factor = 2)
    (lhs len : Nat) (h2 : lhs < 2 * len) :
    lhs < grow c site lhs len ∧ len ≤ grow c site lhs len := by
  rw [grow_ge h hf]
  split <;> omega

/-- frames below a position whose pointer is `u`: every frame that can be resumed has its
window inside the stack, every deferred frame has its saved arguments below the frame above -/
def FramesOk (len : Nat) : Nat → List Frame → Prop
  | _, [] => True
  | u, f :: rest =>
    f.n ≤ 127 ∧ (f.status = .deferred → f.fp + f.args ≤ u) ∧
    (f.status ≠ .deferred → f.fp + f.n < len) ∧ FramesOk len f.fp rest

theorem FramesOk.mono_len {len len' : Nat} (h : len ≤ len') :
    ∀ {u : Nat} {l : List Frame}, FramesOk len u l → FramesOk len' u l := by
  intro u l
  induction l generalizing u with
  | nil => intro _; trivial
  | cons f rest ih =>
    intro ⟨h1, h2, h3, h4⟩
    exact ⟨h1, h2, fun hs => Nat.lt_of_lt_of_le (h3 hs) h, ih h4⟩

theorem FramesOk.mono_u {len u u' : Nat} (h : u ≤ u') {l : List Frame} :
    FramesOk len u l → FramesOk len u' l := by
  cases l with
  | nil => intro _; trivial
  | cons f rest =>
    intro ⟨h1, h2, h3, h4⟩
    exact ⟨h1, fun hs => Nat.le_trans (h2 hs) h, h3, h4⟩

/-- the invariant: the run is over, or every window is inside the stack -/
def Inv (st : St) : Prop :=
  st.halted = true ∨
  (512 ≤ st.len ∧ st.n ≤ 127 ∧ st.fp + st.n < st.len ∧ FramesOk st.len st.fp st.calls)

theorem activate_spec {c : Config} (g : Good c) (len fp n : Nat) (hl : 512 ≤ len) (hfp : fp < len)
    (hn : n ≤ 127) : fp + n < activate c len fp n ∧ len ≤ activate c len fp n := by
  unfold activate
  rw [g.nextCallGrows]
  simp only [if_true]
  exact grow_spec g.growStack g.factor _ _ (by omega)

/-- swapStack as used by `nextCall` and OpDefer never faults when the two pointers are in
order, the upper one has `bs` registers inside the stack, and `bs ≤ 127` -/
theorem swapStack_ok {c : Config} (g : Good c) (len a b bs : Nat) (hl : 512 ≤ len)
    (hab : a ≤ b) (hb : b < len) (hbs : bs ≤ 127) :
    ∃ len', swapStack c len a b bs = .ok len' ∧ len ≤ len' ∧
      (b - a > 0 → bs > 0 → b + 2 * bs < len') := by
  unfold swapStack
  rw [if_neg (by omega)]
  by_cases hc : b - a > 0 ∧ bs > 0
  · simp only [hc, and_self, if_true]
    have hs := grow_spec g.swapStack g.factor (a + (b - a + bs) + bs) len (by omega)
    refine ⟨_, ?_, hs.2, fun _ _ => by omega⟩
    rw [if_pos (by omega)]
  · rw [if_neg hc]
    exact ⟨len, rfl, Nat.le_refl _, fun h1 h2 => absurd ⟨h1, h2⟩ hc⟩

theorem nativeArgsOk_of {len fp args : Nat} (h : args = 0 ∨ fp + args < len) :
    nativeArgsOk len fp args = true := by
  unfold nativeArgsOk
  rcases h with h | h
  · simp [h]
  · simp [h]

/-- `case panicked` of nextCall keeps the invariant -/
theorem fromPanicked_inv {c : Config} (g : Good c) :
    ∀ (rest : List Frame) (m : Cur) (above : Frame), 512 ≤ m.len → above.n ≤ 127 →
      above.fp + above.n < m.len → FramesOk m.len above.fp rest →
      ∃ nx, fromPanicked c m above rest = .ok nx ∧ Inv nx.st := by
  intro rest
  induction rest with
  | nil => intro m above _ _ _ _; exact ⟨_, rfl, Or.inl rfl⟩
  | cons d rest ih =>
    intro m above hl han hab hf
    obtain ⟨h1, h2, h3, h4⟩ := hf
    unfold fromPanicked
    by_cases hd : d.status = .deferred
    · rw [if_pos hd]
      have hle := h2 hd
      have h4' : FramesOk m.len above.fp rest := FramesOk.mono_u (by omega) h4
      by_cases hn : d.native = true
      · simp only [hn, if_true]
        rw [nativeArgsOk_of (Or.inr (by omega))]
        simp only [if_true]
        exact ih { m with fp := d.fp } { above with status := .panicked } hl han hab h4'
      · simp only [hn, Bool.false_eq_true, if_false]
        have ha := activate_spec g m.len d.fp d.n hl (by omega) h1
        refine ⟨_, rfl, Or.inr ⟨by simp [Next.st]; omega, by simpa [Next.st] using h1,
          by simpa [Next.st] using ha.1, ?_⟩⟩
        simp only [Next.st]
        exact ⟨han, fun h => by simp at h, fun _ => by simpa using (Nat.lt_of_lt_of_le hab ha.2),
          FramesOk.mono_len ha.2 h4'⟩
    · rw [if_neg hd]
      exact ih m d hl h1 (h3 hd) h4

/-- `case returned, recovered` of nextCall keeps the invariant -/
theorem fromReturned_inv {c : Config} (g : Good c) :
    ∀ (rest : List Frame) (m : Cur) (R : Frame), 512 ≤ m.len → R.status ≠ .deferred → R.n ≤ 127 →
      R.fp + R.n < m.len → FramesOk m.len R.fp rest →
      ∃ nx, fromReturned c m R rest = .ok nx ∧ Inv nx.st := by
  intro rest
  induction rest with
  | nil =>
    intro m R _ _ _ hR _
    unfold fromReturned
    rw [if_pos hR]
    exact ⟨_, rfl, Or.inl rfl⟩
  | cons d rest ih =>
    intro m R hl hRs hRn hR hf
    obtain ⟨h1, h2, h3, h4⟩ := hf
    unfold fromReturned
    by_cases hd : d.status = .deferred
    · rw [if_pos hd]
      have hle := h2 hd
      obtain ⟨len', hsw, hge, hgu⟩ := swapStack_ok g m.len d.fp R.fp R.n hl (by omega) (by omega) hRn
      rw [hsw]
      simp only
      have hR' : d.fp + R.n < len' := by omega
      have h4' : FramesOk len' d.fp rest := FramesOk.mono_len hge h4
      by_cases hn : d.native = true
      · simp only [hn, if_true]
        have hargs : d.args = 0 ∨ d.fp + R.n + d.args < len' := by
          by_cases h0 : d.args = 0
          · exact Or.inl h0
          · right; omega
        rw [nativeArgsOk_of hargs]
        simp only [if_true]
        exact ih { len := len', fp := d.fp + R.n, n := m.n } { R with fp := d.fp } (by simp; omega)
          hRs hRn (by simpa using hR') (by simpa using h4')
      · simp only [hn, Bool.false_eq_true, if_false]
        have ha := activate_spec g len' (d.fp + R.n) d.n (by omega) hR' h1
        refine ⟨_, rfl, Or.inr ⟨by simp [Next.st]; omega, by simpa [Next.st] using h1,
          by simpa [Next.st] using ha.1, ?_⟩⟩
        simp only [Next.st]
        exact ⟨hRn, fun h => absurd h hRs, fun _ => by simp; omega, FramesOk.mono_len ha.2 h4'⟩
    · rw [if_neg hd, if_pos hR]
      have hdn := h3 hd
      split
      · rename_i hs
        have ha := activate_spec g m.len d.fp d.n hl (by omega) h1
        exact ⟨_, rfl, Or.inr ⟨by simp [Next.st]; omega, by simpa [Next.st] using h1,
          by simpa [Next.st] using ha.1, by simpa [Next.st] using FramesOk.mono_len ha.2 h4⟩⟩
      · exact ih { m with fp := R.fp } d hl hd h1 hdn h4
      · exact ih { m with fp := R.fp } d hl hd h1 hdn h4
      · exact fromPanicked_inv g rest { m with fp := R.fp } d hl h1 hdn h4
      · rename_i hs; exact absurd hs hd

/-- nextCall keeps the invariant -/
theorem nextCall_inv {c : Config} (g : Good c) (m : Cur) (frames : List Frame)
    (hl : 512 ≤ m.len) (hn : m.n ≤ 127) (hm : m.fp + m.n < m.len) (hf : FramesOk m.len m.fp frames) :
    ∃ nx, nextCall c m frames = .ok nx ∧ Inv nx.st := by
  cases frames with
  | nil => exact ⟨_, rfl, Or.inl rfl⟩
  | cons f rest =>
    obtain ⟨h1, h2, h3, h4⟩ := hf
    simp only [nextCall]
    split
    · rename_i hs
      have hfn := h3 (by simp [hs])
      have ha := activate_spec g m.len f.fp f.n hl (by omega) h1
      exact ⟨_, rfl, Or.inr ⟨by simp [Next.st]; omega, by simpa [Next.st] using h1,
        by simpa [Next.st] using ha.1, by simpa [Next.st] using FramesOk.mono_len ha.2 h4⟩⟩
    · rename_i hs
      have hle := h2 hs
      obtain ⟨len', hsw, hge, hgu⟩ := swapStack_ok g m.len f.fp m.fp m.n hl (by omega) (by omega) hn
      rw [hsw]
      simp only
      have hR' : f.fp + m.n < len' := by omega
      have h4' : FramesOk len' f.fp rest := FramesOk.mono_len hge h4
      by_cases hnat : f.native = true
      · simp only [hnat, if_true]
        have hargs : f.args = 0 ∨ f.fp + m.n + f.args < len' := by
          by_cases h0 : f.args = 0
          · exact Or.inl h0
          · right; omega
        rw [nativeArgsOk_of hargs]
        simp only [if_true]
        exact fromReturned_inv g rest { len := len', fp := f.fp + m.n, n := m.n }
          { status := .returned, fp := f.fp, n := m.n } (by simp; omega) (by simp) hn
          (by simpa using hR') (by simpa using h4')
      · simp only [hnat, Bool.false_eq_true, if_false]
        have ha := activate_spec g len' (f.fp + m.n) f.n (by omega) hR' h1
        refine ⟨_, rfl, Or.inr ⟨by simp [Next.st]; omega, by simpa [Next.st] using h1,
          by simpa [Next.st] using ha.1, ?_⟩⟩
        simp only [Next.st]
        exact ⟨hn, fun h => by simp at h, fun _ => by simp; omega, FramesOk.mono_len ha.2 h4'⟩
    · rename_i hs
      exact fromReturned_inv g rest m f hl (by simp [hs]) h1 (h3 (by simp [hs])) h4
    · rename_i hs
      exact fromReturned_inv g rest m f hl (by simp [hs]) h1 (h3 (by simp [hs])) h4
    · rename_i hs
      exact fromPanicked_inv g rest m f hl h1 (h3 (by simp [hs])) h4

theorem markRecovered_ok {len : Nat} : ∀ {u : Nat} {l : List Frame},
    FramesOk len u l → FramesOk len u (markRecovered l) := by
  intro u l
  induction l generalizing u with
  | nil => intro h; exact h
  | cons f rest ih =>
    intro ⟨h1, h2, h3, h4⟩
    unfold markRecovered
    by_cases hd : f.status = .deferred
    · rw [if_pos hd]; exact ⟨h1, h2, h3, ih h4⟩
    · rw [if_neg hd]
      by_cases hp : f.status = .panicked
      · rw [if_pos hp]
        exact ⟨h1, fun h => by simp at h, fun _ => h3 hd, h4⟩
      · rw [if_neg hp]; exact ⟨h1, h2, h3, h4⟩

/-- every event keeps the invariant and raises no fault -/
theorem step_inv {c : Config} (g : Good c) (st : St) (ev : Event) (hi : Inv st) :
    ∃ st', step c st ev = .ok st' ∧ Inv st' := by
  unfold step
  by_cases hh : (st.halted || !ev.wellFormed st) = true
  · rw [if_pos hh]; exact ⟨st, rfl, hi⟩
  · rw [if_neg hh]
    simp only [Bool.or_eq_true, Bool.not_eq_true', not_or, Bool.not_eq_true, Bool.not_eq_false] at hh
    obtain ⟨hnh, hwf⟩ := hh
    rcases hi with hi | ⟨hl, hn, hm, hf⟩
    · rw [hi] at hnh; cases hnh
    cases ev with
    | call kind off m =>
      simp only [Event.wellFormed, Bool.and_eq_true, decide_eq_true_eq] at hwf
      have hk : c.cmp kind.site = some .ge := by
        cases kind <;> simp [CallKind.site, g.callFunc, g.callIndirect, g.callMacro]
      have hs := grow_spec hk g.factor (st.fp + off + m) st.len (by omega)
      refine ⟨_, rfl, Or.inr ⟨by simp; omega, by simpa using hwf.2, by simpa using hs.1, ?_⟩⟩
      simp only
      exact ⟨hn, fun h => by simp at h, fun _ => by simp; omega, FramesOk.mono_len hs.2 hf⟩
    | tailCall m =>
      simp only [Event.wellFormed, decide_eq_true_eq] at hwf
      have hs := grow_spec g.tailCall g.factor (st.fp + m) st.len (by omega)
      exact ⟨_, rfl, Or.inr ⟨by simp; omega, by simpa using hwf, by simpa using hs.1,
        by simpa using FramesOk.mono_len hs.2 hf⟩⟩
    | defer off bs m native args =>
      simp only [Event.wellFormed, Bool.and_eq_true, decide_eq_true_eq] at hwf
      obtain ⟨⟨⟨hoff, hbs⟩, hmm⟩, hargs⟩ := hwf
      obtain ⟨len', hsw, hge, _⟩ := swapStack_ok g st.len st.fp (st.fp + off) bs hl (by omega) (by omega) hbs
      simp only
      rw [hsw]
      simp only [g.deferGrows, if_true]
      have hs := grow_spec g.growStack g.factor (st.fp + bs + st.n) len' (by omega)
      refine ⟨_, rfl, Or.inr ⟨by simp; omega, by simpa using hn, by simpa using hs.1, ?_⟩⟩
      simp only
      exact ⟨hmm, fun _ => by simp; omega, fun h => by simp at h,
        FramesOk.mono_len (Nat.le_trans hge hs.2) hf⟩
    | ret =>
      simp only
      cases hc : st.calls with
      | nil => exact ⟨_, rfl, Or.inl rfl⟩
      | cons f rest =>
        simp only
        rw [hc] at hf
        by_cases hs : f.status = .started
        · rw [if_pos hs]
          obtain ⟨h1, _, h3, h4⟩ := hf
          exact ⟨_, rfl, Or.inr ⟨hl, h1, h3 (by simp [hs]), h4⟩⟩
        · rw [if_neg hs]
          obtain ⟨nx, hnx, hinv⟩ := nextCall_inv g { len := st.len, fp := st.fp, n := st.n } (f :: rest) hl hn hm hf
          exact ⟨nx.st, by simp [ofNext, hnx, Except.map], hinv⟩
    | panic =>
      simp only
      cases hc : st.calls with
      | nil => exact ⟨_, rfl, Or.inl rfl⟩
      | cons f rest =>
        simp only
        rw [hc] at hf
        obtain ⟨nx, hnx, hinv⟩ := nextCall_inv g { len := st.len, fp := st.fp, n := st.n }
          ({ status := .panicked, fp := st.fp, n := st.n } :: f :: rest) hl hn hm
          ⟨hn, fun h => by simp at h, fun _ => hm, hf⟩
        exact ⟨nx.st, by simp [ofNext, hnx, Except.map], hinv⟩
    | recover down =>
      simp only
      cases down with
      | false =>
        exact ⟨_, rfl, Or.inr ⟨hl, hn, hm, markRecovered_ok hf⟩⟩
      | true =>
        cases hc : st.calls with
        | nil => simp [Event.wellFormed, hc] at hwf
        | cons f rest =>
          simp only
          by_cases hp : f.status = .panicked
          · rw [if_pos hp]; exact ⟨st, rfl, Or.inr ⟨hl, hn, hm, hf⟩⟩
          · rw [if_neg hp]
            rw [hc] at hf
            obtain ⟨h1, h2, h3, h4⟩ := hf
            exact ⟨_, rfl, Or.inr ⟨hl, hn, hm, ⟨h1, h2, h3, markRecovered_ok h4⟩⟩⟩
    | access r =>
      simp only [Event.wellFormed, decide_eq_true_eq] at hwf
      simp only
      rw [if_pos (by omega)]
      exact ⟨st, rfl, Or.inr ⟨hl, hn, hm, hf⟩⟩
    | callNative shift k =>
      simp only [Event.wellFormed, decide_eq_true_eq] at hwf
      simp only
      rw [if_pos (by omega)]
      exact ⟨st, rfl, Or.inr ⟨hl, hn, hm, hf⟩⟩
    | go off =>
      simp only [Event.wellFormed, decide_eq_true_eq] at hwf
      simp only [g.goUpper]
      rw [if_pos (by omega)]
      exact ⟨st, rfl, Or.inr ⟨hl, hn, hm, hf⟩⟩

theorem runFrom_inv {c : Config} (g : Good c) : ∀ (evs : List Event) (st : St), Inv st →
    ∃ st', runFrom c st evs = .ok st' ∧ Inv st' := by
  intro evs
  induction evs with
  | nil => intro st hi; exact ⟨st, rfl, hi⟩
  | cons ev evs ih =>
    intro st hi
    obtain ⟨st1, h1, hi1⟩ := step_inv g st ev hi
    obtain ⟨st2, h2, hi2⟩ := ih st1 hi1
    exact ⟨st2, by simp [runFrom, h1, h2], hi2⟩

theorem init_inv {c : Config} (g : Good c) (n0 : Nat) (h0 : n0 ≤ 127) : Inv (init c n0) := by
  refine Or.inr ⟨?_, ?_, ?_, ?_⟩ <;> simp [init, g.initLen, FramesOk] <;> omega

/-! ### contents: `swapStack` moves exactly the two blocks -/

theorem copyInto_front {α} (T X tail : List α) (src : List α)
    (hx : X.length = src.length) :
    copyInto (T ++ X ++ tail) T.length src = T ++ src ++ tail := by
  unfold copyInto
  have h1 : (T ++ X ++ tail).length - T.length = X.length + tail.length := by
    simp only [List.length_append]; omega
  have h2 : min src.length (X.length + tail.length) = src.length := by omega
  have h3 : List.take T.length (T ++ X ++ tail) = T := by
    rw [List.append_assoc]; exact List.take_left' rfl
  have h4 : List.drop (T.length + src.length) (T ++ X ++ tail) = tail := by
    rw [← hx, ← List.length_append]; exact List.drop_left' rfl
  have h5 : List.take (X.length + tail.length) src = src := List.take_of_length_le (by omega)
  rw [h1, h2, h3, h4, h5]

theorem split3 {α} (s : List α) (i j : Nat) :
    s = s.take i ++ (s.drop i).take j ++ (s.drop i).drop j := by
  rw [List.append_assoc, List.take_append_drop, List.take_append_drop]

theorem rotate_spec {α} (A B rest : List α) (h : B.length ≤ rest.length) :
    rotate (A ++ B ++ rest) A.length B.length = .ok (B ++ A ++ B ++ rest.drop B.length) := by
  unfold rotate
  have hl : (A ++ B ++ rest).length = A.length + B.length + rest.length := by
    simp only [List.length_append]
  simp only [hl]
  rw [if_pos (by omega)]
  have t1 : List.take (A.length + B.length) (A ++ B ++ rest) = A ++ B := by
    rw [← List.length_append]; exact List.take_left' rfl
  rw [t1]
  have hd : ((A ++ B ++ rest).drop B.length).drop (A.length + B.length) = rest.drop B.length := by
    rw [List.drop_drop]
    have : B.length + (A.length + B.length) = (A ++ B).length + B.length := by
      simp only [List.length_append]; omega
    rw [this, List.drop_length_add_append]
  have hs1 : copyInto (A ++ B ++ rest) B.length (A ++ B)
      = (A ++ B ++ rest).take B.length ++ (A ++ B) ++ rest.drop B.length := by
    have hT : ((A ++ B ++ rest).take B.length).length = B.length := by
      rw [List.length_take, hl]; omega
    have hX : (((A ++ B ++ rest).drop B.length).take (A.length + B.length)).length = (A ++ B).length := by
      rw [List.length_take, List.length_drop, hl, List.length_append]; omega
    have := copyInto_front ((A ++ B ++ rest).take B.length)
      (((A ++ B ++ rest).drop B.length).take (A.length + B.length))
      (((A ++ B ++ rest).drop B.length).drop (A.length + B.length)) (A ++ B) hX
    rw [← split3, hT, hd] at this
    exact this
  rw [hs1]
  have hT : ((A ++ B ++ rest).take B.length).length = B.length := by
    rw [List.length_take, hl]; omega
  have hl1 : (List.take B.length (A ++ B ++ rest) ++ (A ++ B) ++ List.drop B.length rest).length
      = A.length + B.length + rest.length := by
    simp only [List.length_append, hT, List.length_drop]; omega
  rw [hl1, if_pos (by omega)]
  -- (s1.drop tot).take bs = B
  have hdrop : List.drop (A.length + B.length) (List.take B.length (A ++ B ++ rest) ++ (A ++ B) ++ List.drop B.length rest)
      = B ++ List.drop B.length rest := by
    have : A.length + B.length = (List.take B.length (A ++ B ++ rest) ++ A).length := by
      rw [List.length_append, hT]; omega
    rw [this]
    have e : List.take B.length (A ++ B ++ rest) ++ (A ++ B) ++ List.drop B.length rest
        = (List.take B.length (A ++ B ++ rest) ++ A) ++ (B ++ List.drop B.length rest) := by
      simp only [List.append_assoc]
    rw [e]; exact List.drop_left' rfl
  rw [hdrop]
  have htake : List.take B.length (B ++ List.drop B.length rest) = B := List.take_left' rfl
  rw [htake]
  -- second copy at 0
  have := copyInto_front ([] : List α) (List.take B.length (A ++ B ++ rest))
    ((A ++ B) ++ List.drop B.length rest) B hT
  simp only [List.nil_append, List.length_nil] at this
  rw [← List.append_assoc] at this
  rw [this]
  simp only [List.append_assoc]


/-- `swapStack` on registers `pre ++ A ++ B ++ rest` with `a + 1 = |pre|`, `b = a + |A|`,
`bs = |B|` (both blocks non-empty, and `|B|` more registers above them, which is what the guard
and the growth step provide): the blocks are exchanged, the `|B|` registers above hold a stale
copy of `B`, everything else is untouched; the pointers become `a + bs` and `a`. -/
theorem swapRegs_spec {α} (pre A B rest : List α) (a : Nat) (ha : pre.length = a + 1)
    (hA : 0 < A.length) (hB : 0 < B.length) (h : B.length ≤ rest.length) :
    swapRegs (pre ++ A ++ B ++ rest) a (a + A.length) B.length
      = .ok (a + B.length, a, pre ++ B ++ A ++ B ++ rest.drop B.length) := by
  unfold swapRegs
  rw [if_neg (by omega)]
  have e1 : a + A.length - a = A.length := by omega
  rw [e1, if_pos ⟨hA, hB⟩]
  have hl : a + 1 ≤ (pre ++ A ++ B ++ rest).length := by
    simp only [List.length_append]; omega
  rw [if_pos hl]
  have hd : List.drop (a + 1) (pre ++ A ++ B ++ rest) = A ++ B ++ rest := by
    rw [← ha]
    simp only [List.append_assoc]
    exact List.drop_left' rfl
  have ht : List.take (a + 1) (pre ++ A ++ B ++ rest) = pre := by
    rw [← ha]
    simp only [List.append_assoc]
    exact List.take_left' rfl
  rw [hd, ht, rotate_spec A B rest h]
  simp only [List.append_assoc]

end ScriggoV.RegStack
