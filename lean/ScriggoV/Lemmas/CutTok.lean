import ScriggoV.Model.Cut
/-! C15 helper lemmas, part 5: the tokenizer's invariant. Whatever `scan` returns satisfies `WF`:
no text token is empty, no two text tokens are adjacent, the loop sees a proper prefix of a
statement or show and the whole of a comment. So the check in `tokenize` never fails. -/
namespace ScriggoV.Cut

/-- no two adjacent texts, read in either direction -/
def adjFree : List Raw → Bool
  | [] => true
  | [_] => true
  | .text _ :: .text b :: rs => false && adjFree (.text b :: rs)
  | _ :: r :: rs => adjFree (r :: rs)

def headNotText : List Raw → Bool
  | .text _ :: _ => false
  | _ => true

/-- the tokens emitted so far (last first): well-formed, no two texts in a row, and the last
one is not a text (so that the pending text can follow it) -/
def Gout (out : List Raw) : Prop := out.all Raw.wf = true ∧ adjFree out = true ∧ headNotText out = true

theorem adjFree_cons_nt (t : NT) (rs : List Raw) : adjFree (.nt t :: rs) = adjFree rs := by
  cases rs with
  | nil => rfl
  | cons r rs => simp [adjFree]

theorem adjFree_cons_text (bs : Bytes) (rs : List Raw) (h : headNotText rs = true) :
    adjFree (.text bs :: rs) = adjFree rs := by
  cases rs with
  | nil => rfl
  | cons r rs => cases r <;> simp [adjFree, headNotText] at *

theorem gout_emit {st : LSt} (t : NT) (h : Gout st.out) (ht : t.wf = true) : Gout (st.emit t).out := by
  obtain ⟨h1, h2, h3⟩ := h
  unfold LSt.emit LSt.flush
  by_cases ha : st.acc.isEmpty = true
  · simp only [ha, if_true]
    exact ⟨by simp [h1, Raw.wf, ht], by rw [adjFree_cons_nt]; exact h2, rfl⟩
  · have ha' : st.acc.isEmpty = false := by simpa using ha
    simp only [ha', Bool.false_eq_true, if_false]
    refine ⟨?_, ?_, rfl⟩
    · have : st.acc.reverse.isEmpty = false := by
        cases hacc : st.acc with
        | nil => simp [hacc] at ha
        | cons a as => simp
      simp [h1, Raw.wf, ht, this]
    · rw [adjFree_cons_nt, adjFree_cons_text _ _ h3]; exact h2

/-- `noAdj` on a list is `adjFree` (with the previous token a text: and the head is not one) -/
theorem noAdj_eq (rs : List Raw) :
    noAdj false rs = adjFree rs ∧ noAdj true rs = (adjFree rs && headNotText rs) := by
  induction rs with
  | nil => simp [noAdj, adjFree, headNotText]
  | cons r rs ih =>
    cases r with
    | nt t => simp [noAdj, adjFree_cons_nt, headNotText, ih.1]
    | text bs =>
      simp only [noAdj, Bool.not_false, Bool.true_and, Bool.not_true, Bool.false_and, headNotText,
        Bool.and_false, and_true]
      rw [ih.2]
      cases rs with
      | nil => rfl
      | cons r' rs' => cases r' <;> simp [adjFree, headNotText]

theorem adjFree_snoc_nt (rs : List Raw) (t : NT) : adjFree (rs ++ [.nt t]) = adjFree rs := by
  induction rs with
  | nil => rfl
  | cons r rs ih =>
    cases rs with
    | nil => cases r <;> simp [adjFree]
    | cons r' rs' =>
      cases r <;> cases r' <;> simp [adjFree] at * <;> exact ih

def lastNotText (rs : List Raw) : Bool := headNotText rs.reverse

theorem adjFree_snoc_text (rs : List Raw) (bs : Bytes) :
    adjFree (rs ++ [.text bs]) = (adjFree rs && headNotText rs.reverse) := by
  induction rs with
  | nil => rfl
  | cons r rs ih =>
    cases rs with
    | nil => cases r <;> simp [adjFree, headNotText]
    | cons r' rs' =>
      have hrev : headNotText ((r :: r' :: rs').reverse) = headNotText ((r' :: rs').reverse) := by
        simp only [List.reverse_cons, List.append_assoc]
        cases h : rs'.reverse with
        | nil => cases r' <;> simp [headNotText]
        | cons a as => cases a <;> simp [headNotText]
      rw [hrev]
      cases r <;> cases r' <;> simp [adjFree] at * <;> exact ih

theorem adjFree_reverse (rs : List Raw) : adjFree rs.reverse = adjFree rs := by
  induction rs with
  | nil => rfl
  | cons r rs ih =>
    rw [List.reverse_cons]
    cases r with
    | nt t => rw [adjFree_snoc_nt, ih, adjFree_cons_nt]
    | text bs =>
      rw [adjFree_snoc_text, ih, List.reverse_reverse]
      cases rs with
      | nil => rfl
      | cons r' rs' => cases r' <;> simp [adjFree, headNotText]

/-- the end of `scan`: flushing the pending text gives a well-formed token list -/
theorem gout_final {st : LSt} (h : Gout st.out) : WF st.flush.out.reverse = true := by
  obtain ⟨h1, h2, h3⟩ := h
  unfold WF LSt.flush
  by_cases ha : st.acc.isEmpty = true
  · simp only [ha, if_true, Bool.and_eq_true]
    exact ⟨by simpa using h1, by rw [(noAdj_eq _).1, adjFree_reverse]; exact h2⟩
  · have ha' : st.acc.isEmpty = false := by simpa using ha
    simp only [ha', Bool.false_eq_true, if_false, Bool.and_eq_true]
    have hne : st.acc.reverse.isEmpty = false := by
      cases hacc : st.acc with
      | nil => simp [hacc] at ha
      | cons a as => simp
    constructor
    · simp only [List.all_reverse, List.all_cons, Raw.wf, hne, Bool.not_false, Bool.true_and]
      exact h1
    · rw [(noAdj_eq _).1, adjFree_reverse, adjFree_cons_text _ _ h3]; exact h2

theorem commentLen_pos (src : Bytes) : ∀ (fuel p nested n : Nat),
    commentLen src fuel p nested = some n → 0 < n := by
  intro fuel
  induction fuel with
  | zero => intro p nested n h; simp [commentLen] at h
  | succ k ih =>
    intro p nested n h
    unfold commentLen at h
    split at h
    · cases h
    · split at h
      · exact ih _ _ _ h
      · split at h
        · split at h
          · cases h; omega
          · exact ih _ _ _ h
        · exact ih _ _ _ h


theorem wf_plain (cut : Bool) (o : Bytes) (nl h i : Nat) (hh : 0 < h) (hlt : h < i) :
    NT.wf ⟨false, cut, o, nl, h, i⟩ = true := by
  simp [NT.wf]; omega

theorem wf_comment (n nl : Nat) (hn : 0 < n) : NT.wf ⟨true, true, [], nl, n, n⟩ = true := by
  simp [NT.wf]; omega

theorem stepBackslash_gout {st st' : LSt} {c : UInt8} {rest r : Bytes}
    (h : stepBackslash st c rest = .next st' r) (g : Gout st.out) : Gout st'.out := by
  unfold stepBackslash at h
  repeat' split at h
  all_goals first | (cases h; done) | (cases h; exact g)

theorem stepShow_gout {f : Format} {st st' : LSt} {inner r : Bytes}
    (h : stepShow f st inner = .next st' r) (g : Gout st.out) : Gout st'.out := by
  unfold stepShow at h
  repeat' split at h
  all_goals first
    | (cases h; done)
    | (cases h; exact gout_emit _ g (wf_plain _ _ _ _ _ (by omega) (by omega)))

theorem stepStmts_gout {st st' : LSt} {inner r : Bytes}
    (h : stepStmts st inner = .next st' r) (g : Gout st.out) : Gout st'.out := by
  unfold stepStmts at h
  repeat' split at h
  all_goals first
    | (cases h; done)
    | (cases h; exact gout_emit _ g (wf_plain _ _ _ _ _ (by omega) (by omega)))

theorem stepRaw_gout {st st' : LSt} {marker after r : Bytes}
    (h : stepRaw st marker after = .next st' r) (g : Gout st.out) : Gout st'.out := by
  unfold stepRaw at h
  repeat' split at h
  all_goals first | (cases h; done) | (cases h; exact g)

theorem stepStmt_gout {st st' : LSt} {inner r : Bytes}
    (h : stepStmt st inner = .next st' r) (g : Gout st.out) : Gout st'.out := by
  unfold stepStmt at h
  repeat' split at h
  all_goals first
    | (cases h; done)
    | (cases h; exact gout_emit _ g (wf_plain _ _ _ _ _ (by omega) (by omega)))
    | exact stepRaw_gout h (gout_emit _ g (wf_plain _ _ _ _ _ (by omega) (by omega)))

theorem stepComment_gout {st st' : LSt} {src r : Bytes}
    (h : stepComment st src = .next st' r) (g : Gout st.out) : Gout st'.out := by
  unfold stepComment at h
  split at h
  · cases h
  · rename_i n hn
    cases h
    exact gout_emit _ g (wf_comment _ _ (commentLen_pos _ _ _ _ _ hn))

theorem stepNewline_gout {st st' : LSt} {rest r : Bytes}
    (h : stepNewline st rest = .next st' r) (g : Gout st.out) : Gout st'.out := by
  unfold stepNewline enterCodeBlock at h
  repeat' split at h
  all_goals first | (cases h; done) | (cases h; exact g)

theorem scanStep_gout {f : Format} {st st' : LSt} {c : UInt8} {rest r : Bytes}
    (h : scanStep f st c rest = .next st' r) (g : Gout st.out) : Gout st'.out := by
  unfold scanStep at h
  generalize hst0 : (if (st.ctx == MdCtx.md) = true then
      ({ st with spacesOnly := st.spacesOnly && isSpace c } : LSt) else st) = st0 at h
  have g0 : Gout st0.out := by
    rw [← hst0]; split <;> exact g
  clear hst0 g
  simp only [] at h
  repeat' split at h
  all_goals first
    | (cases h; done)
    | exact stepBackslash_gout h g0
    | exact stepShow_gout h g0
    | exact stepStmts_gout h g0
    | exact stepStmt_gout h g0
    | exact stepComment_gout h g0
    | (refine stepNewline_gout h ?_; first | exact g0 | (split <;> exact g0))
    | (cases h; first | exact g0 | (split <;> exact g0))

theorem scan_wf (f : Format) : ∀ (fuel : Nat) (st : LSt) (src : Bytes) (raws : List Raw),
    Gout st.out → scan f fuel st src = .ok raws → WF raws = true := by
  intro fuel
  induction fuel with
  | zero => intro st src raws _ h; simp [scan] at h
  | succ k ih =>
    intro st src raws g h
    cases src with
    | nil =>
      simp only [scan, Except.ok.injEq] at h
      rw [← h]; exact gout_final g
    | cons c rest =>
      simp only [scan] at h
      split at h
      · cases h
      · rename_i st' rest' hs
        exact ih _ _ _ (scanStep_gout hs g) h

theorem scanAll_wf {f : Format} {body : Bytes} {raws : List Raw} (h : scanAll f body = .ok raws) :
    WF raws = true := by
  unfold scanAll at h
  have g0 : Gout ([] : List Raw) := ⟨rfl, rfl, rfl⟩
  split at h
  · exact scan_wf f _ _ _ _ g0 h
  · exact scan_wf f _ _ _ _ g0 h

end ScriggoV.Cut
