import ScriggoV.Model.Escape
import ScriggoV.Spec.Decode
/-! The `last`/chunk loop of the escapers computes a per-byte substitution (`simple`), and a
generic round-trip lemma for step decoders over such substitutions. -/
namespace ScriggoV.Escape
open ScriggoV ScriggoV.Decode

/-- what the loop writes for the byte `c` followed by `rest` -/
def piece (f : UInt8 → Bytes → List Bytes) (c : UInt8) (rest : Bytes) : Bytes :=
  match f c rest with
  | [] => [c]
  | w :: ws => (w :: ws).flatten

/-- the output as a per-byte substitution with look-ahead -/
def simple (f : UInt8 → Bytes → List Bytes) : Bytes → Bytes
  | [] => []
  | c :: rest => piece f c rest ++ simple f rest

theorem flush_flatten (p : Bytes) : (flush p).flatten = p := by
  unfold flush
  cases p <;> simp

/-- the chunked loop writes exactly `pending ++ simple f s` -/
theorem escLoop_flatten (f : UInt8 → Bytes → List Bytes) (s : Bytes) :
    ∀ pending, (escLoop f pending s).flatten = pending ++ simple f s := by
  induction s with
  | nil => intro p; simp [escLoop, simple, flush_flatten]
  | cons c rest ih =>
    intro p
    unfold escLoop
    simp only [simple, piece]
    split
    · rename_i h; rw [ih, h]; simp
    · rename_i w ws h
      rw [h]
      simp only [List.flatten_append, flush_flatten, ih, List.nil_append, List.append_assoc]

/-- no chunk the loop writes is empty, provided the body never writes an empty chunk -/
theorem escLoop_chunks_nonempty (f : UInt8 → Bytes → List Bytes)
    (hf : ∀ c rest, ∀ w ∈ f c rest, w ≠ []) (s : Bytes) :
    ∀ pending, ∀ w ∈ escLoop f pending s, w ≠ [] := by
  induction s with
  | nil =>
    intro p w hw
    unfold escLoop flush at hw
    cases p <;> simp at hw
    subst hw; simp
  | cons c rest ih =>
    intro p w hw
    unfold escLoop at hw
    split at hw
    · exact ih _ w hw
    · rename_i w0 ws h
      simp only [List.mem_append] at hw
      rcases hw with (hw | hw) | hw
      · unfold flush at hw
        cases p <;> simp at hw
        subst hw; simp
      · exact hf c rest w (h ▸ hw)
      · exact ih _ w hw

/-! ### step decoders -/
theorem decodeF_step (step : Bytes → Option (Bytes × Bytes)) (f : Nat) (x out rest : Bytes)
    (hx : x ≠ []) (h : step x = some (out, rest)) :
    decodeF step (f + 1) x = (decodeF step f rest).map (out ++ ·) := by
  cases x with
  | nil => exact absurd rfl hx
  | cons c s => simp only [decodeF, h]

/-- If every piece of a per-byte substitution is non-empty and one decoder step turns it back
into `g c` — whatever follows it in the output — then decoding the whole output gives the
input with every byte `c` replaced by `g c` (for a faithful encoding `g c = [c]`). -/
theorem decodeF_simple (step : Bytes → Option (Bytes × Bytes)) (f : UInt8 → Bytes → List Bytes)
    (g : UInt8 → Bytes)
    (hne : ∀ c rest, piece f c rest ≠ [])
    (hstep : ∀ c rest, step (piece f c rest ++ simple f rest) = some (g c, simple f rest)) :
    ∀ (s : Bytes) (n : Nat), (simple f s).length < n →
      decodeF step n (simple f s) = some (s.flatMap g) := by
  intro s
  induction s with
  | nil => intro n _; cases n <;> simp [simple, decodeF]
  | cons c rest ih =>
    intro n hn
    cases n with
    | zero => omega
    | succ n =>
      simp only [simple] at hn ⊢
      have hne' : piece f c rest ++ simple f rest ≠ [] := by
        have := hne c rest
        intro h
        exact this (List.append_eq_nil_iff.mp h).1
      rw [decodeF_step step n _ _ _ hne' (hstep c rest)]
      have hl : 0 < (piece f c rest).length := List.length_pos_iff.mpr (hne c rest)
      rw [ih n (by simp only [List.length_append] at hn; omega)]
      simp

theorem decodeAll_simple (step : Bytes → Option (Bytes × Bytes)) (f : UInt8 → Bytes → List Bytes)
    (g : UInt8 → Bytes)
    (hne : ∀ c rest, piece f c rest ≠ [])
    (hstep : ∀ c rest, step (piece f c rest ++ simple f rest) = some (g c, simple f rest))
    (s : Bytes) : decodeAll step (simple f s) = some (s.flatMap g) :=
  decodeF_simple step f g hne hstep s _ (by omega)

theorem encodeRune_ascii (c : UInt8) (h : c.toNat < 128) : Utf8.encodeRune c.toNat = [c] := by
  unfold Utf8.encodeRune
  simp [h]

theorem flatMap_singleton (s : Bytes) : s.flatMap (fun c => [c]) = s := by
  induction s with
  | nil => rfl
  | cons c rest ih => simp [List.flatMap_cons, ih]

end ScriggoV.Escape
