import ScriggoV.Lemmas.LexerPos9
/-! # Position bookkeeping inside code regions: `/* … */` comments

A first piece of `CodePosSpec` discharged: after a block comment — any bytes, any number of
newlines, multi-byte characters — the lexer's line and column are those of the offset after
the comment (columns counted per character, not per byte). -/
namespace ScriggoV.Lexer
open ScriggoV ScriggoV.Gen.LexTables ScriggoV.Spec.Position

theorem autoSemi_pos {E : Env} {st st' : St} {loc loc' : CodeLoc} {cond : Bool}
    (h : autoSemi E st loc cond = .ok (st', loc')) :
    st'.base = st.base ∧ st'.line = st.line ∧ st'.col = st.col := by
  unfold autoSemi at h
  split at h
  · cases he : emit E st tokenSemicolon 0 with
    | error f => rw [he] at h; cases h
    | ok s1 =>
      rw [he] at h
      simp only [bind_ok, pure_eq_ok] at h
      cases h
      unfold emit at he
      obtain ⟨_, _, _, _, _, _, hl, hc, hb⟩ := emitAt_tok he
      exact ⟨by omega, hl, hc⟩
  · simp only [pure_eq_ok] at h
    cases h
    exact ⟨rfl, rfl, rfl⟩

/-- `case '/'` of `lexCode` on a block comment: the position stays right -/
theorem blockComment_pos {E : Env} {st st' : St} {loc loc' : CodeLoc}
    (h : codeSlash E st loc (some 0x2a) = .ok (.cont st' loc')) (hp : PosAt E st st.base) :
    PosAt E st' st'.base := by
  unfold codeSlash at h
  simp only [show ¬ (some (0x2a : UInt8) = some 0x2f) from by decide, if_false, if_true] at h
  cases hs : srcFrom E st 2 with
  | error f => rw [hs] at h; cases h
  | ok rest =>
    rw [hs] at h
    simp only [bind_ok] at h
    cases hi : indexSub rest [0x2a, 0x2f] with
    | none => rw [hi] at h; simp only [pure_eq_ok] at h; cases h
    | some p =>
      rw [hi] at h
      simp only [] at h
      cases hsl : sliceOf (E.text.drop st.base) 0 (p + 4) with
      | error f => rw [hsl] at h; cases h
      | ok comment =>
        rw [hsl] at h
        simp only [bind_ok] at h
        -- whatever the BOM test says, a `.cont` outcome went through the walk
        have walkPart : ∀ (nl : Bool) (o : CodeOut), (do
              let (st, loc) ← autoSemi E st loc nl
              let st ← walkCode E (p + 4) 0 st
              let st ← skip E st (p + 4)
              pure (CodeOut.cont st loc) : Except Fault CodeOut) = .ok o → o = .cont st' loc' → PosAt E st' st'.base := by
          intro nl o ho heq
          cases ha : autoSemi E st loc nl with
          | error f => rw [ha] at ho; cases ho
          | ok r =>
            obtain ⟨s1, l1⟩ := r
            rw [ha] at ho
            simp only [bind_ok] at ho
            obtain ⟨b1, ln1, c1⟩ := autoSemi_pos ha
            cases hw : walkCode E (p + 4) 0 s1 with
            | error f => rw [hw] at ho; cases ho
            | ok s2 =>
              rw [hw] at ho
              simp only [bind_ok] at ho
              cases hk : skip E s2 (p + 4) with
              | error f => rw [hk] at ho; cases ho
              | ok s3 =>
                rw [hk] at ho
                simp only [bind_ok, pure_eq_ok] at ho
                cases ho
                cases heq
                have hp1 : PosAt E s1 (s1.base + 0) := by
                  rw [b1]; simpa using posAt_congr hp ln1 c1
                have pw := walkCode_posAt _ _ _ _ hw hp1
                have hsb := walkCode_sameButPos _ _ _ _ hw
                have hs3 : st' = { s2 with base := s2.base + (p + 4) } := by
                  unfold skip at hk; split at hk
                  · cases hk; rfl
                  · cases hk
                rw [hs3]
                show PosAt E { s2 with base := s2.base + (p + 4) } (s2.base + (p + 4))
                rw [hsb.base]
                have pw' : PosAt E s2 (s1.base + (p + 4)) := by simpa using pw
                exact posAt_congr pw' rfl rfl
        generalize indexNLorBOM (comment.length + 1) comment = nl at h
        cases nl with
        | none =>
          simp only [pure_eq_ok, bind_ok, Bool.false_eq_true, if_false] at h
          exact walkPart _ _ h rfl
        | some i =>
          simp only [] at h
          cases hg : getAt comment i with
          | error f => rw [hg] at h; cases h
          | ok x =>
            rw [hg] at h
            simp only [Except.map, bind_ok] at h
            split at h
            · simp only [pure_eq_ok] at h; cases h
            · exact walkPart _ _ h rfl

end ScriggoV.Lexer
