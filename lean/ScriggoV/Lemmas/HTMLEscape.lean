import ScriggoV.Model.HTMLEscape
/-! Helper lemmas for C24: the loop invariants of the two passes of `HTMLEscape`. -/
namespace ScriggoV.HTMLEscape

def extra (s : Bytes) : Nat := (s.map extraOf).sum

theorem entity_len (c : UInt8) : ∀ e, entity c = some e → e.length = extraOf c + 1 := by
  intro e h
  unfold entity at h
  unfold extraOf
  split at h
  · cases h; simp [*]
  split at h
  · cases h; simp [*]
  split at h
  · cases h; simp [*]
  split at h
  · cases h; simp_all
  split at h
  · cases h; simp_all
  · cases h

theorem entity_none (c : UInt8) : entity c = none ↔ extraOf c = 0 := by
  unfold entity extraOf
  constructor
  · intro h; repeat (split at h <;> try cases h)
    simp_all
  · intro h
    split at h; · omega
    split at h; · omega
    simp_all

theorem extraOf_cases (c : UInt8) : extraOf c = 0 ∨ extraOf c = 3 ∨ extraOf c = 4 := by
  unfold extraOf
  split
  · omega
  · split <;> omega

theorem extra_ne_one (s : Bytes) : extra s = 0 ∨ 3 ≤ extra s := by
  induction s with
  | nil => left; rfl
  | cons c cs ih =>
    have : extraOf c = 0 ∨ 3 ≤ extraOf c := by
      unfold extraOf
      split
      · omega
      · split <;> omega
    simp only [extra, List.map_cons, List.sum_cons] at *
    omega

theorem extra_length_spec (s : Bytes) : (spec s).length = s.length + extra s := by
  induction s with
  | nil => rfl
  | cons c cs ih =>
    simp only [spec, List.flatMap_cons, List.length_append, extra, List.map_cons, List.sum_cons,
      List.length_cons] at *
    rw [ih]
    have : (esc5 c).length = 1 + extraOf c := by
      unfold esc5
      cases h : entity c with
      | none => simp [(entity_none c).1 h]
      | some e => simp [entity_len c e h]; omega
    omega

/-- loop invariant of the second pass -/
theorem pass2_spec (n : Nat) (rest : Bytes) : ∀ (i d : Nat) (out : Bytes),
    out.length = i + d → d + extra rest = n →
    pass2 n rest i out.length (out ++ List.replicate (rest.length + extra rest) 0)
      = .ok (out ++ spec rest) := by
  induction rest with
  | nil => intro i d out _ _; simp [pass2, spec, extra]
  | cons c cs ih =>
    intro i d out hlen hn
    have hex : extra (c :: cs) = extraOf c + extra cs := by simp [extra]
    unfold pass2
    cases h : entity c with
    | none =>
      have h0 := (entity_none c).1 h
      simp only [hex, h0, Nat.zero_add, List.length_cons]
      rw [setAt_zeros out c _ (by omega)]
      simp only [bind, Except.bind]
      have := ih (i+1) d (out ++ [c]) (by simp; omega) (by omega)
      simp only [List.length_append, List.length_cons, List.length_nil, Nat.zero_add] at this
      have hk : cs.length + 1 + extra cs - 1 = cs.length + extra cs := by omega
      rw [hk, this]
      simp [spec, esc5, h]
    | some e =>
      have hl := entity_len c e h
      simp only [hex, List.length_cons]
      rw [copyAt_zeros out e _ (by omega)]
      simp only [bind, Except.bind]
      have hne : (out.length + e.length == i + n) = false := by
        have := extra_ne_one cs
        simp; omega
      simp only [hne]
      have := ih (i+1) (d + extraOf c) (out ++ e) (by simp; omega) (by omega)
      simp only [List.length_append] at this
      have hk : cs.length + 1 + (extraOf c + extra cs) - e.length = cs.length + extra cs := by omega
      simp only [Bool.false_eq_true, if_false]
      rw [hk, this]
      simp [spec, esc5, h]


theorem spec_of_extra_zero (s : Bytes) (h : extra s = 0) : spec s = s := by
  induction s with
  | nil => rfl
  | cons c cs ih =>
    simp only [extra, List.map_cons, List.sum_cons] at h
    have h0 : extraOf c = 0 := by omega
    have hc : extra cs = 0 := by simp only [extra]; omega
    simp only [spec, List.flatMap_cons] at *
    rw [ih hc]
    simp [esc5, (entity_none c).2 h0]

theorem pass1_stable (cs : Bytes) : ∀ i n j, 3 ≤ n → pass1 cs i n j = (n + extra cs, j) := by
  induction cs with
  | nil => intro i n j _; simp [pass1, extra]
  | cons c cs ih =>
    intro i n j hn
    unfold pass1
    have hex : extra (c :: cs) = extraOf c + extra cs := by simp [extra]
    by_cases h0 : extraOf c = 0
    · simp only [h0, beq_self_eq_true, if_true]
      rw [ih _ _ _ hn, hex, h0]; simp
    · have : (extraOf c == 0) = false := by simpa using h0
      simp only [this, Bool.false_eq_true, if_false]
      have h4 : ¬ (n + extraOf c ≤ 4) := by have := extraOf_cases c; omega
      simp only [h4, if_false]
      rw [ih _ _ _ (by omega), hex]
      congr 1; omega

theorem pass1_first (cs : Bytes) : ∀ i j,
    (extra cs = 0 → pass1 cs i 0 j = (0, j)) ∧
    (0 < extra cs → ∃ pre post, cs = pre ++ post ∧ extra pre = 0 ∧
        pass1 cs i 0 j = (extra cs, i + pre.length) ∧ extra post = extra cs) := by
  induction cs with
  | nil => intro i j; simp [pass1, extra]
  | cons c cs ih =>
    intro i j
    have hex : extra (c :: cs) = extraOf c + extra cs := by simp [extra]
    unfold pass1
    by_cases h0 : extraOf c = 0
    · simp only [h0, beq_self_eq_true, if_true, hex, Nat.zero_add]
      obtain ⟨ih1, ih2⟩ := ih (i+1) j
      refine ⟨ih1, ?_⟩
      intro hpos
      obtain ⟨pre, post, hcs, hpre, hp, hpost⟩ := ih2 hpos
      refine ⟨c :: pre, post, by simp [hcs], by simp [extra, h0] at hpre ⊢; exact hpre, ?_, hpost⟩
      rw [hp]; simp; omega
    · have hb : (extraOf c == 0) = false := by simpa using h0
      have h3 : 3 ≤ extraOf c ∧ extraOf c ≤ 4 := by
        unfold extraOf at h0 ⊢
        split
        · omega
        · split
          · omega
          · simp_all
      simp only [hb, Bool.false_eq_true, if_false, Nat.zero_add]
      have h4 : extraOf c ≤ 4 := h3.2
      simp only [h4, if_true]
      refine ⟨by intro h; omega, ?_⟩
      intro _
      refine ⟨[], c :: cs, rfl, rfl, ?_, rfl⟩
      rw [pass1_stable cs _ _ _ h3.1, hex]; simp


end ScriggoV.HTMLEscape
