import ScriggoV.Lemmas.LexCtxRefineStep
/-! # The full lexer model refines the context projection — part 4: the main loop and `scanTemplate`

`mainLoop_refines`: the main loop of the full model, started in a state whose projection is `s`,
reaches the state whose projection is `crun … s`. `first_show_full` / `first_show_ctx`: the first
`{{` token that `scanTemplate` emits for an HTML template carries the context (and follows the
URL tokens) that the projection `ctxAt` computes. Core Lean only. -/
namespace ScriggoV.LexCtx
open ScriggoV ScriggoV.Lexer ScriggoV.Gen.LexTables

/-! ## the main loop over a delimiter-free prefix -/

/-- The main loop of the full model follows `crun`: after the iterations `crun` makes (each at a
position `< n` where no delimiter starts), the full model is in a state whose projection is
`crun`'s result, with the loop still to be continued from there. -/
theorem mainLoop_refines {E : Env} (n : Nat) (hn : n ≤ E.text.length) :
    ∀ (cfuel : Nat) (st : St) (lp : Loop) (fuel : Nat), LoopInv E st lp → htmlFamily st.ctx →
      htmlFamily st.tagCtx → TokInv st.toks lp.emittedURL → mu E st lp < fuel →
      st.lbase = ContextHTML → Bal st →
    ∃ st' lp' fuel', mainLoop E fuel st lp = mainLoop E fuel' st' lp' ∧
      proj st' lp' = crun E.U E.text n cfuel (proj st lp) ∧ LoopInv E st' lp' ∧ mu E st' lp' < fuel' ∧
      Ext E st st' ∧ htmlFamily st'.ctx ∧ htmlFamily st'.tagCtx ∧ TokInv st'.toks lp'.emittedURL ∧
      st'.lbase = ContextHTML ∧ Bal st' := by
  intro cfuel
  induction cfuel with
  | zero =>
    intro st lp fuel hI hf hft htk hmu hlb hB
    exact ⟨st, lp, fuel, rfl, rfl, hI, hmu, Ext.refl hI.base_le, hf, hft, htk, hlb, hB⟩
  | succ cfuel ih =>
    intro st lp fuel hI hf hft htk hmu hlb hB
    unfold crun
    split
    · rename_i hcond
      have hpos : st.base + lp.p < n := hcond.1
      have hd : delimAt E.text (st.base + lp.p) = false := by
        have h2 : (!delimAt E.text (st.base + lp.p)) = true := hcond.2
        simpa using h2
      have hlt : lp.p < srcLen E st := by unfold srcLen; omega
      obtain ⟨st1, lp1, hs, hp, hI1, hext, hmu1, hf1, hft1, htk1, hlb1, hB1⟩ := step_refines hI hlt hf hft hd hlb hB
      cases fuel with
      | zero => omega
      | succ fuel =>
        obtain ⟨st', lp', fuel', h1, h2, h3, h4, h5, h6, h7, h8, h9, h10⟩ :=
          ih st1 lp1 fuel hI1 hf1 hft1 (htk1 htk) (by omega) hlb1 hB1
        refine ⟨st', lp', fuel', ?_, ?_, h3, h4, hext.trans h5, h6, h7, h8, h9, h10⟩
        · rw [← h1]
          conv => lhs; unfold mainLoop
          simp only [if_pos hlt, hs, bind_ok]
        · rw [h2, hp]
    · exact ⟨st, lp, fuel, rfl, rfl, hI, hmu, Ext.refl hI.base_le, hf, hft, htk, hlb, hB⟩

/-! ## the first `{{` -/

/-- the lexer state an iteration ends in -/
def outSt : Out → St
  | .cont s _ => s
  | .stop s _ _ => s

/-- `delim` for `{{`: the pending text is flushed, then the `{{` token is pushed with the current
context; everything after that is pushed on top of it -/
theorem delim_show {E : Env} {st : St} {lp : Loop} (hI : LoopInv E st lp) (hB : Bal st)
    (h2 : lp.p + 2 ≤ srcLen E st) :
    ∃ (o : Out) (st1 : St) (tok : Tok) (newer : List Tok), delim E st lp 0 = .ok o ∧ OutGood E st lp o ∧
      (∀ url, TokInv st.toks url → TokInv st1.toks url) ∧
      (outSt o).toks = newer ++ tok :: st1.toks ∧ tok.typ = tokenLeftBraces ∧ tok.ctx = st.ctx ∧
      tok.start = ((st.base + lp.p : Nat) : Int) := by
  obtain ⟨o, ho, hg⟩ := delim_ok (codeSpec E) (which := 0) hI hB h2 (by omega)
  obtain ⟨st1, h1, e1, b1, cf1, _, _, tk1⟩ := flushText_val hI
  have hs1 : srcLen E st1 = srcLen E st - lp.p := by unfold srcLen; rw [b1]; omega
  obtain ⟨st2, tok, h2', e2, b2, cf2, _, _, tk2, ty2, cx2, stt2⟩ := emit_val (E := E) (st := st1)
    (typ := tokenLeftBraces) (n := 2) (by omega) e1.le_len
  obtain ⟨st3, e, h3, e3, _, hpost⟩ := (codeSpec E).lexCode_ok tokenRightBraces (addCol st2 2) e2.le_len
    ((e1.trans e2).bal hB)
  obtain ⟨_, ⟨new3, hnew3, _⟩, _⟩ := e3
  have hctx : tok.ctx = st.ctx := by
    rw [cx2, cf1.ctx]
    simp [tokenLeftBraces, tokenText]
  have hstart : tok.start = ((st.base + lp.p : Nat) : Int) := by
    rw [stt2 (by omega), b1]
  have ho' := ho
  unfold delim at ho
  simp only [h1, bind_ok, if_true, lexShow, lexBlock, emitAdv, h2', pure_eq_ok, h3] at ho
  cases e with
  | some err =>
    simp only [] at ho
    cases ho
    exact ⟨_, st1, tok, new3, ho', hg, tk1, by rw [← tk2]; exact hnew3, ty2, hctx, hstart⟩
  | none =>
    have hn2 : 2 ≤ srcLen E st3 := (hpost rfl).1 (Or.inl rfl)
    obtain ⟨st4, t4, h4, e4, _⟩ := emit_val (E := E) (st := st3) (typ := tokenRightBraces) (n := 2) hn2
      (by unfold srcLen at hn2; omega)
    obtain ⟨_, ⟨new4, hnew4, _⟩, _⟩ := e4
    simp only [h4, bind_ok, Nat.zero_ne_one, if_false] at ho
    cases ho
    refine ⟨_, st1, tok, new4 ++ new3, ho', hg, tk1, ?_, ty2, hctx, hstart⟩
    show st4.toks = _
    rw [hnew4, hnew3, List.append_assoc, ← tk2]
    rfl

theorem find?_skip {α : Type} (q : α → Bool) (pre : List α) (x : α) (post : List α)
    (h1 : ∀ k ∈ pre, q k = false) (h2 : q x = true) : (pre ++ x :: post).find? q = some x := by
  induction pre with
  | nil => simp [h2]
  | cons a l ih =>
    have ha : q a = false := h1 a (by simp)
    simp only [List.cons_append, List.find?, ha]
    exact ih (fun k hk => h1 k (by simp [hk]))

/-- no shebang line when the text does not start with `#!` -/
theorem shebang_none {E : Env} {st : St} (hb0 : st.base = 0) (hs : ¬ ∃ rest, E.text = 0x23 :: 0x21 :: rest) :
    shebang E st = .ok st := by
  unfold shebang
  split
  · rename_i h
    obtain ⟨c0, hc0, hp0⟩ := srcAt_ok_of_lt (E := E) (st := st) (i := 0) (by omega)
    obtain ⟨c1, hc1, hp1⟩ := srcAt_ok_of_lt (E := E) (st := st) (i := 1) (by omega)
    simp only [hc0, hc1, bind_ok]
    by_cases h23 : c0 = 0x23
    · by_cases h21 : c1 = 0x21
      · exfalso
        apply hs
        unfold peek at hp0 hp1
        rw [hb0] at hp0 hp1
        cases hE : E.text with
        | nil => rw [hE] at hp0; simp at hp0
        | cons a l =>
          cases l with
          | nil => rw [hE] at hp1; simp at hp1
          | cons b r =>
            rw [hE] at hp0 hp1
            simp at hp0 hp1
            exact ⟨r, by rw [hp0, hp1, h23, h21]⟩
      · simp [h23, h21, Except.map]
    · simp [h23]
  · rfl

/-- The first `{{` token of an HTML template: the tokens before it are Text / StartURL / EndURL
tokens only, the last URL token among them is a StartURL exactly when the projection says a URL
attribute is open, and the `{{` token carries the context the projection computes. -/
theorem first_show_full (U : Lexer.Unicode) (p t : Bytes)
    (ht : ∃ rest, t = 0x7b :: 0x7b :: rest)
    (hsheb : ¬ ∃ rest, p ++ t = 0x23 :: 0x21 :: rest)
    (hpos : (ctxAt U (p ++ t) p.length).pos = p.length) :
    ∃ pre tok post e, Lexer.scanTemplate U FormatHTML false (p ++ t) = .ok (pre ++ tok :: post, e) ∧
      (∀ k ∈ pre, k.typ = tokenText ∨ k.typ = tokenStartURL ∨ k.typ = tokenEndURL) ∧
      urlOf pre.reverse = (ctxAt U (p ++ t) p.length).url ∧
      tok.typ = tokenLeftBraces ∧ tok.ctx = (ctxAt U (p ++ t) p.length).ctx ∧ tok.start = (p.length : Int) := by
  obtain ⟨rest, hrest⟩ := ht
  unfold scanTemplate
  generalize hE : ({ text := p ++ t, tmpl := true, noParseShow := false, U := U } : Env) = E
  have hEt : E.text = p ++ t := by rw [← hE]
  have hEU : E.U = U := by rw [← hE]
  have hEtm : E.tmpl = true := by rw [← hE]
  have hlen : p.length + 2 ≤ E.text.length := by rw [hEt, hrest]; simp
  have hne : ¬ FormatHTML = ContextMarkdown := by decide
  unfold scanWith
  simp only [hEtm, Bool.not_true, Bool.false_eq_true, if_false, if_neg hne, if_true]
  rw [shebang_none rfl (by rw [hEt]; exact hsheb)]
  simp only [bind_ok]
  unfold scanTemplateBody scanTemplateFrom
  have hEn : E.noParseShow = false := by rw [← hE]
  have hne' : ¬ (initSt FormatHTML ContextHTML).ctx = ContextMarkdown := by decide
  simp only [if_neg hne']
  generalize hlp0 : (Loop.mk 0 (initSt FormatHTML ContextHTML).line (initSt FormatHTML ContextHTML).col 0 false 0 true) = lp0
  -- `l.base = l.ctx`: the base context of an HTML file
  generalize hst0 : ({ initSt FormatHTML ContextHTML with lbase := (initSt FormatHTML ContextHTML).ctx } : St) = st0
  have hlb0 : st0.lbase = ContextHTML := by rw [← hst0]; rfl
  have hB0 : Bal st0 := by rw [← hst0]; rfl
  have hproj0 : proj st0 lp0 = init := by rw [← hlp0, ← hst0]; rfl
  have hI0 : LoopInv E st0 lp0 := by
    rw [← hlp0, ← hst0]
    exact ⟨Nat.zero_le _, Nat.zero_le _, Nat.le_refl _⟩
  have hf0 : htmlFamily st0.ctx := by rw [← hst0]; decide
  have hft0 : htmlFamily st0.tagCtx := by rw [← hst0]; decide
  have htk0 : TokInv st0.toks lp0.emittedURL := by
    rw [← hlp0, ← hst0]
    exact ⟨(by intro t ht; cases ht), rfl⟩
  have hmu0 : mu E st0 lp0 < mainFuel E := by
    unfold mu mainFuel
    have := attrCtx_le st0.ctx
    omega
  obtain ⟨st', lp', fuel', hml, hproj, hI', hmu', hext', hf', hft', htk', hlb', hB'⟩ :=
    mainLoop_refines (E := E) p.length (by omega) (2 * E.text.length + 4) st0 lp0 (mainFuel E) hI0 hf0 hft0 htk0 hmu0
      hlb0 hB0
  have hcx : proj st' lp' = ctxAt U (p ++ t) p.length := by
    rw [hproj, hproj0, hEU, hEt]; rfl
  have hposn : st'.base + lp'.p = p.length := by
    have : (proj st' lp').pos = p.length := by rw [hcx]; exact hpos
    exact this
  have hc0 : E.text[st'.base + lp'.p]? = some 0x7b := by
    rw [hposn, hEt, hrest]; simp
  have hc1 : E.text[st'.base + lp'.p + 1]? = some 0x7b := by
    rw [hposn, hEt, hrest]; simp
  have hlt' : lp'.p < srcLen E st' := by unfold srcLen; omega
  have h2' : lp'.p + 2 ≤ srcLen E st' := by unfold srcLen; omega
  -- the iteration at `{{` is `delim … 0`
  have hstep : step E st' lp' = delim E st' lp' 0 := by
    unfold step
    have hsrc : srcAt E st' lp'.p = .ok 0x7b := srcAt_eq_peek hc0
    have hm := hf'.not_md
    have hdd : (if lp'.p + 1 < srcLen E st' then peek E st' (lp'.p + 1) else none) = some 0x7b := by
      rw [if_pos (by omega)]; unfold peek; rw [← Nat.add_assoc]; exact hc1
    simp only [hsrc, bind_ok, hm, false_and, if_false, hdd, hEn, Bool.not_false, and_self, if_true]
  obtain ⟨o, st1, tok, newer, hdl, hgood, htk1, htoks, htyp, hctx, hstart⟩ := delim_show hI' hB' h2'
  -- the main loop from there
  have hmain : ∃ stF lpF e newer', mainLoop E (mainFuel E) st0 lp0 = .ok (stF, lpF, e) ∧
      stF.toks = newer' ++ tok :: st1.toks ∧ stF.base ≤ E.text.length ∧ (e = none → lpF.p = srcLen E stF) := by
    rw [hml]
    cases fuel' with
    | zero => omega
    | succ f =>
      unfold mainLoop
      simp only [if_pos hlt', hstep, hdl, bind_ok]
      cases o with
      | cont s l =>
        obtain ⟨hIs, hexts, hmus⟩ := hgood
        obtain ⟨stF, lpF, e, hmf, hextF, hend⟩ := mainLoop_ok (codeSpec E) f s l hIs (hexts.bal hB') (by omega)
        obtain ⟨hle, ⟨newF, hnewF, _⟩, _⟩ := hextF
        refine ⟨stF, lpF, e, newF ++ newer, hmf, ?_, hle, hend⟩
        rw [hnewF, List.append_assoc]
        congr 1
      | stop s l err =>
        have hle : s.base ≤ E.text.length := Ext.le_len hgood
        exact ⟨s, l, some err, newer, rfl, htoks, hle, by intro h; cases h⟩
  obtain ⟨stF, lpF, e, newer', hmf, htoksF, hleF, hendF⟩ := hmain
  simp only [hmf, bind_ok]
  have hurl : lp'.emittedURL = (ctxAt U (p ++ t) p.length).url := by rw [← hcx]; rfl
  have hcx2 : st'.ctx = (ctxAt U (p ++ t) p.length).ctx := by rw [← hcx]; rfl
  have hinv1 := htk1 _ htk'
  -- whatever is pushed afterwards comes after the `{{` token
  have fin : ∀ (nw : List Tok) (e' : Option LexErr), ∃ pre tok' post e_1,
      (Except.ok ((nw ++ stF.toks).reverse, e') : Except Fault (List Tok × Option LexErr)) =
        .ok (pre ++ tok' :: post, e_1) ∧
      (∀ k ∈ pre, k.typ = tokenText ∨ k.typ = tokenStartURL ∨ k.typ = tokenEndURL) ∧
      urlOf pre.reverse = (ctxAt U (p ++ t) p.length).url ∧
      tok'.typ = tokenLeftBraces ∧ tok'.ctx = (ctxAt U (p ++ t) p.length).ctx ∧ tok'.start = (p.length : Int) := by
    intro nw e'
    refine ⟨st1.toks.reverse, tok, (nw ++ newer').reverse, e', ?_, ?_, ?_, htyp, by rw [hctx, hcx2], by rw [hstart, hposn]⟩
    · rw [htoksF]; simp [List.reverse_append]
    · intro k hk
      exact hinv1.1 k (List.mem_reverse.mp hk)
    · rw [List.reverse_reverse, hinv1.2, hurl]
  cases e with
  | some err =>
    simp only []
    have := fin [] (some err)
    rw [List.nil_append] at this
    exact this
  | none =>
    simp only []
    have hp := hendF rfl
    have h2 : ∃ st2, (if srcLen E stF > 0 then emitAt E stF lpF.lin lpF.tcol tokenText lpF.p else pure stF) = .ok st2 ∧
        Ext E stF st2 := by
      split
      · obtain ⟨st2, h, ex, _⟩ := emitAt_ok (E := E) (st := stF) (line := lpF.lin) (col := lpF.tcol) (typ := tokenText)
          (n := lpF.p) (by omega) hleF
        exact ⟨st2, h, ex⟩
      · exact ⟨stF, rfl, Ext.refl hleF⟩
    obtain ⟨st2, h2, e2⟩ := h2
    simp only [h2, bind_ok]
    have h3 : ∃ st3, (if st2.ctx = ContextMarkdown ∧ lpF.emittedURL = true then emit E st2 tokenEndURL 0 else pure st2) = .ok st3 ∧
        Ext E st2 st3 := by
      split
      · obtain ⟨st3, h, ex, _⟩ := emit_ok (E := E) (st := st2) (typ := tokenEndURL) (n := 0) (Nat.zero_le _) e2.le_len
        exact ⟨st3, h, ex⟩
      · exact ⟨st2, rfl, Ext.refl e2.le_len⟩
    obtain ⟨st3, h3, e3⟩ := h3
    simp only [pure_eq_ok] at h3 ⊢
    simp only [h3, bind_ok]
    obtain ⟨st4, h4, e4, _⟩ := emit_ok (E := E) (st := st3) (typ := tokenEOF) (n := 0) (Nat.zero_le _) e3.le_len
    simp only [h4, bind_ok]
    obtain ⟨_, ⟨nw, hnw, _⟩, _⟩ := (e2.trans e3).trans e4
    rw [hnw]
    exact fin nw none

set_option linter.unusedVariables false in
/-- The FIRST `{{` token the full lexer model emits carries the context computed by the projection.
(`hfree` is implied by `hpos`: `crun` itself stops at the first delimiter.) -/
theorem first_show_ctx (U : Lexer.Unicode) (p t : Bytes)
    (ht : ∃ rest, t = 0x7b :: 0x7b :: rest)
    (hfree : ∀ i, i < p.length → delimAt (p ++ t) i = false)
    (hsheb : ¬ ∃ rest, p ++ t = 0x23 :: 0x21 :: rest)
    (hpos : (ctxAt U (p ++ t) p.length).pos = p.length) :
    ∃ toks e tok, Lexer.scanTemplate U FormatHTML false (p ++ t) = .ok (toks, e) ∧
      toks.find? (fun k => k.typ == tokenLeftBraces) = some tok ∧
      tok.ctx = (ctxAt U (p ++ t) p.length).ctx ∧ tok.start = (p.length : Int) := by
  obtain ⟨pre, tok, post, e, hs, hpre, _, htyp, hctx, hstart⟩ := first_show_full U p t ht hsheb hpos
  refine ⟨pre ++ tok :: post, e, tok, hs, ?_, hctx, hstart⟩
  apply find?_skip
  · intro k hk
    rcases hpre k hk with h | h | h <;> rw [h] <;> decide
  · rw [htyp]; decide

/-- The URL flag: the projection says a URL attribute value is open at the first `{{` exactly when,
among the tokens before the `{{` token, the last StartURL / EndURL token is a StartURL. -/
theorem first_show_url (U : Lexer.Unicode) (p t : Bytes)
    (ht : ∃ rest, t = 0x7b :: 0x7b :: rest)
    (hsheb : ¬ ∃ rest, p ++ t = 0x23 :: 0x21 :: rest)
    (hpos : (ctxAt U (p ++ t) p.length).pos = p.length) :
    ∃ pre tok post e, Lexer.scanTemplate U FormatHTML false (p ++ t) = .ok (pre ++ tok :: post, e) ∧
      (pre ++ tok :: post).find? (fun k => k.typ == tokenLeftBraces) = some tok ∧
      ((ctxAt U (p ++ t) p.length).url = true ↔
        ∃ u, pre.reverse.find? (fun k => k.typ == tokenStartURL || k.typ == tokenEndURL) = some u ∧
          u.typ = tokenStartURL) := by
  obtain ⟨pre, tok, post, e, hs, hpre, hurl, htyp, _, _⟩ := first_show_full U p t ht hsheb hpos
  refine ⟨pre, tok, post, e, hs, ?_, ?_⟩
  · apply find?_skip
    · intro k hk
      rcases hpre k hk with h | h | h <;> rw [h] <;> decide
    · rw [htyp]; decide
  · rw [← hurl]
    generalize pre.reverse = l
    induction l with
    | nil => simp [urlOf]
    | cons a l ih =>
      unfold urlOf
      by_cases h1 : a.typ = tokenStartURL
      · simp [h1]
      · by_cases h2 : a.typ = tokenEndURL
        · simp [h2, tokenEndURL, tokenStartURL]
        · simp only [if_neg h1, if_neg h2, List.find?]
          have : (a.typ == tokenStartURL || a.typ == tokenEndURL) = false := by simp [h1, h2]
          rw [this]
          exact ih

end ScriggoV.LexCtx

-- Dependency check done on step_refines, mainLoop_refines, first_show_full, first_show_ctx,
-- first_show_url: each depends on [propext, Classical.choice, Quot.sound] only.
