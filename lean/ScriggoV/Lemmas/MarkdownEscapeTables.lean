import ScriggoV.Model.MarkdownEscape
import ScriggoV.Spec.CommonMarkLex
/-! Helper lemmas for C26, part 1: whole-table facts tying the generated punctuation table to
the CommonMark specification, and the four shapes of a written piece. -/
namespace ScriggoV.MarkdownEscape
open ScriggoV.Gen.MdTables ScriggoV.CommonMarkLex

theorem isSpTab_eq (c : UInt8) : MarkdownEscape.isSpTab c = CommonMarkLex.isSpTab c := rfl

/-! ### table facts (kernel evaluation over all 256 bytes) -/

theorem imp_of_all {p q : UInt8 → Bool} (h : allBytes (fun c => !p c || q c) = true) {c : UInt8}
    (hp : p c = true) : q c = true := by
  have := allBytes_spec h c; simp [hp] at this; exact this

theorem nimp_of_all {p q : UInt8 → Bool} (h : allBytes (fun c => p c || !q c) = true) {c : UInt8}
    (hp : p c = false) : q c = false := by
  have := allBytes_spec h c; simp [hp] at this; exact this

theorem pn_of_all {p q : UInt8 → Bool} (h : allBytes (fun c => !p c || !q c) = true) {c : UInt8}
    (hp : p c = true) : q c = false := by
  have := allBytes_spec h c; simp [hp] at this; exact this

/-- what is escaped can be backslash-escaped (§2.4) -/
theorem esc_punct {c : UInt8} (h : escapedText c = true) : isAsciiPunct c = true :=
  imp_of_all (p := escapedText) (q := isAsciiPunct) (by decide +kernel) h
/-- every active byte is escaped -/
theorem active_esc {c : UInt8} (h : escapedText c = false) : mdActive c = false :=
  nimp_of_all (p := escapedText) (q := mdActive) (by decide +kernel) h
/-- every block opener is escaped -/
theorem blockStart_esc {c : UInt8} (h : escapedText c = false) : blockStartByte c = false :=
  nimp_of_all (p := escapedText) (q := blockStartByte) (by decide +kernel) h
/-- `.` and `)` of ordered-list markers are escaped -/
theorem dotParen_esc {c : UInt8} (h : escapedText c = false) : (c == 46 || c == 41) = false :=
  nimp_of_all (p := escapedText) (q := fun c => c == 46 || c == 41) (by decide +kernel) h
theorem slash_esc {c : UInt8} (h : escapedText c = false) : (c == 92) = false :=
  nimp_of_all (p := escapedText) (q := fun c => c == 92) (by decide +kernel) h

theorem punct_sptab {c : UInt8} (h : isAsciiPunct c = true) : CommonMarkLex.isSpTab c = false :=
  pn_of_all (p := isAsciiPunct) (q := CommonMarkLex.isSpTab) (by decide +kernel) h
theorem punct_eol {c : UInt8} (h : isAsciiPunct c = true) : isEol c = false :=
  pn_of_all (p := isAsciiPunct) (q := isEol) (by decide +kernel) h
theorem punct_digit {c : UInt8} (h : isAsciiPunct c = true) : isDigit c = false :=
  pn_of_all (p := isAsciiPunct) (q := isDigit) (by decide +kernel) h
theorem punct_32 {c : UInt8} (h : isAsciiPunct c = true) : (c == 32) = false :=
  pn_of_all (p := isAsciiPunct) (q := fun c => c == 32) (by decide +kernel) h
theorem punct_9 {c : UInt8} (h : isAsciiPunct c = true) : (c == 9) = false :=
  pn_of_all (p := isAsciiPunct) (q := fun c => c == 9) (by decide +kernel) h
theorem punct_10 {c : UInt8} (h : isAsciiPunct c = true) : (c == 10) = false :=
  pn_of_all (p := isAsciiPunct) (q := fun c => c == 10) (by decide +kernel) h

theorem sptab_eol {c : UInt8} (h : CommonMarkLex.isSpTab c = true) : isEol c = false :=
  pn_of_all (p := CommonMarkLex.isSpTab) (q := isEol) (by decide +kernel) h
theorem sptab_digit {c : UInt8} (h : CommonMarkLex.isSpTab c = true) : isDigit c = false :=
  pn_of_all (p := CommonMarkLex.isSpTab) (q := isDigit) (by decide +kernel) h
theorem sptab_active {c : UInt8} (h : CommonMarkLex.isSpTab c = true) : mdActive c = false :=
  pn_of_all (p := CommonMarkLex.isSpTab) (q := mdActive) (by decide +kernel) h
theorem sptab_92 {c : UInt8} (h : CommonMarkLex.isSpTab c = true) : (c == 92) = false :=
  pn_of_all (p := CommonMarkLex.isSpTab) (q := fun c => c == 92) (by decide +kernel) h
theorem sptab_10 {c : UInt8} (h : CommonMarkLex.isSpTab c = true) : (c == 10) = false :=
  pn_of_all (p := CommonMarkLex.isSpTab) (q := fun c => c == 10) (by decide +kernel) h
theorem sptab_dotParen {c : UInt8} (h : CommonMarkLex.isSpTab c = true) : (c == 46 || c == 41) = false :=
  pn_of_all (p := CommonMarkLex.isSpTab) (q := fun c => c == 46 || c == 41) (by decide +kernel) h
theorem digit_blockStart {c : UInt8} (h : isDigit c = true) : blockStartByte c = false :=
  pn_of_all (p := isDigit) (q := blockStartByte) (by decide +kernel) h

/-! ### the four shapes of a piece -/

theorem piece_cases (f : Bool) (c : UInt8) (rest : Bytes) :
    (escapedText c = true ∧ pieceText f c rest = [92, c]) ∨
    (escapedText c = false ∧ CommonMarkLex.isSpTab c = true ∧ keepSpace f rest = true ∧ pieceText f c rest = [c]) ∨
    (escapedText c = false ∧ CommonMarkLex.isSpTab c = true ∧ keepSpace f rest = false ∧ pieceText f c rest = [194, 160]) ∨
    (escapedText c = false ∧ CommonMarkLex.isSpTab c = false ∧ pieceText f c rest = [c]) := by
  unfold pieceText
  by_cases he : escapedText c = true
  · left; simp [he, slash]
  · have he' : escapedText c = false := by simpa using he
    right
    by_cases hs : CommonMarkLex.isSpTab c = true
    · by_cases hk : keepSpace f rest = true
      · left; simp [he', isSpTab_eq, hs, hk]
      · have hk' : keepSpace f rest = false := by simpa using hk
        right; left; simp [he', isSpTab_eq, hs, hk', nbsp]
    · have hs' : CommonMarkLex.isSpTab c = false := by simpa using hs
      right; right; simp [he', isSpTab_eq, hs']

theorem escText_cons (f : Bool) (c : UInt8) (rest : Bytes) :
    escText f (c :: rest) = pieceText f c rest ++ escText false rest := rfl

end ScriggoV.MarkdownEscape
