import ScriggoV.Lemmas.PathsRooted
/-! The invariant of the recursion `parseSource → expand → parseNodeFile` (C18).

One induction on the fuel carries everything the property theorems need:

* every name on the `paths` stack satisfies a predicate `P` that `rooted` preserves
  (`P := ValidRooted` gives "every opened name is a valid rooted path");
* the stack has no duplicates and holds existing files only (so its length is bounded by
  the number of files: the fuel suffices);
* every existing file that was opened is on the stack or in the `trees` cache, and was opened
  once;
* the cache is *closed*: every reference of a cached file that resolves to an existing file
  points to a file cached **before** it (so the cached files are topologically ordered);
* stack and cache are disjoint. -/
namespace ScriggoV.Paths
open ScriggoV.GoPath

/-! ### small list facts -/

theorem length_le_of_nodup_subset {α : Type} [DecidableEq α] :
    ∀ (l m : List α), l.Nodup → (∀ x ∈ l, x ∈ m) → l.length ≤ m.length := by
  intro l
  induction l with
  | nil => intro m _ _; simp
  | cons a l ih =>
    intro m hnd hsub
    have ham : a ∈ m := hsub a (by simp)
    have hnd' := List.nodup_cons.1 hnd
    have := ih (m.erase a) hnd'.2 (by
      intro x hx
      have hxa : x ≠ a := by
        intro e; subst e; exact hnd'.1 hx
      exact (List.mem_erase_of_ne hxa).2 (hsub x (List.mem_cons_of_mem _ hx)))
    rw [List.length_erase_of_mem ham] at this
    have hpos : 0 < m.length := List.length_pos_of_mem ham
    simp only [List.length_cons]
    omega

theorem lookup_mem_keys {β : Type} (fm : List (Bytes × β)) (n : Bytes) (v : β)
    (h : fm.lookup n = some v) : n ∈ fm.map Prod.fst := by
  induction fm with
  | nil => simp [List.lookup] at h
  | cons kv rest ih =>
    obtain ⟨k, w⟩ := kv
    simp only [List.lookup] at h
    by_cases hk : n == k
    · have : n = k := by simpa using hk
      simp [this]
    · simp only [hk] at h
      simp only [List.map_cons, List.mem_cons]
      right; exact ih h

theorem lookup_none_not_mem_keys {β : Type} (fm : List (Bytes × β)) (n : Bytes)
    (h : fm.lookup n = none) : n ∉ fm.map Prod.fst := by
  induction fm with
  | nil => simp
  | cons kv rest ih =>
    obtain ⟨k, w⟩ := kv
    simp only [List.lookup] at h
    by_cases hk : n == k
    · simp [hk] at h
    · simp only [hk] at h
      have hne : n ≠ k := by simpa using hk
      simp only [List.map_cons, List.mem_cons, not_or]
      exact ⟨hne, ih h⟩

/-! ### definitions -/

section
variable (fm : FileMap) (P : Bytes → Prop)

/-- the file exists -/
def IsKey (n : Bytes) : Prop := fm.lookup n ≠ none

/-- names cached in `trees` -/
def tkeys (t : List (Bytes × Kind)) : List Bytes := t.map Prod.fst

/-- `a` references the existing file `b` -/
def Edge (a b : Bytes) : Prop :=
  ∃ refs r, fm.lookup a = some refs ∧ r ∈ refs ∧ rooted a r.path = .ok b ∧ IsKey fm b

/-- a non-empty chain of references between existing files -/
inductive Reach : Bytes → Bytes → Prop
  | step {a b} : Edge fm a b → Reach a b
  | trans {a b c} : Edge fm a b → Reach b c → Reach a c

/-- the reference belongs to the file `parent` -/
def FromFile (parent : Bytes) (ref : Ref) : Prop :=
  ∃ refs, fm.lookup parent = some refs ∧ ref ∈ refs

/-- nothing but a cycle can go wrong: every reference of every file is a plain render whose
path is accepted by the parser and resolves to an existing file -/
def Pure : Prop :=
  ∀ a refs, fm.lookup a = some refs → ∀ r ∈ refs,
    r.kind = .ren ∧ validTemplatePath r.path = .ok true ∧ ∃ b, rooted a r.path = .ok b ∧ IsKey fm b

/-- every reference of a cached file points to a file cached before it (`trees` is newest
first) -/
def Closed : List (Bytes × Kind) → Prop
  | [] => True
  | (a, _) :: post => (∀ b, Edge fm a b → b ∈ tkeys post) ∧ Closed post

/-- each file on the stack is referenced by the one below it (the stack has the current file
first) -/
def Chain : List Bytes → Prop
  | [] => True
  | [_] => True
  | x :: y :: rest => Edge fm y x ∧ Chain (y :: rest)

structure PathsOK (paths : List Bytes) : Prop where
  p : ∀ x ∈ paths, P x
  keys : ∀ x ∈ paths, IsKey fm x
  nodup : paths.Nodup
  chain : Chain fm paths

structure StI (paths : List Bytes) (trees : List (Bytes × Kind)) (opens : List Bytes) : Prop where
  opensP : ∀ n ∈ opens, P n
  tracked : ∀ n ∈ opens, IsKey fm n → n ∈ paths ∨ n ∈ tkeys trees
  once : ∀ n, IsKey fm n → opens.count n ≤ 1
  closed : Closed fm trees
  disj : ∀ x ∈ paths, x ∉ tkeys trees
  kinds : Pure fm → ∀ x ∈ trees, x.2 = Kind.ren

/-- what holds of the trace at every exit, also after an error -/
def W (opens : List Bytes) : Prop :=
  (∀ n ∈ opens, P n) ∧ (∀ n, IsKey fm n → opens.count n ≤ 1)

def Target (parent : Bytes) (ref : Ref) (trees : List (Bytes × Kind)) : Prop :=
  ∀ b, rooted parent ref.path = .ok b → IsKey fm b → b ∈ tkeys trees

def Mono (t t' : List (Bytes × Kind)) : Prop := ∀ b, b ∈ tkeys t → b ∈ tkeys t'

/-- results after which `expand` goes on -/
def Cont (res : Except Err Unit) : Prop := res = .ok () ∨ res = .error .notExist

def OkOrCycle (res : Except Err Unit) : Prop := res = .ok () ∨ ∃ p c, res = .error (.cycle p c)

/-- which errors never come out, and that a reported cycle is a real one -/
structure ErrFacts (res : Except Err Unit) : Prop where
  noFuel : res ≠ .error .outOfFuel
  noFault : ∀ f, res ≠ .error (.fault f)
  noInvalid : res ≠ .error .invalid
  cyc : ∀ p c, res = .error (.cycle p c) → Reach fm p p

structure Post (paths : List Bytes) (parent : Bytes) (st : St) (ref : Ref) (st' : St)
    (res : Except Err Unit) : Prop where
  weak : W fm P st'.opens
  errs : ErrFacts fm res
  pure : Pure fm → OkOrCycle res
  cont : Cont res → StI fm P paths st'.trees st'.opens ∧ Mono st.trees st'.trees ∧
    Target fm parent ref st'.trees

def PnfSpec (paths : List Bytes) (parent : Bytes) (pnf : St → Ref → Res) : Prop :=
  ∀ st ref st' res, validTemplatePath ref.path = .ok true → FromFile fm parent ref →
    StI fm P paths st.trees st.opens →
    pnf st ref = (st', res) → Post fm P paths parent st ref st' res

end

theorem StI.toW {fm : FileMap} {P : Bytes → Prop} {paths trees opens}
    (h : StI fm P paths trees opens) : W fm P opens := ⟨h.opensP, h.once⟩

theorem Mono.refl (t : List (Bytes × Kind)) : Mono t t := fun _ h => h

theorem Mono.trans {a b c : List (Bytes × Kind)} (h1 : Mono a b) (h2 : Mono b c) : Mono a c :=
  fun x hx => h2 x (h1 x hx)

theorem Target.mono {fm : FileMap} {parent : Bytes} {ref : Ref} {t t' : List (Bytes × Kind)}
    (h : Target fm parent ref t) (hm : Mono t t') : Target fm parent ref t' :=
  fun b hb hk => hm b (h b hb hk)

theorem Reach.snoc {fm : FileMap} {a b c : Bytes} (h : Reach fm a b) (e : Edge fm b c) :
    Reach fm a c := by
  induction h with
  | step e1 => exact .trans e1 (.step e)
  | trans e1 _ ih => exact .trans e1 (ih e)

/-- a file on the stack reaches the current file -/
theorem Chain.reach {fm : FileMap} : ∀ (paths : List Bytes) (cur : Bytes) (rest : List Bytes),
    paths = cur :: rest → Chain fm paths → ∀ x ∈ paths, x = cur ∨ Reach fm x cur := by
  intro paths
  induction paths with
  | nil => intro cur rest h; cases h
  | cons a l ih =>
    intro cur rest h hc x hx
    cases h
    simp only [List.mem_cons] at hx
    rcases hx with rfl | hx
    · left; rfl
    · right
      cases l with
      | nil => simp at hx
      | cons y rest' =>
        obtain ⟨he, hc'⟩ := hc
        rcases ih y rest' rfl hc' x hx with rfl | h'
        · exact .step he
        · exact h'.snoc he

theorem ErrFacts.ok (fm : FileMap) : ErrFacts fm (.ok ()) :=
  ⟨by simp, by simp, by simp, by intro p c h; cases h⟩

theorem ErrFacts.syntax (fm : FileMap) (s : Syn) : ErrFacts fm (.error (.syntax s)) :=
  ⟨by simp, by simp, by simp, by intro p c h; cases h⟩

theorem ErrFacts.notExist (fm : FileMap) : ErrFacts fm (.error .notExist) :=
  ⟨by simp, by simp, by simp, by intro p c h; cases h⟩

theorem ErrFacts.cycle {fm : FileMap} {p : Bytes} (c : List (Kind × Bytes)) (h : Reach fm p p) :
    ErrFacts fm (.error (.cycle p c)) :=
  ⟨by simp, by simp, by simp, by intro p' c' h'; cases h'; exact h⟩

/-! ### `checkRefs` -/

theorem vtp_mainPkg : validTemplatePath mainPkg = .ok true := by rfl

/-- a guard never faults -/
theorem guardCheck_eq (g : Guard) (p : Bytes) : ∃ b, guardCheck g p = .ok b := by
  cases g
  · exact ⟨true, rfl⟩
  · exact ⟨vtpSpec p, by simp only [guardCheck]; rw [validTemplatePath_eq]⟩
  · simp only [guardCheck]
    split
    · exact ⟨true, rfl⟩
    · exact ⟨vtpSpec p, by rw [validTemplatePath_eq]⟩

/-- what passes a guard other than `none` is a valid template path -/
theorem guardCheck_ok {g : Guard} (hg : g ≠ .none) {p : Bytes} (h : guardCheck g p = .ok true) :
    validTemplatePath p = .ok true := by
  cases g
  · exact absurd rfl hg
  · exact h
  · simp only [guardCheck] at h
    split at h
    · rename_i hm
      have : p = mainPkg := by simpa using hm
      rw [this]; exact vtp_mainPkg
    · exact h

/-- a valid template path passes every guard of the model -/
theorem guardCheck_of_valid (g : Guard) {p : Bytes} (h : validTemplatePath p = .ok true) :
    guardCheck g p = .ok true := by
  cases g
  · rfl
  · exact h
  · simp only [guardCheck]
    split
    · rfl
    · exact h

theorem checkRefs_ok {tbl : SiteTable} (htbl : Guarded tbl) (refs : List Ref)
    (h : checkRefs tbl refs = .ok ()) :
    ∀ r ∈ refs, validTemplatePath r.path = .ok true := by
  induction refs with
  | nil => intro r hr; simp at hr
  | cons x xs ih =>
    intro r hr
    unfold checkRefs at h
    obtain ⟨b, hb⟩ := guardCheck_eq (tbl x.site) x.path
    rw [hb] at h
    cases b with
    | false => simp at h
    | true =>
      simp only at h
      simp only [List.mem_cons] at hr
      rcases hr with rfl | hr
      · exact guardCheck_ok (htbl _) hb
      · exact ih h r hr

theorem checkRefs_of_valid (tbl : SiteTable) (refs : List Ref)
    (h : ∀ r ∈ refs, validTemplatePath r.path = .ok true) : checkRefs tbl refs = .ok () := by
  induction refs with
  | nil => rfl
  | cons x xs ih =>
    unfold checkRefs
    rw [guardCheck_of_valid _ (h x (by simp))]
    exact ih (fun r hr => h r (List.mem_cons_of_mem _ hr))

theorem checkRefs_error (tbl : SiteTable) (refs : List Ref) (e : Err)
    (h : checkRefs tbl refs = .error e) :
    ∃ k, e = .syntax (.invalidRefPath k) := by
  induction refs with
  | nil => simp [checkRefs] at h
  | cons x xs ih =>
    unfold checkRefs at h
    obtain ⟨b, hb⟩ := guardCheck_eq (tbl x.site) x.path
    rw [hb] at h
    cases b with
    | false =>
      simp only [Except.error.injEq] at h
      exact ⟨x.kind, h.symm⟩
    | true => exact ih h

/-- with a table that guards every site the check is the plain `ValidTemplatePath` check of
every reference, whatever the sites: the first reference with an invalid path is the error -/
theorem checkRefs_guarded_iff {tbl : SiteTable} (htbl : Guarded tbl) (refs : List Ref) :
    checkRefs tbl refs = .ok () ↔ ∀ r ∈ refs, validTemplatePath r.path = .ok true :=
  ⟨checkRefs_ok htbl refs, checkRefs_of_valid tbl refs⟩

theorem cacheCheck_error (c k : Kind) (e : Err) (h : cacheCheck c k = .error e) :
    ∃ s, e = .syntax s := by
  cases c <;> cases k <;> simp [cacheCheck] at h <;> exact ⟨_, h.symm⟩

theorem cacheCheck_ren : cacheCheck .ren .ren = .ok () := rfl

/-! ### one iteration of `expand` -/

theorem decorate_cases (k : Kind) (rp : Bytes) (e : Err) :
    (∃ p c, e = .cycle p c ∧ decorate k rp e = .cycle p ((k, rp) :: c)) ∨
    ((∀ p c, e ≠ .cycle p c) ∧ decorate k rp e = e) := by
  cases e <;> simp [decorate]

section
variable {fm : FileMap} {P : Bytes → Prop} {tbl : SiteTable}

/-- what one iteration of `expand` guarantees -/
structure StepPost (fm : FileMap) (P : Bytes → Prop) (paths : List Bytes) (parent : Bytes)
    (st : St) (r : Ref) (st' : St) (res : Except Err Unit) : Prop where
  weak : W fm P st'.opens
  errs : ErrFacts fm res
  noNotExist : res ≠ .error .notExist
  pure : Pure fm → OkOrCycle res
  ok : res = .ok () → StI fm P paths st'.trees st'.opens ∧ Mono st.trees st'.trees ∧
    Target fm parent r st'.trees

/-- a syntax error ends the iteration; it cannot happen in a pure file map -/
theorem stepPost_syntax {paths parent st r st'} (s : Syn) (hw : W fm P st'.opens)
    (hnp : ¬ Pure fm) :
    StepPost fm P paths parent st r st' (.error (.syntax s)) :=
  ⟨hw, ErrFacts.syntax fm s, by simp, fun hp => absurd hp hnp, by intro h; cases h⟩

theorem decorate_stepPost {paths parent st st0 r st'} {e : Err} (k : Kind) (rp : Bytes)
    (hp : Post fm P paths parent st0 r st' (.error e)) (hne : e ≠ .notExist) :
    StepPost fm P paths parent st r st' (.error (decorate k rp e)) := by
  rcases decorate_cases k rp e with ⟨p, c, he, hd⟩ | ⟨hnc, hd⟩
  · rw [hd]
    subst he
    exact ⟨hp.weak, ErrFacts.cycle _ (hp.errs.cyc p c rfl), by simp,
      fun _ => Or.inr ⟨p, _, rfl⟩, by intro h; cases h⟩
  · rw [hd]
    exact ⟨hp.weak, hp.errs, by intro h; cases h; exact hne rfl, hp.pure, by intro h; cases h⟩

theorem okOrCycle_notExist : ¬ OkOrCycle (.error .notExist) := by
  rintro (h | ⟨p, c, h⟩) <;> cases h

theorem expandOne_post {pnf : St → Ref → Res} {paths : List Bytes} {parent : Bytes}
    (hpnf : PnfSpec fm P paths parent pnf) (hhead : paths.head? = some parent)
    {st : St} {r : Ref} (hv : validTemplatePath r.path = .ok true) (hff : FromFile fm parent r)
    (hst : StI fm P paths st.trees st.opens) {st' : St} {res : Except Err Unit}
    (h : expandOne pnf paths st r = (st', res)) :
    StepPost fm P paths parent st r st' res := by
  have hpk : Pure fm → r.kind = .ren := by
    intro hp
    obtain ⟨refs, hl, hr⟩ := hff
    exact (hp parent refs hl r hr).1
  unfold expandOne at h
  rw [hhead] at h
  simp only at h
  cases hk : r.kind with
  | ext =>
    have hnp : ¬ Pure fm := fun hp => by have := hpk hp; rw [hk] at this; cases this
    rw [hk] at h
    simp only at h
    by_cases hce : st.canExtend = true
    · simp only [hce, Bool.not_true, Bool.false_eq_true, if_false] at h
      rcases hp : pnf st r with ⟨s1, r1⟩
      have post := hpnf st r s1 r1 hv hff hst hp
      rw [hp] at h
      cases r1 with
      | ok u =>
        cases u
        simp only [Prod.mk.injEq] at h
        obtain ⟨rfl, rfl⟩ := h
        exact ⟨post.weak, ErrFacts.ok fm, by simp, fun _ => Or.inl rfl, fun _ => post.cont (Or.inl rfl)⟩
      | error e =>
        by_cases hne : e = .notExist
        · subst hne
          simp only [Prod.mk.injEq] at h
          obtain ⟨rfl, rfl⟩ := h
          exact stepPost_syntax _ post.weak hnp
        · have hd : (s1, (Except.error (decorate .ext (rootedOrEmpty parent r.path) e) : Except Err Unit))
              = (st', res) := by
            cases e <;> first | exact absurd rfl hne | exact h
          simp only [Prod.mk.injEq] at hd
          obtain ⟨rfl, rfl⟩ := hd
          exact decorate_stepPost _ _ post hne
    · have hce' : st.canExtend = false := by simpa using hce
      simp only [hce', Bool.not_false, if_true, Prod.mk.injEq] at h
      obtain ⟨rfl, rfl⟩ := h
      exact stepPost_syntax _ hst.toW hnp
  | imp =>
    have hnp : ¬ Pure fm := fun hp => by have := hpk hp; rw [hk] at this; cases this
    rw [hk] at h
    simp only at h
    rcases hp : pnf { st with canExtend := false } r with ⟨s1, r1⟩
    have post := hpnf { st with canExtend := false } r s1 r1 hv hff hst hp
    rw [hp] at h
    cases r1 with
    | ok u =>
      cases u
      simp only [Prod.mk.injEq] at h
      obtain ⟨rfl, rfl⟩ := h
      exact ⟨post.weak, ErrFacts.ok fm, by simp, fun _ => Or.inl rfl, fun _ => post.cont (Or.inl rfl)⟩
    | error e =>
      by_cases hne : e = .notExist
      · subst hne
        simp only [Prod.mk.injEq] at h
        obtain ⟨rfl, rfl⟩ := h
        exact ⟨post.weak, ErrFacts.ok fm, by simp, fun _ => Or.inl rfl, fun _ => post.cont (Or.inr rfl)⟩
      · have hd : (s1, (Except.error (decorate .imp (rootedOrEmpty parent r.path) e) : Except Err Unit))
            = (st', res) := by
          cases e <;> first | exact absurd rfl hne | exact h
        simp only [Prod.mk.injEq] at hd
        obtain ⟨rfl, rfl⟩ := hd
        exact decorate_stepPost _ _ post hne
  | ren =>
    rw [hk] at h
    simp only at h
    rcases hp : pnf { st with canExtend := false } r with ⟨s1, r1⟩
    have post := hpnf { st with canExtend := false } r s1 r1 hv hff hst hp
    rw [hp] at h
    cases r1 with
    | ok u =>
      cases u
      simp only [Prod.mk.injEq] at h
      obtain ⟨rfl, rfl⟩ := h
      exact ⟨post.weak, ErrFacts.ok fm, by simp, fun _ => Or.inl rfl, fun _ => post.cont (Or.inl rfl)⟩
    | error e =>
      by_cases hne : e = .notExist
      · subst hne
        have hnp : ¬ Pure fm := fun hp => okOrCycle_notExist (post.pure hp)
        simp only at h
        by_cases hsp : r.special = true
        · simp only [hsp, if_true, Prod.mk.injEq] at h
          obtain ⟨rfl, rfl⟩ := h
          exact ⟨post.weak, ErrFacts.ok fm, by simp, fun _ => Or.inl rfl, fun _ => post.cont (Or.inr rfl)⟩
        · have hsp' : r.special = false := by simpa using hsp
          simp only [hsp', Bool.false_eq_true, if_false, Prod.mk.injEq] at h
          obtain ⟨rfl, rfl⟩ := h
          exact stepPost_syntax _ post.weak hnp
      · have hd : (s1, (Except.error (decorate .ren (rootedOrEmpty parent r.path) e) : Except Err Unit))
            = (st', res) := by
          cases e <;> first | exact absurd rfl hne | exact h
        simp only [Prod.mk.injEq] at hd
        obtain ⟨rfl, rfl⟩ := hd
        exact decorate_stepPost _ _ post hne

/-! ### `expand` -/

structure ExpandPost (fm : FileMap) (P : Bytes → Prop) (paths : List Bytes) (parent : Bytes)
    (st : St) (refs : List Ref) (st' : St) (res : Except Err Unit) : Prop where
  weak : W fm P st'.opens
  errs : ErrFacts fm res
  noNotExist : res ≠ .error .notExist
  pure : Pure fm → OkOrCycle res
  ok : res = .ok () → StI fm P paths st'.trees st'.opens ∧ Mono st.trees st'.trees ∧
    ∀ r ∈ refs, Target fm parent r st'.trees

theorem expandWith_post {pnf : St → Ref → Res} {paths : List Bytes} {parent : Bytes}
    (hpnf : PnfSpec fm P paths parent pnf) (hhead : paths.head? = some parent) :
    ∀ (refs : List Ref) (st : St), (∀ r ∈ refs, validTemplatePath r.path = .ok true) →
      (∀ r ∈ refs, FromFile fm parent r) →
      StI fm P paths st.trees st.opens → ∀ st' res, expandWith pnf paths st refs = (st', res) →
      ExpandPost fm P paths parent st refs st' res := by
  intro refs
  induction refs with
  | nil =>
    intro st _ _ hst st' res h
    simp only [expandWith, Prod.mk.injEq] at h
    obtain ⟨rfl, rfl⟩ := h
    exact ⟨hst.toW, ErrFacts.ok fm, by simp, fun _ => Or.inl rfl,
      fun _ => ⟨hst, Mono.refl _, by intro r hr; simp at hr⟩⟩
  | cons r rs ih =>
    intro st hv hff hst st' res h
    unfold expandWith at h
    rcases h1 : expandOne pnf paths st r with ⟨s1, r1⟩
    have sp := expandOne_post hpnf hhead (hv r (by simp)) (hff r (by simp)) hst h1
    rw [h1] at h
    cases r1 with
    | ok u =>
      cases u
      simp only at h
      obtain ⟨hs1, hm1, ht1⟩ := sp.ok rfl
      have ep := ih s1 (fun x hx => hv x (List.mem_cons_of_mem _ hx))
        (fun x hx => hff x (List.mem_cons_of_mem _ hx)) hs1 st' res h
      refine ⟨ep.weak, ep.errs, ep.noNotExist, ep.pure, ?_⟩
      intro hok
      obtain ⟨hs2, hm2, ht2⟩ := ep.ok hok
      refine ⟨hs2, hm1.trans hm2, ?_⟩
      intro x hx
      simp only [List.mem_cons] at hx
      rcases hx with rfl | hx
      · exact ht1.mono hm2
      · exact ht2 x hx
    | error e =>
      simp only [Prod.mk.injEq] at h
      obtain ⟨rfl, rfl⟩ := h
      exact ⟨sp.weak, sp.errs, sp.noNotExist, sp.pure, by intro h; cases h⟩

/-! ### opening a file -/

theorem count_cons_le_one {opens : List Bytes} {name n : Bytes}
    (hold : opens.count n ≤ 1) (hnew : n = name → name ∉ opens) :
    (name :: opens).count n ≤ 1 := by
  by_cases hn : n = name
  · subst hn
    have := List.count_eq_zero_of_not_mem (hnew rfl)
    simp [this]
  · have : (name == n) = false := by
      simp only [beq_eq_false_iff_ne, ne_eq]
      exact fun e => hn e.symm
    simp [List.count_cons, this, hold]

/-- the state after `Open(name)` of an existing file that is neither on the stack nor cached,
with the file pushed on the stack -/
theorem StI.push {paths trees opens} {name : Bytes} (h : StI fm P paths trees opens)
    (hP : P name) (hnp : name ∉ paths) (hnt : name ∉ tkeys trees) :
    StI fm P (name :: paths) trees (name :: opens) := by
  have hno : IsKey fm name → name ∉ opens := by
    intro hk hmem
    rcases h.tracked name hmem hk with h' | h'
    · exact hnp h'
    · exact hnt h'
  refine ⟨?_, ?_, ?_, h.closed, ?_, h.kinds⟩
  · intro n hn
    simp only [List.mem_cons] at hn
    rcases hn with rfl | hn
    · exact hP
    · exact h.opensP n hn
  · intro n hn hk
    simp only [List.mem_cons] at hn
    rcases hn with rfl | hn
    · left; simp
    · rcases h.tracked n hn hk with h' | h'
      · left; exact List.mem_cons_of_mem _ h'
      · right; exact h'
  · intro n hk
    exact count_cons_le_one (h.once n hk) (by rintro rfl; exact hno hk)
  · intro x hx
    simp only [List.mem_cons] at hx
    rcases hx with rfl | hx
    · exact hnt
    · exact h.disj x hx

/-- `Open(name)` of a file that does not exist -/
theorem StI.openMissing {paths trees opens} {name : Bytes} (h : StI fm P paths trees opens)
    (hP : P name) (hnk : ¬ IsKey fm name) : StI fm P paths trees (name :: opens) := by
  refine ⟨?_, ?_, ?_, h.closed, h.disj, h.kinds⟩
  · intro n hn
    simp only [List.mem_cons] at hn
    rcases hn with rfl | hn
    · exact hP
    · exact h.opensP n hn
  · intro n hn hk
    simp only [List.mem_cons] at hn
    rcases hn with rfl | hn
    · exact absurd hk hnk
    · exact h.tracked n hn hk
  · intro n hk
    exact count_cons_le_one (h.once n hk) (by rintro rfl; exact absurd hk hnk)

/-- the file leaves the stack and enters the cache -/
theorem StI.pop {paths trees opens} {name : Bytes} {k : Kind}
    (h : StI fm P (name :: paths) trees opens) (hnp : name ∉ paths)
    (hedges : ∀ b, Edge fm name b → b ∈ tkeys trees) (hkind : Pure fm → k = .ren) :
    StI fm P paths ((name, k) :: trees) opens := by
  refine ⟨h.opensP, ?_, h.once, ⟨hedges, h.closed⟩, ?_, ?_⟩
  · intro n hn hk
    rcases h.tracked n hn hk with h' | h'
    · simp only [List.mem_cons] at h'
      rcases h' with rfl | h'
      · right; simp [tkeys]
      · left; exact h'
    · right; simp only [tkeys, List.map_cons, List.mem_cons]; right; exact h'
  · intro x hx
    simp only [tkeys, List.map_cons, List.mem_cons, not_or]
    refine ⟨?_, h.disj x (List.mem_cons_of_mem _ hx)⟩
    rintro rfl
    exact hnp hx
  · intro hp x hx
    simp only [List.mem_cons] at hx
    rcases hx with rfl | hx
    · exact hkind hp
    · exact h.kinds hp x hx

/-! ### `parseSource` and `parseNodeFile` -/

/-- `parseSource` of an existing file just opened, given the specification of the recursive
calls -/
theorem parseSourceWith_post (htbl : Guarded tbl) {pnfAt : List Bytes → St → Ref → Res} {paths : List Bytes}
    {name : Bytes} {refs : List Ref} (hrefs : fm.lookup name = some refs)
    (hpnf : PnfSpec fm P (name :: paths) name (pnfAt (name :: paths)))
    {st : St} (hst : StI fm P (name :: paths) st.trees st.opens)
    {st' : St} {res : Except Err Unit}
    (h : parseSourceWith tbl pnfAt paths st name refs = (st', res)) :
    ExpandPost fm P (name :: paths) name st refs st' res := by
  unfold parseSourceWith at h
  cases hc : checkRefs tbl refs with
  | error e =>
    rw [hc] at h
    simp only [Prod.mk.injEq] at h
    obtain ⟨rfl, rfl⟩ := h
    obtain ⟨k, rfl⟩ := checkRefs_error tbl refs e hc
    refine ⟨hst.toW, ErrFacts.syntax fm _, by simp, ?_, by intro h; cases h⟩
    intro hp
    have := checkRefs_of_valid tbl refs (fun r hr => (hp name refs hrefs r hr).2.1)
    rw [this] at hc; cases hc
  | ok u =>
    cases u
    rw [hc] at h
    simp only at h
    exact expandWith_post hpnf rfl refs st (checkRefs_ok htbl refs hc)
      (fun r hr => ⟨refs, hrefs, hr⟩) hst st' res h

theorem parseNodeFile_post (htbl : Guarded tbl) (hP : ∀ parent n r, P parent → validTemplatePath n = .ok true →
      rooted parent n = .ok r → P r) :
    ∀ (fuel : Nat) (paths : List Bytes) (parent : Bytes), paths.head? = some parent →
      PathsOK fm P paths → fm.length + 1 ≤ fuel + paths.length →
      PnfSpec fm P paths parent (parseNodeFile tbl fm fuel paths) := by
  intro fuel
  induction fuel with
  | zero =>
    intro paths parent _ hok hfuel
    have := length_le_of_nodup_subset paths (fm.map Prod.fst) hok.nodup (by
      intro x hx
      have hk := hok.keys x hx
      unfold IsKey at hk
      cases hl : fm.lookup x with
      | none => exact absurd hl hk
      | some v => exact lookup_mem_keys fm x v hl)
    simp at this
    omega
  | succ fuel ih =>
    intro paths parent hhead hok hfuel st ref st' res hv hff hst h
    unfold parseNodeFile at h
    rw [hhead] at h
    simp only at h
    obtain ⟨rest, hpaths⟩ : ∃ rest, paths = parent :: rest := by
      cases paths with
      | nil => simp at hhead
      | cons x xs => simp at hhead; exact ⟨xs, by rw [hhead]⟩
    have hparent : parent ∈ paths := by rw [hpaths]; simp
    have hpure : Pure fm → ref.kind = .ren ∧ ∃ b, rooted parent ref.path = .ok b ∧ IsKey fm b := by
      intro hp
      obtain ⟨refs, hl, hr⟩ := hff
      exact ⟨(hp parent refs hl ref hr).1, (hp parent refs hl ref hr).2.2⟩
    cases hr : rooted parent ref.path with
    | error pe =>
      rw [hr] at h
      cases pe with
      | notExist =>
        simp only [Prod.mk.injEq] at h
        obtain ⟨rfl, rfl⟩ := h
        refine ⟨hst.toW, ErrFacts.notExist fm, ?_, fun _ => ⟨hst, Mono.refl _, ?_⟩⟩
        · intro hp
          obtain ⟨_, b, hb, _⟩ := hpure hp
          rw [hr] at hb; cases hb
        · intro b hb; rw [hr] at hb; cases hb
      | fault f => exact absurd hr (rooted_no_fault parent ref.path f)
    | ok name =>
      rw [hr] at h
      simp only at h
      have hPname : P name := hP parent ref.path name (hok.p parent hparent) hv hr
      by_cases hcyc : paths.contains name = true
      · simp only [hcyc, if_true, Prod.mk.injEq] at h
        obtain ⟨rfl, rfl⟩ := h
        have hmem : name ∈ paths := by simpa using hcyc
        have hedge : Edge fm parent name := by
          obtain ⟨refs, hl, hrm⟩ := hff
          exact ⟨refs, ref, hl, hrm, hr, hok.keys name hmem⟩
        have hreach : Reach fm name name := by
          rcases Chain.reach paths parent rest hpaths hok.chain name hmem with rfl | h'
          · exact .step hedge
          · exact h'.snoc hedge
        exact ⟨hst.toW, ErrFacts.cycle _ hreach, fun _ => Or.inr ⟨_, _, rfl⟩,
          by intro hc; rcases hc with hc | hc <;> cases hc⟩
      · have hcyc' : paths.contains name = false := by simpa using hcyc
        have hnp : name ∉ paths := by
          intro hm
          have : paths.contains name = true := by simpa using hm
          rw [this] at hcyc'; cases hcyc'
        simp only [hcyc', Bool.false_eq_true, if_false] at h
        cases hl : st.trees.lookup name with
        | some cached =>
          rw [hl] at h
          simp only at h
          cases hcc : cacheCheck cached ref.kind with
          | error e =>
            rw [hcc] at h
            simp only [Prod.mk.injEq] at h
            obtain ⟨rfl, rfl⟩ := h
            obtain ⟨s, rfl⟩ := cacheCheck_error _ _ _ hcc
            refine ⟨hst.toW, ErrFacts.syntax fm s, ?_,
              by intro hc; rcases hc with hc | hc <;> cases hc⟩
            intro hp
            have hk1 : cached = .ren := by
              have hm : (name, cached) ∈ st.trees := by
                clear hcc
                generalize st.trees = t at hl
                induction t with
                | nil => simp [List.lookup] at hl
                | cons kv rest ih =>
                  obtain ⟨k, w⟩ := kv
                  simp only [List.lookup] at hl
                  by_cases hk : name == k
                  · simp only [hk] at hl
                    have : name = k := by simpa using hk
                    cases hl
                    simp [this]
                  · simp only [hk] at hl
                    exact List.mem_cons_of_mem _ (ih hl)
              exact hst.kinds hp _ hm
            rw [hk1, (hpure hp).1, cacheCheck_ren] at hcc
            cases hcc
          | ok u =>
            cases u
            rw [hcc] at h
            simp only [Prod.mk.injEq] at h
            obtain ⟨rfl, rfl⟩ := h
            refine ⟨hst.toW, ErrFacts.ok fm, fun _ => Or.inl rfl, fun _ => ⟨hst, Mono.refl _, ?_⟩⟩
            intro b hb _
            rw [hr] at hb
            cases hb
            exact lookup_mem_keys _ _ _ hl
        | none =>
          rw [hl] at h
          simp only at h
          have hnt : name ∉ tkeys st.trees := lookup_none_not_mem_keys _ _ hl
          cases hf : fm.lookup name with
          | none =>
            rw [hf] at h
            simp only [Prod.mk.injEq] at h
            obtain ⟨rfl, rfl⟩ := h
            have hnk : ¬ IsKey fm name := fun hk => hk hf
            have hst' : StI fm P paths st.trees (name :: st.opens) := hst.openMissing hPname hnk
            refine ⟨hst'.toW, ErrFacts.notExist fm, ?_, fun _ => ⟨hst', Mono.refl _, ?_⟩⟩
            · intro hp
              obtain ⟨_, b, hb, hkb⟩ := hpure hp
              rw [hr] at hb; cases hb
              exact absurd hkb hnk
            · intro b hb hk
              rw [hr] at hb
              cases hb
              exact absurd hk hnk
          | some refs =>
            rw [hf] at h
            simp only at h
            have hkey : IsKey fm name := by unfold IsKey; rw [hf]; simp
            have hedge : Edge fm parent name := by
              obtain ⟨refs', hl', hrm⟩ := hff
              exact ⟨refs', ref, hl', hrm, hr, hkey⟩
            have hok' : PathsOK fm P (name :: paths) := by
              refine ⟨?_, ?_, List.nodup_cons.2 ⟨hnp, hok.nodup⟩, ?_⟩
              · intro x hx
                simp only [List.mem_cons] at hx
                rcases hx with rfl | hx
                · exact hPname
                · exact hok.p x hx
              · intro x hx
                simp only [List.mem_cons] at hx
                rcases hx with rfl | hx
                · exact hkey
                · exact hok.keys x hx
              · rw [hpaths]
                exact ⟨hedge, by rw [← hpaths]; exact hok.chain⟩
            have hspec := ih (name :: paths) name rfl hok' (by simp only [List.length_cons]; omega)
            have hpush : StI fm P (name :: paths) (openFile st name).trees (openFile st name).opens :=
              hst.push hPname hnp hnt
            rcases hps : parseSourceWith tbl (parseNodeFile tbl fm fuel) paths (openFile st name) name refs
              with ⟨s1, r1⟩
            have ep := parseSourceWith_post htbl hf hspec hpush hps
            rw [hps] at h
            cases r1 with
            | error e =>
              simp only [Prod.mk.injEq] at h
              obtain ⟨rfl, rfl⟩ := h
              refine ⟨ep.weak, ep.errs, ep.pure, ?_⟩
              intro hc
              rcases hc with hc | hc
              · cases hc
              · exact absurd hc ep.noNotExist
            | ok u =>
              cases u
              simp only [Prod.mk.injEq] at h
              obtain ⟨rfl, rfl⟩ := h
              obtain ⟨hs1, hm1, ht1⟩ := ep.ok rfl
              have hedges : ∀ b, Edge fm name b → b ∈ tkeys s1.trees := by
                rintro b ⟨refs', r, hl', hr', hrt, hkb⟩
                rw [hf] at hl'
                cases hl'
                exact ht1 r hr' b hrt hkb
              have hfin : StI fm P paths ((name, ref.kind) :: s1.trees) s1.opens :=
                hs1.pop hnp hedges (fun hp => (hpure hp).1)
              refine ⟨hfin.toW, ErrFacts.ok fm, fun _ => Or.inl rfl, fun _ => ⟨hfin, ?_, ?_⟩⟩
              · intro b hb
                simp only [tkeys, List.map_cons, List.mem_cons]
                right
                exact hm1 b hb
              · intro b hb _
                rw [hr] at hb
                cases hb
                simp [tkeys]

end

/-! ### the cached files are topologically ordered -/

/-- length of the suffix of `trees` that starts at the oldest entry for `a` (0: not cached) -/
def rankOf (a : Bytes) : List (Bytes × Kind) → Nat
  | [] => 0
  | (x, _) :: post =>
    if rankOf a post > 0 then rankOf a post else if x = a then post.length + 1 else 0

theorem rankOf_le (a : Bytes) (t : List (Bytes × Kind)) : rankOf a t ≤ t.length := by
  induction t with
  | nil => simp [rankOf]
  | cons x post ih =>
    obtain ⟨x, k⟩ := x
    simp only [rankOf, List.length_cons]
    split
    · omega
    · split <;> omega

theorem rankOf_pos_iff (a : Bytes) (t : List (Bytes × Kind)) : 0 < rankOf a t ↔ a ∈ tkeys t := by
  induction t with
  | nil => simp [rankOf, tkeys]
  | cons x post ih =>
    obtain ⟨x, k⟩ := x
    simp only [rankOf, tkeys, List.map_cons, List.mem_cons]
    simp only [tkeys] at ih
    split
    · rename_i h
      constructor
      · intro _; right; exact ih.1 h
      · intro _; exact h
    · rename_i h
      have hnot : a ∉ post.map Prod.fst := fun hm => h (ih.2 hm)
      split
      · rename_i hx
        constructor
        · intro _; left; exact hx.symm
        · intro _; omega
      · rename_i hx
        constructor
        · intro h0; omega
        · rintro (h1 | h1)
          · exact absurd h1.symm hx
          · exact absurd h1 hnot

theorem closed_rank (fm : FileMap) (t : List (Bytes × Kind)) (hc : Closed fm t) :
    ∀ a b, a ∈ tkeys t → Edge fm a b →
      b ∈ tkeys t ∧ rankOf b t < rankOf a t := by
  induction t with
  | nil => intro a b ha; simp [tkeys] at ha
  | cons x post ih =>
    obtain ⟨x, k⟩ := x
    obtain ⟨hx, hpost⟩ := hc
    intro a b ha he
    by_cases hap : 0 < rankOf a post
    · have hain := (rankOf_pos_iff a post).1 hap
      obtain ⟨hb, hlt⟩ := ih hpost a b hain he
      have hbp := (rankOf_pos_iff b post).2 hb
      refine ⟨by simp only [tkeys, List.map_cons, List.mem_cons]; right; exact hb, ?_⟩
      simp only [rankOf, hap, hbp, if_true]
      exact hlt
    · have hnot : a ∉ tkeys post := fun hm => hap ((rankOf_pos_iff a post).2 hm)
      have hax : x = a := by
        simp only [tkeys, List.map_cons, List.mem_cons] at ha
        rcases ha with h | h
        · exact h.symm
        · exact absurd h hnot
      subst hax
      have hb := hx b he
      have hbp := (rankOf_pos_iff b post).2 hb
      refine ⟨by simp only [tkeys, List.map_cons, List.mem_cons]; right; exact hb, ?_⟩
      have := rankOf_le b post
      simp only [rankOf, hap, hbp, if_true, if_false]
      omega

end ScriggoV.Paths

namespace ScriggoV.Paths
open ScriggoV.GoPath

/-! ### the whole run -/

structure RunPost (fm : FileMap) (P : Bytes → Prop) (root : Bytes) (st' : St)
    (res : Except Err Unit) : Prop where
  weak : W fm P st'.opens
  noFuel : res ≠ .error .outOfFuel
  noFault : ∀ f, res ≠ .error (.fault f)
  cyc : ∀ p c, res = .error (.cycle p c) → Reach fm p p
  pure : Pure fm → OkOrCycle res ∨ res = .error .invalid ∨ res = .error .notExist
  invalid : res = .error .invalid → (root == dotSeg || root.getLast? == some 47) = true
  notExist : res = .error .notExist → fm.lookup root = none
  ok : res = .ok () → StI fm P [root] st'.trees st'.opens ∧
    ∀ refs, fm.lookup root = some refs → ∀ r ∈ refs, Target fm root r st'.trees

theorem StI.init (fm : FileMap) (P : Bytes → Prop) : StI fm P [] [] [] :=
  ⟨by intro n hn; simp at hn, by intro n hn; simp at hn, by intro n _; simp, trivial,
    by intro x hx; simp at hx, by intro _ x hx; simp at hx⟩

theorem parseTemplateFuel_post {fm : FileMap} {P : Bytes → Prop} {tbl : SiteTable} (htbl : Guarded tbl)
    (hP : ∀ parent n r, P parent → validTemplatePath n = .ok true → rooted parent n = .ok r → P r)
    (root : Bytes) (hroot : P root) (fuel : Nat) (hfuel : fm.length ≤ fuel)
    (st' : St) (res : Except Err Unit) (h : parseTemplateFuel tbl fm fuel root = (st', res)) :
    RunPost fm P root st' res := by
  unfold parseTemplateFuel at h
  split at h
  · rename_i hinv
    simp only [Prod.mk.injEq] at h
    obtain ⟨rfl, rfl⟩ := h
    exact ⟨(StI.init fm P).toW, by simp, by simp, (by intro p c h; cases h),
      fun _ => Or.inr (Or.inl rfl), fun _ => hinv, (by intro h; cases h), (by intro h; cases h)⟩
  · cases hf : fm.lookup root with
    | none =>
      rw [hf] at h
      simp only [Prod.mk.injEq] at h
      obtain ⟨rfl, rfl⟩ := h
      have hnk : ¬ IsKey fm root := fun hk => hk hf
      exact ⟨((StI.init fm P).openMissing hroot hnk).toW, by simp, by simp,
        (by intro p c h; cases h), fun _ => Or.inr (Or.inr rfl), (by intro h; cases h),
        fun _ => hf, (by intro h; cases h)⟩
    | some refs =>
      rw [hf] at h
      simp only at h
      have hkey : IsKey fm root := by unfold IsKey; rw [hf]; simp
      have hok : PathsOK fm P [root] :=
        ⟨by intro x hx; simp at hx; subst hx; exact hroot,
         by intro x hx; simp at hx; subst hx; exact hkey, by simp, trivial⟩
      have hspec := parseNodeFile_post htbl hP fuel [root] root rfl hok (by simp; omega)
      have hpush : StI fm P [root] (openFile St.init root).trees (openFile St.init root).opens :=
        (StI.init fm P).push hroot (by simp) (by simp [tkeys])
      have ep := parseSourceWith_post htbl hf hspec hpush h
      refine ⟨ep.weak, ep.errs.noFuel, ep.errs.noFault, ep.errs.cyc,
        fun hp => Or.inl (ep.pure hp), fun hi => absurd hi ep.errs.noInvalid,
        fun hn => absurd hn ep.noNotExist, ?_⟩
      intro hok
      obtain ⟨h1, _, h3⟩ := ep.ok hok
      refine ⟨h1, ?_⟩
      intro refs' hl
      rw [hf] at hl
      cases hl
      exact h3

end ScriggoV.Paths
