import ScriggoV.Model.Frames
import ScriggoV.Spec.GoDefer
/-! The refinement relation between Scriggo's call-frame machine (`Model/Frames.lean`) and the
abstract Go machine (`Spec/GoDefer.lean`), and the lock-step simulation (DESIGN.md Appendix B):
each maximal block `[d₁:deferred … dₙ:deferred, X]` of the call stack (top first) is the
pending deferred list `d₁ … dₙ` of one activation; the frame `X` under it says how that
activation was started and what the activation below is doing — `started`: called, the one
below is running; `returned`: run as a deferred call by the one below, which is finishing;
`panicked`/`recovered`: run by the panic sequence at the one below, which is panicking. -/
namespace ScriggoV.FramesRefine
open ScriggoV.DeferLang ScriggoV.Frames ScriggoV.GoDefer

/-- `Below calls base ds how st`: when the activation that owns the topmost frames of `calls`
is on top and the active panics are `base`, the call stack says that this activation has the
pending deferred calls `ds`, was started `how`, and that the activations below it are `st`. -/
inductive Below : List Frame → Chain → List Callee → How → List Act → Prop
  | root : Below [] [] [] .called []
  | deferred {c rest base ds how st} :
      Below rest base ds how st → c.status = .deferred → c.pc = 0 →
      Below (c :: rest) base (c.fn :: ds) how st
  | started {c rest base ds how st} :
      Below rest base ds how st → c.status = .started → c.fn ≠ .recSynth →
      Below (c :: rest) base [] .called
        ({ fn := c.fn, pc := c.pc, defers := ds, mode := .running, how := how, height := base.length } :: st)
  | tailed {c rest base ds how st} :
      Below rest base ds how st → c.status = .tailed → c.fn ≠ .recSynth →
      Below (c :: rest) base [] .called
        ({ fn := c.fn, pc := c.pc, defers := ds, mode := .tailWait, how := how, height := base.length } :: st)
  | returned {c rest base ds how st} (f : Callee) (n : Nat) :
      Below rest base ds how st → c.status = .returned →
      Below (c :: rest) base [] .byReturn
        ({ fn := f, pc := n, defers := ds, mode := .finishing, how := how, height := base.length } :: st)
  | panicked {c rest base ds how st} (f : Callee) (n : Nat) (l : Link) (newer : Chain) :
      Below rest c.prev ds how st → c.status = .panicked →
      base = l :: newer ++ c.prev → l.recovered = false →
      Below (c :: rest) base [] .byPanic
        ({ fn := f, pc := n, defers := ds, mode := .panicking, how := how, height := c.prev.length } :: st)
  | recovered {c rest base ds how st} (f : Callee) (n : Nat) (l : Link) (newer : Chain) :
      Below rest c.prev ds how st → c.status = .recovered →
      base = l :: newer ++ c.prev → l.recovered = true →
      Below (c :: rest) base [] .byPanic
        ({ fn := f, pc := n, defers := ds, mode := .panicking, how := how, height := c.prev.length } :: st)

/-- the refinement relation -/
structure Rel (s : Frames.State) (g : GoDefer.State) : Prop where
  chain : g.chain = s.chain
  out : g.out = s.out
  stack : ∃ ds how st, Below s.calls s.chain ds how st ∧
    g.stack = { fn := s.cur, pc := s.pc, defers := ds, mode := .running, how := how,
                height := s.chain.length } :: st
  /-- the function synthesised for `defer recover()` starts right above the marker of the
  function that deferred it -/
  synth : s.cur = .recSynth → s.pc = 0 →
    ∃ c rest, s.calls = c :: rest ∧ (c.status = .panicked ∨ c.status = .returned)

/-- two steps correspond -/
def Sim : Step Frames.State → Step GoDefer.State → Prop
  | .next s, .next g => Rel s g
  | .halt r, .halt r' => r = r'
  | _, _ => False

/-! ### the panic sequence: `nextCall`, `case panicked` against `unwind` -/

theorem unwind_nil {chain out} {a : Act} {rest} (h : a.defers = []) :
    unwind chain out (a :: rest) = unwind chain out rest := by
  simp [unwind, h]

theorem unwind_cons {chain out} {a : Act} {rest d ds} (h : a.defers = d :: ds) :
    unwind chain out (a :: rest) =
      .next { stack := enter d .byPanic chain :: { a with mode := .panicking, defers := ds } :: rest,
              chain := chain, out := out } := by
  simp [unwind, h]

theorem scan_deferred {chain prev above} {c : Frame} {rest} (h : c.status = .deferred) :
    scanPanicked chain prev above (c :: rest) =
      .resume c.fn c.pc ({ above with status := .panicked, prev := prev } :: rest) chain := by
  simp [scanPanicked, h]

theorem scan_skip {chain prev above} {c : Frame} {rest} (h : c.status ≠ .deferred) :
    scanPanicked chain prev above (c :: rest) =
      scanPanicked chain (if c.status = .panicked ∨ c.status = .recovered then c.prev else prev) c rest := by
  simp [scanPanicked, h]

theorem unwind_sim (out : List Event) {rest base ds how st} (hB : Below rest base ds how st) :
    ∀ (chain : Chain) (l : Link) (newer : Chain) (above : Frame) (b : Act),
      chain = l :: newer ++ base → l.recovered = false →
      b.defers = ds → b.how = how → b.height = base.length →
      Sim (continueWith out (scanPanicked chain base above rest)) (unwind chain out (b :: st)) := by
  induction hB with
  | root =>
    intro chain l newer above b hc hl hd hh hht
    simp [scanPanicked, continueWith, Frames.finish, unwind, hd, die, Sim, hc]
  | @deferred c rest base ds how st hB hs hpc ih =>
    intro chain l newer above b hc hl hd hh hht
    rw [scan_deferred hs, unwind_cons hd]
    simp only [continueWith, Sim]
    refine ⟨rfl, rfl, ?_, ?_⟩
    · refine ⟨[], .byPanic, _, Below.panicked b.fn b.pc l newer (c := { above with status := .panicked, prev := base }) hB rfl hc hl, ?_⟩
      simp [enter, hpc, hh, hht]
    · intro _ _
      exact ⟨_, _, rfl, Or.inl rfl⟩
  | @started c rest base ds how st hB hs hfn ih =>
    intro chain l newer above b hc hl hd hh hht
    rw [scan_skip (by simp [hs]), unwind_nil hd]
    simp only [hs]
    refine ih chain l newer c _ hc hl ?_ ?_ ?_ <;> rfl
  | @tailed c rest base ds how st hB hs hfn ih =>
    intro chain l newer above b hc hl hd hh hht
    rw [scan_skip (by simp [hs]), unwind_nil hd]
    simp only [hs]
    refine ih chain l newer c _ hc hl ?_ ?_ ?_ <;> rfl
  | @returned c rest base ds how st f n hB hs ih =>
    intro chain l newer above b hc hl hd hh hht
    rw [scan_skip (by simp [hs]), unwind_nil hd]
    simp only [hs]
    refine ih chain l newer c _ hc hl ?_ ?_ ?_ <;> rfl
  | @panicked c rest base ds how st f n l2 newer2 hB hs hb hl2 ih =>
    intro chain l newer above b hc hl hd hh hht
    rw [scan_skip (by simp [hs]), unwind_nil hd]
    simp only [hs]
    refine ih chain l (newer ++ l2 :: newer2) c _ (by simp [hc, hb]) hl ?_ ?_ ?_ <;> rfl
  | @recovered c rest base ds how st f n l2 newer2 hB hs hb hl2 ih =>
    intro chain l newer above b hc hl hd hh hht
    rw [scan_skip (by simp [hs]), unwind_nil hd]
    simp only [hs]
    refine ih chain l (newer ++ l2 :: newer2) c _ (by simp [hc, hb]) hl ?_ ?_ ?_ <;> rfl


/-! ### returning: `nextCall` against `resume` -/

theorem keepOldest_append (l : Link) (newer prev : Chain) :
    keepOldest prev.length (l :: newer ++ prev) = prev := by
  unfold keepOldest
  have : (l :: newer ++ prev).length - prev.length = (l :: newer).length := by
    simp; omega
  rw [this]
  exact List.drop_left' rfl

theorem finishWith_nil {back out} {a : Act} {rest chain} (h : a.defers = []) :
    finishWith back out a rest chain = back chain := by
  simp [finishWith, h]

theorem finishWith_cons {back out} {a : Act} {rest chain d ds} (h : a.defers = d :: ds) :
    finishWith back out a rest chain =
      .next { stack := enter d .byReturn chain :: { a with mode := .finishing, defers := ds } :: rest,
              chain := chain, out := out } := by
  simp [finishWith, h]

theorem resume_fin {out} {a : Act} {rest chain} (h : a.mode = .finishing ∨ a.mode = .tailWait) :
    resume out (a :: rest) chain = finishWith (resume out rest) out a rest chain := by
  rcases h with h | h <;> simp [resume, h]

theorem resume_running {out} {a : Act} {rest chain} (h : a.mode = .running) :
    resume out (a :: rest) chain = .next { stack := a :: rest, chain := chain, out := out } := by
  simp [resume, h]

theorem resume_panicking {out} {a : Act} {rest chain} (h : a.mode = .panicking) :
    resume out (a :: rest) chain =
      if headRecovered chain then finishWith (resume out rest) out a rest (keepOldest a.height chain)
      else unwind chain out (a :: rest) := by
  simp [resume, h]

theorem nextCall_deferred {cur chain} {c : Frame} {rest} (h : c.status = .deferred) :
    nextCall cur (c :: rest) chain =
      .resume c.fn c.pc ({ fn := cur, pc := 0, status := .returned, prev := [] } :: rest) chain := by
  simp [nextCall, h]

theorem below_head_not_deferred {p : Frame} {rest base ds how st}
    (hB : Below (p :: rest) base ds how st) (h : p.status ≠ .deferred) : ds = [] := by
  cases hB <;> simp_all

theorem nextCall_returned_skip {cur chain} {c : Frame} {rest} (h : c.status = .returned)
    (hr : ∀ p rest', rest = p :: rest' → p.status ≠ .deferred) :
    nextCall cur (c :: rest) chain = nextCall cur rest chain := by
  cases rest with
  | nil => simp [nextCall, h]
  | cons p rest' => simp [nextCall, h, hr p rest' rfl]

theorem nextCall_returned_deferred {cur chain} {c p : Frame} {rest'} (h : c.status = .returned)
    (hp : p.status = .deferred) :
    nextCall cur (c :: p :: rest') chain = .resume p.fn p.pc (c :: rest') chain := by
  simp [nextCall, h, hp]

theorem nextCall_recovered_skip {cur chain} {c : Frame} {rest} (h : c.status = .recovered)
    (hr : ∀ p rest', rest = p :: rest' → p.status ≠ .deferred) :
    nextCall cur (c :: rest) chain = nextCall cur rest c.prev := by
  cases rest with
  | nil => simp [nextCall, h]
  | cons p rest' => simp [nextCall, h, hr p rest' rfl]

theorem nextCall_recovered_deferred {cur chain} {c p : Frame} {rest'} (h : c.status = .recovered)
    (hp : p.status = .deferred) :
    nextCall cur (c :: p :: rest') chain =
      .resume p.fn p.pc ({ c with status := .returned } :: rest') c.prev := by
  simp [nextCall, h, hp]

theorem below_deferred_inv {p : Frame} {rest base ds how st}
    (hB : Below (p :: rest) base ds how st) (h : p.status = .deferred) :
    ∃ ds', ds = p.fn :: ds' ∧ Below rest base ds' how st ∧ p.pc = 0 := by
  cases hB <;> simp_all

theorem headRecovered_cons (l : Link) (t : Chain) : headRecovered (l :: t) = l.recovered := rfl

theorem resume_sim (out : List Event) (cur : Callee) {calls base ds how st}
    (hB : Below calls base ds how st) :
    ∀ (a : Act), a.defers = ds → a.how = how → a.height = base.length →
      (a.mode = .finishing ∨ a.mode = .tailWait) →
      Sim (continueWith out (nextCall cur calls base)) (resume out (a :: st) base) := by
  induction hB with
  | root =>
    intro a hd hh hht hm
    rw [resume_fin hm, finishWith_nil hd]
    simp [nextCall, continueWith, Frames.finish, resume, Sim]
  | @deferred c rest base ds how st hB hs hpc ih =>
    intro a hd hh hht hm
    rw [resume_fin hm, finishWith_cons hd, nextCall_deferred hs]
    simp only [continueWith, Sim]
    refine ⟨rfl, rfl, ?_, ?_⟩
    · refine ⟨[], .byReturn, _, Below.returned a.fn a.pc (c := { fn := cur, pc := 0, status := .returned, prev := [] }) hB rfl, ?_⟩
      simp [enter, hpc, hh, hht]
    · intro _ _
      exact ⟨_, _, rfl, Or.inr rfl⟩
  | @started c rest base ds how st hB hs hfn ih =>
    intro a hd hh hht hm
    rw [resume_fin hm, finishWith_nil hd, resume_running rfl]
    simp only [nextCall, hs, continueWith, Sim]
    refine ⟨rfl, rfl, ⟨ds, how, st, hB, rfl⟩, ?_⟩
    intro h; exact absurd h hfn
  | @tailed c rest base ds how st hB hs hfn ih =>
    intro a hd hh hht hm
    rw [resume_fin hm, finishWith_nil hd]
    simp only [nextCall, hs]
    exact ih _ rfl rfl rfl (Or.inr rfl)
  | @returned c rest base ds how st f n hB hs ih =>
    intro a hd hh hht hm
    rw [resume_fin hm, finishWith_nil hd]
    by_cases hr : ∀ p rest', rest = p :: rest' → p.status ≠ .deferred
    · rw [nextCall_returned_skip hs hr]
      exact ih _ rfl rfl rfl (Or.inl rfl)
    · have : ∃ p rest', rest = p :: rest' ∧ p.status = .deferred := by
        cases rest with
        | nil => simp at hr
        | cons p rest' => exact ⟨p, rest', rfl, by simpa using hr⟩
      obtain ⟨p, rest', rfl, hp⟩ := this
      obtain ⟨ds', rfl, hB', hpc⟩ := below_deferred_inv hB hp
      rw [nextCall_returned_deferred hs hp, resume_fin (Or.inl rfl), finishWith_cons rfl]
      simp only [continueWith, Sim]
      refine ⟨rfl, rfl, ?_, ?_⟩
      · refine ⟨[], .byReturn, _, Below.returned f n hB' hs, ?_⟩
        simp [enter, hpc]
      · intro _ _
        exact ⟨_, _, rfl, Or.inr hs⟩
  | @recovered c rest base ds how st f n l newer hB hs hb hl ih =>
    intro a hd hh hht hm
    rw [resume_fin hm, finishWith_nil hd, resume_panicking rfl]
    have hk : keepOldest c.prev.length base = c.prev := by rw [hb]; exact keepOldest_append l newer c.prev
    have hr : headRecovered base = true := by rw [hb]; simpa [headRecovered] using hl
    simp only [hr, if_true, hk]
    have hfin : finishWith (resume out st) out
          { fn := f, pc := n, defers := ds, mode := .panicking, how := how, height := c.prev.length } st c.prev
        = resume out ({ fn := f, pc := n, defers := ds, mode := .finishing, how := how, height := c.prev.length } :: st) c.prev := by
      rw [resume_fin (Or.inl rfl)]; simp [finishWith]
    rw [hfin]
    by_cases hr : ∀ p rest', rest = p :: rest' → p.status ≠ .deferred
    · rw [nextCall_recovered_skip hs hr]
      exact ih _ rfl rfl rfl (Or.inl rfl)
    · have : ∃ p rest', rest = p :: rest' ∧ p.status = .deferred := by
        cases rest with
        | nil => simp at hr
        | cons p rest' => exact ⟨p, rest', rfl, by simpa using hr⟩
      obtain ⟨p, rest', rfl, hp⟩ := this
      obtain ⟨ds', rfl, hB', hpc⟩ := below_deferred_inv hB hp
      rw [nextCall_recovered_deferred hs hp, resume_fin (Or.inl rfl), finishWith_cons rfl]
      simp only [continueWith, Sim]
      refine ⟨rfl, rfl, ?_, ?_⟩
      · refine ⟨[], .byReturn, _, Below.returned f n (c := { c with status := .returned }) hB' rfl, ?_⟩
        simp [enter, hpc]
      · intro _ _
        exact ⟨_, _, rfl, Or.inr rfl⟩
  | @panicked c rest base ds how st f n l newer hB hs hb hl ih =>
    intro a hd hh hht hm
    rw [resume_fin hm, finishWith_nil hd, resume_panicking rfl]
    have hr : headRecovered base = false := by rw [hb]; simpa [headRecovered] using hl
    simp only [hr]
    have : nextCall cur (c :: rest) base = scanPanicked base c.prev c rest := by simp [nextCall, hs]
    rw [this]
    exact unwind_sim out hB base l newer c _ hb hl rfl rfl rfl


/-! ### recover -/

/-- `OpRecover`'s scan against the rule of the Go specification -/
theorem recoverScan_below {calls base ds how st} (hB : Below calls base ds how st) :
    (∃ cs' l t, recoverScan calls = some cs' ∧ how = .byPanic ∧ base = l :: t ∧ l.recovered = false ∧
        Below cs' ({ l with recovered := true } :: t) ds how st) ∨
    (recoverScan calls = none ∧ GoDefer.doRecover how base = (base, none)) := by
  induction hB with
  | root => right; simp [recoverScan, GoDefer.doRecover]
  | @deferred c rest base ds how st hB hs hpc ih =>
    rcases ih with ⟨cs', l, t, h1, h2, h3, h4, h5⟩ | ⟨h1, h2⟩
    · left
      exact ⟨c :: cs', l, t, by simp [recoverScan, hs, h1], h2, h3, h4, Below.deferred h5 hs hpc⟩
    · right
      exact ⟨by simp [recoverScan, hs, h1], h2⟩
  | @started c rest base ds how st hB hs hfn ih =>
    right; simp [recoverScan, hs, GoDefer.doRecover]
  | @tailed c rest base ds how st hB hs hfn ih =>
    right; simp [recoverScan, hs, GoDefer.doRecover]
  | @returned c rest base ds how st f n hB hs ih =>
    right; simp [recoverScan, hs, GoDefer.doRecover]
  | @panicked c rest base ds how st f n l newer hB hs hb hl ih =>
    left
    refine ⟨{ c with status := .recovered } :: rest, l, newer ++ c.prev, by simp [recoverScan, hs], rfl, hb, hl, ?_⟩
    exact Below.recovered f n { l with recovered := true } newer (c := { c with status := .recovered }) hB rfl rfl rfl
  | @recovered c rest base ds how st f n l newer hB hs hb hl ih =>
    right
    refine ⟨by simp [recoverScan, hs], ?_⟩
    simp [GoDefer.doRecover, hb, hl]


/-! ### one instruction -/

theorem doReturn_eq (s : Frames.State) :
    Frames.doReturn s = continueWith s.out (nextCall s.cur s.calls s.chain) := by
  unfold Frames.doReturn
  cases hc : s.calls with
  | nil => simp [nextCall, continueWith]
  | cons c rest =>
    by_cases h : c.status = .started
    · simp [h, nextCall]
    · simp [h]

theorem doPanic_eq (s : Frames.State) (v : Nat) :
    Frames.doPanic s v = continueWith s.out
      (scanPanicked ({ val := v, recovered := false } :: s.chain) s.chain
        { fn := s.cur, pc := 0, status := .panicked, prev := s.chain } s.calls) := by
  unfold Frames.doPanic
  cases hc : s.calls with
  | nil => simp [scanPanicked, continueWith]
  | cons c rest => simp [nextCall]

/-- what relates the parts of two related states -/
structure Parts (s : Frames.State) (g : GoDefer.State) (ds : List Callee) (how : How) (st : List Act) : Prop where
  chain : g.chain = s.chain
  out : g.out = s.out
  below : Below s.calls s.chain ds how st
  stack : g.stack = { fn := s.cur, pc := s.pc, defers := ds, mode := .running, how := how,
                      height := s.chain.length } :: st

theorem doReturn_sim {s g ds how st} (h : Parts s g ds how st) :
    Sim (Frames.doReturn s) (GoDefer.doReturn g) := by
  rw [doReturn_eq]
  unfold GoDefer.doReturn
  rw [h.stack, h.out, h.chain]
  exact resume_sim s.out s.cur h.below _ rfl rfl rfl (Or.inl rfl)

theorem doPanic_sim {s g ds how st} (h : Parts s g ds how st) (v : Nat) :
    Sim (Frames.doPanic s v) (GoDefer.doPanic g v) := by
  rw [doPanic_eq]
  unfold GoDefer.doPanic
  rw [h.stack, h.out, h.chain]
  exact unwind_sim s.out h.below _ ⟨v, false⟩ [] _ _ rfl rfl rfl rfl rfl

theorem fetch_mem {b : Body} {pc : Nat} : fetch b pc = .ret ∨ fetch b pc ∈ b := by
  unfold fetch
  cases h : b[pc]? with
  | none => simp
  | some i => right; simpa using List.mem_of_getElem? h

theorem fetch_user {p : Prog} (hp : p.isUser = true) {f : Nat} {body : Body}
    (hb : bodyOf p (.fn f) = some body) (pc : Nat) : fetch body pc ≠ .recoverDown := by
  intro h
  rcases fetch_mem (b := body) (pc := pc) with h' | h'
  · rw [h] at h'; cases h'
  · rw [h] at h'
    have hm : body ∈ p := List.mem_of_getElem? hb
    have := (List.all_eq_true.mp hp) body hm
    have := (List.all_eq_true.mp this) _ h'
    simp [Instr.isUser] at this

theorem fetch_synth {p : Prog} {body : Body} (hb : bodyOf p .recSynth = some body) (pc : Nat) :
    (fetch body pc = .recoverDown ∧ pc = 0) ∨ fetch body pc = .ret := by
  simp [bodyOf] at hb
  subst hb
  cases pc with
  | zero => left; simp [fetch]
  | succ n => right; simp [fetch]


theorem doRecover_direct {calls base ds how st} (hB : Below calls base ds how st) :
    ∃ calls' chain' v, Frames.doRecover false calls base = .ok (calls', chain', v) ∧
      GoDefer.doRecover how base = (chain', v) ∧ Below calls' chain' ds how st ∧
      chain'.length = base.length := by
  rcases recoverScan_below hB with ⟨cs', l, t, h1, h2, h3, h4, h5⟩ | ⟨h1, h2⟩
  · refine ⟨cs', { l with recovered := true } :: t, some l.val, ?_, ?_, h5, by simp [h3]⟩
    · simp [Frames.doRecover, h1, h3]
    · simp [GoDefer.doRecover, h2, h3, h4]
  · exact ⟨calls, base, none, by simp [Frames.doRecover, h1], h2, hB, rfl⟩

theorem doRecover_down {c : Frame} {rest base ds how st} (hB : Below (c :: rest) base ds how st)
    (hc : c.status = .panicked ∨ c.status = .returned) :
    ∃ calls' chain' v, Frames.doRecover true (c :: rest) base = .ok (calls', chain', v) ∧
      chain' = recoverForCaller how st base ∧
      Below calls' chain' ds how st ∧ chain'.length = base.length := by
  rcases hc with hc | hc
  · refine ⟨c :: rest, base, none, by simp [Frames.doRecover, hc], ?_, hB, rfl⟩
    cases hB <;> simp_all [recoverForCaller]
  · cases hB with
    | @returned _ _ _ ds' how' st' f n hB' hs =>
      rcases recoverScan_below hB' with ⟨cs', l, t, h1, h2, h3, h4, h5⟩ | ⟨h1, h2⟩
      · refine ⟨c :: cs', { l with recovered := true } :: t, some l.val, ?_, ?_, ?_, by simp [h3]⟩
        · simp [Frames.doRecover, hc, h1, h3]
        · simp [recoverForCaller, GoDefer.doRecover, h2, h3, h4]
        · have := Below.returned f n (c := c) h5 hs
          simpa [h3] using this
      · refine ⟨c :: rest, base, none, by simp [Frames.doRecover, hc, h1], ?_, Below.returned f n hB' hs, rfl⟩
        simp [recoverForCaller, h2]
    | _ => simp_all


theorem step_sim (p : Prog) (hp : p.isUser = true) {s g} (h : Rel s g) :
    Sim (Frames.step p s) (GoDefer.step p g) := by
  obtain ⟨hc, ho, ⟨ds, how, st, hB, hst⟩, hsyn⟩ := h
  obtain ⟨gstack, gchain, gout⟩ := g
  simp only at hc ho hst
  subst hc ho hst
  have hparts : Parts s ⟨_, s.chain, s.out⟩ ds how st := ⟨rfl, rfl, hB, rfl⟩
  unfold Frames.step GoDefer.step
  simp only
  cases hb : bodyOf p s.cur with
  | none => simp [Sim]
  | some body =>
    simp only
    have hnotsynth : ∀ i, fetch body s.pc = i → i ≠ .recoverDown → i ≠ .ret → s.cur ≠ .recSynth := by
      intro i hi h1 h2 hcur
      rw [hcur] at hb
      rcases fetch_synth hb s.pc with ⟨h, _⟩ | h <;> rw [hi] at h <;> simp_all
    cases hi : fetch body s.pc with
    | print x =>
      simp only [Sim, advance]
      exact ⟨rfl, rfl, ⟨ds, how, st, hB, rfl⟩, by intro _ h; simp at h⟩
    | call f =>
      have hne := hnotsynth _ hi (by simp) (by simp)
      simp only [Sim, continueWith]
      refine ⟨rfl, rfl, ⟨[], .called, _, Below.started (c := { fn := s.cur, pc := s.pc + 1, status := .started, prev := [] }) hB rfl hne, ?_⟩, by intro h; simp at h⟩
      simp [enter]
    | tailcall f =>
      have hne := hnotsynth _ hi (by simp) (by simp)
      simp only [Sim, continueWith]
      refine ⟨rfl, rfl, ⟨[], .called, _, Below.tailed (c := { fn := s.cur, pc := s.pc + 1, status := .tailed, prev := [] }) hB rfl hne, ?_⟩, by intro h; simp at h⟩
      simp [enter]
    | defer f =>
      simp only [Sim, advance]
      exact ⟨rfl, rfl, ⟨_, how, st, Below.deferred (c := { fn := .fn f, pc := 0, status := .deferred, prev := [] }) hB rfl rfl, rfl⟩, by intro _ h; simp at h⟩
    | deferRec =>
      simp only [Sim, advance]
      exact ⟨rfl, rfl, ⟨_, how, st, Below.deferred (c := { fn := .recSynth, pc := 0, status := .deferred, prev := [] }) hB rfl rfl, rfl⟩, by intro _ h; simp at h⟩
    | ret => exact doReturn_sim hparts
    | panic v => exact doPanic_sim hparts v
    | stop k => simp [Sim]
    | fatal v => simp [Sim]
    | recover =>
      obtain ⟨calls', chain', v, h1, h2, h3, h4⟩ := doRecover_direct hB
      simp only [h1, h2, Sim, advance]
      exact ⟨rfl, rfl, ⟨ds, how, st, h3, by simp [h4]⟩, by intro _ h; simp at h⟩
    | repanic =>
      obtain ⟨calls', chain', v, h1, h2, h3, h4⟩ := doRecover_direct hB
      simp only [h1, h2, advance]
      cases v with
      | none =>
        simp only [Sim]
        exact ⟨rfl, rfl, ⟨ds, how, st, h3, by simp [h4]⟩, by intro _ h; simp at h⟩
      | some x =>
        simp only
        exact doPanic_sim (s := { cur := s.cur, pc := s.pc + 1, calls := calls', chain := chain', out := .recov (some x) :: s.out })
          ⟨rfl, rfl, h3, by simp [h4]⟩ x
    | recoverDown =>
      have hcur : s.cur = .recSynth ∧ s.pc = 0 := by
        cases hcur : s.cur with
        | fn f => rw [hcur] at hb; exact absurd hi (fetch_user hp hb s.pc)
        | recSynth =>
          rw [hcur] at hb
          rcases fetch_synth hb s.pc with ⟨_, h⟩ | h
          · exact ⟨rfl, h⟩
          · rw [hi] at h; cases h
      obtain ⟨c, rest, hcalls, hcs⟩ := hsyn hcur.1 hcur.2
      rw [hcalls] at hB
      obtain ⟨calls', chain', v, h1, h2, h3, h4⟩ := doRecover_down hB hcs
      rw [hcalls]
      simp only [h1, Sim, advance]
      refine ⟨?_, rfl, ⟨ds, how, st, h3, ?_⟩, by intro _ h; simp at h⟩
      · simp only [h2]
      · simp [h4]


theorem init_rel : Rel Frames.init GoDefer.init :=
  ⟨rfl, rfl, ⟨[], .called, [], Below.root, rfl⟩, by intro h; cases h⟩

theorem iterate_sim (p : Prog) (hp : p.isUser = true) :
    ∀ (n : Nat) {s g}, Rel s g →
      iterate (Frames.step p) (fun s => s.out.reverse) n s =
        iterate (GoDefer.step p) (fun s => s.out.reverse) n g := by
  intro n
  induction n with
  | zero => intro s g h; simp [iterate, h.out]
  | succ n ih =>
    intro s g h
    have hs := step_sim p hp h
    simp only [iterate]
    cases h1 : Frames.step p s with
    | next s' =>
      cases h2 : GoDefer.step p g with
      | next g' => rw [h1, h2] at hs; exact ih hs
      | halt r => rw [h1, h2] at hs; exact absurd hs (by simp [Sim])
    | halt r =>
      cases h2 : GoDefer.step p g with
      | next g' => rw [h1, h2] at hs; exact absurd hs (by simp [Sim])
      | halt r' => rw [h1, h2] at hs; simpa [Sim] using hs

end ScriggoV.FramesRefine
