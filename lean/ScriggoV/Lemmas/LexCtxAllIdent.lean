import ScriggoV.Lemmas.LexCtxAllStep
import ScriggoV.Lemmas.LexCtxAllShow
/-! # C06 layer 2, every hole — the extent of `lexShow` on `{{identifier}}`

For a show statement whose body is a single ASCII identifier (a letter or `_`, then letters,
digits, `_`), directly between `{{` and `}}`, `lexShow` of the full model consumes exactly these
bytes, returns no error, and pushes three tokens: the `{{` token (with the current context and the
offset of the `{{`), one identifier-or-keyword token, the `}}` token.

The model takes the `unicode` predicates as parameters (`Env.U`); the lemma needs them to agree
with ASCII on the bytes involved: `AsciiU`. Core Lean only. -/
namespace ScriggoV.LexCtx
open ScriggoV ScriggoV.Lexer ScriggoV.Gen.LexTables

def identStart (c : UInt8) : Bool := HtmlTok.isLetter c || c == 0x5F
def identByte (c : UInt8) : Bool := HtmlTok.isLetter c || HtmlTok.isDigit c || c == 0x5F

/-- text[a..e) is `{{` identifier `}}` -/
def IdentShow (text : Bytes) (a e : Nat) : Prop :=
  a + 5 ≤ e ∧ text[a]? = some 0x7b ∧ text[a+1]? = some 0x7b ∧ (∃ c, text[a+2]? = some c ∧ identStart c = true) ∧
  (∀ i, a + 2 ≤ i → i < e - 2 → ∃ c, text[i]? = some c ∧ identByte c = true) ∧
  text[e-2]? = some 0x7d ∧ text[e-1]? = some 0x7d

/-- what the lemma needs from the `unicode` predicates: ASCII letters are letters, ASCII digits are
digits, `}` is neither -/
structure AsciiU (U : Unicode) : Prop where
  letter : ∀ c : UInt8, HtmlTok.isLetter c = true → U.isLetter c.toNat = true
  digit : ∀ c : UInt8, HtmlTok.isDigit c = true → U.isDigit c.toNat = true
  rbrace : U.isLetter 0x7d = false ∧ U.isDigit 0x7d = false

/-! ## byte facts -/

theorem identByte_lt (c : UInt8) (h : identByte c = true) : c < 0x80 := by
  have := allBytes_spec (p := fun c => !identByte c || decide (c < 0x80)) (by decide +kernel) c
  simpa [h] using this

theorem identStart_byte (c : UInt8) (h : identStart c = true) : identByte c = true := by
  have := allBytes_spec (p := fun c => !identStart c || identByte c) (by decide +kernel) c
  simpa [h] using this

/-- an identifier byte or `}` is not the first byte of an operator -/
theorem plainOp_none (c : UInt8) (h : (identByte c || c == 0x7d) = true) (c1 c2 : Option UInt8) :
    plainOp c c1 c2 = none := by
  have hall := allBytes_spec (p := fun c => !(identByte c || c == 0x7d) || opTable.all (fun e => e.c != c))
    (by decide +kernel) c
  rw [h] at hall
  simp only [Bool.not_true, Bool.false_or, List.all_eq_true] at hall
  unfold plainOp
  rw [List.find?_eq_none.mpr]
  · rfl
  · intro e he
    have := hall e he
    simp only [bne_iff_ne, ne_eq] at this
    simp [OpEntry.matches, this]

theorem identStart_spec (c : UInt8) (h : identStart c = true) :
    c ≠ 0x22 ∧ c ≠ 0x60 ∧ c ≠ 0x27 ∧ c ≠ 0x2e ∧ c ≠ 0x2f ∧ c ≠ 0x25 ∧ c ≠ 0x7b ∧
    c ≠ 0x7d ∧ c ≠ 0x20 ∧ c ≠ 0x09 ∧ c ≠ 0x0d ∧ c ≠ 0x0a ∧ c ≠ 0x00 := by
  have := allBytes_spec (p := fun c => !identStart c ||
    (!(c == 0x22) && !(c == 0x60) && !(c == 0x27) && !(c == 0x2e) &&
     !(c == 0x2f) && !(c == 0x25) && !(c == 0x7b) && !(c == 0x7d) && !(c == 0x20 || c == 0x09 || c == 0x0d) &&
     !(c == 0x0a) && !(c == 0x00))) (by decide +kernel) c
  simpa [h, and_assoc] using this

theorem identStart_not_digit (c : UInt8) (h : identStart c = true) : ¬ (0x30 ≤ c ∧ c ≤ 0x39) := by
  have h0 := allBytes_spec (p := fun c => !identStart c || !(decide (0x30 ≤ c) && decide (c ≤ 0x39)))
    (by decide +kernel) c
  intro ⟨h1, h2⟩
  have : (decide (0x30 ≤ c) && decide (c ≤ 0x39)) = true := by simp [h1, h2]
  simp only [h, this] at h0
  cases h0

theorem decodeRune_ascii {text : Bytes} {i : Nat} {c : UInt8} (hc : text[i]? = some c) (hlt : c < 0x80) :
    decodeRune (text.drop i) = (c.toNat, 1) := by
  have hi : i < text.length := lt_of_getElem?_eq_some hc
  rw [List.drop_eq_getElem_cons hi]
  have : text[i] = c := by
    rw [List.getElem?_eq_getElem hi] at hc; exact Option.some.inj hc
  rw [this]
  simp [decodeRune, hlt]

/-! ## the identifier loop -/

theorem identLoop_ident {E : Env} {st : St} (hU : AsciiU E.U) (q : Nat)
    (hend : E.text[st.base + q]? = some 0x7d) :
    ∀ fuel p cols, p ≤ q → q - p < fuel →
      (∀ i, p ≤ i → i < q → ∃ c, E.text[st.base + i]? = some c ∧ identByte c = true) →
      ∃ cols', identLoop E st fuel p cols = (q, cols') := by
  intro fuel
  induction fuel with
  | zero => intro p cols _ h; omega
  | succ fuel ih =>
    intro p cols hpq hf hb
    have hqlen : st.base + q < E.text.length := lt_of_getElem?_eq_some hend
    have hlt : p < srcLen E st := by unfold srcLen; omega
    unfold identLoop
    rw [if_pos hlt]
    by_cases hp : p = q
    · subst hp
      rw [decodeRune_ascii hend (by decide)]
      have h7d : (0x7d : UInt8).toNat = 0x7d := by decide
      simp only [h7d, hU.rbrace.1, hU.rbrace.2]
      exact ⟨cols, by simp⟩
    · obtain ⟨c, hc, hib⟩ := hb p (Nat.le_refl _) (by omega)
      rw [decodeRune_ascii hc (identByte_lt c hib)]
      have hcont : ¬ (c.toNat ≠ 0x5f ∧ (!E.U.isLetter c.toNat) = true ∧ (!E.U.isDigit c.toNat) = true) := by
        intro ⟨h1, h2, h3⟩
        simp only [identByte, Bool.or_eq_true, beq_iff_eq] at hib
        rcases hib with (hl | hd) | h5
        · rw [hU.letter c hl] at h2; cases h2
        · rw [hU.digit c hd] at h3; cases h3
        · subst h5; exact h1 (by decide)
      simp only [if_neg hcont]
      exact ih (p + 1) (cols + 1) (by omega) (by omega) (fun i h1 h2 => hb i (by omega) h2)

/-! ## the identifier token -/

/-- neither keyword table nor the identifier type is the `{{` type -/
theorem identType_ne (E : Env) (id : Bytes) : identType E id ≠ tokenLeftBraces := by
  have h1 : goKeywords.all (fun kv => kv.2 != tokenLeftBraces) = true := by decide
  have h2 : templateKeywords.all (fun kv => kv.2 != tokenLeftBraces) = true := by decide
  have key : ∀ tbl : List (Bytes × Nat), tbl.all (fun kv => kv.2 != tokenLeftBraces) = true →
      ∀ t, lookupKw tbl id = some t → t ≠ tokenLeftBraces := by
    intro tbl h t ht
    unfold lookupKw at ht
    cases hf : tbl.find? (fun kv => kv.1 == id) with
    | none => rw [hf] at ht; cases ht
    | some kv =>
      rw [hf] at ht
      simp only [Option.map_some, Option.some.injEq] at ht
      subst ht
      have hm := List.mem_of_find?_eq_some hf
      have := List.all_eq_true.mp h kv hm
      simpa using this
  unfold identType
  split
  · rename_i t ht; exact key _ h1 t ht
  · split
    · cases h : lookupKw templateKeywords id with
      | none => decide
      | some t => exact key _ h2 t h
    · decide

theorem lexIdent_ident {E : Env} {st : St} (hU : AsciiU E.U) (hb : st.base ≤ E.text.length) {q : Nat}
    (hq : 1 ≤ q) (hbytes : ∀ i, 1 ≤ i → i < q → ∃ c, E.text[st.base + i]? = some c ∧ identByte c = true)
    (hend : E.text[st.base + q]? = some 0x7d) :
    ∃ st' t cols typ txt, lexIdent E st 1 = .ok (addCol st' cols, typ, txt) ∧ st'.base = st.base + q ∧
      st'.toks = t :: st.toks ∧ t.typ ≠ tokenLeftBraces := by
  have hqlen : st.base + q < E.text.length := lt_of_getElem?_eq_some hend
  obtain ⟨cols', hil⟩ := identLoop_ident hU q hend (srcLen E st + 1) 1 1 hq (by unfold srcLen; omega) hbytes
  unfold lexIdent
  rw [hil]
  simp only []
  obtain ⟨st', t, h, _, hbase, _, _, _, htoks, htyp, _⟩ := emit_val (E := E) (st := st)
    (typ := identType E ((E.text.drop st.base).take q)) (n := q) (by unfold srcLen; omega) hb
  simp only [h, bind_ok, pure_eq_ok]
  exact ⟨st', t, cols', _, _, rfl, hbase, htoks, by rw [htyp]; exact identType_ne E _⟩

/-! ## `lexCode` on `identifier }}` -/

theorem codeStep_ident {E : Env} {st : St} {loc : CodeLoc} (hU : AsciiU E.U) (hb : st.base ≤ E.text.length)
    {q : Nat} (hq : 1 ≤ q) {c : UInt8} (h0 : E.text[st.base]? = some c) (hc : identStart c = true)
    (hbytes : ∀ i, 1 ≤ i → i < q → ∃ c, E.text[st.base + i]? = some c ∧ identByte c = true)
    (hend : E.text[st.base + q]? = some 0x7d) :
    ∃ st2 loc2 t, codeStep E tokenRightBraces st loc = .ok (.cont st2 loc2) ∧ loc2.unclosed = loc.unclosed ∧
      st2.base = st.base + q ∧ st2.toks = t :: st.toks ∧ t.typ ≠ tokenLeftBraces := by
  obtain ⟨st', t, cols, typ, txt, hlex, hbase, htoks, htyp⟩ := lexIdent_ident hU hb hq hbytes hend
  obtain ⟨n1, n2, n3, n4, n5, n6, n7, n8, n9, n10, n11, n12, n13⟩ := identStart_spec c hc
  have nd := identStart_not_digit c hc
  have nsp : ¬ (c = 0x20 ∨ c = 0x09 ∨ c = 0x0d) := by
    intro h; rcases h with h | h | h <;> contradiction
  have hsrc : srcAt E st 0 = .ok c := srcAt_eq_peek (by unfold peek; exact h0)
  have hib := identStart_byte c hc
  have hcond : c = 0x5f ∨ (c < 0x80 ∧ E.U.isLetter c.toNat = true) := by
    simp only [identStart, Bool.or_eq_true, beq_iff_eq] at hc
    rcases hc with hl | h5
    · exact Or.inr ⟨identByte_lt c hib, hU.letter c hl⟩
    · exact Or.inl h5
  have hne : ¬ (tokenRightBraces = tokenEndStatement) := by decide
  unfold codeStep
  simp only [hsrc, bind_ok, plainOp_none c (by simp [hib]), if_neg n1, if_neg n2, if_neg n3, if_neg n4, if_neg nd,
    if_neg n5, if_neg n6, if_neg n7, if_neg n8, if_neg nsp, if_neg n12, if_neg n13]
  unfold codeIdent
  simp only [if_pos hcond, pure_eq_ok, bind_ok, hlex, if_neg hne]
  exact ⟨_, _, t, rfl, rfl, hbase, htoks, htyp⟩

theorem codeStep_close {E : Env} {st : St} {loc : CodeLoc} (h0 : E.text[st.base]? = some 0x7d)
    (h1 : E.text[st.base + 1]? = some 0x7d) (hu : loc.unclosed = 0) :
    codeStep E tokenRightBraces st loc = .ok (.ret st none) := by
  have hsrc : srcAt E st 0 = .ok 0x7d := srcAt_eq_peek (by unfold peek; exact h0)
  have hp1 : peek E st 1 = some 0x7d := by unfold peek; exact h1
  unfold codeStep
  simp only [hsrc, bind_ok, plainOp_none 0x7d (by decide), hp1]
  simp [hu]

theorem lexCode_ident {E : Env} {st : St} (hU : AsciiU E.U) (hb : st.base ≤ E.text.length)
    {q : Nat} (hq : 1 ≤ q) {c : UInt8} (h0 : E.text[st.base]? = some c) (hc : identStart c = true)
    (hbytes : ∀ i, 1 ≤ i → i < q → ∃ c, E.text[st.base + i]? = some c ∧ identByte c = true)
    (hend : E.text[st.base + q]? = some 0x7d) (hend1 : E.text[st.base + q + 1]? = some 0x7d) :
    ∃ st2 t, lexCode E tokenRightBraces st = .ok (st2, none) ∧ st2.base = st.base + q ∧
      st2.toks = t :: st.toks ∧ t.typ ≠ tokenLeftBraces := by
  have hlen : st.base + q + 1 < E.text.length := lt_of_getElem?_eq_some hend1
  have hne : ¬ (srcLen E st = 0) := by unfold srcLen; omega
  unfold lexCode
  rw [if_neg hne]
  simp only []
  generalize hloc : CodeLoc.mk (st.totals + 1) false 0 [] false 0 = loc
  have hu0 : loc.unclosed = 0 := by rw [← hloc]
  obtain ⟨st2, loc2, t, hs1, hu, hbase, htoks, htyp⟩ :=
    codeStep_ident (loc := loc) hU hb hq h0 hc hbytes hend
  have hs2 : codeStep E tokenRightBraces st2 loc2 = .ok (.ret st2 none) :=
    codeStep_close (by rw [hbase]; exact hend) (by rw [hbase]; exact hend1) (by rw [hu, hu0])
  have hpos1 : srcLen E st > 0 := by omega
  have hpos2 : srcLen E st2 > 0 := by unfold srcLen; rw [hbase]; omega
  have hloop : codeLoop E tokenRightBraces (srcLen E st + 2) st loc = .ok (.ret st2 none) := by
    show codeLoop E tokenRightBraces ((srcLen E st + 1) + 1) st loc = _
    rw [codeLoop]
    simp only [if_pos hpos1, hs1, bind_ok]
    rw [codeLoop]
    simp only [if_pos hpos2, hs2, bind_ok, pure_eq_ok]
  rw [hloop]
  simp only [bind_ok, pure_eq_ok]
  exact ⟨st2, t, rfl, hbase, htoks, htyp⟩

/-- **The extent of `lexShow` on `{{identifier}}`.** -/
theorem lexShow_ident {E : Env} {st1 : St} (hU : AsciiU E.U) (hb : st1.base ≤ E.text.length) {e : Nat}
    (hN : IdentShow E.text st1.base e) :
    ∃ st2 lb idt rb, lexShow E st1 = .ok (st2, none) ∧ st2.base = e ∧
      st2.toks = rb :: idt :: lb :: st1.toks ∧ lb.typ = tokenLeftBraces ∧ lb.ctx = st1.ctx ∧
      lb.start = ((st1.base : Nat) : Int) ∧ idt.typ ≠ tokenLeftBraces ∧ rb.typ = tokenRightBraces := by
  obtain ⟨hle, ha0, ha1, ⟨c, hc0, hcs⟩, hby, he2, he1⟩ := hN
  have hlen : e - 1 < E.text.length := lt_of_getElem?_eq_some he1
  obtain ⟨stA, lb, hA, eA, bA, cfA, _, _, tkA, tyA, cxA, sttA⟩ := emit_val (E := E) (st := st1)
    (typ := tokenLeftBraces) (n := 2) (by unfold srcLen; omega) hb
  have hbA : (addCol stA 2).base = st1.base + 2 := bA
  obtain ⟨st3, idt, hcode, b3, tk3, ty3⟩ := lexCode_ident (E := E) (st := addCol stA 2) (q := e - st1.base - 4) (c := c)
    hU eA.le_len (by omega) (by rw [hbA]; exact hc0) hcs
    (by intro i h1 h2; rw [hbA]; exact hby _ (by omega) (by omega))
    (by rw [hbA]; rw [show st1.base + 2 + (e - st1.base - 4) = e - 2 by omega]; exact he2)
    (by rw [hbA]; rw [show st1.base + 2 + (e - st1.base - 4) + 1 = e - 1 by omega]; exact he1)
  have hb3 : st3.base = e - 2 := by rw [b3, hbA]; omega
  obtain ⟨st4, rb, hB, _, b4, _, _, _, tk4, ty4, _⟩ := emit_val (E := E) (st := st3)
    (typ := tokenRightBraces) (n := 2) (by unfold srcLen; omega) (by omega)
  refine ⟨addCol st4 2, lb, idt, rb, ?_, ?_, ?_, tyA, ?_, sttA (by omega), ty3, ty4⟩
  · simp only [lexShow, lexBlock, emitAdv, hA, bind_ok, pure_eq_ok, hcode, hB]
  · show st4.base = e; rw [b4, hb3]; omega
  · show st4.toks = _; rw [tk4, tk3]; show rb :: idt :: stA.toks = _; rw [tkA]
  · rw [cxA]; simp [tokenLeftBraces, tokenText]

theorem IdentShow.neutral {text : Bytes} {a e : Nat} (h : IdentShow text a e) : NeutralShow text a e := by
  obtain ⟨hle, ha0, ha1, _, hby, he2, he1⟩ := h
  refine ⟨by omega, ha0, ha1, he2, he1, ?_⟩
  intro i h1 h2
  obtain ⟨c, hc, hib⟩ := hby i h1 h2
  refine ⟨c, hc, ?_⟩
  have := allBytes_spec (p := fun c => !identByte c || neutralByte c) (by decide +kernel) c
  simpa [hib] using this

end ScriggoV.LexCtx
