import ScriggoV.Lemmas.EscapeHtml
import ScriggoV.Lemmas.EscapeUrl
import ScriggoV.Model.URLRender
/-! The URL attribute pipeline as a browser undoes it: the HTML tokenizer decodes the character
references of the attribute value, then the components of the URL are percent-decoded.
`Steps` is the compositional form of "the character-reference decoder turns this part of the
input into that, whatever follows". -/
namespace ScriggoV.URLRender
open ScriggoV ScriggoV.Decode ScriggoV.Escape

/-- `k` decoder steps turn the front `b` of any input into `val`, whatever follows -/
def Steps (named : Named) (b val : Bytes) (k : Nat) : Prop :=
  ∀ (t : Bytes) (n : Nat),
    decodeF (htmlStep named) (k + n) (b ++ t) = (decodeF (htmlStep named) n t).map (val ++ ·)

theorem steps_nil (named : Named) : Steps named [] [] 0 := by
  intro t n
  cases h : decodeF (htmlStep named) n t <;> simp [h]

theorem steps_append {named : Named} {b1 v1 b2 v2 : Bytes} {k1 k2 : Nat}
    (h1 : Steps named b1 v1 k1) (h2 : Steps named b2 v2 k2) :
    Steps named (b1 ++ b2) (v1 ++ v2) (k1 + k2) := by
  intro t n
  rw [List.append_assoc, Nat.add_assoc, h1 (b2 ++ t) (k2 + n), h2 t n]
  cases decodeF (htmlStep named) n t <;> simp

/-- one step -/
theorem steps_one (named : Named) (x out : Bytes) (hx : x ≠ [])
    (h : ∀ t, htmlStep named (x ++ t) = some (out, t)) : Steps named x out 1 := by
  intro t n
  have hne : x ++ t ≠ [] := by
    intro e
    exact hx (List.append_eq_nil_iff.mp e).1
  rw [Nat.add_comm 1 n, decodeF_step _ n _ _ _ hne (h t)]

theorem steps_byte (named : Named) (c : UInt8) (hc : c ≠ 0x26) : Steps named [c] [c] 1 := by
  apply steps_one named [c] [c] (by simp)
  intro t
  have : (c == 0x26) = false := by simpa using hc
  simp [htmlStep, this]

/-- text without `&` is copied -/
theorem steps_noAmp (named : Named) (b : Bytes) (h : ∀ c ∈ b, c ≠ 0x26) :
    Steps named b b b.length := by
  induction b with
  | nil => exact steps_nil named
  | cons c rest ih =>
    have h1 := steps_byte named c (h c (by simp))
    have h2 := ih (fun d hd => h d (by simp [hd]))
    have := steps_append h1 h2
    simpa [Nat.add_comm] using this

/-- `&amp;` is one step and gives `&`, whatever follows -/
theorem steps_amp (named : Named) (hstd : Named.Std named) : Steps named ampEntity [0x26] 1 := by
  apply steps_one named ampEntity [0x26] (by simp [ampEntity])
  intro t
  exact htmlStep_refOk named hstd 0x26 ampEntity (by decide) t

/-- with at most one step per byte, the whole input decodes to `val` -/
theorem steps_decode (named : Named) (b val : Bytes) (k : Nat) (h : Steps named b val k)
    (hk : k ≤ b.length) : htmlDecode named b = val := by
  unfold htmlDecode htmlDecodeO decodeAll
  obtain ⟨n, hn⟩ : ∃ n, b.length + 1 = k + n := ⟨b.length + 1 - k, by omega⟩
  have := h [] n
  rw [List.append_nil] at this
  rw [hn, this]
  cases n <;> simp [decodeF]

/-! ### what `queryEscape` writes contains nothing an HTML or URL parser reacts to -/

/-- a byte of the alphabet: `%`, a hex digit or an unreserved character -/
def alphabetByte (c : UInt8) : Bool := c == 0x25 || isUnreserved c || (hexDig? c).isSome

/-- not a delimiter of HTML attribute values, character references, URLs, queries or srcsets -/
def urlInert (c : UInt8) : Bool :=
  c != 0x26 && c != 0x3B && c != 0x23 && c != 0x3F && c != 0x3D && c != 0x2B && c != 0x2F &&
  c != 0x2C && c != 0x20 && c != 0x22 && c != 0x27 && c != 0x3C && c != 0x3E && c != 0x60 &&
  c != 0x09 && c != 0x0A && c != 0x0C && c != 0x0D && c != 0x00

theorem alphabetByte_inert : ∀ c, (!alphabetByte c || urlInert c) = true :=
  allBytes_spec (by decide +kernel)

theorem pctAlphabet_bytes : ∀ (s : Bytes), pctAlphabet s = true → ∀ c ∈ s, alphabetByte c = true := by
  intro s
  induction s using pctAlphabet.induct with
  | case1 => intro _ c hc; cases hc
  | case2 c h25 h1 h2 s' ih =>
    intro h d hd
    unfold pctAlphabet at h
    simp only [h25, if_true, Bool.and_eq_true] at h
    obtain ⟨⟨ha, hb⟩, hs⟩ := h
    simp only [List.mem_cons] at hd
    rcases hd with rfl | rfl | rfl | hd
    · simp [alphabetByte, h25]
    · simp [alphabetByte, ha]
    · simp [alphabetByte, hb]
    · exact ih hs d hd
  | case3 c s h25 hno =>
    intro h
    unfold pctAlphabet at h
    simp only [h25, if_true] at h
    first
      | cases h
      | (split at h
         · exact absurd rfl (hno _ _ _)
         · cases h)
  | case4 c s h25 ih =>
    intro h d hd
    unfold pctAlphabet at h
    simp only [h25, Bool.false_eq_true, if_false, Bool.and_eq_true] at h
    simp only [List.mem_cons] at hd
    rcases hd with rfl | hd
    · simp [alphabetByte, h.1]
    · exact ih h.2 d hd

theorem queryEscapeOut_inert (v : Bytes) : ∀ c ∈ queryEscapeOut v, urlInert c = true := by
  intro c hc
  have h1 := pctAlphabet_bytes _ (query_alphabet_out v) c hc
  have h2 := alphabetByte_inert c
  simpa [h1] using h2

theorem queryEscapeOut_noAmp (v : Bytes) : ∀ c ∈ queryEscapeOut v, c ≠ 0x26 := by
  intro c hc e
  have := queryEscapeOut_inert v c hc
  subst e
  simp [urlInert] at this

/-! ### the pieces of a URL attribute value -/

/-- `html.UnescapeString (htmlEscape v) = v`: what `showInURL` hands to the escapers -/
theorem shownString_eq (v : Bytes) : shownString v = v := by
  unfold shownString htmlDecode htmlEscapeOut htmlEscapeChunks
  rw [html_roundtrip_of_caseFact _ htmlFact_all stdNamed ⟨fun _ => rfl, fun _ => rfl, fun _ => rfl⟩ v]
  rfl

theorem piece_steps (named : Named) (hstd : Named.Std named) (p : Piece) (hok : p.ok = true) :
    ∃ k, Steps named p.src p.val k ∧ k ≤ p.src.length := by
  cases p with
  | plain b =>
    refine ⟨b.length, steps_noAmp named b ?_, Nat.le_refl _⟩
    intro c hc e
    subst e
    simp [Piece.ok, hc] at hok
  | amp => exact ⟨1, steps_amp named hstd, by simp [Piece.src, ampEntity]⟩
  | value v =>
    have hv : shownString v = v := shownString_eq v
    refine ⟨(queryEscapeOut v).length, ?_, by simp [Piece.src, hv]⟩
    simpa [Piece.src, Piece.val, hv] using steps_noAmp named (queryEscapeOut v) (queryEscapeOut_noAmp v)

theorem pieces_steps (named : Named) (hstd : Named.Std named) (ps : List Piece)
    (hok : ∀ p ∈ ps, p.ok = true) :
    ∃ k, Steps named (ps.flatMap Piece.src) (ps.flatMap Piece.val) k ∧
      k ≤ (ps.flatMap Piece.src).length := by
  induction ps with
  | nil => exact ⟨0, steps_nil named, Nat.zero_le _⟩
  | cons p rest ih =>
    obtain ⟨k1, h1, l1⟩ := piece_steps named hstd p (hok p (by simp))
    obtain ⟨k2, h2, l2⟩ := ih (fun q hq => hok q (by simp [hq]))
    refine ⟨k1 + k2, ?_, ?_⟩
    · simpa [List.flatMap_cons] using steps_append h1 h2
    · simp only [List.flatMap_cons, List.length_append]; omega

end ScriggoV.URLRender
