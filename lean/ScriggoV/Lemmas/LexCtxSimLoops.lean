import ScriggoV.Lemmas.LexCtxSimBasic
/-! # C06 layer 2: the inner loops of the lexer (`scanTag`, `scanAttribute`) on class `D`

Each loop is characterised against the reference run `rs`: as long as the reference stays out of
`bad` up to the hole at `n`, the loop advances one byte at a time, never passes `n`, and the
reference state at its result is known. Core Lean only. -/
namespace ScriggoV.LexCtx
open ScriggoV ScriggoV.Lexer ScriggoV.Gen.LexTables ScriggoV.HtmlTok

/-! ## slices and lower-casing -/

theorem take_drop_succ {text : Bytes} {a p : Nat} {c : UInt8} (hap : a ≤ p) (hc : text[p]? = some c) :
    (text.take (p + 1)).drop a = (text.take p).drop a ++ [c] := by
  have hlen : p < text.length := (List.getElem?_eq_some_iff.mp hc).1
  rw [List.take_add_one, hc]
  simp only [Option.toList_some]
  rw [List.drop_append_of_le_length (by simp; omega)]

theorem take_drop_self (text : Bytes) (a : Nat) : (text.take a).drop a = [] := by
  simp

theorem lower_eq (c : UInt8) : (if 0x41 ≤ c ∧ c ≤ 0x5A then c + 32 else c) = lower c := by
  simp only [lower, HtmlTok.isUpper, Bool.and_eq_true, decide_eq_true_eq]

theorem bytesToLower_ascii (U : Unicode) (l : Bytes) (h : ∀ c ∈ l, c < 0x80) :
    bytesToLower U l = l.map lower := by
  have : l.all (· < 0x80) = true := by simpa [List.all_eq_true] using h
  simp only [bytesToLower, this, if_true]
  apply List.map_congr_left
  intro c _
  exact lower_eq c

theorem tagNameByte_lt (c : UInt8) (h : tagNameByte c = true) : c < 0x80 := by
  have := allBytes_spec (p := fun c => !tagNameByte c || decide (c < 0x80)) (by decide +kernel) c
  simpa [h] using this

theorem attrNameBad_lt (c : UInt8) (h : attrNameBad c = false) : c < 0x80 := by
  have := allBytes_spec (p := fun c => attrNameBad c || decide (c < 0x80)) (by decide +kernel) c
  simpa [h] using this

theorem brace_not_tagNameByte : tagNameByte 0x7b = false := by decide

theorem Hole.lt_of_ne {text : Bytes} {lo n : Nat} (H : Hole text lo n) {i : Nat} (hi : i ≤ n) {c : UInt8}
    (hc : text[i]? = some c) (hne : c ≠ 0x7b) : i < n := by
  rcases Nat.lt_or_ge i n with h | h
  · exact h
  · have : i = n := by omega
    subst this
    rw [H.at0] at hc
    exact absurd (Option.some.inj hc).symm hne

/-! ## scanTag -/

theorem scanTagLoop_sim {text : Bytes} {lo n : Nat} (H : Hole text lo n) (a : Nat) :
    ∀ fuel p, a ≤ p → p ≤ n → n - p < fuel →
      rs text p = .tagName (((text.take p).drop a).map lower) →
      (∀ c ∈ (text.take p).drop a, c < 0x80) →
      p ≤ scanTagLoopP text fuel p ∧ scanTagLoopP text fuel p ≤ n ∧
      rs text (scanTagLoopP text fuel p) =
        .tagName (((text.take (scanTagLoopP text fuel p)).drop a).map lower) ∧
      (∀ c ∈ (text.take (scanTagLoopP text fuel p)).drop a, c < 0x80) ∧
      (∀ c, text[scanTagLoopP text fuel p]? = some c → tagNameByte c = false) := by
  intro fuel
  induction fuel with
  | zero => intro p _ _ hf; omega
  | succ fuel ih =>
    intro p hap hpn hf hr hlt
    obtain ⟨c, hc⟩ := H.get hpn
    simp only [scanTagLoopP, hc]
    by_cases hstop : c = 0x3e ∨ c = 0x2f ∨ isASCIISpace c = true ∨ c = 0x7b
    · rw [if_pos hstop]
      refine ⟨Nat.le_refl _, hpn, hr, hlt, ?_⟩
      intro c' hc'
      rw [hc] at hc'; cases hc'
      rw [space_ws] at hstop
      rcases hstop with rfl | rfl | h | rfl
      · decide
      · decide
      · have := allBytes_spec (p := fun c => !ws c || !tagNameByte c) (by decide +kernel) c
        simpa [h] using this
      · decide
    · rw [if_neg hstop]
      have hpn' : p < n := H.lt_of_ne hpn hc (fun h => hstop (Or.inr (Or.inr (Or.inr h))))
      have hgood := H.step hpn' hc
      rw [hr] at hgood
      simp only [not_or] at hstop
      obtain ⟨h1, h2, h3, h4⟩ := hstop
      rw [space_ws] at h3
      have hb : tagNameByte c = true := by
        by_cases hb : tagNameByte c = true
        · exact hb
        · exfalso; apply hgood; simp [rstep, h1, h2, h3, hb]
      have hr' : rs text (p + 1) = .tagName (((text.take (p + 1)).drop a).map lower) := by
        rw [rs_succ hc, hr, take_drop_succ hap hc]
        simp [rstep, h3, h2, h1, hb]
      have hlt' : ∀ c ∈ (text.take (p + 1)).drop a, c < 0x80 := by
        rw [take_drop_succ hap hc]
        intro c' hc'
        rcases List.mem_append.mp hc' with h | h
        · exact hlt _ h
        · simp at h; subst h; exact tagNameByte_lt _ hb
      rw [if_pos (tagNameByte_lt _ hb)]
      obtain ⟨i1, i2, i3, i4, i5⟩ := ih (p + 1) (by omega) (by omega) (by omega) hr' hlt'
      exact ⟨by omega, i2, i3, i4, i5⟩

/-! ## scanAttribute: the name loop -/

theorem attrNameLoop_sim {text : Bytes} {lo n : Nat} (H : Hole text lo n) (U : Unicode) (tag : Bytes) (a : Nat) :
    ∀ fuel p, a ≤ p → p ≤ n → n - p < fuel →
      rs text p = .attrName tag (((text.take p).drop a).map lower) →
      (∀ c ∈ (text.take p).drop a, c < 0x80) →
      ∃ b q, attrNameLoopP U text fuel p = (b, q) ∧ p ≤ q ∧ q ≤ n ∧
        rs text q = .attrName tag (((text.take q).drop a).map lower) ∧
        (∀ c ∈ (text.take q).drop a, c < 0x80) ∧
        (b = false → q < n ∧ ∃ c, text[q]? = some c ∧ (c = 0x3d ∨ ws c = true)) ∧
        (b = true → ∀ c, text[q]? = some c → c = 0x3e ∨ c = 0x2f ∨ c = 0x7b) := by
  intro fuel
  induction fuel with
  | zero => intro p _ _ hf; omega
  | succ fuel ih =>
    intro p hap hpn hf hr hlt
    obtain ⟨c, hc⟩ := H.get hpn
    simp only [attrNameLoopP, hc]
    by_cases h1 : c = 0x3d ∨ isASCIISpace c = true
    · rw [if_pos h1]
      have hne : c ≠ 0x7b := by
        rcases h1 with rfl | h
        · decide
        · intro h'; subst h'; simp [isASCIISpace] at h
      refine ⟨false, p, rfl, Nat.le_refl _, hpn, hr, hlt, ?_, by simp⟩
      intro _
      rw [space_ws] at h1
      exact ⟨H.lt_of_ne hpn hc hne, c, hc, h1⟩
    · rw [if_neg h1]
      simp only [not_or] at h1
      obtain ⟨h1a, h1b⟩ := h1
      rw [space_ws] at h1b
      by_cases h2 : c ≤ 0x1f ∨ c = 0x22 ∨ c = 0x27 ∨ c = 0x3e ∨ c = 0x2f ∨ c = 0x7f
      · rw [if_pos h2]
        refine ⟨true, p, rfl, Nat.le_refl _, hpn, hr, hlt, by simp, ?_⟩
        intro _ c' hc'
        rw [hc] at hc'; cases hc'
        by_cases h3 : c = 0x3e
        · exact Or.inl h3
        by_cases h4 : c = 0x2f
        · exact Or.inr (Or.inl h4)
        exfalso
        have hne : c ≠ 0x7b := by
          intro h'; subst h'; revert h2; decide
        have hgood := H.step (H.lt_of_ne hpn hc hne) hc
        rw [hr] at hgood
        apply hgood
        have hbad : attrNameBad c = true := by
          rcases h2 with h | h | h | h | h | h <;> simp_all [attrNameBad]
        simp [rstep, h1a, h1b, h3, h4, hbad]
      · rw [if_neg h2]
        by_cases hpe : p = n
        · subst hpe
          rw [H.at0] at hc; cases hc
          obtain ⟨d, hd, hdd⟩ := H.at1
          have hge : ¬ ((0x7b : UInt8) ≥ 0x80) := by decide
          rw [if_neg hge]
          simp only [hd, Option.some.injEq, true_and]
          rw [if_pos hdd]
          refine ⟨true, p, rfl, Nat.le_refl _, Nat.le_refl _, hr, hlt, by simp, ?_⟩
          intro _ c' hc'
          rw [H.at0] at hc'; cases hc'; simp
        · have hpn' : p < n := by omega
          have hgood := H.step hpn' hc
          rw [hr] at hgood
          have h3 : c ≠ 0x3e := fun h => h2 (by simp [h])
          have h4 : c ≠ 0x2f := fun h => h2 (by simp [h])
          have hbad : attrNameBad c = false := by
            cases hb : attrNameBad c
            · rfl
            · exfalso; apply hgood; simp [rstep, h1a, h1b, h3, h4, hb]
          have hlt8 := attrNameBad_lt c hbad
          have hge : ¬ (c ≥ 0x80) := by simpa using hlt8
          have h7 : c ≠ 0x7b := by intro h; subst h; revert hbad; decide
          rw [if_neg hge]
          simp only [h7, false_and, if_false]
          have hr' : rs text (p + 1) = .attrName tag (((text.take (p + 1)).drop a).map lower) := by
            rw [rs_succ hc, hr, take_drop_succ hap hc]
            simp [rstep, h1a, h1b, h3, h4, hbad]
          have hlt' : ∀ c ∈ (text.take (p + 1)).drop a, c < 0x80 := by
            rw [take_drop_succ hap hc]
            intro c' hc'
            rcases List.mem_append.mp hc' with h | h
            · exact hlt _ h
            · simp at h; subst h; exact hlt8
          obtain ⟨b, q, e, i1, i2, i3⟩ := ih (p + 1) (by omega) (by omega) (by omega) hr' hlt'
          exact ⟨b, q, e, by omega, i2, i3⟩

/-! ## scanAttribute: the `=` loop and the loop after `=` -/

theorem brace_not_ws : ws 0x7b = false := by decide

theorem attrEqLoop_sim {text : Bytes} {lo n : Nat} (H : Hole text lo n) (tag nm : Bytes) :
    ∀ fuel p, p ≤ n → n - p < fuel →
      (rs text p = .attrName tag nm ∨ rs text p = .afterAttrName tag nm) →
      ∃ b r, attrEqLoopP text fuel p = (b, r) ∧ p ≤ r ∧ r ≤ n ∧
        (b = false → rs text r = .beforeAttrValue tag nm ∧ attrDone tag nm = true ∧ p < r) ∧
        (b = true → (r = p ∨ rs text r = .afterAttrName tag nm) ∧
          ∀ c, text[r]? = some c → c ≠ 0x3d ∧ ws c = false) := by
  intro fuel
  induction fuel with
  | zero => intro p _ hf; omega
  | succ fuel ih =>
    intro p hpn hf hr
    obtain ⟨c, hc⟩ := H.get hpn
    simp only [attrEqLoopP, hc]
    by_cases h1 : c = 0x3d
    · rw [if_pos h1]
      subst h1
      have hpn' : p < n := H.lt_of_ne hpn hc (by decide)
      have hgood := H.step hpn' hc
      refine ⟨false, p + 1, rfl, by omega, by omega, ?_, by simp⟩
      intro _
      rw [rs_succ hc]
      rcases hr with hr | hr <;> rw [hr] at hgood ⊢ <;>
        cases hd : attrDone tag nm <;> simp [rstep, afterName, ws, hd] at hgood ⊢
    · rw [if_neg h1]
      by_cases h2 : isASCIISpace c = true
      · rw [if_pos h2]
        rw [space_ws] at h2
        have hpn' : p < n := H.lt_of_ne hpn hc (by intro h; subst h; simp [brace_not_ws] at h2)
        have hgood := H.step hpn' hc
        have hr' : rs text (p + 1) = .afterAttrName tag nm := by
          rw [rs_succ hc]
          rcases hr with hr | hr <;> rw [hr] at hgood ⊢ <;>
            cases hd : attrDone tag nm <;> simp [rstep, afterName, h2, hd] at hgood ⊢
        obtain ⟨b, r, e, i1, i2, i3, i4⟩ := ih (p + 1) (by omega) (by omega) (Or.inr hr')
        refine ⟨b, r, e, by omega, i2, ?_, ?_⟩
        · intro hb
          obtain ⟨j1, j2, j3⟩ := i3 hb
          exact ⟨j1, j2, by omega⟩
        · intro hb
          obtain ⟨j1, j2⟩ := i4 hb
          refine ⟨?_, j2⟩
          rcases j1 with j1 | j1
          · right; rw [j1]; exact hr'
          · exact Or.inr j1
      · rw [if_neg h2]
        rw [space_ws] at h2
        refine ⟨true, p, rfl, Nat.le_refl _, hpn, by simp, ?_⟩
        intro _
        refine ⟨Or.inl rfl, ?_⟩
        intro c' hc'
        rw [hc] at hc'; cases hc'
        exact ⟨h1, by simpa using h2⟩

theorem attrQuoteLoop_sim {text : Bytes} {lo n : Nat} (H : Hole text lo n) (tag nm : Bytes) :
    ∀ fuel p, p ≤ n → n - p < fuel → rs text p = .beforeAttrValue tag nm →
      ∃ b t, attrQuoteLoopP text fuel p = (b, t) ∧ p ≤ t ∧ t ≤ n ∧
        rs text t = .beforeAttrValue tag nm ∧
        (b = true → text[t]? = some 0x3e) ∧
        (b = false → ∃ c, text[t]? = some c ∧ c ≠ 0x3e ∧ ws c = false) := by
  intro fuel
  induction fuel with
  | zero => intro p _ hf; omega
  | succ fuel ih =>
    intro p hpn hf hr
    obtain ⟨c, hc⟩ := H.get hpn
    simp only [attrQuoteLoopP, hc]
    by_cases h1 : c = 0x3e
    · rw [if_pos h1]
      subst h1
      exact ⟨true, p, rfl, Nat.le_refl _, hpn, hr, fun _ => hc, by simp⟩
    · rw [if_neg h1]
      by_cases h2 : isASCIISpace c = true
      · rw [if_pos h2]
        rw [space_ws] at h2
        have hpn' : p < n := H.lt_of_ne hpn hc (by intro h; subst h; simp [brace_not_ws] at h2)
        have hr' : rs text (p + 1) = .beforeAttrValue tag nm := by
          rw [rs_succ hc, hr]; simp [rstep, h2]
        obtain ⟨b, t, e, i1, i2⟩ := ih (p + 1) (by omega) (by omega) hr'
        exact ⟨b, t, e, by omega, i2⟩
      · rw [if_neg h2]
        rw [space_ws] at h2
        exact ⟨false, p, rfl, Nat.le_refl _, hpn, hr, by simp, fun _ => ⟨c, hc, h1, by simpa using h2⟩⟩

/-! ## scanAttribute -/

/-- a byte that starts (or continues) an attribute name of class `D` -/
def nameStart (c : UInt8) : Prop :=
  ws c = false ∧ c ≠ 0x2f ∧ c ≠ 0x3e ∧ c ≠ 0x3d ∧ attrNameBad c = false

theorem attrNameLoop_first (U : Unicode) (text : Bytes) (fuel pos : Nat) {c : UInt8}
    (hc : text[pos]? = some c) (hs : nameStart c) :
    attrNameLoopP U text (fuel + 1) pos = attrNameLoopP U text fuel (pos + 1) := by
  obtain ⟨h1, h2, h3, h4, h5⟩ := hs
  have hlt := attrNameBad_lt c h5
  have hge : ¬ (c ≥ 0x80) := by simpa using hlt
  have h7 : c ≠ 0x7b := by intro h; subst h; revert h5; decide
  have hsp : ¬ (isASCIISpace c = true) := by rw [space_ws]; simp [h1]
  have hb : ¬ (c ≤ 0x1f ∨ c = 0x22 ∨ c = 0x27 ∨ c = 0x3e ∨ c = 0x2f ∨ c = 0x7f) := by
    intro h; rcases h with h | h | h | h | h | h <;> simp_all [attrNameBad]
  simp [attrNameLoopP, hc, h4, hsp, hb, hge, h7]

theorem scanAttr_sim {text : Bytes} {lo n : Nat} (H : Hole text lo n) (U : Unicode) (tag : Bytes) {pos : Nat}
    (hpos : pos < n) {c : UInt8} (hc : text[pos]? = some c) (hs : nameStart c)
    (hr : rs text (pos + 1) = .attrName tag [lower c]) :
    ∃ attr next, scanAttributeP U text pos = (attr, next) ∧ pos < next ∧ next ≤ n ∧
      ((attr = [] ∧ TagRef text next tag (rs text next)) ∨
       (attr ≠ [] ∧ rs text next = .beforeAttrValue tag attr ∧ attrDone tag attr = true ∧
          ∃ c, text[next]? = some c ∧ c ≠ 0x3e ∧ ws c = false)) := by
  have hlen := H.lt_length
  have hslice : (text.take (pos + 1)).drop pos = [c] := by
    rw [take_drop_succ (Nat.le_refl _) hc, take_drop_self]; rfl
  have hr0 : rs text (pos + 1) = .attrName tag (((text.take (pos + 1)).drop pos).map lower) := by
    rw [hslice, hr]; rfl
  have hlt0 : ∀ c' ∈ (text.take (pos + 1)).drop pos, c' < 0x80 := by
    rw [hslice]; intro c' hc'; simp at hc'; subst hc'; exact attrNameBad_lt _ hs.2.2.2.2
  obtain ⟨b, q, e1, hq1, hq2, hrq, hltq, hbf, hbt⟩ :=
    attrNameLoop_sim H U tag pos (text.length - pos) (pos + 1) (by omega) (by omega) (by omega) hr0 hlt0
  simp only [scanAttributeP]
  rw [attrNameLoop_first U text _ pos hc hs, e1]
  cases b with
  | true =>
    refine ⟨[], q, rfl, by omega, hq2, Or.inl ⟨rfl, ?_⟩⟩
    rw [hrq]
    exact ⟨rfl, hbt rfl⟩
  | false =>
    obtain ⟨hqn, cq, hcq, hcq'⟩ := hbf rfl
    have hq3 : ¬ (q = pos ∨ q = text.length) := by omega
    simp only [hq3, if_false]
    rw [bytesToLower_ascii U _ hltq]
    generalize hnm : ((text.take q).drop pos).map lower = nm at hrq
    have hnm0 : nm ≠ [] := by
      intro h; rw [h] at hnm
      have := congrArg List.length hnm
      simp at this; omega
    obtain ⟨b2, r, e2, hr1, hr2, hf2, ht2⟩ :=
      attrEqLoop_sim H tag nm (text.length - q + 1) q hq2 (by omega) (Or.inl hrq)
    rw [e2]
    cases b2 with
    | true =>
      refine ⟨[], r, rfl, by omega, hr2, Or.inl ⟨rfl, ?_⟩⟩
      obtain ⟨j1, j2⟩ := ht2 rfl
      rcases j1 with j1 | j1
      · exfalso
        subst j1
        obtain ⟨k1, k2⟩ := j2 _ hcq
        rcases hcq' with h | h
        · exact k1 h
        · rw [h] at k2; cases k2
      · rw [j1]; exact ⟨rfl, j2⟩
    | false =>
      obtain ⟨j1, j2, j3⟩ := hf2 rfl
      obtain ⟨b3, t, e3, ht1, ht2', hrt, htt, htf⟩ :=
        attrQuoteLoop_sim H tag nm (text.length - r + 1) r hr2 (by omega) j1
      simp only [e3]
      cases b3 with
      | true =>
        refine ⟨[], t, rfl, by omega, ht2', Or.inl ⟨rfl, ?_⟩⟩
        rw [hrt]; exact ⟨rfl, htt rfl⟩
      | false =>
        have ht3 : ¬ (t = text.length) := by omega
        simp only [ht3, if_false]
        exact ⟨nm, t, rfl, by omega, ht2', Or.inr ⟨hnm0, hrt, j2, htf rfl⟩⟩

end ScriggoV.LexCtx
