import ScriggoV.Lemmas.ConstIntBits
import ScriggoV.Model.ConstEval
/-! The generated int64 fast path (`Gen/ConstInt.lean`: `fastBinary`, `fastUnary`, `fastShr`) against
the exact semantics of `Spec/GoConst.lean`, operator by operator, for all operands.  Everything goes
through `BitVec.toInt_*`. -/
namespace ScriggoV.ConstEval
open ScriggoV.Spec.GoConst ScriggoV.Gen.ConstInt

theorem toInt_bounds (x : BitVec 64) :
    -9223372036854775808 ≤ x.toInt ∧ x.toInt < 9223372036854775808 := by
  have h1 := @BitVec.toInt_lt 64 x
  have h2 := BitVec.le_toInt x
  simp at h1 h2
  omega

theorem bmod64 (z : Int) : z.bmod (2 ^ 64) =
    if z % 18446744073709551616 < 9223372036854775808 then z % 18446744073709551616
    else z % 18446744073709551616 - 18446744073709551616 := by
  rw [Int.bmod_def]; rfl

theorem bne_decide_false {p q : Prop} [Decidable p] [Decidable q] :
    (decide p != decide q) = false ↔ (p ↔ q) := by
  by_cases hp : p <;> by_cases hq : q <;> simp [hp, hq]

theorem bne_decide_true {p q : Prop} [Decidable p] [Decidable q] :
    (decide p != decide q) = true ↔ ¬ (p ↔ q) := by
  by_cases hp : p <;> by_cases hq : q <;> simp [hp, hq]

theorem fitsInt64_iff (n : Int) : fitsInt64 n = true ↔ -9223372036854775808 ≤ n ∧ n ≤ 9223372036854775807 := by
  unfold fitsInt64 minInt64 maxInt64; simp

theorem zero_toInt : (0#64 : BitVec 64).toInt = 0 := by decide

theorem fast_add (a b : BitVec 64) :
    (fitsInt64 (a.toInt + b.toInt) = true →
      fastBinary .add a b = .value (a + b) ∧ (a + b).toInt = a.toInt + b.toInt) ∧
    (fitsInt64 (a.toInt + b.toInt) = false → fastBinary .add a b = .useBig) := by
  obtain ⟨la, ha⟩ := toInt_bounds a
  obtain ⟨lb, hb⟩ := toInt_bounds b
  have hn : (a + b).toInt = _ := (BitVec.toInt_add a b).trans (bmod64 _)
  simp only [fastBinary, BitVec.slt_eq_decide, zero_toInt]
  constructor
  · intro hf
    rw [fitsInt64_iff] at hf
    have e : (a + b).toInt = a.toInt + b.toInt := by rw [hn]; split <;> omega
    refine ⟨?_, e⟩
    rw [if_neg]
    rw [Bool.not_eq_true, bne_decide_false, e]; omega
  · intro hf
    have hf' : ¬ (-9223372036854775808 ≤ a.toInt + b.toInt ∧ a.toInt + b.toInt ≤ 9223372036854775807) := by
      rw [← fitsInt64_iff]; simp [hf]
    rw [if_pos]
    rw [bne_decide_true, hn]; split <;> omega
theorem toInt_eq_zero_iff (x : BitVec 64) : x.toInt = 0 ↔ x = 0#64 := by
  rw [← zero_toInt, BitVec.toInt_inj]

theorem mul_sign (x y : Int) (hx : x ≠ 0) (hy : y ≠ 0) : (x * y < 0) ↔ ¬ ((x < 0) ↔ (y < 0)) := by
  rcases Int.lt_or_gt_of_ne hx with hx | hx <;> rcases Int.lt_or_gt_of_ne hy with hy | hy
  · have := Int.mul_pos_of_neg_of_neg hx hy; omega
  · have := Int.mul_neg_of_neg_of_pos hx hy; omega
  · have := Int.mul_neg_of_pos_of_neg hx hy; omega
  · have := Int.mul_pos hx hy; omega

/-- the sign test of the multiplication fast path, on the values -/
theorem sign_test (m x y : Int) :
    (decide (m < 0) != (decide (x < 0) != decide (y < 0))) = false ↔ ((m < 0) ↔ ¬ ((x < 0) ↔ (y < 0))) := by
  by_cases h1 : m < 0 <;> by_cases h2 : x < 0 <;> by_cases h3 : y < 0 <;> simp [h1, h2, h3]

theorem fast_mul (a b : BitVec 64) :
    (fitsInt64 (a.toInt * b.toInt) = true →
      fastBinary .mul a b = .value (a * b) ∧ (a * b).toInt = a.toInt * b.toInt) ∧
    (fitsInt64 (a.toInt * b.toInt) = false → fastBinary .mul a b = .useBig) := by
  obtain ⟨la, ha⟩ := toInt_bounds a
  obtain ⟨lb, hb⟩ := toInt_bounds b
  by_cases ha0 : a = 0#64
  · subst ha0; simp [fastBinary, fitsInt64_iff]
  by_cases hb0 : b = 0#64
  · subst hb0; simp [fastBinary, fitsInt64_iff]
  have hx : a.toInt ≠ 0 := fun h => ha0 ((toInt_eq_zero_iff a).mp h)
  have hy : b.toInt ≠ 0 := fun h => hb0 ((toInt_eq_zero_iff b).mp h)
  obtain ⟨lm, hm⟩ := toInt_bounds (a * b)
  have hk := Int.bmod_add_bdiv (a.toInt * b.toInt) (2 ^ 64)
  rw [← BitVec.toInt_mul] at hk
  have hk' : (a * b).toInt + 18446744073709551616 * (a.toInt * b.toInt).bdiv (2 ^ 64) = a.toInt * b.toInt := hk
  have hunf : fastBinary .mul a b =
      if ((decide ((a * b).toInt < 0) != (decide (a.toInt < 0) != decide (b.toInt < 0))) ||
          ((a * b).sdiv b != a)) = true then .useBig else .value (a * b) := by
    simp [fastBinary, ha0, hb0, BitVec.slt_eq_decide]
  rw [hunf]
  have hsd := BitVec.toInt_sdiv (a * b) b
  rw [bmod64] at hsd
  constructor
  · intro hf
    rw [fitsInt64_iff] at hf
    have e : (a * b).toInt = a.toInt * b.toInt := by omega
    refine ⟨?_, e⟩
    rw [if_neg]
    rw [Bool.not_eq_true, Bool.or_eq_false_iff]
    constructor
    · rw [sign_test, e]; exact mul_sign _ _ hx hy
    · have : (a * b).sdiv b = a := by
        apply BitVec.eq_of_toInt_eq
        rw [hsd, e, Int.mul_tdiv_cancel _ hy]
        split <;> omega
      simp [this]
  · intro hf
    have hf' : ¬ (-9223372036854775808 ≤ a.toInt * b.toInt ∧ a.toInt * b.toInt ≤ 9223372036854775807) := by
      rw [← fitsInt64_iff]; simp [hf]
    rw [if_pos]
    rw [Bool.or_eq_true]
    by_cases hs : (decide ((a * b).toInt < 0) != (decide (a.toInt < 0) != decide (b.toInt < 0))) = true
    · exact Or.inl hs
    · right
      rw [Bool.not_eq_true, sign_test] at hs
      simp only [bne_iff_ne, ne_eq]
      intro heq
      rw [heq] at hsd
      -- q = tdiv m y
      have hq1 := Int.mul_tdiv_add_tmod (a * b).toInt b.toInt
      have hr : ((a * b).toInt.tmod b.toInt).natAbs < b.toInt.natAbs := by
        rw [Int.natAbs_tmod]; exact Nat.mod_lt _ (by omega)
      have hqabs := Int.natAbs_tdiv_le_natAbs (a * b).toInt b.toInt
      generalize (a * b).toInt.tdiv b.toInt = q at *
      generalize (a * b).toInt.tmod b.toInt = r at *
      generalize (a.toInt * b.toInt).bdiv (2 ^ 64) = k at *
      generalize (a * b).toInt = m at *
      have hq : q = a.toInt ∨ (q = 9223372036854775808 ∧ a.toInt = -9223372036854775808) := by
        split at hsd <;> omega
      rcases hq with hq | ⟨hq, hxx⟩
      · rw [hq, Int.mul_comm] at hq1
        omega
      · rw [hq] at hq1
        have : m < 0 := by omega
        have : b.toInt < 0 := by omega
        omega

theorem fast_sub (a b : BitVec 64) :
    (fitsInt64 (a.toInt - b.toInt) = true →
      fastBinary .sub a b = .value (a - b) ∧ (a - b).toInt = a.toInt - b.toInt) ∧
    (fitsInt64 (a.toInt - b.toInt) = false → fastBinary .sub a b = .useBig) := by
  obtain ⟨la, ha⟩ := toInt_bounds a
  obtain ⟨lb, hb⟩ := toInt_bounds b
  have hn : (a - b).toInt = _ := (BitVec.toInt_sub (x := a) (y := b)).trans (bmod64 _)
  simp only [fastBinary, BitVec.slt_eq_decide, zero_toInt]
  constructor
  · intro hf
    rw [fitsInt64_iff] at hf
    have e : (a - b).toInt = a.toInt - b.toInt := by rw [hn]; split <;> omega
    refine ⟨?_, e⟩
    rw [if_neg]
    rw [Bool.not_eq_true, bne_decide_false, e]; omega
  · intro hf
    have hf' : ¬ (-9223372036854775808 ≤ a.toInt - b.toInt ∧ a.toInt - b.toInt ≤ 9223372036854775807) := by
      rw [← fitsInt64_iff]; simp [hf]
    rw [if_pos]
    rw [bne_decide_true, hn]; split <;> omega

theorem min_toInt : (BitVec.ofInt 64 (-9223372036854775808)).toInt = -9223372036854775808 := by decide
theorem negOne_toInt : (BitVec.ofInt 64 (-1)).toInt = -1 := by decide

theorem eq_min_iff (a : BitVec 64) :
    a = 9223372036854775808#64 ↔ a.toInt = -9223372036854775808 := by
  constructor
  · rintro rfl; decide
  · intro h; apply BitVec.eq_of_toInt_eq; rw [h]; decide
theorem eq_negOne_iff (a : BitVec 64) : a = 18446744073709551615#64 ↔ a.toInt = -1 := by
  constructor
  · rintro rfl; decide
  · intro h; apply BitVec.eq_of_toInt_eq; rw [h]; decide

/-- truncated division stays in the int64 range except for `MinInt64 / -1` -/
theorem tdiv_fits_iff (x y : Int) (hx : -9223372036854775808 ≤ x ∧ x < 9223372036854775808)
    (hy : -9223372036854775808 ≤ y ∧ y < 9223372036854775808) (hy0 : y ≠ 0) :
    fitsInt64 (x.tdiv y) = false ↔ (x = -9223372036854775808 ∧ y = -1) := by
  constructor
  · intro hf
    have hf' : ¬ (-9223372036854775808 ≤ x.tdiv y ∧ x.tdiv y ≤ 9223372036854775807) := by
      rw [← fitsInt64_iff]; simp [hf]
    have hq1 := Int.mul_tdiv_add_tmod x y
    have hr : (x.tmod y).natAbs < y.natAbs := by
      rw [Int.natAbs_tmod]; exact Nat.mod_lt _ (by omega)
    have hqabs := Int.natAbs_tdiv_le_natAbs x y
    generalize x.tdiv y = q at *
    generalize x.tmod y = r at *
    have hq : q = 9223372036854775808 := by omega
    rw [hq] at hq1
    omega
  · rintro ⟨rfl, rfl⟩
    decide

theorem fast_quo (a b : BitVec 64) :
    (b = 0#64 → fastBinary .quo a b = .divZero) ∧
    (b ≠ 0#64 →
      (fitsInt64 (a.toInt.tdiv b.toInt) = true →
        fastBinary .quo a b = .value (a.sdiv b) ∧ (a.sdiv b).toInt = a.toInt.tdiv b.toInt) ∧
      (fitsInt64 (a.toInt.tdiv b.toInt) = false → fastBinary .quo a b = .useBig)) := by
  constructor
  · rintro rfl; simp [fastBinary]
  intro hb0
  have hy : b.toInt ≠ 0 := fun h => hb0 ((toInt_eq_zero_iff b).mp h)
  have hiff := tdiv_fits_iff a.toInt b.toInt (toInt_bounds a) (toInt_bounds b) hy
  have hsd := BitVec.toInt_sdiv a b
  rw [bmod64] at hsd
  constructor
  · intro hf
    have hne : ¬ (a.toInt = -9223372036854775808 ∧ b.toInt = -1) := by
      rw [← hiff]; simp [hf]
    rw [fitsInt64_iff] at hf
    have e : (a.sdiv b).toInt = a.toInt.tdiv b.toInt := by rw [hsd]; split <;> omega
    refine ⟨?_, e⟩
    simp [fastBinary, hb0]
    intro h1 h2
    exact hne ⟨(eq_min_iff a).mp h1, (eq_negOne_iff b).mp h2⟩
  · intro hf
    obtain ⟨h1, h2⟩ := hiff.mp hf
    have ea := (eq_min_iff a).mpr h1
    have eb := (eq_negOne_iff b).mpr h2
    subst ea; subst eb
    decide

theorem fast_rem (a b : BitVec 64) :
    (b = 0#64 → fastBinary .rem a b = .divZero) ∧
    (b ≠ 0#64 → fastBinary .rem a b = .value (a.srem b) ∧ (a.srem b).toInt = a.toInt.tmod b.toInt) := by
  constructor
  · rintro rfl; simp [fastBinary]
  · intro hb0
    exact ⟨by simp [fastBinary, hb0], BitVec.toInt_srem a b⟩

theorem fast_and (a b : BitVec 64) : fastBinary .and a b = .value (a &&& b) := rfl
theorem fast_or (a b : BitVec 64) : fastBinary .or a b = .value (a ||| b) := rfl
theorem fast_xor (a b : BitVec 64) : fastBinary .xor a b = .value (a ^^^ b) := rfl
theorem fast_andNot (a b : BitVec 64) : fastBinary .andNot a b = .value (a &&& ~~~b) := rfl

/-- the six comparisons of the fast path are the comparisons of the values -/
theorem fast_cmp (op : Cmp) (a b : BitVec 64) :
    fastBinary (cmpToOp op) a b = .bool (cmp op a.toInt b.toInt) := by
  have hinj : (a = b) ↔ (a.toInt = b.toInt) := BitVec.toInt_inj.symm
  cases op <;>
    simp only [cmpToOp, fastBinary, cmp, BitVec.slt_eq_decide, BitVec.sle_eq_decide, FastResult.bool.injEq,
      GT.gt, GE.ge]
  · by_cases h : a = b
    · simp [h]
    · have := (not_congr hinj).mp h; simp [h, this]
  · by_cases h : a = b
    · simp [h]
    · have := (not_congr hinj).mp h; simp [h, this]

/-! ### unary -/

theorem fast_plus (k : Nat) (c : BitVec 64) : fastUnary .plus k c = .value c := rfl

theorem fast_neg (k : Nat) (c : BitVec 64) :
    (c.toInt ≠ -9223372036854775808 → fastUnary .neg k c = .value (-c) ∧ (-c).toInt = -c.toInt) ∧
    (c.toInt = -9223372036854775808 → fastUnary .neg k c = .useBig) := by
  obtain ⟨lc, hc⟩ := toInt_bounds c
  constructor
  · intro h
    refine ⟨by simp [fastUnary]; exact fun e => h ((eq_min_iff c).mp e), ?_⟩
    rw [BitVec.toInt_neg, bmod64]; split <;> omega
  · intro h
    have := (eq_min_iff c).mpr h
    simp [fastUnary, this]

theorem allOnes_toInt : (BitVec.allOnes 64).toInt = -1 := by decide

theorem toInt_not64 (c : BitVec 64) : (~~~c).toInt = bitXor (-1) c.toInt := by
  rw [← BitVec.allOnes_xor, toInt_xor64, allOnes_toInt]

/-- `^c` for an untyped or signed operand -/
theorem fast_compl_signed (k : Nat) (hk : isSigned k = true) (c : BitVec 64) :
    fastUnary .xor k c = .value (~~~c) := by
  simp [fastUnary, hk]

/-- `^c` for an unsigned operand whose kind has a table entry `m` -/
theorem fast_compl_unsigned (k : Nat) (hk : isSigned k = false) (m c : BitVec 64)
    (hm : maxUnsigned k = some m) (hc : 0 ≤ c.toInt) :
    (bitXor m.toNat c.toInt ≤ 9223372036854775807 →
      fastUnary .xor k c = .value (m ^^^ c) ∧ (m ^^^ c).toInt = bitXor m.toNat c.toInt) ∧
    (9223372036854775807 < bitXor m.toNat c.toInt → fastUnary .xor k c = .useBig) := by
  have hcn : c.toInt = (c.toNat : Int) := by
    rw [BitVec.toInt_eq_toNat_cond] at hc ⊢
    split at hc <;> simp_all <;> omega
  have hx : bitXor m.toNat c.toInt = ((m ^^^ c).toNat : Int) := by
    rw [hcn, bitXor_natCast, ← BitVec.toNat_xor]
  have hunf : fastUnary .xor k c =
      if (BitVec.ult 9223372036854775807#64 (m ^^^ c)) = true then .useBig else .value (m ^^^ c) := by
    simp [fastUnary, hk, hm]
  rw [hunf, hx, BitVec.ult_eq_decide]
  have h63 : (9223372036854775807#64 : BitVec 64).toNat = 9223372036854775807 := by decide
  rw [h63]
  constructor
  · intro h
    have h' : (m ^^^ c).toNat ≤ 9223372036854775807 := by omega
    refine ⟨by rw [if_neg]; rw [decide_eq_true_eq]; omega, ?_⟩
    rw [BitVec.toInt_eq_toNat_cond, if_pos (by omega)]
  · intro h
    rw [if_pos]; rw [decide_eq_true_eq]; omega

/-! ### right shift -/
theorem fast_shr (c sc : BitVec 64) :
    fastShr c sc = .value (c.sshiftRight sc.toNat) ∧
      (c.sshiftRight sc.toNat).toInt = shiftRight c.toInt sc.toNat :=
  ⟨rfl, BitVec.toInt_sshiftRight⟩

end ScriggoV.ConstEval
