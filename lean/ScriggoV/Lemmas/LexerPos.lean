import ScriggoV.Lemmas.Lexer
import ScriggoV.Spec.Position
/-! # Position bookkeeping of the lexer model against `Spec.Position` (C21)

`PosAt E st off`: the lexer's current line and column are those of byte offset `off`.
Lemmas: `walk` (the byte walk shared by `lexComment`, `skipRawContent`, CDATA sections and
block comments) advances exactly as `Spec.Position.advance`; `lexComment` and `skipRawContent`
keep `PosAt` and give their token the position of its start offset. -/
namespace ScriggoV.Lexer
open ScriggoV ScriggoV.Gen.LexTables ScriggoV.Spec.Position

theorem isStartChar_eq_not_isCont (c : UInt8) : isStartChar c = !isCont c := by
  have h := allBytes_spec (p := fun c => isStartChar c == !isCont c) (by decide +kernel) c
  simpa using h

theorem advance_append (a b : Bytes) (lc : Nat × Nat) : advance (a ++ b) lc = advance b (advance a lc) := by
  induction a generalizing lc with
  | nil => rfl
  | cons c a ih =>
    obtain ⟨l, k⟩ := lc
    simp only [List.cons_append, advance]
    split
    · exact ih _
    · split <;> exact ih _

/-- one byte: what `if c == '\n' { l.newline() } else if isStartChar(c) { l.column++ }` does -/
theorem advance_one (c : UInt8) (l k : Nat) :
    advance [c] (l, k) = if c = 0x0a then (l + 1, 1) else if isStartChar c = true then (l, k + 1) else (l, k) := by
  simp only [advance]
  rw [isStartChar_eq_not_isCont]
  split
  · rfl
  · cases isCont c <;> simp

/-- the lexer's line and column are those of byte offset `off` (a leading BOM counted as a
character: templates; `Spec.Position.lineCol` agrees when the text does not start with a BOM) -/
def PosAt (E : Env) (st : St) (off : Nat) : Prop :=
  (st.line, st.col) = advance (E.text.take off) (1, 1)

theorem lineCol_of_noBOM {src : Bytes} (h : hasBOM src = false) (off : Nat) :
    lineCol src off = advance (src.take off) (1, 1) := by
  unfold lineCol; simp [h]

theorem take_succ_of_getElem? {t : Bytes} {i : Nat} {c : UInt8} (h : t[i]? = some c) : t.take (i + 1) = t.take i ++ [c] := by
  rw [List.take_add_one, h]; rfl

/-- `walk` moves the position over the bytes it reads -/
theorem walkCode_posAt {E : Env} (n : Nat) : ∀ (i : Nat) (st st' : St), walkCode E n i st = .ok st' →
    PosAt E st (st.base + i) → PosAt E st' (st.base + i + n) := by
  induction n with
  | zero => intro i st st' h hp; cases h; exact hp
  | succ n ih =>
    intro i st st' h hp
    unfold walkCode at h
    cases hc : srcAt E st i with
    | error f => rw [hc] at h; cases h
    | ok c =>
      rw [hc] at h
      simp only [bind_ok] at h
      have hget : E.text[st.base + i]? = some c := getAt_eq_ok_iff.mp hc
      have hb : (if c = 0x0a then newline st else if isStartChar c = true then addCol st 1 else st).base = st.base := by
        split
        · rfl
        · split <;> rfl
      have := ih (i + 1) _ st' h (by
        rw [hb]
        unfold PosAt at hp ⊢
        rw [← Nat.add_assoc, take_succ_of_getElem? hget, advance_append, ← hp, advance_one]
        split
        · rfl
        · split <;> rfl)
      rw [hb] at this
      have e : st.base + (i + 1) + n = st.base + i + (n + 1) := by omega
      rw [e] at this; exact this


theorem indexByte_getElem {s : Bytes} {c : UInt8} {i : Nat} (h : indexByte s c = some i) : s[i]? = some c := by
  induction s generalizing i with
  | nil => simp [indexByte] at h
  | cons x rest ih =>
    unfold indexByte at h
    split at h
    · rename_i hx; cases h; simp at hx; simp [hx]
    · cases hr : indexByte rest c with
      | none => simp [hr] at h
      | some j =>
        simp [hr] at h
        subst h
        simpa using ih hr

/-- a terminated comment ends with `#}` -/
theorem commentLoop_close {E : Env} {st : St} : ∀ (fuel nested p q : Nat), commentLoop E st fuel nested p = .ok (some q) →
    p + 2 ≤ q ∧ peek E st (q - 2) = some 0x23 ∧ peek E st (q - 1) = some 0x7d := by
  intro fuel
  induction fuel with
  | zero => intro _ _ _ h; simp [commentLoop] at h
  | succ fuel ih =>
    intro nested p q h
    unfold commentLoop at h
    cases hs : srcFrom E st p with
    | error f => rw [hs] at h; cases h
    | ok s =>
      rw [hs] at h
      simp only [bind_ok] at h
      have hsd : s = E.text.drop (st.base + p) := by
        unfold srcFrom at hs; split at hs
        · cases hs; rfl
        · cases hs
      cases hi : indexByte s 0x23 with
      | none => rw [hi] at h; cases h
      | some i =>
        rw [hi] at h
        simp only [] at h
        have hhash : peek E st (p + i) = some 0x23 := by
          have := indexByte_getElem hi
          rw [hsd, List.getElem?_drop] at this
          unfold peek; rw [← this]; congr 1; omega
        -- isOpen
        cases ho : (if i > 0 then Except.map (· == (0x7b : UInt8)) (srcAt E st (p + i - 1)) else pure false : Except Fault Bool) with
        | error f => rw [ho] at h; cases h
        | ok bo =>
          rw [ho] at h
          simp only [bind_ok] at h
          cases bo with
          | true =>
            simp only [if_true] at h
            have := ih _ _ _ h
            exact ⟨by omega, this.2⟩
          | false =>
            simp only [Bool.false_eq_true, if_false] at h
            cases hcl : (if i + 1 < srcLen E st - p then Except.map (· == (0x7d : UInt8)) (srcAt E st (p + i + 1)) else pure false
                : Except Fault Bool) with
            | error f => rw [hcl] at h; cases h
            | ok bc =>
              rw [hcl] at h
              simp only [bind_ok] at h
              cases bc with
              | true =>
                simp only [if_true] at h
                split at h
                · cases h
                  -- the closing `#}` at p+i, p+i+1
                  have hbr : peek E st (p + i + 1) = some 0x7d := by
                    split at hcl
                    · cases hsa : srcAt E st (p + i + 1) with
                      | error f => rw [hsa] at hcl; cases hcl
                      | ok c =>
                        rw [hsa] at hcl
                        simp only [Except.map] at hcl
                        have hc : c = 0x7d := by simpa using (Except.ok.inj hcl)
                        unfold srcAt at hsa
                        have := getAt_eq_ok_iff.mp hsa
                        unfold peek; rw [this, hc]
                    · cases hcl
                  refine ⟨by omega, ?_, ?_⟩
                  · have e : p + 1 + i + 1 - 2 = p + i := by omega
                    rw [e]; exact hhash
                  · have e : p + 1 + i + 1 - 1 = p + i + 1 := by omega
                    rw [e]; exact hbr
                · have := ih _ _ _ h
                  exact ⟨by omega, this.2⟩
              | false =>
                simp only [Bool.false_eq_true, if_false] at h
                have := ih _ _ _ h
                exact ⟨by omega, this.2⟩

/-- two ASCII bytes that are not newlines take two columns -/
theorem posAt_two {E : Env} {st : St} {off : Nat} {a b : UInt8} (h : PosAt E st off)
    (ha : E.text[off]? = some a) (hb : E.text[off + 1]? = some b)
    (ha' : a ≠ 0x0a ∧ isStartChar a = true) (hb' : b ≠ 0x0a ∧ isStartChar b = true) :
    PosAt E (addCol st 2) (off + 2) := by
  unfold PosAt at h ⊢
  rw [show off + 2 = off + 1 + 1 from rfl, take_succ_of_getElem? hb, take_succ_of_getElem? ha,
    advance_append, advance_append, ← h, advance_one a, if_neg ha'.1, if_pos ha'.2, advance_one b, if_neg hb'.1, if_pos hb'.2]
  rfl

/-- `lexComment`, entered at `{#` with the position of the lexer right: the comment token
carries the line and column of its start offset, and the position stays right after it -/
theorem lexComment_posAt {E : Env} {st st' : St} (hb : st.base ≤ E.text.length)
    (h0 : peek E st 0 = some 0x7b) (h1 : peek E st 1 = some 0x23)
    (hpos : PosAt E st st.base) (h : lexComment E st = .ok (st', none)) :
    PosAt E st' st'.base ∧
    ∃ tok, st'.toks = tok :: st.toks ∧ (tok.line, tok.col) = advance (E.text.take st.base) (1, 1) ∧
      tok.start = st.base := by
  unfold lexComment at h
  have h2 : 2 ≤ srcLen E st := by have := peek_some_lt_srcLen h1; omega
  obtain ⟨r, hr, hq⟩ := commentLoop_ok (E := E) (st := st) (srcLen E st + 2) 0 2 h2 (by omega)
  rw [hr] at h
  simp only [bind_ok] at h
  cases r with
  | none => simp only [fail_ok] at h; cases h
  | some q =>
    obtain ⟨hq1, hq2⟩ := hq q rfl
    obtain ⟨_, hc1, hc2⟩ := commentLoop_close _ _ _ _ hr
    simp only [] at h
    have hs := SameButPos.addCol st 2
    obtain ⟨sa, hw, hsa⟩ := walkCode_ok (E := E) (q - 2 - 2) 2 (addCol st 2) (by rw [hs.srcLen]; omega)
    rw [show walk = walkCode from rfl, hw] at h
    simp only [bind_ok] at h
    have hs2 : SameButPos st (addCol sa 2) := (hs.trans hsa).trans (SameButPos.addCol sa 2)
    obtain ⟨sb, he, _, hbase, hl, hcl, _, _, _, _, _, _, tok, htoks, _, htl, htc, htn, hspan⟩ :=
      emitAt_ok (E := E) (st := addCol sa 2) (line := st.line) (col := st.col) (typ := tokenComment) (n := q)
        (by rw [hs2.srcLen]; exact hq2) (by rw [hs2.base]; exact hb)
    rw [he] at h
    simp only [bind_ok, pure_eq_ok] at h
    cases h
    -- positions
    have p1 : PosAt E (addCol st 2) (st.base + 2) :=
      posAt_two (a := 0x7b) (b := 0x23) hpos (by simpa [peek] using h0) h1 ⟨by decide, by decide⟩ ⟨by decide, by decide⟩
    have p2 : PosAt E sa (st.base + 2 + (q - 2 - 2)) := walkCode_posAt _ 2 (addCol st 2) sa hw p1
    have p3 : PosAt E (addCol sa 2) (st.base + q) := by
      have e : st.base + q = st.base + 2 + (q - 2 - 2) + 2 := by omega
      rw [e]
      refine posAt_two (a := 0x23) (b := 0x7d) p2 ?_ ?_ ⟨by decide, by decide⟩ ⟨by decide, by decide⟩
      · unfold peek at hc1; rw [← hc1]; congr 1; omega
      · unfold peek at hc2; rw [← hc2]; congr 1; omega
    constructor
    · unfold PosAt at p3 ⊢
      rw [hl, hcl, hbase, hs2.base]; exact p3
    · refine ⟨tok, by rw [htoks, hs2.toks], ?_, ?_⟩
      · rw [htl, htc]; exact hpos
      · have := hspan.1 (by rw [htn]; omega)
        rw [this.1, hs2.base]

theorem walkCode_sameButPos {E : Env} (n : Nat) : ∀ (i : Nat) (st st' : St), walkCode E n i st = .ok st' →
    SameButPos st st' := by
  induction n with
  | zero => intro i st st' h; cases h; exact SameButPos.refl st
  | succ n ih =>
    intro i st st' h
    unfold walkCode at h
    cases hc : srcAt E st i with
    | error f => rw [hc] at h; cases h
    | ok c =>
      rw [hc] at h
      simp only [bind_ok] at h
      have hs : SameButPos st (if c = 0x0a then newline st else if isStartChar c = true then addCol st 1 else st) := by
        split
        · exact SameButPos.newline st
        · split
          · exact SameButPos.addCol st 1
          · exact SameButPos.refl st
      exact hs.trans (ih _ _ _ h)

/-- `skipRawContent` keeps the position right -/
theorem skipRawContent_posAt {E : Env} {st st' : St} {m : Bytes} {p : Nat} (hpos : PosAt E st st.base)
    (h : skipRawContent E st m = .ok (st', p)) : PosAt E st' (st'.base + p) := by
  unfold skipRawContent at h
  simp only [] at h
  cases hr : endRawIndex E.U (E.text.drop st.base) m ((E.text.drop st.base).length + 2) 0 with
  | error f => rw [hr] at h; cases h
  | ok r =>
    rw [hr] at h
    simp only [bind_ok] at h
    have key : ∀ q, (do let st ← walk E q 0 st; pure (st, q) : Except Fault (St × Nat)) = .ok (st', p) →
        PosAt E st' (st'.base + p) := by
      intro q hq
      cases hw : walkCode E q 0 st with
      | error f => rw [show walk = walkCode from rfl, hw] at hq; cases hq
      | ok s1 =>
        rw [show walk = walkCode from rfl, hw] at hq
        simp only [bind_ok, pure_eq_ok] at hq
        cases hq
        have := walkCode_posAt _ 0 st st' hw (by simpa using hpos)
        rw [(walkCode_sameButPos _ 0 st st' hw).base]; simpa using this
    cases r with
    | none => exact key _ h
    | some k =>
      cases k with
      | zero =>
        simp only [pure_eq_ok] at h
        cases h; simpa using hpos
      | succ n => exact key _ h

end ScriggoV.Lexer
