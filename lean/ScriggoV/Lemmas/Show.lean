import ScriggoV.Model.ShowFacts
/-! C09 — soundness of the symbolic exploration of the show tables (`Model/ShowFacts.lean`), and
the facts about every type that a successful exploration yields. -/
namespace ScriggoV.Show
open ScriggoV.Gen

/-- a type agrees with what a state has established -/
def SubjSt.sat (st : SubjSt) (i : TInfo) : Prop :=
  i.kind ∈ st.kinds ∧ i.ident ∈ st.idents ∧
  (∀ x ∈ st.yes, i.impl x = true) ∧ (∀ x ∈ st.no, i.impl x = false)

def SymSt.sat (st : SymSt) (t k : TInfo) : Prop := st.self.sat t ∧ st.key.sat k

theorem SymSt.sat_get {st : SymSt} {t k : TInfo} (h : st.sat t k) (s : Subj) :
    (st.get s).sat (s.pick t k) := by
  cases s
  · exact h.1
  · exact h.2

theorem SymSt.sat_set {st : SymSt} {t k : TInfo} (h : st.sat t k) (s : Subj) {x : SubjSt}
    (hx : x.sat (s.pick t k)) : (st.set s x).sat t k := by
  cases s
  · exact ⟨hx, h.2⟩
  · exact ⟨h.1, hx⟩

theorem isEmpty_false_of_mem {α : Type} {l : List α} {a : α} (h : a ∈ l) : l.isEmpty = false := by
  cases l with
  | nil => cases h
  | cons _ _ => rfl

/-- **Soundness of the exploration.** If it succeeds from a state, then for every pair of types
that agrees with the state, the leaf their run ends in was judged (under a state they agree with). -/
theorem explore_sound (chk : Act → SymSt → Bool) (tr : DTree) :
    ∀ st, explore chk tr st = true → ∀ t k, st.sat t k →
      ∃ st', st'.sat t k ∧ chk (tr.run t k) st' = true := by
  induction tr with
  | leaf a => intro st h t k hs; exact ⟨st, hs, h⟩
  | askK s p y n ihy ihn =>
    intro st h t k hs
    simp only [explore, Bool.and_eq_true, Bool.or_eq_true] at h
    obtain ⟨h1, h2⟩ := h
    have hcur := SymSt.sat_get hs s
    by_cases hp : p (s.pick t k).kind = true
    · have hmem : (s.pick t k).kind ∈ (st.get s).kinds.filter p := List.mem_filter.2 ⟨hcur.1, hp⟩
      rcases h1 with he | he
      · rw [isEmpty_false_of_mem hmem] at he; cases he
      · have := ihy _ he t k (SymSt.sat_set hs s ⟨hmem, hcur.2.1, hcur.2.2.1, hcur.2.2.2⟩)
        simpa [DTree.run, hp] using this
    · have hp' : (!p (s.pick t k).kind) = true := by simpa using hp
      have hmem : (s.pick t k).kind ∈ (st.get s).kinds.filter (fun k => !p k) :=
        List.mem_filter.2 ⟨hcur.1, hp'⟩
      rcases h2 with he | he
      · rw [isEmpty_false_of_mem hmem] at he; cases he
      · have := ihn _ he t k (SymSt.sat_set hs s ⟨hmem, hcur.2.1, hcur.2.2.1, hcur.2.2.2⟩)
        simpa [DTree.run, hp] using this
  | askI s p y n ihy ihn =>
    intro st h t k hs
    simp only [explore, Bool.and_eq_true, Bool.or_eq_true] at h
    obtain ⟨h1, h2⟩ := h
    have hcur := SymSt.sat_get hs s
    by_cases hp : p (s.pick t k).ident = true
    · have hmem : (s.pick t k).ident ∈ (st.get s).idents.filter p := List.mem_filter.2 ⟨hcur.2.1, hp⟩
      rcases h1 with he | he
      · rw [isEmpty_false_of_mem hmem] at he; cases he
      · have := ihy _ he t k (SymSt.sat_set hs s ⟨hcur.1, hmem, hcur.2.2.1, hcur.2.2.2⟩)
        simpa [DTree.run, hp] using this
    · have hp' : (!p (s.pick t k).ident) = true := by simpa using hp
      have hmem : (s.pick t k).ident ∈ (st.get s).idents.filter (fun i => !p i) :=
        List.mem_filter.2 ⟨hcur.2.1, hp'⟩
      rcases h2 with he | he
      · rw [isEmpty_false_of_mem hmem] at he; cases he
      · have := ihn _ he t k (SymSt.sat_set hs s ⟨hcur.1, hmem, hcur.2.2.1, hcur.2.2.2⟩)
        simpa [DTree.run, hp] using this
  | askF s x y n ihy ihn =>
    intro st h t k hs
    have hcur := SymSt.sat_get hs s
    simp only [explore] at h
    by_cases hy : (st.get s).yes.contains x = true
    · rw [if_pos hy] at h
      have hx : (s.pick t k).impl x = true := hcur.2.2.1 x (by simpa using hy)
      have := ihy _ h t k hs
      simpa [DTree.run, hx] using this
    · rw [if_neg hy] at h
      by_cases hn : (st.get s).no.contains x = true
      · rw [if_pos hn] at h
        have hx : (s.pick t k).impl x = false := hcur.2.2.2 x (by simpa using hn)
        have := ihn _ h t k hs
        simpa [DTree.run, hx] using this
      · rw [if_neg hn, Bool.and_eq_true] at h
        cases hx : (s.pick t k).impl x with
        | true =>
          have hs' : (st.set s { st.get s with yes := x :: (st.get s).yes }).sat t k :=
            SymSt.sat_set hs s ⟨hcur.1, hcur.2.1,
              fun z hz => by
                rcases List.mem_cons.1 hz with rfl | hz
                · exact hx
                · exact hcur.2.2.1 z hz,
              hcur.2.2.2⟩
          have := ihy _ h.1 t k hs'
          simpa [DTree.run, hx] using this
        | false =>
          have hs' : (st.set s { st.get s with no := x :: (st.get s).no }).sat t k :=
            SymSt.sat_set hs s ⟨hcur.1, hcur.2.1, hcur.2.2.1,
              fun z hz => by
                rcases List.mem_cons.1 hz with rfl | hz
                · exact hx
                · exact hcur.2.2.2 z hz⟩
          have := ihn _ h.2 t k hs'
          simpa [DTree.run, hx] using this

theorem explore2_sound (cmp : Act → Act → Bool) (s d : DTree) (st : SymSt)
    (h : explore2 cmp s d st = true) (t k : TInfo) (hs : st.sat t k) :
    cmp (s.run t k) (d.run t k) = true := by
  obtain ⟨st', hs', h'⟩ := explore_sound _ s st h t k hs
  obtain ⟨_, _, h''⟩ := explore_sound _ d st' h' t k hs'
  exact h''

end ScriggoV.Show

namespace ScriggoV.Show
open ScriggoV.Gen

/-! ### from outcomes to "ends well" -/

theorem Act.isOk_eval (a : Act) (rE rF rK : Res) :
    (a.eval rE rF rK).isOk = a.okEval rE.isOk rF.isOk rK.isOk := by
  induction a with
  | ret r => rfl
  | elem => rfl
  | fields => rfl
  | key => rfl
  | seq a b iha ihb =>
    simp only [Act.eval, Act.okEval]
    rw [← iha, ← ihb]
    cases h : a.eval rE rF rK <;> simp [Res.isOk]

theorem Act.isOk_leaf (a : Act) : a.leaf.isOk = a.leafOk := by
  rw [Act.leaf, Act.leafOk, Act.isOk_eval]; rfl

theorem Act.okEval_mono (a : Act) {e f k e' f' k' : Bool}
    (he : e = true → e' = true) (hf : f = true → f' = true) (hk : k = true → k' = true) :
    a.okEval e f k = true → a.okEval e' f' k' = true := by
  induction a with
  | ret r => exact id
  | elem => exact he
  | fields => exact hf
  | key => exact hk
  | seq a b iha ihb =>
    simp only [Act.okEval, Bool.and_eq_true]
    exact fun ⟨h1, h2⟩ => ⟨iha h1, ihb h2⟩

theorem nodeFact_spec {s d : Act} (h : nodeFact s d = true) (e f k : Bool) :
    s.okEval e f k = true → d.okEval e f k = true := by
  simp only [nodeFact, bools, List.all_cons, List.all_nil, Bool.and_true, Bool.and_eq_true,
    Bool.or_eq_true, Bool.not_eq_true'] at h
  intro hs
  cases e <;> cases f <;> cases k <;> simp_all

/-- accepted statically with these components ⇒ shown without failure with those, when each
component accepted is shown without failure -/
theorem node_lift {s d : Act} (h : nodeFact s d = true) {rE rF rK rE' rF' rK' : Res}
    (he : rE.isOk = true → rE'.isOk = true) (hf : rF.isOk = true → rF'.isOk = true)
    (hk : rK.isOk = true → rK'.isOk = true) :
    (s.eval rE rF rK).isOk = true → (d.eval rE' rF' rK').isOk = true := by
  rw [Act.isOk_eval, Act.isOk_eval]
  intro hs
  exact Act.okEval_mono d he hf hk (nodeFact_spec h _ _ _ hs)

/-! ### every type agrees with the initial states -/

theorem Kind.mem_all (k : Kind) : k ∈ Kind.all := by cases k <;> decide
theorem Ident.mem_all (i : Ident) : i ∈ Ident.all := by cases i <;> decide
theorem Iface.mem_all (i : Iface) : i ∈ Iface.all := by cases i <;> decide

theorem SubjSt.sat_all (i : TInfo) : SubjSt.all.sat i :=
  ⟨Kind.mem_all _, Ident.mem_all _, (fun _ h => by cases h), (fun _ h => by cases h)⟩

theorem SubjSt.sat_nil : SubjSt.nil.sat TInfo.nil :=
  ⟨by decide, by decide, (fun _ h => by cases h), (fun _ _ => rfl)⟩

theorem SubjSt.sat_nonIface (i : TInfo) (h : i.isIface = false) : SubjSt.nonIface.sat i := by
  simp only [TInfo.isIface, Bool.or_eq_false_iff, beq_eq_false_iff_ne] at h
  refine ⟨List.mem_filter.2 ⟨Kind.mem_all _, by simpa using h.1⟩,
    List.mem_filter.2 ⟨Ident.mem_all _, by simpa using h.2⟩, (fun _ h => by cases h), (fun _ h => by cases h)⟩

theorem SubjSt.sat_maps (i : TInfo) (h : mapInfoWF i = true) : SubjSt.maps.sat i := by
  simp only [mapInfoWF, Bool.and_eq_true, beq_iff_eq] at h
  exact ⟨by simp [SubjSt.maps, h.1], by simp [SubjSt.maps, h.2], (fun _ h => by cases h), (fun _ h => by cases h)⟩

/-! ### what a successful exploration of a context says about every type -/

/-- The facts the lifting needs, for every type (no longer symbolic). -/
structure Facts (c : Ctx) : Prop where
  top : ∀ i, i.isIface = false → nodeFact ((staticFns c).top i) ((dynFns c).top i) = true
  topNil : ∀ i, ((staticFns c).top i).leafOk = true → ((dynFns c).top TInfo.nil).leafOk = true
  comp : ∀ i, i.isIface = false → nodeFact ((staticFns c).comp i) ((dynFns c).comp i) = true
  compNil : ∀ i, ((staticFns c).comp i).leafOk = true → ((dynFns c).comp TInfo.nil).leafOk = true
  key : ∀ i k, mapInfoWF i = true → k.isIface = false →
    ((staticFns c).key i k).leafOk = true → ((dynFns c).key i k).leafOk = true
  keyNil : ∀ i k, mapInfoWF i = true →
    ((staticFns c).key i k).leafOk = true → ((dynFns c).key i TInfo.nil).leafOk = true

theorem facts_of_table (c : Ctx) (h : tableOK c = true) : Facts c := by
  simp only [tableOK, Bool.and_eq_true] at h
  obtain ⟨⟨⟨⟨⟨h1, h2⟩, h3⟩, h4⟩, h5⟩, h6⟩ := h
  refine ⟨?_, ?_, ?_, ?_, ?_, ?_⟩
  · intro i hi
    exact explore2_sound _ _ _ _ h1 i TInfo.nil ⟨SubjSt.sat_nonIface i hi, SubjSt.sat_nil⟩
  · intro i hs
    obtain ⟨_, _, h'⟩ := explore_sound _ _ _ h2 i TInfo.nil ⟨SubjSt.sat_all i, SubjSt.sat_nil⟩
    simp only [Bool.or_eq_true, Bool.not_eq_true'] at h'
    rcases h' with h' | h'
    · simp only [Fns.top] at hs; rw [hs] at h'; cases h'
    · exact h'
  · intro i hi
    exact explore2_sound _ _ _ _ h3 i TInfo.nil ⟨SubjSt.sat_nonIface i hi, SubjSt.sat_nil⟩
  · intro i hs
    obtain ⟨_, _, h'⟩ := explore_sound _ _ _ h4 i TInfo.nil ⟨SubjSt.sat_all i, SubjSt.sat_nil⟩
    simp only [Bool.or_eq_true, Bool.not_eq_true'] at h'
    rcases h' with h' | h'
    · simp only [Fns.comp] at hs; rw [hs] at h'; cases h'
    · exact h'
  · intro i k hi hk hs
    have := explore2_sound _ _ _ _ h5 i k ⟨SubjSt.sat_maps i hi, SubjSt.sat_nonIface k hk⟩
    simp only [leafFact, Bool.or_eq_true, Bool.not_eq_true'] at this
    rcases this with h' | h'
    · simp only [Fns.key] at hs; rw [hs] at h'; cases h'
    · exact h'
  · intro i k hi hs
    obtain ⟨st', hs', h'⟩ := explore_sound _ _ _ h6 i k ⟨SubjSt.sat_maps i hi, SubjSt.sat_all k⟩
    have hs'' : (st'.set .key .nil).sat i TInfo.nil := ⟨hs'.1, SubjSt.sat_nil⟩
    obtain ⟨_, _, h''⟩ := explore_sound _ _ _ h' i TInfo.nil hs''
    simp only [leafFact, Bool.or_eq_true, Bool.not_eq_true'] at h''
    rcases h'' with h'' | h''
    · simp only [Fns.key] at hs; rw [hs] at h''; cases h''
    · exact h''

end ScriggoV.Show
