import ScriggoV.Model.Packages
/-! Helper lemmas for C22: first-occurrence de-duplication, the closure `w` of
`CombinedPackage.LookupFunc` seen as a filter, and the loop invariants. -/
namespace ScriggoV.Packages

variable {α : Type} [DecidableEq α]

/-! ### `dedupFirst` / `addSeen` -/

theorem dedupFirst_append (A B : List (α × Decl)) (seen : List α) :
    dedupFirst (A ++ B) seen = dedupFirst A seen ++ dedupFirst B (addSeen A seen) := by
  induction A generalizing seen with
  | nil => rfl
  | cons x r ih =>
    obtain ⟨n, d⟩ := x
    by_cases h : n ∈ seen
    · simp [dedupFirst, addSeen, h, ih]
    · simp [dedupFirst, addSeen, h, ih]

theorem addSeen_append (A B : List (α × Decl)) (seen : List α) :
    addSeen (A ++ B) seen = addSeen B (addSeen A seen) := by
  induction A generalizing seen with
  | nil => rfl
  | cons x r ih =>
    obtain ⟨n, d⟩ := x
    by_cases h : n ∈ seen
    · simp [addSeen, h, ih]
    · simp [addSeen, h, ih]

/-- de-duplicating an already de-duplicated list again (w.r.t. a larger `seen`) is the same as
de-duplicating the original list: what a nested combined package hides was hidden anyway -/
theorem dedupFirst_dedupFirst (A : List (α × Decl)) (t s : List α) (hts : ∀ x ∈ t, x ∈ s) :
    dedupFirst (dedupFirst A t) s = dedupFirst A s := by
  induction A generalizing t s with
  | nil => rfl
  | cons x r ih =>
    obtain ⟨n, d⟩ := x
    by_cases ht : n ∈ t
    · have hs : n ∈ s := hts n ht
      simp [dedupFirst, ht, hs, ih t s hts]
    · by_cases hs : n ∈ s
      · have := ih (n :: t) s (by
          intro x hx
          rcases List.mem_cons.1 hx with rfl | hx
          · exact hs
          · exact hts x hx)
        simp [dedupFirst, ht, hs, this]
      · have := ih (n :: t) (n :: s) (by
          intro x hx
          rcases List.mem_cons.1 hx with rfl | hx
          · exact List.mem_cons_self
          · exact List.mem_cons_of_mem _ (hts x hx))
        simp [dedupFirst, ht, hs, this]

theorem addSeen_dedupFirst (A : List (α × Decl)) (t s : List α) (hts : ∀ x ∈ t, x ∈ s) :
    addSeen (dedupFirst A t) s = addSeen A s := by
  induction A generalizing t s with
  | nil => rfl
  | cons x r ih =>
    obtain ⟨n, d⟩ := x
    by_cases ht : n ∈ t
    · have hs : n ∈ s := hts n ht
      simp [dedupFirst, addSeen, ht, hs, ih t s hts]
    · by_cases hs : n ∈ s
      · have := ih (n :: t) s (by
          intro x hx
          rcases List.mem_cons.1 hx with rfl | hx
          · exact hs
          · exact hts x hx)
        simp [dedupFirst, addSeen, ht, hs, this]
      · have := ih (n :: t) (n :: s) (by
          intro x hx
          rcases List.mem_cons.1 hx with rfl | hx
          · exact List.mem_cons_self
          · exact List.mem_cons_of_mem _ (hts x hx))
        simp [dedupFirst, addSeen, ht, hs, this]

/-- a list with distinct keys none of which was seen is its own de-duplication -/
theorem dedupFirst_of_nodup (A : List (α × Decl)) (seen : List α)
    (hn : (A.map Prod.fst).Nodup) (hd : ∀ x ∈ A.map Prod.fst, x ∉ seen) :
    dedupFirst A seen = A := by
  induction A generalizing seen with
  | nil => rfl
  | cons x r ih =>
    obtain ⟨n, d⟩ := x
    simp only [List.map_cons, List.nodup_cons] at hn
    have h1 : n ∉ seen := hd n (by simp)
    simp only [dedupFirst, h1, if_false]
    congr 1
    apply ih _ hn.2
    intro x hx hmem
    rcases List.mem_cons.1 hmem with rfl | hmem
    · exact hn.1 hx
    · exact hd x (by simp only [List.map_cons]; exact List.mem_cons_of_mem _ hx) hmem

/-- membership in the de-duplicated list -/
theorem mem_dedupFirst_fst (A : List (α × Decl)) (seen : List α) (n : α) :
    n ∈ (dedupFirst A seen).map Prod.fst ↔ n ∈ A.map Prod.fst ∧ n ∉ seen := by
  induction A generalizing seen with
  | nil => simp [dedupFirst]
  | cons x r ih =>
    obtain ⟨k, d⟩ := x
    by_cases h : k ∈ seen
    · simp only [dedupFirst, h, if_true, ih, List.map_cons, List.mem_cons]
      constructor
      · rintro ⟨h1, h2⟩; exact ⟨Or.inr h1, h2⟩
      · rintro ⟨h1 | h1, h2⟩
        · subst h1; exact absurd h h2
        · exact ⟨h1, h2⟩
    · simp only [dedupFirst, h, if_false, List.map_cons, List.mem_cons, ih]
      constructor
      · rintro (h1 | ⟨h1, h2⟩)
        · subst h1; exact ⟨Or.inl rfl, h⟩
        · exact ⟨Or.inr h1, fun hc => h2 (Or.inr hc)⟩
      · rintro ⟨h1 | h1, h2⟩
        · exact Or.inl h1
        · by_cases hk : n = k
          · exact Or.inl hk
          · exact Or.inr ⟨h1, fun hc => hc.elim hk h2⟩

theorem nodup_dedupFirst (A : List (α × Decl)) (seen : List α) :
    ((dedupFirst A seen).map Prod.fst).Nodup := by
  induction A generalizing seen with
  | nil => simp [dedupFirst]
  | cons x r ih =>
    obtain ⟨k, d⟩ := x
    by_cases h : k ∈ seen
    · simp only [dedupFirst, h, if_true]; exact ih seen
    · simp only [dedupFirst, h, if_false, List.map_cons, List.nodup_cons]
      refine ⟨?_, ih _⟩
      intro hc
      have := (mem_dedupFirst_fst r (k :: seen) k).1 hc
      exact this.2 List.mem_cons_self

/-- first-match lookup is not changed by de-duplication: every entry kept is the first
occurrence of its name -/
theorem lookup_dedupFirst (A : List (α × Decl)) (seen : List α) (n : α) (hn : n ∉ seen) :
    List.lookup n (dedupFirst A seen) = List.lookup n A := by
  induction A generalizing seen with
  | nil => rfl
  | cons x r ih =>
    obtain ⟨k, d⟩ := x
    by_cases h : k ∈ seen
    · have hne : (n == k) = false := by
        simp only [beq_eq_false_iff_ne, ne_eq]; intro hc; subst hc; exact hn h
      simp only [dedupFirst, h, if_true, List.lookup_cons, hne]
      exact ih seen hn
    · simp only [dedupFirst, h, if_false, List.lookup_cons]
      by_cases hk : n = k
      · subst hk; simp
      · have hne : (n == k) = false := by simpa using hk
        simp only [hne]
        apply ih
        intro hc
        rcases List.mem_cons.1 hc with rfl | hc
        · exact hk rfl
        · exact hn hc

/-! ### the loop of `Package.LookupFunc` -/

omit [DecidableEq α] in
theorem pkgLoop_append {σ : Type} (f : Callback α σ) (A B : List (α × Decl)) (s : σ) :
    pkgLoop f (A ++ B) s =
      (match pkgLoop f A s with
       | (s', none) => pkgLoop f B s'
       | (s', some e) => (s', some e)) := by
  induction A generalizing s with
  | nil => simp [pkgLoop]
  | cons x r ih =>
    obtain ⟨n, d⟩ := x
    simp only [List.cons_append, pkgLoop]
    rcases hf : f s n d with ⟨s', _ | e⟩
    · simp only [ih]
    · simp

/-- running the closure `w` along a list is running `f` along the names not yet seen; `w`'s `err`
is what `f` returned last, and on a nil error the names are recorded -/
theorem pkgLoop_wrap {σ : Type} (f : Callback α σ) (D : List (α × Decl)) (st : CState α σ)
    (herr : st.err = none) :
    let r := pkgLoop (wrap f) D st
    let q := pkgLoop f (dedupFirst D st.names) st.inner
    r.1.inner = q.1 ∧ r.1.err = q.2 ∧ r.2 = q.2 ∧ (q.2 = none → r.1.names = addSeen D st.names) := by
  induction D generalizing st with
  | nil => simp [pkgLoop, dedupFirst, addSeen, herr]
  | cons x r ih =>
    obtain ⟨n, d⟩ := x
    by_cases h : n ∈ st.names
    · have hw : wrap f st n d = (st, none) := by simp [wrap, h, herr]
      simp only [pkgLoop, hw, dedupFirst, h, if_true, addSeen]
      exact ih st herr
    · rcases hf : f st.inner n d with ⟨s', _ | e⟩
      · have hw : wrap f st n d = ({ inner := s', err := none, names := n :: st.names }, none) := by
          simp [wrap, h, hf]
        simp only [pkgLoop, hw, dedupFirst, h, if_false, addSeen, hf]
        exact ih { inner := s', err := none, names := n :: st.names } rfl
      · have hw : wrap f st n d = ({ inner := s', err := some e, names := n :: st.names }, some e) := by
          simp [wrap, h, hf]
        simp [pkgLoop, hw, dedupFirst, h, hf]

/-! ### `Lookup` -/

theorem firstNonNil_append (A B : List (α × Decl)) (n : α) :
    firstNonNil (A ++ B) n =
      (match firstNonNil A n with
       | some v => some v
       | none => firstNonNil B n) := by
  induction A with
  | nil => simp only [List.nil_append, firstNonNil]
  | cons x r ih =>
    obtain ⟨k, d⟩ := x
    simp only [List.cons_append, firstNonNil]
    by_cases hk : k = n
    · simp only [hk, if_true]
      cases d with
      | some v => rfl
      | none => exact ih
    · simp only [hk, if_false]; exact ih

/-- with distinct keys, `m[name]` is the first non-nil value bound to the name -/
theorem mapGet_eq_firstNonNil (A : List (α × Decl)) (n : α) (hn : (A.map Prod.fst).Nodup) :
    mapGet A n = firstNonNil A n := by
  induction A with
  | nil => rfl
  | cons x r ih =>
    obtain ⟨k, d⟩ := x
    simp only [List.map_cons, List.nodup_cons] at hn
    simp only [mapGet, firstNonNil]
    by_cases hk : k = n
    · simp only [hk, if_true]
      cases d with
      | some v => rfl
      | none =>
        subst hk
        have : ∀ (r : List (α × Decl)), k ∉ r.map Prod.fst → firstNonNil r k = none := by
          intro r
          induction r with
          | nil => intro _; rfl
          | cons y r ih2 =>
            obtain ⟨k', d'⟩ := y
            intro hk'
            simp only [List.map_cons, List.mem_cons, not_or] at hk'
            have hne : ¬ k' = k := fun hc => hk'.1 hc.symm
            simp only [firstNonNil, hne, if_false]
            exact ih2 hk'.2
        simp [this r hn.1]
    · simp only [hk, if_false]; exact ih hn.2

/-- `m[name]` as a first-match lookup -/
theorem mapGet_eq_lookup (A : List (α × Decl)) (n : α) :
    mapGet A n = (List.lookup n A).join := by
  induction A with
  | nil => rfl
  | cons x r ih =>
    obtain ⟨k, d⟩ := x
    simp only [mapGet, List.lookup_cons]
    by_cases hk : k = n
    · subst hk; simp
    · have hne : (n == k) = false := by
        simp only [beq_eq_false_iff_ne, ne_eq]; exact fun hc => hk hc.symm
      simp only [hk, if_false, hne]; exact ih

/-- when no declaration is nil, "first non-nil" is plain first-match -/
theorem firstNonNil_eq_lookup (A : List (α × Decl)) (n : α)
    (hnn : ∀ x ∈ A, x.2 ≠ none) : firstNonNil A n = (List.lookup n A).join := by
  induction A with
  | nil => rfl
  | cons x r ih =>
    obtain ⟨k, d⟩ := x
    have hr : ∀ x ∈ r, x.2 ≠ none := fun x hx => hnn x (List.mem_cons_of_mem _ hx)
    simp only [firstNonNil, List.lookup_cons]
    by_cases hk : k = n
    · subst hk
      cases d with
      | some v => simp
      | none => exact absurd rfl (hnn (k, none) List.mem_cons_self)
    · have hne : (n == k) = false := by
        simp only [beq_eq_false_iff_ne, ne_eq]; exact fun hc => hk hc.symm
      simp only [hk, if_false, hne]; exact ih hr

/-- in a map (distinct keys) first-match lookup is membership -/
theorem lookup_eq_some_iff_mem (A : List (α × Decl)) (n : α) (d : Decl)
    (hn : (A.map Prod.fst).Nodup) : List.lookup n A = some d ↔ (n, d) ∈ A := by
  induction A with
  | nil => simp
  | cons x r ih =>
    obtain ⟨k, d'⟩ := x
    simp only [List.map_cons, List.nodup_cons] at hn
    simp only [List.lookup_cons, List.mem_cons, Prod.mk.injEq]
    by_cases hk : n = k
    · subst hk
      simp only [beq_self_eq_true, Option.some.injEq, true_and]
      constructor
      · intro h; exact Or.inl h.symm
      · rintro (h | h)
        · exact h.symm
        · exact absurd (List.mem_map.2 ⟨(n, d), h, rfl⟩) hn.1
    · have hne : (n == k) = false := by simpa using hk
      simp only [hne, hk, false_and, false_or]
      exact ih hn.2

end ScriggoV.Packages
