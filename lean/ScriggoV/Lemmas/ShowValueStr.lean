import ScriggoV.Spec.JSON
import ScriggoV.Model.ShowValue
/-! C08 helper lemmas, part 1: string bodies and numbers.

* `parseStr_jsStrEsc`: the RFC 8259 string decoder undoes `jsStrEsc` (the model of
  jsStringEscape, over the regenerated table `Gen.EscapeTables.jsStringEscapes`) for every byte
  string; the table facts are `decide`d over all 256 bytes (`escCheck_all`).
* `parseStr_plain_all`: a body without `"`, `\` and control bytes decodes to itself (base64,
  time strings).
* `isNumber_natDigits`, `isNumber_fmtInt`: decimal integers are RFC 8259 numbers.  -/
namespace ScriggoV.ShowValue
open ScriggoV ScriggoV.JSON

/-! ### parseStr, one step at a time -/

/-- a byte that stands for itself inside a JSON string -/
def plain (c : UInt8) : Bool := c != 0x22 && c != 0x5C && decide (0x20 ≤ c.toNat)

theorem parseStr_quote (r : Bytes) : parseStr (0x22 :: r) = some ([], r) := by
  rw [parseStr.eq_def]; simp

theorem parseStr_plain (c : UInt8) (r : Bytes) (h : plain c = true) :
    parseStr (c :: r) = consTo [c] (parseStr r) := by
  simp only [plain, Bool.and_eq_true, bne_iff_ne, ne_eq, decide_eq_true_eq] at h
  obtain ⟨⟨h1, h2⟩, h3⟩ := h
  rw [parseStr.eq_def]
  have e1 : (c == 0x22) = false := by simpa using h1
  have e2 : (c == 0x5C) = false := by simpa using h2
  have e3 : ¬ c.toNat < 0x20 := by omega
  simp only [e1, e2]
  rw [if_neg (by simp), if_neg (by simp), if_neg e3]

theorem parseStr_simple (x c : UInt8) (r : Bytes) (hx : x ≠ 0x75) (h : simpleEsc x = some c) :
    parseStr (0x5C :: x :: r) = consTo [c] (parseStr r) := by
  rw [parseStr.eq_def]
  have e : (x == 0x75) = false := by simpa using hx
  simp only [e]
  rw [if_neg (by decide), if_pos (by decide), if_neg (by simp), h]

theorem parseStr_u (a b c d : UInt8) (r : Bytes) (cp : Nat) (h : hex4 a b c d = some cp)
    (hs : isHighSurr cp = false) :
    parseStr (0x5C :: 0x75 :: a :: b :: c :: d :: r) = consTo (Utf8.encodeRune cp) (parseStr r) := by
  rw [parseStr.eq_def]
  simp only []
  rw [if_neg (by decide), if_pos (by decide), if_pos (by decide)]
  simp only [h, hs]
  simp

theorem consTo_consTo (a b : Bytes) (x : Option (Bytes × Bytes)) :
    consTo a (consTo b x) = consTo (a ++ b) x := by
  cases x with
  | none => rfl
  | some p => simp [consTo]

theorem consTo_some (a s r : Bytes) : consTo a (some (s, r)) = some (a ++ s, r) := rfl

/-! ### the escape table, all 256 bytes -/

/-- what `esc1 c` may be: the byte itself (then it is plain), a two-character escape that
decodes to `c`, or `\u00XX` with `XX = c` (ASCII) -/
def escCheck (c : UInt8) : Bool :=
  match esc1 c with
  | [x] => x == c && plain c
  | [bs, x] => bs == 0x5C && x != 0x75 && simpleEsc x == some c
  | [bs, u, a, b, c2, d] =>
    bs == 0x5C && u == 0x75 && hex4 a b c2 d == some c.toNat && decide (c.toNat < 0x80)
  | _ => false

theorem escCheck_all : allBytes escCheck = true := by decide +kernel

theorem encodeRune_ascii (c : UInt8) (h : c.toNat < 0x80) : Utf8.encodeRune c.toNat = [c] := by
  unfold Utf8.encodeRune
  simp [h]

theorem parseStr_esc1 (c : UInt8) (t : Bytes) :
    parseStr (esc1 c ++ t) = consTo [c] (parseStr t) := by
  have h := allBytes_spec escCheck_all c
  unfold escCheck at h
  split at h
  · rename_i x hx
    simp only [Bool.and_eq_true, beq_iff_eq] at h
    rw [hx, h.1]; exact parseStr_plain c t h.2
  · rename_i bs x hx
    simp only [Bool.and_eq_true, beq_iff_eq, bne_iff_ne, ne_eq] at h
    obtain ⟨⟨h1, h2⟩, h3⟩ := h
    rw [hx, h1]
    exact parseStr_simple x c t h2 h3
  · rename_i bs u a b c2 d hx
    simp only [Bool.and_eq_true, beq_iff_eq, decide_eq_true_eq] at h
    obtain ⟨⟨⟨h1, h2⟩, h3⟩, h4⟩ := h
    rw [hx, h1, h2]
    have hs : isHighSurr c.toNat = false := by
      unfold isHighSurr; simp; omega
    have := parseStr_u a b c2 d t c.toNat h3 hs
    rw [encodeRune_ascii c h4] at this
    exact this
  · exact absurd h (by simp)

theorem parseStr_escLS (b2 : UInt8) (t : Bytes) (h : b2 = 0xA8 ∨ b2 = 0xA9) :
    parseStr (escLS b2 ++ t) = consTo [0xE2, 0x80, b2] (parseStr t) := by
  rcases h with h | h <;> subst h
  · have := parseStr_u 0x32 0x30 0x32 0x38 t 0x2028 (by decide) (by decide)
    have e : Utf8.encodeRune 0x2028 = [0xE2, 0x80, 0xA8] := by decide
    rw [e] at this
    exact this
  · have := parseStr_u 0x32 0x30 0x32 0x39 t 0x2029 (by decide) (by decide)
    have e : Utf8.encodeRune 0x2029 = [0xE2, 0x80, 0xA9] := by decide
    rw [e] at this
    exact this

/-! ### the whole string body -/

theorem jsStrEsc_nil : jsStrEsc [] = [] := by rw [jsStrEsc.eq_def]

theorem jsStrEsc_cons_ls (b2 : UInt8) (r : Bytes) (h : b2 = 0xA8 ∨ b2 = 0xA9) :
    jsStrEsc (0xE2 :: 0x80 :: b2 :: r) = escLS b2 ++ jsStrEsc r := by
  rw [jsStrEsc.eq_def]
  rcases h with h | h <;> subst h <;> simp

theorem jsStrEsc_cons_plain (c : UInt8) (r : Bytes)
    (h : ¬ ∃ b2 r2, c = 0xE2 ∧ r = 0x80 :: b2 :: r2 ∧ (b2 = 0xA8 ∨ b2 = 0xA9)) :
    jsStrEsc (c :: r) = esc1 c ++ jsStrEsc r := by
  rw [jsStrEsc.eq_def]
  simp only []
  split
  · rename_i b1 b2 r2
    split
    · rename_i hc
      simp only [Bool.and_eq_true, beq_iff_eq, Bool.or_eq_true] at hc
      exact absurd ⟨b2, r2, hc.1.1, by rw [hc.1.2], hc.2⟩ h
    · rfl
  · rfl

/-- **string bodies round-trip**: for every byte string `s`, the JSON string decoder applied to
the escaped body followed by the closing quote gives `s` back and stops after the quote. -/
theorem parseStr_jsStrEsc (s rest : Bytes) :
    parseStr (jsStrEsc s ++ 0x22 :: rest) = some (s, rest) := by
  induction hn : s.length using Nat.strongRecOn generalizing s with
  | _ n ih =>
    cases s with
    | nil => rw [jsStrEsc_nil]; exact parseStr_quote rest
    | cons c r =>
      by_cases h : ∃ b2 r2, c = 0xE2 ∧ r = 0x80 :: b2 :: r2 ∧ (b2 = 0xA8 ∨ b2 = 0xA9)
      · obtain ⟨b2, r2, hc, hr, hb⟩ := h
        subst hc hr
        rw [jsStrEsc_cons_ls b2 r2 hb, List.append_assoc, parseStr_escLS b2 _ hb,
          ih r2.length (by simp at hn; omega) r2 rfl]
        rfl
      · rw [jsStrEsc_cons_plain c r h, List.append_assoc, parseStr_esc1,
          ih r.length (by simp at hn; omega) r rfl]
        rfl

/-- a body of plain bytes decodes to itself -/
theorem parseStr_plain_all (s rest : Bytes) (h : s.all plain = true) :
    parseStr (s ++ 0x22 :: rest) = some (s, rest) := by
  induction s with
  | nil => exact parseStr_quote rest
  | cons c r ih =>
    simp only [List.all_cons, Bool.and_eq_true] at h
    rw [List.cons_append, parseStr_plain c _ h.1, ih h.2]
    rfl

/-! ### base64 bodies are plain -/

def b64Plain (n : Nat) : Bool := plain (b64Char n)

theorem b64Char_plain (n : Nat) : plain (b64Char n) = true := by
  have h : ∀ k, k < 64 → plain (b64Char k) = true := by decide
  have : b64Char n = b64Char (n % 64) := by unfold b64Char; simp
  rw [this]; exact h _ (Nat.mod_lt _ (by decide))

theorem base64_plain (b : Bytes) : (base64 b).all plain = true := by
  induction hn : b.length using Nat.strongRecOn generalizing b with
  | _ n ih =>
    match b with
    | [] => simp [base64]
    | [a] => simp [base64, b64Char_plain]; decide
    | [a, c] => simp [base64, b64Char_plain]; decide
    | a :: c :: d :: r =>
      rw [base64]
      simp only [List.cons_append, List.nil_append, List.all_cons, b64Char_plain, Bool.true_and]
      exact ih r.length (by simp at hn; omega) r rfl

/-! ### decimal integers -/

theorem toUInt8_toNat (n : Nat) (h : n < 256) : n.toUInt8.toNat = n := by
  simp [Nat.toUInt8]
  omega

theorem isDigit_digitChar (n : Nat) : isDigit (digitChar n) = true := by
  unfold isDigit digitChar
  have : n % 10 < 10 := Nat.mod_lt _ (by decide)
  rw [toUInt8_toNat _ (by omega)]
  simp
  omega

theorem digitChar_ne_zero (n : Nat) (h : n % 10 ≠ 0) : digitChar n ≠ 0x30 := by
  unfold digitChar
  have : n % 10 < 10 := Nat.mod_lt _ (by decide)
  intro e
  have e2 := toUInt8_toNat (48 + n % 10) (by omega)
  rw [e] at e2
  simp at e2
  omega

/-- shape of `natDigits n`: all digits, non-empty, and the first is `0` only for `n = 0` -/
theorem natDigits_shape (n : Nat) :
    ∃ d r, natDigits n = d :: r ∧ isDigit d = true ∧ r.all isDigit = true ∧
      (d = 0x30 → n = 0 ∧ r = []) := by
  induction n using Nat.strongRecOn with
  | _ n ih =>
    rw [natDigits]
    by_cases h : n < 10
    · simp only [h, if_true]
      refine ⟨digitChar n, [], rfl, isDigit_digitChar n, rfl, ?_⟩
      intro e
      refine ⟨?_, rfl⟩
      by_cases hz : n % 10 = 0
      · omega
      · exact absurd e (digitChar_ne_zero n hz)
    · simp only [h, if_false]
      obtain ⟨d, r, e, hd, hr, hz⟩ := ih (n / 10) (by omega)
      rw [e]
      refine ⟨d, r ++ [digitChar n], rfl, hd, ?_, ?_⟩
      · simp [hr, isDigit_digitChar]
      · intro e0
        have := (hz e0).1
        omega

theorem natDigits_all_digits (n : Nat) : (natDigits n).all isDigit = true := by
  obtain ⟨d, r, e, hd, hr, _⟩ := natDigits_shape n
  rw [e]; simp [hd, hr]

theorem dropWhile_all {p : UInt8 → Bool} (l : Bytes) (h : l.all p = true) : l.dropWhile p = [] := by
  induction l with
  | nil => rfl
  | cons a r ih =>
    simp only [List.all_cons, Bool.and_eq_true] at h
    simp [List.dropWhile, h.1, ih h.2]

theorem isUnsignedNumber_digits (d : UInt8) (r : Bytes) (hd : isDigit d = true)
    (hr : r.all isDigit = true) (hz : d = 0x30 → r = []) : isUnsignedNumber (d :: r) = true := by
  unfold isUnsignedNumber
  by_cases h0 : d = 0x30
  · rw [hz h0]; simp [h0, isFracExp]
  · have : (d == 0x30) = false := by simpa using h0
    simp [this, hd, dropWhile_all r hr, isFracExp]

theorem isNumber_natDigits (n : Nat) : isNumber (natDigits n) = true := by
  obtain ⟨d, r, e, hd, hr, hz⟩ := natDigits_shape n
  rw [e]
  unfold isNumber
  have : (d == 0x2D) = false := by
    cases hc : d == 0x2D with
    | false => rfl
    | true =>
      have := beq_iff_eq.mp hc
      subst this
      exact absurd hd (by decide)
  simp only [this]
  exact isUnsignedNumber_digits d r hd hr (fun h => (hz h).2)

theorem isNumber_fmtInt (i : Int) : isNumber (fmtInt i) = true := by
  unfold fmtInt
  split
  · obtain ⟨d, r, e, hd, hr, hz⟩ := natDigits_shape i.natAbs
    rw [e]
    unfold isNumber
    simp only [beq_self_eq_true, if_true]
    exact isUnsignedNumber_digits d r hd hr (fun h => (hz h).2)
  · exact isNumber_natDigits _

theorem isNumChar_of_isDigit (c : UInt8) (h : isDigit c = true) : isNumChar c = true := by
  unfold isNumChar; simp [h]

theorem fmtInt_all_numChar (i : Int) : (fmtInt i).all isNumChar = true := by
  have h : ∀ n, (natDigits n).all isNumChar = true := by
    intro n
    have := natDigits_all_digits n
    rw [List.all_eq_true] at this ⊢
    intro c hc
    exact isNumChar_of_isDigit c (this c hc)
  unfold fmtInt
  split
  · simp [h]; decide
  · exact h _

theorem natDigits_all_numChar (n : Nat) : (natDigits n).all isNumChar = true := by
  have := natDigits_all_digits n
  rw [List.all_eq_true] at this ⊢
  intro c hc
  exact isNumChar_of_isDigit c (this c hc)

theorem natDigits_ne_nil (n : Nat) : natDigits n ≠ [] := by
  obtain ⟨d, r, e, _⟩ := natDigits_shape n
  rw [e]; simp

theorem fmtInt_ne_nil (i : Int) : fmtInt i ≠ [] := by
  unfold fmtInt
  split
  · simp
  · exact natDigits_ne_nil _

end ScriggoV.ShowValue
