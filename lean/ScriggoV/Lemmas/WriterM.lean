import ScriggoV.Model.WriterM
namespace ScriggoV.WriterM

theorem run_checked_aux (k : Nat) (p : Prog) (hc : Checked p) : ∀ n, n < k →
    (k ≤ n + (chunks p).length →
      run k p n = ⟨(chunks p).take (k - n - 1), k, .writeErr⟩) ∧
    (n + (chunks p).length < k →
      run k p n = ⟨chunks p, n + (chunks p).length, okRet p⟩) := by
  induction p with
  | ret r =>
    intro n hn
    constructor
    · intro h; simp [chunks] at h; omega
    · intro _; simp [run, chunks, okRet]
  | write c onOk onErr ihOk _ =>
    intro n hn
    obtain ⟨he, hck⟩ := hc
    subst he
    simp only [chunks, List.length_cons]
    by_cases hk : n + 1 = k
    · constructor
      · intro _
        simp only [run, hk, if_true]
        have : k - n - 1 = 0 := by omega
        simp [this]
      · intro h; omega
    · have hn' : n + 1 < k := by omega
      obtain ⟨h1, h2⟩ := ihOk hck (n + 1) hn'
      constructor
      · intro h
        simp only [run, hk, if_false]
        rw [h1 (by omega)]
        have : k - n - 1 = (k - (n + 1) - 1) + 1 := by omega
        rw [this, List.take_succ_cons]
      · intro h
        simp only [run, hk, if_false]
        rw [h2 (by omega)]
        simp [okRet]; omega

theorem run_never_fails (p : Prog) : ∀ n, run 0 p n = ⟨chunks p, n + (chunks p).length, okRet p⟩ := by
  induction p with
  | ret r => intro n; simp [run, chunks, okRet]
  | write c onOk onErr ihOk _ =>
    intro n
    simp only [run, chunks, okRet, List.length_cons]
    have : ¬ (n + 1 = 0) := by omega
    simp only [this, if_false]
    rw [ihOk]
    simp; omega

theorem checked_ofChunks (cs : List Bytes) : Checked (ofChunks cs) := by
  induction cs with
  | nil => trivial
  | cons c cs ih => exact ⟨rfl, ih⟩

theorem chunks_ofChunks (cs : List Bytes) : chunks (ofChunks cs) = cs := by
  induction cs with
  | nil => rfl
  | cons c cs ih => simp [ofChunks, chunks, ih]

theorem okRet_ofChunks (cs : List Bytes) : okRet (ofChunks cs) = .ok := by
  induction cs with
  | nil => rfl
  | cons c cs ih => simp [ofChunks, okRet, ih]

theorem seq_ret_writeErr (q : Prog) : seq (.ret .writeErr) q = .ret .writeErr := rfl

theorem checked_seq (p q : Prog) (hp : Checked p) (hq : Checked q) : Checked (seq p q) := by
  induction p with
  | ret r => cases r <;> simp [seq, Checked, hq]
  | write c a b iha _ =>
    obtain ⟨hb, ha⟩ := hp
    subst hb
    exact ⟨rfl, iha ha⟩

theorem chunks_seq (p q : Prog) (hp : okRet p = .ok) : chunks (seq p q) = chunks p ++ chunks q := by
  induction p with
  | ret r => simp [okRet] at hp; subst hp; simp [seq, chunks]
  | write c a b iha _ => simp [seq, chunks, iha (by simpa [okRet] using hp)]

theorem okRet_seq (p q : Prog) (hp : okRet p = .ok) : okRet (seq p q) = okRet q := by
  induction p with
  | ret r => simp [okRet] at hp; subst hp; simp [seq]
  | write c a b iha _ => simp [seq, okRet, iha (by simpa [okRet] using hp)]

theorem checked_seqAll (ps : List Prog) (h : ∀ p ∈ ps, Checked p) : Checked (seqAll ps) := by
  induction ps with
  | nil => trivial
  | cons p ps ih =>
    exact checked_seq p _ (h p List.mem_cons_self) (ih fun q hq => h q (List.mem_cons_of_mem _ hq))

theorem chunks_seqAll (ps : List Prog) (h : ∀ p ∈ ps, okRet p = .ok) :
    chunks (seqAll ps) = (ps.map chunks).flatten ∧ okRet (seqAll ps) = .ok := by
  induction ps with
  | nil => exact ⟨rfl, rfl⟩
  | cons p ps ih =>
    have hp := h p List.mem_cons_self
    obtain ⟨i1, i2⟩ := ih fun q hq => h q (List.mem_cons_of_mem _ hq)
    exact ⟨by simp [seqAll, chunks_seq _ _ hp, i1], by simp [seqAll, okRet_seq _ _ hp, i2]⟩

end ScriggoV.WriterM
