import ScriggoV.Model.Files
/-! Helper lemmas for C23: the string order and `sort.Strings`, path elements and `fs.ValidPath`,
UTF-8 validity of a prefix cut at a slash, `IndexByte`, the `ReadDir` loop invariants, `path.Base`. -/
namespace ScriggoV.Files

/-! ### Go string order -/

theorem bytesLe_refl (a : Bytes) : bytesLe a a = true := by
  induction a with
  | nil => rfl
  | cons x r ih => simp [bytesLe, ih]

theorem bytesLe_cons (x y : UInt8) (r s : Bytes) :
    bytesLe (x :: r) (y :: s) = true ↔ x.toNat < y.toNat ∨ (x.toNat = y.toNat ∧ bytesLe r s = true) := by
  simp only [bytesLe]
  by_cases h1 : x.toNat < y.toNat
  · simp [h1]
  · by_cases h2 : x.toNat = y.toNat
    · rw [if_neg h1, if_pos h2]
      constructor
      · intro h; exact Or.inr ⟨h2, h⟩
      · rintro (h | h)
        · exact absurd h h1
        · exact h.2
    · rw [if_neg h1, if_neg h2]
      constructor
      · intro h; cases h
      · rintro (h | h)
        · exact absurd h h1
        · exact absurd h.1 h2

theorem bytesLe_total (a b : Bytes) : bytesLe a b = true ∨ bytesLe b a = true := by
  induction a generalizing b with
  | nil => left; rfl
  | cons x r ih =>
    cases b with
    | nil => right; rfl
    | cons y s =>
      rw [bytesLe_cons, bytesLe_cons]
      rcases Nat.lt_trichotomy x.toNat y.toNat with h | h | h
      · exact Or.inl (Or.inl h)
      · rcases ih s with h' | h'
        · exact Or.inl (Or.inr ⟨h, h'⟩)
        · exact Or.inr (Or.inr ⟨h.symm, h'⟩)
      · exact Or.inr (Or.inl h)

theorem bytesLe_trans (a b c : Bytes) (h1 : bytesLe a b = true) (h2 : bytesLe b c = true) :
    bytesLe a c = true := by
  induction a generalizing b c with
  | nil => rfl
  | cons x r ih =>
    cases b with
    | nil => simp [bytesLe] at h1
    | cons y s =>
      cases c with
      | nil => simp [bytesLe] at h2
      | cons z t =>
        rw [bytesLe_cons] at h1 h2 ⊢
        rcases h1 with h1 | ⟨h1, h1'⟩
        · rcases h2 with h2 | ⟨h2, _⟩
          · exact Or.inl (by omega)
          · exact Or.inl (by omega)
        · rcases h2 with h2 | ⟨h2, h2'⟩
          · exact Or.inl (by omega)
          · exact Or.inr ⟨by omega, ih s t h1' h2'⟩

theorem bytesLe_antisymm (a b : Bytes) (h1 : bytesLe a b = true) (h2 : bytesLe b a = true) :
    a = b := by
  induction a generalizing b with
  | nil =>
    cases b with
    | nil => rfl
    | cons y s => simp [bytesLe] at h2
  | cons x r ih =>
    cases b with
    | nil => simp [bytesLe] at h1
    | cons y s =>
      rw [bytesLe_cons] at h1 h2
      rcases h1 with h1 | ⟨h1, h1'⟩
      · rcases h2 with h2 | ⟨h2, _⟩ <;> omega
      · rcases h2 with h2 | ⟨_, h2'⟩
        · omega
        · rw [ih s h1' h2', UInt8.toNat_inj.1 h1]

/-- common prefixes do not matter for the order -/
theorem bytesLe_append_left (p a b : Bytes) : bytesLe (p ++ a) (p ++ b) = bytesLe a b := by
  induction p with
  | nil => rfl
  | cons x r ih =>
    rw [List.cons_append, List.cons_append, Bool.eq_iff_iff, bytesLe_cons, ih]
    simp

/-! ### `sort.Strings` -/

theorem insertSorted_perm (x : Bytes) (l : List Bytes) : (insertSorted x l).Perm (x :: l) := by
  induction l with
  | nil => exact List.Perm.refl _
  | cons y r ih =>
    simp only [insertSorted]
    split
    · exact List.Perm.refl _
    · exact (List.Perm.cons y ih).trans (List.Perm.swap x y r)

theorem sortStrings_perm (l : List Bytes) : (sortStrings l).Perm l := by
  induction l with
  | nil => exact List.Perm.refl _
  | cons x r ih =>
    simp only [sortStrings]
    exact (insertSorted_perm x _).trans (List.Perm.cons x ih)

theorem insertSorted_sorted (x : Bytes) (l : List Bytes)
    (h : l.Pairwise (fun a b => bytesLe a b = true)) :
    (insertSorted x l).Pairwise (fun a b => bytesLe a b = true) := by
  induction l with
  | nil => simp [insertSorted]
  | cons y r ih =>
    simp only [insertSorted]
    rw [List.pairwise_cons] at h
    split
    · rename_i hxy
      rw [List.pairwise_cons]
      refine ⟨?_, List.pairwise_cons.2 h⟩
      intro z hz
      rcases List.mem_cons.1 hz with rfl | hz
      · exact hxy
      · exact bytesLe_trans _ _ _ hxy (h.1 z hz)
    · rename_i hxy
      have hyx : bytesLe y x = true := by
        rcases bytesLe_total x y with h' | h'
        · exact absurd h' hxy
        · exact h'
      rw [List.pairwise_cons]
      refine ⟨?_, ih h.2⟩
      intro z hz
      have := (insertSorted_perm x r).mem_iff.1 hz
      rcases List.mem_cons.1 this with rfl | hz
      · exact hyx
      · exact h.1 z hz

theorem sortStrings_sorted (l : List Bytes) :
    (sortStrings l).Pairwise (fun a b => bytesLe a b = true) := by
  induction l with
  | nil => simp [sortStrings]
  | cons x r ih => exact insertSorted_sorted x _ ih

/-- strictly increasing: sorted and no name twice -/
def StrictSorted (l : List Bytes) : Prop := l.Pairwise (fun a b => bytesLe a b = true ∧ a ≠ b)

theorem sortStrings_strict (l : List Bytes) (h : l.Nodup) : StrictSorted (sortStrings l) := by
  have h1 := sortStrings_sorted l
  have h2 : (sortStrings l).Nodup := (sortStrings_perm l).nodup_iff.2 h
  exact List.Pairwise.and h1 h2

/-! ### path elements and `fs.ValidPath` -/

theorem splitSlash_append_slash (a b cur : Bytes) :
    splitSlash (a ++ slash :: b) cur = splitSlash a cur ++ splitSlash b [] := by
  induction a generalizing cur with
  | nil => simp [splitSlash]
  | cons x r ih =>
    simp only [List.cons_append, splitSlash]
    split
    · simp [ih]
    · exact ih _

theorem splitSlash_seg (c cur : Bytes) (h : slash ∉ c) : splitSlash c cur = [cur ++ c] := by
  induction c generalizing cur with
  | nil => simp [splitSlash]
  | cons x r ih =>
    have hx : x ≠ slash := fun hc => h (by simp [hc])
    have hr : slash ∉ r := fun hc => h (List.mem_cons_of_mem _ hc)
    simp [splitSlash, hx, ih _ hr]

theorem elemsOK_append_slash (a b : Bytes) :
    elemsOK (a ++ slash :: b) = (elemsOK a && elemsOK b) := by
  simp [elemsOK, splitSlash_append_slash, List.all_append]

theorem elemsOK_nil : elemsOK [] = false := by decide

theorem elemsOK_dot : elemsOK [dot] = false := by decide

theorem validPath_elemsOK (k : Bytes) (h : validPath k = true) (hd : k ≠ [dot]) : elemsOK k = true := by
  simp only [validPath, Bool.and_eq_true, Bool.or_eq_true, decide_eq_true_eq] at h
  rcases h.2 with h | h
  · exact absurd h hd
  · exact h

/-! ### `utf8.ValidString` of a prefix cut before an ASCII byte -/

theorem lead_lo (c : UInt8) (lo hi k : Nat) (h : lead c = some (lo, hi, k)) : 0x80 ≤ lo := by
  unfold lead at h
  simp only at h
  repeat' split at h
  all_goals first | (cases h; omega) | cases h

/-- a valid UTF-8 string cut just before an ASCII byte is valid UTF-8 -/
theorem utf8Step_prefix (c : UInt8) (hc : c.toNat < 0x80) (b a : Bytes) :
    ∀ (n lo hi : Nat), (0 < n → 0x80 ≤ lo) → utf8Step n lo hi (a ++ c :: b) = true →
      utf8Step n lo hi a = true := by
  induction a with
  | nil =>
    intro n lo hi hlo h
    cases n with
    | zero => rfl
    | succ n =>
      have := hlo (by omega)
      simp only [List.nil_append, utf8Step] at h
      rw [if_neg (by omega)] at h
      cases h
  | cons x r ih =>
    intro n lo hi hlo h
    cases n with
    | zero =>
      simp only [List.cons_append, utf8Step] at h ⊢
      by_cases hx : x.toNat < 0x80
      · rw [if_pos hx] at h ⊢
        exact ih 0 0 0 (by omega) h
      · rw [if_neg hx] at h ⊢
        rcases hl : lead x with _ | ⟨lo', hi', k⟩
        · rw [hl] at h; cases h
        · rw [hl] at h
          exact ih (k + 1) lo' hi' (fun _ => lead_lo x lo' hi' k hl) h
    | succ n =>
      simp only [List.cons_append, utf8Step] at h ⊢
      by_cases hx : lo ≤ x.toNat ∧ x.toNat ≤ hi
      · rw [if_pos hx] at h ⊢
        exact ih n 0x80 0xBF (fun _ => Nat.le_refl _) h
      · rw [if_neg hx] at h; cases h

theorem utf8OK_prefix (a b : Bytes) (h : utf8OK (a ++ slash :: b) = true) : utf8OK a = true :=
  utf8Step_prefix slash (by decide) b a 0 0 0 (by omega) h

/-- **a directory prefix of a valid path is a valid path** (and is not ".") -/
theorem validPath_prefix (a b : Bytes) (h : validPath (a ++ slash :: b) = true) :
    validPath a = true ∧ a ≠ [dot] ∧ elemsOK a = true ∧ elemsOK b = true := by
  have hne : a ++ slash :: b ≠ [dot] := by
    intro hc
    have := congrArg List.length hc
    cases a with
    | nil => simp at hc; exact absurd hc.1 (by decide)
    | cons x r => simp at this
  have he := validPath_elemsOK _ h hne
  rw [elemsOK_append_slash, Bool.and_eq_true] at he
  have hu : utf8OK (a ++ slash :: b) = true := by
    simp only [validPath, Bool.and_eq_true] at h; exact h.1
  refine ⟨?_, ?_, he.1, he.2⟩
  · simp [validPath, utf8OK_prefix a b hu, he.1]
  · intro hc; rw [hc, elemsOK_dot] at he; exact absurd he.1 (by decide)

/-! ### `strings.IndexByte` -/

theorem indexByte_none (s : Bytes) (c : UInt8) (h : indexByte s c = none) : c ∉ s := by
  induction s with
  | nil => simp
  | cons x r ih =>
    simp only [indexByte] at h
    by_cases hx : x = c
    · simp [hx] at h
    · simp only [hx, if_false, Option.map_eq_none_iff] at h
      intro hc
      rcases List.mem_cons.1 hc with rfl | hc
      · exact hx rfl
      · exact ih h hc

theorem indexByte_some (s : Bytes) (c : UInt8) (i : Nat) (h : indexByte s c = some i) :
    ∃ a b, s = a ++ c :: b ∧ c ∉ a ∧ a.length = i := by
  induction s generalizing i with
  | nil => simp [indexByte] at h
  | cons x r ih =>
    simp only [indexByte] at h
    by_cases hx : x = c
    · simp only [hx, if_true, Option.some.injEq] at h
      exact ⟨[], r, by simp [hx], by simp, by simp [h]⟩
    · simp only [hx, if_false, Option.map_eq_some_iff] at h
      obtain ⟨j, hj, rfl⟩ := h
      obtain ⟨a, b, hs, hn, hl⟩ := ih j hj
      refine ⟨x :: a, b, by simp [hs], ?_, by simp [hl]⟩
      intro hc
      rcases List.mem_cons.1 hc with rfl | hc
      · exact hx rfl
      · exact hn hc

theorem indexByte_of_not_mem (s : Bytes) (c : UInt8) (h : c ∉ s) : indexByte s c = none := by
  induction s with
  | nil => rfl
  | cons x r ih =>
    have hx : x ≠ c := fun hc => h (by simp [hc])
    simp [indexByte, hx, ih (fun hc => h (List.mem_cons_of_mem _ hc))]

theorem indexByte_append (a b : Bytes) (c : UInt8) (h : c ∉ a) :
    indexByte (a ++ c :: b) c = some a.length := by
  induction a with
  | nil => simp [indexByte]
  | cons x r ih =>
    have hx : x ≠ c := fun hc => h (by simp [hc])
    simp [indexByte, hx, ih (fun hc => h (List.mem_cons_of_mem _ hc))]

/-! ### one loop iteration of `ReadDir`: `child` -/

/-- a path element: non-empty, no slash -/
def Seg (c : Bytes) : Prop := c ≠ [] ∧ slash ∉ c

/-- `dir` is `""` (the root) or ends with a slash -/
def DirOK (dir : Bytes) : Prop := dir = [] ∨ ∃ d, dir = d ++ [slash]

theorem dirOK_dirPrefix (name : Bytes) : DirOK (dirPrefix name) := by
  unfold dirPrefix
  split
  · exact Or.inl rfl
  · exact Or.inr ⟨name, rfl⟩

theorem child_file_of_seg (dir c : Bytes) (hc : Seg c) :
    child dir (dir ++ c) = some (dir ++ c, false) := by
  have hp : dir.isPrefixOf (dir ++ c) = true := List.isPrefixOf_iff_prefix.2 (List.prefix_append _ _)
  simp only [child, hp, if_true, List.drop_left, indexByte_of_not_mem c slash hc.2]

theorem child_dir_of_seg (dir c t : Bytes) (hc : Seg c) :
    child dir (dir ++ c ++ slash :: t) = some (dir ++ c, true) := by
  have hp : dir.isPrefixOf (dir ++ c ++ slash :: t) = true :=
    List.isPrefixOf_iff_prefix.2 ⟨c ++ slash :: t, by simp⟩
  have hd : (dir ++ c ++ slash :: t).drop dir.length = c ++ slash :: t := by
    rw [List.append_assoc]; exact List.drop_left
  have hl : 0 < c.length := List.length_pos_iff.2 hc.1
  have ht : (dir ++ c ++ slash :: t).take (dir.length + c.length) = dir ++ c := by
    rw [← List.length_append]; exact List.take_left
  simp only [child, hp, if_true, hd, indexByte_append c t slash hc.2, hl, gt_iff_lt, ht]

theorem child_some (dir key nm : Bytes) (b : Bool) (h : child dir key = some (nm, b)) :
    dir <+: key ∧ ((b = false ∧ nm = key) ∨
      (b = true ∧ ∃ c t, Seg c ∧ nm = dir ++ c ∧ key = dir ++ c ++ slash :: t)) := by
  unfold child at h
  by_cases hp : dir.isPrefixOf key = true
  · have hpre := List.isPrefixOf_iff_prefix.1 hp
    refine ⟨hpre, ?_⟩
    rw [if_pos hp] at h
    cases hi : indexByte (key.drop dir.length) slash with
    | none =>
      rw [hi] at h
      simp only [Option.some.injEq, Prod.mk.injEq] at h
      exact Or.inl ⟨h.2.symm, h.1.symm⟩
    | some i =>
      rw [hi] at h
      by_cases hpos : i > 0
      · simp only [hpos, if_true, Option.some.injEq, Prod.mk.injEq] at h
        obtain ⟨a, t, hs, hn, hl⟩ := indexByte_some _ _ _ hi
        have hkey : key = dir ++ a ++ slash :: t := by
          have := List.prefix_iff_eq_append.1 hpre
          rw [hs] at this
          rw [← this]; simp
        refine Or.inr ⟨h.2.symm, a, t, ⟨?_, hn⟩, ?_, hkey⟩
        · intro ha; subst ha; simp at hl; omega
        · rw [← h.1, hkey, ← hl, ← List.length_append]; exact List.take_left
      · simp only [hpos, if_false, Option.some.injEq, Prod.mk.injEq] at h
        exact Or.inl ⟨h.2.symm, h.1.symm⟩
  · rw [if_neg hp] at h; cases h

/-- on a valid key below `dir` the loop yields the key itself exactly when the rest of the key is
one element, and never the `i == 0` case -/
theorem child_valid (dir key : Bytes) (hd : DirOK dir) (hv : validPath key = true) (hk : key ≠ [dot])
    (hp : dir <+: key) :
    ∃ c, Seg c ∧ ((child dir key = some (key, false) ∧ key = dir ++ c) ∨
      (∃ t, child dir key = some (dir ++ c, true) ∧ key = dir ++ c ++ slash :: t)) := by
  obtain ⟨rest, hrest⟩ := hp
  have he := validPath_elemsOK key hv hk
  have her : elemsOK rest = true := by
    rcases hd with hd | ⟨d, hd⟩
    · subst hd; simpa [← hrest] using he
    · subst hd
      rw [← hrest, List.append_assoc, List.singleton_append, elemsOK_append_slash, Bool.and_eq_true] at he
      exact he.2
  cases hi : indexByte rest slash with
  | none =>
    have hn := indexByte_none _ _ hi
    have hne : rest ≠ [] := by intro hc; rw [hc, elemsOK_nil] at her; cases her
    refine ⟨rest, ⟨hne, hn⟩, Or.inl ⟨?_, hrest.symm⟩⟩
    rw [← hrest]; exact child_file_of_seg dir rest ⟨hne, hn⟩
  | some i =>
    obtain ⟨a, t, hs, hn, _⟩ := indexByte_some _ _ _ hi
    rw [hs, elemsOK_append_slash, Bool.and_eq_true] at her
    have hne : a ≠ [] := by intro hc; rw [hc, elemsOK_nil] at her; cases her.1
    refine ⟨a, ⟨hne, hn⟩, Or.inr ⟨t, ?_, ?_⟩⟩
    · rw [← hrest, hs, ← List.append_assoc]; exact child_dir_of_seg dir a t ⟨hne, hn⟩
    · rw [← hrest, hs, List.append_assoc]

/-! ### the loop: `collect` -/

theorem exists_mem_cons_iff {α : Type} (a : α) (l : List α) (P : α → Prop) :
    (∃ x ∈ a :: l, P x) ↔ P a ∨ ∃ x ∈ l, P x := by simp

theorem collect_mem (dir : Bytes) (L : FS) (names hd : List Bytes) (hsub : ∀ x ∈ hd, x ∈ names) :
    (∀ nm, nm ∈ (collect dir L names hd).1 ↔
        nm ∈ names ∨ ∃ kv ∈ L, ∃ b, child dir kv.1 = some (nm, b)) ∧
    (∀ nm, nm ∈ (collect dir L names hd).2 ↔
        nm ∈ hd ∨ ∃ kv ∈ L, child dir kv.1 = some (nm, true)) := by
  induction L generalizing names hd with
  | nil => simp [collect]
  | cons kv r ih =>
    obtain ⟨key, data⟩ := kv
    simp only [collect]
    rcases hc : child dir key with _ | ⟨nm', _ | _⟩
    · obtain ⟨h1, h2⟩ := ih names hd hsub
      simp only [h1, h2, exists_mem_cons_iff, hc]
      simp
    · -- the key itself
      obtain ⟨h1, h2⟩ := ih (names ++ [nm']) hd (fun x hx => List.mem_append_left _ (hsub x hx))
      simp only [h1, h2, exists_mem_cons_iff, hc, List.mem_append, List.mem_singleton,
        Option.some.injEq, Prod.mk.injEq]
      constructor
      · intro nm
        constructor
        · rintro ((h | h) | h)
          · exact Or.inl h
          · exact Or.inr (Or.inl ⟨false, h.symm, rfl⟩)
          · exact Or.inr (Or.inr h)
        · rintro (h | ⟨b, h, _⟩ | h)
          · exact Or.inl (Or.inl h)
          · exact Or.inl (Or.inr h.symm)
          · exact Or.inr h
      · intro nm
        constructor
        · rintro (h | h)
          · exact Or.inl h
          · exact Or.inr (Or.inr h)
        · rintro (h | ⟨_, h⟩ | h)
          · exact Or.inl h
          · cases h
          · exact Or.inr h
    · -- a directory child
      dsimp only
      by_cases hin : nm' ∈ hd
      · rw [if_pos hin]
        obtain ⟨h1, h2⟩ := ih names hd hsub
        simp only [h1, h2, exists_mem_cons_iff, hc, Option.some.injEq, Prod.mk.injEq]
        constructor
        · intro nm
          constructor
          · rintro (h | h)
            · exact Or.inl h
            · exact Or.inr (Or.inr h)
          · rintro (h | ⟨b, h, _⟩ | h)
            · exact Or.inl h
            · subst h; exact Or.inl (hsub _ hin)
            · exact Or.inr h
        · intro nm
          constructor
          · rintro (h | h)
            · exact Or.inl h
            · exact Or.inr (Or.inr h)
          · rintro (h | ⟨h, _⟩ | h)
            · exact Or.inl h
            · subst h; exact Or.inl hin
            · exact Or.inr h
      · rw [if_neg hin]
        obtain ⟨h1, h2⟩ := ih (names ++ [nm']) (nm' :: hd) (by
          intro x hx
          rcases List.mem_cons.1 hx with rfl | hx
          · simp
          · exact List.mem_append_left _ (hsub x hx))
        simp only [h1, h2, exists_mem_cons_iff, hc, List.mem_append, List.mem_singleton,
          Option.some.injEq, Prod.mk.injEq]
        constructor
        · intro nm
          constructor
          · rintro ((h | h) | h)
            · exact Or.inl h
            · exact Or.inr (Or.inl ⟨true, h.symm, rfl⟩)
            · exact Or.inr (Or.inr h)
          · rintro (h | ⟨b, h, _⟩ | h)
            · exact Or.inl (Or.inl h)
            · exact Or.inl (Or.inr h.symm)
            · exact Or.inr h
        · intro nm
          constructor
          · intro h
            rcases h with h | h
            · rcases List.mem_cons.1 h with h | h
              · exact Or.inr (Or.inl ⟨h.symm, trivial⟩)
              · exact Or.inl h
            · exact Or.inr (Or.inr h)
          · rintro (h | ⟨h, _⟩ | h)
            · exact Or.inl (List.mem_cons_of_mem _ h)
            · exact Or.inl (h ▸ List.mem_cons_self)
            · exact Or.inr h

/-- no name is collected twice when keys are distinct and no key is a directory child -/
theorem collect_nodup (dir : Bytes) (L : FS) (names hd F : List Bytes)
    (h1 : names.Nodup)
    (h2 : ∀ x ∈ names, x ∈ hd ∨ x ∈ F)
    (h3 : (L.map Prod.fst).Nodup)
    (h4 : ∀ kv ∈ L, kv.1 ∉ F ∧ kv.1 ∉ hd)
    (h5 : ∀ kv ∈ L, ∀ x, child dir kv.1 = some (x, true) → x ∉ F ∧ x ∉ L.map Prod.fst) :
    (collect dir L names hd).1.Nodup := by
  induction L generalizing names hd F with
  | nil => simpa [collect] using h1
  | cons kv r ih =>
    obtain ⟨key, data⟩ := kv
    simp only [List.map_cons, List.nodup_cons] at h3
    have h4r : ∀ kv ∈ r, kv.1 ∉ F ∧ kv.1 ∉ hd := fun kv hkv => h4 kv (List.mem_cons_of_mem _ hkv)
    have h5r : ∀ kv ∈ r, ∀ x, child dir kv.1 = some (x, true) → x ∉ F ∧ x ∉ r.map Prod.fst := by
      intro kv hkv x hx
      have := h5 kv (List.mem_cons_of_mem _ hkv) x hx
      exact ⟨this.1, fun hc => this.2 (by simp only [List.map_cons]; exact List.mem_cons_of_mem _ hc)⟩
    simp only [collect]
    rcases hc : child dir key with _ | ⟨nm', _ | _⟩
    · exact ih names hd F h1 h2 h3.2 h4r h5r
    · -- file: nm' = key
      have hnm : nm' = key := by
        rcases (child_some dir key nm' false hc).2 with ⟨_, h⟩ | ⟨h, _⟩
        · exact h
        · cases h
      subst hnm
      have hk := h4 (nm', data) List.mem_cons_self
      apply ih (names ++ [nm']) hd (nm' :: F)
      · rw [List.nodup_append]
        refine ⟨h1, by simp, ?_⟩
        intro a ha b hb
        simp only [List.mem_singleton] at hb
        subst hb
        intro hab; subst hab
        rcases h2 a ha with h | h
        · exact hk.2 h
        · exact hk.1 h
      · intro x hx
        rcases List.mem_append.1 hx with hx | hx
        · rcases h2 x hx with h | h
          · exact Or.inl h
          · exact Or.inr (List.mem_cons_of_mem _ h)
        · simp only [List.mem_singleton] at hx; subst hx; exact Or.inr List.mem_cons_self
      · exact h3.2
      · intro kv hkv
        refine ⟨?_, (h4r kv hkv).2⟩
        intro hcm
        rcases List.mem_cons.1 hcm with h | h
        · exact h3.1 (h ▸ List.mem_map.2 ⟨kv, hkv, rfl⟩)
        · exact (h4r kv hkv).1 h
      · intro kv hkv x hx
        have := h5 kv (List.mem_cons_of_mem _ hkv) x hx
        refine ⟨?_, (h5r kv hkv x hx).2⟩
        intro hcm
        rcases List.mem_cons.1 hcm with h | h
        · exact this.2 (by simp [h])
        · exact this.1 h
    · dsimp only
      by_cases hin : nm' ∈ hd
      · rw [if_pos hin]
        exact ih names hd F h1 h2 h3.2 h4r h5r
      · rw [if_neg hin]
        have hx5 := h5 (key, data) List.mem_cons_self nm' hc
        apply ih (names ++ [nm']) (nm' :: hd) F
        · rw [List.nodup_append]
          refine ⟨h1, by simp, ?_⟩
          intro a ha b hb
          simp only [List.mem_singleton] at hb
          subst hb
          intro hab; subst hab
          rcases h2 a ha with h | h
          · exact hin h
          · exact hx5.1 h
        · intro x hx
          rcases List.mem_append.1 hx with hx | hx
          · rcases h2 x hx with h | h
            · exact Or.inl (List.mem_cons_of_mem _ h)
            · exact Or.inr h
          · simp only [List.mem_singleton] at hx; subst hx; exact Or.inl List.mem_cons_self
        · exact h3.2
        · intro kv hkv
          refine ⟨(h4r kv hkv).1, ?_⟩
          intro hcm
          rcases List.mem_cons.1 hcm with h | h
          · exact hx5.2 (by
              simp only [List.map_cons]
              exact List.mem_cons_of_mem _ (h ▸ List.mem_map.2 ⟨kv, hkv, rfl⟩))
          · exact (h4r kv hkv).2 h
        · exact h5r

/-! ### `path.Base` -/

theorem base_child (dir c : Bytes) (hd : DirOK dir) (hc : Seg c) : base (dir ++ c) = c := by
  have hne : dir ++ c ≠ [] := by
    intro h; exact hc.1 (List.append_eq_nil_iff.1 h).2
  obtain ⟨c', x, hcx⟩ : ∃ c' x, c = c' ++ [x] := by
    rcases List.eq_nil_or_concat c with h | ⟨c', x, h⟩
    · exact absurd h hc.1
    · exact ⟨c', x, by simpa using h⟩
  have hx : x ≠ slash := by
    intro h; apply hc.2; rw [hcx, h]; simp
  have hrev : (dir ++ c).reverse = x :: (c'.reverse ++ dir.reverse) := by
    rw [hcx]; simp
  have hdrop : ((dir ++ c).reverse.dropWhile (· = slash)) = (dir ++ c).reverse := by
    rw [hrev]; exact List.dropWhile_cons_of_neg (by simpa using hx)
  have htake : ((dir ++ c).reverse.takeWhile (· ≠ slash)) = c.reverse := by
    rw [List.reverse_append]
    rw [List.takeWhile_append_of_pos (by
      intro a ha
      have : a ∈ c := List.mem_reverse.1 ha
      simp only [ne_eq, decide_not, Bool.not_eq_eq_eq_not, Bool.not_true, decide_eq_false_iff_not]
      intro h; exact hc.2 (h ▸ this))]
    rcases hd with hd | ⟨d, hd⟩
    · subst hd; simp
    · subst hd
      rw [List.reverse_append, List.reverse_singleton, List.singleton_append,
        List.takeWhile_cons_of_neg (by simp)]
      simp
  simp only [base, hne, if_false, hdrop, List.reverse_reverse, htake, hc.1]

end ScriggoV.Files
