import ScriggoV.Model.Struct
/-! Lemmas on field paths (`select` / `update`), struct equality and the selector-chain evaluator
of `Model/Struct.lean` (C01). -/
namespace ScriggoV.Struct

theorem select_append (p q : Path) (v : SVal) :
    select (p ++ q) v = (select p v).bind (select q) := by
  induction p generalizing v with
  | nil => simp [select]
  | cons i p ih =>
    simp only [List.cons_append, select]
    cases field i v with
    | none => simp
    | some c => simp [ih]

theorem field_setField_same {i : Nat} {x v v' : SVal} (h : setField i x v = some v') :
    field i v' = some x := by
  cases v with
  | int z => simp [setField] at h
  | node fs =>
    simp only [setField] at h
    split at h
    · rename_i hl
      cases h
      simp [field, hl]
    · cases h

theorem field_setField_ne {i j : Nat} {x v v' : SVal} (h : setField i x v = some v') (hij : i ≠ j) :
    field j v' = field j v := by
  cases v with
  | int z => simp [setField] at h
  | node fs =>
    simp only [setField] at h
    split at h
    · cases h
      simp [field, List.getElem?_set_ne hij]
    · cases h

theorem select_update_same {p : Path} {x v v' : SVal} (h : update p x v = some v') :
    select p v' = some x := by
  induction p generalizing v v' with
  | nil => simp [update] at h; simp [select, h]
  | cons i p ih =>
    simp only [update] at h
    cases hf : field i v with
    | none => simp [hf] at h
    | some c =>
      simp only [hf, Option.bind_some] at h
      cases hu : update p x c with
      | none => simp [hu] at h
      | some c' =>
        simp only [hu, Option.bind_some] at h
        simp [select, field_setField_same h, ih hu]

/-- the two paths part ways at some position (neither is a prefix of the other) -/
def diverge : Path → Path → Bool
  | i :: p, j :: q => if i = j then diverge p q else true
  | _, _ => false

theorem select_update_diverge {p q : Path} {x v v' : SVal} (hd : diverge p q = true)
    (h : update p x v = some v') : select q v' = select q v := by
  induction p generalizing q v v' with
  | nil => simp [diverge] at hd
  | cons i p ih =>
    cases q with
    | nil => simp [diverge] at hd
    | cons j q =>
      simp only [update] at h
      cases hf : field i v with
      | none => simp [hf] at h
      | some c =>
        simp only [hf, Option.bind_some] at h
        cases hu : update p x c with
        | none => simp [hu] at h
        | some c' =>
          simp only [hu, Option.bind_some] at h
          simp only [diverge] at hd
          by_cases hij : i = j
          · subst hij
            simp only [if_true] at hd
            simp [select, field_setField_same h, hf, ih hd hu]
          · simp [select, field_setField_ne h hij]

/-- writing through `p ++ q` is: take the part at `p`, write through `q` inside it, put it back -/
theorem update_append (p q : Path) (x v : SVal) :
    update (p ++ q) x v =
      (select p v).bind fun c => (update q x c).bind fun c' => update p c' v := by
  induction p generalizing v with
  | nil => simp [select, update]
  | cons i p ih =>
    simp only [List.cons_append, update, select]
    cases hf : field i v with
    | none => simp
    | some c =>
      simp only [Option.bind_some, ih]
      cases select p c with
      | none => simp
      | some d =>
        simp only [Option.bind_some]
        cases update q x d with
        | none => simp
        | some d' => simp

/-- after a write through the longer path `p ++ q`, the part at the PREFIX `p` is the old part
with `q` written in it (the promoted field is seen through the embedded struct) -/
theorem select_prefix_after_update {p q : Path} {x v v' : SVal} (h : update (p ++ q) x v = some v') :
    ∃ c c', select p v = some c ∧ update q x c = some c' ∧ select p v' = some c' := by
  rw [update_append] at h
  cases hs : select p v with
  | none => simp [hs] at h
  | some c =>
    simp only [hs, Option.bind_some] at h
    cases hu : update q x c with
    | none => simp [hu] at h
    | some c' =>
      simp only [hu, Option.bind_some] at h
      exact ⟨c, c', rfl, hu, select_update_same h⟩

mutual
theorem beq_iff_eq : ∀ a b : SVal, a.beq b = true ↔ a = b
  | .int x, .int y => by simp [SVal.beq]
  | .node as, .node bs => by simp [SVal.beq, beqList_iff_eq as bs]
  | .int _, .node _ => by simp [SVal.beq]
  | .node _, .int _ => by simp [SVal.beq]
theorem beqList_iff_eq : ∀ as bs : List SVal, beqList as bs = true ↔ as = bs
  | [], [] => by simp [beqList]
  | a :: as, b :: bs => by simp [beqList, beq_iff_eq a b, beqList_iff_eq as bs]
  | [], _ :: _ => by simp [beqList]
  | _ :: _, [] => by simp [beqList]
end

theorem eval_selChain (ρ : Env) (e : Expr) (ps : List Path) :
    eval ρ (selChain e ps) = (eval ρ e).bind (select ps.flatten) := by
  induction ps generalizing e with
  | nil => simp [selChain, select]
  | cons p ps ih =>
    simp only [selChain, ih, eval, List.flatten_cons]
    cases eval ρ e with
    | none => simp
    | some v => simp [select_append]

end ScriggoV.Struct
