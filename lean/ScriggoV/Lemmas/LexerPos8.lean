import ScriggoV.Lemmas.LexerPos7
/-! # Position invariant: delimiters, one step, the main loop, `scan` -/
namespace ScriggoV.Lexer
open ScriggoV ScriggoV.Gen.LexTables ScriggoV.Spec.Position

/-- a lexer error carries the line and column of its offset -/
def ErrPosOK (E : Env) (e : LexErr) : Prop := (e.line, e.col) = advance (E.text.take e.start) (1, 1)

theorem errorf_pos {E : Env} {st : St} (k : ErrKind) (h : PosAt E st st.base) : ErrPosOK E (errorf st k) := h

/-- what the position theorem assumes of `lexCode` (not proved: code regions are covered by the
correspondence harness and by the Go oracle on tokens and BuildErrors) -/
structure CodePosSpec (E : Env) : Prop where
  ok : ∀ (endT : Nat) (st st' : St) (e : Option LexErr), lexCode E endT st = .ok (st', e) →
    PosAt E st st.base → AllTok E st →
    AllTok E st' ∧ (∀ err, e = some err → ErrPosOK E err) ∧
    (e = none → PosAt E st' st'.base ∧
      (endT ≠ tokenEOF → PlainRun E st'.base (if endT = tokenEndStatements then 3 else 2)))

theorem emitAdv_pos {E : Env} {st st' : St} {typ n : Nat} (h : emitAdv E st typ n = .ok st') (hp : PosAt E st st.base)
    (ha : AllTok E st) (hrun : PlainRun E st.base n) : PosAt E st' st'.base ∧ AllTok E st' := by
  unfold emitAdv at h
  cases he : emit E st typ n with
  | error f => rw [he] at h; cases h
  | ok s1 =>
    rw [he] at h
    simp only [bind_ok, pure_eq_ok] at h
    cases h
    obtain ⟨a, b, l, c⟩ := emit_pos he hp ha
    refine ⟨?_, a⟩
    show PosAt E (addCol s1 n) s1.base
    rw [b]
    exact posAt_plain n (posAt_congr hp l c) hrun

theorem lexBlock_pos {E : Env} (hC : CodePosSpec E) {st st' : St} {e : Option LexErr} {openT closeT n : Nat}
    (h : lexBlock E st openT closeT n = .ok (st', e)) (hp : PosAt E st st.base) (ha : AllTok E st)
    (hrun : PlainRun E st.base n) (hne : closeT ≠ tokenEOF) (hn : n = if closeT = tokenEndStatements then 3 else 2) :
    AllTok E st' ∧ (∀ err, e = some err → ErrPosOK E err) ∧ (e = none → PosAt E st' st'.base) := by
  unfold lexBlock at h
  cases h1 : emitAdv E st openT n with
  | error f => rw [h1] at h; cases h
  | ok s1 =>
    rw [h1] at h
    simp only [bind_ok] at h
    obtain ⟨p1, a1⟩ := emitAdv_pos h1 hp ha hrun
    cases h2 : lexCode E closeT s1 with
    | error f => rw [h2] at h; cases h
    | ok r =>
      obtain ⟨s2, e2⟩ := r
      rw [h2] at h
      simp only [bind_ok] at h
      obtain ⟨a2, he2, hok⟩ := hC.ok closeT s1 s2 e2 h2 p1 a1
      cases e2 with
      | some err =>
        simp only [pure_eq_ok] at h
        cases h
        exact ⟨a2, he2, (fun hh => by cases hh)⟩
      | none =>
        simp only [] at h
        obtain ⟨p2, hrun2⟩ := hok rfl
        cases h3 : emitAdv E s2 closeT n with
        | error f => rw [h3] at h; cases h
        | ok s3 =>
          rw [h3] at h
          simp only [bind_ok, pure_eq_ok] at h
          cases h
          obtain ⟨p3, a3⟩ := emitAdv_pos h3 p2 a2 (by rw [hn]; exact hrun2 hne)
          exact ⟨a3, (fun err hh => by cases hh), fun _ => p3⟩

/-- what the outcome of a step gives for positions -/
def OutPos (E : Env) : Out → Prop
  | .cont st' lp' => PInv E st' lp' ∧ QuoteOK lp'.quote
  | .stop st' _ err => AllTok E st' ∧ ErrPosOK E err

theorem tok_eof_ne1 : tokenRightBraces ≠ tokenEOF := by decide
theorem tok_eof_ne2 : tokenEndStatement ≠ tokenEOF := by decide
theorem tok_eof_ne3 : tokenEndStatements ≠ tokenEOF := by decide

theorem delim_pos {E : Env} (hC : CodePosSpec E) {st : St} {lp : Loop} {which : Nat} {o : Out} (hI : PInv E st lp)
    (hq : QuoteOK lp.quote) (h0 : peek E st lp.p = some 0x7b)
    (h1 : (which = 0 ∧ peek E st (lp.p + 1) = some 0x7b) ∨ (which = 1 ∧ peek E st (lp.p + 1) = some 0x25) ∨
          (which = 2 ∧ peek E st (lp.p + 1) = some 0x23))
    (h : delim E st lp which = .ok o) : OutPos E o := by
  unfold delim at h
  cases hf : flushText E st lp with
  | error f => rw [hf] at h; cases h
  | ok s1 =>
    rw [hf] at h
    simp only [bind_ok] at h
    obtain ⟨p1, a1, b1, l1, c1⟩ := flushText_pos hI hf
    have hpk0 : peek E s1 0 = some 0x7b := by unfold peek at h0 ⊢; rw [b1]; simpa using h0
    have hpk1 : ∀ x, peek E st (lp.p + 1) = some x → peek E s1 1 = some x := by
      intro x hx; unfold peek at hx ⊢; rw [b1, Nat.add_assoc]; exact hx
    -- the block
    have hblock : ∀ (s2 : St) (e : Option LexErr),
        (if which = 0 then lexShow E s1
         else if which = 1 then (if peekIs E s1 2 0x25 = true then lexStatements E s1 else lexStatement E s1)
         else lexComment E s1) = .ok (s2, e) →
        AllTok E s2 ∧ (∀ err, e = some err → ErrPosOK E err) ∧ (e = none → PosAt E s2 s2.base) := by
      intro s2 e hb
      have run2 : ∀ x, peek E s1 1 = some x → plainByte x = true → PlainRun E s1.base 2 := by
        intro x hx hpl j hj
        rcases (by omega : j = 0 ∨ j = 1) with rfl | rfl
        · exact ⟨_, by simpa [peek] using hpk0, by decide⟩
        · exact ⟨x, hx, hpl⟩
      rcases h1 with ⟨hw, hx⟩ | ⟨hw, hx⟩ | ⟨hw, hx⟩
      · subst hw
        simp only [if_true] at hb
        exact lexBlock_pos hC hb p1 a1 (run2 _ (hpk1 _ hx) (by decide)) tok_eof_ne1 (by decide)
      · subst hw
        simp only [show (1 : Nat) ≠ 0 from by decide, if_false, if_true] at hb
        split at hb
        · rename_i h3
          have hx3 : peek E s1 2 = some 0x25 := by unfold peekIs at h3; simpa using h3
          refine lexBlock_pos hC hb p1 a1 ?_ tok_eof_ne3 (by decide)
          intro j hj
          rcases (by omega : j = 0 ∨ j = 1 ∨ j = 2) with rfl | rfl | rfl
          · exact ⟨_, by simpa [peek] using hpk0, by decide⟩
          · exact ⟨_, hpk1 _ hx, by decide⟩
          · exact ⟨_, hx3, by decide⟩
        · exact lexBlock_pos hC hb p1 a1 (run2 _ (hpk1 _ hx) (by decide)) tok_eof_ne2 (by decide)
      · subst hw
        simp only [show (2 : Nat) ≠ 0 from by decide, show (2 : Nat) ≠ 1 from by decide, if_false] at hb
        have hbl : s1.base ≤ E.text.length := by
          have := peek_some_lt hpk0; omega
        cases e with
        | some err =>
          -- "comment not terminated": reported where the comment starts
          unfold lexComment at hb
          cases hcl : commentLoop E s1 (srcLen E s1 + 2) 0 2 with
          | error f => rw [hcl] at hb; cases hb
          | ok r =>
            rw [hcl] at hb
            simp only [bind_ok] at hb
            cases r with
            | none =>
              simp only [fail_ok] at hb
              cases hb
              exact ⟨a1, (fun e' he => by cases he; exact errorf_pos _ p1), (fun hh => by cases hh)⟩
            | some q =>
              exfalso
              simp only [] at hb
              cases hw : walk E (q - 2 - 2) 2 (addCol s1 2) with
              | error f => rw [hw] at hb; cases hb
              | ok sa =>
                rw [hw] at hb
                simp only [bind_ok] at hb
                cases hem : emitAt E (addCol sa 2) s1.line s1.col tokenComment q with
                | error f => rw [hem] at hb; cases hb
                | ok sb => rw [hem] at hb; simp only [bind_ok, pure_eq_ok] at hb; cases hb
        | none =>
          obtain ⟨pc, tok, htk, htp, hts⟩ := lexComment_posAt hbl hpk0 (hpk1 _ hx) p1 hb
          refine ⟨?_, (fun err hh => by cases hh), fun _ => pc⟩
          intro t hm hne
          rw [htk] at hm
          rcases List.mem_cons.mp hm with rfl | hm'
          · rw [hts]; simpa using htp
          · exact a1 t hm' hne
    cases hb : (if which = 0 then lexShow E s1
         else if which = 1 then (if peekIs E s1 2 0x25 = true then lexStatements E s1 else lexStatement E s1)
         else lexComment E s1) with
    | error f => rw [hb] at h; cases h
    | ok r =>
      obtain ⟨s2, e⟩ := r
      rw [hb] at h
      simp only [bind_ok] at h
      obtain ⟨a2, he2, hp2⟩ := hblock s2 e hb
      cases e with
      | some err =>
        simp only [pure_eq_ok] at h
        cases h
        exact ⟨a2, he2 err rfl⟩
      | none =>
        simp only [] at h
        have p2 := hp2 rfl
        have base : ∀ (s : St) (p : Nat), s.base = s2.base → s.toks = s2.toks → PosAt E s (s.base + p) →
            PInv E s { resetTok s2 { lp with p := 0 } with p := p } := by
          intro s p hb' ht' hpos
          exact ⟨hpos, by show (s2.line, s2.col) = _; rw [hb']; exact p2, by intro t hm; rw [ht'] at hm; exact a2 t hm⟩
        have done0 : OutPos E (.cont s2 (resetTok s2 { lp with p := 0 })) :=
          ⟨base s2 0 rfl rfl (by simpa using p2), hq⟩
        split at h
        · cases hm : s2.rawMarker with
          | none => rw [hm] at h; simp only [pure_eq_ok] at h; cases h; exact done0
          | some m =>
            rw [hm] at h
            simp only [] at h
            cases hsk : skipRawContent E s2 m with
            | error f => rw [hsk] at h; cases h
            | ok r2 =>
              obtain ⟨s3, p3⟩ := r2
              rw [hsk] at h
              simp only [bind_ok, pure_eq_ok] at h
              cases h
              have pr := skipRawContent_posAt p2 hsk
              obtain ⟨s', p', hsk', hsame, _⟩ := skipRawContent_ok (E := E) (st := s2) m
              rw [hsk] at hsk'
              cases hsk'
              exact ⟨base s3 p3 hsame.base hsame.toks pr, hq⟩
        · simp only [pure_eq_ok] at h; cases h; exact done0

end ScriggoV.Lexer
