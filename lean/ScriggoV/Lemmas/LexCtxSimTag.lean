import ScriggoV.Lemmas.LexCtxSimLoops
/-! # C06 layer 2: one step of the context machine in the contexts HTML, Tag, attribute value

Core Lean only. -/
set_option linter.unusedSimpArgs false
namespace ScriggoV.LexCtx
open ScriggoV ScriggoV.Lexer ScriggoV.Gen.LexTables ScriggoV.HtmlTok

/-! ## generalities on `cstep` -/

theorem cstep_eq {U : Unicode} {text : Bytes} {s s1 : CSt} {c : UInt8} {b : Bool}
    (hc : text[s.pos]? = some c) (h : ctxSwitchP U text s c = (s1, b)) :
    cstep U text s = if b then tailP text s1 c else s1 := by
  simp only [cstep, hc, h]
  cases b <;> rfl

theorem tailP_cases (text : Bytes) (s : CSt) (c : UInt8) :
    (tailP text s c = { s with pos := s.pos + 1 } ∧ ¬ (c = 0x0a ∧ text[s.pos + 1]? = some 0x0d)) ∨
    (tailP text s c = { s with pos := s.pos + 2 } ∧ c = 0x0a ∧ text[s.pos + 1]? = some 0x0d) := by
  simp only [tailP]
  by_cases h1 : c = 0x0a
  · by_cases h2 : text[s.pos + 1]? = some 0x0d
    · right; simp [h1, h2]
    · left; simp [h1, h2]
  · left; simp [h1]

theorem StepOK.intro {U : Unicode} {text : Bytes} {n : Nat} {s s' : CSt} (he : cstep U text s = s')
    (h1 : s'.pos ≤ n) (h2 : R text s' (rs text s'.pos))
    (h3 : s.pos < s'.pos ∨ (s'.pos = s.pos ∧ s.ctx = ContextUnquotedAttr ∧ s'.ctx = ContextTag)) :
    StepOK U text n s := by
  subst he; exact ⟨h1, h2, h3⟩

theorem cr_ne_brace : (0x0d : UInt8) ≠ 0x7b := by decide

/-! ## context HTML -/

def htmlPlain : RSt → Prop
  | .data | .endTagOpen | .endTagName => True
  | _ => False

theorem HtmlRef_plain {text : Bytes} {pos : Nat} {r : RSt} (h : htmlPlain r) : HtmlRef text pos r := by
  cases r <;> simp [htmlPlain] at h <;> simp [HtmlRef]

theorem plain_step {r : RSt} {c : UInt8} (h : htmlPlain r) (hc : c ≠ 0x3c) (hg : rstep r c ≠ .bad) :
    htmlPlain (rstep r c) := by
  cases r <;> simp [htmlPlain] at h
  · simp [rstep, hc, htmlPlain]
  · by_cases h1 : HtmlTok.isLetter c = true <;> simp [rstep, h1, htmlPlain] at hg ⊢
  · by_cases h1 : c = 0x3e
    · simp [rstep, h1, htmlPlain]
    · by_cases h2 : tagNameByte c = true <;> simp [rstep, h1, h2, htmlPlain] at hg ⊢

theorem html_step_ne {text : Bytes} {pos : Nat} {r : RSt} {c : UInt8} (h : HtmlRef text pos r)
    (hc : text[pos]? = some c) (hne : c ≠ 0x3c) (hg : rstep r c ≠ .bad) : htmlPlain (rstep r c) := by
  cases r <;> simp [HtmlRef] at h
  · exact plain_step (r := .data) trivial hne hg
  · have hl := h c hc
    rw [alpha_letter] at hl
    by_cases h1 : c = 0x2f
    · subst h1; simp [rstep, htmlPlain, HtmlTok.isLetter, HtmlTok.isUpper]
    · by_cases h2 : c = 0x21 ∨ c = 0x3f
      · exfalso; apply hg
        rcases h2 with h2 | h2 <;> subst h2 <;> simp [rstep, HtmlTok.isLetter, HtmlTok.isUpper]
      · simp only [not_or] at h2
        simp [rstep, hl, h1, h2, hne, htmlPlain]
  · exact plain_step (r := .endTagOpen) trivial hne hg
  · exact plain_step (r := .endTagName) trivial hne hg
  · next k m =>
    subst h
    by_cases h1 : c = 0x3e
    · cases k <;> simp [rstep, HtmlTok.rawStep, RawK.name, h1, htmlPlain]
    · exfalso; apply hg; cases k <;> simp [rstep, HtmlTok.rawStep, RawK.name, h1]

theorem html_step_lt {text : Bytes} {pos : Nat} {r : RSt} (h : HtmlRef text pos r)
    (hg : rstep r 0x3c ≠ .bad) : rstep r 0x3c = .tagOpen := by
  cases r <;> simp [HtmlRef] at h
  · simp [rstep]
  · simp [rstep, HtmlTok.isLetter, HtmlTok.isUpper]
  · exfalso; apply hg; simp [rstep, HtmlTok.isLetter, HtmlTok.isUpper]
  · exfalso; apply hg; simp [rstep, tagNameByte, HtmlTok.isLetter, HtmlTok.isUpper, HtmlTok.isDigit]
  · next k m =>
    subst h
    exfalso; apply hg; cases k <;> simp [rstep, HtmlTok.rawStep, RawK.name]

theorem R_html {text : Bytes} {s : CSt} {r : RSt} (h1 : s.ctx = ContextHTML) (h2 : Clean s)
    (h3 : HtmlRef text s.pos r) : R text s r := Or.inl ⟨h1, h2, h3⟩

theorem R_tag {text : Bytes} {s : CSt} {r : RSt} (h1 : s.ctx = ContextTag) (h2 : TagSt s)
    (h3 : TagRef text s.pos s.tagName r) : R text s r := Or.inr (Or.inl ⟨h1, h2, h3⟩)

theorem R_attr {text : Bytes} {s : CSt} {r : RSt} (h1 : AttrSt s) (h2 : AttrRef text s r) : R text s r :=
  Or.inr (Or.inr (Or.inl ⟨h1, h2⟩))

/-- the tail of an iteration when the states after the byte (and after a CR that follows a LF)
are related whatever the position -/
theorem tail_ok {U : Unicode} {text : Bytes} {lo n : Nat} (H : Hole text lo n) {s s1 : CSt} {c : UInt8}
    (hlt : s.pos < n) (hc : text[s.pos]? = some c) (hsw : ctxSwitchP U text s c = (s1, true))
    (hpos : s1.pos = s.pos)
    (h1 : R text { s1 with pos := s.pos + 1 } (rs text (s.pos + 1)))
    (h2 : c = 0x0a → text[s.pos + 1]? = some 0x0d → s.pos + 1 < n →
      R text { s1 with pos := s.pos + 2 } (rs text (s.pos + 2))) :
    StepOK U text n s := by
  have he := cstep_eq hc hsw
  simp only [if_true] at he
  rcases tailP_cases text s1 c with ⟨e, _⟩ | ⟨e, hc1, hc2⟩
  · rw [e, hpos] at he
    exact StepOK.intro he (by simp; omega) h1 (Or.inl (by simp))
  · rw [e, hpos] at he
    rw [hpos] at hc2
    have hlt2 : s.pos + 1 < n := H.lt_of_ne (by omega) hc2 cr_ne_brace
    exact StepOK.intro he (by simp; omega) (h2 hc1 hc2 hlt2) (Or.inl (by simp))

theorem caseLTP_nil {U : Unicode} {text : Bytes} {s : CSt} {q : Nat} (hcd : cdataAt text s = false)
    (h : scanTagP U text (s.pos + 1) = ([], q)) :
    caseLTP U text s = ({ s with pos := q, tagName := [] }, false) := by
  simp [caseLTP, hcd, h]

theorem caseLTP_name {U : Unicode} {text : Bytes} {s : CSt} {q : Nat} {name : Bytes}
    (hcd : cdataAt text s = false) (h : scanTagP U text (s.pos + 1) = (name, q)) (hne : name ≠ []) :
    caseLTP U text s =
      ({ s with pos := q, tagName := name, ctx := ContextTag,
                tagCtx := if name = sScript then ContextJS else if name = sStyle then ContextCSS
                          else s.tagCtx }, false) := by
  simp only [caseLTP, hcd, h, strBytes_script, strBytes_style]
  simp only [Bool.false_eq_true, if_false, ne_eq, hne, not_false_eq_true, if_true]
  by_cases h1 : name = sScript
  · simp [h1]
  · by_cases h2 : name = sStyle
    · subst h2; simp [show sStyle ≠ sScript by decide]
    · simp [h1, h2]

theorem alpha_lt (c : UInt8) (h : isAlpha c = true) : c < 0x80 := by
  have := allBytes_spec (p := fun c => !isAlpha c || decide (c < 0x80)) (by decide +kernel) c
  simpa [h] using this

theorem step_html {U : Unicode} {text : Bytes} {lo n : Nat} (H : Hole text lo n) {s : CSt} (hlt : s.pos < n)
    (hctx : s.ctx = ContextHTML) (hcl : Clean s) (hr : HtmlRef text s.pos (rs text s.pos)) :
    StepOK U text n s := by
  obtain ⟨c, hc⟩ := H.get (Nat.le_of_lt hlt)
  have hg := H.step hlt hc
  by_cases h1 : c = 0x3c
  · subst h1
    have hto : rs text (s.pos + 1) = .tagOpen := by rw [rs_succ hc]; exact html_step_lt hr hg
    obtain ⟨c1, hc1⟩ := H.get (i := s.pos + 1) hlt
    have hbang : c1 ≠ 0x21 := by
      intro h; subst h
      have hlt1 : s.pos + 1 < n := H.lt_of_ne hlt hc1 (by decide)
      have := H.step hlt1 hc1
      rw [hto] at this
      apply this; simp [rstep, HtmlTok.isLetter, HtmlTok.isUpper]
    have hcd : cdataAt text s = false := by simp [cdataAt, hc1, hbang]
    have hsw0 : ctxSwitchP U text s 0x3c = caseLTP U text s := by simp [ctxSwitchP, hctx]
    by_cases ha : isAlpha c1 = true
    · have hlt1 : s.pos + 1 < n := H.lt_of_ne hlt hc1 (by intro h; subst h; revert ha; decide)
      have hlen := H.lt_length
      have hslice : (text.take (s.pos + 1 + 1)).drop (s.pos + 1) = [c1] := by
        rw [take_drop_succ (Nat.le_refl _) hc1, take_drop_self]; rfl
      have hr0 : rs text (s.pos + 1 + 1) =
          .tagName (((text.take (s.pos + 1 + 1)).drop (s.pos + 1)).map lower) := by
        rw [hslice, rs_succ hc1, hto]
        rw [alpha_letter] at ha
        simp [rstep, ha]
      have hlt0 : ∀ c' ∈ (text.take (s.pos + 1 + 1)).drop (s.pos + 1), c' < 0x80 := by
        rw [hslice]; intro c' hc'; simp at hc'; subst hc'; exact alpha_lt _ ha
      obtain ⟨i1, i2, i3, i4, i5⟩ := scanTagLoop_sim H (s.pos + 1) (text.length - (s.pos + 1) + 1)
        (s.pos + 1 + 1) (by omega) (by omega) (by omega) hr0 hlt0
      generalize hq : scanTagLoopP text (text.length - (s.pos + 1) + 1) (s.pos + 1 + 1) = q at i1 i2 i3 i4 i5
      have hscan : scanTagP U text (s.pos + 1) = (((text.take q).drop (s.pos + 1)).map lower, q) := by
        simp only [scanTagP, hc1, ha, Bool.not_true, Bool.false_eq_true, if_false, hq]
        rw [bytesToLower_ascii U _ i4]
      generalize hnm : ((text.take q).drop (s.pos + 1)).map lower = name at hscan i3
      have hne : name ≠ [] := by
        intro h; rw [h] at hnm
        have := congrArg List.length hnm
        simp at this; omega
      have hsw := hsw0.trans (caseLTP_name hcd hscan hne)
      have he := cstep_eq hc hsw
      simp only [Bool.false_eq_true, if_false] at he
      refine StepOK.intro he i2 ?_ (Or.inl (by simp; omega))
      apply R_tag rfl
      · obtain ⟨h1, h2, h3, h4⟩ := hcl
        refine ⟨?_, h2, h3, h4⟩
        simp only [tagCtxOf, h1]
      · show TagRef text q name (rs text q)
        rw [i3]; exact ⟨rfl, i5⟩
    · have ha' : isAlpha c1 = false := by simpa using ha
      have hscan : scanTagP U text (s.pos + 1) = ([], s.pos + 1) := by
        simp [scanTagP, hc1, ha']
      have hsw := hsw0.trans (caseLTP_nil hcd hscan)
      have he := cstep_eq hc hsw
      simp only [Bool.false_eq_true, if_false] at he
      refine StepOK.intro he hlt ?_ (Or.inl (by simp))
      refine R_html (by exact hctx) (by exact hcl) ?_
      show HtmlRef text (s.pos + 1) (rs text (s.pos + 1))
      rw [hto]
      intro c' hc'
      rw [hc1] at hc'; cases hc'; exact ha'
  · have hsw : ctxSwitchP U text s c = (s, true) := by simp [ctxSwitchP, hctx, h1]
    have hp1 := html_step_ne hr hc h1 hg
    apply tail_ok H hlt hc hsw rfl
    · refine R_html (by exact hctx) (by exact hcl) ?_
      show HtmlRef text (s.pos + 1) (rs text (s.pos + 1))
      rw [rs_succ hc]; exact HtmlRef_plain hp1
    · intro hc1 hc2 hlt2
      refine R_html (by exact hctx) (by exact hcl) ?_
      show HtmlRef text (s.pos + 2) (rs text (s.pos + 1 + 1))
      have hg2 := H.step hlt2 hc2
      rw [rs_succ hc] at hg2
      rw [rs_succ hc2, rs_succ hc]
      exact HtmlRef_plain (plain_step hp1 (by decide) hg2)

/-! ## context Tag -/

/-- in every reference state that goes with the Tag context, the next byte is handled as in the
"before attribute name" state -/
theorem tag_like {text : Bytes} {pos : Nat} {tag : Bytes} {r : RSt} {c : UInt8}
    (h : TagRef text pos tag r) (hc : text[pos]? = some c) (hg : rstep r c ≠ .bad) :
    rstep r c = beforeName tag c := by
  cases r <;> simp only [TagRef] at h
  · next t =>
    obtain ⟨rfl, h⟩ := h
    have hb := h c hc
    by_cases h1 : ws c = true
    · simp [rstep, beforeName, h1]
    · by_cases h2 : c = 0x2f
      · simp [rstep, beforeName, h1, h2]
      · by_cases h3 : c = 0x3e
        · simp [rstep, beforeName, h1, h2, h3]
        · exfalso; apply hg; simp [rstep, h1, h2, h3, hb]
  · subst h; rfl
  · next t nm =>
    obtain ⟨rfl, h⟩ := h
    cases hd : attrDone t nm
    · exfalso; apply hg
      rcases h c hc with rfl | rfl | rfl <;> simp [rstep, afterName, hd, ws, attrNameBad]
    · rcases h c hc with rfl | rfl | rfl
      · simp [rstep, afterName, beforeName, hd, ws]
      · simp [rstep, afterName, beforeName, hd, ws]
      · exfalso; apply hg; simp [rstep, ws, attrNameBad]
  · next t nm =>
    obtain ⟨rfl, h⟩ := h
    obtain ⟨h1, h2⟩ := h c hc
    cases hd : attrDone t nm
    · exfalso; apply hg; simp [rstep, afterName, hd]
    · simp only [rstep, afterName, beforeName, hd, h2, h1]
      simp [h1]
  · next t nm =>
    obtain ⟨rfl, h⟩ := h
    rw [hc] at h; cases h
    simp [rstep, beforeName, ws]
  · next t nm =>
    obtain ⟨rfl, h⟩ := h
    rw [hc] at h; cases h
    simp [rstep, beforeName, ws]
  · subst h; rfl
  · next t =>
    subst h
    by_cases h3 : c = 0x3e
    · subst h3; simp [rstep, beforeName, ws]
    · simp [rstep, h3]

theorem caseTagP_gt (U : Unicode) (text : Bytes) (s : CSt) :
    caseTagP U text s 0x3e =
      ({ s with ctx := s.tagCtx, tagName := [], tagCtx := ContextHTML }, true) := by
  simp [caseTagP]

theorem caseTagP_ws (U : Unicode) (text : Bytes) (s : CSt) {c : UInt8} (h : ws c = true) :
    caseTagP U text s c = (s, true) := by
  have h1 : c ≠ 0x3e := by intro h'; subst h'; revert h; decide
  have h2 : c ≠ 0x2f := by intro h'; subst h'; revert h; decide
  simp [caseTagP, h1, h2, space_ws, h]

theorem caseTagP_attr (U : Unicode) (text : Bytes) (s : CSt) {c : UInt8} (hc : text[s.pos]? = some c)
    (h1 : c ≠ 0x3e) (h2 : ws c = false) {attr : Bytes} {next : Nat}
    (hsc : scanAttributeP U text s.pos = (attr, next)) :
    caseTagP U text s c =
      if next > s.pos then
        match (if attr ≠ [] then text[next]? else none) with
        | some q =>
          let s1 : CSt := { s with tagAttr := attr, pos := next }
          let s2 : CSt := if q = 0x22 ∨ q = 0x27 then { s1 with quote := q, pos := s1.pos + 1 } else s1
          let actx := if s2.quote = 0 then ContextUnquotedAttr else ContextQuotedAttr
          if containsURL s2.tagName s2.tagAttr then ({ s2 with ctx := actx, url := true }, false)
          else ({ s2 with tagIndex := s2.pos, ctx := actx }, false)
        | none => ({ s with tagAttr := attr, pos := next }, false)
      else ({ s with tagAttr := attr }, true) := by
  have h3 : ¬ (c = 0x3e ∨ (c = 0x2f ∧ text[s.pos]? = some 0x3e)) := by
    rw [hc]; intro h; rcases h with h | ⟨h, h'⟩
    · exact h1 h
    · cases h'; exact h1 rfl
  simp only [caseTagP, h3, if_false, space_ws, h2, Bool.not_false, if_true, hsc]
  rfl

theorem scanAttr_slash (U : Unicode) (text : Bytes) (pos : Nat) (hc : text[pos]? = some 0x2f) :
    scanAttributeP U text pos = ([], pos) := by
  simp [scanAttributeP, attrNameLoopP, hc, isASCIISpace]

theorem R_afterTag {text : Bytes} {s : CSt} (hst : TagSt s) (pos' : Nat)
    (hg : afterTag s.tagName ≠ .bad) :
    R text { s with ctx := s.tagCtx, tagName := [], tagCtx := ContextHTML, pos := pos' }
      (afterTag s.tagName) := by
  obtain ⟨h1, h2, h3, h4⟩ := hst
  simp only [afterTag] at hg ⊢
  by_cases hs : s.tagName = sScript
  · have e1 : s.tagCtx = ContextJS := by rw [h1, tagCtxOf, if_pos hs]
    have hb : (s.tagName == sScript) = true := by simp [hs]
    rw [if_pos hb]
    right; right; right; left
    exact ⟨_, _, rfl, Nat.zero_le _, by simp, rfl, h3, e1, h4, h2⟩
  · have hb : ¬ ((s.tagName == sScript) = true) := by simp [hs]
    rw [if_neg hb] at hg ⊢
    by_cases hy : s.tagName = sStyle
    · have e1 : s.tagCtx = ContextCSS := by rw [h1, tagCtxOf, if_neg hs, if_pos hy]
      have hb2 : (s.tagName == sStyle) = true := by simp [hy]
      rw [if_pos hb2]
      right; right; right; right
      exact ⟨_, _, rfl, Nat.zero_le _, by simp, rfl, h3, h4, e1, h2⟩
    · have e1 : s.tagCtx = ContextHTML := by rw [h1, tagCtxOf, if_neg hs, if_neg hy]
      have hb2 : ¬ ((s.tagName == sStyle) = true) := by simp [hy]
      rw [if_neg hb2] at hg ⊢
      by_cases hw : rawTextLike.contains s.tagName = true
      · rw [if_pos hw] at hg; exact absurd rfl hg
      · rw [if_neg hw]
        exact R_html e1 ⟨rfl, h2, h3, h4⟩ trivial

theorem beforeName_cases {tag : Bytes} {c : UInt8} (hg : beforeName tag c ≠ .bad) (h1 : ws c = false)
    (h2 : c ≠ 0x2f) (h3 : c ≠ 0x3e) : nameStart c ∧ beforeName tag c = .attrName tag [lower c] := by
  by_cases h4 : c = 0x3d ∨ attrNameBad c = true
  · exfalso; apply hg
    rcases h4 with h4 | h4
    · subst h4; simp [beforeName, ws]
    · simp [beforeName, h1, h2, h3, h4]
  · simp only [not_or] at h4
    have h5 : attrNameBad c = false := by simpa using h4.2
    refine ⟨⟨h1, h2, h3, h4.1, h5⟩, ?_⟩
    simp [beforeName, h1, h2, h3, h4.1, h5]

theorem AttrRef_congr {text : Bytes} {s s' : CSt} {r : RSt} (h : AttrRef text s r) (h1 : s'.pos = s.pos)
    (h2 : s'.ctx = s.ctx) (h3 : s'.tagName = s.tagName) (h4 : s'.tagAttr = s.tagAttr)
    (h5 : s'.quote = s.quote) : AttrRef text s' r := by
  cases r <;> simp only [AttrRef, h1, h2, h3, h4, h5] at h ⊢ <;> exact h

theorem step_tag {U : Unicode} {text : Bytes} {lo n : Nat} (H : Hole text lo n) {s : CSt} (hlt : s.pos < n)
    (hctx : s.ctx = ContextTag) (hst : TagSt s) (hr : TagRef text s.pos s.tagName (rs text s.pos)) :
    StepOK U text n s := by
  obtain ⟨c, hc⟩ := H.get (Nat.le_of_lt hlt)
  have hg := H.step hlt hc
  have hb := tag_like hr hc hg
  rw [hb] at hg
  have hr1 : rs text (s.pos + 1) = beforeName s.tagName c := by rw [rs_succ hc, hb]
  have hsw0 : ctxSwitchP U text s c = caseTagP U text s c := by
    simp [ctxSwitchP, hctx, ContextTag, ContextHTML]
  by_cases h3 : c = 0x3e
  · subst h3
    have hsw := hsw0.trans (caseTagP_gt U text s)
    have hat : beforeName s.tagName 0x3e = afterTag s.tagName := by simp [beforeName, ws]
    rw [hat] at hg hr1
    apply tail_ok H hlt hc hsw rfl
    · show R text _ (rs text (s.pos + 1))
      rw [hr1]; exact R_afterTag hst _ hg
    · intro h; exact absurd h (by decide)
  by_cases h1 : ws c = true
  · have hsw := hsw0.trans (caseTagP_ws U text s h1)
    have hbn : beforeName s.tagName c = .beforeAttrName s.tagName := by simp [beforeName, h1]
    apply tail_ok H hlt hc hsw rfl
    · refine R_tag (by exact hctx) (by exact hst) ?_
      show TagRef text _ s.tagName (rs text (s.pos + 1))
      rw [hr1, hbn]; rfl
    · intro hc1 hc2 hlt2
      refine R_tag (by exact hctx) (by exact hst) ?_
      show TagRef text _ s.tagName (rs text (s.pos + 1 + 1))
      rw [rs_succ hc2, hr1, hbn]
      simp [rstep, beforeName, ws, TagRef]
  have h1' : ws c = false := by simpa using h1
  by_cases h2 : c = 0x2f
  · subst h2
    have hsw := hsw0.trans (caseTagP_attr U text s hc h3 h1' (scanAttr_slash U text s.pos hc))
    simp only [gt_iff_lt, Nat.lt_irrefl, if_false] at hsw
    have hbn : beforeName s.tagName 0x2f = .selfClosing s.tagName := by simp [beforeName, ws]
    apply tail_ok H hlt hc hsw rfl
    · refine R_tag (by exact hctx) (by exact hst) ?_
      show TagRef text _ s.tagName (rs text (s.pos + 1))
      rw [hr1, hbn]; rfl
    · intro h; exact absurd h (by decide)
  obtain ⟨hns, hbn⟩ := beforeName_cases hg h1' h2 h3
  rw [hbn] at hr1
  obtain ⟨attr, next, hsc, hn1, hn2, hcase⟩ := scanAttr_sim H U s.tagName hlt hc hns hr1
  have hsw := hsw0.trans (caseTagP_attr U text s hc h3 h1' hsc)
  simp only [gt_iff_lt, hn1, if_true] at hsw
  obtain ⟨ht1, ht2, ht3, ht4⟩ := hst
  rcases hcase with ⟨rfl, href⟩ | ⟨hne, hrn, hdone, qc, hqc, hq1, hq2⟩
  · simp only [ne_eq, not_true_eq_false, if_false] at hsw
    have he := cstep_eq hc hsw
    simp only [Bool.false_eq_true, if_false] at he
    refine StepOK.intro he hn2 ?_ (Or.inl hn1)
    exact R_tag hctx ⟨ht1, ht2, ht3, ht4⟩ href
  · simp only [ne_eq, hne, not_false_eq_true, if_true, hqc] at hsw
    by_cases hq : qc = 0x22 ∨ qc = 0x27
    · have hqn : next < n := H.lt_of_ne hn2 hqc (by rcases hq with rfl | rfl <;> decide)
      have hq0 : qc ≠ 0 := by rcases hq with rfl | rfl <;> decide
      simp only [hq, if_true, hq0, if_false] at hsw
      have hrq : AttrRef text
          { s with tagAttr := attr, pos := next + 1, quote := qc, ctx := ContextQuotedAttr }
          (rs text (next + 1)) := by
        rw [rs_succ hqc, hrn]
        rcases hq with rfl | rfl <;> simp [rstep, ws, AttrRef]
      by_cases hu : containsURL s.tagName attr = true
      · simp only [hu, if_true] at hsw
        have he := cstep_eq hc hsw
        simp only [Bool.false_eq_true, if_false] at he
        refine StepOK.intro he hqn ?_ (Or.inl (by simp; omega))
        exact R_attr ⟨ht1, ht4, hu.symm, hdone⟩ (AttrRef_congr hrq rfl rfl rfl rfl rfl)
      · simp only [hu, if_false] at hsw
        have he := cstep_eq hc hsw
        simp only [Bool.false_eq_true, if_false] at he
        refine StepOK.intro he hqn ?_ (Or.inl (by simp; omega))
        refine R_attr ⟨ht1, ht4, ?_, hdone⟩ (AttrRef_congr hrq rfl rfl rfl rfl rfl)
        show s.url = containsURL s.tagName attr
        rw [ht3]; simpa using hu
    · simp only [hq, if_false, ht2, if_true] at hsw
      have hrq : AttrRef text { s with tagAttr := attr, pos := next, ctx := ContextUnquotedAttr }
          (rs text next) := by
        rw [hrn]
        refine ⟨rfl, rfl, rfl, ht2, ?_⟩
        intro c' hc'
        rw [show ({ s with tagAttr := attr, pos := next, ctx := ContextUnquotedAttr } : CSt).pos = next
          from rfl, hqc] at hc'
        cases hc'
        simp only [not_or] at hq
        exact ⟨hq2, hq.1, hq.2⟩
      by_cases hu : containsURL s.tagName attr = true
      · simp only [hu, if_true] at hsw
        have he := cstep_eq hc hsw
        simp only [Bool.false_eq_true, if_false] at he
        refine StepOK.intro he hn2 ?_ (Or.inl hn1)
        exact R_attr ⟨ht1, ht4, hu.symm, hdone⟩ (AttrRef_congr hrq rfl rfl rfl rfl ht2.symm)
      · simp only [hu, if_false] at hsw
        have he := cstep_eq hc hsw
        simp only [Bool.false_eq_true, if_false] at he
        refine StepOK.intro he hn2 ?_ (Or.inl hn1)
        refine R_attr ⟨ht1, ht4, ?_, hdone⟩ (AttrRef_congr hrq rfl rfl rfl rfl ht2.symm)
        show s.url = containsURL s.tagName attr
        rw [ht3]; simpa using hu

/-! ## attribute-value contexts -/

theorem typeAttrP_done (U : Unicode) (text : Bytes) (s : CSt) (hd : attrDone s.tagName s.tagAttr = true) :
    typeAttrP U text s = s.tagCtx := by
  simp only [typeAttrP, strBytes_type, strBytes_script, strBytes_style]
  by_cases h1 : s.tagAttr = sType
  · have h2 : s.tagName ≠ sScript := by
      intro h; rw [h, h1] at hd; revert hd; decide
    have h3 : s.tagName ≠ sStyle := by
      intro h; rw [h, h1] at hd; revert hd; decide
    simp [h1, h2, h3]
  · simp [h1]

theorem caseAttrP_end (U : Unicode) (text : Bytes) (s : CSt) (c : UInt8)
    (hd : attrDone s.tagName s.tagAttr = true)
    (hcond : (s.ctx = ContextQuotedAttr ∧ c = s.quote) ∨
      (s.ctx = ContextUnquotedAttr ∧ (c = 0x3e ∨ isASCIISpace c = true))) :
    caseAttrP U text s c =
      ({ s with quote := 0, url := false, ctx := ContextTag, tagAttr := [], tagIndex := 0 },
        !(c == 0x3e)) := by
  simp only [caseAttrP, hcond, if_true]
  cases hu : s.url
  · by_cases h3 : c = 0x3e <;> simp [h3] <;> exact typeAttrP_done U text _ hd
  · by_cases h3 : c = 0x3e <;> simp [h3]

theorem caseAttrP_stay (U : Unicode) (text : Bytes) (s : CSt) (c : UInt8)
    (hcond : ¬ ((s.ctx = ContextQuotedAttr ∧ c = s.quote) ∨
      (s.ctx = ContextUnquotedAttr ∧ (c = 0x3e ∨ isASCIISpace c = true)))) :
    caseAttrP U text s c = (s, true) := by
  simp only [caseAttrP, hcond, if_false]

theorem step_attr {U : Unicode} {text : Bytes} {lo n : Nat} (H : Hole text lo n) {s : CSt} (hlt : s.pos < n)
    (hst : AttrSt s) (hr : AttrRef text s (rs text s.pos)) : StepOK U text n s := by
  obtain ⟨c, hc⟩ := H.get (Nat.le_of_lt hlt)
  have hg := H.step hlt hc
  obtain ⟨ht1, ht2, ht3, ht4⟩ := hst
  have hctx : s.ctx = ContextQuotedAttr ∨ s.ctx = ContextUnquotedAttr := by
    generalize rs text s.pos = r at hr
    cases r <;> first | exact False.elim hr | exact Or.inl hr.2.2.1 | exact Or.inr hr.2.2.1
  have hsw0 : ctxSwitchP U text s c = caseAttrP U text s c := by
    rcases hctx with h | h <;>
      simp [ctxSwitchP, h, ContextQuotedAttr, ContextUnquotedAttr, ContextHTML, ContextTag]
  have hstay : ∀ r', ¬ ((s.ctx = ContextQuotedAttr ∧ c = s.quote) ∨
      (s.ctx = ContextUnquotedAttr ∧ (c = 0x3e ∨ isASCIISpace c = true))) →
      rstep (rs text s.pos) c = r' → (∀ p, AttrRef text { s with pos := p } r') →
      (c = 0x0a → rstep r' 0x0d = r') → StepOK U text n s := by
    intro r' hcond hr' hA hcr
    have hsw := hsw0.trans (caseAttrP_stay U text s c hcond)
    apply tail_ok H hlt hc hsw rfl
    · refine R_attr (by exact ⟨ht1, ht2, ht3, ht4⟩) ?_
      show AttrRef text _ (rs text (s.pos + 1))
      rw [rs_succ hc, hr']; exact hA _
    · intro hc1 hc2 _
      refine R_attr (by exact ⟨ht1, ht2, ht3, ht4⟩) ?_
      show AttrRef text _ (rs text (s.pos + 1 + 1))
      rw [rs_succ hc2, rs_succ hc, hr', hcr hc1]; exact hA _
  have hend : ∀ r', ((s.ctx = ContextQuotedAttr ∧ c = s.quote) ∨
      (s.ctx = ContextUnquotedAttr ∧ (c = 0x3e ∨ isASCIISpace c = true))) → c ≠ 0x3e →
      rstep (rs text s.pos) c = r' → (∀ p, TagRef text p s.tagName r') →
      (c = 0x0a → rstep r' 0x0d = r') → StepOK U text n s := by
    intro r' hcond h3 hr' hA hcr
    have hsw := hsw0.trans (caseAttrP_end U text s c ht4 hcond)
    have hb : (!(c == 0x3e)) = true := by simp [h3]
    rw [hb] at hsw
    have hts : TagSt { s with quote := 0, url := false, ctx := ContextTag, tagAttr := [], tagIndex := 0 } :=
      ⟨ht1, rfl, rfl, ht2⟩
    apply tail_ok H hlt hc hsw rfl
    · refine R_tag rfl (by exact hts) ?_
      show TagRef text _ s.tagName (rs text (s.pos + 1))
      rw [rs_succ hc, hr']; exact hA _
    · intro hc1 hc2 _
      refine R_tag rfl (by exact hts) ?_
      show TagRef text _ s.tagName (rs text (s.pos + 1 + 1))
      rw [rs_succ hc2, rs_succ hc, hr', hcr hc1]; exact hA _
  have hgt : s.ctx = ContextUnquotedAttr → c = 0x3e →
      TagRef text s.pos s.tagName (rs text s.pos) → StepOK U text n s := by
    intro hu h3 hT
    have hsw := hsw0.trans (caseAttrP_end U text s c ht4 (Or.inr ⟨hu, Or.inl h3⟩))
    have hb : (!(c == 0x3e)) = false := by simp [h3]
    rw [hb] at hsw
    have he := cstep_eq hc hsw
    simp only [Bool.false_eq_true, if_false] at he
    refine StepOK.intro he (Nat.le_of_lt hlt) ?_ (Or.inr ⟨rfl, hu, rfl⟩)
    exact R_tag rfl ⟨ht1, rfl, rfl, ht2⟩ hT
  have hqu : ContextQuotedAttr ≠ ContextUnquotedAttr := by decide
  generalize hrr : rs text s.pos = r at hr hg hstay hend hgt
  cases r <;> simp only [AttrRef] at hr
  · -- before attribute value, at the first byte of an unquoted value
    obtain ⟨rfl, rfl, hcx, hq, hcond⟩ := hr
    obtain ⟨c1, c2, c3⟩ := hcond c hc
    by_cases h3 : c = 0x3e
    · exact hgt hcx h3 ⟨rfl, by rw [← h3]; exact hc⟩
    · refine hstay (.attrValUnq s.tagName s.tagAttr) ?_ ?_ (fun p => ⟨rfl, rfl, hcx, hq⟩) ?_
      · rw [hcx, space_ws, c1]; simp [h3, hqu.symm]
      · simp [rstep, c1, c2, c3, h3]
      · intro h; subst h; exact absurd c1 (by decide)
  · obtain ⟨rfl, rfl, hcx, hq⟩ := hr
    by_cases h : c = 0x22
    · subst h
      refine hend (.afterAttrValQ s.tagName) (Or.inl ⟨hcx, hq.symm⟩) (by decide) ?_ (fun p => rfl) ?_
      · simp [rstep]
      · intro h; exact absurd h (by decide)
    · refine hstay (.attrValDq s.tagName s.tagAttr) ?_ ?_ (fun p => ⟨rfl, rfl, hcx, hq⟩) ?_
      · rw [hcx, hq]; simp [h, hqu]
      · simp [rstep, h]
      · intro _; simp [rstep]
  · obtain ⟨rfl, rfl, hcx, hq⟩ := hr
    by_cases h : c = 0x27
    · subst h
      refine hend (.afterAttrValQ s.tagName) (Or.inl ⟨hcx, hq.symm⟩) (by decide) ?_ (fun p => rfl) ?_
      · simp [rstep]
      · intro h; exact absurd h (by decide)
    · refine hstay (.attrValSq s.tagName s.tagAttr) ?_ ?_ (fun p => ⟨rfl, rfl, hcx, hq⟩) ?_
      · rw [hcx, hq]; simp [h, hqu]
      · simp [rstep, h]
      · intro _; simp [rstep]
  · obtain ⟨rfl, rfl, hcx, hq⟩ := hr
    by_cases h3 : c = 0x3e
    · exact hgt hcx h3 ⟨rfl, by rw [← h3]; exact hc⟩
    · by_cases h1 : ws c = true
      · refine hend (.beforeAttrName s.tagName) (Or.inr ⟨hcx, Or.inr (by rw [space_ws]; exact h1)⟩) h3 ?_
          (fun p => rfl) ?_
        · simp [rstep, h1]
        · intro _; simp [rstep, beforeName, ws]
      · have h1' : ws c = false := by simpa using h1
        refine hstay (.attrValUnq s.tagName s.tagAttr) ?_ ?_ (fun p => ⟨rfl, rfl, hcx, hq⟩) ?_
        · rw [hcx, space_ws, h1']; simp [h3, hqu.symm]
        · simp [rstep, h1', h3]
        · intro h; subst h; exact absurd h1' (by decide)

end ScriggoV.LexCtx
