import ScriggoV.Lemmas.Lexer.Basic
/-! # A show statement `{{ … }}` leaves the template-context fields of the lexer alone

`SameCtx a b`: the seven fields of the lexer state that decide template contexts (`ctx`,
`contexts`, `tagName`, `tagAttr`, `tagIndex`, `tagCtx`, and the base context `lbase` = `l.base`)
are the same in `a` and `b`.

This file has the small Hoare-style toolkit (`Post x P`: every successful result of `x`
satisfies `P`) and the preservation lemmas of the primitives and of the literal lexers
(identifiers, numbers, strings, raw strings, runes), then of `lexCode` (for every end token
other than `%}`: `afterIdent` is guarded by `endT = tokenEndStatement` and so is the branch of
`codePercent` that writes `ctx`), of `lexBlock` and of `lexShow`. Core Lean only. -/
namespace ScriggoV.Lexer
open ScriggoV ScriggoV.Gen.LexTables

/-- the fields that decide template contexts are unchanged -/
def SameCtx (a b : St) : Prop :=
  b.ctx = a.ctx ∧ b.contexts = a.contexts ∧ b.tagName = a.tagName ∧ b.tagAttr = a.tagAttr ∧
  b.tagIndex = a.tagIndex ∧ b.tagCtx = a.tagCtx ∧ b.lbase = a.lbase

abbrev CtxKey := Nat × List Nat × Bytes × Bytes × Nat × Nat × Nat

/-- the seven fields of `SameCtx` as one value -/
def ctxOf (s : St) : CtxKey := (s.ctx, s.contexts, s.tagName, s.tagAttr, s.tagIndex, s.tagCtx, s.lbase)

theorem sameCtx_iff {a b : St} : SameCtx a b ↔ ctxOf b = ctxOf a := by
  unfold SameCtx ctxOf
  simp only [Prod.mk.injEq]

theorem SameCtx.refl (a : St) : SameCtx a a := sameCtx_iff.mpr rfl

theorem SameCtx.trans {a b c : St} (h1 : SameCtx a b) (h2 : SameCtx b c) : SameCtx a c :=
  sameCtx_iff.mpr ((sameCtx_iff.mp h2).trans (sameCtx_iff.mp h1))

/-! ## `Post` -/

/-- every successful result of `x` satisfies `P` -/
def Post {α : Type} (x : Except Fault α) (P : α → Prop) : Prop := ∀ a, x = .ok a → P a

theorem Post.ok {α : Type} {a : α} {P : α → Prop} (h : P a) : Post (.ok a) P := by
  intro b hb; cases hb; exact h

theorem Post.pure {α : Type} {a : α} {P : α → Prop} (h : P a) : Post (pure a) P := Post.ok h

theorem Post.error {α : Type} {f : Fault} {P : α → Prop} : Post (.error f) P := by
  intro b hb; cases hb

theorem Post.bind {α β : Type} {x : Except Fault α} {f : α → Except Fault β} {Q : α → Prop}
    {P : β → Prop} (hx : Post x Q) (hf : ∀ a, Q a → Post (f a) P) : Post (x >>= f) P := by
  intro b hb
  cases x with
  | error e => cases hb
  | ok a => exact hf a (hx a rfl) b hb

theorem Post.bind_any {α β : Type} {x : Except Fault α} {f : α → Except Fault β}
    {P : β → Prop} (hf : ∀ a, Post (f a) P) : Post (x >>= f) P :=
  Post.bind (Q := fun _ => True) (fun _ _ => trivial) (fun a _ => hf a)

theorem Post.ite {α : Type} {c : Prop} [Decidable c] {a b : Except Fault α} {P : α → Prop}
    (ht : c → Post a P) (he : ¬ c → Post b P) : Post (if c then a else b) P := by
  split
  · exact ht ‹_›
  · exact he ‹_›

theorem Post.mono {α : Type} {x : Except Fault α} {P Q : α → Prop} (h : Post x P)
    (hpq : ∀ a, P a → Q a) : Post x Q := fun a ha => hpq a (h a ha)

/-! ## the invariants -/

/-- the state has the context fields `k` -/
def Inv (k : CtxKey) (s : St) : Prop := ctxOf s = k

/-- a result whose first component is a state with the context fields `k` -/
def FInv {α : Type} (k : CtxKey) (r : St × α) : Prop := ctxOf r.1 = k

def RawInv (k : CtxKey) : RawOut → Prop
  | .cont st _ => ctxOf st = k
  | .done st _ => ctxOf st = k
  | .err st _ _ => ctxOf st = k

def CodeInv (k : CtxKey) : CodeOut → Prop
  | .cont st _ => ctxOf st = k
  | .ret st _ => ctxOf st = k
  | .brk st _ => ctxOf st = k

/-! ## primitives -/

theorem emitAt_post {E : Env} {st : St} {k : CtxKey} {line col typ n : Nat} (h : ctxOf st = k) :
    Post (emitAt E st line col typ n) (Inv k) := by
  intro s hs
  unfold emitAt at hs
  split at hs
  · cases hs
  · cases hs; exact h

theorem emit_post {E : Env} {st : St} {k : CtxKey} {typ n : Nat} (h : ctxOf st = k) :
    Post (emit E st typ n) (Inv k) := emitAt_post h

theorem skip_post {E : Env} {st : St} {k : CtxKey} {n : Nat} (h : ctxOf st = k) :
    Post (skip E st n) (Inv k) := by
  intro s hs
  unfold skip at hs
  split at hs
  · cases hs; exact h
  · cases hs

theorem emitAdv_post {E : Env} {st : St} {k : CtxKey} {typ n : Nat} (h : ctxOf st = k) :
    Post (emitAdv E st typ n) (Inv k) := by
  unfold emitAdv
  exact Post.bind (emit_post h) (fun s hs => Post.pure hs)

theorem fail_post {st : St} {k : CtxKey} {e : ErrKind} (h : ctxOf st = k) :
    Post (fail st e) (FInv k) := Post.ok h

theorem failAt_post {E : Env} {st : St} {k : CtxKey} {p cols : Nat} {e : ErrKind} (h : ctxOf st = k) :
    Post (failAt E st p cols e) (FInv k) := by
  unfold failAt
  exact Post.bind (skip_post h) (fun s hs => fail_post hs)

/-! ## the stepping tactic -/

/-- `bind` whose first computation has a known specification -/
syntax "post_known" : tactic
macro_rules | `(tactic| post_known) => `(tactic| refine Post.bind (emitAt_post (by assumption)) (fun s hs => ?_))
macro_rules | `(tactic| post_known) => `(tactic| refine Post.bind (emit_post (by assumption)) (fun s hs => ?_))
macro_rules | `(tactic| post_known) => `(tactic| refine Post.bind (emitAdv_post (by assumption)) (fun s hs => ?_))
macro_rules | `(tactic| post_known) => `(tactic| refine Post.bind (skip_post (by assumption)) (fun s hs => ?_))
macro_rules | `(tactic| post_known) => `(tactic| exact fail_post (by assumption))
macro_rules | `(tactic| post_known) => `(tactic| exact failAt_post (by assumption))

/-- close a leaf: the invariant of a state that is definitionally one of the known ones up to
`line`, `col`, `base` -/
macro "post_leaf" : tactic => `(tactic| first
  | exact Post.error
  | (refine Post.pure ?_; first | assumption | exact trivial)
  | (refine Post.ok ?_; first | assumption | exact trivial))

macro "post_step" : tactic => `(tactic| first
  | post_leaf
  | post_known
  | refine Post.bind_any (fun _ => ?_)
  | refine Post.ite (fun _ => ?_) (fun _ => ?_)
  | split
  | dsimp only)

macro "post_run" : tactic => `(tactic| repeat post_step)

/-! ## identifiers -/

theorem lexIdent_post {E : Env} {st : St} {k : CtxKey} {s : Nat} (h : ctxOf st = k) :
    Post (lexIdent E st s) (FInv k) := by
  unfold lexIdent
  post_run

/-! ## numbers -/

theorem numFinish_post {E : Env} {st : St} {k : CtxKey} {c0 : UInt8} {s : NumSt} (h : ctxOf st = k) :
    Post (numFinish E st c0 s) (FInv k) := by
  unfold numFinish
  post_run

macro_rules | `(tactic| post_known) => `(tactic| exact numFinish_post (by assumption))

theorem lexNumber_post {E : Env} {st : St} {k : CtxKey} (h : ctxOf st = k) :
    Post (lexNumber E st) (FInv k) := by
  unfold lexNumber
  post_run

/-! ## interpreted strings -/

theorem lexInterpretedString_post {E : Env} {st : St} {k : CtxKey} (h : ctxOf st = k) :
    Post (lexInterpretedString E st) (FInv k) := by
  unfold lexInterpretedString
  post_run

/-! ## raw strings -/

theorem rawStep_post {E : Env} {st : St} {k : CtxKey} {lin col p : Nat} (h : ctxOf st = k) :
    Post (rawStep E st lin col p) (RawInv k) := by
  unfold rawStep
  post_run

theorem rawLoop_post {E : Env} {k : CtxKey} {lin col : Nat} : ∀ (fuel : Nat) (st : St) (p : Nat),
    ctxOf st = k → Post (rawLoop E lin col fuel st p) (RawInv k) := by
  intro fuel
  induction fuel with
  | zero => intro st p h; unfold rawLoop; exact Post.error
  | succ fuel ih =>
    intro st p h
    unfold rawLoop
    refine Post.bind (rawStep_post h) (fun o ho => ?_)
    split
    · exact ih _ _ ho
    · exact Post.pure ho

theorem lexRawString_post {E : Env} {st : St} {k : CtxKey} (h : ctxOf st = k) :
    Post (lexRawString E st) (FInv k) := by
  unfold lexRawString
  refine Post.bind (rawLoop_post _ _ _ (show ctxOf (addCol st 1) = k from h)) (fun o ho => ?_)
  split
  · exact fail_post ho
  · exact failAt_post ho
  · have ho' : ctxOf _ = k := ho
    post_run
  · exact Post.error

/-! ## rune literals -/

theorem lexRuneLiteral_post {E : Env} {st : St} {k : CtxKey} (h : ctxOf st = k) :
    Post (lexRuneLiteral E st) (FInv k) := by
  unfold lexRuneLiteral
  post_run

/-! ## `lexCode` -/

macro_rules | `(tactic| post_known) => `(tactic| exact lexIdent_post (by assumption))
macro_rules | `(tactic| post_known) => `(tactic| exact lexNumber_post (by assumption))
macro_rules | `(tactic| post_known) => `(tactic| exact lexInterpretedString_post (by assumption))
macro_rules | `(tactic| post_known) => `(tactic| exact lexRawString_post (by assumption))
macro_rules | `(tactic| post_known) => `(tactic| exact lexRuneLiteral_post (by assumption))

theorem op_post {E : Env} {st : St} {k : CtxKey} {loc : CodeLoc} {typ n : Nat} {elas : Bool}
    (h : ctxOf st = k) : Post (op E st loc typ n elas) (CodeInv k) := by
  unfold op
  post_run

theorem lit_post {r : R} {k : CtxKey} {loc : CodeLoc} (h : Post r (FInv k)) :
    Post (lit r loc) (CodeInv k) := by
  unfold lit
  refine Post.bind h (fun a ha => ?_)
  split
  · exact Post.pure ha
  · exact Post.pure ha

theorem autoSemi_post {E : Env} {st : St} {k : CtxKey} {loc : CodeLoc} {cond : Bool}
    (h : ctxOf st = k) : Post (autoSemi E st loc cond) (FInv k) := by
  unfold autoSemi
  post_run

theorem walkCode_post {E : Env} {k : CtxKey} : ∀ (n i : Nat) (st : St), ctxOf st = k →
    Post (walkCode E n i st) (Inv k) := by
  intro n
  induction n with
  | zero => intro i st h; unfold walkCode; exact Post.pure h
  | succ n ih =>
    intro i st h
    unfold walkCode
    refine Post.bind_any (fun c => ?_)
    refine ih _ _ ?_
    split
    · exact h
    · split
      · exact h
      · exact h

macro_rules | `(tactic| post_known) => `(tactic| exact op_post (by assumption))
macro_rules
  | `(tactic| post_known) => `(tactic| refine Post.bind (autoSemi_post (by assumption)) (fun s hs => ?_))
macro_rules
  | `(tactic| post_known) => `(tactic| refine Post.bind (walkCode_post _ _ _ (by assumption)) (fun s hs => ?_))
macro_rules | `(tactic| post_known) => `(tactic| refine lit_post ?_)

theorem codeSlash_post {E : Env} {st : St} {k : CtxKey} {loc : CodeLoc} {c1 : Option UInt8}
    (h : ctxOf st = k) : Post (codeSlash E st loc c1) (CodeInv k) := by
  unfold codeSlash
  post_run

/-- `case '%'` when the end token is not `%}`: the branch that writes `ctx` is not taken -/
theorem codePercent_post {E : Env} {endT : Nat} {st : St} {k : CtxKey} {loc : CodeLoc}
    {c1 c2 : Option UInt8} (hne : endT ≠ tokenEndStatement) (h : ctxOf st = k) :
    Post (codePercent E endT st loc c1 c2) (CodeInv k) := by
  unfold codePercent
  simp only [hne, and_false, if_false, or_false]
  post_run

/-- `default:` when the end token is not `%}`: `afterIdent` is not called -/
theorem codeIdent_post {E : Env} {endT : Nat} {st : St} {k : CtxKey} {loc : CodeLoc} {c : UInt8}
    (hne : endT ≠ tokenEndStatement) (h : ctxOf st = k) :
    Post (codeIdent E endT st loc c) (CodeInv k) := by
  unfold codeIdent
  simp only [hne, if_false]
  refine Post.bind (Q := fun x => match x with | .inl _ => True | .inr o => CodeInv k o) ?_ ?_
  · post_run
  · intro x hx
    split
    · exact Post.pure hx
    · refine Post.bind (lexIdent_post h) (fun r hr => ?_)
      exact Post.pure hr

macro_rules | `(tactic| post_known) => `(tactic| exact codeSlash_post (by assumption))
macro_rules | `(tactic| post_known) => `(tactic| exact codePercent_post (by assumption) (by assumption))
macro_rules | `(tactic| post_known) => `(tactic| exact codeIdent_post (by assumption) (by assumption))

theorem codeStep_post {E : Env} {endT : Nat} {st : St} {k : CtxKey} {loc : CodeLoc}
    (hne : endT ≠ tokenEndStatement) (h : ctxOf st = k) :
    Post (codeStep E endT st loc) (CodeInv k) := by
  unfold codeStep
  refine Post.bind_any (fun c => ?_)
  dsimp only
  split
  · exact op_post h
  · post_run

theorem codeLoop_post {E : Env} {endT : Nat} {k : CtxKey} (hne : endT ≠ tokenEndStatement) :
    ∀ (fuel : Nat) (st : St) (loc : CodeLoc), ctxOf st = k →
      Post (codeLoop E endT fuel st loc) (CodeInv k) := by
  intro fuel
  induction fuel with
  | zero => intro st loc h; unfold codeLoop; exact Post.error
  | succ fuel ih =>
    intro st loc h
    unfold codeLoop
    split
    · refine Post.bind (codeStep_post hne h) (fun o ho => ?_)
      split
      · exact ih _ _ ho
      · exact Post.pure ho
    · exact Post.pure h

theorem lexCode_post {E : Env} {endT : Nat} {st : St} {k : CtxKey} (hne : endT ≠ tokenEndStatement)
    (h : ctxOf st = k) : Post (lexCode E endT st) (FInv k) := by
  unfold lexCode
  split
  · post_run
  · dsimp only
    refine Post.bind (codeLoop_post hne _ _ _ h) (fun o ho => ?_)
    split
    · exact Post.pure ho
    · exact Post.error
    · have ho' : ctxOf _ = k := ho
      post_run

theorem lexBlock_post {E : Env} {st : St} {k : CtxKey} {openT closeT n : Nat}
    (hne : closeT ≠ tokenEndStatement) (h : ctxOf st = k) :
    Post (lexBlock E st openT closeT n) (FInv k) := by
  unfold lexBlock
  refine Post.bind (emitAdv_post h) (fun s1 h1 => ?_)
  refine Post.bind (lexCode_post hne h1) (fun r hr => ?_)
  split
  · exact Post.pure hr
  · have hr' : ctxOf _ = k := hr
    post_run

/-! ## the theorems -/

/-- the Go-code lexer leaves the context fields alone unless it lexes a `{% … %}` statement -/
theorem lexCode_sameCtx_of_ne (E : Env) (endT : Nat) (st st' : St) (e : Option LexErr)
    (hne : endT ≠ tokenEndStatement) (h : lexCode E endT st = .ok (st', e)) : SameCtx st st' :=
  sameCtx_iff.mpr (lexCode_post hne rfl _ h)

theorem lexCode_show_sameCtx (E : Env) (st st' : St) (e : Option LexErr)
    (h : lexCode E tokenRightBraces st = .ok (st', e)) : SameCtx st st' :=
  lexCode_sameCtx_of_ne E _ st st' e (by decide) h

/-- `{{ … }}` and `{%% … %%}` blocks leave the context fields alone -/
theorem lexBlock_sameCtx_of_ne (E : Env) (openT closeT n : Nat) (st st' : St) (e : Option LexErr)
    (hne : closeT ≠ tokenEndStatement) (h : lexBlock E st openT closeT n = .ok (st', e)) :
    SameCtx st st' :=
  sameCtx_iff.mpr (lexBlock_post hne rfl _ h)

theorem lexShow_sameCtx (E : Env) (st st' : St) (e : Option LexErr)
    (h : lexShow E st = .ok (st', e)) : SameCtx st st' :=
  lexBlock_sameCtx_of_ne E _ _ _ st st' e (by decide) h

theorem lexStatements_sameCtx (E : Env) (st st' : St) (e : Option LexErr)
    (h : lexStatements E st = .ok (st', e)) : SameCtx st st' :=
  lexBlock_sameCtx_of_ne E _ _ _ st st' e (by decide) h

end ScriggoV.Lexer
