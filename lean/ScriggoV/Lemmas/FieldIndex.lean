import ScriggoV.Model.FieldIndex
import ScriggoV.Lemmas.Struct
/-! Lemmas on the field-index table of `Model/FieldIndex.lean` (C01): `sameFieldIndex` is list
equality, `makeFieldIndex` answers a position that holds the requested path and only ever appends. -/
namespace ScriggoV.FieldIndex
open ScriggoV.Gen.FieldIndex ScriggoV.Struct

theorem elemGuard_nat (a b : Nat) : elemGuard (a : Int) (b : Int) = !(decide (a = b)) := by
  simp only [elemGuard]
  by_cases h : a = b
  · simp [h]
  · have : (a : Int) ≠ (b : Int) := by omega
    simp [h, this]

theorem sameLoop_eq (other : Path) : ∀ (r : Path) (k : Nat), r.length + k = other.length →
    sameLoop other r k = .ok (decide (r = other.drop k))
  | [], k, h => by
    have : other.drop k = [] := List.drop_eq_nil_of_le (by simp at h; omega)
    simp [sameLoop, finalResult, this]
  | a :: rest, k, h => by
    have hk : k < other.length := by simp at h; omega
    have hd : other.drop k = other[k] :: other.drop (k + 1) := List.drop_eq_getElem_cons hk
    have ih := sameLoop_eq other rest (k + 1) (by simp at h ⊢; omega)
    simp only [sameLoop, List.getElem?_eq_getElem hk, elemGuard_nat, elemGuardResult]
    rw [hd]
    by_cases hab : a = other[k]
    · simp only [hab, decide_true, Bool.not_true, Bool.false_eq_true, if_false, List.cons.injEq, true_and]
      exact ih
    · simp only [hab, decide_false, Bool.not_false, if_true, List.cons.injEq, false_and]

/-- `sameFieldIndex` never faults and is equality of the two paths -/
theorem sameFieldIndex_eq (i1 i2 : Path) : sameFieldIndex i1 i2 = .ok (decide (i1 = i2)) := by
  unfold sameFieldIndex
  simp only [lenGuard, lenGuardResult, rangeFirst]
  by_cases hl : i1.length = i2.length
  · have := sameLoop_eq i2 i1 0 (by simpa using hl)
    simp [hl, this]
  · have hne : i1 ≠ i2 := fun h => hl (by rw [h])
    simp [hl, hne]

theorem sameArg_eq (p q : Path) :
    (if requestedFirst then sameFieldIndex p q else sameFieldIndex q p) = .ok (decide (p = q)) := by
  simp only [requestedFirst, sameFieldIndex_eq]
  simp

theorem findFrom_spec (p : Path) : ∀ (tbl : List Path) (k : Nat),
    (p ∉ tbl ∧ findFrom p tbl k = .ok none) ∨
    (∃ j, findFrom p tbl k = .ok (some (k + j)) ∧ tbl[j]? = some p ∧ ∀ j', j' < j → tbl[j']? ≠ some p)
  | [], k => by simp [findFrom]
  | q :: rest, k => by
    simp only [findFrom, sameArg_eq]
    by_cases hpq : p = q
    · right
      refine ⟨0, by simp [hpq], by simp [hpq], by simp⟩
    · rcases findFrom_spec p rest (k + 1) with ⟨hn, hf⟩ | ⟨j, hf, hj, hmin⟩
      · left
        simp [hpq, hn, hf]
      · right
        refine ⟨j + 1, ?_, by simpa using hj, ?_⟩
        · simp only [hpq, decide_false, hf]
          congr 2
          omega
        · intro j' hj'
          cases j' with
          | zero => simp; exact fun h => hpq h.symm
          | succ n => simpa using hmin n (by omega)

/-- the whole specification of `makeFieldIndex` -/
theorem makeFieldIndex_spec (tbl : List Path) (p : Path) :
    (∃ i, makeFieldIndex tbl p = .ok (i, tbl) ∧ tbl[i]? = some p ∧ ∀ j, j < i → tbl[j]? ≠ some p) ∨
    (p ∉ tbl ∧ limitReached tbl.length = false ∧ makeFieldIndex tbl p = .ok (tbl.length, tbl ++ [p])) ∨
    (p ∉ tbl ∧ limitReached tbl.length = true ∧ makeFieldIndex tbl p = .error .limit) := by
  unfold makeFieldIndex
  rcases findFrom_spec p tbl 0 with ⟨hn, hf⟩ | ⟨j, hf, hj, hmin⟩
  · right
    cases hl : limitReached tbl.length with
    | false => left; simp [hf, hn]
    | true => right; simp [hf, hn]
  · left
    refine ⟨j, ?_, hj, hmin⟩
    simp [hf]

theorem makeFieldIndex_lookup {tbl tbl' : List Path} {p : Path} {i : Nat}
    (h : makeFieldIndex tbl p = .ok (i, tbl')) : tbl'[i]? = some p := by
  rcases makeFieldIndex_spec tbl p with ⟨i', h', hi, _⟩ | ⟨_, _, h'⟩ | ⟨_, _, h'⟩
  · rw [h'] at h; cases h; exact hi
  · rw [h'] at h; cases h; simp
  · rw [h'] at h; cases h

theorem makeFieldIndex_extends {tbl tbl' : List Path} {p : Path} {i : Nat}
    (h : makeFieldIndex tbl p = .ok (i, tbl')) : tbl <+: tbl' := by
  rcases makeFieldIndex_spec tbl p with ⟨i', h', _, _⟩ | ⟨_, _, h'⟩ | ⟨_, _, h'⟩
  · rw [h'] at h; cases h; exact List.prefix_refl _
  · rw [h'] at h; cases h; exact List.prefix_append _ _
  · rw [h'] at h; cases h

theorem makeFieldIndex_nodup {tbl tbl' : List Path} {p : Path} {i : Nat}
    (h : makeFieldIndex tbl p = .ok (i, tbl')) (hn : tbl.Nodup) : tbl'.Nodup := by
  rcases makeFieldIndex_spec tbl p with ⟨i', h', _, _⟩ | ⟨hp, _, h'⟩ | ⟨_, _, h'⟩
  · rw [h'] at h; cases h; exact hn
  · rw [h'] at h; cases h
    simp only [List.nodup_append, hn, true_and]
    simp
    intro a ha h
    exact hp (h ▸ ha)
  · rw [h'] at h; cases h

theorem readBack_of_lt {i : Nat} (h : i < maxFieldIndexesCount) : readBack i = i := by
  simp only [readBack, indexBits, BitVec.toNat_ofNat]
  simp only [maxFieldIndexesCount] at h
  omega

/-- positions fit the `int8`/`uint8` operand: the table never outgrows `maxFieldIndexesCount` -/
theorem makeFieldIndex_fits {tbl tbl' : List Path} {p : Path} {i : Nat}
    (h : makeFieldIndex tbl p = .ok (i, tbl')) (hl : tbl.length ≤ maxFieldIndexesCount) :
    i < tbl'.length ∧ tbl'.length ≤ maxFieldIndexesCount := by
  rcases makeFieldIndex_spec tbl p with ⟨i', h', hi, _⟩ | ⟨_, hlim, h'⟩ | ⟨_, _, h'⟩
  · rw [h'] at h; cases h
    refine ⟨?_, hl⟩
    rcases List.getElem?_eq_some_iff.mp hi with ⟨hlt, _⟩
    exact hlt
  · rw [h'] at h; cases h
    simp only [limitReached, decide_eq_false_iff_not] at hlim
    simp only [List.length_append, List.length_cons, List.length_nil]
    omega
  · rw [h'] at h; cases h

theorem prefix_getElem? {α} {a b : List α} {i : Nat} {x : α} (hp : a <+: b) (h : a[i]? = some x) :
    b[i]? = some x := by
  obtain ⟨ext, rfl⟩ := hp
  rcases List.getElem?_eq_some_iff.mp h with ⟨hlt, _⟩
  rw [List.getElem?_append_left hlt]; exact h

theorem compileEvents_paths : ∀ (evs : List Ev) (tbl : List Path) (code : List FI) (tbl' : List Path),
    compileEvents evs tbl = .ok (code, tbl') → tbl.length ≤ maxFieldIndexesCount →
    tbl <+: tbl' ∧ tbl'.length ≤ maxFieldIndexesCount ∧
      ∀ final, tbl' <+: final → code.map (printed final) = (requested evs).map some
  | [], tbl, code, tbl', h, hl => by
    simp only [compileEvents, Except.ok.injEq, Prod.mk.injEq] at h
    obtain ⟨rfl, rfl⟩ := h
    exact ⟨List.prefix_refl _, hl, fun _ _ => rfl⟩
  | ev :: rest, tbl, code, tbl', h, hl => by
    simp only [compileEvents] at h
    cases hm : makeFieldIndex tbl ev.path with
    | error e => simp [hm] at h
    | ok r =>
      obtain ⟨i, tbl1⟩ := r
      simp only [hm] at h
      cases hc : compileEvents rest tbl1 with
      | error e => simp [hc] at h
      | ok r2 =>
        obtain ⟨code2, tbl2⟩ := r2
        simp only [hc, Except.ok.injEq, Prod.mk.injEq] at h
        obtain ⟨rfl, rfl⟩ := h
        have hfit := makeFieldIndex_fits hm hl
        have hext := makeFieldIndex_extends hm
        have hlook := makeFieldIndex_lookup hm
        obtain ⟨hp2, hl2, ih⟩ := compileEvents_paths rest tbl1 code2 tbl2 hc hfit.2
        refine ⟨List.IsPrefix.trans hext hp2, hl2, ?_⟩
        intro final hfin
        have hi : final[readBack i]? = some ev.path := by
          rw [readBack_of_lt (by omega)]
          exact prefix_getElem? (List.IsPrefix.trans hp2 hfin) hlook
        cases ev with
        | read p => simp [emitOf, requested, printed, ih final hfin, Ev.path] at hi ⊢; simp [hi]
        | addr p => simp [emitOf, requested, ih final hfin]
        | store p => simp [emitOf, requested, printed, ih final hfin, Ev.path] at hi ⊢; simp [hi]

theorem compileS_correct : ∀ (ss : List SStmt) (tbl : List Path) (code : List SInstr) (tbl' : List Path),
    compileS ss tbl = .ok (code, tbl') → tbl.length ≤ maxFieldIndexesCount →
    tbl <+: tbl' ∧ tbl'.length ≤ maxFieldIndexesCount ∧
      ∀ final, tbl' <+: final → ∀ rs, execAll final code rs = evalAll ss rs
  | [], tbl, code, tbl', h, hl => by
    simp only [compileS, Except.ok.injEq, Prod.mk.injEq] at h
    obtain ⟨rfl, rfl⟩ := h
    exact ⟨List.prefix_refl _, hl, fun _ _ _ => rfl⟩
  | s :: rest, tbl, code, tbl', h, hl => by
    simp only [compileS] at h
    cases hm : makeFieldIndex tbl s.path with
    | error e => simp [hm] at h
    | ok r =>
      obtain ⟨i, tbl1⟩ := r
      simp only [hm] at h
      cases hc : compileS rest tbl1 with
      | error e => simp [hc] at h
      | ok r2 =>
        obtain ⟨code2, tbl2⟩ := r2
        simp only [hc, Except.ok.injEq, Prod.mk.injEq] at h
        obtain ⟨rfl, rfl⟩ := h
        have hfit := makeFieldIndex_fits hm hl
        have hext := makeFieldIndex_extends hm
        have hlook := makeFieldIndex_lookup hm
        obtain ⟨hp2, hl2, ih⟩ := compileS_correct rest tbl1 code2 tbl2 hc hfit.2
        refine ⟨List.IsPrefix.trans hext hp2, hl2, ?_⟩
        intro final hfin rs
        have hi : final[readBack i]? = some s.path := by
          rw [readBack_of_lt (by omega)]
          exact prefix_getElem? (List.IsPrefix.trans hp2 hfin) hlook
        cases s with
        | get dst src p =>
          simp only [SStmt.path] at hi
          have hrest : execAll final code2 = evalAll rest := funext (ih final hfin)
          simp [execAll, evalAll, SStmt.instr, SInstr.exec, SStmt.eval, hi, hrest]
        | set obj p src =>
          simp only [SStmt.path] at hi
          have hrest : execAll final code2 = evalAll rest := funext (ih final hfin)
          simp [execAll, evalAll, SStmt.instr, SInstr.exec, SStmt.eval, hi, hrest]

end ScriggoV.FieldIndex
