import ScriggoV.Lemmas.SlotsHtml
import ScriggoV.Lemmas.EscapeJs
/-! C06, JavaScript / JSON part: the output of `jsStringEscape` read as the content of a
JavaScript string literal (either quote), of a JSON string, and of a `script` element.

`jsStringEscapeOut s = jsSimple 0 s` (`Lemmas/EscapeJs`): a per-byte substitution in which the
three bytes `E2 80 A8` / `E2 80 A9` (U+2028 / U+2029) are replaced as a unit. The scanner of
`Spec/Slots` tracks a raw `E2` and `E2 80` (states `e2`, `e280`); the invariant `jsInv` says
that in those states the input still to be escaped does not continue the separator — it would
have been replaced.

**`jsString_confined` is false as stated**: an input that *ends* with the byte `E2` or the
bytes `E2 80` (a truncated — hence invalid — UTF-8 sequence) is copied unchanged, and the scan
of the output ends in `e2` / `e280`, not `str`. `jsString_scan` gives the exact final state for
every input, `jsString_confined_iff` the exact set of inputs for which the statement holds,
`jsString_inside` / `jsString_followed` what remains true for all inputs, and
`jsString_confined_valid` covers every valid UTF-8 input. -/
namespace ScriggoV.Slots
open ScriggoV ScriggoV.Slots ScriggoV.Escape ScriggoV.Gen.EscapeTables

/-! ### the shape of `jsSimple` -/

/-- what is written for a byte that does not start a replaced separator -/
def jsEntryOr (c : UInt8) : Bytes :=
  match jsByteEsc c with
  | [] => [c]
  | e :: es => e :: es

theorem jsSimple_nil (k : Nat) : jsSimple k [] = [] := by
  cases k <;> rfl

theorem jsSimple_succ (k : Nat) (c : UInt8) (rest : Bytes) :
    jsSimple (k + 1) (c :: rest) = jsSimple k rest := by
  simp [jsSimple]

theorem jsSimple_zero_cons (c : UInt8) (rest : Bytes) :
    (isSep 0xA8 c rest = true ∧ jsSimple 0 (c :: rest) = u2028 ++ jsSimple 2 rest) ∨
    (isSep 0xA8 c rest = false ∧ isSep 0xA9 c rest = true ∧
      jsSimple 0 (c :: rest) = u2029 ++ jsSimple 2 rest) ∨
    (isSep 0xA8 c rest = false ∧ isSep 0xA9 c rest = false ∧
      jsSimple 0 (c :: rest) = jsEntryOr c ++ jsSimple 0 rest) := by
  cases h8 : isSep 0xA8 c rest
  · cases h9 : isSep 0xA9 c rest
    · right; right
      refine ⟨rfl, rfl, ?_⟩
      simp only [jsSimple, jsPiece, h8, h9, Bool.false_eq_true, if_false, Bool.or_self, jsEntryOr]
      rfl
    · right; left
      refine ⟨rfl, rfl, ?_⟩
      simp only [jsSimple, jsPiece, h8, h9, Bool.false_eq_true, if_false, if_true, Bool.or_true]
  · left
    refine ⟨rfl, ?_⟩
    simp only [jsSimple, jsPiece, h8, if_true, Bool.true_or]

/-- a byte predicate that holds of the two separator escapes and of what is written for every
single byte holds of the whole output -/
theorem jsSimple_all (p : UInt8 → Bool) (h8 : u2028.all p = true) (h9 : u2029.all p = true)
    (hent : ∀ c, (jsEntryOr c).all p = true) (s : Bytes) :
    ∀ k, (jsSimple k s).all p = true := by
  induction s with
  | nil => intro k; rw [jsSimple_nil]; rfl
  | cons c rest ih =>
    intro k
    cases k with
    | succ k => rw [jsSimple_succ]; exact ih k
    | zero =>
      rcases jsSimple_zero_cons c rest with ⟨_, e⟩ | ⟨_, _, e⟩ | ⟨_, _, e⟩ <;>
        rw [e, List.all_append, Bool.and_eq_true]
      · exact ⟨h8, ih 2⟩
      · exact ⟨h9, ih 2⟩
      · exact ⟨hent c, ih 0⟩

/-! ### no markup-significant byte -/

def pJs (c : UInt8) : Bool :=
  c != 0x3C && c != 0x3E && c != 0x26 && c != 10 && c != 13 && c != 0x27

def jsMarkupFact (c : UInt8) : Bool := (jsEntryOr c).all pJs

theorem jsMarkupFact_all : ∀ c, jsMarkupFact c = true := allBytes_spec (by decide +kernel)

theorem js_out_all (s : Bytes) : (jsStringEscapeOut s).all pJs = true := by
  rw [jsStringEscapeOut_eq]
  exact jsSimple_all pJs (by decide) (by decide) jsMarkupFact_all s 0

/-- the output contains no `<` `>` `&`, no raw LF / CR and no `'` (a `"` only as `\"`) -/
theorem jsString_no_markup (s : Bytes) : ∀ c ∈ jsStringEscapeOut s,
    c ≠ 0x3C ∧ c ≠ 0x3E ∧ c ≠ 0x26 ∧ c ≠ 10 ∧ c ≠ 13 ∧ c ≠ 0x27 := by
  intro c hc
  have h := List.all_eq_true.mp (js_out_all s) c hc
  simpa [pJs, and_assoc] using h

/-- **`<script>` content**: no `</`, no `<!--` — there is no `<` at all -/
theorem jsString_raw (s : Bytes) : rawTextConfined (jsStringEscapeOut s) = true := by
  apply rawText_of_all
  refine all_mono pJs _ ?_ _ (js_out_all s)
  intro c hc
  simp only [pJs, Bool.and_eq_true] at hc
  exact hc.1.1.1.1.1

/-! ### JSON string -/

def jsonFact (c : UInt8) : Bool := List.foldl jsonStep .str (jsEntryOr c) == .str

theorem jsonFact_all : ∀ c, jsonFact c = true := allBytes_spec (by decide +kernel)

theorem json_scan (s : Bytes) : ∀ k, List.foldl jsonStep .str (jsSimple k s) = .str := by
  induction s with
  | nil => intro k; rw [jsSimple_nil]; rfl
  | cons c rest ih =>
    intro k
    cases k with
    | succ k => rw [jsSimple_succ]; exact ih k
    | zero =>
      rcases jsSimple_zero_cons c rest with ⟨_, e⟩ | ⟨_, _, e⟩ | ⟨_, _, e⟩ <;>
        rw [e, List.foldl_append]
      · rw [show List.foldl jsonStep .str u2028 = .str from by decide]; exact ih 2
      · rw [show List.foldl jsonStep .str u2029 = .str from by decide]; exact ih 2
      · have := jsonFact_all c
        simp only [jsonFact, beq_iff_eq] at this
        rw [this]; exact ih 0

/-- **JSON string** (RFC 8259 §7): every escape written is a JSON escape, no control
character and no `"` is written raw -/
theorem jsString_json (s : Bytes) : jsonStrConfined (jsStringEscapeOut s) = true := by
  unfold jsonStrConfined jsonScan
  rw [jsStringEscapeOut_eq, json_scan s 0]
  rfl

/-! ### JavaScript string literal -/

/-- the three states inside the literal with no escape open -/
def jsInside : JsSt → Bool
  | .str => true
  | .e2 => true
  | .e280 => true
  | _ => false

/-- the scanner of `Spec/Slots` restricted to what it remembers about a trailing raw `E2` /
`E2 80`, run over the INPUT: the state the scan of the output ends in (`jsString_scan`) -/
def tailStep (st : JsSt) (c : UInt8) : JsSt :=
  if c == 0xE2 then .e2 else if st == .e2 && c == 0x80 then .e280 else .str

def e2Tail (s : Bytes) : JsSt := s.foldl tailStep .str

/-- per byte: a byte written unchanged is none of `\` `"` `'` LF CR; an entry is written for an
ASCII byte only and, scanned from any state inside the literal, for either quote, ends in
`str` -/
def jsSlotFact (c : UInt8) : Bool :=
  match jsByteEsc c with
  | [] => c != 0x5C && c != 0x22 && c != 0x27 && c != 10 && c != 13
  | e :: es => c != 0xE2 && c != 0x80 &&
      [(0x22 : UInt8), 0x27].all (fun q => [JsSt.str, JsSt.e2, JsSt.e280].all (fun st =>
        List.foldl (jsStep q) st (e :: es) == .str))

theorem jsSlotFact_all : ∀ c, jsSlotFact c = true := allBytes_spec (by decide +kernel)

theorem jsInside_cases (st : JsSt) (h : jsInside st = true) : st = .str ∨ st = .e2 ∨ st = .e280 := by
  cases st <;> simp [jsInside] at h <;> simp

theorem js_entry (q : UInt8) (hq : q = 0x22 ∨ q = 0x27) (st : JsSt) (hst : jsInside st = true)
    (c e : UInt8) (es : Bytes) (he : jsByteEsc c = e :: es) :
    c ≠ 0xE2 ∧ c ≠ 0x80 ∧ List.foldl (jsStep q) st (e :: es) = .str := by
  have hf := jsSlotFact_all c
  unfold jsSlotFact at hf
  rw [he] at hf
  simp only [List.all_cons, List.all_nil, Bool.and_true, Bool.and_eq_true, bne_iff_ne, ne_eq,
    beq_iff_eq] at hf
  obtain ⟨⟨h1, h2⟩, ⟨a1, a2, a3⟩, b1, b2, b3⟩ := hf
  refine ⟨h1, h2, ?_⟩
  rcases hq with rfl | rfl <;> rcases jsInside_cases st hst with rfl | rfl | rfl <;> assumption

theorem js_sep_piece (q : UInt8) (hq : q = 0x22 ∨ q = 0x27) (st : JsSt) (hst : jsInside st = true) :
    List.foldl (jsStep q) st u2028 = .str ∧ List.foldl (jsStep q) st u2029 = .str := by
  rcases hq with rfl | rfl <;> rcases jsInside_cases st hst with rfl | rfl | rfl <;> decide

/-- in `e2` / `e280` the input still to be escaped does not continue a separator; bytes are
being dropped (`k > 0`) only just after an escape, in `str` -/
def jsInv : JsSt → Nat → Bytes → Bool
  | .str, _, _ => true
  | .e2, 0, x :: y :: _ => !(x == 0x80 && (y == 0xA8 || y == 0xA9))
  | .e2, 0, _ => true
  | .e280, 0, y :: _ => !(y == 0xA8 || y == 0xA9)
  | .e280, 0, [] => true
  | _, _, _ => false

theorem jsInv_inside (st : JsSt) (k : Nat) (s : Bytes) (h : jsInv st k s = true) :
    jsInside st = true := by
  cases st <;> first | rfl | (cases k <;> cases s <;> simp [jsInv] at h)

theorem jsInv_succ (st : JsSt) (k : Nat) (s : Bytes) (h : jsInv st (k + 1) s = true) :
    st = .str := by
  cases st <;> first | rfl | (cases s <;> simp [jsInv] at h)

/-- a raw `E2` that does not start a replaced separator -/
theorem jsInv_e2_of_notSep (rest : Bytes) (h8 : isSep 0xA8 0xE2 rest = false)
    (h9 : isSep 0xA9 0xE2 rest = false) : jsInv .e2 0 rest = true := by
  match rest with
  | [] => rfl
  | [_] => rfl
  | x :: y :: r =>
    simp only [isSep, beq_self_eq_true, Bool.true_and] at h8 h9
    simp only [jsInv]
    cases hx : x == 0x80 <;> simp_all

theorem jsInv_e280_of_e2 (rest : Bytes) (h : jsInv .e2 0 (0x80 :: rest) = true) :
    jsInv .e280 0 rest = true := by
  match rest with
  | [] => rfl
  | y :: r => simpa [jsInv] using h

/-- one raw byte: the scanner of the output and the tail tracker of the input agree, and the
invariant is kept -/
theorem js_raw_step (q : UInt8) (hq : q = 0x22 ∨ q = 0x27) (st : JsSt) (c : UInt8) (rest : Bytes)
    (hinv : jsInv st 0 (c :: rest) = true)
    (h8 : isSep 0xA8 c rest = false) (h9 : isSep 0xA9 c rest = false)
    (he : jsByteEsc c = []) :
    jsStep q st c = tailStep st c ∧ jsInv (tailStep st c) 0 rest = true := by
  have hf := jsSlotFact_all c
  unfold jsSlotFact at hf
  rw [he] at hf
  simp only [Bool.and_eq_true, bne_iff_ne, ne_eq] at hf
  obtain ⟨⟨⟨⟨c5, c22⟩, c27⟩, c10⟩, c13⟩ := hf
  have cq : (c == q) = false := by rcases hq with rfl | rfl <;> simpa using ‹_›
  have c5' : (c == 0x5C) = false := by simpa using c5
  have c10' : (c == 10) = false := by simpa using c10
  have c13' : (c == 13) = false := by simpa using c13
  by_cases hE2 : c = 0xE2
  · subst hE2
    have hstep : ∀ st, jsInside st = true → jsStep q st 0xE2 = .e2 := by
      intro st hst
      rcases jsInside_cases st hst with rfl | rfl | rfl <;> simp [jsStep, cq]
    refine ⟨?_, ?_⟩
    · rw [hstep st (jsInv_inside _ _ _ hinv)]; simp [tailStep]
    · have : tailStep st 0xE2 = .e2 := by simp [tailStep]
      rw [this]
      exact jsInv_e2_of_notSep rest h8 h9
  · have cE2 : (c == 0xE2) = false := by simpa using hE2
    rcases jsInside_cases st (jsInv_inside _ _ _ hinv) with rfl | rfl | rfl
    · refine ⟨?_, ?_⟩
      · simp [jsStep, tailStep, cq, c5', c10', c13', cE2]
      · simp [tailStep, cE2, jsInv]
    · by_cases h80 : c = 0x80
      · subst h80
        refine ⟨?_, ?_⟩
        · simp [jsStep, tailStep, cq]
        · have : tailStep .e2 0x80 = .e280 := by simp [tailStep]
          rw [this]
          exact jsInv_e280_of_e2 rest hinv
      · have c80 : (c == 0x80) = false := by simpa using h80
        refine ⟨?_, ?_⟩
        · simp [jsStep, tailStep, cq, c5', c10', c13', cE2, c80]
        · simp [tailStep, cE2, c80, jsInv]
    · have hA : (c == 0xA8 || c == 0xA9) = false := by simpa [jsInv] using hinv
      refine ⟨?_, ?_⟩
      · simp only [Bool.or_eq_false_iff] at hA
        simp [jsStep, tailStep, cq, c5', c10', c13', cE2, hA.1, hA.2]
      · simp [tailStep, cE2, jsInv]

theorem tailStep_ascii (st : JsSt) (c : UInt8) (h1 : c ≠ 0xE2) (h2 : c ≠ 0x80) :
    tailStep st c = .str := by
  simp [tailStep, h1, h2]

/-- **the scan of the output, from any state inside the literal, ends where the tail tracker
of the input ends** -/
theorem js_scan (q : UInt8) (hq : q = 0x22 ∨ q = 0x27) (s : Bytes) :
    ∀ st k, jsInv st k s = true →
      List.foldl (jsStep q) st (jsSimple k s) = List.foldl tailStep st (s.drop k) := by
  induction s with
  | nil => intro st k _; rw [jsSimple_nil]; simp
  | cons c rest ih =>
    intro st k hinv
    cases k with
    | succ k =>
      have := jsInv_succ st k _ hinv
      subst this
      rw [jsSimple_succ, List.drop_succ_cons]
      exact ih .str k rfl
    | zero =>
      have hst := jsInv_inside _ _ _ hinv
      rw [List.drop_zero, List.foldl_cons]
      rcases jsSimple_zero_cons c rest with ⟨h8, e⟩ | ⟨_, h9, e⟩ | ⟨h8, h9, e⟩
      · obtain ⟨hc, t, hr⟩ := (isSep_iff _ _ _).mp h8
        subst hc hr
        rw [e, List.foldl_append, (js_sep_piece q hq st hst).1, ih .str 2 rfl]
        simp [tailStep]
      · obtain ⟨hc, t, hr⟩ := (isSep_iff _ _ _).mp h9
        subst hc hr
        rw [e, List.foldl_append, (js_sep_piece q hq st hst).2, ih .str 2 rfl]
        simp [tailStep]
      · rw [e, List.foldl_append]
        cases he : jsByteEsc c with
        | nil =>
          obtain ⟨hs, hi⟩ := js_raw_step q hq st c rest hinv h8 h9 he
          simp only [jsEntryOr, he, List.foldl_cons, List.foldl_nil]
          rw [hs]
          exact ih _ 0 hi
        | cons x xs =>
          obtain ⟨h1, h2, hs⟩ := js_entry q hq st hst c x xs he
          simp only [jsEntryOr, he]
          rw [hs, tailStep_ascii st c h1 h2]
          exact ih .str 0 rfl

/-- **exact final state**: the scan of the escaped string ends in the state determined by a
trailing `E2` / `E2 80` of the input -/
theorem jsString_scan (q : UInt8) (hq : q = 0x22 ∨ q = 0x27) (s : Bytes) :
    jsScan q (jsStringEscapeOut s) = e2Tail s := by
  unfold jsScan e2Tail
  rw [jsStringEscapeOut_eq, js_scan q hq s .str 0 rfl, List.drop_zero]

/-! ### the tail tracker -/

theorem tailStep_cases (st : JsSt) (c : UInt8) :
    (c = 0xE2 ∧ tailStep st c = .e2) ∨
    (c ≠ 0xE2 ∧ st = .e2 ∧ c = 0x80 ∧ tailStep st c = .e280) ∨
    (c ≠ 0xE2 ∧ ¬ (st = .e2 ∧ c = 0x80) ∧ tailStep st c = .str) := by
  by_cases h1 : c = 0xE2
  · left; exact ⟨h1, by simp [tailStep, h1]⟩
  · by_cases h2 : st = .e2 ∧ c = 0x80
    · right; left
      obtain ⟨rfl, rfl⟩ := h2
      exact ⟨h1, rfl, rfl, by simp [tailStep]⟩
    · right; right
      refine ⟨h1, h2, ?_⟩
      have h1' : (c == 0xE2) = false := by simpa using h1
      have h2' : (st == .e2 && c == 0x80) = false := by
        cases hb : (st == .e2 && c == 0x80) with
        | false => rfl
        | true =>
          simp only [Bool.and_eq_true, beq_iff_eq] at hb
          exact absurd hb h2
      simp [tailStep, h1', h2']

theorem tail_foldl_inside (s : Bytes) (st : JsSt) (hst : jsInside st = true) :
    jsInside (List.foldl tailStep st s) = true := by
  rcases List.eq_nil_or_concat s with rfl | ⟨init, c, rfl⟩
  · exact hst
  · rw [List.concat_eq_append, List.foldl_append, List.foldl_cons, List.foldl_nil]
    rcases tailStep_cases (List.foldl tailStep st init) c with ⟨_, h⟩ | ⟨_, _, _, h⟩ | ⟨_, _, h⟩ <;>
      rw [h] <;> rfl

/-- the tracker ends in `e2` exactly after a last byte `E2` -/
theorem e2Tail_e2 (s : Bytes) : e2Tail s = .e2 ↔ ∃ t, s = t ++ [0xE2] := by
  unfold e2Tail
  rcases List.eq_nil_or_concat s with rfl | ⟨init, c, rfl⟩
  · simp
  · rw [List.concat_eq_append, List.foldl_append, List.foldl_cons, List.foldl_nil]
    constructor
    · intro h
      rcases tailStep_cases (List.foldl tailStep .str init) c with ⟨hc, _⟩ | ⟨_, _, _, h'⟩ | ⟨_, _, h'⟩
      · exact ⟨init, by rw [hc]⟩
      · rw [h'] at h; cases h
      · rw [h'] at h; cases h
    · rintro ⟨t, ht⟩
      obtain ⟨_, hc⟩ := List.append_inj' ht rfl
      have hc : c = 0xE2 := by simpa using hc
      subst hc
      simp [tailStep]

theorem e2Tail_e280 (s : Bytes) : e2Tail s = .e280 ↔ ∃ t, s = t ++ [0xE2, 0x80] := by
  rcases List.eq_nil_or_concat s with rfl | ⟨init, c, rfl⟩
  · simp [e2Tail]
  · have hstep : e2Tail (init.concat c) = tailStep (e2Tail init) c := by
      unfold e2Tail
      rw [List.concat_eq_append, List.foldl_append, List.foldl_cons, List.foldl_nil]
    rw [hstep, List.concat_eq_append]
    constructor
    · intro h
      rcases tailStep_cases (e2Tail init) c with ⟨_, h'⟩ | ⟨_, hp, hc, _⟩ | ⟨_, _, h'⟩
      · rw [h'] at h; cases h
      · obtain ⟨t, ht⟩ := (e2Tail_e2 init).mp hp
        exact ⟨t, by rw [ht, hc]; simp⟩
      · rw [h'] at h; cases h
    · rintro ⟨t, ht⟩
      have ht' : init ++ [c] = (t ++ [0xE2]) ++ [0x80] := by rw [ht]; simp
      obtain ⟨hi, hc⟩ := List.append_inj' ht' rfl
      have hc : c = 0x80 := by simpa using hc
      subst hc
      have : e2Tail init = .e2 := (e2Tail_e2 init).mpr ⟨t, hi⟩
      rw [this]
      simp [tailStep]

theorem e2Tail_inside (s : Bytes) : jsInside (e2Tail s) = true :=
  tail_foldl_inside s .str rfl

theorem e2Tail_str_iff (s : Bytes) :
    e2Tail s = .str ↔ (∀ t, s ≠ t ++ [0xE2]) ∧ (∀ t, s ≠ t ++ [0xE2, 0x80]) := by
  constructor
  · intro h
    refine ⟨fun t ht => ?_, fun t ht => ?_⟩
    · have := (e2Tail_e2 s).mpr ⟨t, ht⟩
      rw [h] at this; cases this
    · have := (e2Tail_e280 s).mpr ⟨t, ht⟩
      rw [h] at this; cases this
  · rintro ⟨h1, h2⟩
    rcases jsInside_cases _ (e2Tail_inside s) with h | h | h
    · exact h
    · obtain ⟨t, ht⟩ := (e2Tail_e2 s).mp h
      exact absurd ht (h1 t)
    · obtain ⟨t, ht⟩ := (e2Tail_e280 s).mp h
      exact absurd ht (h2 t)

/-! ### the theorems -/

/-- for EVERY input: the scan of the output never leaves the literal, and no escape is left
open at its end (the final state is `str`, `e2` or `e280`) -/
theorem jsString_inside (q : UInt8) (hq : q = 0x22 ∨ q = 0x27) (s : Bytes) :
    jsInside (jsScan q (jsStringEscapeOut s)) = true := by
  rw [jsString_scan q hq s]
  exact e2Tail_inside s

/-- the inputs for which `jsString_confined` holds: exactly those that do not end with the byte
`E2` or the bytes `E2 80` -/
theorem jsString_confined_iff (q : UInt8) (hq : q = 0x22 ∨ q = 0x27) (s : Bytes) :
    jsStrConfined q (jsStringEscapeOut s) = true ↔
      (∀ t, s ≠ t ++ [0xE2]) ∧ (∀ t, s ≠ t ++ [0xE2, 0x80]) := by
  unfold jsStrConfined
  rw [jsString_scan q hq s, beq_iff_eq]
  exact e2Tail_str_iff s

/-- **JavaScript string literal, either quote.** EXCLUDED: inputs whose last byte is `E2`, or
whose last two bytes are `E2 80` — a truncated, hence invalid, UTF-8 sequence (the beginning of
U+2028 / U+2029 among others). They are written unchanged (only the complete `E2 80 A8` /
`E2 80 A9` is replaced), so the reference scanner ends in `e2` / `e280` — still inside the
literal (`jsString_inside`), but not in the state `str` that `jsStrConfined` demands: if the
template text after the slot began with the bytes `80 A8` / `A8`, the two would combine into a
line terminator. For every other input, valid UTF-8 or not, the scan ends in `str`. -/
theorem jsString_confined_partial (q : UInt8) (hq : q = 0x22 ∨ q = 0x27) (s : Bytes)
    (h1 : ∀ t, s ≠ t ++ [0xE2]) (h2 : ∀ t, s ≠ t ++ [0xE2, 0x80]) :
    jsStrConfined q (jsStringEscapeOut s) = true :=
  (jsString_confined_iff q hq s).mpr ⟨h1, h2⟩

/-- `jsString_confined` fails for the one-byte input `E2` -/
theorem jsString_confined_counterexample :
    jsStrConfined 0x22 (jsStringEscapeOut [0xE2]) = false ∧
    jsStrConfined 0x27 (jsStringEscapeOut [0xE2, 0x80]) = false := by
  rw [jsStringEscapeOut_eq, jsStringEscapeOut_eq]
  decide

/-- for EVERY input: template text after the slot is scanned as the author wrote it — from the
state `str` — unless it begins with one of the continuation bytes `80`, `A8`, `A9` (which no
valid UTF-8 template text does). In particular the closing quote closes the literal. -/
theorem jsString_followed (q : UInt8) (hq : q = 0x22 ∨ q = 0x27) (s : Bytes) (c : UInt8) (t : Bytes)
    (h80 : c ≠ 0x80) (hA8 : c ≠ 0xA8) (hA9 : c ≠ 0xA9) :
    jsScan q (jsStringEscapeOut s ++ c :: t) = jsScan q (c :: t) := by
  unfold jsScan
  rw [List.foldl_append, List.foldl_cons, List.foldl_cons]
  have hin := jsString_inside q hq s
  unfold jsScan at hin
  have h80' : (c == 0x80) = false := by simpa using h80
  have hA8' : (c == 0xA8) = false := by simpa using hA8
  have hA9' : (c == 0xA9) = false := by simpa using hA9
  rcases jsInside_cases _ hin with h | h | h <;> rw [h]
  · simp [jsStep, h80']
  · simp [jsStep, hA8', hA9']

/-! ### valid UTF-8 input -/
section Valid
open ScriggoV.Utf8

theorem tailStep_ne_e2 (st : JsSt) (c : UInt8) (hc : c ≠ 0xE2) : tailStep st c ≠ .e2 := by
  rcases tailStep_cases st c with ⟨h, _⟩ | ⟨_, _, _, h⟩ | ⟨_, _, h⟩
  · exact absurd h hc
  · rw [h]; intro e; cases e
  · rw [h]; intro e; cases e

theorem tailStep_str_of (st : JsSt) (c : UInt8) (hst : st ≠ .e2) (hc : c ≠ 0xE2) :
    tailStep st c = .str := by
  rcases tailStep_cases st c with ⟨h, _⟩ | ⟨_, h, _, _⟩ | ⟨_, _, h⟩
  · exact absurd h hc
  · exact absurd h hst
  · exact h

theorem cont_ne_e2 (b : UInt8) (h : isCont b = true) : b ≠ 0xE2 := by
  rw [isCont_iff] at h
  intro e
  subst e
  simp at h

theorem validF_succ_cons (f : Nat) (c : UInt8) (rest : Bytes) :
    validF (f + 1) (c :: rest) =
      (if ((decodeRune (c :: rest)).1 == runeError && (decodeRune (c :: rest)).2 == 1) = true then false
       else validF f ((c :: rest).drop (decodeRune (c :: rest)).2)) := rfl

/-- after a complete rune the tail tracker is back in `str` -/
theorem validF_tail (f : Nat) : ∀ s, validF f s = true → List.foldl tailStep .str s = .str := by
  induction f with
  | zero =>
    intro s h
    cases s with
    | nil => rfl
    | cons c rest => simp [validF] at h
  | succ f ih =>
    intro s h
    cases s with
    | nil => rfl
    | cons c rest =>
      rw [validF_succ_cons] at h
      have hstr : (JsSt.str) ≠ .e2 := by intro e; cases e
      by_cases hc : c.toNat < 128
      · rw [decodeRune_ascii c rest hc] at h
        have hne : c ≠ 0xE2 := by intro e; subst e; simp at hc
        have hv : validF f rest = true := by
          have h' : ¬ c.toNat = runeError ∧ validF f rest = true := by simpa using h
          exact h'.2
        rw [List.foldl_cons, tailStep_str_of _ _ hstr hne]
        exact ih rest hv
      · rcases decodeRune_cases c rest (by omega) with hd | ⟨b1, t, hr, hc1, hge, hle, hd⟩ |
          ⟨b1, b2, t, hr, hc1, hc2, _, _, _, hd⟩ | ⟨b1, b2, b3, t, hr, hc1, hc2, hc3, hge, hle, _, hd⟩
        · rw [hd] at h
          simp at h
        · rw [hd] at h
          subst hr
          have hv : validF f t = true := by simpa using h
          have hne : c ≠ 0xE2 := by intro e; subst e; simp at hle
          simp only [List.foldl_cons]
          rw [tailStep_str_of _ c hstr hne, tailStep_str_of _ b1 hstr (cont_ne_e2 b1 hc1)]
          exact ih t hv
        · rw [hd] at h
          subst hr
          have hv : validF f t = true := by simpa using h
          simp only [List.foldl_cons]
          rw [tailStep_str_of _ b2 (tailStep_ne_e2 _ b1 (cont_ne_e2 b1 hc1)) (cont_ne_e2 b2 hc2)]
          exact ih t hv
        · rw [hd] at h
          subst hr
          have hv : validF f t = true := by simpa using h
          simp only [List.foldl_cons]
          rw [tailStep_str_of _ b3 (tailStep_ne_e2 _ b2 (cont_ne_e2 b2 hc2)) (cont_ne_e2 b3 hc3)]
          exact ih t hv

/-- **JavaScript string literal, either quote, valid UTF-8 input**: `jsString_confined` as
stated holds for every input accepted by Go's `utf8.Valid` -/
theorem jsString_confined_valid (q : UInt8) (hq : q = 0x22 ∨ q = 0x27) (s : Bytes)
    (hv : Utf8.valid s = true) : jsStrConfined q (jsStringEscapeOut s) = true := by
  unfold jsStrConfined
  rw [jsString_scan q hq s, beq_iff_eq]
  exact validF_tail _ s hv

end Valid

end ScriggoV.Slots
