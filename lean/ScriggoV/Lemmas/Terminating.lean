import ScriggoV.Model.Terminating
/-! Lemmas for C03, terminating statements: a `break` that can leave a statement is seen by
`hasBreak`; a terminating statement never completes normally. -/
namespace ScriggoV.Terminating

mutual
/-- an unlabeled break that leaves the statement is an (implicit) break referring to the enclosing one -/
theorem brkU_hasBreak (s : TStmt) (lab lab' : Option Nat) (h : Out.brkU ∈ outs s lab) :
    hasBreak s lab' true = true := by
  cases s with
  | simple | ret | panicCall | gotoS | fall => simp [outs] at h
  | brk l => cases l <;> simp [outs] at h <;> simp [hasBreak]
  | cont l => cases l <;> simp [outs] at h
  | block ss => simp only [outs] at h; simp only [hasBreak]; exact brkU_hasBreakL ss lab' h
  | ifOnly t =>
    simp only [outs, List.mem_cons, reduceCtorEq, false_or] at h
    simp only [hasBreak]; exact brkU_hasBreakL t lab' h
  | ifElse t e =>
    simp only [outs, List.mem_append] at h
    simp only [hasBreak, Bool.or_eq_true]
    rcases h with h | h
    · exact .inl (brkU_hasBreakL t lab' h)
    · exact .inr (brkU_hasBreak e none lab' h)
  | forS c r body =>
    exfalso
    simp only [outs, List.mem_append, List.mem_filterMap] at h
    rcases h with h | ⟨o, _, ho⟩
    · split at h <;> simp at h
    · cases o <;> simp [loopOut] at ho <;> (split at ho <;> simp at ho)
  | sw k d cs =>
    exfalso
    simp only [outs, List.mem_append, List.mem_map] at h
    rcases h with h | ⟨o, _, ho⟩
    · split at h <;> simp at h
    · cases o <;> simp [switchOut] at ho <;> (split at ho <;> simp at ho)
  | labeled l s => simp only [outs] at h; simp only [hasBreak]; exact brkU_hasBreak s (some l) lab' h
theorem brkU_hasBreakL (ss : TList) (lab' : Option Nat) (h : Out.brkU ∈ outsL ss) :
    hasBreakL ss lab' true = true := by
  cases ss with
  | nil => simp [outsL] at h
  | cons s rest =>
    simp only [outsL, List.mem_append, List.mem_filter] at h
    simp only [hasBreakL, Bool.or_eq_true]
    rcases h with ⟨h, _⟩ | h
    · exact .inl (brkU_hasBreak s none lab' h)
    · split at h
      · exact .inr (brkU_hasBreakL rest lab' h)
      · simp at h
end

mutual
/-- a labeled break that leaves the statement is a break referring to the statement labeled `l` -/
theorem brkL_hasBreak (s : TStmt) (lab : Option Nat) (l : Nat) (imp : Bool) (h : Out.brkL l ∈ outs s lab) :
    hasBreak s (some l) imp = true := by
  cases s with
  | simple | ret | panicCall | gotoS | fall => simp [outs] at h
  | brk l' => cases l' <;> simp [outs] at h; subst h; simp [hasBreak]
  | cont l' => cases l' <;> simp [outs] at h
  | block ss => simp only [outs] at h; simp only [hasBreak]; exact brkL_hasBreakL ss l imp h
  | ifOnly t =>
    simp only [outs, List.mem_cons, reduceCtorEq, false_or] at h
    simp only [hasBreak]; exact brkL_hasBreakL t l imp h
  | ifElse t e =>
    simp only [outs, List.mem_append] at h
    simp only [hasBreak, Bool.or_eq_true]
    rcases h with h | h
    · exact .inl (brkL_hasBreakL t l imp h)
    · exact .inr (brkL_hasBreak e none l imp h)
  | forS c r body =>
    simp only [outs, List.mem_append, List.mem_filterMap] at h
    simp only [hasBreak, Option.isSome_some, Bool.true_and]
    rcases h with h | ⟨o, hob, ho⟩
    · split at h <;> simp at h
    · cases o <;> simp [loopOut] at ho
      all_goals (split at ho <;> simp at ho)
      all_goals (subst ho; exact brkL_hasBreakL body _ false hob)
  | sw k d cs =>
    simp only [outs, List.mem_append, List.mem_map] at h
    simp only [hasBreak, Option.isSome_some, Bool.true_and]
    rcases h with h | ⟨o, hoc, ho⟩
    · split at h <;> simp at h
    · cases o <;> simp [switchOut] at ho
      all_goals (split at ho <;> simp at ho)
      all_goals (subst ho; exact brkL_hasBreakC cs _ false hoc)
  | labeled l' s => simp only [outs] at h; simp only [hasBreak]; exact brkL_hasBreak s (some l') l imp h
theorem brkL_hasBreakL (ss : TList) (l : Nat) (imp : Bool) (h : Out.brkL l ∈ outsL ss) :
    hasBreakL ss (some l) imp = true := by
  cases ss with
  | nil => simp [outsL] at h
  | cons s rest =>
    simp only [outsL, List.mem_append, List.mem_filter] at h
    simp only [hasBreakL, Bool.or_eq_true]
    rcases h with ⟨h, _⟩ | h
    · exact .inl (brkL_hasBreak s none l imp h)
    · split at h
      · exact .inr (brkL_hasBreakL rest l imp h)
      · simp at h
theorem brkL_hasBreakFrom (cs : TClauses) (l : Nat) (imp : Bool) (h : Out.brkL l ∈ outsFrom cs) :
    hasBreakC cs (some l) imp = true := by
  cases cs with
  | nil => simp [outsFrom] at h
  | cons c rest =>
    simp only [outsFrom, List.mem_append, List.mem_filter] at h
    simp only [hasBreakC, Bool.or_eq_true]
    rcases h with ⟨h, _⟩ | h
    · exact .inl (brkL_hasBreakL c l imp h)
    · split at h
      · exact .inr (brkL_hasBreakFrom rest l imp h)
      · simp at h
theorem brkL_hasBreakC (cs : TClauses) (l : Nat) (imp : Bool) (h : Out.brkL l ∈ outsC cs) :
    hasBreakC cs (some l) imp = true := by
  cases cs with
  | nil => simp [outsC] at h
  | cons c rest =>
    simp only [outsC, List.mem_append, List.mem_filter] at h
    simp only [hasBreakC, Bool.or_eq_true]
    rcases h with (⟨h, _⟩ | h) | h
    · exact .inl (brkL_hasBreakL c l imp h)
    · split at h
      · exact .inr (brkL_hasBreakFrom rest l imp h)
      · simp at h
    · exact .inr (brkL_hasBreakC rest l imp h)
end

/-- the same for unlabeled breaks leaving a clause -/
theorem brkU_hasBreakFrom (cs : TClauses) (lab' : Option Nat) (h : Out.brkU ∈ outsFrom cs) :
    hasBreakC cs lab' true = true := by
  cases cs with
  | nil => simp [outsFrom] at h
  | cons c rest =>
    simp only [outsFrom, List.mem_append, List.mem_filter] at h
    simp only [hasBreakC, Bool.or_eq_true]
    rcases h with ⟨h, _⟩ | h
    · exact .inl (brkU_hasBreakL c lab' h)
    · split at h
      · exact .inr (brkU_hasBreakFrom rest lab' h)
      · simp at h

theorem brkU_hasBreakC (cs : TClauses) (lab' : Option Nat) (h : Out.brkU ∈ outsC cs) :
    hasBreakC cs lab' true = true := by
  cases cs with
  | nil => simp [outsC] at h
  | cons c rest =>
    simp only [outsC, List.mem_append, List.mem_filter] at h
    simp only [hasBreakC, Bool.or_eq_true]
    rcases h with (⟨h, _⟩ | h) | h
    · exact .inl (brkU_hasBreakL c lab' h)
    · split at h
      · exact .inr (brkU_hasBreakFrom rest lab' h)
      · simp at h
    · exact .inr (brkU_hasBreakC rest lab' h)

/-- a list ending in `fallthrough` does not complete normally -/
theorem endsInFall_no_normal (c : TList) (h : endsInFall c = true) : Out.normal ∉ outsL c := by
  cases c with
  | nil => simp [endsInFall] at h
  | cons s rest =>
    cases rest with
    | nil =>
      cases s with
      | fall => simp [outsL, outs]
      | labeled l s' =>
        cases s' with
        | fall => simp [outsL, outs]
        | _ => simp [endsInFall] at h
      | _ => simp [endsInFall] at h
    | cons s' rest' =>
      have h' : endsInFall (.cons s' rest') = true := by
        cases s <;> first | simpa [endsInFall] using h | (rename_i l t; cases t <;> simpa [endsInFall] using h)
      have ih := endsInFall_no_normal (.cons s' rest') h'
      intro hn
      simp only [outsL, List.mem_append, List.mem_filter] at hn
      rcases hn with ⟨_, hne⟩ | hn
      · simp at hne
      · split at hn
        · exact ih (by simpa [outsL] using hn)
        · simp at hn

mutual
/-- **a terminating statement never completes normally** -/
theorem terminating_no_normal (s : TStmt) (label : Option Nat) (h : terminating s label = true) :
    Out.normal ∉ outs s label := by
  cases s with
  | simple | fall => simp [terminating] at h
  | brk l => simp [terminating] at h
  | cont l => simp [terminating] at h
  | ifOnly t => simp [terminating] at h
  | ret | panicCall | gotoS => simp [outs]
  | block ss => simp only [terminating] at h; simp only [outs]; exact terminatingL_no_normal ss h
  | ifElse t e =>
    simp only [terminating, Bool.and_eq_true] at h
    simp only [outs, List.mem_append, not_or]
    exact ⟨terminatingL_no_normal t h.1, terminating_no_normal e none h.2⟩
  | forS c r body =>
    simp only [terminating, Bool.and_eq_true, Bool.not_eq_true'] at h
    obtain ⟨⟨hc, hr⟩, hb⟩ := h
    subst hc; subst hr
    simp only [outs, Bool.or_self, Bool.false_eq_true, if_false, List.nil_append, List.mem_filterMap]
    rintro ⟨o, hob, ho⟩
    cases o <;> simp [loopOut] at ho
    · rw [brkU_hasBreakL body label hob] at hb; cases hb
    · subst ho
      rw [brkL_hasBreakL body _ true hob] at hb; cases hb
  | sw k d cs =>
    simp only [terminating, Bool.and_eq_true, Bool.not_eq_true', Bool.or_eq_true] at h
    obtain ⟨⟨hd, hb⟩, ht⟩ := h
    simp only [outs, List.mem_append, List.mem_map, not_or]
    constructor
    · rcases hd with hd | hd
      · simp at hd; subst hd; simp
      · subst hd; simp
    · rintro ⟨o, hoc, ho⟩
      cases o <;> simp [switchOut] at ho
      · exact terminatingC_no_normal k cs ht hoc
      · rw [brkU_hasBreakC cs label hoc] at hb; cases hb
      · subst ho
        rw [brkL_hasBreakC cs _ true hoc] at hb; cases hb
  | labeled l s => simp only [terminating] at h; simp only [outs]; exact terminating_no_normal s (some l) h
/-- a statement list that ends in a terminating statement never completes normally -/
theorem terminatingL_no_normal (ss : TList) (h : terminatingL ss = true) : Out.normal ∉ outsL ss := by
  cases ss with
  | nil => simp [terminatingL] at h
  | cons s rest =>
    cases rest with
    | nil =>
      simp only [terminatingL] at h
      have := terminating_no_normal s none h
      simp [outsL, this]
    | cons s' rest' =>
      simp only [terminatingL] at h
      have ih := terminatingL_no_normal (.cons s' rest') h
      intro hn
      simp only [outsL, List.mem_append, List.mem_filter] at hn
      rcases hn with ⟨_, hne⟩ | hn
      · simp at hne
      · split at hn
        · exact ih (by simpa [outsL] using hn)
        · simp at hn
/-- execution from any clause of a switch whose clauses all end in a terminating statement (or a
`fallthrough`) never completes normally -/
theorem terminatingC_no_normal (k : SwKind) (cs : TClauses) (h : terminatingC k cs = true) :
    Out.normal ∉ outsC cs := by
  cases cs with
  | nil => simp [outsC]
  | cons c rest =>
    simp only [terminatingC, Bool.and_eq_true, Bool.or_eq_true] at h
    obtain ⟨hc, hrest⟩ := h
    have hcn : Out.normal ∉ outsL c := by
      rcases hc with hc | hc
      · exact terminatingL_no_normal c hc
      · exact endsInFall_no_normal c hc.2
    simp only [outsC, List.mem_append, List.mem_filter, not_or]
    refine ⟨⟨fun hh => hcn hh.1, ?_⟩, terminatingC_no_normal k rest hrest⟩
    split
    · exact terminatingFrom_no_normal k rest hrest
    · simp
theorem terminatingFrom_no_normal (k : SwKind) (cs : TClauses) (h : terminatingC k cs = true) :
    Out.normal ∉ outsFrom cs := by
  cases cs with
  | nil => simp [outsFrom]
  | cons c rest =>
    simp only [terminatingC, Bool.and_eq_true, Bool.or_eq_true] at h
    obtain ⟨hc, hrest⟩ := h
    have hcn : Out.normal ∉ outsL c := by
      rcases hc with hc | hc
      · exact terminatingL_no_normal c hc
      · exact endsInFall_no_normal c hc.2
    simp only [outsFrom, List.mem_append, List.mem_filter, not_or]
    refine ⟨fun hh => hcn hh.1, ?_⟩
    split
    · exact terminatingFrom_no_normal k rest hrest
    · simp
end

end ScriggoV.Terminating
