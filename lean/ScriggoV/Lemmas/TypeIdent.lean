import ScriggoV.Model.TypeIdent
/-! Lemmas for C03, type identity: `identical ig` is equality of the normal forms `norm ig`; the
normal form keeps every structural feature. -/
namespace ScriggoV.TypeIdent

mutual
theorem identical_iff (ig : Bool) : (a b : Ty) → (identical ig a b = true ↔ norm ig a = norm ig b)
  | .basic k, b => by cases b <;> simp [identical, norm]
  | .named i u, b => by cases b <;> simp [identical, norm]
  | .ptr e, b => by
    cases b with
    | ptr e' => have ih := identical_iff ig e e'; simp [identical, norm, ih]
    | _ => simp [identical, norm]
  | .slice e, b => by
    cases b with
    | slice e' => have ih := identical_iff ig e e'; simp [identical, norm, ih]
    | _ => simp [identical, norm]
  | .array n e, b => by
    cases b with
    | array m e' => have ih := identical_iff ig e e'; simp [identical, norm, ih]
    | _ => simp [identical, norm]
  | .map k e, b => by
    cases b with
    | map k' e' =>
      have ih := identical_iff ig e e'; have ihk := identical_iff ig k k'
      simp [identical, norm, ih, ihk]
    | _ => simp [identical, norm]
  | .chan d e, b => by
    cases b with
    | chan d' e' => have ih := identical_iff ig e e'; simp [identical, norm, ih]
    | _ => simp [identical, norm]
  | .func ps rs v, b => by
    cases b with
    | func qs ss w =>
      have ihp := identicalL_iff ig ps qs; have ihr := identicalL_iff ig rs ss
      simp only [identical, norm, Bool.and_eq_true, beq_iff_eq, ihp, ihr, Ty.func.injEq]
      constructor
      · rintro ⟨⟨h1, h2⟩, h3⟩; exact ⟨h2, h3, h1⟩
      · rintro ⟨h2, h3, h1⟩; exact ⟨⟨h1, h2⟩, h3⟩
    | _ => simp [identical, norm]
  | .struct fs, b => by
    cases b with
    | struct gs => have ih := identicalF_iff ig fs gs; simp [identical, norm, ih]
    | _ => simp [identical, norm]
  | .iface ms, b => by
    cases b with
    | iface ns => have ih := identicalM_iff ig ms ns; simp [identical, norm, ih]
    | _ => simp [identical, norm]
theorem identicalL_iff (ig : Bool) : (a b : TyList) → (identicalL ig a b = true ↔ normL ig a = normL ig b)
  | .nil, b => by cases b <;> simp [identicalL, normL]
  | .cons t r, b => by
    cases b with
    | nil => simp [identicalL, normL]
    | cons t' r' =>
      have ih := identical_iff ig t t'; have ihr := identicalL_iff ig r r'
      simp [identicalL, normL, ih, ihr]
theorem identicalF_iff (ig : Bool) : (a b : Fields) → (identicalF ig a b = true ↔ normF ig a = normF ig b)
  | .nil, b => by cases b <;> simp [identicalF, normF]
  | .cons n t e a r, b => by
    cases b with
    | nil => simp [identicalF, normF]
    | cons n' t' e' a' r' =>
      have ih := identical_iff ig a a'; have ihr := identicalF_iff ig r r'
      cases ig <;> simp [identicalF, normF, ih, ihr, and_assoc]
theorem identicalM_iff (ig : Bool) : (a b : Methods) → (identicalM ig a b = true ↔ normM ig a = normM ig b)
  | .nil, b => by cases b <;> simp [identicalM, normM]
  | .cons n a r, b => by
    cases b with
    | nil => simp [identicalM, normM]
    | cons n' a' r' =>
      have ih := identical_iff ig a a'; have ihr := identicalM_iff ig r r'
      simp [identicalM, normM, ih, ihr, and_assoc]
end

/-! dropping the tags of a normal form that kept them gives the normal form without tags -/
mutual
theorem norm_true_norm_false : (a : Ty) → norm true (norm false a) = norm true a
  | .basic _ => by simp [norm]
  | .named _ _ => by simp [norm]
  | .ptr e => by simp [norm, norm_true_norm_false e]
  | .slice e => by simp [norm, norm_true_norm_false e]
  | .array _ e => by simp [norm, norm_true_norm_false e]
  | .map k e => by simp [norm, norm_true_norm_false e, norm_true_norm_false k]
  | .chan _ e => by simp [norm, norm_true_norm_false e]
  | .func ps rs _ => by simp [norm, normL_true_normL_false ps, normL_true_normL_false rs]
  | .struct fs => by simp [norm, normF_true_normF_false fs]
  | .iface ms => by simp [norm, normM_true_normM_false ms]
theorem normL_true_normL_false : (a : TyList) → normL true (normL false a) = normL true a
  | .nil => by simp [normL]
  | .cons t r => by simp [normL, norm_true_norm_false t, normL_true_normL_false r]
theorem normF_true_normF_false : (a : Fields) → normF true (normF false a) = normF true a
  | .nil => by simp [normF]
  | .cons _ _ _ t r => by simp [normF, norm_true_norm_false t, normF_true_normF_false r]
theorem normM_true_normM_false : (a : Methods) → normM true (normM false a) = normM true a
  | .nil => by simp [normM]
  | .cons _ t r => by simp [normM, norm_true_norm_false t, normM_true_normM_false r]
end

/-! the normal form keeps the features -/
theorem normL_length (ig : Bool) : (a : TyList) → (normL ig a).length = a.length
  | .nil => by simp [normL, TyList.length]
  | .cons _ r => by simp [normL, TyList.length, normL_length ig r]
theorem normF_names (ig : Bool) : (a : Fields) → (normF ig a).names = a.names
  | .nil => by simp [normF, Fields.names]
  | .cons _ _ _ _ r => by simp [normF, Fields.names, normF_names ig r]
theorem normF_embedded (ig : Bool) : (a : Fields) → (normF ig a).embedded = a.embedded
  | .nil => by simp [normF, Fields.embedded]
  | .cons _ _ _ _ r => by simp [normF, Fields.embedded, normF_embedded ig r]
theorem normF_tags : (a : Fields) → (normF false a).tags = a.tags
  | .nil => by simp [normF, Fields.tags]
  | .cons _ _ _ _ r => by simp [normF, Fields.tags, normF_tags r]
theorem normM_names (ig : Bool) : (a : Methods) → (normM ig a).names = a.names
  | .nil => by simp [normM, Methods.names]
  | .cons _ _ r => by simp [normM, Methods.names, normM_names ig r]

/-- corresponding members of identical lists are identical -/
theorem identicalL_get (ig : Bool) : (ps qs : TyList) → identicalL ig ps qs = true →
    ∀ i a b, ps.get? i = some a → qs.get? i = some b → identical ig a b = true
  | .nil, qs, _ => by intro i a b ha; simp [TyList.get?] at ha
  | .cons p ps, .nil, h => by simp [identicalL] at h
  | .cons p ps, .cons q qs, h => by
    simp only [identicalL, Bool.and_eq_true] at h
    intro i a b ha hb
    cases i with
    | zero => simp only [TyList.get?, Option.some.injEq] at ha hb; subst ha hb; exact h.1
    | succ i => exact identicalL_get ig ps qs h.2 i a b ha hb

theorem identicalL_length (ig : Bool) (ps qs : TyList) (h : identicalL ig ps qs = true) :
    ps.length = qs.length := by
  have := congrArg TyList.length ((identicalL_iff ig ps qs).1 h)
  simpa [normL_length] using this

/-- the types of corresponding fields of identical struct types are identical -/
theorem identicalF_get (ig : Bool) : (fs gs : Fields) → identicalF ig fs gs = true →
    ∀ i a b, fs.get? i = some a → gs.get? i = some b → identical ig a b = true
  | .nil, gs, _ => by intro i a b ha; simp [Fields.get?] at ha
  | .cons _ _ _ p ps, .nil, h => by simp [identicalF] at h
  | .cons _ _ _ p ps, .cons _ _ _ q qs, h => by
    simp only [identicalF, Bool.and_eq_true] at h
    intro i a b ha hb
    cases i with
    | zero => simp only [Fields.get?, Option.some.injEq] at ha hb; subst ha hb; exact h.1.2
    | succ i => exact identicalF_get ig ps qs h.2 i a b ha hb

end ScriggoV.TypeIdent
