import ScriggoV.Model.ConstEvalQ
/-! `toSameConstImpl` (generated table `Gen.ConstInt.promote`) brings two constants of different
implementations to the same implementation without changing their values. -/
namespace ScriggoV.ConstEval
open ScriggoV.Spec.GoConst ScriggoV.Gen.ConstInt

theorem repBits_of_lt {p n : Nat} (h : n < 2 ^ p) : repBits p n = true := by
  unfold repBits
  by_cases hn : n = 0
  · simp [hn]
  · have := (Nat.log2_lt hn).mpr h
    simp only [Bool.or_eq_true, decide_eq_true_eq]
    right; left; omega

theorem repBits_mono {p p' n : Nat} (hp : p ≤ p') (h : repBits p n = true) : repBits p' n = true := by
  unfold repBits at h ⊢
  simp only [Bool.or_eq_true, decide_eq_true_eq, beq_iff_eq] at h ⊢
  rcases h with h | h | h
  · exact .inl h
  · exact .inr (.inl (by omega))
  · by_cases hl : n.log2 + 1 ≤ p'
    · exact .inr (.inl hl)
    · refine .inr (.inr ?_)
      have hd : 2 ^ (n.log2 + 1 - p') ∣ 2 ^ (n.log2 + 1 - p) := Nat.pow_dvd_pow 2 (by omega)
      exact Nat.mod_eq_zero_of_dvd (Nat.dvd_trans hd (Nat.dvd_of_mod_eq_zero h))

theorem repQ_mono {p p' : Nat} {q : Rat} (hp : p ≤ p') (h : repQ p q = true) : repQ p' q = true := by
  unfold repQ at h ⊢
  simp only [Bool.and_eq_true] at h ⊢
  exact ⟨h.1, repBits_mono hp h.2⟩

theorem repQ_intCast (p : Nat) (v : Int) : repQ p (v : Rat) = repBits p v.natAbs := by
  unfold repQ
  rw [Rat.den_intCast, Rat.num_intCast]
  have : isPow2 1 = true := by decide
  rw [this, Bool.true_and]

/-- which constants the implementations can hold: an `intConst` is below the 512-bit limit, a
`float64Const` has a 53-bit mantissa, a `floatConst` a 512-bit one -/
def NC.valid : NC → Prop
  | .int (.small _) => True
  | .int (.big v) => v.natAbs < 2 ^ 512
  | .f64 v => repQ float64Prec v = true
  | .bigf v => repQ bigFloatPrec v = true
  | .rat _ => True

theorem natAbs_toInt_lt (x : BitVec 64) : x.toInt.natAbs < 2 ^ 512 := by
  have h1 := @BitVec.toInt_lt 64 x
  have h2 := BitVec.le_toInt x
  simp at h1 h2
  have : (2 : Nat) ^ 64 ≤ 2 ^ 512 := Nat.pow_le_pow_right (by decide) (by decide)
  have h64 : (2 : Nat) ^ 64 = 18446744073709551616 := by decide
  omega

theorem stepTarget_val (s : Step) (c : NC) (mk : Rat → NC) (hs : stepTarget s c = some mk) :
    (mk c.val).val = c.val := by
  cases c with
  | int sc =>
    cases sc <;> cases s <;> simp [stepTarget] at hs <;> subst hs <;> simp [NC.val, SC.val, Rat.num_intCast]
  | f64 v => cases s <;> simp [stepTarget] at hs <;> subst hs <;> simp [NC.val]
  | bigf v => cases s <;> simp [stepTarget] at hs
  | rat v => cases s <;> simp [stepTarget] at hs <;> subst hs <;> simp [NC.val]

/-- a conversion step never changes the value -/
theorem applyStep_val (s : Step) (c c' : NC) (h : applyStep s c = .ok c') : c'.val = c.val := by
  unfold applyStep at h
  cases hs : stepTarget s c with
  | none => rw [hs] at h; cases h
  | some mk =>
    rw [hs] at h
    simp only [] at h
    split at h
    · cases h; exact stepTarget_val s c mk hs
    · cases h

theorem applySteps_val (l : List Step) (c c' : NC) (h : applySteps l c = .ok c') : c'.val = c.val := by
  induction l generalizing c with
  | nil => simp [applySteps] at h; cases h; rfl
  | cons s rest ih =>
    simp only [applySteps] at h
    cases hs : applyStep s c with
    | error e => rw [hs] at h; cases h
    | ok c1 =>
      rw [hs] at h
      have := ih c1 h
      rw [this, applyStep_val s c c1 hs]

/-- whenever `toSameConstImpl` succeeds in the model, both values are unchanged -/
theorem toSame_val (a b a' b' : NC) (h : toSame a b = .ok (a', b')) : a'.val = a.val ∧ b'.val = b.val := by
  unfold toSame at h
  cases hp : promote a.impl b.impl with
  | none => rw [hp] at h; cases h
  | some st =>
    obtain ⟨sa, sb⟩ := st
    rw [hp] at h
    simp only [] at h
    cases ha : applySteps sa a with
    | error e => rw [ha] at h; cases h
    | ok a1 =>
      cases hb : applySteps sb b with
      | error e => rw [ha, hb] at h; cases h
      | ok b1 =>
        rw [ha, hb] at h
        cases h
        exact ⟨applySteps_val _ _ _ ha, applySteps_val _ _ _ hb⟩
end ScriggoV.ConstEval
