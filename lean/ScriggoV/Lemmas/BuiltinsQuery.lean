import ScriggoV.Model.Builtins
import ScriggoV.Spec.Percent
/-! Lemmas for C25, `QueryEscape`: table facts over all 256 bytes (stated over the regenerated
`unreserved` predicate and `hexchars` table), the loop invariants of the two passes, the
round trip through `Spec/Percent.lean`'s decoder. -/
namespace ScriggoV.Builtins
open ScriggoV.Gen.BuiltinTables ScriggoV.Percent

/-- lower-case hexadecimal digit of a nibble (specification side, independent of `hexchars`) -/
def hexLo (k : UInt8) : UInt8 := if k < 10 then 48 + k else 87 + k

/-- what `QueryEscape` must do with one byte -/
def escByte (c : UInt8) : Bytes :=
  if unreserved c then [c] else [37, hexLo (c >>> 4), hexLo (c &&& 0xF)]

/-- specification of the whole function -/
def qSpec (s : Bytes) : Bytes := s.flatMap escByte

/-- number of bytes that get escaped -/
def numHexOf (s : Bytes) : Nat := (s.filter (fun c => !unreserved c)).length

/-! ### table facts -/

def hexTableOK (c : UInt8) : Bool :=
  (match hexAt (c >>> 4) with | .ok h => h == hexLo (c >>> 4) | .error _ => false) &&
  (match hexAt (c &&& 0xF) with | .ok l => l == hexLo (c &&& 0xF) | .error _ => false)

theorem hexchars_table_fact : allBytes hexTableOK = true := by decide +kernel

theorem hexAt_hi (c : UInt8) : hexAt (c >>> 4) = .ok (hexLo (c >>> 4)) := by
  have h := allBytes_spec hexchars_table_fact c
  unfold hexTableOK at h
  rw [Bool.and_eq_true] at h
  have h1 := h.1
  split at h1
  · rename_i v hv; rw [hv]; congr 1; simpa using h1
  · cases h1

theorem hexAt_lo (c : UInt8) : hexAt (c &&& 0xF) = .ok (hexLo (c &&& 0xF)) := by
  have h := allBytes_spec hexchars_table_fact c
  unfold hexTableOK at h
  rw [Bool.and_eq_true] at h
  have h1 := h.2
  split at h1
  · rename_i v hv; rw [hv]; congr 1; simpa using h1
  · cases h1

/-- the two digits written for `c` decode to `c` -/
def decodesBack (c : UInt8) : Bool :=
  match hexVal (hexLo (c >>> 4)), hexVal (hexLo (c &&& 0xF)) with
  | some x, some y => x * 16 + y == c
  | _, _ => false

theorem decodesBack_fact : allBytes decodesBack = true := by decide +kernel

/-- bytes copied unchanged are RFC-unreserved and are neither `%` nor `+` -/
def plainOK (c : UInt8) : Bool := !unreserved c || (rfcUnreserved c && c != 37 && c != 43)

theorem plain_fact : allBytes plainOK = true := by decide +kernel

def digitsOK (c : UInt8) : Bool := isLowerHex (hexLo (c >>> 4)) && isLowerHex (hexLo (c &&& 0xF))

theorem digits_fact : allBytes digitsOK = true := by decide +kernel

theorem plain_of_unreserved (c : UInt8) (h : unreserved c = true) :
    rfcUnreserved c = true ∧ (c == 37) = false ∧ (c == 43) = false := by
  have := allBytes_spec plain_fact c
  simp only [plainOK, h, Bool.not_true, Bool.false_or, Bool.and_eq_true, bne_iff_ne, ne_eq] at this
  refine ⟨this.1.1, ?_, ?_⟩
  · simpa using this.1.2
  · simpa using this.2

theorem triplet_decodes (c : UInt8) (rest : Bytes) :
    pctTriplet (hexLo (c >>> 4) :: hexLo (c &&& 0xF) :: rest) = some (c, rest) := by
  have h := allBytes_spec decodesBack_fact c
  unfold decodesBack at h
  unfold pctTriplet
  split at h
  · rename_i x y hx hy
    simp only [hx, hy]
    congr 2
    simpa using h
  · cases h

/-! ### lengths -/

theorem escByte_length (c : UInt8) : (escByte c).length = if unreserved c then 1 else 3 := by
  unfold escByte; split <;> simp

theorem qSpec_cons (c : UInt8) (cs : Bytes) : qSpec (c :: cs) = escByte c ++ qSpec cs := by
  simp [qSpec]

theorem qSpec_append (a b : Bytes) : qSpec (a ++ b) = qSpec a ++ qSpec b := by
  simp [qSpec]

theorem numHexOf_cons (c : UInt8) (cs : Bytes) :
    numHexOf (c :: cs) = (if unreserved c then 0 else 1) + numHexOf cs := by
  unfold numHexOf
  rw [List.filter_cons]
  cases unreserved c <;> simp <;> omega

theorem numHexOf_append (a b : Bytes) : numHexOf (a ++ b) = numHexOf a + numHexOf b := by
  simp [numHexOf]

theorem qSpec_length (s : Bytes) : (qSpec s).length = s.length + 2 * numHexOf s := by
  induction s with
  | nil => rfl
  | cons c cs ih =>
    rw [qSpec_cons, List.length_append, ih, escByte_length, numHexOf_cons]
    cases unreserved c <;> simp <;> omega

theorem qSpec_plain (s : Bytes) (h : numHexOf s = 0) : qSpec s = s := by
  induction s with
  | nil => rfl
  | cons c cs ih =>
    rw [numHexOf_cons] at h
    have hc : unreserved c = true := by
      cases hu : unreserved c
      · simp [hu] at h
      · rfl
    rw [qSpec_cons, ih (by omega)]
    simp [escByte, hc]

/-! ### first pass -/

theorem qPass1_plain (cs : Bytes) (h : numHexOf cs = 0) : ∀ i last nh,
    qPass1 cs i last nh = (last, nh) := by
  induction cs with
  | nil => intro i last nh; rfl
  | cons c cs ih =>
    intro i last nh
    rw [numHexOf_cons] at h
    have hc : unreserved c = true := by
      cases hu : unreserved c
      · simp [hu] at h
      · rfl
    simp only [qPass1, hc, if_true]
    exact ih (by omega) _ _ _

/-- `A` is empty or ends with an escaped byte -/
def EndsEscaped (A : Bytes) : Prop := A = [] ∨ ∃ A' x, A = A' ++ [x] ∧ unreserved x = false

theorem qPass1_spec (B : Bytes) (hB : numHexOf B = 0) (A : Bytes) : EndsEscaped A → ∀ i last nh,
    qPass1 (A ++ B) i last nh = (if A = [] then last else i + A.length, nh + numHexOf A) := by
  induction A with
  | nil => intro _ i last nh; simp [qPass1_plain B hB, numHexOf]
  | cons c A' ih =>
    intro hA i last nh
    have hA' : EndsEscaped A' ∧ (A' = [] → unreserved c = false) := by
      rcases hA with h | ⟨P, x, hP, hx⟩
      · cases h
      · cases P with
        | nil =>
          simp at hP
          refine ⟨Or.inl hP.2, fun _ => hP.1 ▸ hx⟩
        | cons p P' =>
          simp at hP
          refine ⟨Or.inr ⟨P', x, hP.2, hx⟩, fun h => ?_⟩
          rw [h] at hP; simp at hP
    simp only [List.cons_append, qPass1, List.length_cons, numHexOf_cons]
    by_cases hn : A' = []
    · subst hn
      have hc := hA'.2 rfl
      simp [hc, qPass1_plain B hB, numHexOf]
    · have e := ih hA'.1
      simp only [hn, if_false] at e
      cases hc : unreserved c
      · simp only [Bool.false_eq_true, if_false, e]
        simp; omega
      · simp only [if_true, e]
        simp; omega

/-! ### second pass -/

theorem qStep_spec (out : Bytes) (c : UInt8) (k : Nat) (h : (escByte c).length ≤ k) :
    qStep (out ++ List.replicate k 0) out.length c
      = .ok (out ++ escByte c ++ List.replicate (k - (escByte c).length) 0,
             out.length + (escByte c).length) := by
  unfold qStep escByte
  rw [escByte_length] at h
  cases hc : unreserved c
  · simp only [hc, Bool.false_eq_true, if_false] at h ⊢
    rw [setAt_zeros out 37 k (by omega)]
    dsimp only
    rw [hexAt_hi]
    dsimp only
    have s1 := setAt_zeros (out ++ [(37 : UInt8)]) (hexLo (c >>> 4)) (k - 1) (by omega)
    simp only [List.length_append, List.length_cons, List.length_nil, Nat.zero_add] at s1
    rw [s1]
    dsimp only
    rw [hexAt_lo]
    dsimp only
    have s2 := setAt_zeros (out ++ [(37 : UInt8)] ++ [hexLo (c >>> 4)]) (hexLo (c &&& 0xF)) (k - 1 - 1) (by omega)
    simp only [List.length_append, List.length_cons, List.length_nil, Nat.zero_add] at s2
    rw [s2]
    simp
    omega
  · simp only [hc, if_true] at h ⊢
    rw [setAt_zeros out c k (by omega)]
    simp

theorem qPass2_spec (todo : Bytes) : ∀ (pre rest out : Bytes) (k : Nat), (qSpec todo).length ≤ k →
    qPass2 (pre ++ todo ++ rest) (List.range' pre.length todo.length) (out ++ List.replicate k 0) out.length
      = .ok (out ++ qSpec todo ++ List.replicate (k - (qSpec todo).length) 0,
             out.length + (qSpec todo).length) := by
  induction todo with
  | nil => intro pre rest out k _; simp [qPass2, qSpec]
  | cons c cs ih =>
    intro pre rest out k hk
    rw [qSpec_cons, List.length_append] at hk
    have e1 : pre ++ c :: cs ++ rest = pre ++ c :: (cs ++ rest) := by simp
    simp only [List.length_cons, List.range'_succ, qPass2]
    rw [e1]
    have hg : getAt (pre ++ c :: (cs ++ rest)) pre.length = .ok c := by
      unfold getAt; simp
    rw [hg]
    dsimp only
    rw [qStep_spec out c k (by omega)]
    dsimp only
    have := ih (pre ++ [c]) rest (out ++ escByte c) (k - (escByte c).length) (by omega)
    simp only [List.append_assoc, List.cons_append, List.nil_append, List.length_append,
      List.length_cons, List.length_nil, Nat.zero_add] at this
    simp only [List.append_assoc]
    rw [this, qSpec_cons]
    simp only [List.append_assoc, List.length_append]
    have e : k - (escByte c).length - (qSpec cs).length = k - ((escByte c).length + (qSpec cs).length) := by
      omega
    rw [e, Nat.add_assoc]

/-! ### the decoder undoes the specification; its output alphabet -/

theorem pctDecode_qSpec (s : Bytes) : ∀ fuel, (qSpec s).length ≤ fuel →
    pctDecodeAux fuel (qSpec s) = some s := by
  induction s with
  | nil => intro fuel _; cases fuel <;> rfl
  | cons c cs ih =>
    intro fuel hf
    rw [qSpec_cons, List.length_append, escByte_length] at hf
    rw [qSpec_cons]
    obtain ⟨f, rfl⟩ : ∃ f, fuel = f + 1 := ⟨fuel - 1, by split at hf <;> omega⟩
    unfold escByte
    cases hc : unreserved c
    · simp only [hc, Bool.false_eq_true, if_false] at hf ⊢
      simp only [List.cons_append, List.nil_append, pctDecodeAux, beq_self_eq_true, if_true,
        triplet_decodes]
      rw [ih f (by omega)]
      rfl
    · simp only [hc, if_true] at hf ⊢
      obtain ⟨_, h37, h43⟩ := plain_of_unreserved c hc
      simp only [List.cons_append, List.nil_append, pctDecodeAux, h37, h43, Bool.false_eq_true, if_false]
      rw [ih f (by omega)]
      rfl

theorem alphabet_qSpec (s : Bytes) : ∀ fuel, (qSpec s).length ≤ fuel →
    onlyUnreservedAndEscapesAux fuel (qSpec s) = true := by
  induction s with
  | nil => intro fuel _; cases fuel <;> rfl
  | cons c cs ih =>
    intro fuel hf
    rw [qSpec_cons, List.length_append, escByte_length] at hf
    rw [qSpec_cons]
    obtain ⟨f, rfl⟩ : ∃ f, fuel = f + 1 := ⟨fuel - 1, by split at hf <;> omega⟩
    unfold escByte
    cases hc : unreserved c
    · simp only [hc, Bool.false_eq_true, if_false] at hf ⊢
      have hd := allBytes_spec digits_fact c
      simp only [digitsOK, Bool.and_eq_true] at hd
      simp only [List.cons_append, List.nil_append, onlyUnreservedAndEscapesAux, beq_self_eq_true,
        if_true, hd.1, hd.2, Bool.true_and]
      exact ih f (by omega)
    · simp only [hc, if_true] at hf ⊢
      obtain ⟨hr, h37, _⟩ := plain_of_unreserved c hc
      simp only [List.cons_append, List.nil_append, onlyUnreservedAndEscapesAux, h37,
        Bool.false_eq_true, if_false, hr, Bool.true_and]
      exact ih f (by omega)

/-! ### the whole function -/

theorem numHexOf_zero_of_all (B : Bytes) (h : B.all unreserved = true) : numHexOf B = 0 := by
  unfold numHexOf
  rw [List.length_eq_zero_iff, List.filter_eq_nil_iff]
  intro a ha
  rw [List.all_eq_true] at h
  simp [h a ha]

theorem queryEscape_ok (s : Bytes) : queryEscape s = .ok (qSpec s) := by
  -- s = A ++ B, B the longest unreserved suffix
  let B := (s.reverse.takeWhile unreserved).reverse
  let A := (s.reverse.dropWhile unreserved).reverse
  have hs : s = A ++ B := by
    show s = (s.reverse.dropWhile unreserved).reverse ++ (s.reverse.takeWhile unreserved).reverse
    rw [← List.reverse_append, List.takeWhile_append_dropWhile, List.reverse_reverse]
  have hB : numHexOf B = 0 := by
    apply numHexOf_zero_of_all
    show ((s.reverse.takeWhile unreserved).reverse).all unreserved = true
    rw [List.all_reverse]
    exact List.all_takeWhile
  have hA : EndsEscaped A := by
    cases hq : s.reverse.dropWhile unreserved with
    | nil => left; show (s.reverse.dropWhile unreserved).reverse = []; rw [hq]; rfl
    | cons x Q' =>
      right
      refine ⟨Q'.reverse, x, ?_, ?_⟩
      · show (s.reverse.dropWhile unreserved).reverse = _; rw [hq]; simp
      · have := List.head?_dropWhile_not unreserved s.reverse
        rw [hq] at this
        simpa using this
  have key : ∀ A B : Bytes, numHexOf B = 0 → EndsEscaped A → queryEscape (A ++ B) = .ok (qSpec (A ++ B)) := by
    intro A B hB hA
    unfold queryEscape
    rw [qPass1_spec B hB A hA 0 0 0]
    simp only [Nat.zero_add]
    by_cases hn : numHexOf A = 0
    · have : numHexOf (A ++ B) = 0 := by rw [numHexOf_append]; omega
      simp [hn, qSpec_plain _ this]
    · have hne : (numHexOf A == 0) = false := by simpa using hn
      have hA0 : A ≠ [] := by
        intro h; subst h; simp [numHexOf] at hn
      simp only [hne, Bool.false_eq_true, if_false, hA0]
      have hk : (A ++ B).length + 2 * numHexOf A = (qSpec A).length + B.length := by
        rw [qSpec_length]; simp; omega
      have p2 := qPass2_spec A [] B [] ((qSpec A).length + B.length) (by omega)
      simp only [List.nil_append, List.length_nil, Nat.zero_add] at p2
      rw [List.range_eq_range', hk, p2]
      dsimp only
      have e : (qSpec A).length + B.length - (qSpec A).length = B.length := by omega
      rw [e]
      unfold qTail
      by_cases hb : B = []
      · subst hb
        simp
      · have hl : ((qSpec A).length != (qSpec A ++ List.replicate B.length (0 : UInt8)).length) = true := by
          have : 0 < B.length := List.length_pos_iff.mpr hb
          simp; omega
        rw [if_pos hl]
        have hsl : sliceOf (A ++ B) A.length (A ++ B).length = .ok B := by
          unfold sliceOf
          rw [if_pos (by simp), List.take_length]
          simp
        rw [hsl]
        dsimp only
        rw [copyAt_zeros (qSpec A) B B.length (by omega)]
        simp [qSpec_append, qSpec_plain B hB]
  rw [hs]
  exact key A B hB hA

end ScriggoV.Builtins
