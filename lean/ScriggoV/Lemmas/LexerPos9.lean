import ScriggoV.Lemmas.LexerPos8
/-! # Position invariant: one step, the main loop, `scan` -/
namespace ScriggoV.Lexer
open ScriggoV ScriggoV.Gen.LexTables ScriggoV.Spec.Position

theorem step_pos {E : Env} (hal : Aligned E.text) (hno : NoLFCR E.text) (hC : CodePosSpec E) {st : St}
    {lp : Loop} {o : Out} (hI : PInv E st lp) (hq : QuoteOK lp.quote) (h : step E st lp = .ok o) : OutPos E o := by
  unfold step at h
  cases hc : srcAt E st lp.p with
  | error f => rw [hc] at h; cases h
  | ok c =>
    rw [hc] at h
    simp only [bind_ok] at h
    have hget : E.text[st.base + lp.p]? = some c := getAt_eq_ok_iff.mp hc
    have hpk : peek E st lp.p = some c := hget
    generalize hlp1 : (if st.ctx = ContextMarkdown then { lp with spacesOnly := lp.spacesOnly && isSpace c } else lp) = lp1 at h
    have e1 : lp1.p = lp.p := by rw [← hlp1]; split <;> rfl
    have e2 : lp1.lin = lp.lin := by rw [← hlp1]; split <;> rfl
    have e3 : lp1.tcol = lp.tcol := by rw [← hlp1]; split <;> rfl
    have e4 : lp1.quote = lp.quote := by rw [← hlp1]; split <;> rfl
    have hI1 : PInv E st lp1 := PInv.same hI rfl rfl rfl rfl e1 e2 e3
    have hq1 : QuoteOK lp1.quote := by rw [e4]; exact hq
    have hpk1 : peek E st lp1.p = some c := by rw [e1]; exact hpk
    split at h
    · -- Markdown backslash
      rename_i hbs
      have hc5 : c = 0x5c := hbs.2
      have hs1 : PInv E (addCol st 1) { lp1 with p := lp1.p + 1 } := by
        refine PInv.plain 1 hI1 rfl rfl rfl rfl rfl rfl rfl ?_
        intro j hj
        have : j = 0 := by omega
        subst this
        exact ⟨c, by rw [e1]; simpa using hget, by rw [hc5]; decide⟩
      have hat : AtStart E (st.base + lp1.p + 1) := by
        have := (posAt_step hal hI1.cur (by rw [e1]; exact hget) (by rw [hc5]; decide) (by rw [hc5]; decide)).1 (by rw [hc5]; decide)
        exact this.2
      cases hd : peek E (addCol st 1) (lp1.p + 1) with
      | none =>
        rw [hd] at h
        simp only [pure_eq_ok] at h; cases h
        exact ⟨hs1, hq1⟩
      | some d =>
        rw [hd] at h
        simp only [] at h
        split at h
        · rename_i hdn
          have hdget : E.text[st.base + lp1.p + 1]? = some d := by
            unfold peek at hd; rw [← hd]; show _ = E.text[st.base + (lp1.p + 1)]?; rw [Nat.add_assoc]
          have hds := hat d hdget
          cases hrs : decodeRune (E.text.drop ((addCol st 1).base + (lp1.p + 1))) with
          | mk r s =>
            rw [hrs] at h
            simp only [pure_eq_ok] at h
            cases h
            have hcur1 : PosAt E (addCol st 1) (st.base + lp1.p + 1) := by
              have := hs1.cur
              rw [Nat.add_assoc]; exact this
            have hrune := posAt_rune hal hcur1 hdget hds hdn.1
            have hrs' : decodeRune (E.text.drop (st.base + lp1.p + 1)) = (r, s) := by
              rw [← hrs]; rw [Nat.add_assoc]; rfl
            rw [hrs'] at hrune
            refine ⟨⟨?_, hs1.strt, hs1.toks⟩, hq1⟩
            show PosAt E (addCol (addCol st 1) 1) (st.base + (lp1.p + 1 + s))
            have e : st.base + (lp1.p + 1 + s) = st.base + lp1.p + 1 + s := by omega
            rw [e]; exact hrune.1
        · simp only [pure_eq_ok] at h; cases h
          exact ⟨hs1, hq1⟩
    · -- delimiters
      generalize hdd : (if lp1.p + 1 < srcLen E st then peek E st (lp1.p + 1) else none) = d at h
      have hd1 : ∀ x, d = some x → peek E st (lp1.p + 1) = some x := by
        intro x hx; rw [← hdd] at hx; split at hx
        · exact hx
        · cases hx
      split at h
      · rename_i hcond
        exact delim_pos hC hI1 hq1 (by rw [hpk1, hcond.1]) (Or.inl ⟨rfl, hd1 _ hcond.2.1⟩) h
      · split at h
        · rename_i hcond
          exact delim_pos hC hI1 hq1 (by rw [hpk1, hcond.1]) (Or.inr (Or.inl ⟨rfl, hd1 _ hcond.2⟩)) h
        · split at h
          · rename_i hcond
            exact delim_pos hC hI1 hq1 (by rw [hpk1, hcond.1]) (Or.inr (Or.inr ⟨rfl, hd1 _ hcond.2⟩)) h
          · split at h
            · -- unexpected #}
              cases hsk : skip E st lp1.p with
              | error f => rw [hsk] at h; cases h
              | ok s1 =>
                rw [hsk] at h
                simp only [bind_ok, pure_eq_ok] at h
                cases h
                have hs1 : s1 = { st with base := st.base + lp1.p } := by
                  unfold skip at hsk; split at hsk
                  · cases hsk; rfl
                  · cases hsk
                refine ⟨by intro t hm; rw [hs1] at hm; exact hI1.toks t hm, ?_⟩
                apply errorf_pos
                rw [hs1]; exact hI1.cur
            · cases hcs : ctxSwitch E (fixedOf st) st lp1 c with
              | error f => rw [hcs] at h; cases h
              | ok o1 =>
                rw [hcs] at h
                simp only [bind_ok] at h
                have pc := ctxSwitch_pos hal hI1 hq1 hpk1 hcs
                cases o1 with
                | next s l => simp only [pure_eq_ok] at h; cases h; exact pc
                | fall s l =>
                  simp only [pure_eq_ok] at h
                  cases h
                  refine ⟨tail_pos hno pc.1, ?_⟩
                  -- the tail keeps `quote`
                  have : (tail E s l c).2.quote = l.quote := by
                    unfold tail
                    simp only []
                    repeat' split
                    all_goals rfl
                  rw [this]; exact pc.2

theorem mainLoop_pos {E : Env} (hal : Aligned E.text) (hno : NoLFCR E.text) (hC : CodePosSpec E) :
    ∀ (fuel : Nat) (st : St) (lp : Loop) (st' : St) (lp' : Loop) (e : Option LexErr),
    mainLoop E fuel st lp = .ok (st', lp', e) → PInv E st lp → QuoteOK lp.quote →
    AllTok E st' ∧ (∀ err, e = some err → ErrPosOK E err) ∧ (e = none → PInv E st' lp') := by
  intro fuel
  induction fuel with
  | zero => intro st lp st' lp' e h; simp [mainLoop] at h
  | succ fuel ih =>
    intro st lp st' lp' e h hI hq
    unfold mainLoop at h
    split at h
    · cases hs : step E st lp with
      | error f => rw [hs] at h; cases h
      | ok o =>
        rw [hs] at h
        simp only [bind_ok] at h
        have po := step_pos hal hno hC hI hq hs
        cases o with
        | cont s l => exact ih s l st' lp' e h po.1 po.2
        | stop s l err =>
          simp only [pure_eq_ok] at h
          cases h
          exact ⟨po.1, (fun err' he => by cases he; exact po.2), (fun hh => by cases hh)⟩
    · simp only [pure_eq_ok] at h
      cases h
      exact ⟨hI.toks, (fun err hh => by cases hh), fun _ => hI⟩


theorem scanCodeBlock_pos {E : Env} {st : St} {p : Nat} (hp : PosAt E st (st.base + p)) :
    PosAt E (scanCodeBlock E st p).2.2 (st.base + (scanCodeBlock E st p).1) := by
  unfold scanCodeBlock
  split
  · rename_i hpk
    show PosAt E (addCol st 1) (st.base + (p + 1))
    rw [← Nat.add_assoc]
    exact posAt_plain 1 hp (fun j hj => by
      have : j = 0 := by omega
      subst this
      exact ⟨_, by simpa [peek] using hpk, by decide⟩)
  · split
    · rename_i hpk h4
      show PosAt E (addCol st 4) (st.base + (p + 4))
      rw [← Nat.add_assoc]
      have hsp : ∀ i, peekIs E st (p + i) 0x20 = true → E.text[st.base + p + i]? = some 0x20 := by
        intro i hh
        unfold peekIs peek at hh
        have : E.text[st.base + (p + i)]? = some 0x20 := by simpa using hh
        rw [Nat.add_assoc]; exact this
      exact posAt_plain 4 hp (fun j hj => by
        rcases (by omega : j = 0 ∨ j = 1 ∨ j = 2 ∨ j = 3) with rfl | rfl | rfl | rfl
        · exact ⟨_, by simpa [peek] using hpk, by decide⟩
        · exact ⟨_, hsp 1 h4.2.1, by decide⟩
        · exact ⟨_, hsp 2 h4.2.2.1, by decide⟩
        · exact ⟨_, hsp 3 h4.2.2.2, by decide⟩)
    · exact hp
  · exact hp

theorem scanTemplateFrom_pos {E : Env} (hal : Aligned E.text) (hno : NoLFCR E.text) (hC : CodePosSpec E) {st st' : St}
    {e : Option LexErr} (hb : st.base = 0) (hti : st.tagIndex = 0) (hbal : Bal st) (hp : PosAt E st 0) (ha : AllTok E st)
    (h : scanTemplateFrom E st = .ok (st', e)) :
    AllTok E st' ∧ (∀ err, e = some err → ErrPosOK E err) ∧ (e = none → PosAt E st' st'.base) := by
  unfold scanTemplateFrom at h
  simp only [] at h
  -- the state and position after the optional code block indentation
  have hinit : ∃ p0 st0, (if st.ctx = ContextMarkdown then
        ((scanCodeBlock E st 0).1, { (scanCodeBlock E st 0).2.2 with ctx := (scanCodeBlock E st 0).2.1 })
      else (0, st)) = (p0, st0) ∧ st0.base = 0 ∧ st0.toks = st.toks ∧ PosAt E st0 (0 + p0) ∧ p0 ≤ srcLen E st0 ∧
        st0.tagIndex = 0 ∧ Bal st0 := by
    split
    · obtain ⟨hs, _, hle⟩ := scanCodeBlock_ok (E := E) st 0 (Nat.zero_le _)
      refine ⟨_, _, rfl, by show (scanCodeBlock E st 0).2.2.base = 0; rw [hs.base]; exact hb, hs.toks, ?_, ?_, ?_⟩
      · have := scanCodeBlock_pos (E := E) (st := st) (p := 0) (by rw [hb]; exact hp)
        rw [hb] at this; exact this
      · show (scanCodeBlock E st 0).1 ≤ srcLen E (scanCodeBlock E st 0).2.2
        rw [hs.srcLen]; exact hle
      · refine ⟨?_, ?_⟩
        · show (scanCodeBlock E st 0).2.2.tagIndex = 0
          rw [hs]; exact hti
        · show (scanCodeBlock E st 0).2.2.bases.length = (scanCodeBlock E st 0).2.2.contexts.length
          rw [hs.bases, hs.contexts]; exact hbal
    · exact ⟨0, st, rfl, hb, rfl, hp, Nat.zero_le _, hti, hbal⟩
  obtain ⟨p0, st0, hi, hb0, ht0, hp0, hle0, hti0, hbal0⟩ := hinit
  have hi' : (if st.ctx = ContextMarkdown then
      match scanCodeBlock E st 0 with
      | (p, ctx, st) => (p, { st with ctx := ctx })
      else (0, st)) = (p0, st0) := by
    rw [← hi]
  rw [hi'] at h
  simp only [] at h
  have hI0 : PInv E st0 { p := p0, lin := st.line, tcol := st.col, quote := 0, emittedURL := false, jsComment := 0, spacesOnly := true } :=
    ⟨by rw [hb0]; exact hp0, by rw [hb0]; exact hp, by intro t hm; rw [ht0] at hm; exact ha t hm⟩
  cases hml : mainLoop E (mainFuel E) st0
      { p := p0, lin := st.line, tcol := st.col, quote := 0, emittedURL := false, jsComment := 0, spacesOnly := true } with
  | error f => rw [hml] at h; cases h
  | ok r =>
    obtain ⟨s1, lp1, e1⟩ := r
    rw [hml] at h
    simp only [bind_ok] at h
    obtain ⟨a1, he1, hI1⟩ := mainLoop_pos hal hno hC _ _ _ _ _ _ hml hI0 (Or.inl rfl)
    cases e1 with
    | some err =>
      simp only [pure_eq_ok] at h; cases h
      exact ⟨a1, he1, (fun hh => by cases hh)⟩
    | none =>
      simp only [] at h
      have hI := hI1 rfl
      -- the loop ended at `p = len(l.src)` (Lemmas/Lexer/Loop.lean)
      have hL0 : LoopInv E st0 { p := p0, lin := st.line, tcol := st.col, quote := 0, emittedURL := false, jsComment := 0, spacesOnly := true } :=
        ⟨by rw [hb0]; exact Nat.zero_le _, hle0, by rw [hti0]; exact Nat.zero_le _⟩
      obtain ⟨s1', lp1', e1', hml', _, hend⟩ := mainLoop_ok (codeSpec E) (mainFuel E) st0 _ hL0 hbal0 (by
          unfold mu mainFuel
          have := attrCtx_le st0.ctx
          omega)
      rw [hml] at hml'
      cases hml'
      have hpend : lp1.p = srcLen E s1 := hend rfl
      cases h2 : (if srcLen E s1 > 0 then emitAt E s1 lp1.lin lp1.tcol tokenText lp1.p else pure s1 : Except Fault St) with
      | error f => rw [h2] at h; cases h
      | ok s2 =>
        rw [h2] at h
        simp only [bind_ok] at h
        have hs2 : AllTok E s2 ∧ PosAt E s2 s2.base := by
          split at h2
          · obtain ⟨t, ht, _, _, _, _, hl, hc, hbb⟩ := emitAt_tok h2
            exact ⟨allTok_emitAt h2 hI.toks hI.strt, by rw [hbb]; exact posAt_congr hI.cur hl hc⟩
          · rename_i hz
            simp only [pure_eq_ok] at h2; cases h2
            have hp0' : lp1.p = 0 := by omega
            exact ⟨hI.toks, by have := hI.cur; rw [hp0'] at this; simpa using this⟩
        cases h3 : (if s2.ctx = ContextMarkdown ∧ lp1.emittedURL = true then emit E s2 tokenEndURL 0 else pure s2 : Except Fault St) with
        | error f => rw [h3] at h; cases h
        | ok s3 =>
          rw [h3] at h
          simp only [bind_ok, pure_eq_ok] at h
          cases h
          split at h3
          · obtain ⟨a3, b3, l3, c3⟩ := emit_pos h3 hs2.2 hs2.1
            exact ⟨a3, (fun err hh => by cases hh), fun _ => by rw [b3]; simpa using posAt_congr hs2.2 l3 c3⟩
          · simp only [pure_eq_ok] at h3; cases h3
            exact ⟨hs2.1, (fun err hh => by cases hh), fun _ => hs2.2⟩

/-- the template branch of `scan`: `l.base = l.ctx` (a field the positions do not depend on), then the loop -/
theorem scanTemplateBody_pos {E : Env} (hal : Aligned E.text) (hno : NoLFCR E.text) (hC : CodePosSpec E) {st st' : St}
    {e : Option LexErr} (hb : st.base = 0) (hti : st.tagIndex = 0) (hbal : Bal st) (hp : PosAt E st 0) (ha : AllTok E st)
    (h : scanTemplateBody E st = .ok (st', e)) :
    AllTok E st' ∧ (∀ err, e = some err → ErrPosOK E err) ∧ (e = none → PosAt E st' st'.base) :=
  scanTemplateFrom_pos hal hno hC (st := { st with lbase := st.ctx }) hb hti hbal hp ha h

/-- the source does not start with a shebang line `#!` -/
def NoShebang (t : Bytes) : Prop := ¬ (t[0]? = some (0x23 : UInt8) ∧ t[1]? = some (0x21 : UInt8))

theorem shebang_none {E : Env} {st : St} (hb : st.base = 0) (hns : NoShebang E.text) : shebang E st = .ok st := by
  unfold shebang
  split
  · rename_i h
    obtain ⟨c0, hc0, hp0⟩ := srcAt_ok_of_lt (E := E) (st := st) (i := 0) (by omega)
    simp only [hc0, bind_ok]
    have hbang : (if c0 = 0x23 then Except.map (· == (0x21 : UInt8)) (srcAt E st 1) else pure false : Except Fault Bool) = .ok false := by
      split
      · rename_i h23
        obtain ⟨c1, hc1, hp1⟩ := srcAt_ok_of_lt (E := E) (st := st) (i := 1) (by omega)
        rw [hc1]
        simp only [Except.map]
        have : c1 ≠ 0x21 := by
          intro e
          apply hns
          unfold peek at hp0 hp1
          rw [hb] at hp0 hp1
          exact ⟨by rw [← h23]; simpa using hp0, by rw [← e]; simpa using hp1⟩
        simp [this]
      · rfl
    simp only [pure_eq_ok] at hbang ⊢
    simp only [hbang, bind_ok, Bool.false_eq_true, if_false]
  · rfl

/-- the position theorem for a whole scan -/
theorem scanWith_pos {E : Env} (hal : Aligned E.text) (hno : NoLFCR E.text) (hns : NoShebang E.text) (hC : CodePosSpec E)
    (ctx : Nat) {toks : List Tok} {e : Option LexErr} (h : scanWith E ctx = .ok (toks, e)) :
    (∀ t ∈ toks, t.typ ≠ tokenSemicolon → (t.line, t.col) = advance (E.text.take t.start.toNat) (1, 1)) ∧
    (∀ err, e = some err → ErrPosOK E err) := by
  unfold scanWith at h
  simp only [] at h
  generalize hinit : initSt ctx (if (!E.tmpl) = true then ContextText else if ctx = ContextMarkdown then ContextMarkdown else ContextHTML) = st0 at h
  have hb0 : st0.base = 0 := by rw [← hinit]; rfl
  have ht0 : st0.toks = [] := by rw [← hinit]; rfl
  have hti0 : st0.tagIndex = 0 := by rw [← hinit]; rfl
  have hbal0 : Bal st0 := by rw [← hinit]; rfl
  have hp0 : PosAt E st0 0 := by rw [← hinit]; rfl
  have ha0 : AllTok E st0 := by intro t hm; rw [ht0] at hm; cases hm
  rw [shebang_none hb0 hns] at h
  simp only [bind_ok] at h
  cases hbody : (if E.tmpl = true then scanTemplateBody E st0 else lexCode E tokenEOF st0) with
  | error f => rw [hbody] at h; cases h
  | ok r =>
    obtain ⟨s1, e1⟩ := r
    rw [hbody] at h
    simp only [bind_ok] at h
    have hres : AllTok E s1 ∧ (∀ err, e1 = some err → ErrPosOK E err) ∧ (e1 = none → PosAt E s1 s1.base) := by
      split at hbody
      · exact scanTemplateBody_pos hal hno hC hb0 hti0 hbal0 hp0 ha0 hbody
      · obtain ⟨a, b, c⟩ := hC.ok tokenEOF st0 s1 e1 hbody (by rw [hb0]; exact hp0) ha0
        exact ⟨a, b, fun hn => (c hn).1⟩
    obtain ⟨a1, he1, hp1⟩ := hres
    cases e1 with
    | some err =>
      simp only [pure_eq_ok] at h
      cases h
      exact ⟨fun t hm => a1 t (List.mem_reverse.mp hm), he1⟩
    | none =>
      simp only [] at h
      cases hem : emit E s1 tokenEOF 0 with
      | error f => rw [hem] at h; cases h
      | ok s2 =>
        rw [hem] at h
        simp only [bind_ok, pure_eq_ok] at h
        cases h
        obtain ⟨a2, _⟩ := emit_pos hem (hp1 rfl) a1
        exact ⟨fun t hm => a2 t (List.mem_reverse.mp hm), (fun err hh => by cases hh)⟩

end ScriggoV.Lexer
