import ScriggoV.Lemmas.ShowValueStr
import ScriggoV.Spec.ShowAbs
import ScriggoV.Spec.DateTime
/-! C08 helper lemmas, part 6: `time.Time`. The model of showTimeInJS (its four regenerated
Sprintf layouts, the sign/offset arithmetic) writes `new Date("` + `ecmaDate t` + `")`;
`ecmaDate t` and `fmtRFC3339 t` are read back field by field by the ECMA-262 / RFC 3339
decoders of `Spec/DateTime.lean`. -/
namespace ScriggoV.ShowValue
open ScriggoV ScriggoV.JSON ScriggoV.Gen.ShowJS ScriggoV.DateTime

theorem ok_bind' {α β : Type} (a : α) (f : α → Except Fault β) :
    (Except.ok a >>= f) = f a := rfl

/-! ### fixed-width decimals -/

theorem digitVal_digitChar (n : Nat) : digitVal (digitChar n) = some (n % 10) := by
  unfold digitVal digitChar
  have : n % 10 < 10 := Nat.mod_lt _ (by decide)
  rw [toUInt8_toNat _ (by omega)]
  simp
  omega

theorem padDigits_all_digits (w n : Nat) : (padDigits w n).all isDigit = true := by
  induction w generalizing n with
  | zero => rfl
  | succ w ih => simp [padDigits, ih, isDigit_digitChar]

theorem minDigits_all_digits (w n : Nat) : (minDigits w n).all isDigit = true := by
  unfold minDigits; split
  · exact padDigits_all_digits w n
  · exact natDigits_all_digits n

theorem readDigits_append (a b acc : Nat) (s : Bytes) :
    readDigits (a + b) acc s =
      match readDigits a acc s with
      | some (x, r) => readDigits b x r
      | none => none := by
  induction a generalizing acc s with
  | zero => simp [readDigits]
  | succ a ih =>
    have e : a + 1 + b = (a + b) + 1 := by omega
    rw [e]
    cases s with
    | nil => simp [readDigits]
    | cons c s =>
      simp only [readDigits]
      cases digitVal c with
      | none => rfl
      | some d => exact ih _ _

theorem readDigits_pad (w n acc : Nat) (rest : Bytes) (h : n < 10 ^ w) :
    readDigits w acc (padDigits w n ++ rest) = some (acc * 10 ^ w + n, rest) := by
  induction w generalizing n acc rest with
  | zero =>
    have : n = 0 := by simpa using h
    subst this; simp [readDigits, padDigits]
  | succ w ih =>
    rw [padDigits, List.append_assoc, readDigits_append w 1 acc]
    have hn : n / 10 < 10 ^ w := by
      rw [Nat.div_lt_iff_lt_mul (by decide)]; rw [Nat.pow_succ] at h; exact h
    rw [ih (n / 10) acc _ hn]
    simp only [List.singleton_append, readDigits, digitVal_digitChar]
    congr 2
    rw [Nat.pow_succ]
    have := Nat.div_add_mod n 10
    rw [Nat.add_mul, Nat.mul_assoc]
    omega

theorem readDigits_min (w n : Nat) (rest : Bytes) (h : n < 10 ^ w) :
    readDigits w 0 (minDigits w n ++ rest) = some (n, rest) := by
  unfold minDigits
  rw [if_pos h, readDigits_pad w n 0 rest h]
  simp

theorem minDigits_two (n : Nat) (h : n < 100) : minDigits 2 n = [digitChar (n / 10), digitChar n] := by
  unfold minDigits
  rw [if_pos (by simpa using h)]
  simp [padDigits]

theorem expect_cons (c : UInt8) (s : Bytes) : expect c (c :: s) = some s := by
  simp [expect]

/-! ### plain bytes -/

def digitPlainCheck (c : UInt8) : Bool := !isDigit c || plain c
theorem digitPlainCheck_all : allBytes digitPlainCheck = true := by decide +kernel

theorem plain_of_digits (l : Bytes) (h : l.all isDigit = true) : l.all plain = true := by
  rw [List.all_eq_true] at h ⊢
  intro c hc
  have := allBytes_spec digitPlainCheck_all c
  simp only [digitPlainCheck, Bool.or_eq_true, Bool.not_eq_true'] at this
  rcases this with this | this
  · rw [h c hc] at this; exact absurd this (by simp)
  · exact this

theorem minDigits_plain (w n : Nat) : (minDigits w n).all plain = true :=
  plain_of_digits _ (minDigits_all_digits w n)

theorem plain_sign (p : Prop) [Decidable p] : plain (if p then 0x2D else 0x2B) = true := by
  split <;> decide

theorem ecmaDate_plain (t : TimeRec) : (ecmaDate t).all plain = true := by
  unfold ecmaDate
  simp only [List.all_append, List.all_cons, List.all_nil, minDigits_plain, Bool.and_true]
  split <;> split <;> (try split) <;> simp [minDigits_plain, plain_sign] <;> decide

theorem fmtRFC3339_plain (t : TimeRec) : (fmtRFC3339 t).all plain = true := by
  unfold fmtRFC3339
  simp only [List.all_append, List.all_cons, List.all_nil, minDigits_plain, Bool.and_true, Bool.true_and]
  split <;> (try split) <;> simp [minDigits_plain] <;> decide

/-! ### showTimeInJS -/

theorem nat_not_neg (n : Nat) : ((n : Int) < 0) = False := by simp
theorem ms_not_neg (n : Nat) : ((n : Int) / 1000000 < 0) = False := by simp; omega
theorem ms_natAbs (n : Nat) : ((n : Int) / 1000000).natAbs = n / 1000000 := by omega
theorem zq_not_neg (n : Nat) : ((n : Int) / 60 < 0) = False := by simp; omega
theorem zq_natAbs (n : Nat) : ((n : Int) / 60).natAbs = n / 60 := by omega
theorem zr_not_neg (n : Nat) : ((n : Int) % 60 < 0) = False := by simp; omega
theorem zr_natAbs (n : Nat) : ((n : Int) % 60).natAbs = n % 60 := by omega

theorem abs_zone (z : Int) : (if z < 0 then -z else z) = (z.natAbs : Int) := by
  split <;> omega

/-- **the model of showTimeInJS writes `new Date("` + the ECMA-262 string + `")`** whenever it
does not panic (year within ±999999), for every zone and offset — in particular with the sign
of the *whole* offset (the defect fixed in fixes/C08-js-date-negative-subhour-offset.md) -/
theorem showTimeInJS_eq (t : TimeRec) (h1 : jsYearMin ≤ t.year) (h2 : t.year ≤ jsYearMax) :
    showTimeInJS t = .ok (kwNewDate ++ ecmaDate t ++ [0x22, 0x29]) := by
  unfold showTimeInJS ecmaDate
  have hy : (decide (t.year < jsYearMin) || decide (t.year > jsYearMax)) = false := by
    simp; constructor <;> omega
  simp only [hy, Bool.false_eq_true, if_false, abs_zone]
  simp only [jsYear4Min, jsYear4Max]
  by_cases hu : t.utc = true
  · simp only [hu, if_true]
    by_cases hn : t.year < 0
    · simp [hn, sprintf, jsDateUTCExpanded, kwNewDate, ok_bind', nat_not_neg, ms_not_neg, ms_natAbs]
    · by_cases hb : t.year > 9999
      · simp [hn, hb, sprintf, jsDateUTCExpanded, kwNewDate, ok_bind', nat_not_neg, ms_not_neg, ms_natAbs]
      · simp [hn, hb, sprintf, jsDateUTC, kwNewDate, ok_bind', nat_not_neg, ms_not_neg, ms_natAbs]
  · have hu' : t.utc = false := by simpa using hu
    simp only [hu', Bool.false_eq_true, if_false]
    by_cases hn : t.year < 0
    · simp [hn, sprintf, jsDateZoneExpanded, kwNewDate, ok_bind', nat_not_neg, ms_not_neg, ms_natAbs,
        zq_not_neg, zq_natAbs, zr_not_neg, zr_natAbs]
    · by_cases hb : t.year > 9999
      · simp [hn, hb, sprintf, jsDateZoneExpanded, kwNewDate, ok_bind', nat_not_neg, ms_not_neg, ms_natAbs,
          zq_not_neg, zq_natAbs, zr_not_neg, zr_natAbs]
      · simp [hn, hb, sprintf, jsDateZone, kwNewDate, ok_bind', nat_not_neg, ms_not_neg, ms_natAbs,
          zq_not_neg, zq_natAbs, zr_not_neg, zr_natAbs]

/-! ### reading the strings back -/

/-- calendar fields in range, |year| ≤ 999999, |offset| < 24 h -/
structure TimeOK (t : TimeRec) : Prop where
  month : 1 ≤ t.month ∧ t.month ≤ 12
  day : 1 ≤ t.day ∧ t.day ≤ 31
  hour : t.hour ≤ 23
  min : t.min ≤ 59
  sec : t.sec ≤ 59
  nsec : t.nsec < 1000000000
  year : -999999 ≤ t.year ∧ t.year ≤ 999999
  offset : -86400 < t.offset ∧ t.offset < 86400

theorem readDigits_two (n : Nat) (h : n < 100) :
    readDigits 2 0 [digitChar (n / 10), digitChar n] = some (n, []) := by
  have := readDigits_min 2 n [] (by simpa using h)
  rw [minDigits_two n h] at this
  simpa using this

theorem readCommon_eq (year : Int) (mo d h mi sc : Nat) (rest : Bytes)
    (h1 : 1 ≤ mo ∧ mo ≤ 12) (h2 : 1 ≤ d ∧ d ≤ 31) (h3 : h ≤ 23) (h4 : mi ≤ 59) (h5 : sc ≤ 59) :
    readCommon year (0x2D :: (minDigits 2 mo ++ 0x2D :: (minDigits 2 d ++ 0x54 :: (minDigits 2 h ++
      0x3A :: (minDigits 2 mi ++ 0x3A :: (minDigits 2 sc ++ rest))))))
    = some ({ year := year, month := mo, day := d, hour := h, min := mi, sec := sc, ms := 0, offsetMin := 0 }, rest) := by
  unfold readCommon
  simp only [expect_cons, bind, Option.bind]
  rw [readDigits_min 2 mo _ (by simp; omega)]
  simp only [expect_cons]
  rw [readDigits_min 2 d _ (by simp; omega)]
  simp only [expect_cons]
  rw [readDigits_min 2 h _ (by simp; omega)]
  simp only [expect_cons]
  rw [readDigits_min 2 mi _ (by simp; omega)]
  simp only [expect_cons]
  rw [readDigits_min 2 sc _ (by simp; omega)]
  simp only []
  rw [if_neg (by omega)]

theorem readOffset_eq (neg : Bool) (z : Nat) (hz : z < 1440) :
    readOffset ((if neg then 0x2D else 0x2B) :: (minDigits 2 (z / 60) ++ [0x3A] ++ minDigits 2 (z % 60)))
      = some (if neg then -(z : Int) else (z : Int)) := by
  have hq : z / 60 < 100 := by omega
  have hr : z % 60 < 100 := by omega
  rw [minDigits_two _ hq, minDigits_two _ hr]
  simp only [List.cons_append, List.nil_append]
  unfold readOffset
  simp only []
  rw [if_neg (by decide), readDigits_two _ hq, readDigits_two _ hr]
  simp only []
  rw [if_neg (by omega)]
  have e : z / 60 * 60 + z % 60 = z := by omega
  cases neg
  · simp [e]
  · simp [e]

/-- what `ecmaDate t` says, as the ECMA-262 date-time string format reads it -/
def ecmaFields (t : TimeRec) : Fields :=
  { year := t.year, month := t.month, day := t.day, hour := t.hour, min := t.min, sec := t.sec,
    ms := t.nsec / 1000000, offsetMin := if t.utc then 0 else Int.tdiv t.offset 60 }

theorem minDigits_four (n : Nat) (h : n < 10000) :
    ∃ d r, minDigits 4 n = d :: r ∧ isDigit d = true := by
  unfold minDigits
  rw [if_pos (by simpa using h)]
  exact ⟨digitChar (n / 10 / 10 / 10), [digitChar (n / 10 / 10), digitChar (n / 10), digitChar n],
    by simp [padDigits], isDigit_digitChar _⟩

theorem readYear_plain (n : Nat) (h : n < 10000) (rest : Bytes) :
    readYear (minDigits 4 n ++ rest) = some ((n : Int), rest) := by
  obtain ⟨d, r, e, hd⟩ := minDigits_four n h
  have key := readDigits_min 4 n rest (by simpa using h)
  rw [e] at key ⊢
  simp only [List.cons_append] at key ⊢
  unfold readYear
  have n1 : (d == 0x2B) = false := by
    cases hc : d == 0x2B with
    | false => rfl
    | true => rw [beq_iff_eq] at hc; subst hc; exact absurd hd (by decide)
  have n2 : (d == 0x2D) = false := by
    cases hc : d == 0x2D with
    | false => rfl
    | true => rw [beq_iff_eq] at hc; subst hc; exact absurd hd (by decide)
  simp only [n1, n2, Bool.false_eq_true, if_false, key]

theorem readYear_plus (n : Nat) (h : n < 1000000) (rest : Bytes) :
    readYear (0x2B :: (minDigits 6 n ++ rest)) = some ((n : Int), rest) := by
  unfold readYear
  simp only [beq_self_eq_true, if_true]
  rw [readDigits_min 6 n rest (by simpa using h)]

theorem readYear_minus (n : Nat) (h : n < 1000000) (h0 : n ≠ 0) (rest : Bytes) :
    readYear (0x2D :: (minDigits 6 n ++ rest)) = some (-(n : Int), rest) := by
  unfold readYear
  simp only []
  rw [if_neg (by decide), if_pos (by decide), readDigits_min 6 n rest (by simpa using h)]
  have : (n == 0) = false := by simpa using h0
  simp [this]

theorem tdiv60 (a : Int) : Int.tdiv a 60 = if 0 ≤ a then a / 60 else -((-a) / 60) := by
  split
  · rename_i h; exact Int.tdiv_eq_ediv_of_nonneg h
  · rename_i h
    have : a = -(-a) := by omega
    rw [this, Int.neg_tdiv, Int.tdiv_eq_ediv_of_nonneg (by omega)]
    simp

theorem sign_natAbs (z : Int) : (if z < 0 then -(z.natAbs : Int) else (z.natAbs : Int)) = z := by
  split <;> omega

/-- **the Date constructor's argument denotes the value.** Read with the ECMA-262 date-time
string format, `ecmaDate t` gives back the calendar fields of `t`, its milliseconds and its
offset in whole minutes, for every in-range `t`. -/
theorem parseECMA_ecmaDate (t : TimeRec) (h : TimeOK t) : parseECMA (ecmaDate t) = some (ecmaFields t) := by
  have hms : t.nsec / 1000000 < 1000 := by have := h.nsec; omega
  have hz : (Int.tdiv t.offset 60).natAbs < 1440 := by
    have := h.offset
    rw [tdiv60]; split <;> omega
  -- the tail: `.sss` and the zone
  have tail : ∀ f : Fields,
      (match expect 0x2E (0x2E :: (minDigits 3 (t.nsec / 1000000) ++
          (if t.utc then [0x5A] else (if Int.tdiv t.offset 60 < 0 then 0x2D else 0x2B) ::
            (minDigits 2 ((Int.tdiv t.offset 60).natAbs / 60) ++ [0x3A] ++ minDigits 2 ((Int.tdiv t.offset 60).natAbs % 60))))) with
       | none => none
       | some s =>
         match readDigits 3 0 s with
         | none => none
         | some (ms, s) =>
           match readOffset s with
           | none => none
           | some off => some { f with ms := ms, offsetMin := off })
      = some { f with ms := t.nsec / 1000000, offsetMin := if t.utc then 0 else Int.tdiv t.offset 60 } := by
    intro f
    rw [expect_cons]
    simp only []
    rw [readDigits_min 3 _ _ (by simpa using hms)]
    simp only []
    by_cases hu : t.utc = true
    · simp [hu, readOffset]
    · have hu' : t.utc = false := by simpa using hu
      simp only [hu', Bool.false_eq_true, if_false]
      have := readOffset_eq (decide (Int.tdiv t.offset 60 < 0)) (Int.tdiv t.offset 60).natAbs hz
      simp only [decide_eq_true_eq] at this
      rw [this, sign_natAbs]
  unfold parseECMA ecmaDate ecmaFields
  simp only [List.append_assoc, List.cons_append, List.nil_append]
  by_cases hn : t.year < 0
  · simp only [hn, if_true]
    simp only [List.append_assoc, List.cons_append, List.nil_append] at tail ⊢
    rw [readYear_minus _ (by have := h.year; omega) (by omega)]
    simp only []
    rw [readCommon_eq _ _ _ _ _ _ _ h.month h.day h.hour h.min h.sec]
    simp only []
    have e : -((t.year.natAbs : Nat) : Int) = t.year := by omega
    rw [e]
    exact tail { year := t.year, month := t.month, day := t.day, hour := t.hour, min := t.min, sec := t.sec, ms := 0, offsetMin := 0 }
  · by_cases hb : t.year > 9999
    · simp only [hn, hb, if_true, if_false]
      simp only [List.append_assoc, List.cons_append, List.nil_append] at tail ⊢
      rw [readYear_plus _ (by have := h.year; omega)]
      simp only []
      rw [readCommon_eq _ _ _ _ _ _ _ h.month h.day h.hour h.min h.sec]
      simp only []
      have e : ((t.year.natAbs : Nat) : Int) = t.year := by omega
      rw [e]
      exact tail { year := t.year, month := t.month, day := t.day, hour := t.hour, min := t.min, sec := t.sec, ms := 0, offsetMin := 0 }
    · simp only [hn, hb, if_false]
      simp only [List.append_assoc, List.cons_append, List.nil_append] at tail ⊢
      rw [readYear_plain _ (by omega)]
      simp only []
      rw [readCommon_eq _ _ _ _ _ _ _ h.month h.day h.hour h.min h.sec]
      simp only []
      have e : ((t.year.natAbs : Nat) : Int) = t.year := by omega
      rw [e]
      exact tail { year := t.year, month := t.month, day := t.day, hour := t.hour, min := t.min, sec := t.sec, ms := 0, offsetMin := 0 }

/-- what `fmtRFC3339 t` says -/
def rfcFields (t : TimeRec) : Fields :=
  { year := t.year, month := t.month, day := t.day, hour := t.hour, min := t.min, sec := t.sec,
    ms := 0, offsetMin := Int.tdiv t.offset 60 }

/-- **the JSON text of a time is an RFC 3339 date-time for the value** (years 0..9999): read
with RFC 3339 §5.6 it gives back the calendar fields and the offset in whole minutes. -/
theorem parseRFC3339_fmt (t : TimeRec) (h : TimeOK t) (hy : 0 ≤ t.year ∧ t.year ≤ 9999) :
    parseRFC3339 (fmtRFC3339 t) = some (rfcFields t) := by
  have hz : (Int.tdiv t.offset 60).natAbs < 1440 := by
    have := h.offset
    rw [tdiv60]; split <;> omega
  unfold parseRFC3339 fmtRFC3339 rfcFields
  simp only [List.append_assoc, List.cons_append, List.nil_append]
  rw [readDigits_min 4 _ _ (by simp; omega)]
  simp only []
  rw [readCommon_eq _ _ _ _ _ _ _ h.month h.day h.hour h.min h.sec]
  simp only []
  have e : ((t.year.natAbs : Nat) : Int) = t.year := by omega
  rw [e]
  by_cases h0 : t.offset = 0
  · simp [h0, readOffset]
  · have : (t.offset == 0) = false := by simpa using h0
    simp only [this, Bool.false_eq_true, if_false]
    have := readOffset_eq (decide (Int.tdiv t.offset 60 < 0)) (Int.tdiv t.offset 60).natAbs hz
    simp only [decide_eq_true_eq, List.append_assoc, List.cons_append, List.nil_append] at this
    rw [this, sign_natAbs]

end ScriggoV.ShowValue
