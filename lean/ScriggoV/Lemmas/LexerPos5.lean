import ScriggoV.Lemmas.LexerPos4
/-! # Position invariant: the scanners that decode runes (`scanTag`, `scanAttribute`)

They count one column per decoded rune; the specification counts one column per byte that is not
a continuation byte. The two agree when runes are decoded at character boundaries of a text
whose characters are well formed: hypothesis `Aligned`. -/
namespace ScriggoV.Lexer
open ScriggoV ScriggoV.Gen.LexTables ScriggoV.Spec.Position

/-- every character of the text is well formed: decoding at the first byte of a character
(a byte that is not a continuation byte) consumes that byte and continuation bytes only, and
stops at the first byte of the next character (or at the end). Valid UTF-8 is aligned. -/
def Aligned (t : Bytes) : Prop :=
  ∀ (i : Nat) (c : UInt8), t[i]? = some c → isStartChar c = true →
    (∀ k, 0 < k → k < (decodeRune (t.drop i)).2 → ∃ d, t[i + k]? = some d ∧ isStartChar d = false) ∧
    (∀ d, t[i + (decodeRune (t.drop i)).2]? = some d → isStartChar d = true)

/-- the offset is at the first byte of a character, or at the end -/
def AtStart (E : Env) (off : Nat) : Prop := ∀ d, E.text[off]? = some d → isStartChar d = true

theorem advance_conts (bs : Bytes) (lc : Nat × Nat) (h : ∀ d ∈ bs, isStartChar d = false) : advance bs lc = lc := by
  induction bs generalizing lc with
  | nil => rfl
  | cons b bs ih =>
    obtain ⟨l, k⟩ := lc
    have hb := h b (by simp)
    have hnl : b ≠ 0x0a := by intro e; subst e; revert hb; decide
    have hcont : isCont b = true := by
      rw [isStartChar_eq_not_isCont] at hb; simpa using hb
    simp only [advance, if_neg hnl, hcont, if_true]
    exact ih _ (fun d hd => h d (by simp [hd]))

/-- moving over one decoded rune that starts with a byte other than a newline takes one column -/
theorem posAt_rune {E : Env} {st : St} {off : Nat} {c : UInt8} (hal : Aligned E.text) (h : PosAt E st off)
    (hc : E.text[off]? = some c) (hs : isStartChar c = true) (hnl : c ≠ 0x0a) :
    PosAt E (addCol st 1) (off + (decodeRune (E.text.drop off)).2) ∧ AtStart E (off + (decodeRune (E.text.drop off)).2) := by
  obtain ⟨hconts, hnext⟩ := hal off c hc hs
  refine ⟨?_, hnext⟩
  have hlt : off < E.text.length := lt_of_getElem?_eq_some hc
  have hd := decodeRune_drop hlt
  generalize (decodeRune (E.text.drop off)).2 = s at hconts hd ⊢
  -- take (off + s) = take off ++ [c] ++ conts
  have hsplit : E.text.take (off + s) = E.text.take off ++ c :: ((E.text.drop (off + 1)).take (s - 1)) := by
    have e1 : off + s = off + 1 + (s - 1) := by omega
    rw [e1, List.take_add, take_succ_of_getElem? hc]
    simp
  unfold PosAt at h ⊢
  rw [hsplit, advance_append, ← h]
  show _ = advance (c :: _) (st.line, st.col)
  simp only [advance, if_neg hnl]
  have hnc : isCont c = false := by rw [isStartChar_eq_not_isCont] at hs; simpa using hs
  simp only [hnc, Bool.false_eq_true, if_false]
  rw [advance_conts]
  · rfl
  · intro d hd
    obtain ⟨j, hj⟩ := List.mem_iff_getElem?.mp hd
    rw [List.getElem?_take] at hj
    split at hj
    · rename_i hlt2
      rw [List.getElem?_drop] at hj
      obtain ⟨d', hd', hns⟩ := hconts (j + 1) (by omega) (by omega)
      have e : off + (j + 1) = off + 1 + j := by omega
      rw [e, hj] at hd'
      cases hd'; exact hns
    · cases hj


theorem decodeRune_ascii_size {t : Bytes} {off : Nat} {c : UInt8} (hc : t[off]? = some c) (h : c < 0x80) :
    (decodeRune (t.drop off)).2 = 1 := by
  have hlt := lt_of_getElem?_eq_some hc
  have : t.drop off = c :: t.drop (off + 1) := by
    rw [List.drop_eq_getElem_cons hlt]
    congr 1
    have := List.getElem?_eq_getElem hlt
    rw [this] at hc; exact Option.some.inj hc
  rw [this]
  unfold decodeRune
  simp [h]

theorem decodeRune_cont {t : Bytes} {off : Nat} {c : UInt8} (hc : t[off]? = some c) (h : isStartChar c = false) :
    decodeRune (t.drop off) = (0xFFFD, 1) := by
  have hlt := lt_of_getElem?_eq_some hc
  have : t.drop off = c :: t.drop (off + 1) := by
    rw [List.drop_eq_getElem_cons hlt]
    congr 1
    have := List.getElem?_eq_getElem hlt
    rw [this] at hc; exact Option.some.inj hc
  rw [this]
  have hb := allBytes_spec (p := fun c => isStartChar c || (!decide (c < 0x80) && decide (c < 0xC2))) (by decide +kernel) c
  simp only [h, Bool.false_or, Bool.and_eq_true, Bool.not_eq_true', decide_eq_false_iff_not, decide_eq_true_eq] at hb
  unfold decodeRune
  simp [hb.1, hb.2]

theorem asciiSpace_of_nl {c : UInt8} (h : c = 0x0a) : isASCIISpace c = true := by subst h; decide

/-- one byte or rune of a tag or attribute name: a start byte that is not a newline -/
theorem posAt_step {E : Env} {st : St} {off : Nat} {c : UInt8} (hal : Aligned E.text) (h : PosAt E st off)
    (hc : E.text[off]? = some c) (hs : isStartChar c = true) (hnl : c ≠ 0x0a) :
    (c < 0x80 → PosAt E (addCol st 1) (off + 1) ∧ AtStart E (off + 1)) ∧
    (PosAt E (addCol st 1) (off + (decodeRune (E.text.drop off)).2) ∧ AtStart E (off + (decodeRune (E.text.drop off)).2)) := by
  have := posAt_rune hal h hc hs hnl
  refine ⟨fun hlt => ?_, this⟩
  rw [decodeRune_ascii_size hc hlt] at this
  exact this

theorem scanTagLoop_pos {E : Env} (hal : Aligned E.text) : ∀ (fuel : Nat) (st : St) (p : Nat) (st' : St) (q : Nat),
    scanTagLoop E fuel st p = .ok (st', q) → PosAt E st (st.base + p) → AtStart E (st.base + p) →
    PosAt E st' (st.base + q) := by
  intro fuel
  induction fuel with
  | zero => intro st p st' q h; simp [scanTagLoop] at h
  | succ fuel ih =>
    intro st p st' q h hpos hat
    unfold scanTagLoop at h
    split at h
    · cases hc : srcAt E st p with
      | error f => rw [hc] at h; cases h
      | ok c =>
        rw [hc] at h
        simp only [bind_ok] at h
        have hget : E.text[st.base + p]? = some c := getAt_eq_ok_iff.mp hc
        split at h
        · cases h; exact hpos
        · rename_i hterm
          have hnl : c ≠ 0x0a := by
            intro e; apply hterm; right; right; left; exact asciiSpace_of_nl e
          have hs := hat c hget
          obtain ⟨h1, h2⟩ := posAt_step hal hpos hget hs hnl
          split at h
          · rename_i hlt
            obtain ⟨a, b⟩ := h1 hlt
            have := ih (addCol st 1) (p + 1) st' q h (by rw [show (addCol st 1).base = st.base from rfl, ← Nat.add_assoc]; exact a)
              (by rw [show (addCol st 1).base = st.base from rfl, ← Nat.add_assoc]; exact b)
            exact this
          · cases hrs : decodeRune (E.text.drop (st.base + p)) with
            | mk r sz =>
              rw [hrs] at h2
              simp only [addCol] at hrs h
              rw [hrs] at h
              simp only [] at h
              have := ih (addCol st 1) (p + sz) st' q h (by rw [show (addCol st 1).base = st.base from rfl, ← Nat.add_assoc]; exact h2.1)
                (by rw [show (addCol st 1).base = st.base from rfl, ← Nat.add_assoc]; exact h2.2)
              exact this
    · cases h; exact hpos

theorem scanTag_pos {E : Env} (hal : Aligned E.text) {st st' : St} {p q : Nat} {name : Bytes}
    (h : scanTag E st p = .ok (st', name, q)) (hpos : PosAt E st (st.base + p)) :
    PosAt E st' (st.base + q) := by
  unfold scanTag at h
  split at h
  · cases h; exact hpos
  · cases hc : srcAt E st p with
    | error f => rw [hc] at h; cases h
    | ok c =>
      rw [hc] at h
      simp only [bind_ok] at h
      have hget : E.text[st.base + p]? = some c := getAt_eq_ok_iff.mp hc
      split at h
      · cases h; exact hpos
      · rename_i halpha
        have halpha' : isAlpha c = true := by simpa using halpha
        have hb := allBytes_spec (p := fun c => !isAlpha c || (isStartChar c && c != 0x0a && decide (c < 0x80))) (by decide +kernel) c
        simp only [halpha', Bool.not_true, Bool.false_or, Bool.and_eq_true, bne_iff_ne, ne_eq, decide_eq_true_eq] at hb
        obtain ⟨a, b⟩ := (posAt_step hal hpos hget hb.1.1 hb.1.2).1 hb.2
        cases hl : scanTagLoop E (srcLen E st + 1) (addCol st 1) (p + 1) with
        | error f => rw [hl] at h; cases h
        | ok r =>
          obtain ⟨s1, q1⟩ := r
          rw [hl] at h
          simp only [bind_ok] at h
          have hp1 := scanTagLoop_pos hal _ _ _ _ _ hl (by rw [show (addCol st 1).base = st.base from rfl, ← Nat.add_assoc]; exact a)
            (by rw [show (addCol st 1).base = st.base from rfl, ← Nat.add_assoc]; exact b)
          cases hsl : sliceOf (E.text.drop s1.base) p q1 with
          | error f => rw [hsl] at h; cases h
          | ok nm =>
            rw [hsl] at h
            simp only [bind_ok, pure_eq_ok] at h
            cases h
            exact hp1


/-- where an attribute-name / `=` / quote loop stopped -/
def AttrNamePos (E : Env) (st : St) : AttrName → Prop
  | .stop st' q => PosAt E st' (st.base + q) ∧ st'.base = st.base
  | .done st' q => PosAt E st' (st.base + q) ∧ st'.base = st.base

def AttrEqPos (E : Env) (st : St) : AttrEq → Prop
  | .stop st' q => PosAt E st' (st.base + q) ∧ st'.base = st.base
  | .done st' q => PosAt E st' (st.base + q) ∧ st'.base = st.base

theorem attrNameLoop_pos {E : Env} (hal : Aligned E.text) : ∀ (fuel : Nat) (st : St) (p : Nat) (r : AttrName),
    attrNameLoop E fuel st p = .ok r → PosAt E st (st.base + p) → AttrNamePos E st r := by
  intro fuel
  induction fuel with
  | zero => intro st p r h; simp [attrNameLoop] at h
  | succ fuel ih =>
    intro st p r h hpos
    unfold attrNameLoop at h
    split at h
    · cases hc : srcAt E st p with
      | error f => rw [hc] at h; cases h
      | ok c =>
        rw [hc] at h
        simp only [bind_ok] at h
        have hget : E.text[st.base + p]? = some c := getAt_eq_ok_iff.mp hc
        split at h
        · cases h; exact ⟨hpos, rfl⟩
        · rename_i hnsp
          have hnl : c ≠ 0x0a := fun e => hnsp (Or.inr (asciiSpace_of_nl e))
          split at h
          · cases h; exact ⟨hpos, rfl⟩
          · -- the recursive call keeps the base
            have recur : ∀ (q : Nat), PosAt E (addCol st 1) (st.base + q) →
                ∀ r, attrNameLoop E fuel (addCol st 1) q = .ok r → AttrNamePos E st r := by
              intro q hq r hr
              have := ih (addCol st 1) q r hr hq
              cases r <;> exact this
            by_cases h80 : c ≥ 0x80
            · simp only [h80, if_true] at h
              by_cases hst : isStartChar c = true
              · obtain ⟨_, h2⟩ := posAt_step hal hpos hget hst hnl
                cases hrs : decodeRune (E.text.drop (st.base + p)) with
                | mk rr sz =>
                  rw [hrs] at h h2
                  have hsz := (decodeRune_drop (t := E.text) (i := st.base + p) (lt_of_getElem?_eq_some hget)).1
                  rw [hrs] at hsz
                  simp only [] at h hsz
                  by_cases ha : rr = runeError ∧ sz = 1
                  · rw [if_pos ha] at h
                    simp only [pure_eq_ok] at h; cases h; exact ⟨hpos, rfl⟩
                  · rw [if_neg ha] at h
                    by_cases hb : (0x7f ≤ rr ∧ rr ≤ 0x9f) ∨ E.U.isNonchar rr = true
                    · rw [if_pos hb] at h
                      simp only [pure_eq_ok] at h; cases h; exact ⟨hpos, rfl⟩
                    · rw [if_neg hb] at h
                      simp only [] at h
                      have hne : ¬ c = 0x7b := by
                        intro e; subst e; revert h80; decide
                      simp only [hne, false_and, if_false] at h
                      have e : p + sz - 1 + 1 = p + sz := by omega
                      rw [e] at h
                      exact recur _ (by rw [← Nat.add_assoc]; exact h2.1) r h
              · have hst' : isStartChar c = false := by simpa using hst
                rw [decodeRune_cont hget hst'] at h
                simp at h
                cases h; exact ⟨hpos, rfl⟩
            · simp only [h80, if_false] at h
              have hlt : c < 0x80 := by
                rcases Nat.lt_or_ge c.toNat 128 with hl | hg
                · simpa [UInt8.lt_iff_toNat_lt] using hl
                · exact absurd (by simpa [UInt8.le_iff_toNat_le, GE.ge] using hg) h80
              have hst : isStartChar c = true := by
                have hb := allBytes_spec (p := fun c => !decide (c < 0x80) || isStartChar c) (by decide +kernel) c
                simpa [hlt] using hb
              obtain ⟨h1, _⟩ := posAt_step hal hpos hget hst hnl
              split at h
              · simp only [pure_eq_ok] at h; cases h; exact ⟨hpos, rfl⟩
              · exact recur _ (by rw [← Nat.add_assoc]; exact (h1 hlt).1) r h
    · simp only [pure_eq_ok] at h; cases h; exact ⟨hpos, rfl⟩

theorem asciiSpace_plain_or_nl {c : UInt8} (h : isASCIISpace c = true) (hnl : c ≠ 0x0a) : plainByte c = true := by
  have hb := allBytes_spec (p := fun c => !isASCIISpace c || c == 0x0a || plainByte c) (by decide +kernel) c
  simpa [h, hnl] using hb

/-- one ASCII space that the `=` and quote loops skip -/
theorem posAt_space {E : Env} {st : St} {off : Nat} {c : UInt8} (h : PosAt E st off) (hc : E.text[off]? = some c)
    (hsp : isASCIISpace c = true) : PosAt E (if c = 0x0a then newline st else addCol st 1) (off + 1) := by
  split
  · rename_i e
    unfold PosAt at h ⊢
    rw [take_succ_of_getElem? hc, advance_append, ← h, advance_one, if_pos e]
    rfl
  · rename_i e
    exact posAt_plain 1 h (fun j hj => by
      have : j = 0 := by omega
      subst this
      exact ⟨c, hc, asciiSpace_plain_or_nl hsp e⟩)

theorem attrEqLoop_pos {E : Env} : ∀ (fuel : Nat) (st : St) (p : Nat) (r : AttrEq),
    attrEqLoop E fuel st p = .ok r → PosAt E st (st.base + p) → AttrEqPos E st r := by
  intro fuel
  induction fuel with
  | zero => intro st p r h; simp [attrEqLoop] at h
  | succ fuel ih =>
    intro st p r h hpos
    unfold attrEqLoop at h
    split at h
    · cases hc : srcAt E st p with
      | error f => rw [hc] at h; cases h
      | ok c =>
        rw [hc] at h
        simp only [bind_ok] at h
        have hget : E.text[st.base + p]? = some c := getAt_eq_ok_iff.mp hc
        split at h
        · rename_i heq
          simp only [pure_eq_ok] at h
          cases h
          refine ⟨?_, rfl⟩
          show PosAt E (addCol st 1) (st.base + (p + 1))
          rw [← Nat.add_assoc]
          exact posAt_plain 1 hpos (fun j hj => by
            have : j = 0 := by omega
            subst this
            exact ⟨c, hget, by rw [heq]; decide⟩)
        · split at h
          · rename_i hsp
            have hp1 := posAt_space hpos hget hsp
            have hb : (if c = 0x0a then newline st else addCol st 1).base = st.base := by split <;> rfl
            have := ih _ (p + 1) r h (by rw [hb, ← Nat.add_assoc]; exact hp1)
            cases r <;> (simp only [AttrEqPos] at this ⊢; rw [hb] at this; exact this)
          · simp only [pure_eq_ok] at h; cases h; exact ⟨hpos, rfl⟩
    · simp only [pure_eq_ok] at h; cases h; exact ⟨hpos, rfl⟩

theorem attrQuoteLoop_pos {E : Env} : ∀ (fuel : Nat) (st : St) (p : Nat) (r : AttrEq),
    attrQuoteLoop E fuel st p = .ok r → PosAt E st (st.base + p) → AttrEqPos E st r := by
  intro fuel
  induction fuel with
  | zero => intro st p r h; simp [attrQuoteLoop] at h
  | succ fuel ih =>
    intro st p r h hpos
    unfold attrQuoteLoop at h
    split at h
    · cases hc : srcAt E st p with
      | error f => rw [hc] at h; cases h
      | ok c =>
        rw [hc] at h
        simp only [bind_ok] at h
        have hget : E.text[st.base + p]? = some c := getAt_eq_ok_iff.mp hc
        split at h
        · simp only [pure_eq_ok] at h; cases h; exact ⟨hpos, rfl⟩
        · split at h
          · rename_i hsp
            have hp1 := posAt_space hpos hget hsp
            have hb : (if c = 0x0a then newline st else addCol st 1).base = st.base := by split <;> rfl
            have := ih _ (p + 1) r h (by rw [hb, ← Nat.add_assoc]; exact hp1)
            cases r <;> (simp only [AttrEqPos] at this ⊢; rw [hb] at this; exact this)
          · simp only [pure_eq_ok] at h; cases h; exact ⟨hpos, rfl⟩
    · simp only [pure_eq_ok] at h; cases h; exact ⟨hpos, rfl⟩

/-- `scanAttribute` keeps the position right (the column is counted per rune: `Aligned`) -/
theorem scanAttribute_pos {E : Env} (hal : Aligned E.text) {st st' : St} {p q : Nat} {name : Bytes}
    (h : scanAttribute E st p = .ok (st', name, q)) (hpos : PosAt E st (st.base + p)) :
    PosAt E st' (st.base + q) := by
  unfold scanAttribute at h
  simp only [] at h
  cases h1 : attrNameLoop E (srcLen E st + 1) st p with
  | error f => rw [h1] at h; cases h
  | ok r1 =>
    rw [h1] at h
    simp only [bind_ok] at h
    have p1 := attrNameLoop_pos hal _ _ _ _ h1 hpos
    cases r1 with
    | stop s1 q1 => simp only [pure_eq_ok] at h; cases h; exact p1.1
    | done s1 q1 =>
      simp only [] at h
      obtain ⟨pp1, hb1⟩ := p1
      split at h
      · simp only [pure_eq_ok] at h; cases h; exact pp1
      · cases hsl : sliceOf (E.text.drop s1.base) p q1 with
        | error f => rw [hsl] at h; cases h
        | ok nm =>
          rw [hsl] at h
          simp only [bind_ok] at h
          cases h2 : attrEqLoop E (srcLen E st + 1) s1 q1 with
          | error f => rw [h2] at h; cases h
          | ok r2 =>
            rw [h2] at h
            simp only [bind_ok] at h
            have p2 := attrEqLoop_pos _ _ _ _ h2 (by rw [hb1]; exact pp1)
            cases r2 with
            | stop s2 q2 => simp only [pure_eq_ok] at h; cases h; rw [← hb1]; exact p2.1
            | done s2 q2 =>
              simp only [] at h
              obtain ⟨pp2, hb2⟩ := p2
              cases h3 : attrQuoteLoop E (srcLen E st + 1) s2 q2 with
              | error f => rw [h3] at h; cases h
              | ok r3 =>
                rw [h3] at h
                simp only [bind_ok] at h
                have p3 := attrQuoteLoop_pos _ _ _ _ h3 (by rw [hb2]; exact pp2)
                cases r3 with
                | stop s3 q3 => simp only [pure_eq_ok] at h; cases h; rw [← hb1, ← hb2]; exact p3.1
                | done s3 q3 =>
                  simp only [] at h
                  split at h <;> (simp only [pure_eq_ok] at h; cases h; rw [← hb1, ← hb2]; exact p3.1)

end ScriggoV.Lexer
