import ScriggoV.Lemmas.LexerPos3
/-! # Position invariant: CSS, JS and JSON cases -/
namespace ScriggoV.Lexer
open ScriggoV ScriggoV.Gen.LexTables ScriggoV.Spec.Position

theorem endStyleAt_true {E : Env} {F : Fixed} {st : St} {lp : Loop} {c : UInt8} (h : endStyleAt E F st lp c = .ok true) :
    c = 0x3c ∧ isEndStyle (E.text.drop (st.base + lp.p)) = .ok true := by
  unfold endStyleAt at h
  split at h
  · rename_i hc
    cases hs : srcFrom E st lp.p with
    | error f => rw [hs] at h; cases h
    | ok rest =>
      rw [hs] at h
      simp only [bind_ok] at h
      unfold srcFrom at hs
      split at hs
      · cases hs; exact ⟨hc.2, h⟩
      · cases hs
  · cases h

theorem endScriptAt_true {E : Env} {F : Fixed} {st : St} {lp : Loop} {c : UInt8} (h : endScriptAt E F st lp c = .ok true) :
    c = 0x3c ∧ isEndScript (E.text.drop (st.base + lp.p)) = .ok true := by
  unfold endScriptAt at h
  split at h
  · rename_i hc
    cases hs : srcFrom E st lp.p with
    | error f => rw [hs] at h; cases h
    | ok rest =>
      rw [hs] at h
      simp only [bind_ok] at h
      unfold srcFrom at hs
      split at hs
      · cases hs; exact ⟨hc.2, h⟩
      · cases hs
  · cases h

/-- leaving a style context: `p += 6; column += 6` over `</styl`, the tail then takes the `e` -/
theorem endStyle_fall {E : Env} {F : Fixed} {st st' : St} {lp lp' : Loop} {c : UInt8} (hI : PInv E st lp)
    (h : endStyleAt E F st lp c = .ok true)
    (hb : st'.base = st.base) (ht : st'.toks = st.toks) (hl : st'.line = st.line) (hc : st'.col = st.col + 6)
    (hp : lp'.p = lp.p + 6) (hlin : lp'.lin = lp.lin) (htc : lp'.tcol = lp.tcol) : FallPos E c st' lp' := by
  obtain ⟨hc3, he⟩ := endStyleAt_true h
  subst hc3
  exact fallPos_move 6 hI (by decide) hb ht hl hc hp hlin htc (plainRun_of_drop (isEndStyle_plain he))

/-- leaving a script context: `p += 7; column += 7` over `</scrip`, the tail then takes the `t` -/
theorem endScript_fall {E : Env} {F : Fixed} {st st' : St} {lp lp' : Loop} {c : UInt8} (hI : PInv E st lp)
    (h : endScriptAt E F st lp c = .ok true)
    (hb : st'.base = st.base) (ht : st'.toks = st.toks) (hl : st'.line = st.line) (hc : st'.col = st.col + 7)
    (hp : lp'.p = lp.p + 7) (hlin : lp'.lin = lp.lin) (htc : lp'.tcol = lp.tcol) : FallPos E c st' lp' := by
  obtain ⟨hc3, he⟩ := endScriptAt_true h
  subst hc3
  exact fallPos_move 7 hI (by decide) hb ht hl hc hp hlin htc (plainRun_of_drop (isEndScript_plain he))

/-- `p++; column++` over the plain byte `c` when the next byte is the plain byte `q` -/
theorem escape_fall {E : Env} {st st' : St} {lp lp' : Loop} {c q : UInt8} (hI : PInv E st lp)
    (hpk : peek E st lp.p = some c) (hcp : plainByte c = true) (hq : peek E st (lp.p + 1) = some q) (hqp : plainByte q = true)
    (hb : st'.base = st.base) (ht : st'.toks = st.toks) (hl : st'.line = st.line) (hc : st'.col = st.col + 1)
    (hp : lp'.p = lp.p + 1) (hlin : lp'.lin = lp.lin) (htc : lp'.tcol = lp.tcol) : FallPos E c st' lp' := by
  refine fallPos_move 1 hI hcp hb ht hl hc hp hlin htc ?_
  intro j hj
  rcases (by omega : j = 0 ∨ j = 1) with rfl | rfl
  · exact ⟨c, hpk, hcp⟩
  · exact ⟨q, by unfold peek at hq; rw [Nat.add_assoc]; exact hq, hqp⟩

theorem caseCSS_pos {E : Env} {F : Fixed} {st : St} {lp : Loop} {c : UInt8} {o : CaseOut} (hI : PInv E st lp)
    (hpk : peek E st lp.p = some c) (hq : QuoteOK lp.quote) (h : caseCSS E F st lp c = .ok o) : CasePos E c o := by
  unfold caseCSS at h
  have stay : ∀ (s : St) (l : Loop), s.base = st.base → s.toks = st.toks → s.line = st.line → s.col = st.col →
      l.p = lp.p → l.lin = lp.lin → l.tcol = lp.tcol → QuoteOK l.quote → CasePos E c (.fall s l) :=
    fun s l a b c' d e f g hq' => ⟨fallPos_stay hI hpk a b c' d e f g, hq'⟩
  split at h
  · cases he : endStyleAt E F st lp c with
    | error f => rw [he] at h; cases h
    | ok b =>
      rw [he] at h
      simp only [bind_ok] at h
      cases b with
      | true =>
        simp only [if_true, pure_eq_ok] at h
        cases h
        exact ⟨endStyle_fall hI he rfl rfl rfl rfl rfl rfl rfl, by first | exact hq | exact Or.inl rfl⟩
      | false =>
        simp only [Bool.false_eq_true, if_false] at h
        split at h <;> (cases h; exact stay _ _ rfl rfl rfl rfl rfl rfl rfl (by first | exact hq | exact Or.inl rfl | exact Or.inr (Or.inl rfl) | (rename_i hcq; rcases hcq with e | e <;> (subst e; first | exact Or.inr (Or.inl rfl) | exact Or.inr (Or.inr rfl)))))
  · split at h
    · rename_i hbs
      split at h
      · rename_i hnext
        cases h
        rcases hnext with hnext | hnext
        · exact ⟨escape_fall hI hpk (by rw [hbs]; decide) hnext hq.plain rfl rfl rfl rfl rfl rfl rfl, hq⟩
        · exact ⟨escape_fall hI hpk (by rw [hbs]; decide) hnext (by decide) rfl rfl rfl rfl rfl rfl rfl, hq⟩
      · cases h; exact stay _ _ rfl rfl rfl rfl rfl rfl rfl (by first | exact hq | exact Or.inl rfl | exact Or.inr (Or.inl rfl) | (rename_i hcq; rcases hcq with e | e <;> (subst e; first | exact Or.inr (Or.inl rfl) | exact Or.inr (Or.inr rfl))))
    · split at h
      · cases h; exact stay _ _ rfl rfl rfl rfl rfl rfl rfl (by first | exact hq | exact Or.inl rfl | exact Or.inr (Or.inl rfl) | (rename_i hcq; rcases hcq with e | e <;> (subst e; first | exact Or.inr (Or.inl rfl) | exact Or.inr (Or.inr rfl))))
      · split at h
        · cases he : endStyleAt E F st lp c with
          | error f => rw [he] at h; cases h
          | ok b =>
            rw [he] at h
            simp only [bind_ok] at h
            cases b with
            | true =>
              simp only [if_true, pure_eq_ok] at h
              cases h
              exact ⟨endStyle_fall hI he rfl rfl rfl rfl rfl rfl rfl, by first | exact hq | exact Or.inl rfl⟩
            | false =>
              simp only [Bool.false_eq_true, if_false, pure_eq_ok] at h
              cases h; exact stay _ _ rfl rfl rfl rfl rfl rfl rfl (by first | exact hq | exact Or.inl rfl | exact Or.inr (Or.inl rfl) | (rename_i hcq; rcases hcq with e | e <;> (subst e; first | exact Or.inr (Or.inl rfl) | exact Or.inr (Or.inr rfl))))
        · cases h; exact stay _ _ rfl rfl rfl rfl rfl rfl rfl (by first | exact hq | exact Or.inl rfl | exact Or.inr (Or.inl rfl) | (rename_i hcq; rcases hcq with e | e <;> (subst e; first | exact Or.inr (Or.inl rfl) | exact Or.inr (Or.inr rfl))))

theorem caseJSString_pos {E : Env} {F : Fixed} {st : St} {lp : Loop} {c : UInt8} {o : CaseOut} (back : Nat) (q : UInt8)
    (hI : PInv E st lp) (hpk : peek E st lp.p = some c) (hq : QuoteOK lp.quote) (hq2 : plainByte q = true)
    (h : caseJSString E F st lp c back q = .ok o) : CasePos E c o := by
  unfold caseJSString at h
  have stay : ∀ (s : St) (l : Loop), s.base = st.base → s.toks = st.toks → s.line = st.line → s.col = st.col →
      l.p = lp.p → l.lin = lp.lin → l.tcol = lp.tcol → QuoteOK l.quote → CasePos E c (.fall s l) :=
    fun s l a b c' d e f g hq' => ⟨fallPos_stay hI hpk a b c' d e f g, hq'⟩
  split at h
  · rename_i hbs
    split at h
    · rename_i hnext
      cases h
      rcases hnext with hnext | hnext
      · exact ⟨escape_fall hI hpk (by rw [hbs]; decide) hnext hq2 rfl rfl rfl rfl rfl rfl rfl, hq⟩
      · exact ⟨escape_fall hI hpk (by rw [hbs]; decide) hnext (by decide) rfl rfl rfl rfl rfl rfl rfl, hq⟩
    · cases h; exact stay _ _ rfl rfl rfl rfl rfl rfl rfl (by first | exact hq | exact Or.inl rfl | exact Or.inr (Or.inl rfl) | (rename_i hcq; rcases hcq with e | e <;> (subst e; first | exact Or.inr (Or.inl rfl) | exact Or.inr (Or.inr rfl))))
  · split at h
    · cases h; exact stay _ _ rfl rfl rfl rfl rfl rfl rfl (by first | exact hq | exact Or.inl rfl | exact Or.inr (Or.inl rfl) | (rename_i hcq; rcases hcq with e | e <;> (subst e; first | exact Or.inr (Or.inl rfl) | exact Or.inr (Or.inr rfl))))
    · split at h
      · cases he : endScriptAt E F st lp c with
        | error f => rw [he] at h; cases h
        | ok b =>
          rw [he] at h
          simp only [bind_ok] at h
          cases b with
          | true =>
            simp only [if_true, pure_eq_ok] at h
            cases h
            exact ⟨endScript_fall hI he rfl rfl rfl rfl rfl rfl rfl, by first | exact hq | exact Or.inl rfl⟩
          | false =>
            simp only [Bool.false_eq_true, if_false, pure_eq_ok] at h
            cases h; exact stay _ _ rfl rfl rfl rfl rfl rfl rfl (by first | exact hq | exact Or.inl rfl | exact Or.inr (Or.inl rfl) | (rename_i hcq; rcases hcq with e | e <;> (subst e; first | exact Or.inr (Or.inl rfl) | exact Or.inr (Or.inr rfl))))
      · cases h; exact stay _ _ rfl rfl rfl rfl rfl rfl rfl (by first | exact hq | exact Or.inl rfl | exact Or.inr (Or.inl rfl) | (rename_i hcq; rcases hcq with e | e <;> (subst e; first | exact Or.inr (Or.inl rfl) | exact Or.inr (Or.inr rfl))))

theorem caseJSON_pos {E : Env} {F : Fixed} {st : St} {lp : Loop} {c : UInt8} {o : CaseOut}
    (hI : PInv E st lp) (hpk : peek E st lp.p = some c) (hq : QuoteOK lp.quote) (h : caseJSON E F st lp c = .ok o) : CasePos E c o := by
  unfold caseJSON at h
  have stay : ∀ (s : St) (l : Loop), s.base = st.base → s.toks = st.toks → s.line = st.line → s.col = st.col →
      l.p = lp.p → l.lin = lp.lin → l.tcol = lp.tcol → QuoteOK l.quote → CasePos E c (.fall s l) :=
    fun s l a b c' d e f g hq' => ⟨fallPos_stay hI hpk a b c' d e f g, hq'⟩
  cases he : endScriptAt E F st lp c with
  | error f => rw [he] at h; cases h
  | ok b =>
    rw [he] at h
    simp only [bind_ok] at h
    cases b with
    | true =>
      simp only [if_true, pure_eq_ok] at h
      cases h
      exact ⟨endScript_fall hI he rfl rfl rfl rfl rfl rfl rfl, by first | exact hq | exact Or.inl rfl⟩
    | false =>
      simp only [Bool.false_eq_true, if_false] at h
      split at h <;> (cases h; exact stay _ _ rfl rfl rfl rfl rfl rfl rfl (by first | exact hq | exact Or.inl rfl | exact Or.inr (Or.inl rfl) | (rename_i hcq; rcases hcq with e | e <;> (subst e; first | exact Or.inr (Or.inl rfl) | exact Or.inr (Or.inr rfl)))))

theorem caseJS_pos {E : Env} {F : Fixed} {st : St} {lp : Loop} {c : UInt8} {o : CaseOut}
    (hI : PInv E st lp) (hpk : peek E st lp.p = some c) (hq : QuoteOK lp.quote) (h : caseJS E F st lp c = .ok o) : CasePos E c o := by
  unfold caseJS at h
  have stay : ∀ (s : St) (l : Loop), s.base = st.base → s.toks = st.toks → s.line = st.line → s.col = st.col →
      l.p = lp.p → l.lin = lp.lin → l.tcol = lp.tcol → QuoteOK l.quote → CasePos E c (.fall s l) :=
    fun s l a b c' d e f g hq' => ⟨fallPos_stay hI hpk a b c' d e f g, hq'⟩
  cases he : endScriptAt E F st lp c with
  | error f => rw [he] at h; cases h
  | ok b =>
    rw [he] at h
    simp only [bind_ok] at h
    cases b with
    | true =>
      simp only [if_true, pure_eq_ok] at h
      cases h
      exact ⟨endScript_fall hI he rfl rfl rfl rfl rfl rfl rfl, by first | exact hq | exact Or.inl rfl⟩
    | false =>
      simp only [Bool.false_eq_true, if_false] at h
      split at h
      · split at h <;> (cases h; exact stay _ _ rfl rfl rfl rfl rfl rfl rfl (by first | exact hq | exact Or.inl rfl | exact Or.inr (Or.inl rfl) | (rename_i hcq; rcases hcq with e | e <;> (subst e; first | exact Or.inr (Or.inl rfl) | exact Or.inr (Or.inr rfl)))))
      · split at h
        · split at h
          · rename_i hstar
            cases h
            have hn : peek E st (lp.p + 1) = some 0x2f := by
              have := hstar.2; unfold peekIs at this; simpa using this
            exact ⟨escape_fall hI hpk (by rw [hstar.1]; decide) hn (by decide) rfl rfl rfl rfl rfl rfl rfl, hq⟩
          · cases h; exact stay _ _ rfl rfl rfl rfl rfl rfl rfl (by first | exact hq | exact Or.inl rfl | exact Or.inr (Or.inl rfl) | (rename_i hcq; rcases hcq with e | e <;> (subst e; first | exact Or.inr (Or.inl rfl) | exact Or.inr (Or.inr rfl))))
        · split at h
          · rename_i hsl
            split at h
            · rename_i hn
              cases h
              exact ⟨escape_fall hI hpk (by rw [hsl.1]; decide) hn (by decide) rfl rfl rfl rfl rfl rfl rfl, hq⟩
            · rename_i hn
              cases h
              exact ⟨escape_fall hI hpk (by rw [hsl.1]; decide) hn (by decide) rfl rfl rfl rfl rfl rfl rfl, hq⟩
            · cases h; exact stay _ _ rfl rfl rfl rfl rfl rfl rfl (by first | exact hq | exact Or.inl rfl | exact Or.inr (Or.inl rfl) | (rename_i hcq; rcases hcq with e | e <;> (subst e; first | exact Or.inr (Or.inl rfl) | exact Or.inr (Or.inr rfl))))
          · split at h <;> (cases h; exact stay _ _ rfl rfl rfl rfl rfl rfl rfl (by first | exact hq | exact Or.inl rfl | exact Or.inr (Or.inl rfl) | (rename_i hcq; rcases hcq with e | e <;> (subst e; first | exact Or.inr (Or.inl rfl) | exact Or.inr (Or.inr rfl)))))

end ScriggoV.Lexer
