import ScriggoV.Spec.Runes
/-! Facts about Go's splitting of a byte string into runes (`Spec/Runes.lean`): widths are
between 1 and the length, the chunks concatenate to the string, and — the one that matters for
`Abbreviate` — an ASCII byte always starts a new rune, so splitting commutes with `++` in front
of an ASCII byte. -/
namespace ScriggoV.Runes

def IsAscii (c : UInt8) : Prop := c.toNat < 0x80

/-- `b` is empty or starts with an ASCII byte -/
def AsciiHead (b : Bytes) : Prop := b = [] ∨ ∃ x b', b = x :: b' ∧ IsAscii x

theorem second_ge (x y : Nat) (h : second x y = true) : 0x80 ≤ y := by
  unfold second at h
  simp only [Bool.and_eq_true, decide_eq_true_eq] at h
  have := h.1
  split at this
  · omega
  · split at this <;> omega

theorem size_ascii (x : Nat) (h : x < 0x80) : size x = 1 := by
  unfold size; simp; omega

theorem runeWidth_pos : ∀ (s : Bytes), s ≠ [] → 1 ≤ runeWidth s
  | [], h => absurd rfl h
  | [_], _ => by simp [runeWidth]
  | b0 :: b1 :: rest, _ => by
    simp only [runeWidth]
    repeat' split
    all_goals omega

theorem runeWidth_le : ∀ (s : Bytes), runeWidth s ≤ s.length
  | [] => by simp [runeWidth]
  | [_] => by simp [runeWidth]
  | b0 :: b1 :: rest => by
    simp only [runeWidth]
    repeat' split
    all_goals simp only [List.length_cons, List.length_nil]
    all_goals omega

theorem runeWidth_ascii (c : UInt8) (rest : Bytes) (h : IsAscii c) : runeWidth (c :: rest) = 1 := by
  cases rest with
  | nil => rfl
  | cons b1 r => simp [runeWidth, size_ascii _ h]

theorem isCont_not_ascii (x : UInt8) (h : IsAscii x) : isCont x = false := by
  unfold isCont IsAscii at *
  simp; omega

theorem second_not_ascii (x0 : Nat) (x : UInt8) (h : IsAscii x) : second x0 x.toNat = false := by
  cases hs : second x0 x.toNat
  · rfl
  · have := second_ge _ _ hs
    unfold IsAscii at h; omega

/-- the width of the first rune does not depend on what follows an ASCII byte (or the end) -/
theorem runeWidth_append (a b : Bytes) (ha : a ≠ []) (hb : AsciiHead b) :
    runeWidth (a ++ b) = runeWidth a := by
  rcases hb with rfl | ⟨x, b', rfl, hx⟩
  · simp
  · match a, ha with
    | [b0], _ =>
      show runeWidth (b0 :: x :: b') = 1
      simp [runeWidth, second_not_ascii _ x hx]
    | [b0, b1], _ =>
      show runeWidth (b0 :: b1 :: x :: b') = runeWidth [b0, b1]
      simp only [runeWidth, isCont_not_ascii x hx]
      repeat' split
      all_goals first | rfl | simp_all
    | [b0, b1, b2], _ =>
      show runeWidth (b0 :: b1 :: b2 :: x :: b') = runeWidth [b0, b1, b2]
      simp only [runeWidth, isCont_not_ascii x hx]
      repeat' split
      all_goals first | rfl | simp_all
    | b0 :: b1 :: b2 :: b3 :: r, _ =>
      show runeWidth (b0 :: b1 :: b2 :: b3 :: (r ++ x :: b')) = runeWidth (b0 :: b1 :: b2 :: b3 :: r)
      simp only [runeWidth]

/-! ### `runes`: unfolding independent of the fuel -/

theorem runesAux_fuel : ∀ (f g : Nat) (s : Bytes), s.length ≤ f → s.length ≤ g →
    runesAux f s = runesAux g s := by
  intro f
  induction f with
  | zero =>
    intro g s hf _
    have : s = [] := List.eq_nil_of_length_eq_zero (by omega)
    subst this
    cases g <;> rfl
  | succ f ih =>
    intro g s hf hg
    cases s with
    | nil => cases g <;> rfl
    | cons c cs =>
      cases g with
      | zero => simp at hg
      | succ g =>
        simp only [runesAux]
        have hp := runeWidth_pos (c :: cs) (by simp)
        have hl : ((c :: cs).drop (runeWidth (c :: cs))).length ≤ cs.length := by
          simp only [List.length_drop, List.length_cons]; omega
        simp only [List.length_cons] at hf hg
        rw [ih g _ (by omega) (by omega)]

theorem runes_nil : runes [] = [] := rfl

theorem runes_cons (s : Bytes) (h : s ≠ []) :
    runes s = s.take (runeWidth s) :: runes (s.drop (runeWidth s)) := by
  cases s with
  | nil => exact absurd rfl h
  | cons c cs =>
    unfold runes
    simp only [List.length_cons, runesAux]
    have hp := runeWidth_pos (c :: cs) (by simp)
    congr 1
    apply runesAux_fuel
    · simp only [List.length_drop, List.length_cons]; omega
    · exact Nat.le_refl _

theorem runes_ascii_cons (c : UInt8) (rest : Bytes) (h : IsAscii c) :
    runes (c :: rest) = [c] :: runes rest := by
  rw [runes_cons _ (by simp), runeWidth_ascii c rest h]
  simp

/-- strong induction on the length, the shape every proof about `runes` uses -/
theorem runes_induction {P : Bytes → Prop} (nil : P [])
    (step : ∀ s, s ≠ [] → P (s.drop (runeWidth s)) → P s) : ∀ s, P s := by
  intro s
  generalize hn : s.length = n
  induction n using Nat.strongRecOn generalizing s with
  | _ n ih =>
    cases s with
    | nil => exact nil
    | cons c cs =>
      apply step _ (by simp)
      have hp := runeWidth_pos (c :: cs) (by simp)
      exact ih ((c :: cs).drop (runeWidth (c :: cs))).length
        (by rw [← hn]; simp only [List.length_drop, List.length_cons]; omega) _ rfl

theorem runes_flatten (s : Bytes) : (runes s).flatten = s := by
  induction s using runes_induction with
  | nil => rfl
  | step s h ih =>
    rw [runes_cons s h, List.flatten_cons, ih, List.take_append_drop]

theorem runes_ne_nil (s : Bytes) : ∀ r ∈ runes s, r ≠ [] := by
  induction s using runes_induction with
  | nil => intro r hr; simp [runes_nil] at hr
  | step s h ih =>
    intro r hr
    rw [runes_cons s h, List.mem_cons] at hr
    rcases hr with rfl | hr
    · have hp := runeWidth_pos s h
      have hl := runeWidth_le s
      have hs : 0 < s.length := List.length_pos_iff.mpr h
      intro he
      have := congrArg List.length he
      simp only [List.length_take, List.length_nil] at this
      omega
    · exact ih r hr

theorem runeCount_le_length (s : Bytes) : runeCount s ≤ s.length := by
  unfold runeCount
  induction s using runes_induction with
  | nil => simp [runes_nil]
  | step s h ih =>
    rw [runes_cons s h, List.length_cons]
    have hp := runeWidth_pos s h
    have hl := runeWidth_le s
    simp only [List.length_drop] at ih
    omega

/-- **splitting commutes with `++` in front of an ASCII byte** -/
theorem runes_append (a b : Bytes) (hb : AsciiHead b) : runes (a ++ b) = runes a ++ runes b := by
  induction a using runes_induction with
  | nil => simp [runes_nil]
  | step a h ih =>
    have hne : a ++ b ≠ [] := by simp [h]
    rw [runes_cons (a ++ b) hne, runes_cons a h, runeWidth_append a b h hb]
    have hl := runeWidth_le a
    rw [List.take_append_of_le_length hl, List.drop_append_of_le_length hl, ih]
    simp

theorem runeCount_append (a b : Bytes) (hb : AsciiHead b) :
    runeCount (a ++ b) = runeCount a + runeCount b := by
  simp [runeCount, runes_append a b hb]

theorem runeCount_ascii_cons (c : UInt8) (rest : Bytes) (h : IsAscii c) :
    runeCount (c :: rest) = 1 + runeCount rest := by
  simp [runeCount, runes_ascii_cons c rest h]; omega

end ScriggoV.Runes
