import ScriggoV.Model.Paths
/-! More fuel never changes an answer that was reached without running out of fuel (C18). -/
namespace ScriggoV.Paths

/-- `pnf'` agrees with `pnf` wherever `pnf` does not run out of fuel -/
def Extends (pnf pnf' : St → Ref → Res) : Prop :=
  ∀ st r, (pnf st r).2 ≠ .error .outOfFuel → pnf' st r = pnf st r

theorem expandOne_congr {pnf pnf' : St → Ref → Res} (h : Extends pnf pnf') (paths : List Bytes)
    (st : St) (r : Ref) (hne : (expandOne pnf paths st r).2 ≠ .error .outOfFuel) :
    expandOne pnf' paths st r = expandOne pnf paths st r := by
  unfold expandOne at hne ⊢
  cases hh : paths.head? with
  | none => rfl
  | some parent =>
    rw [hh] at hne
    simp only at hne ⊢
    cases hk : r.kind with
    | ext =>
      rw [hk] at hne
      simp only at hne ⊢
      by_cases hce : st.canExtend = true
      · simp only [hce, Bool.not_true, Bool.false_eq_true, if_false] at hne ⊢
        have hx : (pnf st r).2 ≠ .error .outOfFuel := by
          intro hc
          apply hne
          rcases hp : pnf st r with ⟨s1, r1⟩
          rw [hp] at hc
          simp only at hc
          subst hc
          rfl
        rw [h st r hx]
      · have : st.canExtend = false := by simpa using hce
        simp [this]
    | imp =>
      rw [hk] at hne
      simp only at hne ⊢
      have hx : (pnf { st with canExtend := false } r).2 ≠ .error .outOfFuel := by
        intro hc
        apply hne
        rcases hp : pnf { st with canExtend := false } r with ⟨s1, r1⟩
        rw [hp] at hc
        simp only at hc
        subst hc
        rfl
      rw [h _ r hx]
    | ren =>
      rw [hk] at hne
      simp only at hne ⊢
      have hx : (pnf { st with canExtend := false } r).2 ≠ .error .outOfFuel := by
        intro hc
        apply hne
        rcases hp : pnf { st with canExtend := false } r with ⟨s1, r1⟩
        rw [hp] at hc
        simp only at hc
        subst hc
        rfl
      rw [h _ r hx]

theorem expandWith_congr {pnf pnf' : St → Ref → Res} (h : Extends pnf pnf') (paths : List Bytes) :
    ∀ (refs : List Ref) (st : St), (expandWith pnf paths st refs).2 ≠ .error .outOfFuel →
      expandWith pnf' paths st refs = expandWith pnf paths st refs := by
  intro refs
  induction refs with
  | nil => intro st _; rfl
  | cons r rs ih =>
    intro st hne
    unfold expandWith at hne ⊢
    have h1 : (expandOne pnf paths st r).2 ≠ .error .outOfFuel := by
      intro hc
      apply hne
      rcases hp : expandOne pnf paths st r with ⟨s1, r1⟩
      rw [hp] at hc
      simp only at hc
      subst hc
      rfl
    rw [expandOne_congr h paths st r h1]
    rcases hp : expandOne pnf paths st r with ⟨s1, r1⟩
    rw [hp] at hne
    cases r1 with
    | error e => rfl
    | ok u =>
      cases u
      simp only at hne ⊢
      exact ih s1 hne

theorem parseSourceWith_congr (tbl : SiteTable) {pnfAt pnfAt' : List Bytes → St → Ref → Res}
    (h : ∀ paths, Extends (pnfAt paths) (pnfAt' paths)) (paths : List Bytes) (st : St)
    (name : Bytes) (refs : List Ref)
    (hne : (parseSourceWith tbl pnfAt paths st name refs).2 ≠ .error .outOfFuel) :
    parseSourceWith tbl pnfAt' paths st name refs = parseSourceWith tbl pnfAt paths st name refs := by
  unfold parseSourceWith at hne ⊢
  cases hc : checkRefs tbl refs with
  | error e => rfl
  | ok u =>
    cases u
    rw [hc] at hne
    simp only at hne ⊢
    exact expandWith_congr (h _) _ refs st hne

theorem parseNodeFile_mono (tbl : SiteTable) (fm : FileMap) : ∀ (fuel : Nat) (paths : List Bytes),
    Extends (parseNodeFile tbl fm fuel paths) (parseNodeFile tbl fm (fuel + 1) paths) := by
  intro fuel
  induction fuel with
  | zero =>
    intro paths st r hne
    exact absurd rfl hne
  | succ n ih =>
    intro paths st ref hne
    have hstep : ∀ (m : Nat), parseNodeFile tbl fm (m + 1) paths st ref =
        (match paths.head? with
        | none => (st, .error (.fault .index))
        | some parent =>
          match rooted parent ref.path with
          | .error .notExist => (st, .error .notExist)
          | .error (.fault f) => (st, .error (.fault f))
          | .ok name =>
            if paths.contains name then (st, .error (.cycle name []))
            else
              match st.trees.lookup name with
              | some cached =>
                match cacheCheck cached ref.kind with
                | .error e => (st, .error e)
                | .ok () => (st, .ok ())
              | none =>
                match fm.lookup name with
                | none => (openFile st name, .error .notExist)
                | some refs =>
                  match parseSourceWith tbl (parseNodeFile tbl fm m) paths (openFile st name) name refs with
                  | (st', .ok ()) => ({ st' with trees := (name, ref.kind) :: st'.trees }, .ok ())
                  | (st', .error e) => (st', .error e)) := by
      intro m; rfl
    rw [hstep (n + 1), hstep n]
    rw [hstep n] at hne
    cases hh : paths.head? with
    | none => rfl
    | some parent =>
      rw [hh] at hne
      simp only at hne ⊢
      cases hr : rooted parent ref.path with
      | error pe => cases pe <;> rfl
      | ok name =>
        rw [hr] at hne
        simp only at hne ⊢
        by_cases hc : paths.contains name = true
        · simp only [hc, if_true]
        · have hc' : paths.contains name = false := by simpa using hc
          simp only [hc', Bool.false_eq_true, if_false] at hne ⊢
          cases hl : st.trees.lookup name with
          | some cached => rfl
          | none =>
            rw [hl] at hne
            simp only at hne ⊢
            cases hf : fm.lookup name with
            | none => rfl
            | some refs =>
              rw [hf] at hne
              simp only at hne ⊢
              have hx : (parseSourceWith tbl (parseNodeFile tbl fm n) paths (openFile st name) name refs).2
                  ≠ .error .outOfFuel := by
                intro hc2
                apply hne
                rcases hp : parseSourceWith tbl (parseNodeFile tbl fm n) paths (openFile st name) name refs
                  with ⟨s1, r1⟩
                rw [hp] at hc2
                simp only at hc2
                subst hc2
                rfl
              rw [parseSourceWith_congr tbl (fun p => ih p) paths _ name refs hx]

/-- with any amount of fuel beyond what `n` gave, the answer is the same, provided `n` was enough -/
theorem parseNodeFile_mono_le (tbl : SiteTable) (fm : FileMap) (n : Nat) : ∀ (k : Nat) (paths : List Bytes),
    Extends (parseNodeFile tbl fm n paths) (parseNodeFile tbl fm (n + k) paths) := by
  intro k
  induction k with
  | zero => intro paths st r _; rfl
  | succ k ih =>
    intro paths st r hne
    have h1 := ih paths st r hne
    have h2 : (parseNodeFile tbl fm (n + k) paths st r).2 ≠ .error .outOfFuel := by rw [h1]; exact hne
    have := parseNodeFile_mono tbl fm (n + k) paths st r h2
    rw [← h1, ← this]
    rfl

theorem parseTemplateFuel_mono (tbl : SiteTable) (fm : FileMap) (n k : Nat) (root : Bytes)
    (hne : (parseTemplateFuel tbl fm n root).2 ≠ .error .outOfFuel) :
    parseTemplateFuel tbl fm (n + k) root = parseTemplateFuel tbl fm n root := by
  unfold parseTemplateFuel at hne ⊢
  split
  · rfl
  · rename_i hinv
    simp only [hinv, if_false, Bool.false_eq_true] at hne
    cases hf : fm.lookup root with
    | none => rfl
    | some refs =>
      rw [hf] at hne
      simp only at hne ⊢
      exact parseSourceWith_congr tbl (fun p => parseNodeFile_mono_le tbl fm n k p) [] _ root refs hne

end ScriggoV.Paths
