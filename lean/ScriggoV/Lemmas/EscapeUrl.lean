import ScriggoV.Lemmas.EscapeLoop
/-! URL query values: `queryEscape` writes unreserved bytes unchanged and every other byte as
`%XX`; one step of the percent-decoder undoes either. -/
namespace ScriggoV.Escape
open ScriggoV ScriggoV.Decode ScriggoV.Gen.EscapeTables

/-- per byte: a byte written unchanged is an RFC 3986 unreserved character (so neither `%` nor
`+`); otherwise `pctOf c` is `%` and two hex digits whose value is the byte -/
def queryFact (c : UInt8) : Bool :=
  if queryUnreserved c then c != 0x25 && c != 0x2B && isUnreserved c
  else match pctOf c with
    | [p, h1, h2] =>
      p == 0x25 &&
      (match hexDig? h1, hexDig? h2 with
       | some a, some b => a * 16 + b == c.toNat
       | _, _ => false)
    | _ => false

theorem queryFact_all : ∀ c, queryFact c = true := allBytes_spec (by decide +kernel)

theorem piece_query_unres (c : UInt8) (rest : Bytes) (h : queryUnreserved c = true) :
    piece queryBody c rest = [c] := by
  simp [piece, queryBody, h]

theorem piece_query_pct (c : UInt8) (rest : Bytes) (h : queryUnreserved c = false) :
    piece queryBody c rest = pctOf c := by
  simp [piece, queryBody, h, pctOf]

/-- shape of `pctOf c` for an escaped byte -/
theorem pctOf_shape (c : UInt8) (h : queryUnreserved c = false) :
    ∃ h1 h2 a b, pctOf c = [0x25, h1, h2] ∧ hexDig? h1 = some a ∧ hexDig? h2 = some b ∧
      a * 16 + b = c.toNat := by
  have hf := queryFact_all c
  unfold queryFact at hf
  simp only [h, Bool.false_eq_true, if_false] at hf
  generalize pctOf c = e at hf
  match e, hf with
  | [p, h1, h2], hf =>
    simp only [Bool.and_eq_true, beq_iff_eq] at hf
    obtain ⟨hp, hm⟩ := hf
    subst hp
    cases ha : hexDig? h1 with
    | none => simp [ha] at hm
    | some a =>
      cases hb : hexDig? h2 with
      | none => simp [ha, hb] at hm
      | some b =>
        simp only [ha, hb, beq_iff_eq] at hm
        exact ⟨h1, h2, a, b, rfl, ha, hb, hm⟩

theorem piece_query_ne_nil (c : UInt8) (rest : Bytes) : piece queryBody c rest ≠ [] := by
  cases h : queryUnreserved c with
  | true => rw [piece_query_unres c rest h]; simp
  | false => rw [piece_query_pct c rest h]; simp [pctOf]

theorem pctStep_piece (plus : Bool) (c : UInt8) (rest : Bytes) :
    pctStep plus (piece queryBody c rest ++ simple queryBody rest)
      = some ([c], simple queryBody rest) := by
  cases h : queryUnreserved c with
  | true =>
    rw [piece_query_unres c rest h]
    have hf := queryFact_all c
    unfold queryFact at hf
    simp only [h, if_true, Bool.and_eq_true, bne_iff_ne, ne_eq] at hf
    obtain ⟨⟨h25, h2b⟩, _⟩ := hf
    simp [pctStep, h25, h2b]
  | false =>
    rw [piece_query_pct c rest h]
    obtain ⟨h1, h2, a, b, hsh, ha, hb, hv⟩ := pctOf_shape c h
    rw [hsh]
    simp [pctStep, ha, hb, hv]

/-- `pctDecode (queryEscape s) = s`, with `+` read as a space or not -/
theorem query_decode_out (plus : Bool) (s : Bytes) :
    pctDecode plus (queryEscapeOut s) = some s := by
  unfold queryEscapeOut queryEscapeChunks pctDecode
  rw [escLoop_flatten, List.nil_append]
  have := decodeAll_simple (pctStep plus) queryBody (fun c => [c]) piece_query_ne_nil
    (pctStep_piece plus) s
  rw [this, flatMap_singleton]

/-- the output consists of unreserved characters and `%XX` only -/
theorem query_alphabet_simple (s : Bytes) : pctAlphabet (simple queryBody s) = true := by
  induction s with
  | nil => rfl
  | cons c rest ih =>
    simp only [simple]
    cases h : queryUnreserved c with
    | true =>
      rw [piece_query_unres c rest h]
      have hf := queryFact_all c
      unfold queryFact at hf
      simp only [h, if_true, Bool.and_eq_true, bne_iff_ne, ne_eq] at hf
      obtain ⟨⟨h25, _⟩, hun⟩ := hf
      unfold pctAlphabet
      simp [h25, hun, ih]
    | false =>
      rw [piece_query_pct c rest h]
      obtain ⟨h1, h2, a, b, hsh, ha, hb, _⟩ := pctOf_shape c h
      rw [hsh]
      unfold pctAlphabet
      simp [ha, hb, ih]

theorem query_alphabet_out (s : Bytes) : pctAlphabet (queryEscapeOut s) = true := by
  unfold queryEscapeOut queryEscapeChunks
  rw [escLoop_flatten, List.nil_append]
  exact query_alphabet_simple s

/-- `isHexDigit` (used by pathEscape to keep an existing `%XX`) is exactly the set of hex digits
of the percent-decoder -/
def hexDigitFact (c : UInt8) : Bool := isHexDigit c == (hexDig? c).isSome

theorem hexDigitFact_all : ∀ c, hexDigitFact c = true := allBytes_spec (by decide +kernel)

end ScriggoV.Escape
