import ScriggoV.Model.URLState
/-! Helper lemmas for the URL state machine (`Model/URLState.lean`): every checked index of
`Text` / `showInURL` succeeds on the calls the emitter can produce. -/
namespace ScriggoV.URLState

theorem getAt_ok {b : Bytes} {i : Nat} (h : i < b.length) : ∃ c, getAt b i = .ok c := by
  unfold getAt
  rw [List.getElem?_eq_getElem h]
  exact ⟨_, rfl⟩

theorem lastByte_ok {s : Bytes} (h : s.length ≠ 0) : ∃ c, lastByte s = .ok c := by
  unfold lastByte
  rw [if_neg h]
  exact getAt_ok (by omega)

theorem length_ne_zero_of_contains {s : Bytes} {c : UInt8} (h : s.contains c = true) :
    s.length ≠ 0 := by
  cases s with
  | nil => simp at h
  | cons _ _ => simp

/-- the query branch of `Text` on a non-empty text -/
theorem textQuery_ok (r : State) (txt : Bytes) (h : txt.length ≠ 0) :
    ∃ x, textQuery r txt = .ok x := by
  unfold textQuery
  by_cases hq : r.removeQuestionMark = true
  · obtain ⟨c, hc⟩ := getAt_ok (b := txt) (i := 0) (by omega)
    simp only [hq, if_true, hc]
    exact ⟨_, rfl⟩
  · simp only [hq]
    exact ⟨_, rfl⟩

theorem text_ok (r : State) (txt : Bytes) (inURL isSet : Bool) (h : txt.length ≠ 0) :
    ∃ x, text r txt inURL isSet = .ok x := by
  unfold text
  simp only
  split
  · split
    · exact ⟨_, rfl⟩
    · split
      · exact textQuery_ok _ _ h
      · exact ⟨_, rfl⟩
  · exact ⟨_, rfl⟩

theorem showInURL_ok (r : State) (s : Bytes) (quoted : Bool) :
    ∃ x, showInURL r s quoted = .ok x := by
  unfold showInURL
  split
  · split
    · unfold showRemoveQ
      split
      · rename_i hl
        obtain ⟨c, hc⟩ := lastByte_ok (s := s) (by omega)
        simp only [hc]
        exact ⟨_, rfl⟩
      · exact ⟨_, rfl⟩
    · exact ⟨_, rfl⟩
  · split
    · rename_i hc
      unfold showStartQuery
      obtain ⟨c, hc'⟩ := lastByte_ok (length_ne_zero_of_contains hc)
      simp only [hc']
      exact ⟨_, rfl⟩
    · exact ⟨_, rfl⟩

theorem step_ok (r : State) (c : Call) (h : c.wellFormed = true) : ∃ x, step r c = .ok x := by
  cases c with
  | text txt inURL isSet =>
    simp only [Call.wellFormed, Bool.not_eq_true', List.isEmpty_eq_false_iff] at h
    exact text_ok r txt inURL isSet (by
      intro h0
      exact h (List.eq_nil_of_length_eq_zero h0))
  | «show» s inURL quoted =>
    simp only [step]
    split
    · exact showInURL_ok _ _ _
    · exact ⟨_, rfl⟩
  | showErr inURL => exact ⟨_, rfl⟩

theorem runFrom_ok : ∀ (calls : List Call) (r : State), (∀ c ∈ calls, c.wellFormed = true) →
    ∃ x, runFrom r calls = .ok x := by
  intro calls
  induction calls with
  | nil => intro r _; exact ⟨_, rfl⟩
  | cons c cs ih =>
    intro r h
    obtain ⟨⟨r1, o1⟩, h1⟩ := step_ok r c (h c (List.mem_cons_self))
    obtain ⟨⟨r2, o2⟩, h2⟩ := ih r1 (fun x hx => h x (List.mem_cons_of_mem _ hx))
    refine ⟨(r2, o1 ++ o2), ?_⟩
    simp only [runFrom, h1, h2, bind, Except.bind, pure, Except.pure]

end ScriggoV.URLState
