import ScriggoV.Lemmas.TypeCheckExpr
import ScriggoV.Lemmas.TypeCheckConst
/-! Lemmas for C03: soundness of expression evaluation by induction on the expression. -/
namespace ScriggoV.TypeCheck

variable {F : Type} (fs : FloatSem F)

theorem lookup_sound {Γ : Env} {ρ : DEnv F} (he : EnvOK Γ ρ) {x : Nat} {ent : Entry}
    (h : lookup Γ x = some ent) :
    ∃ v, dlookup ρ x = some (ent.isConst, v) ∧ ValOK ent.operand v := by
  induction Γ generalizing ρ with
  | nil => simp [lookup] at h
  | cons hd tl ih =>
    obtain ⟨y, e⟩ := hd
    cases ρ with
    | nil => simp [EnvOK] at he
    | cons hd' tl' =>
      obtain ⟨y', c, v⟩ := hd'
      simp only [EnvOK] at he
      obtain ⟨rfl, rfl, hv, he'⟩ := he
      simp only [lookup] at h
      simp only [dlookup]
      by_cases hxy : x = y
      · simp only [hxy, if_true] at h ⊢
        injection h with h; subst h
        exact ⟨v, rfl, hv⟩
      · simp only [hxy, if_false] at h ⊢
        exact ih he' h

theorem val_none_of_isSome_false {o : Operand} (h : o.val.isSome = false) : o.val = none := by
  cases hv : o.val <;> simp_all

theorem isConst_sound {Γ : Env} {ρ : DEnv F} (he : EnvOK Γ ρ) (e : Expr) {o : Operand}
    (h : checkExpr Γ e = .ok o) : isConstExpr ρ e = o.val.isSome := by
  induction e generalizing o with
  | intLit n => simp [checkExpr] at h; subst h; rfl
  | floatLit q => simp [checkExpr] at h; subst h; rfl
  | runeLit n => simp [checkExpr] at h; subst h; rfl
  | strLit s => simp [checkExpr] at h; subst h; rfl
  | boolLit b => simp [checkExpr] at h; subst h; rfl
  | nilLit => simp [checkExpr] at h; subst h; rfl
  | ident x =>
    simp only [checkExpr] at h
    cases hl : lookup Γ x with
    | none => simp [hl] at h
    | some ent =>
      simp only [hl] at h
      injection h with h; subst h
      obtain ⟨v, hd, _⟩ := lookup_sound he hl
      simp only [isConstExpr, hd]
      cases ent <;> rfl
  | unary op e ih =>
    simp only [checkExpr] at h
    obtain ⟨x, hx, hu⟩ := (bind_ok_iff _ _ _).1 h
    simp only [isConstExpr, ih hx, checkUnary_const hu]
  | binary op a b iha ihb =>
    simp only [checkExpr] at h
    obtain ⟨x, hx, h⟩ := (bind_ok_iff _ _ _).1 h
    obtain ⟨y, hy, hb⟩ := (bind_ok_iff _ _ _).1 h
    simp only [isConstExpr, iha hx, ihb hy, checkBinary_const hb]
  | conv t e ih =>
    simp only [checkExpr] at h
    obtain ⟨x, hx, hc⟩ := (bind_ok_iff _ _ _).1 h
    simp only [isConstExpr, ih hx, checkConv_const hc]

theorem checkUnary_not_nil {op : UnOp} {x z : Operand} (h : checkUnary op x = .ok z) : x.ty ≠ .nil := by
  unfold checkUnary at h
  simp only [ite_error_left] at h
  exact h.1

theorem checkBinary_not_nil {op : BinOp} {x y z : Operand} (h : checkBinary op x y = .ok z) :
    x.ty ≠ .nil ∧ y.ty ≠ .nil := by
  unfold checkBinary at h
  have key : ∀ {x' y' : Operand}, matchTypes x y = .ok (x', y') → x.ty ≠ .nil ∧ y.ty ≠ .nil := by
    intro x' y' hm
    unfold matchTypes at hm
    simp only [ite_error_left] at hm
    exact not_or.1 hm.1
  cases hcls : op.cls <;> simp only [hcls] at h
  · obtain ⟨⟨x', y'⟩, hm, _⟩ := (bind_ok_iff _ _ _).1 h; exact key hm
  · simp only [checkShift, ite_error_left] at h
    exact not_or.1 h.1
  · obtain ⟨⟨x', y'⟩, hm, _⟩ := (bind_ok_iff _ _ _).1 h; exact key hm
  · obtain ⟨⟨x', y'⟩, hm, _⟩ := (bind_ok_iff _ _ _).1 h; exact key hm

theorem checkConv_not_nil {t : BType} {x z : Operand} (h : checkConv t x = .ok z) : x.ty ≠ .nil := by
  intro hn
  obtain ⟨ty, val⟩ := x
  simp only at hn; subst hn
  cases val <;> simp [checkConv] at h

/-- **type soundness of expressions** (functional form) -/
theorem checkExpr_sound {Γ : Env} {ρ : DEnv F} (he : EnvOK Γ ρ) (e : Expr) {o : Operand}
    (h : checkExpr Γ e = .ok o) (hnil : o.ty ≠ .nil) : ResultOK o (eval fs ρ e) := by
  induction e generalizing o with
  | intLit n => simp [checkExpr] at h; subst h; simp [eval, ResultOK, ValOK, constValue]
  | floatLit q => simp [checkExpr] at h; subst h; simp [eval, ResultOK, ValOK, constValue]
  | runeLit n => simp [checkExpr] at h; subst h; simp [eval, ResultOK, ValOK, constValue]
  | strLit s => simp [checkExpr] at h; subst h; simp [eval, ResultOK, ValOK, constValue]
  | boolLit b => simp [checkExpr] at h; subst h; simp [eval, ResultOK, ValOK, constValue]
  | nilLit =>
    -- `nil` has no value; it cannot be evaluated, but no accepted expression *is* nil at the top:
    -- its operand promises nothing (`ValOK` is `False`), which is what every consumer rejects
    simp [checkExpr] at h; subst h; exact (hnil rfl).elim
  | ident x =>
    simp only [checkExpr] at h
    cases hl : lookup Γ x with
    | none => simp [hl] at h
    | some ent =>
      simp only [hl] at h
      injection h with h; subst h
      obtain ⟨v, hd, hv⟩ := lookup_sound he hl
      simp only [eval, hd, ResultOK]
      exact hv
  | unary op e ih =>
    simp only [checkExpr] at h
    obtain ⟨x, hx, hu⟩ := (bind_ok_iff _ _ _).1 h
    have ihx := ih hx (checkUnary_not_nil hu)
    simp only [eval]
    cases hr : eval fs ρ e with
    | ok v => rw [hr] at ihx; simp only [Res.bind_ok]; exact unary_sound fs op x o v hu ihx
    | panic p =>
      rw [hr] at ihx
      simp only [Res.bind_panic, ResultOK] at ihx ⊢
      exact val_none_of_isSome_false (by rw [checkUnary_const hu, ihx]; rfl)
    | stuck => rw [hr] at ihx; exact ihx.elim
  | binary op a b iha ihb =>
    simp only [checkExpr] at h
    obtain ⟨x, hx, h⟩ := (bind_ok_iff _ _ _).1 h
    obtain ⟨y, hy, hb⟩ := (bind_ok_iff _ _ _).1 h
    have ihx := iha hx (checkBinary_not_nil hb).1
    have ihy := ihb hy (checkBinary_not_nil hb).2
    simp only [eval]
    cases hra : eval fs ρ a with
    | ok v =>
      rw [hra] at ihx
      simp only [Res.bind_ok]
      cases hrb : eval fs ρ b with
      | ok w => rw [hrb] at ihy; simp only [Res.bind_ok]; exact binary_sound fs op x y o v w hb ihx ihy
      | panic p =>
        rw [hrb] at ihy
        simp only [Res.bind_panic, ResultOK] at ihy ⊢
        exact val_none_of_isSome_false (by rw [checkBinary_const hb, ihy]; simp)
      | stuck => rw [hrb] at ihy; exact ihy.elim
    | panic p =>
      rw [hra] at ihx
      simp only [Res.bind_panic, ResultOK] at ihx ⊢
      exact val_none_of_isSome_false (by rw [checkBinary_const hb, ihx]; simp)
    | stuck => rw [hra] at ihx; exact ihx.elim
  | conv t e ih =>
    simp only [checkExpr] at h
    obtain ⟨x, hx, hc⟩ := (bind_ok_iff _ _ _).1 h
    have ihx := ih hx (checkConv_not_nil hc)
    simp only [eval]
    cases hr : eval fs ρ e with
    | ok v =>
      rw [hr] at ihx; simp only [Res.bind_ok]
      exact conv_sound fs t x o v _ (isConst_sound he e hx) hc ihx
    | panic p =>
      rw [hr] at ihx
      simp only [Res.bind_panic, ResultOK] at ihx ⊢
      exact val_none_of_isSome_false (by rw [checkConv_const hc, ihx]; rfl)
    | stuck => rw [hr] at ihx; exact ihx.elim

end ScriggoV.TypeCheck
