import ScriggoV.Lemmas.Lexer.Number
/-! Lemmas about the lexer model (see Lemmas/Lexer/*.lean). -/
