import ScriggoV.Lemmas.TypeCheck
/-! Lemmas for C03, second part: shifts, conversions, the binary dispatcher, expressions. -/
namespace ScriggoV.TypeCheck

variable {F : Type} (fs : FloatSem F)

theorem shiftResult_sound (left : Bool) (x z : Operand) (v : Val F) (cnt : Option Int)
    (h : shiftResult left x (x.val.bind CVal.toInt?) cnt = .ok z) (hv : VOK x v)
    (hx : (x.ty.isInteger || (!x.ty.isTyped && (x.val.bind CVal.toInt?).isSome)) = true)
    (r : Res Nat)
    (hs : ∀ s, cnt = some s → 0 ≤ s ∧ r = .ok s.toNat)
    (hn : cnt = none → (∃ n, r = Res.ok n) ∨ r = .panic .negShift) :
    ResultOK z (shiftWith left v r) := by
  cases cnt with
  | none =>
    have hn := hn rfl
    cases hv <;> simp [shiftResult, Ty.isInteger, Ty.isTyped, CVal.toInt?, shiftWith] at h hx ⊢
    all_goals (
      subst h
      rcases hn with ⟨n, rfl⟩ | rfl <;> simp [ResultOK, ValOK, HasType, wrap_inRange])
  | some s =>
    obtain ⟨h0, rfl⟩ := hs s rfl
    cases hv <;> simp [shiftResult, Ty.isInteger, Ty.isTyped, CVal.toInt?, shiftBound, shiftWith] at h hx ⊢
    case ufloatC q =>
      simp [hx] at h ⊢
      obtain ⟨_, _, rfl⟩ := h
      simp [ResultOK, ValOK, constValue]
    all_goals (
      revert h
      try simp only [and_imp, forall_exists_index]
      intros
      subst_vars
      simp_all [ResultOK, ValOK, constValue, HasType, wrap_id, wrap_inRange])

theorem shift_sound (left : Bool) (op : BinOp) (hop : left = decide (op = .shl)) (x y z : Operand) (v w : Val F)
    (h : checkShift op x y = .ok z) (hv : VOK x v) (hw : VOK y w) :
    ResultOK z (evalShift left v w) := by
  subst hop
  simp only [checkShift] at h
  split at h
  · cases h
  · split at h
    · cases h
    · rename_i hx
      obtain ⟨cnt, hc, hr⟩ := (bind_ok_iff _ _ _).1 h
      have ⟨h1, h2⟩ := shiftCountOf_sound y cnt w hc hw
      have hx' : (x.ty.isInteger || (!x.ty.isTyped && (x.val.bind CVal.toInt?).isSome)) = true := by
        revert hx
        cases (x.ty.isInteger || (!x.ty.isTyped && (x.val.bind CVal.toInt?).isSome)) <;> simp
      exact shiftResult_sound _ x z v cnt hr hv hx' _ h1 h2

theorem binary_sound (op : BinOp) (x y z : Operand) (v w : Val F)
    (h : checkBinary op x y = .ok z) (hv : ValOK x v) (hw : ValOK y w) :
    ResultOK z (evalBinary fs op v w) := by
  have hv := vok_of_valOK hv
  have hw := vok_of_valOK hw
  unfold checkBinary at h
  unfold evalBinary
  cases hcls : op.cls <;> simp only [hcls] at h ⊢
  · -- arith
    obtain ⟨⟨x', y'⟩, hm, hc⟩ := (bind_ok_iff _ _ _).1 h
    obtain ⟨v', w', hmv, hv', hw'⟩ := matchTypes_sound x y x' y' v w hm hv hw
    simp only [hmv]
    exact arith_sound fs op x' y' z v' w' hc hv' hw'
  · exact shift_sound _ op rfl x y z v w h hv hw
  · obtain ⟨⟨x', y'⟩, hm, hc⟩ := (bind_ok_iff _ _ _).1 h
    obtain ⟨v', w', hmv, hv', hw'⟩ := matchTypes_sound x y x' y' v w hm hv hw
    simp only [hmv]
    exact cmp_sound fs op x' y' z v' w' hc hv' hw'
  · obtain ⟨⟨x', y'⟩, hm, hc⟩ := (bind_ok_iff _ _ _).1 h
    obtain ⟨v', w', hmv, hv', hw'⟩ := matchTypes_sound x y x' y' v w hm hv hw
    simp only [hmv]
    exact arith_sound fs op x' y' z v' w' hc hv' hw'

theorem convConst_ok {ty : Ty} {c : CVal} {t : BType} {v : CVal} (h : convConst ty c t = .ok v) :
    representable c t true = .ok v ∨
      (t = .string ∧ ∃ n, c = .int n ∧ ty.isInteger = true ∧ v = .str (codePointString n)) := by
  unfold convConst at h
  cases hr : representable c t true with
  | ok w => rw [hr] at h; simp only at h; left; rw [h]
  | error e =>
    rw [hr] at h
    right
    cases e <;> cases t <;> cases c <;> simp only [ite_error_right, reduceCtorEq] at h
    all_goals (
      obtain ⟨hi, hv⟩ := h
      injection hv with hv
      exact ⟨rfl, _, rfl, hi, hv.symm⟩)

theorem conv_sound (t : BType) (x z : Operand) (v : Val F) (c : Bool) (hc : c = x.val.isSome)
    (h : checkConv t x = .ok z) (hv : ValOK x v) : ResultOK z (evalConv fs c t v) := by
  have hv := vok_of_valOK hv
  subst hc
  cases hv <;>
    simp only [checkConv, bind_ok_iff, pure_ok_iff, ite_error_right] at h
  all_goals first
    | (obtain ⟨w, hw, rfl⟩ := h
       rcases convConst_ok hw with hr | ⟨rfl, n, hn, hi, rfl⟩
       · cases t <;> simp at hr <;>
           simp_all [ResultOK, evalConv, ValOK, constValue, HasType, wrap_id, and_assoc]
       · simp_all [ResultOK, evalConv, ValOK, constValue, Ty.isInteger])
    | (obtain ⟨hcv, hz⟩ := h
       injection hz with hz; subst hz
       cases t <;> simp_all [convertible, ResultOK, evalConv, ValOK, constValue, HasType, wrap_inRange])

end ScriggoV.TypeCheck
