import ScriggoV.Model.ExprPP
/-!
Lemmas for C27, part 1: facts about the generated operator tables, the path algorithm (`reduce`,
`closeAll`), the token machine (`run`, `settle`, `complete`, `ret`), and the three invariants

* `Main e` — expression position: running the parser over `print e` from "operand expected" with
  path `fs`, all of whose operators bind less tightly than `e`'s top operator, ends (once a pending
  type name is settled) in "operand parsed" with a path that — for every operator that may legally
  follow `e` — reduces exactly as `norm e` on `fs` does;
* `MainTy t` — type position (`mustBeType`): the call of `parseExpr` completes with `norm t`;
* `Root e` — `e` is all a call of `parseExpr` parses (argument, index, bound, array length, inside
  parentheses, whole source): at the terminating token it returns `norm e`.
-/
namespace ScriggoV.ExprPP
open ScriggoV.Gen.Precedence

/-! ### the generated tables -/

/-- `Precedence()` never reaches its panic on a node the parser builds -/
theorem bprec_defined (b : BinOp) : binaryPrecedence b.toOp = some (bprec b) := by
  cases b <;> rfl

/-- every binary operator binds less tightly than a unary operator -/
theorem bprec_lt_uprec (b : BinOp) : bprec b < uprec := by
  cases b <;> decide

theorem unaryOf_unTok (u : UnOp) : unaryOf (unTok u) = some u := by
  cases u <;> rfl

/-- the printer's condition on the left operand, read backwards. Only `≤` is needed on the left
(binary operators associate to the left: `a - b - c` is `(a - b) - c`), `<` on the right. -/
theorem binaryLeftParens_false {o : Op} {p c : Nat} (h : binaryLeftParens o p c = false) : p ≤ c := by
  simp [binaryLeftParens] at h; omega

theorem binaryRightParens_false {o : Op} {p c : Nat} (h : binaryRightParens o p c = false) : p < c := by
  simp [binaryRightParens] at h; omega

theorem unaryParens_false {o : Op} {p c : Nat} (h : unaryParens o p c = false) : p < c := by
  simp [unaryParens] at h; omega

theorem Frame.prec_le (f : Frame) : f.prec ≤ uprec := by
  cases f with
  | un u => exact Nat.le_refl _
  | bin b l => exact Nat.le_of_lt (bprec_lt_uprec b)

theorem Expr.prec?_le : ∀ {e : Expr} {c : Nat}, e.prec? = some c → c ≤ uprec
  | .unary _ _, c, h => by simp [Expr.prec?] at h; omega
  | .binary b _ _, c, h => by simp [Expr.prec?] at h; have := bprec_lt_uprec b; omega
  | .paren e, c, h => Expr.prec?_le (e := e) (by simpa [Expr.prec?] using h)
  | .ident _, _, h => by simp [Expr.prec?] at h
  | .lit _ _, _, h => by simp [Expr.prec?] at h
  | .call _ _ _, _, h => by simp [Expr.prec?] at h
  | .index _ _, _, h => by simp [Expr.prec?] at h
  | .slicing _ _ _ _ _, _, h => by simp [Expr.prec?] at h
  | .selector _ _, _, h => by simp [Expr.prec?] at h
  | .typeAssert _ _, _, h => by simp [Expr.prec?] at h
  | .dflt _ _, _, h => by simp [Expr.prec?] at h
  | .sliceT _, _, h => by simp [Expr.prec?] at h
  | .arrayT _ _, _, h => by simp [Expr.prec?] at h
  | .mapT _ _, _, h => by simp [Expr.prec?] at h
  | .chanT _ _, _, h => by simp [Expr.prec?] at h
  | .iface, _, h => by simp [Expr.prec?] at h

/-- the precedence of `e`'s top operator; above every operator when `e` is not an operator -/
def lowPrec (e : Expr) : Nat :=
  match e.prec? with
  | some c => c
  | none => uprec + 1

theorem lowPrec_paren (e : Expr) : lowPrec (.paren e) = lowPrec e := by simp [lowPrec, Expr.prec?]
theorem lowPrec_unary (u : UnOp) (e : Expr) : lowPrec (.unary u e) = uprec := by simp [lowPrec, Expr.prec?]
theorem lowPrec_binary (b : BinOp) (l r : Expr) : lowPrec (.binary b l r) = bprec b := by simp [lowPrec, Expr.prec?]

theorem lowPrec_of_not_isOperator {e : Expr} (h : isOperator e = false) : lowPrec e = uprec + 1 := by
  unfold isOperator at h; unfold lowPrec
  cases hp : e.prec? with
  | none => rfl
  | some c => simp [hp] at h

theorem lowPrec_of_prec?_none {e : Expr} (h : e.prec? = none) : lowPrec e = uprec + 1 := by
  simp [lowPrec, h]

/-! ### the path -/

theorem reduce_of_lt (q : Nat) (x : Expr) (fs : List Frame) (h : ∀ f ∈ fs, f.prec < q) :
    reduce q x fs = (x, fs) := by
  cases fs with
  | nil => rfl
  | cons f fs =>
    have := h f (by simp)
    simp [reduce]; omega

theorem reduce_top (x : Expr) (fs : List Frame) : reduce (uprec + 1) x fs = (x, fs) :=
  reduce_of_lt _ _ _ (fun f _ => Nat.lt_succ_of_le f.prec_le)

theorem reduce_cons_le {q : Nat} (x : Expr) (f : Frame) (fs : List Frame) (h : q ≤ f.prec) :
    reduce q x (f :: fs) = reduce q (f.plug x) fs := by
  simp [reduce, h]

theorem reduce_zero (x : Expr) (fs : List Frame) : reduce 0 x fs = (closeAll x fs, []) := by
  induction fs generalizing x with
  | nil => rfl
  | cons f fs ih => simp [reduce, closeAll, ih]

theorem closeAll_eq_of_reduce {x y : Expr} {gs fs : List Frame}
    (h : reduce 0 x gs = reduce 0 y fs) : closeAll x gs = closeAll y fs := by
  rw [reduce_zero, reduce_zero] at h
  exact (Prod.mk.inj h).1

/-! ### the machine -/

theorem run_append (s : St) (xs ys : List Token) :
    run s (xs ++ ys) = (run s xs).bind (fun s' => run s' ys) := by
  induction xs generalizing s with
  | nil => rfl
  | cons t ts ih =>
    simp only [List.cons_append, run]
    cases step s t with
    | none => rfl
    | some s' => exact ih s'

theorem run_append_of {s s' : St} {xs : List Token} (h : run s xs = some s') (ys : List Token) :
    run s (xs ++ ys) = run s' ys := by
  rw [run_append, h]; rfl

theorem run_cons_of {s s' : St} {t : Token} (h : step s t = some s') (ts : List Token) :
    run s (t :: ts) = run s' ts := by
  simp [run, h]

/-- the operand-expected state of a call of `parseExpr` outside type position -/
abbrev S0 (fs : List Frame) (K : List Ctx) : St := ⟨.operand, fs, false, K⟩
/-- the operand-parsed state of a call of `parseExpr` outside type position -/
abbrev SOp (x : Expr) (gs : List Frame) (K : List Ctx) : St := ⟨.operator x, gs, false, K⟩

theorem complete_false (e : Expr) (p : List Frame) (K : List Ctx) : complete e p false K = SOp e p K := by
  cases K <;> simp [complete]

theorem complete_mode (e : Expr) (p : List Frame) (ty : Bool) (K : List Ctx) :
    ∃ x, (complete e p ty K).mode = .operator x := by
  induction K generalizing e p ty with
  | nil =>
    cases ty with
    | false => exact ⟨e, by simp [complete]⟩
    | true => exact ⟨closeAll e p, by simp [complete]⟩
  | cons c k ih =>
    cases ty with
    | false => exact ⟨e, by simp [complete]⟩
    | true =>
      unfold complete
      split <;> first | exact ih _ _ _ | exact ⟨_, rfl⟩

theorem complete_cons (e : Expr) (f : Frame) (p : List Frame) (K : List Ctx) :
    complete e (f :: p) true K = complete (f.plug e) p true K := by
  cases K with
  | nil => simp [complete, closeAll]
  | cons c k => simp [complete, closeAll]

theorem settle_of_operator {s : St} {e : Expr} (h : s.mode = .operator e) : settle s = s := by
  simp [settle, h]

theorem settle_SOp (x : Expr) (gs : List Frame) (K : List Ctx) : settle (SOp x gs K) = SOp x gs K := rfl

theorem settle_complete (e : Expr) (p : List Frame) (ty : Bool) (K : List Ctx) :
    settle (complete e p ty K) = complete e p ty K := by
  obtain ⟨x, hx⟩ := complete_mode e p ty K
  exact settle_of_operator hx

theorem settle_settle (s : St) : settle (settle s) = settle s := by
  cases hm : s.mode with
  | tyIdent n =>
    have : settle s = complete (.ident n) s.path s.ty s.ctxs := by simp [settle, hm]
    rw [this, settle_complete]
  | _ =>
    have : settle s = s := by simp [settle, hm]
    rw [this, this]

/-- a token other than `.` settles a pending type name before anything else -/
theorem step_settle {s : St} {t : Token} (ht : t ≠ .period) : step s t = step (settle s) t := by
  obtain ⟨m, p, ty, k⟩ := s
  cases m with
  | tyIdent n =>
    obtain ⟨x, hx⟩ := complete_mode (.ident n) p ty k
    have hs : settle ⟨.tyIdent n, p, ty, k⟩ = complete (.ident n) p ty k := rfl
    rw [hs]
    have h2 : step (complete (.ident n) p ty k) t = stepOperator (complete (.ident n) p ty k) x t := by
      generalize complete (.ident n) p ty k = s' at hx
      obtain ⟨m', p', ty', k'⟩ := s'
      simp only at hx
      subst hx
      rfl
    rw [h2]
    cases t <;> first
      | exact absurd rfl ht
      | (show (match (complete (.ident n) p ty k).mode with
              | .operator e => stepOperator (complete (.ident n) p ty k) e _
              | _ => none) = _
         rw [hx])
  | _ => rfl

theorem run_cons_settle {s : St} {t : Token} (ht : t ≠ .period) (ts : List Token) :
    run s (t :: ts) = run (settle s) (t :: ts) := by
  simp only [run]
  rw [step_settle ht]

/-- tokens at which a call of `parseExpr` returns to its caller -/
def Terminator : Token → Prop
  | .rparen | .rbrack | .comma | .ellipsis | .colon => True
  | _ => False

theorem Terminator.ne_period {t : Token} (h : Terminator t) : t ≠ .period := by
  intro he; subst he; exact h

theorem step_SOp_terminator {t : Token} (h : Terminator t) (x : Expr) (gs : List Frame) (K : List Ctx) :
    step (SOp x gs K) t = ret (closeAll x gs) t K := by
  cases t <;> first | (simp [Terminator] at h; done) | simp [step, stepOperator]

theorem step_S0_terminator {t : Token} (h : Terminator t) (K : List Ctx) :
    step (S0 [] K) t = retNil t K := by
  cases t <;> first | (simp [Terminator] at h; done) | simp [step, stepOperand]

/-- the tokens of a binary operator after an operand: go up the path and become the new leaf -/
theorem run_binToks (b : BinOp) (x : Expr) (gs : List Frame) (K : List Ctx) (rest : List Token) :
    run (SOp x gs K) (binToks b ++ rest) =
      run (S0 (.bin b (reduce (bprec b) x gs).1 :: (reduce (bprec b) x gs).2) K) rest := by
  cases b <;> simp [binToks, run, step, stepOperator, binaryOf]

theorem binToks_head_ne_period (b : BinOp) : ∃ t ts, binToks b = t :: ts ∧ t ≠ .period := by
  cases b <;> exact ⟨_, _, rfl, by simp⟩

theorem run_binToks_settle (b : BinOp) {s : St} {x : Expr} {gs : List Frame} {K : List Ctx}
    (hs : settle s = SOp x gs K) (rest : List Token) :
    run s (binToks b ++ rest) =
      run (S0 (.bin b (reduce (bprec b) x gs).1 :: (reduce (bprec b) x gs).2) K) rest := by
  obtain ⟨t, ts, hb, hne⟩ := binToks_head_ne_period b
  rw [← run_binToks, ← hs, hb, List.cons_append, run_cons_settle hne]

/-! ### print, norm on the list of arguments -/

theorem printArgs_nil : printArgs [] = [] := by simp [printArgs]
theorem printArgs_single (a : Expr) : printArgs [a] = print a := by simp [printArgs]
theorem printArgs_cons2 (a b : Expr) (bs : List Expr) :
    printArgs (a :: b :: bs) = print a ++ .comma :: printArgs (b :: bs) := by
  rw [printArgs.eq_def]

theorem needs_false_lowPrec {rule : Nat → Bool} {e : Expr} (h : needs rule e = false)
    (hr : ∀ c, rule c = false → uprec < c) : lowPrec e = uprec + 1 := by
  unfold needs at h; unfold lowPrec
  cases hp : e.prec? with
  | none => rfl
  | some c =>
    rw [hp] at h
    have := hr c h
    have := Expr.prec?_le hp
    omega

theorem needs_false_le {rule : Nat → Bool} {e : Expr} {p : Nat} (h : needs rule e = false)
    (hr : ∀ c, rule c = false → p ≤ c) (hp : p ≤ uprec) : p ≤ lowPrec e := by
  unfold needs at h; unfold lowPrec
  cases hq : e.prec? with
  | none => simp; omega
  | some c => rw [hq] at h; exact hr c h

theorem needs_false_lt {rule : Nat → Bool} {e : Expr} {p : Nat} (h : needs rule e = false)
    (hr : ∀ c, rule c = false → p < c) (hp : p ≤ uprec) : p < lowPrec e := by
  unfold needs at h; unfold lowPrec
  cases hq : e.prec? with
  | none => simp; omega
  | some c => rw [hq] at h; exact hr c h

theorem needs_true_isOperator {rule : Nat → Bool} {e : Expr} (h : needs rule e = true) : isOperator e = true := by
  unfold needs at h; unfold isOperator
  cases hq : e.prec? with
  | none => simp [hq] at h
  | some c => rfl

/-! ### facts about `core` -/

theorem isDflt_paren (e : Expr) : isDflt (.paren e) = isDflt e := by simp [isDflt, Expr.core]

theorem isDflt_of_isOperator : ∀ {e : Expr}, isOperator e = true → isDflt e = false
  | .paren e, h => by
    rw [isDflt_paren]; exact isDflt_of_isOperator (e := e) (by simpa [isOperator, Expr.prec?] using h)
  | .dflt _ _, h => by simp [isOperator, Expr.prec?] at h
  | .unary _ _, _ => by simp [isDflt, Expr.core]
  | .binary _ _ _, _ => by simp [isDflt, Expr.core]
  | .ident _, _ => by simp [isDflt, Expr.core]
  | .lit _ _, _ => by simp [isDflt, Expr.core]
  | .call _ _ _, _ => by simp [isDflt, Expr.core]
  | .index _ _, _ => by simp [isDflt, Expr.core]
  | .slicing _ _ _ _ _, _ => by simp [isDflt, Expr.core]
  | .selector _ _, _ => by simp [isDflt, Expr.core]
  | .typeAssert _ _, _ => by simp [isDflt, Expr.core]
  | .sliceT _, _ => by simp [isDflt, Expr.core]
  | .arrayT _ _, _ => by simp [isDflt, Expr.core]
  | .mapT _ _, _ => by simp [isDflt, Expr.core]
  | .chanT _ _, _ => by simp [isDflt, Expr.core]
  | .iface, _ => by simp [isDflt, Expr.core]

end ScriggoV.ExprPP
