import ScriggoV.Model.ExprPP
/-!
Lemmas for C27: facts about the generated operator tables, the path algorithm (`reduce`,
`closeAll`), the token machine (`run`), and the main invariant `Main`:

running the parser over `print e` from "operand expected" with path `fs`, all of whose operators
bind less tightly than `e`'s top operator, ends in "operand parsed" with a path that — for every
operator that may legally follow `e` — reduces exactly as `norm e` on `fs` does.
-/
namespace ScriggoV.ExprPP
open ScriggoV.Gen.Precedence

/-! ### the generated tables -/

/-- `Precedence()` never reaches its panic on a node the parser builds -/
theorem bprec_defined (b : BinOp) : binaryPrecedence b.toOp = some (bprec b) := by
  cases b <;> rfl

/-- every binary operator binds less tightly than a unary operator -/
theorem bprec_lt_uprec (b : BinOp) : bprec b < uprec := by
  cases b <;> decide

theorem unaryOf_unTok (u : UnOp) : unaryOf (unTok u) = some u := by
  cases u <;> rfl

/-- the printer's condition on the left operand, read backwards. Only `≤` is needed on the left
(binary operators associate to the left: `a - b - c` is `(a - b) - c`), `<` on the right. -/
theorem binaryLeftParens_false {o : Op} {p c : Nat} (h : binaryLeftParens o p c = false) : p ≤ c := by
  simp [binaryLeftParens] at h; omega

theorem binaryRightParens_false {o : Op} {p c : Nat} (h : binaryRightParens o p c = false) : p < c := by
  simp [binaryRightParens] at h; omega

theorem unaryParens_false {o : Op} {p c : Nat} (h : unaryParens o p c = false) : p < c := by
  simp [unaryParens] at h; omega

theorem Frame.prec_le (f : Frame) : f.prec ≤ uprec := by
  cases f with
  | un u => exact Nat.le_refl _
  | bin b l => exact Nat.le_of_lt (bprec_lt_uprec b)

theorem Expr.prec?_le : ∀ {e : Expr} {c : Nat}, e.prec? = some c → c ≤ uprec
  | .unary _ _, c, h => by simp [Expr.prec?] at h; omega
  | .binary b _ _, c, h => by simp [Expr.prec?] at h; have := bprec_lt_uprec b; omega
  | .paren e, c, h => Expr.prec?_le (e := e) (by simpa [Expr.prec?] using h)
  | .ident _, _, h => by simp [Expr.prec?] at h
  | .lit _, _, h => by simp [Expr.prec?] at h
  | .call _ _ _, _, h => by simp [Expr.prec?] at h
  | .index _ _, _, h => by simp [Expr.prec?] at h
  | .selector _ _, _, h => by simp [Expr.prec?] at h

/-- the precedence of `e`'s top operator; above every operator when `e` is not an operator -/
def lowPrec (e : Expr) : Nat :=
  match e.prec? with
  | some c => c
  | none => uprec + 1

theorem lowPrec_paren (e : Expr) : lowPrec (.paren e) = lowPrec e := by simp [lowPrec, Expr.prec?]
theorem lowPrec_unary (u : UnOp) (e : Expr) : lowPrec (.unary u e) = uprec := by simp [lowPrec, Expr.prec?]
theorem lowPrec_binary (b : BinOp) (l r : Expr) : lowPrec (.binary b l r) = bprec b := by simp [lowPrec, Expr.prec?]

theorem lowPrec_of_not_isOperator {e : Expr} (h : isOperator e = false) : lowPrec e = uprec + 1 := by
  unfold isOperator at h; unfold lowPrec
  cases hp : e.prec? with
  | none => rfl
  | some c => simp [hp] at h

/-! ### the path -/

theorem reduce_of_lt (q : Nat) (x : Expr) (fs : List Frame) (h : ∀ f ∈ fs, f.prec < q) :
    reduce q x fs = (x, fs) := by
  cases fs with
  | nil => rfl
  | cons f fs =>
    have := h f (by simp)
    simp [reduce]; omega

theorem reduce_top (x : Expr) (fs : List Frame) : reduce (uprec + 1) x fs = (x, fs) :=
  reduce_of_lt _ _ _ (fun f _ => Nat.lt_succ_of_le f.prec_le)

theorem reduce_cons_le {q : Nat} (x : Expr) (f : Frame) (fs : List Frame) (h : q ≤ f.prec) :
    reduce q x (f :: fs) = reduce q (f.plug x) fs := by
  simp [reduce, h]

theorem reduce_zero (x : Expr) (fs : List Frame) : reduce 0 x fs = (closeAll x fs, []) := by
  induction fs generalizing x with
  | nil => rfl
  | cons f fs ih => simp [reduce, closeAll, ih]

theorem closeAll_eq_of_reduce {x y : Expr} {gs fs : List Frame}
    (h : reduce 0 x gs = reduce 0 y fs) : closeAll x gs = closeAll y fs := by
  rw [reduce_zero, reduce_zero] at h
  exact (Prod.mk.inj h).1

/-! ### the machine -/

theorem run_append (s : St) (xs ys : List Token) :
    run s (xs ++ ys) = (run s xs).bind (fun s' => run s' ys) := by
  induction xs generalizing s with
  | nil => rfl
  | cons t ts ih =>
    simp only [List.cons_append, run]
    cases step s t with
    | none => rfl
    | some s' => exact ih s'

theorem run_append_of {s s' : St} {xs : List Token} (h : run s xs = some s') (ys : List Token) :
    run s (xs ++ ys) = run s' ys := by
  rw [run_append, h]; rfl

theorem run_cons_of {s s' : St} {t : Token} (h : step s t = some s') (ts : List Token) :
    run s (t :: ts) = run s' ts := by
  simp [run, h]

/-- the tokens of a binary operator after an operand: go up the path and become the new leaf -/
theorem run_binToks (b : BinOp) (x : Expr) (gs : List Frame) (K : List Ctx) (rest : List Token) :
    run ⟨.operator x, gs, K⟩ (binToks b ++ rest) =
      run ⟨.operand, .bin b (reduce (bprec b) x gs).1 :: (reduce (bprec b) x gs).2, K⟩ rest := by
  cases b <;> simp [binToks, run, step, binaryOf]

/-! ### print, norm on the list of arguments -/

theorem printArgs_nil : printArgs [] = [] := by simp [printArgs]
theorem printArgs_single (a : Expr) : printArgs [a] = print a := by simp [printArgs]
theorem printArgs_cons2 (a b : Expr) (bs : List Expr) :
    printArgs (a :: b :: bs) = print a ++ .comma :: printArgs (b :: bs) := by
  rw [printArgs.eq_def]

/-! ### the invariant -/

/-- what parsing `print e` does, see the head of the file -/
def Main (e : Expr) : Prop :=
  WF e → Plain e → ∀ (fs : List Frame) (K : List Ctx), (∀ f ∈ fs, f.prec < lowPrec e) →
    ∃ x gs, run ⟨.operand, fs, K⟩ (print e) = some ⟨.operator x, gs, K⟩ ∧
      ∀ q, q ≤ lowPrec e → reduce q x gs = reduce q (norm e) fs

/-- the same for the argument list of a call, up to and including the closing parenthesis -/
def MainArgs (args : List Expr) : Prop :=
  WFArgs args → PlainArgs args → args ≠ [] → ∀ (fs : List Frame) (K : List Ctx) (f : Expr) (pre : List Expr),
    run ⟨.operand, [], .call fs f pre :: K⟩ (printArgs args ++ [.rparen]) =
        some ⟨.operator (.call f (pre ++ normArgs args) false), fs, K⟩ ∧
    run ⟨.operand, [], .call fs f pre :: K⟩ (printArgs args ++ [.ellipsis, .rparen]) =
        some ⟨.operator (.call f (pre ++ normArgs args) true), fs, K⟩

/-- a complete expression inside brackets: the path is empty, so the result closes to `norm e` -/
theorem Main.closed {e : Expr} (h : Main e) (wf : WF e ∧ Plain e) (K : List Ctx) :
    ∃ x gs, run ⟨.operand, [], K⟩ (print e) = some ⟨.operator x, gs, K⟩ ∧ closeAll x gs = norm e := by
  obtain ⟨x, gs, hr, hq⟩ := h wf.1 wf.2 [] K (by simp)
  refine ⟨x, gs, hr, ?_⟩
  have := closeAll_eq_of_reduce (hq 0 (Nat.zero_le _))
  simpa [closeAll] using this

/-- an operand as the printer writes it: in parentheses (`c`) or as it is -/
theorem operand {e : Expr} (h : Main e) (wf : WF e ∧ Plain e) (c : Bool) (fs : List Frame) (K : List Ctx)
    (hfs : c = false → ∀ f ∈ fs, f.prec < lowPrec e) :
    ∃ x gs, run ⟨.operand, fs, K⟩ (wrap c (print e)) = some ⟨.operator x, gs, K⟩ ∧
      ∀ q, q ≤ (if c then uprec + 1 else lowPrec e) → reduce q x gs = reduce q (wrapP c (norm e)) fs := by
  cases c with
  | false =>
    obtain ⟨x, gs, hr, hq⟩ := h wf.1 wf.2 fs K (hfs rfl)
    exact ⟨x, gs, by simpa [wrap] using hr, by simpa [wrapP] using hq⟩
  | true =>
    obtain ⟨x, gs, hr, hc⟩ := h.closed wf (.paren fs :: K)
    refine ⟨.paren (norm e), fs, ?_, fun q _ => by simp [wrapP]⟩
    have h1 : step ⟨.operand, fs, K⟩ .lparen = some ⟨.operand, [], .paren fs :: K⟩ := rfl
    have h2 : step ⟨.operator x, gs, .paren fs :: K⟩ .rparen = some ⟨.operator (.paren (norm e)), fs, K⟩ := by
      simp [step, ret, hc]
    simp only [wrap, if_true]
    rw [run_cons_of h1, run_append_of hr, run_cons_of h2]; rfl

/-- an operand that ends above every operator (in parentheses, or not an operator): the state after
it is exact -/
theorem operand_exact {e : Expr} (h : Main e) (wf : WF e ∧ Plain e) (c : Bool) (fs : List Frame) (K : List Ctx)
    (hc : c = false → lowPrec e = uprec + 1) :
    run ⟨.operand, fs, K⟩ (wrap c (print e)) = some ⟨.operator (wrapP c (norm e)), fs, K⟩ := by
  have hfs : c = false → ∀ f ∈ fs, f.prec < lowPrec e := by
    intro h0 f _; rw [hc h0]; exact Nat.lt_succ_of_le f.prec_le
  obtain ⟨x, gs, hr, hq⟩ := operand h wf c fs K hfs
  have hl : (if c = true then uprec + 1 else lowPrec e) = uprec + 1 := by
    cases c with
    | true => simp
    | false => simp [hc rfl]
  have := hq (uprec + 1) (by rw [hl]; exact Nat.le_refl _)
  rw [reduce_top, reduce_top] at this
  obtain ⟨rfl, rfl⟩ := Prod.mk.inj this
  exact hr

/-- after an exact state nothing is left to reduce: the conclusion of `Main` for a primary expression -/
theorem main_of_exact {e : Expr} {fs : List Frame} {K : List Ctx}
    (h : run ⟨.operand, fs, K⟩ (print e) = some ⟨.operator (norm e), fs, K⟩) :
    ∃ x gs, run ⟨.operand, fs, K⟩ (print e) = some ⟨.operator x, gs, K⟩ ∧
      ∀ q, q ≤ lowPrec e → reduce q x gs = reduce q (norm e) fs :=
  ⟨_, _, h, fun _ _ => rfl⟩

theorem needs_false_lowPrec {rule : Nat → Bool} {e : Expr} (h : needs rule e = false)
    (hr : ∀ c, rule c = false → uprec < c) : lowPrec e = uprec + 1 := by
  unfold needs at h; unfold lowPrec
  cases hp : e.prec? with
  | none => rfl
  | some c =>
    rw [hp] at h
    have := hr c h
    have := Expr.prec?_le hp
    omega

theorem needs_false_le {rule : Nat → Bool} {e : Expr} {p : Nat} (h : needs rule e = false)
    (hr : ∀ c, rule c = false → p ≤ c) (hp : p ≤ uprec) : p ≤ lowPrec e := by
  unfold needs at h; unfold lowPrec
  cases hq : e.prec? with
  | none => simp; omega
  | some c => rw [hq] at h; exact hr c h

theorem needs_false_lt {rule : Nat → Bool} {e : Expr} {p : Nat} (h : needs rule e = false)
    (hr : ∀ c, rule c = false → p < c) (hp : p ≤ uprec) : p < lowPrec e := by
  unfold needs at h; unfold lowPrec
  cases hq : e.prec? with
  | none => simp; omega
  | some c => rw [hq] at h; exact hr c h

/-! ### the cases -/

theorem main_ident (n : Nat) : Main (.ident n) := by
  intro _ _ fs K _
  exact main_of_exact (e := .ident n) (by simp [print, norm, run, step])

theorem main_lit (n : Nat) : Main (.lit n) := by
  intro _ _ fs K _
  exact main_of_exact (e := .lit n) (by simp [print, norm, run, step])

theorem main_paren (e : Expr) (ih : Main e) : Main (.paren e) := by
  intro wf pl fs K hfs
  have wf' : WF e := by simpa [WF] using wf
  have pl' : Plain e := by simpa [Plain] using pl
  rw [lowPrec_paren] at hfs
  obtain ⟨x, gs, hr, hq⟩ := ih wf' pl' fs K hfs
  refine ⟨x, gs, by simpa [print] using hr, ?_⟩
  intro q hq'
  rw [lowPrec_paren] at hq'
  simpa [norm] using hq q hq'

theorem main_unary (u : UnOp) (e : Expr) (ih : Main e) : Main (.unary u e) := by
  intro wf pl fs K _
  have wf' : WF e ∧ Plain e := ⟨by simpa [WF] using wf, by simpa [Plain] using pl⟩
  have hex := operand_exact ih wf' (needs (unaryParens u.toOp uprec) e) (.un u :: fs) K
    (fun h => needs_false_lowPrec h (fun _ hc => unaryParens_false hc))
  have h1 : step ⟨.operand, fs, K⟩ (.op (unTok u)) = some ⟨.operand, .un u :: fs, K⟩ := by
    simp [step, unaryOf_unTok]
  refine ⟨_, _, by rw [print, run_cons_of h1]; exact hex, ?_⟩
  intro q hq
  rw [lowPrec_unary] at hq
  rw [reduce_cons_le _ _ _ (by simpa [Frame.prec] using hq)]
  simp [norm, Frame.plug]

theorem main_binary (b : BinOp) (l r : Expr) (ihl : Main l) (ihr : Main r) : Main (.binary b l r) := by
  intro wf pl fs K hfs
  simp only [WF] at wf
  simp only [Plain] at pl
  have wfl : WF l ∧ Plain l := ⟨wf.1, pl.1⟩
  have wfr : WF r ∧ Plain r := ⟨wf.2, pl.2⟩
  rw [lowPrec_binary] at hfs
  have hb := Nat.le_of_lt (bprec_lt_uprec b)
  -- left operand
  obtain ⟨x, gs, hrl, hql⟩ := operand ihl wfl (needs (binaryLeftParens b.toOp (bprec b)) l) fs K
    (fun h f hf => Nat.lt_of_lt_of_le (hfs f hf)
      (needs_false_le h (fun _ hc => binaryLeftParens_false hc) hb))
  have hlev : bprec b ≤ (if needs (binaryLeftParens b.toOp (bprec b)) l = true then uprec + 1 else lowPrec l) := by
    cases h : needs (binaryLeftParens b.toOp (bprec b)) l with
    | true => simp; omega
    | false => simpa using needs_false_le h (fun _ hc => binaryLeftParens_false hc) hb
  have hred := hql (bprec b) hlev
  rw [reduce_of_lt _ _ _ hfs] at hred
  -- right operand
  obtain ⟨y, hs, hrr, hqr⟩ := operand ihr wfr (needs (binaryRightParens b.toOp (bprec b)) r)
    (.bin b (wrapP (needs (binaryLeftParens b.toOp (bprec b)) l) (norm l)) :: fs) K
    (by
      intro h f hf
      have hlt := needs_false_lt h (fun _ hc => binaryRightParens_false hc) hb
      rcases List.mem_cons.1 hf with rfl | hf
      · exact hlt
      · exact Nat.lt_trans (hfs f hf) hlt)
  have hlev' : bprec b ≤ (if needs (binaryRightParens b.toOp (bprec b)) r = true then uprec + 1 else lowPrec r) := by
    cases h : needs (binaryRightParens b.toOp (bprec b)) r with
    | true => simp; omega
    | false => simpa using Nat.le_of_lt (needs_false_lt h (fun _ hc => binaryRightParens_false hc) hb)
  refine ⟨y, hs, ?_, ?_⟩
  · rw [print, List.append_assoc, run_append_of hrl, run_binToks, hred]
    exact hrr
  · intro q hq
    rw [lowPrec_binary] at hq
    rw [hqr q (Nat.le_trans hq hlev'), reduce_cons_le _ _ _ (by simpa [Frame.prec] using hq)]
    simp [norm, Frame.plug]

theorem main_selector (e : Expr) (n : Nat) (ih : Main e) : Main (.selector e n) := by
  intro wf pl fs K _
  simp only [WF] at wf
  simp only [Plain] at pl
  have hex := operand_exact ih ⟨wf, pl.1⟩ false fs K (fun _ => lowPrec_of_not_isOperator pl.2)
  simp only [wrap, wrapP, Bool.false_eq_true, if_false] at hex
  apply main_of_exact
  rw [print, run_append_of hex]
  simp [run, step, norm]

theorem main_index (e i : Expr) (ihe : Main e) (ihi : Main i) : Main (.index e i) := by
  intro wf pl fs K _
  simp only [WF] at wf
  simp only [Plain] at pl
  have hex := operand_exact ihe ⟨wf.1, pl.1⟩ false fs K (fun _ => lowPrec_of_not_isOperator pl.2.2)
  simp only [wrap, wrapP, Bool.false_eq_true, if_false] at hex
  obtain ⟨x, gs, hr, hc⟩ := ihi.closed ⟨wf.2, pl.2.1⟩ (.index fs (norm e) :: K)
  apply main_of_exact
  have h1 : step ⟨.operator (norm e), fs, K⟩ .lbrack = some ⟨.operand, [], .index fs (norm e) :: K⟩ := rfl
  have h2 : step ⟨.operator x, gs, .index fs (norm e) :: K⟩ .rbrack =
      some ⟨.operator (.index (norm e) (norm i)), fs, K⟩ := by
    simp [step, ret, hc]
  rw [print, run_append_of hex, run_cons_of h1, run_append_of hr, run_cons_of h2]
  simp [run, norm]

theorem mainArgs_nil : MainArgs [] := by
  intro _ _ h; exact absurd rfl h

theorem mainArgs_cons (a : Expr) (as : List Expr) (iha : Main a) (ihas : MainArgs as) :
    MainArgs (a :: as) := by
  intro wf pl _ fs K f pre
  simp only [WFArgs] at wf
  simp only [PlainArgs] at pl
  obtain ⟨x, gs, hr, hc⟩ := iha.closed ⟨wf.1, pl.1⟩ (.call fs f pre :: K)
  cases as with
  | nil =>
    rw [printArgs_single]
    constructor
    · rw [run_append_of hr]
      simp [run, step, ret, hc, normArgs]
    · rw [run_append_of hr]
      simp [run, step, ret, hc, normArgs]
  | cons b bs =>
    have hcomma : step ⟨.operator x, gs, .call fs f pre :: K⟩ .comma =
        some ⟨.operand, [], .call fs f (pre ++ [norm a]) :: K⟩ := by
      simp [step, ret, hc]
    obtain ⟨h1, h2⟩ := ihas wf.2 pl.2 (by simp) fs K f (pre ++ [norm a])
    rw [printArgs_cons2]
    constructor
    · rw [List.append_assoc, run_append_of hr, List.cons_append, run_cons_of hcomma, h1]
      simp [normArgs]
    · rw [List.append_assoc, run_append_of hr, List.cons_append, run_cons_of hcomma, h2]
      simp [normArgs]

theorem main_call (f : Expr) (args : List Expr) (v : Bool) (ihf : Main f) (ihargs : MainArgs args) :
    Main (.call f args v) := by
  intro wf pl fs K _
  simp only [WF] at wf
  simp only [Plain] at pl
  have hex := operand_exact ihf ⟨wf.1, pl.1⟩ (callParens f) fs K (fun h => by
    apply lowPrec_of_not_isOperator
    cases ho : isOperator f with
    | false => rfl
    | true => rw [pl.2.2 ho] at h; cases h)
  apply main_of_exact
  have h1 : step ⟨.operator (wrapP (callParens f) (norm f)), fs, K⟩ .lparen =
      some ⟨.operand, [], .call fs (wrapP (callParens f) (norm f)) [] :: K⟩ := rfl
  rw [print, run_append_of hex, run_cons_of h1]
  cases args with
  | nil =>
    cases v with
    | true => exact absurd rfl (wf.2.2 rfl)
    | false => simp [printArgs, run, step, norm, normArgs]
  | cons a as =>
    obtain ⟨h2, h3⟩ := ihargs wf.2.1 pl.2.1 (by simp) fs K (wrapP (callParens f) (norm f)) []
    cases v with
    | true => simpa [norm] using h3
    | false => simpa [norm] using h2

/-- the invariant holds of every expression -/
theorem main (e : Expr) : Main e :=
  Expr.rec (motive_1 := Main) (motive_2 := MainArgs)
    main_ident main_lit main_unary main_binary main_call main_index main_selector main_paren
    mainArgs_nil mainArgs_cons e

end ScriggoV.ExprPP
