import ScriggoV.Model.Lexer
/-! # Basic lemmas about the lexer model: checked accesses, `emit`, `skip`, the extension
relation `Ext` (base only grows, tokens are only appended, each token lies where the lexer
stood when it emitted it). -/
namespace ScriggoV.Lexer
open ScriggoV ScriggoV.Gen.LexTables

@[simp] theorem bind_ok {ε α β} (a : α) (f : α → Except ε β) : (Except.ok a >>= f) = f a := rfl
@[simp] theorem bind_error {ε α β} (e : ε) (f : α → Except ε β) : (Except.error e >>= f) = Except.error e := rfl
@[simp] theorem pure_eq_ok {ε α} (a : α) : (pure a : Except ε α) = Except.ok a := rfl
@[simp] theorem map_ok {ε α β} (a : α) (f : α → β) : f <$> (Except.ok a : Except ε α) = Except.ok (f a) := rfl

theorem getAt_ok {t : Bytes} {i : Nat} (h : i < t.length) : getAt t i = .ok t[i] := by
  unfold getAt; simp [List.getElem?_eq_getElem h]

theorem getAt_ok' {t : Bytes} {i : Nat} (h : i < t.length) : ∃ c, getAt t i = .ok c := ⟨_, getAt_ok h⟩

theorem getAt_eq_ok_iff {t : Bytes} {i : Nat} {c : UInt8} : getAt t i = .ok c ↔ t[i]? = some c := by
  unfold getAt; cases h : t[i]? <;> simp

theorem lt_of_getElem?_eq_some {t : Bytes} {i : Nat} {c : UInt8} (h : t[i]? = some c) : i < t.length := by
  rcases Nat.lt_or_ge i t.length with hl | hn
  · exact hl
  · rw [List.getElem?_eq_none hn] at h
    cases h

/-- `len(l.src)` -/
theorem srcLen_def (E : Env) (st : St) : srcLen E st = E.text.length - st.base := rfl

theorem srcAt_ok {E : Env} {st : St} {i : Nat} (h : st.base + i < E.text.length) :
    ∃ c, srcAt E st i = .ok c ∧ peek E st i = some c := by
  refine ⟨E.text[st.base + i], ?_, ?_⟩
  · unfold srcAt; exact getAt_ok h
  · unfold peek; exact List.getElem?_eq_getElem h

theorem srcAt_ok_of_lt {E : Env} {st : St} {i : Nat} (h : i < srcLen E st) :
    ∃ c, srcAt E st i = .ok c ∧ peek E st i = some c := by
  apply srcAt_ok; unfold srcLen at h; omega

theorem peek_some_lt {E : Env} {st : St} {i : Nat} {c : UInt8} (h : peek E st i = some c) :
    st.base + i < E.text.length := lt_of_getElem?_eq_some h

theorem peek_some_lt_srcLen {E : Env} {st : St} {i : Nat} {c : UInt8} (h : peek E st i = some c) :
    i < srcLen E st := by
  have := peek_some_lt h; unfold srcLen; omega

theorem srcAt_eq_peek {E : Env} {st : St} {i : Nat} {c : UInt8} (h : peek E st i = some c) :
    srcAt E st i = .ok c := by
  unfold srcAt; exact getAt_eq_ok_iff.mpr h

theorem peekIs_lt {E : Env} {st : St} {i : Nat} {c : UInt8} (h : peekIs E st i c = true) :
    i < srcLen E st := by
  unfold peekIs at h
  have : peek E st i = some c := by simpa using h
  exact peek_some_lt_srcLen this

theorem srcFrom_ok {E : Env} {st : St} {i : Nat} (h : i ≤ srcLen E st) :
    srcFrom E st i = .ok (E.text.drop (st.base + i)) := by
  unfold srcFrom; simp [h]

theorem sliceOf_ok {s : Bytes} {lo hi : Nat} (h1 : lo ≤ hi) (h2 : hi ≤ s.length) :
    sliceOf s lo hi = .ok ((s.take hi).drop lo) := by
  unfold sliceOf; simp [h1, h2]

/-! ## spans -/

/-- token `t` was emitted with length `t.txtLen` when the lexer stood at `b` -/
def TokSpan (t : Tok) (b : Nat) : Prop :=
  (0 < t.txtLen → t.start = (b : Int) ∧ t.stop = (b : Int) + t.txtLen - 1) ∧
  (t.txtLen = 0 → t.stop = t.start ∧ (t.start = (b : Int) ∨ t.start = (b : Int) - 1))

/-- the tokens `ts` (most recent first) were emitted one after the other while the lexer moved
from `lo` to at most `hi` -/
def TokensIn : List Tok → Nat → Nat → Prop
  | [], lo, hi => lo ≤ hi
  | t :: ts, lo, hi => ∃ b, TokensIn ts lo b ∧ b + t.txtLen ≤ hi ∧ TokSpan t b

theorem TokensIn.le {ts : List Tok} {lo hi : Nat} (h : TokensIn ts lo hi) : lo ≤ hi := by
  induction ts generalizing hi with
  | nil => exact h
  | cons t ts ih =>
    obtain ⟨b, h1, h2, _⟩ := h
    have := ih h1; omega

theorem TokensIn.mono {ts : List Tok} {lo hi hi' : Nat} (h : TokensIn ts lo hi) (hh : hi ≤ hi') :
    TokensIn ts lo hi' := by
  cases ts with
  | nil => exact Nat.le_trans h hh
  | cons t ts =>
    obtain ⟨b, h1, h2, h3⟩ := h
    exact ⟨b, h1, by omega, h3⟩

theorem TokensIn.append {ts1 ts2 : List Tok} {lo mid hi : Nat}
    (h1 : TokensIn ts1 lo mid) (h2 : TokensIn ts2 mid hi) : TokensIn (ts2 ++ ts1) lo hi := by
  induction ts2 generalizing hi with
  | nil => exact h1.mono h2
  | cons t ts ih =>
    obtain ⟨b, h3, h4, h5⟩ := h2
    exact ⟨b, ih h3, h4, h5⟩

/-- `l.bases` is parallel to `l.contexts`: what makes `l.bases[last]` of `case tokenEnd` safe -/
def Bal (st : St) : Prop := st.bases.length = st.contexts.length

/-- `st'` extends `st`: the lexer did not move back, stays inside the text, and the tokens it
emitted in between lie between the two positions -/
def Ext (E : Env) (st st' : St) : Prop :=
  st'.base ≤ E.text.length ∧ (∃ new, st'.toks = new ++ st.toks ∧ TokensIn new st.base st'.base) ∧
    (Bal st → Bal st')

theorem Ext.base_le {E : Env} {st st' : St} (h : Ext E st st') : st.base ≤ st'.base := by
  obtain ⟨_, ⟨new, _, h3⟩, _⟩ := h; exact h3.le

theorem Ext.le_len {E : Env} {st st' : St} (h : Ext E st st') : st'.base ≤ E.text.length := h.1

theorem Ext.refl {E : Env} {st : St} (h : st.base ≤ E.text.length) : Ext E st st :=
  ⟨h, ⟨[], rfl, Nat.le_refl _⟩, id⟩

theorem Ext.trans {E : Env} {a b c : St} (h1 : Ext E a b) (h2 : Ext E b c) : Ext E a c := by
  obtain ⟨_, ⟨n1, e1, t1⟩, b1⟩ := h1
  obtain ⟨l2, ⟨n2, e2, t2⟩, b2⟩ := h2
  exact ⟨l2, ⟨n2 ++ n1, by rw [e2, e1, List.append_assoc], t1.append t2⟩, b2 ∘ b1⟩

theorem Ext.bal {E : Env} {st st' : St} (h : Ext E st st') (hb : Bal st) : Bal st' := h.2.2 hb

/-- a state that differs from `st` only in fields other than `base` and `toks` -/
theorem Ext.of_eq {E : Env} {a b c : St} (h : Ext E a b) (hb : c.base = b.base) (ht : c.toks = b.toks)
    (hc : c.contexts = b.contexts := by rfl) (hs : c.bases = b.bases := by rfl) :
    Ext E a c := by
  obtain ⟨l, ⟨n, e, t⟩, bl⟩ := h
  exact ⟨hb ▸ l, ⟨n, ht ▸ e, hb ▸ t⟩, fun h0 => by have := bl h0; unfold Bal at *; rw [hc, hs]; exact this⟩

/-- a state with the `base` and `toks` of `b` whose stacks stay parallel if `b`'s are -/
theorem Ext.of_bal {E : Env} {a b c : St} (h : Ext E a b) (hb : c.base = b.base) (ht : c.toks = b.toks)
    (hbal : Bal b → Bal c) : Ext E a c := by
  obtain ⟨l, ⟨n, e, t⟩, bl⟩ := h
  exact ⟨hb ▸ l, ⟨n, ht ▸ e, hb ▸ t⟩, fun h0 => hbal (bl h0)⟩

theorem Ext.srcLen_le {E : Env} {st st' : St} (h : Ext E st st') : srcLen E st' ≤ srcLen E st := by
  have := h.base_le; unfold srcLen; omega

/-! ## emit and skip -/

theorem skip_ok {E : Env} {st : St} {k : Nat} (h : k ≤ srcLen E st) (hb : st.base ≤ E.text.length) :
    ∃ st', skip E st k = .ok st' ∧ st' = { st with base := st.base + k } ∧ Ext E st st' := by
  refine ⟨{ st with base := st.base + k }, by unfold skip; simp [h], rfl, ?_⟩
  refine ⟨?_, ⟨[], rfl, ?_⟩, id⟩
  · show st.base + k ≤ _; unfold srcLen at h; omega
  · show st.base ≤ st.base + k; omega

theorem emitAt_ok {E : Env} {st : St} {line col typ n : Nat} (h : n ≤ srcLen E st)
    (hb : st.base ≤ E.text.length) :
    ∃ st', emitAt E st line col typ n = .ok st' ∧ Ext E st st' ∧ st'.base = st.base + n ∧
      st'.line = st.line ∧ st'.col = st.col ∧ st'.ctx = st.ctx ∧ st'.contexts = st.contexts ∧
      st'.tagName = st.tagName ∧ st'.tagAttr = st.tagAttr ∧ st'.tagIndex = st.tagIndex ∧
      st'.tagCtx = st.tagCtx ∧
      (∃ t, st'.toks = t :: st.toks ∧ t.typ = typ ∧ t.line = line ∧ t.col = col ∧ t.txtLen = n ∧
        TokSpan t st.base) := by
  unfold emitAt
  have hn : ¬ srcLen E st < n := by omega
  simp only [hn, if_false]
  refine ⟨_, rfl, ?_, rfl, rfl, rfl, rfl, rfl, rfl, rfl, rfl, rfl, ?_⟩
  · refine ⟨?_, ⟨[_], rfl, st.base, Nat.le_refl _, Nat.le_refl _, ?_⟩, id⟩
    · show st.base + n ≤ _; unfold srcLen at h; omega
    · constructor
      · intro hpos
        have : n ≠ 0 := by simpa using Nat.ne_of_gt hpos
        simp [this]
      · intro hz
        have : n = 0 := hz
        subst this
        simp
        split <;> simp
  · refine ⟨_, rfl, rfl, rfl, rfl, rfl, ?_⟩
    constructor
    · intro hpos
      have : n ≠ 0 := by simpa using Nat.ne_of_gt hpos
      simp [this]
    · intro hz
      have : n = 0 := hz
      subst this
      simp
      split <;> simp

end ScriggoV.Lexer
