import ScriggoV.Lemmas.Lexer.Tag
/-! # The cases of the main loop of `scan`: invariant, measure, and one lemma per `case` -/
namespace ScriggoV.Lexer
open ScriggoV ScriggoV.Gen.LexTables

/-- what the template layer needs from `lexCode` (proved in Lemmas/Lexer/Code*.lean) -/
structure CodeSpec (E : Env) : Prop where
  lexCode_ok : ∀ (endT : Nat) (st : St), st.base ≤ E.text.length → Bal st →
    ∃ st' e, lexCode E endT st = .ok (st', e) ∧ Ext E st st' ∧ st'.tagIndex = st.tagIndex ∧
      (e = none → ((endT = tokenRightBraces ∨ endT = tokenEndStatement) → 2 ≤ srcLen E st') ∧
                  (endT = tokenEndStatements → 3 ≤ srcLen E st'))

def attrCtx (c : Nat) : Nat := if c = ContextQuotedAttr ∨ c = ContextUnquotedAttr then 1 else 0

theorem attrCtx_le (c : Nat) : attrCtx c ≤ 1 := by unfold attrCtx; split <;> omega

/-- the measure that decreases at every iteration of the main loop -/
def mu (E : Env) (st : St) (lp : Loop) : Nat := 2 * (E.text.length - (st.base + lp.p)) + attrCtx st.ctx

structure LoopInv (E : Env) (st : St) (lp : Loop) : Prop where
  base_le : st.base ≤ E.text.length
  p_le : lp.p ≤ srcLen E st
  tag_le : st.tagIndex ≤ st.base + lp.p

theorem LoopInv.pos_le {E : Env} {st : St} {lp : Loop} (h : LoopInv E st lp) : st.base + lp.p ≤ E.text.length := by
  have := h.p_le; have := h.base_le; unfold srcLen at *; omega

def NextGood (E : Env) (st : St) (lp : Loop) (st' : St) (lp' : Loop) : Prop :=
  LoopInv E st' lp' ∧ Ext E st st' ∧ mu E st' lp' < mu E st lp

def FallGood (E : Env) (st : St) (lp : Loop) (st' : St) (lp' : Loop) : Prop :=
  LoopInv E st' lp' ∧ Ext E st st' ∧ st.base + lp.p ≤ st'.base + lp'.p ∧ lp'.p < srcLen E st'

def CaseGood (E : Env) (st : St) (lp : Loop) : CaseOut → Prop
  | .next st' lp' => NextGood E st lp st' lp'
  | .fall st' lp' => FallGood E st lp st' lp'

/-- a `fall` that keeps `base` and `toks` and does not move `p` back -/
theorem FallGood.same {E : Env} {st st' : St} {lp lp' : Loop} (hI : LoopInv E st lp)
    (hb : st'.base = st.base) (ht : st'.toks = st.toks) (hti : st'.tagIndex ≤ st.tagIndex)
    (hp : lp.p ≤ lp'.p) (hlt : lp'.p < srcLen E st)
    (hcx : st'.contexts = st.contexts := by rfl) (hbs : st'.bases = st.bases := by rfl) :
    FallGood E st lp st' lp' := by
  have hs : srcLen E st' = srcLen E st := by unfold srcLen; rw [hb]
  refine ⟨⟨hb ▸ hI.base_le, by rw [hs]; omega, ?_⟩, (Ext.refl hI.base_le).of_eq hb ht hcx hbs, by rw [hb]; omega, by rw [hs]; exact hlt⟩
  have := hI.tag_le; rw [hb]; omega

/-- a `next` that keeps `base` and `toks` and moves `p` forward -/
theorem NextGood.same {E : Env} {st st' : St} {lp lp' : Loop} (hI : LoopInv E st lp)
    (hb : st'.base = st.base) (ht : st'.toks = st.toks) (hti : st'.tagIndex ≤ st'.base + lp'.p)
    (hp : lp.p < lp'.p) (hle : lp'.p ≤ srcLen E st)
    (hcx : st'.contexts = st.contexts := by rfl) (hbs : st'.bases = st.bases := by rfl) :
    NextGood E st lp st' lp' := by
  have hs : srcLen E st' = srcLen E st := by unfold srcLen; rw [hb]
  refine ⟨⟨hb ▸ hI.base_le, by rw [hs]; exact hle, hti⟩, (Ext.refl hI.base_le).of_eq hb ht hcx hbs, ?_⟩
  unfold mu
  have h1 := attrCtx_le st'.ctx
  have h2 := hI.base_le
  rw [hb]
  unfold srcLen at hle
  omega

/-- a `next` that moves strictly forward -/
def NextStrict (E : Env) (st : St) (lp : Loop) (st' : St) (lp' : Loop) : Prop :=
  LoopInv E st' lp' ∧ Ext E st st' ∧ st.base + lp.p < st'.base + lp'.p

theorem NextStrict.good {E : Env} {st st' : St} {lp lp' : Loop} (_hI : LoopInv E st lp)
    (h : NextStrict E st lp st' lp') : NextGood E st lp st' lp' := by
  obtain ⟨i, e, hp⟩ := h
  refine ⟨i, e, ?_⟩
  unfold mu
  have := attrCtx_le st'.ctx
  have := i.pos_le
  omega

theorem NextStrict.same {E : Env} {st st' : St} {lp lp' : Loop} (hI : LoopInv E st lp)
    (hb : st'.base = st.base) (ht : st'.toks = st.toks) (hti : st'.tagIndex ≤ st'.base + lp'.p)
    (hp : lp.p < lp'.p) (hle : lp'.p ≤ srcLen E st)
    (hcx : st'.contexts = st.contexts := by rfl) (hbs : st'.bases = st.bases := by rfl) :
    NextStrict E st lp st' lp' := by
  have hs : srcLen E st' = srcLen E st := by unfold srcLen; rw [hb]
  exact ⟨⟨hb ▸ hI.base_le, by rw [hs]; exact hle, hti⟩, (Ext.refl hI.base_le).of_eq hb ht hcx hbs, by rw [hb]; omega⟩

theorem flushText_ok {E : Env} {st : St} {lp : Loop} (hI : LoopInv E st lp) :
    ∃ st', flushText E st lp = .ok st' ∧ Ext E st st' ∧ st'.base = st.base + lp.p ∧ st'.ctx = st.ctx ∧
      st'.tagIndex = st.tagIndex ∧ st'.line = st.line ∧ st'.col = st.col ∧ st'.tagName = st.tagName ∧
      st'.tagAttr = st.tagAttr ∧ st'.tagCtx = st.tagCtx := by
  unfold flushText
  split
  · obtain ⟨st', h1, h2, h3, h4, h5, h6, _, h8, h9, h10, h11, _⟩ :=
      emitAt_ok (E := E) (st := st) (line := lp.lin) (col := lp.tcol) (typ := tokenText) (n := lp.p) hI.p_le hI.base_le
    exact ⟨st', h1, h2, h3, h6, h10, h4, h5, h8, h9, h11⟩
  · rename_i h
    have : lp.p = 0 := by omega
    exact ⟨st, rfl, Ext.refl hI.base_le, by rw [this]; rfl, rfl, rfl, rfl, rfl, rfl, rfl, rfl⟩

theorem emit_ok {E : Env} {st : St} {typ n : Nat} (h : n ≤ srcLen E st) (hb : st.base ≤ E.text.length) :
    ∃ st', emit E st typ n = .ok st' ∧ Ext E st st' ∧ st'.base = st.base + n ∧
      st'.line = st.line ∧ st'.col = st.col ∧ st'.ctx = st.ctx ∧ st'.tagIndex = st.tagIndex ∧
      st'.tagName = st.tagName ∧ st'.tagAttr = st.tagAttr ∧ st'.tagCtx = st.tagCtx := by
  unfold emit
  obtain ⟨st', h1, h2, h3, h4, h5, h6, _, h8, h9, h10, h11, _⟩ :=
    emitAt_ok (E := E) (st := st) (line := st.line) (col := st.col) (typ := typ) (n := n) h hb
  exact ⟨st', h1, h2, h3, h4, h5, h6, h10, h8, h9, h11⟩

theorem emitAdv_ok {E : Env} {st : St} {typ n : Nat} (h : n ≤ srcLen E st) (hb : st.base ≤ E.text.length) :
    ∃ st', emitAdv E st typ n = .ok st' ∧ Ext E st st' ∧ st'.base = st.base + n ∧ st'.ctx = st.ctx ∧
      st'.tagIndex = st.tagIndex := by
  unfold emitAdv
  obtain ⟨st', h1, h2, h3, _, _, h6, h7, _⟩ := emit_ok (E := E) (st := st) (typ := typ) (n := n) h hb
  simp only [h1, bind_ok, pure_eq_ok]
  exact ⟨addCol st' n, rfl, h2.of_eq rfl rfl, h3, h6, h7⟩

/-! ## hasPrefix -/

theorem hasPrefix_length {s pre : Bytes} (h : hasPrefix s pre = true) : pre.length ≤ s.length := by
  induction pre generalizing s with
  | nil => simp
  | cons a pre ih =>
    cases s with
    | nil => simp [hasPrefix] at h
    | cons b s =>
      simp only [hasPrefix, Bool.and_eq_true] at h
      have := ih h.2
      simp; omega

theorem hasPrefix_getElem {s pre : Bytes} (h : hasPrefix s pre = true) (i : Nat) (hi : i < pre.length) :
    s[i]? = some pre[i] := by
  induction pre generalizing s i with
  | nil => simp at hi
  | cons a pre ih =>
    cases s with
    | nil => simp [hasPrefix] at h
    | cons b s =>
      simp only [hasPrefix, Bool.and_eq_true, beq_iff_eq] at h
      cases i with
      | zero => simp [h.1]
      | succ i =>
        simp only [List.length_cons] at hi
        simpa using ih h.2 i (by omega)

theorem indexSub_bound {sep : Bytes} : ∀ (s : Bytes) (i : Nat), indexSub s sep = some i → i + sep.length ≤ s.length := by
  intro s
  induction s with
  | nil =>
    intro i h
    unfold indexSub at h
    split at h
    · rename_i he
      cases h
      have : sep = [] := by simpa using he
      simp [this]
    · cases h
  | cons x rest ih =>
    intro i h
    unfold indexSub at h
    split at h
    · rename_i hp
      cases h
      have := hasPrefix_length hp
      simpa using this
    · cases hr : indexSub rest sep with
      | none => simp [hr] at h
      | some j =>
        simp [hr] at h
        subst h
        have := ih j hr
        simp; omega

/-! ## the cases -/

theorem caseLT_strict {E : Env} {st : St} {lp : Loop} (hI : LoopInv E st lp) (hlt : lp.p < srcLen E st) :
    ∃ st' lp', caseLT E st lp = .ok (.next st' lp') ∧ NextStrict E st lp st' lp' := by
  unfold caseLT
  simp only []
  -- the CDATA test
  have hcd : ∃ b, (if st.ctx = ContextHTML ∧ lp.p + 8 < srcLen E st then do
        let d ← srcAt E st (lp.p + 1)
        if d = 0x21 then pure (hasPrefix (E.text.drop (st.base + lp.p)) cdataStart) else pure false
      else pure false : Except Fault Bool) = .ok b ∧ (b = true → lp.p + 8 < srcLen E st) := by
    split
    · rename_i h
      obtain ⟨d, hd, _⟩ := srcAt_ok_of_lt (E := E) (st := st) (i := lp.p + 1) (by omega)
      simp only [hd, bind_ok]
      split
      · exact ⟨_, rfl, fun _ => h.2⟩
      · exact ⟨false, rfl, by intro h; cases h⟩
    · exact ⟨false, rfl, by intro h; cases h⟩
  obtain ⟨b, hb, hb'⟩ := hcd
  simp only [hb, bind_ok]
  cases b with
  | true =>
    have h8 := hb' rfl
    simp only [if_true]
    have hs := SameButPos.addCol st 6
    rw [srcFrom_ok (by rw [hs.srcLen]; omega)]
    simp only [bind_ok]
    -- t
    have ht : lp.p + 6 < cdataEndAt (E.text.drop ((addCol st 6).base + (lp.p + 6))) (lp.p + 6) (srcLen E (addCol st 6)) ∧
        cdataEndAt (E.text.drop ((addCol st 6).base + (lp.p + 6))) (lp.p + 6) (srcLen E (addCol st 6)) ≤ srcLen E st := by
      unfold cdataEndAt
      cases hi : indexSub (E.text.drop ((addCol st 6).base + (lp.p + 6))) cdataEnd with
      | none => simp only []; rw [hs.srcLen]; omega
      | some i =>
        simp only []
        have h3 := indexSub_bound _ i hi
        simp only [List.length_drop, cdataEnd, List.length_cons, List.length_nil] at h3
        have hbase : (addCol st 6).base = st.base := rfl
        rw [hbase] at h3
        unfold srcLen
        omega
    generalize cdataEndAt (E.text.drop ((addCol st 6).base + (lp.p + 6))) (lp.p + 6) (srcLen E (addCol st 6)) = t at ht ⊢
    obtain ⟨ht2, ht3⟩ := ht
    obtain ⟨st1, hw, hs1⟩ := walkCode_ok (E := E) (t - (lp.p + 6)) (lp.p + 6) (addCol st 6) (by rw [hs.srcLen]; omega)
    simp only [walk, hw, bind_ok, pure_eq_ok]
    refine ⟨_, _, rfl, ?_⟩
    have hs2 := hs.trans hs1
    refine NextStrict.same hI hs2.base hs2.toks ?_ ?_ ?_ hs2.contexts hs2.bases
    · have := hI.tag_le
      have : st1.tagIndex = st.tagIndex := by rw [hs2]
      rw [this, hs2.base]
      simp only [ht2, if_true]
      omega
    · simp only [ht2, if_true]; omega
    · simp only [ht2, if_true]; exact ht3
  | false =>
    simp only [Bool.false_eq_true, if_false]
    have hs := SameButPos.addCol st 1
    obtain ⟨st1, name, q, h1, h2, h3, h4⟩ := scanTag_ok (E := E) (st := addCol st 1) (p := lp.p + 1) (by rw [hs.srcLen]; omega)
    simp only [h1, bind_ok, pure_eq_ok]
    refine ⟨_, _, rfl, ?_⟩
    have hs2 := hs.trans h2
    rw [hs.srcLen] at h4
    refine NextStrict.same hI ?_ ?_ ?_ ?_ ?_ ?_ ?_
    · split
      · split
        · exact hs2.base
        · split <;> exact hs2.base
      · exact hs2.base
    · split
      · split
        · exact hs2.toks
        · split <;> exact hs2.toks
      · exact hs2.toks
    · have hti : st1.tagIndex = st.tagIndex := by rw [hs2]
      have hbb : st1.base = st.base := hs2.base
      have := hI.tag_le
      split
      · split
        · show st1.tagIndex ≤ st1.base + q; omega
        · split
          · show st1.tagIndex ≤ st1.base + q; omega
          · show st1.tagIndex ≤ st1.base + q; omega
      · show st1.tagIndex ≤ st1.base + q; omega
    · show lp.p < q; omega
    · exact h4
    · (repeat' split) <;> exact hs2.contexts
    · (repeat' split) <;> exact hs2.bases

theorem caseLT_ok {E : Env} {st : St} {lp : Loop} (hI : LoopInv E st lp) (hlt : lp.p < srcLen E st) :
    ∃ o, caseLT E st lp = .ok o ∧ CaseGood E st lp o := by
  obtain ⟨st', lp', h, hs⟩ := caseLT_strict hI hlt
  exact ⟨_, h, hs.good hI⟩

end ScriggoV.Lexer
