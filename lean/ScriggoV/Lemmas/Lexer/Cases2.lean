import ScriggoV.Lemmas.Lexer.Cases
/-! # The remaining cases of the main loop -/
namespace ScriggoV.Lexer
open ScriggoV ScriggoV.Gen.LexTables

theorem peek_drop {E : Env} {st : St} (p i : Nat) : (E.text.drop (st.base + p))[i]? = peek E st (p + i) := by
  unfold peek; rw [List.getElem?_drop]; congr 1; omega

theorem drop_length_srcLen {E : Env} {st : St} {p : Nat} : (E.text.drop (st.base + p)).length = srcLen E st - p := by
  simp [srcLen]; omega

theorem caseMarkdown_ok {E : Env} {st : St} {lp : Loop} (hI : LoopInv E st lp) (hlt : lp.p < srcLen E st) :
    ∃ o, caseMarkdown E st lp = .ok o ∧ CaseGood E st lp o := by
  unfold caseMarkdown
  rw [srcFrom_ok (by omega)]
  simp only [bind_ok]
  have hfall : CaseGood E st lp (.fall st lp) := FallGood.same hI rfl rfl (Nat.le_refl _) (Nat.le_refl _) hlt
  split
  · obtain ⟨b, hb⟩ := isMarkdownEndURL_ok (E.text.drop (st.base + lp.p))
    simp only [hb, bind_ok]
    cases b with
    | false => exact ⟨_, rfl, hfall⟩
    | true =>
      simp only [if_true]
      obtain ⟨st1, h1, e1, b1, c1, t1, _⟩ := flushText_ok hI
      simp only [h1, bind_ok]
      have hs1 : srcLen E st1 = srcLen E st - lp.p := by unfold srcLen; rw [b1]; omega
      obtain ⟨st2, h2, e2, b2, _, _, c2, t2, _⟩ := emit_ok (E := E) (st := st1) (typ := tokenEndURL) (n := 0) (Nat.zero_le _) e1.le_len
      simp only [h2, bind_ok, pure_eq_ok]
      refine ⟨_, rfl, ?_⟩
      have hs2 : srcLen E st2 = srcLen E st - lp.p := by unfold srcLen at hs1 ⊢; rw [b2]; omega
      refine ⟨⟨e2.le_len, Nat.zero_le _, ?_⟩, e1.trans e2, ?_, ?_⟩
      · show st2.tagIndex ≤ st2.base + 0
        have := hI.tag_le; rw [t2, t1, b2, b1]; omega
      · show st.base + lp.p ≤ st2.base + 0; rw [b2, b1]; omega
      · show 0 < srcLen E st2; rw [hs2]; omega
  · -- okPrev
    have hprev : ∃ b, (if lp.p = 0 then pure true else Except.map (fun c => !isAlpha c) (srcAtPred E st lp.p)
        : Except Fault Bool) = .ok b := by
      split
      · exact ⟨true, rfl⟩
      · rename_i hp0
        unfold srcAtPred
        simp only [hp0, if_false]
        have : st.base + (lp.p - 1) < E.text.length := by have := hI.pos_le; omega
        rw [getAt_ok this]
        exact ⟨_, rfl⟩
    obtain ⟨b, hb⟩ := hprev
    simp only [hb, bind_ok]
    split
    · rename_i hcond
      have hurl : isMarkdownStartURL (E.text.drop (st.base + lp.p)) = true := hcond.2
      obtain ⟨st1, h1, e1, b1, c1, t1, _⟩ := flushText_ok hI
      simp only [h1, bind_ok]
      have hs1 : srcLen E st1 = srcLen E st - lp.p := by unfold srcLen; rw [b1]; omega
      obtain ⟨st2, h2, e2, b2, _, _, c2, t2, _⟩ := emit_ok (E := E) (st := st1) (typ := tokenStartURL) (n := 0) (Nat.zero_le _) e1.le_len
      simp only [h2, bind_ok]
      have hs2 : srcLen E st2 = srcLen E st - lp.p := by unfold srcLen at hs1 ⊢; rw [b2]; omega
      have hbase2 : st2.base = st.base + lp.p := by rw [b2, b1]; omega
      -- the prefix
      unfold isMarkdownStartURL at hurl
      have hlen7 : 7 ≤ srcLen E st - lp.p := by
        rw [← drop_length_srcLen]
        rcases Bool.or_eq_true _ _ |>.mp hurl with h | h
        · have := hasPrefix_length h; simp only [https, List.length_cons, List.length_nil] at this; omega
        · have := hasPrefix_length h; simp only [http, List.length_cons, List.length_nil] at this; omega
      obtain ⟨c4, hc4, hp4⟩ := srcAt_ok_of_lt (E := E) (st := st2) (i := 4) (by rw [hs2]; omega)
      simp only [hc4, bind_ok, pure_eq_ok]
      refine ⟨_, rfl, ?_⟩
      have hp4' : (E.text.drop (st.base + lp.p))[4]? = some c4 := by
        rw [peek_drop]; unfold peek at hp4 ⊢; rw [hbase2] at hp4; rw [← hp4, Nat.add_assoc]
      have hp8 : (if c4 = 0x73 then 8 else 7) ≤ srcLen E st - lp.p := by
        split
        · rename_i hs
          rcases Bool.or_eq_true _ _ |>.mp hurl with h | h
          · have := hasPrefix_length h; rw [drop_length_srcLen] at this
            simp only [https, List.length_cons, List.length_nil] at this; omega
          · have h4 := hasPrefix_getElem h 4 (by simp [http])
            rw [hp4'] at h4
            simp [http] at h4
            rw [hs] at h4; cases h4
        · exact hlen7
      refine ⟨⟨e2.le_len, ?_, ?_⟩, e1.trans e2, ?_⟩
      · show (if c4 = 0x73 then 8 else 7) ≤ srcLen E (addCol st2 _); exact hs2 ▸ hp8
      · show st2.tagIndex ≤ st2.base + _
        have := hI.tag_le; rw [t2, t1, hbase2]; omega
      · unfold mu
        show 2 * (E.text.length - (st2.base + (if c4 = 0x73 then 8 else 7))) + attrCtx st2.ctx < _
        have h1 := attrCtx_le st2.ctx
        have h3 : 7 ≤ (if c4 = 0x73 then 8 else 7) := by split <;> omega
        have := hI.pos_le
        rw [hbase2]
        unfold srcLen at hp8
        omega
    · exact ⟨_, rfl, hfall⟩

theorem typeAttr_ok {E : Env} {F : Fixed} {st : St} {lp : Loop} (hI : LoopInv E st lp) :
    ∃ st', typeAttr E F st lp.p = .ok st' ∧ st' = { st with tagCtx := st'.tagCtx } := by
  unfold typeAttr
  have hsl : ∃ typ, sliceOf E.text st.tagIndex (st.base + lp.p) = .ok typ :=
    ⟨_, sliceOf_ok hI.tag_le hI.pos_le⟩
  obtain ⟨typ, htyp⟩ := hsl
  split
  · split
    · simp only [htyp, bind_ok]
      split
      · exact ⟨st, rfl, rfl⟩
      · split
        · split
          · exact ⟨_, rfl, rfl⟩
          · split
            · exact ⟨_, rfl, rfl⟩
            · exact ⟨st, rfl, rfl⟩
        · exact ⟨st, rfl, rfl⟩
    · split
      · simp only [htyp, bind_ok]
        split
        · exact ⟨_, rfl, rfl⟩
        · exact ⟨st, rfl, rfl⟩
      · exact ⟨st, rfl, rfl⟩
  · exact ⟨st, rfl, rfl⟩

theorem attrCtx_tag : attrCtx ContextTag = 0 := by decide

theorem caseAttr_ok {E : Env} {F : Fixed} {st : St} {lp : Loop} {c : UInt8} (hI : LoopInv E st lp)
    (hlt : lp.p < srcLen E st) :
    ∃ o, caseAttr E F st lp c = .ok o ∧ CaseGood E st lp o := by
  unfold caseAttr
  split
  · rename_i hcond
    have hattr : attrCtx st.ctx = 1 := by
      unfold attrCtx
      rcases hcond with h | h
      · simp [h.1]
      · simp [h.1]
    simp only []
    -- the URL / type step
    have hstep : ∃ st1 lp1, (if lp.emittedURL = true then do
          let st ← flushText E st { lp with quote := 0 }
          let st ← emit E st tokenEndURL 0
          pure (st, { resetTok st { lp with quote := 0 } with emittedURL := false })
        else do
          let st ← typeAttr E F st lp.p
          pure (st, { lp with quote := 0 }) : Except Fault (St × Loop)) = .ok (st1, lp1) ∧
        Ext E st st1 ∧ st1.base + lp1.p = st.base + lp.p ∧ st1.tagIndex ≤ st.tagIndex ∧ lp1.p < srcLen E st1 := by
      split
      · have hI' : LoopInv E st { lp with quote := 0 } := ⟨hI.base_le, hI.p_le, hI.tag_le⟩
        obtain ⟨st1, h1, e1, b1, c1, t1, _⟩ := flushText_ok hI'
        simp only [h1, bind_ok]
        obtain ⟨st2, h2, e2, b2, _, _, c2, t2, _⟩ := emit_ok (E := E) (st := st1) (typ := tokenEndURL) (n := 0) (Nat.zero_le _) e1.le_len
        simp only [h2, bind_ok, pure_eq_ok]
        refine ⟨_, _, rfl, e1.trans e2, ?_, ?_, ?_⟩
        · show st2.base + 0 = _; rw [b2, b1]; rfl
        · rw [t2, t1]; exact Nat.le_refl _
        · show 0 < srcLen E st2
          unfold srcLen at hlt ⊢; rw [b2, b1]; show 0 < _ - (st.base + lp.p + 0); omega
      · obtain ⟨st1, h1, hs1⟩ := typeAttr_ok (F := F) hI
        simp only [h1, bind_ok, pure_eq_ok]
        refine ⟨_, _, rfl, (Ext.refl hI.base_le).of_eq (by rw [hs1]) (by rw [hs1]) (by rw [hs1]) (by rw [hs1]), ?_, ?_, ?_⟩
        · show st1.base + lp.p = _; rw [hs1]
        · rw [hs1]; exact Nat.le_refl _
        · show lp.p < srcLen E st1; unfold srcLen at hlt ⊢; rw [hs1]; exact hlt
    obtain ⟨st1, lp1, h1, e1, hpos, hti, hlt1⟩ := hstep
    simp only [h1, bind_ok]
    have hI1 : LoopInv E { st1 with ctx := ContextTag, tagAttr := [], tagIndex := 0 } lp1 :=
      ⟨e1.le_len, by show lp1.p ≤ srcLen E st1; omega, Nat.zero_le _⟩
    split
    · refine ⟨_, rfl, hI1, e1.of_eq rfl rfl, ?_⟩
      unfold mu
      show 2 * (E.text.length - (st1.base + lp1.p)) + attrCtx ContextTag < _
      rw [attrCtx_tag, hpos, hattr]; omega
    · exact ⟨_, rfl, hI1, e1.of_eq rfl rfl, by show st.base + lp.p ≤ st1.base + lp1.p; omega, hlt1⟩
  · exact ⟨_, rfl, FallGood.same hI rfl rfl (Nat.le_refl _) (Nat.le_refl _) hlt⟩

theorem endStyleAt_ok {E : Env} {F : Fixed} {st : St} {lp : Loop} {c : UInt8} (hlt : lp.p < srcLen E st) :
    ∃ b, endStyleAt E F st lp c = .ok b ∧ (b = true → lp.p + 8 ≤ srcLen E st) := by
  unfold endStyleAt
  split
  · rw [srcFrom_ok (by omega)]
    simp only [bind_ok]
    obtain ⟨b, hb⟩ := isEndStyle_ok (E.text.drop (st.base + lp.p))
    refine ⟨b, hb, ?_⟩
    intro hbt; subst hbt
    have := isEndStyle_true hb
    rw [drop_length_srcLen] at this; omega
  · exact ⟨false, rfl, by intro h; cases h⟩

theorem endScriptAt_ok {E : Env} {F : Fixed} {st : St} {lp : Loop} {c : UInt8} (hlt : lp.p < srcLen E st) :
    ∃ b, endScriptAt E F st lp c = .ok b ∧ (b = true → lp.p + 9 ≤ srcLen E st) := by
  unfold endScriptAt
  split
  · rw [srcFrom_ok (by omega)]
    simp only [bind_ok]
    obtain ⟨b, hb⟩ := isEndScript_ok (E.text.drop (st.base + lp.p))
    refine ⟨b, hb, ?_⟩
    intro hbt; subst hbt
    have := isEndScript_true hb
    rw [drop_length_srcLen] at this; omega
  · exact ⟨false, rfl, by intro h; cases h⟩

/-- a `fall` that changes only fields other than `base`, `toks`, `tagIndex` and moves `p` by `k` -/
theorem fall_same {E : Env} {st st' : St} {lp lp' : Loop} (hI : LoopInv E st lp)
    (hb : st'.base = st.base) (ht : st'.toks = st.toks) (hti : st'.tagIndex = st.tagIndex)
    (hp : lp.p ≤ lp'.p) (hlt : lp'.p < srcLen E st)
    (hcx : st'.contexts = st.contexts := by rfl) (hbs : st'.bases = st.bases := by rfl) :
    CaseGood E st lp (.fall st' lp') :=
  FallGood.same hI hb ht (by rw [hti]; exact Nat.le_refl _) hp hlt hcx hbs

theorem caseCSS_ok {E : Env} {F : Fixed} {st : St} {lp : Loop} {c : UInt8} (hI : LoopInv E st lp)
    (hlt : lp.p < srcLen E st) :
    ∃ o, caseCSS E F st lp c = .ok o ∧ CaseGood E st lp o := by
  unfold caseCSS
  obtain ⟨b, hb, hb'⟩ := endStyleAt_ok (E := E) (F := F) (st := st) (lp := lp) (c := c) hlt
  split
  · simp only [hb, bind_ok]
    cases b with
    | true =>
      have := hb' rfl
      exact ⟨_, rfl, fall_same hI rfl rfl rfl (by show lp.p ≤ lp.p + 6; omega) (by show lp.p + 6 < _; omega)⟩
    | false =>
      simp only [Bool.false_eq_true, if_false]
      split
      · exact ⟨_, rfl, fall_same hI rfl rfl rfl (Nat.le_refl _) hlt⟩
      · exact ⟨_, rfl, fall_same hI rfl rfl rfl (Nat.le_refl _) hlt⟩
  · split
    · split
      · rename_i hpk
        have := hpk.elim peek_some_lt_srcLen peek_some_lt_srcLen
        exact ⟨_, rfl, fall_same hI rfl rfl rfl (by show lp.p ≤ lp.p + 1; omega) (by show lp.p + 1 < _; omega)⟩
      · exact ⟨_, rfl, fall_same hI rfl rfl rfl (Nat.le_refl _) hlt⟩
    · split
      · exact ⟨_, rfl, fall_same hI rfl rfl rfl (Nat.le_refl _) hlt⟩
      · split
        · simp only [hb, bind_ok]
          cases b with
          | true =>
            have := hb' rfl
            exact ⟨_, rfl, fall_same hI rfl rfl rfl (by show lp.p ≤ lp.p + 6; omega) (by show lp.p + 6 < _; omega)⟩
          | false => exact ⟨_, rfl, fall_same hI rfl rfl rfl (Nat.le_refl _) hlt⟩
        · exact ⟨_, rfl, fall_same hI rfl rfl rfl (Nat.le_refl _) hlt⟩

theorem caseJS_ok {E : Env} {F : Fixed} {st : St} {lp : Loop} {c : UInt8} (hI : LoopInv E st lp)
    (hlt : lp.p < srcLen E st) :
    ∃ o, caseJS E F st lp c = .ok o ∧ CaseGood E st lp o := by
  unfold caseJS
  obtain ⟨b, hb, hb'⟩ := endScriptAt_ok (E := E) (F := F) (st := st) (lp := lp) (c := c) hlt
  simp only [hb, bind_ok]
  cases b with
  | true =>
    have := hb' rfl
    exact ⟨_, rfl, fall_same hI rfl rfl rfl (by show lp.p ≤ lp.p + 7; omega) (by show lp.p + 7 < _; omega)⟩
  | false =>
    simp only [Bool.false_eq_true, if_false]
    split
    · split
      · exact ⟨_, rfl, fall_same hI rfl rfl rfl (Nat.le_refl _) hlt⟩
      · exact ⟨_, rfl, fall_same hI rfl rfl rfl (Nat.le_refl _) hlt⟩
    · split
      · split
        · rename_i hpk
          have := peekIs_lt hpk.2
          exact ⟨_, rfl, fall_same hI rfl rfl rfl (by show lp.p ≤ lp.p + 1; omega) (by show lp.p + 1 < _; omega)⟩
        · exact ⟨_, rfl, fall_same hI rfl rfl rfl (Nat.le_refl _) hlt⟩
      · split
        · rename_i hc
          split
          · exact ⟨_, rfl, fall_same hI rfl rfl rfl (by show lp.p ≤ lp.p + 1; omega) (by show lp.p + 1 < _; omega)⟩
          · exact ⟨_, rfl, fall_same hI rfl rfl rfl (by show lp.p ≤ lp.p + 1; omega) (by show lp.p + 1 < _; omega)⟩
          · exact ⟨_, rfl, fall_same hI rfl rfl rfl (Nat.le_refl _) hlt⟩
        · split
          · exact ⟨_, rfl, fall_same hI rfl rfl rfl (Nat.le_refl _) hlt⟩
          · exact ⟨_, rfl, fall_same hI rfl rfl rfl (Nat.le_refl _) hlt⟩

theorem caseJSString_ok {E : Env} {F : Fixed} {st : St} {lp : Loop} {c : UInt8} (back : Nat) (q : UInt8)
    (hI : LoopInv E st lp) (hlt : lp.p < srcLen E st) :
    ∃ o, caseJSString E F st lp c back q = .ok o ∧ CaseGood E st lp o := by
  unfold caseJSString
  split
  · split
    · rename_i hpk
      have := hpk.elim peek_some_lt_srcLen peek_some_lt_srcLen
      exact ⟨_, rfl, fall_same hI rfl rfl rfl (by show lp.p ≤ lp.p + 1; omega) (by show lp.p + 1 < _; omega)⟩
    · exact ⟨_, rfl, fall_same hI rfl rfl rfl (Nat.le_refl _) hlt⟩
  · split
    · exact ⟨_, rfl, fall_same hI rfl rfl rfl (Nat.le_refl _) hlt⟩
    · split
      · obtain ⟨b, hb, hb'⟩ := endScriptAt_ok (E := E) (F := F) (st := st) (lp := lp) (c := c) hlt
        simp only [hb, bind_ok]
        cases b with
        | true =>
          have := hb' rfl
          exact ⟨_, rfl, fall_same hI rfl rfl rfl (by show lp.p ≤ lp.p + 7; omega) (by show lp.p + 7 < _; omega)⟩
        | false => exact ⟨_, rfl, fall_same hI rfl rfl rfl (Nat.le_refl _) hlt⟩
      · exact ⟨_, rfl, fall_same hI rfl rfl rfl (Nat.le_refl _) hlt⟩

theorem caseJSON_ok {E : Env} {F : Fixed} {st : St} {lp : Loop} {c : UInt8} (hI : LoopInv E st lp)
    (hlt : lp.p < srcLen E st) :
    ∃ o, caseJSON E F st lp c = .ok o ∧ CaseGood E st lp o := by
  unfold caseJSON
  obtain ⟨b, hb, hb'⟩ := endScriptAt_ok (E := E) (F := F) (st := st) (lp := lp) (c := c) hlt
  simp only [hb, bind_ok]
  cases b with
  | true =>
    have := hb' rfl
    exact ⟨_, rfl, fall_same hI rfl rfl rfl (by show lp.p ≤ lp.p + 7; omega) (by show lp.p + 7 < _; omega)⟩
  | false =>
    simp only [Bool.false_eq_true, if_false]
    split
    · exact ⟨_, rfl, fall_same hI rfl rfl rfl (Nat.le_refl _) hlt⟩
    · exact ⟨_, rfl, fall_same hI rfl rfl rfl (Nat.le_refl _) hlt⟩

end ScriggoV.Lexer
