import ScriggoV.Lemmas.Lexer.Comment
/-! # `decodeRune` sizes, `allM`, `skipRawSpaces`, `endRawIndex`, `skipRawContent` -/
namespace ScriggoV.Lexer
open ScriggoV ScriggoV.Gen.LexTables

theorem decodeRune_size (l : Bytes) : (decodeRune l).2 ≤ l.length ∧ (l ≠ [] → 1 ≤ (decodeRune l).2) := by
  unfold decodeRune
  split
  · simp
  · simp only [List.length_cons, ne_eq, reduceCtorEq, not_false_eq_true, forall_const]
    repeat' split
    all_goals simp

theorem decodeRune_size_le (l : Bytes) : (decodeRune l).2 ≤ l.length := (decodeRune_size l).1
theorem decodeRune_size_pos {l : Bytes} (h : l ≠ []) : 1 ≤ (decodeRune l).2 := (decodeRune_size l).2 h

theorem decodeRune_drop {t : Bytes} {i : Nat} (h : i < t.length) :
    1 ≤ (decodeRune (t.drop i)).2 ∧ i + (decodeRune (t.drop i)).2 ≤ t.length := by
  have h1 := decodeRune_size (t.drop i)
  have hne : t.drop i ≠ [] := by
    intro he
    have : (t.drop i).length = 0 := by rw [he]; rfl
    simp at this; omega
  refine ⟨h1.2 hne, ?_⟩
  have := h1.1
  simp at this; omega

/-! ## allM -/

theorem allM_ok_cons (g : Bool) (rest : List (Except Fault Bool)) :
    allM (.ok g :: rest) = if g then allM rest else .ok false := by
  cases g <;> simp [allM]

theorem allM_all_ok {l : List (Except Fault Bool)} (h : ∀ x ∈ l, ∃ b, x = .ok b) : ∃ b, allM l = .ok b := by
  induction l with
  | nil => exact ⟨true, rfl⟩
  | cons x rest ih =>
    obtain ⟨b, hb⟩ := h x (by simp)
    subst hb
    rw [allM_ok_cons]
    cases b
    · exact ⟨false, rfl⟩
    · simp only [if_true]
      exact ih (fun y hy => h y (by simp [hy]))

theorem at_ok {s : Bytes} {i : Nat} (pred : UInt8 → Bool) (h : i < s.length) : ∃ b, at_ s i pred = .ok b := by
  unfold at_; rw [getAt_ok h]; exact ⟨_, rfl⟩

/-- a guarded conjunction: the first conjunct is the bound that makes the others safe -/
theorem allM_guard {g : Bool} {rest : List (Except Fault Bool)}
    (h : g = true → ∀ x ∈ rest, ∃ b, x = .ok b) : ∃ b, allM (.ok g :: rest) = .ok b := by
  rw [allM_ok_cons]
  cases g
  · exact ⟨false, rfl⟩
  · simp only [if_true]; exact allM_all_ok (h rfl)

theorem isEndStyle_ok (s : Bytes) : ∃ b, isEndStyle s = .ok b := by
  unfold isEndStyle
  apply allM_guard
  intro h
  have h8 : 8 ≤ s.length := by simpa using h
  intro x hx
  simp only [List.mem_cons, List.mem_nil_iff, or_false] at hx
  rcases hx with rfl | rfl | rfl | rfl | rfl | rfl | rfl | rfl <;> exact at_ok _ (by omega)

theorem isEndScript_ok (s : Bytes) : ∃ b, isEndScript s = .ok b := by
  unfold isEndScript
  apply allM_guard
  intro h
  have h9 : 9 ≤ s.length := by simpa using h
  intro x hx
  simp only [List.mem_cons, List.mem_nil_iff, or_false] at hx
  rcases hx with rfl | rfl | rfl | rfl | rfl | rfl | rfl | rfl | rfl <;> exact at_ok _ (by omega)

theorem isEndStyle_true {s : Bytes} (h : isEndStyle s = .ok true) : 8 ≤ s.length := by
  unfold isEndStyle at h
  rw [allM_ok_cons] at h
  split at h
  · rename_i hg; simpa using hg
  · cases h

theorem isEndScript_true {s : Bytes} (h : isEndScript s = .ok true) : 9 ≤ s.length := by
  unfold isEndScript at h
  rw [allM_ok_cons] at h
  split at h
  · rename_i hg; simpa using hg
  · cases h

theorem isMarkdownEndURL_ok (s : Bytes) : ∃ b, isMarkdownEndURL s = .ok b := by
  unfold isMarkdownEndURL
  split
  · exact ⟨true, rfl⟩
  · rename_i hne
    have h0 : 0 < s.length := by omega
    simp only [getAt_ok h0, bind_ok]
    split
    · split
      · exact ⟨_, rfl⟩
      · rename_i h1
        have : 1 < s.length := by omega
        simp only [getAt_ok this, Except.map, bind_ok]
        exact ⟨_, rfl⟩
    · exact ⟨_, rfl⟩

/-! ## raw content -/

theorem skipRawSpaces_bounds (U : Unicode) (src : Bytes) : ∀ (fuel p : Nat), p ≤ src.length →
    p ≤ skipRawSpaces U src fuel p ∧ skipRawSpaces U src fuel p ≤ src.length := by
  intro fuel
  induction fuel with
  | zero => intro p h; simp [skipRawSpaces, h]
  | succ fuel ih =>
    intro p h
    unfold skipRawSpaces
    split
    · rename_i hlt
      have hd := decodeRune_drop hlt
      cases hrs : decodeRune (src.drop p) with
      | mk r s =>
        rw [hrs] at hd
        simp only []
        split
        · have := ih (p + s) hd.2
          constructor <;> omega
        · exact ⟨Nat.le_refl _, h⟩
    · exact ⟨Nat.le_refl _, h⟩

theorem isRawEnd_ok (U : Unicode) (src marker : Bytes) (p : Nat) : ∃ b, isRawEnd U src marker p = .ok b := by
  unfold isRawEnd
  simp only []
  split
  · exact ⟨false, rfl⟩
  · rename_i h1
    have hp1 : p + 1 < src.length := by omega
    simp only [getAt_ok hp1, bind_ok]
    split
    · exact ⟨false, rfl⟩
    · -- 'end'
      have hi := skipRawSpaces_bounds U src (src.length + 1) (p + 2) (by omega)
      generalize skipRawSpaces U src (src.length + 1) (p + 2) = i at hi ⊢
      have hend : ∃ b, allM [.ok (decide (¬ src.length < i + 3)), at_ src i (· == 0x65), at_ src (i + 1) (· == 0x6e),
          at_ src (i + 2) (· == 0x64)] = .ok b ∧ (b = true → i + 3 ≤ src.length) := by
        rw [allM_ok_cons]
        split
        · rename_i hg
          have hg' : i + 3 ≤ src.length := by simpa using hg
          obtain ⟨b, hb⟩ := allM_all_ok (l := [at_ src i (· == 0x65), at_ src (i + 1) (· == 0x6e), at_ src (i + 2) (· == 0x64)])
            (by intro x hx
                simp only [List.mem_cons, List.mem_nil_iff, or_false] at hx
                rcases hx with rfl | rfl | rfl <;> exact at_ok _ (by omega))
          exact ⟨b, hb, fun _ => hg'⟩
        · exact ⟨false, rfl, by intro h; cases h⟩
      obtain ⟨b1, hb1, hb1'⟩ := hend
      simp only [hb1, bind_ok]
      cases b1 with
      | false => exact ⟨false, rfl⟩
      | true =>
        have h3 := hb1' rfl
        simp only [Bool.not_true, Bool.false_eq_true, if_false]
        have hj := skipRawSpaces_bounds U src (src.length + 1) (i + 3) h3
        generalize skipRawSpaces U src (src.length + 1) (i + 3) = j at hj ⊢
        have hj0 : ¬ j = 0 := by omega
        have hjm : j - 1 < src.length := by omega
        simp only [hj0, if_false, getAt_ok hjm, bind_ok]
        -- 'raw'
        have hraw : ∃ b, allM [.ok (isSpace src[j - 1]), .ok (decide (src.length ≥ j + 3)), at_ src j (· == 0x72),
            at_ src (j + 1) (· == 0x61), at_ src (j + 2) (· == 0x77)] = .ok b ∧ (b = true → j + 3 ≤ src.length) := by
          rw [allM_ok_cons]
          split
          · rw [allM_ok_cons]
            split
            · rename_i _ hg
              have hg' : j + 3 ≤ src.length := by simpa using hg
              obtain ⟨b, hb⟩ := allM_all_ok (l := [at_ src j (· == 0x72), at_ src (j + 1) (· == 0x61), at_ src (j + 2) (· == 0x77)])
                (by intro x hx
                    simp only [List.mem_cons, List.mem_nil_iff, or_false] at hx
                    rcases hx with rfl | rfl | rfl <;> exact at_ok _ (by omega))
              exact ⟨b, hb, fun _ => hg'⟩
            · exact ⟨false, rfl, by intro h; cases h⟩
          · exact ⟨false, rfl, by intro h; cases h⟩
        obtain ⟨b2, hb2, hb2'⟩ := hraw
        simp only [hb2, bind_ok]
        -- position after the optional 'raw'
        have hk : ∃ k, (if b2 = true then skipRawSpaces U src (src.length + 1) (j + 3) else j) = k ∧ k ≤ src.length := by
          cases b2 with
          | true =>
            have := skipRawSpaces_bounds U src (src.length + 1) (j + 3) (hb2' rfl)
            exact ⟨_, rfl, this.2⟩
          | false => exact ⟨j, rfl, hj.2⟩
        obtain ⟨k, hk1, hk2⟩ := hk
        simp only [hk1]
        -- marker
        have hm : ∃ r, (if marker.length > 0 then
              if src.length < k + marker.length then pure none
              else do
                let m ← sliceOf src k (k + marker.length)
                if m ≠ marker then pure none else pure (some (skipRawSpaces U src (src.length + 1) (k + marker.length)))
            else pure (some k) : Except Fault (Option Nat)) = .ok r ∧ ∀ q, r = some q → q ≤ src.length := by
          split
          · split
            · exact ⟨none, rfl, by intro q h; cases h⟩
            · rename_i hlen
              have hlen' : k + marker.length ≤ src.length := by omega
              simp only [sliceOf_ok (Nat.le_add_right k marker.length) hlen', bind_ok]
              split
              · exact ⟨none, rfl, by intro q h; cases h⟩
              · refine ⟨_, rfl, ?_⟩
                intro q h
                cases h
                exact (skipRawSpaces_bounds U src (src.length + 1) (k + marker.length) hlen').2
          · exact ⟨some k, rfl, by intro q h; cases h; exact hk2⟩
        obtain ⟨r, hr, hr'⟩ := hm
        simp only [hr, bind_ok]
        cases r with
        | none => exact ⟨false, rfl⟩
        | some q =>
          have hq := hr' q rfl
          simp only []
          apply allM_guard
          intro hg
          have hg' : q + 2 ≤ src.length := by
            have : ¬ src.length < q + 2 := by simpa using hg
            omega
          intro x hx
          simp only [List.mem_cons, List.mem_nil_iff, or_false] at hx
          rcases hx with rfl | rfl <;> exact at_ok _ (by omega)

theorem endRawIndex_ok (U : Unicode) (src marker : Bytes) : ∀ (fuel i : Nat), src.length - i < fuel →
    ∃ r, endRawIndex U src marker fuel i = .ok r ∧ ∀ p, r = some p → p < src.length := by
  intro fuel
  induction fuel with
  | zero => intro i h; omega
  | succ fuel ih =>
    intro i hf
    unfold endRawIndex
    split
    · rename_i hlt
      cases hj : indexByte (src.drop i) 0x7b with
      | none => exact ⟨none, rfl, by intro p h; cases h⟩
      | some j =>
        have hjl := indexByte_lt hj
        simp at hjl
        simp only []
        obtain ⟨b, hb⟩ := isRawEnd_ok U src marker (i + j)
        simp only [hb, bind_ok]
        cases b with
        | true => exact ⟨some (i + j), rfl, by intro p h; cases h; omega⟩
        | false =>
          simp only [Bool.false_eq_true, if_false]
          exact ih (i + j + 1) (by omega)
    · exact ⟨none, rfl, by intro p h; cases h⟩

theorem skipRawContent_ok {E : Env} {st : St} (marker : Bytes) :
    ∃ st' p, skipRawContent E st marker = .ok (st', p) ∧ SameButPos st st' ∧ p ≤ srcLen E st := by
  unfold skipRawContent
  simp only []
  obtain ⟨r, hr, hr'⟩ := endRawIndex_ok E.U (E.text.drop st.base) marker ((E.text.drop st.base).length + 2) 0 (by omega)
  simp only [hr, bind_ok]
  have hlen : (E.text.drop st.base).length = srcLen E st := by simp [srcLen]
  have key : ∀ p, p ≤ srcLen E st →
      ∃ st' q, (do let st ← walk E p 0 st; pure (st, p) : Except Fault (St × Nat)) = .ok (st', q) ∧
        SameButPos st st' ∧ q ≤ srcLen E st := by
    intro p hp
    obtain ⟨st1, hw, hs⟩ := walkCode_ok (E := E) p 0 st (by omega)
    simp only [walk, hw, bind_ok]
    exact ⟨st1, p, rfl, hs, hp⟩
  match r, hr' with
  | some 0, _ => exact ⟨st, 0, rfl, SameButPos.refl st, Nat.zero_le _⟩
  | some (n + 1), hr' =>
    have := hr' (n + 1) rfl
    simp only [Option.getD]
    exact key (n + 1) (by omega)
  | none, _ =>
    simp only [Option.getD]
    exact key (srcLen E st) (Nat.le_refl _)

end ScriggoV.Lexer
