import ScriggoV.Lemmas.Lexer.Loop
/-! # `scan`: shebang line, template body, final tokens -/
namespace ScriggoV.Lexer
open ScriggoV ScriggoV.Gen.LexTables

theorem shebang_ok {E : Env} {st : St} (hb : st.base ≤ E.text.length) :
    ∃ st', shebang E st = .ok st' ∧ Ext E st st' ∧ st'.tagIndex = st.tagIndex ∧ st'.ctx = st.ctx := by
  unfold shebang
  split
  · rename_i h
    obtain ⟨c0, hc0, _⟩ := srcAt_ok_of_lt (E := E) (st := st) (i := 0) (by omega)
    simp only [hc0, bind_ok]
    have hbang : ∃ b, (if c0 = 0x23 then Except.map (· == (0x21 : UInt8)) (srcAt E st 1) else pure false
        : Except Fault Bool) = .ok b := by
      split
      · obtain ⟨c1, hc1, _⟩ := srcAt_ok_of_lt (E := E) (st := st) (i := 1) (by omega)
        rw [hc1]; exact ⟨_, rfl⟩
      · exact ⟨false, rfl⟩
    obtain ⟨b, hbb⟩ := hbang
    simp only [hbb, bind_ok]
    cases b with
    | false => exact ⟨st, rfl, Ext.refl hb, rfl, rfl⟩
    | true =>
      simp only [if_true]
      cases hi : indexByte (E.text.drop st.base) 0x0a with
      | some t =>
        simp only []
        have := indexByte_lt hi
        simp at this
        obtain ⟨st1, h1, e1, _, _, _, c1, t1, _⟩ := emit_ok (E := E) (st := st) (typ := tokenShebangLine) (n := t + 1)
          (by unfold srcLen; omega) hb
        simp only [h1, bind_ok, pure_eq_ok]
        exact ⟨_, rfl, e1.of_eq rfl rfl, t1, c1⟩
      | none =>
        simp only []
        have hs := SameButPos.addCol st ((E.text.drop st.base).countP isStartChar)
        obtain ⟨st1, h1, e1, _, _, _, c1, _, _, _, t1, _⟩ := emitAt_ok (E := E)
          (st := addCol st ((E.text.drop st.base).countP isStartChar)) (line := (addCol st ((E.text.drop st.base).countP isStartChar)).line)
          (col := st.col) (typ := tokenShebangLine) (n := srcLen E (addCol st ((E.text.drop st.base).countP isStartChar)))
          (Nat.le_refl _) hb
        exact ⟨st1, h1, (hs.ext hb).trans e1, by rw [t1]; rfl, by rw [c1]; rfl⟩
  · exact ⟨st, rfl, Ext.refl hb, rfl, rfl⟩

theorem scanTemplateFrom_ok {E : Env} (hC : CodeSpec E) {st : St} (hb : st.base ≤ E.text.length)
    (hB : Bal st) (hti : st.tagIndex ≤ st.base) :
    ∃ st' e, scanTemplateFrom E st = .ok (st', e) ∧ Ext E st st' := by
  unfold scanTemplateFrom
  simp only []
  -- the state and position after the optional code block indentation
  have hinit : ∃ p0 st0, (if st.ctx = ContextMarkdown then
        ((scanCodeBlock E st 0).1, { (scanCodeBlock E st 0).2.2 with ctx := (scanCodeBlock E st 0).2.1 })
      else (0, st)) = (p0, st0) ∧ st0.base = st.base ∧ st0.toks = st.toks ∧ st0.tagIndex = st.tagIndex ∧
      p0 ≤ srcLen E st ∧ st0.contexts = st.contexts ∧ st0.bases = st.bases := by
    split
    · obtain ⟨hs, _, h2⟩ := scanCodeBlock_ok (E := E) st 0 (Nat.zero_le _)
      exact ⟨_, _, rfl, hs.base, hs.toks, by show (scanCodeBlock E st 0).2.2.tagIndex = _; rw [hs], h2,
        hs.contexts, hs.bases⟩
    · exact ⟨0, st, rfl, rfl, rfl, rfl, Nat.zero_le _, rfl, rfl⟩
  obtain ⟨p0, st0, hi, hb0, ht0, hti0, hp0, hcx0, hbs0⟩ := hinit
  have hi' : (if st.ctx = ContextMarkdown then
      match scanCodeBlock E st 0 with
      | (p, ctx, st) => (p, { st with ctx := ctx })
      else (0, st)) = (p0, st0) := by
    rw [← hi]
  simp only [hi']
  have hs0 : srcLen E st0 = srcLen E st := by unfold srcLen; rw [hb0]
  generalize hlp : ({ p := p0, lin := st.line, tcol := st.col, quote := 0, emittedURL := false, jsComment := 0, spacesOnly := true } : Loop) = lp0
  have hlp0 : lp0.p = p0 := by rw [← hlp]
  have hI : LoopInv E st0 lp0 := ⟨hb0 ▸ hb, by rw [hs0, hlp0]; exact hp0, by rw [hti0, hb0, hlp0]; omega⟩
  obtain ⟨st1, lp1, e, hml, e1, hend⟩ := mainLoop_ok hC
    (mainFuel E) st0 lp0 hI (by unfold Bal at *; rw [hcx0, hbs0]; exact hB) (by
      unfold mu mainFuel
      have := attrCtx_le st0.ctx
      omega)
  simp only [hml, bind_ok]
  have e01 : Ext E st st1 := ((Ext.refl hb).of_eq hb0 ht0 hcx0 hbs0).trans e1
  cases e with
  | some err => exact ⟨_, _, rfl, e01⟩
  | none =>
    simp only []
    have hp := hend rfl
    -- the last text
    have h2 : ∃ st2, (if srcLen E st1 > 0 then emitAt E st1 lp1.lin lp1.tcol tokenText lp1.p else pure st1) = .ok st2 ∧
        Ext E st1 st2 := by
      split
      · obtain ⟨st2, h, ex, _⟩ := emitAt_ok (E := E) (st := st1) (line := lp1.lin) (col := lp1.tcol) (typ := tokenText)
          (n := lp1.p) (by omega) e1.le_len
        exact ⟨st2, h, ex⟩
      · exact ⟨st1, rfl, Ext.refl e1.le_len⟩
    obtain ⟨st2, h2, e2⟩ := h2
    simp only [h2, bind_ok]
    have h3 : ∃ st3, (if st2.ctx = ContextMarkdown ∧ lp1.emittedURL = true then emit E st2 tokenEndURL 0 else pure st2) = .ok st3 ∧
        Ext E st2 st3 := by
      split
      · obtain ⟨st3, h, ex, _⟩ := emit_ok (E := E) (st := st2) (typ := tokenEndURL) (n := 0) (Nat.zero_le _) e2.le_len
        exact ⟨st3, h, ex⟩
      · exact ⟨st2, rfl, Ext.refl e2.le_len⟩
    obtain ⟨st3, h3, e3⟩ := h3
    simp only [pure_eq_ok] at h3 ⊢
    simp only [h3, bind_ok]
    exact ⟨_, _, rfl, (e01.trans e2).trans e3⟩

theorem scanTemplateBody_ok {E : Env} (hC : CodeSpec E) {st : St} (hb : st.base ≤ E.text.length)
    (hB : Bal st) (hti : st.tagIndex ≤ st.base) :
    ∃ st' e, scanTemplateBody E st = .ok (st', e) ∧ Ext E st st' := by
  unfold scanTemplateBody
  obtain ⟨st', e, h, ex⟩ := scanTemplateFrom_ok hC (st := { st with lbase := st.ctx }) hb hB hti
  exact ⟨st', e, h, (Ext.refl hb).trans (ex : Ext E { st with lbase := st.ctx } st') |>.of_eq rfl rfl⟩

theorem initSt_ext (E : Env) (ctx tagCtx : Nat) : (initSt ctx tagCtx).base ≤ E.text.length := Nat.zero_le _

/-- `scan` never faults and its tokens lie one after the other inside the text -/
theorem scanWith_ok {E : Env} (hC : CodeSpec E) (ctx : Nat) :
    ∃ toks e, scanWith E ctx = .ok (toks, e) ∧ TokensIn toks.reverse 0 E.text.length := by
  unfold scanWith
  simp only []
  generalize hinit : initSt ctx (if (!E.tmpl) = true then ContextText else if ctx = ContextMarkdown then ContextMarkdown else ContextHTML) = st0
  have hb0 : st0.base = 0 := by rw [← hinit]; rfl
  have ht0 : st0.toks = [] := by rw [← hinit]; rfl
  have hti0 : st0.tagIndex = 0 := by rw [← hinit]; rfl
  have hB0 : Bal st0 := by rw [← hinit]; rfl
  obtain ⟨st1, h1, e1, t1, _⟩ := shebang_ok (E := E) (st := st0) (by rw [hb0]; exact Nat.zero_le _)
  simp only [h1, bind_ok]
  have hbody : ∃ st2 err, (if E.tmpl = true then scanTemplateBody E st1 else lexCode E tokenEOF st1) = .ok (st2, err) ∧ Ext E st1 st2 := by
    split
    · exact scanTemplateBody_ok hC e1.le_len (e1.bal hB0) (by rw [t1, hti0]; exact Nat.zero_le _)
    · obtain ⟨st2, err, h, ex, _⟩ := hC.lexCode_ok tokenEOF st1 e1.le_len (e1.bal hB0)
      exact ⟨st2, err, h, ex⟩
  obtain ⟨st2, err, h2, e2⟩ := hbody
  simp only [h2, bind_ok]
  have fin : ∀ s : St, Ext E st0 s → TokensIn s.toks.reverse.reverse 0 E.text.length := by
    intro s hs
    obtain ⟨hl, ⟨new, hnew, hin⟩, _⟩ := hs
    rw [List.reverse_reverse, hnew, ht0, List.append_nil]
    rw [hb0] at hin
    exact hin.mono hl
  cases err with
  | some e => exact ⟨_, _, rfl, fin st2 (e1.trans e2)⟩
  | none =>
    simp only []
    obtain ⟨st3, h3, e3, _⟩ := emit_ok (E := E) (st := st2) (typ := tokenEOF) (n := 0) (Nat.zero_le _) e2.le_len
    simp only [h3, bind_ok, pure_eq_ok]
    exact ⟨_, _, rfl, fin st3 ((e1.trans e2).trans e3)⟩

end ScriggoV.Lexer
