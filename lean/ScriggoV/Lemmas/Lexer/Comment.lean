import ScriggoV.Lemmas.Lexer.Basic
/-! # `walk`, `lexComment`: no fault, termination (fuel suffices), extension -/
namespace ScriggoV.Lexer
open ScriggoV ScriggoV.Gen.LexTables

theorem indexByte_lt {s : Bytes} {c : UInt8} {i : Nat} (h : indexByte s c = some i) : i < s.length := by
  induction s generalizing i with
  | nil => simp [indexByte] at h
  | cons x rest ih =>
    unfold indexByte at h
    split at h
    · cases h; simp
    · cases hr : indexByte rest c with
      | none => simp [hr] at h
      | some j =>
        simp [hr] at h
        subst h
        have := ih hr
        simp; omega

/-- `st'` is `st` with another line and column -/
def SameButPos (st st' : St) : Prop := st' = { st with line := st'.line, col := st'.col }

theorem SameButPos.refl (st : St) : SameButPos st st := rfl
theorem SameButPos.trans {a b c : St} (h1 : SameButPos a b) (h2 : SameButPos b c) : SameButPos a c := by
  unfold SameButPos at *; rw [h2, h1]
theorem SameButPos.newline (st : St) : SameButPos st (newline st) := rfl
theorem SameButPos.addCol (st : St) (n : Nat) : SameButPos st (addCol st n) := rfl
theorem SameButPos.base {a b : St} (h : SameButPos a b) : b.base = a.base := by rw [h]
theorem SameButPos.toks {a b : St} (h : SameButPos a b) : b.toks = a.toks := by rw [h]
theorem SameButPos.ctx {a b : St} (h : SameButPos a b) : b.ctx = a.ctx := by rw [h]
theorem SameButPos.contexts {a b : St} (h : SameButPos a b) : b.contexts = a.contexts := by rw [h]
theorem SameButPos.bases {a b : St} (h : SameButPos a b) : b.bases = a.bases := by rw [h]
theorem SameButPos.srcLen {E : Env} {a b : St} (h : SameButPos a b) : srcLen E b = srcLen E a := by
  unfold Lexer.srcLen; rw [h.base]
theorem SameButPos.ext {E : Env} {a b : St} (h : SameButPos a b) (hb : a.base ≤ E.text.length) : Ext E a b :=
  (Ext.refl hb).of_eq h.base h.toks h.contexts h.bases

theorem walkCode_ok {E : Env} (n : Nat) : ∀ (i : Nat) (st : St), i + n ≤ srcLen E st →
    ∃ st', walkCode E n i st = .ok st' ∧ SameButPos st st' := by
  induction n with
  | zero => intro i st _; exact ⟨st, rfl, SameButPos.refl st⟩
  | succ n ih =>
    intro i st h
    obtain ⟨c, hc, _⟩ := srcAt_ok_of_lt (E := E) (st := st) (i := i) (by omega)
    unfold walkCode
    simp only [hc, bind_ok]
    have hsame : SameButPos st (if c = 0x0a then newline st else if isStartChar c = true then addCol st 1 else st) := by
      split
      · exact SameButPos.newline st
      · split
        · exact SameButPos.addCol st 1
        · exact SameButPos.refl st
    obtain ⟨st', h1, h2⟩ := ih (i + 1) _ (by rw [hsame.srcLen]; omega)
    exact ⟨st', h1, hsame.trans h2⟩

theorem commentLoop_ok {E : Env} {st : St} : ∀ (fuel nested p : Nat), p ≤ srcLen E st →
    srcLen E st - p < fuel →
    ∃ r, commentLoop E st fuel nested p = .ok r ∧ ∀ q, r = some q → p + 2 ≤ q ∧ q ≤ srcLen E st := by
  intro fuel
  induction fuel with
  | zero => intro _ _ _ h; omega
  | succ fuel ih =>
    intro nested p hp hf
    unfold commentLoop
    simp only [srcFrom_ok hp, bind_ok]
    cases hi : indexByte (E.text.drop (st.base + p)) 0x23 with
    | none => exact ⟨none, rfl, by intro q h; cases h⟩
    | some i =>
      have hlt := indexByte_lt hi
      have hlt' : p + i < srcLen E st := by
        simp at hlt; unfold srcLen; omega
      simp only []
      -- isOpen
      have hopen : ∃ b, (if i > 0 then (· == (0x7b : UInt8)) <$> srcAt E st (p + i - 1) else pure false
          : Except Fault Bool) = .ok b := by
        split
        · obtain ⟨c, hc, _⟩ := srcAt_ok_of_lt (E := E) (st := st) (i := p + i - 1) (by omega)
          exact ⟨_, by rw [hc]; rfl⟩
        · exact ⟨false, rfl⟩
      obtain ⟨bo, hbo⟩ := hopen
      simp only [Functor.map] at hbo
      simp only [hbo, bind_ok]
      cases bo with
      | true =>
        simp only [if_true]
        obtain ⟨r, hr, hq⟩ := ih (nested + 1) (p + i + 1) (by omega) (by omega)
        exact ⟨r, hr, fun q h => by have := hq q h; omega⟩
      | false =>
        simp only [Bool.false_eq_true, if_false]
        have hclose : ∃ b, (if i + 1 < srcLen E st - p then Except.map (· == (0x7d : UInt8)) (srcAt E st (p + i + 1))
            else pure false : Except Fault Bool) = .ok b ∧ (b = true → i + 1 < srcLen E st - p) := by
          split
          · rename_i hlt2
            obtain ⟨c, hc, _⟩ := srcAt_ok_of_lt (E := E) (st := st) (i := p + i + 1) (by omega)
            exact ⟨_, by rw [hc]; rfl, fun _ => hlt2⟩
          · exact ⟨false, rfl, by intro h; cases h⟩
        obtain ⟨bc, hbc, hbc2⟩ := hclose
        simp only [hbc, bind_ok]
        cases bc with
        | true =>
          have := hbc2 rfl
          simp only [if_true]
          split
          · exact ⟨_, rfl, fun q h => by cases h; omega⟩
          · obtain ⟨r, hr, hq⟩ := ih (nested - 1) (p + 1 + i + 1) (by omega) (by omega)
            exact ⟨r, hr, fun q h => by have := hq q h; omega⟩
        | false =>
          simp only [Bool.false_eq_true, if_false]
          obtain ⟨r, hr, hq⟩ := ih nested (p + i + 1) (by omega) (by omega)
          exact ⟨r, hr, fun q h => by have := hq q h; omega⟩

theorem fail_ok (st : St) (k : ErrKind) : fail st k = .ok (st, some (errorf st k)) := rfl

/-- `lexComment` entered with `{#` at `l.src[0:2]` -/
theorem lexComment_ok {E : Env} {st : St} (hb : st.base ≤ E.text.length) (h2 : 2 ≤ srcLen E st) :
    ∃ st' e, lexComment E st = .ok (st', e) ∧ Ext E st st' ∧ st'.ctx = st.ctx ∧
      (e = none → st.base + 4 ≤ st'.base) := by
  unfold lexComment
  obtain ⟨r, hr, hq⟩ := commentLoop_ok (E := E) (st := st) (srcLen E st + 2) 0 2 h2 (by omega)
  simp only [hr, bind_ok]
  cases r with
  | none => exact ⟨st, _, rfl, Ext.refl hb, rfl, by intro h; cases h⟩
  | some q =>
    obtain ⟨hq1, hq2⟩ := hq q rfl
    simp only []
    have hs : SameButPos st (addCol st 2) := SameButPos.addCol st 2
    obtain ⟨st1, hw, hs1⟩ := walkCode_ok (E := E) (q - 2 - 2) 2 (addCol st 2) (by rw [hs.srcLen]; omega)
    simp only [walk, hw, bind_ok]
    have hs2 : SameButPos st (addCol st1 2) := (hs.trans hs1).trans (SameButPos.addCol st1 2)
    obtain ⟨st2, he, hext, hbase, _, _, hctx, _⟩ :=
      emitAt_ok (E := E) (st := addCol st1 2) (line := st.line) (col := st.col) (typ := tokenComment) (n := q)
        (by rw [hs2.srcLen]; exact hq2) (by rw [hs2.base]; exact hb)
    simp only [he, bind_ok]
    refine ⟨st2, none, rfl, (hs2.ext hb).trans hext, ?_, ?_⟩
    · rw [hctx, hs2.ctx]
    · intro _; rw [hbase, hs2.base]; omega

end ScriggoV.Lexer
