import ScriggoV.Lemmas.Lexer.Code2
/-! # `lexCode`: one step, the loop, and the specification `CodeSpec` the template layer uses -/
namespace ScriggoV.Lexer
open ScriggoV ScriggoV.Gen.LexTables

/-- what the code layer needs from `lexNumber` (Lemmas/Lexer/Number.lean) -/
structure NumSpec (E : Env) : Prop where
  lexNumber_ok : ∀ (st : St), st.base ≤ E.text.length →
    (∃ c, peek E st 0 = some c ∧ ((0x30 ≤ c ∧ c ≤ 0x39) ∨ (c = 0x2e ∧ ∃ d, peek E st 1 = some d ∧ 0x30 ≤ d ∧ d ≤ 0x39))) →
    ∃ r, lexNumber E st = .ok r ∧ RGood E st r

def StopOK (E : Env) (endT : Nat) (st : St) : Prop :=
  ((endT = tokenRightBraces ∨ endT = tokenEndStatement) → 2 ≤ srcLen E st) ∧
  (endT = tokenEndStatements → 3 ≤ srcLen E st)

def CodeGood (E : Env) (endT : Nat) (st : St) : CodeOut → Prop
  | .cont st' _ => Ext E st st' ∧ st'.tagIndex = st.tagIndex ∧ st.base < st'.base
  | .brk st' _ => Ext E st st' ∧ st'.tagIndex = st.tagIndex
  | .ret st' e => Ext E st st' ∧ st'.tagIndex = st.tagIndex ∧ (e = none → StopOK E endT st')

/-- the whole operator table: a row of length `n` fixes `n - 1` bytes after the first -/
theorem opTable_wf : opTable.all (fun e => decide (1 ≤ e.n) && decide (e.n ≤ 3) &&
    (decide (e.n < 2) || e.c1.isSome) && (decide (e.n < 3) || e.c2.isSome)) = true := by decide

theorem plainOp_spec {c : UInt8} {c1 c2 : Option UInt8} {typ n : Nat} {elas : Bool}
    (h : plainOp c c1 c2 = some (typ, n, elas)) :
    1 ≤ n ∧ (2 ≤ n → c1.isSome) ∧ (3 ≤ n → c2.isSome) ∧ n ≤ 3 := by
  unfold plainOp at h
  cases hf : opTable.find? (·.matches c c1 c2) with
  | none => rw [hf] at h; cases h
  | some e =>
    rw [hf] at h
    simp only [Option.map_some, Option.some.injEq, Prod.mk.injEq] at h
    obtain ⟨_, hn, _⟩ := h
    have hmem := List.mem_of_find?_eq_some hf
    have hmatch := List.find?_some hf
    have hwf := List.all_eq_true.mp opTable_wf e hmem
    simp only [Bool.and_eq_true, Bool.or_eq_true, decide_eq_true_eq] at hwf
    obtain ⟨⟨⟨h1, h3⟩, h2⟩, h4⟩ := hwf
    unfold OpEntry.matches at hmatch
    simp only [Bool.and_eq_true, Bool.or_eq_true, beq_iff_eq] at hmatch
    obtain ⟨⟨_, m1⟩, m2⟩ := hmatch
    subst hn
    refine ⟨h1, ?_, ?_, h3⟩
    · intro h2'
      rcases h2 with h2 | h2
      · omega
      · rcases m1 with m1 | m1
        · rw [Option.isNone_iff_eq_none] at m1; rw [m1] at h2; cases h2
        · rw [← m1]; exact h2
    · intro h3'
      rcases h4 with h4 | h4
      · omega
      · rcases m2 with m2 | m2
        · rw [Option.isNone_iff_eq_none] at m2; rw [m2] at h4; cases h4
        · rw [← m2]; exact h4

theorem op_ok {E : Env} {endT : Nat} {st : St} {loc : CodeLoc} {typ n : Nat} {elas : Bool}
    (hb : st.base ≤ E.text.length) (hn : n ≤ srcLen E st) (hpos : 1 ≤ n) :
    ∃ o, op E st loc typ n elas = .ok o ∧ CodeGood E endT st o := by
  unfold op
  obtain ⟨st', h, e, b, _, t⟩ := emitAdv_ok (E := E) (st := st) (typ := typ) (n := n) hn hb
  simp only [h, bind_ok, pure_eq_ok]
  exact ⟨_, rfl, e, t, by omega⟩

theorem lit_ok {E : Env} {endT : Nat} {st : St} {loc : CodeLoc} {x : R}
    (h : ∃ r, x = .ok r ∧ RGood E st r) : ∃ o, lit x loc = .ok o ∧ CodeGood E endT st o := by
  obtain ⟨r, hr, e, t, p⟩ := h
  unfold lit
  simp only [hr, bind_ok]
  obtain ⟨s, err⟩ := r
  cases err with
  | some e' => exact ⟨_, rfl, e, t, by intro h; cases h⟩
  | none => exact ⟨_, rfl, e, t, p rfl⟩

theorem autoSemi_ok {E : Env} {st : St} {loc : CodeLoc} (cond : Bool) (hb : st.base ≤ E.text.length) :
    ∃ st' loc', autoSemi E st loc cond = .ok (st', loc') ∧ Ext E st st' ∧ st'.base = st.base ∧
      st'.tagIndex = st.tagIndex := by
  unfold autoSemi
  split
  · obtain ⟨st', h, e, b, _, _, _, t, _⟩ := emit_ok (E := E) (st := st) (typ := tokenSemicolon) (n := 0) (Nat.zero_le _) hb
    simp only [h, bind_ok, pure_eq_ok]
    exact ⟨_, _, rfl, e, by omega, t⟩
  · exact ⟨_, _, rfl, Ext.refl hb, rfl, rfl⟩

theorem indexNLorBOM_lt : ∀ (fuel : Nat) (s : Bytes) (i : Nat), indexNLorBOM fuel s = some i → i < s.length := by
  intro fuel
  induction fuel with
  | zero => intro s i h; simp [indexNLorBOM] at h
  | succ fuel ih =>
    intro s i h
    cases s with
    | nil => simp [indexNLorBOM] at h
    | cons c rest =>
      unfold indexNLorBOM at h
      split at h
      · split at h
        · cases h; simp
        · cases hr : indexNLorBOM fuel rest with
          | none => simp [hr] at h
          | some j =>
            simp [hr] at h
            subst h
            have := ih rest j hr
            simp; omega
      · have hd := decodeRune_size (c :: rest)
        cases hrs : decodeRune (c :: rest) with
        | mk r w =>
          rw [hrs] at hd h
          simp only [] at h hd
          split at h
          · cases h; simp
          · cases hr : indexNLorBOM fuel ((c :: rest).drop w) with
            | none => simp [hr] at h
            | some j =>
              simp [hr] at h
              subst h
              have := ih _ j hr
              simp only [List.length_drop, List.length_cons] at this hd ⊢
              have := hd.1
              omega

theorem codeSlash_ok {E : Env} {endT : Nat} {st : St} {loc : CodeLoc} {c1 : Option UInt8}
    (hb : st.base ≤ E.text.length) (h0 : 0 < srcLen E st) (hc1 : c1 = peek E st 1) :
    ∃ o, codeSlash E st loc c1 = .ok o ∧ CodeGood E endT st o := by
  unfold codeSlash
  have hlen : (E.text.drop st.base).length = srcLen E st := by simp [srcLen]
  split
  · -- line comment
    rename_i h1
    cases hi : indexNLorBOM (srcLen E st + 1) (E.text.drop st.base) with
    | none => exact ⟨_, rfl, Ext.refl hb, rfl⟩
    | some p =>
      simp only []
      have hp := indexNLorBOM_lt _ _ _ hi
      rw [hlen] at hp
      obtain ⟨x, hx, _⟩ := srcAt_ok_of_lt hp
      simp only [hx, bind_ok]
      split
      · exact ⟨_, rfl, Ext.refl hb, rfl, by intro h; cases h⟩
      · rw [sliceOf_ok (Nat.zero_le _) (by rw [hlen]; omega)]
        simp only [bind_ok]
        have hs := SameButPos.addCol st ((List.drop 0 (List.take p (List.drop st.base E.text))).countP isStartChar)
        obtain ⟨s1, hk1, heq1, e1⟩ := skip_ok (E := E) (st := addCol st _) (k := p) (by rw [hs.srcLen]; omega) (by rw [hs.base]; exact hb)
        simp only [hk1, bind_ok]
        obtain ⟨s2, l2, ha, e2, b2, t2⟩ := autoSemi_ok (E := E) (st := s1) (loc := loc) true e1.le_len
        simp only [ha, bind_ok]
        have hb1 : s1.base = st.base + p := by rw [heq1]; rfl
        obtain ⟨s3, hk3, heq3, e3⟩ := skip_ok (E := E) (st := newline s2) (k := 1)
          (by show 1 ≤ srcLen E s2; unfold srcLen at hp ⊢; rw [b2, hb1]; omega) e2.le_len
        simp only [hk3, bind_ok, pure_eq_ok]
        refine ⟨_, rfl, ?_, ?_, ?_⟩
        · exact (((hs.ext hb).trans e1).trans e2).trans ((e3 : Ext E (newline s2) s3).of_eq rfl rfl |> fun h => (Ext.of_eq (Ext.refl e2.le_len) rfl rfl : Ext E s2 (newline s2)).trans h)
        · rw [heq3]; show s2.tagIndex = _; rw [t2, heq1]; rfl
        · rw [heq3]; show st.base < s2.base + 1; rw [b2, hb1]; omega
  · split
    · -- block comment
      rename_i _ h1
      have h2 : 2 ≤ srcLen E st := by
        have : peek E st 1 = some 0x2a := by rw [← hc1]; exact h1
        have := peek_some_lt_srcLen this; omega
      rw [srcFrom_ok h2]
      simp only [bind_ok]
      cases hi : indexSub (E.text.drop (st.base + 2)) [0x2a, 0x2f] with
      | none => exact ⟨_, rfl, Ext.refl hb, rfl, by intro h; cases h⟩
      | some p =>
        simp only []
        have hp := indexSub_bound _ p hi
        simp only [List.length_drop, List.length_cons, List.length_nil] at hp
        have hp4 : p + 4 ≤ srcLen E st := by unfold srcLen; omega
        rw [sliceOf_ok (Nat.zero_le _) (by rw [hlen]; exact hp4)]
        simp only [bind_ok]
        generalize hcm : List.drop 0 (List.take (p + 4) (List.drop st.base E.text)) = comment
        have cont : ∀ nl : Bool, ∃ o, (do
              let (st, loc) ← autoSemi E st loc nl
              let st ← walkCode E (p + 4) 0 st
              let st ← skip E st (p + 4)
              pure (CodeOut.cont st loc) : Except Fault CodeOut) = .ok o ∧ CodeGood E endT st o := by
          intro nl
          obtain ⟨s1, l1, ha, e1, b1, t1⟩ := autoSemi_ok (E := E) (st := st) (loc := loc) nl hb
          simp only [ha, bind_ok]
          have hsl1 : srcLen E s1 = srcLen E st := by unfold srcLen; rw [b1]
          obtain ⟨s2, hw, hs2⟩ := walkCode_ok (E := E) (p + 4) 0 s1 (by rw [hsl1]; omega)
          simp only [hw, bind_ok]
          obtain ⟨s3, hk, heq, e3⟩ := skip_ok (E := E) (st := s2) (k := p + 4) (by rw [hs2.srcLen, hsl1]; exact hp4)
            (by rw [hs2.base]; exact e1.le_len)
          simp only [hk, bind_ok, pure_eq_ok]
          refine ⟨_, rfl, (e1.trans (hs2.ext e1.le_len)).trans e3, ?_, ?_⟩
          · rw [heq]; show s2.tagIndex = _; rw [hs2]; exact t1
          · rw [heq]; show st.base < s2.base + (p + 4); rw [hs2.base, b1]; omega
        cases hn : indexNLorBOM (comment.length + 1) comment with
        | none =>
          simp only [pure_eq_ok, bind_ok, Bool.false_eq_true, if_false]
          exact cont _
        | some i =>
          simp only []
          rw [getAt_ok (indexNLorBOM_lt _ _ _ hn)]
          simp only [Except.map, bind_ok]
          split
          · exact ⟨_, rfl, Ext.refl hb, rfl, by intro h; cases h⟩
          · exact cont _
    · split
      · rename_i h1
        have : peek E st 1 = some 0x3d := by rw [← hc1]; exact h1
        have := peek_some_lt_srcLen this
        exact op_ok hb (by omega) (by omega)
      · exact op_ok hb (by omega) (by omega)


theorem tok_ne1 : tokenRightBraces ≠ tokenEndStatements := by decide
theorem tok_ne2 : tokenEndStatement ≠ tokenEndStatements := by decide
theorem tok_ne3 : tokenRightBraces ≠ tokenEndStatement := by decide

theorem codePercent_ok {E : Env} {endT : Nat} {st : St} {loc : CodeLoc} {c1 c2 : Option UInt8}
    (hb : st.base ≤ E.text.length) (h0 : 0 < srcLen E st) (hc1 : c1 = peek E st 1) (hc2 : c2 = peek E st 2) :
    ∃ o, codePercent E endT st loc c1 c2 = .ok o ∧ CodeGood E endT st o := by
  unfold codePercent
  have l2 : ∀ x, c1 = some x → 2 ≤ srcLen E st := by
    intro x h; rw [hc1] at h; have := peek_some_lt_srcLen h; omega
  have l3 : ∀ x, c2 = some x → 3 ≤ srcLen E st := by
    intro x h; rw [hc2] at h; have := peek_some_lt_srcLen h; omega
  split
  · rename_i h
    refine ⟨_, rfl, ?_, ?_, ?_⟩
    · split
      · split
        · exact (Ext.refl hb).of_eq rfl rfl
        · exact Ext.refl hb
      · exact Ext.refl hb
    · split
      · split <;> rfl
      · rfl
    · intro _
      have h2 := l2 _ h.1
      have hs : ∀ s : St, s.base = st.base → srcLen E s = srcLen E st := by intro s hs; unfold srcLen; rw [hs]
      constructor
      · intro _
        split
        · split
          · exact h2
          · exact h2
        · exact h2
      · intro he; rw [h.2] at he; exact absurd he tok_ne2
  · split
    · exact ⟨_, rfl, Ext.refl hb, rfl, by intro h; cases h⟩
    · split
      · rename_i h
        obtain ⟨s1, l1, ha, e1, b1, t1⟩ := autoSemi_ok (E := E) (st := st) (loc := loc) true hb
        simp only [ha, bind_ok, pure_eq_ok]
        refine ⟨_, rfl, e1, t1, ?_⟩
        intro _
        have h3 := l3 _ h.2.1
        have hs : srcLen E s1 = srcLen E st := by unfold srcLen; rw [b1]
        constructor
        · intro he
          rcases he with he | he
          · rw [h.2.2] at he; exact absurd he.symm tok_ne1
          · rw [h.2.2] at he; exact absurd he.symm tok_ne2
        · intro _; rw [hs]; exact h3
      · split
        · exact ⟨_, rfl, Ext.refl hb, rfl, by intro h; cases h⟩
        · split
          · rename_i h
            have := l2 _ h
            exact op_ok hb (by omega) (by omega)
          · exact op_ok hb (by omega) (by omega)

/-- a rune decoded as U+FEFF takes three bytes -/
theorem ite_pair_fst {C : Prop} [Decidable C] {x n : Nat}
    (h : (if C then (x, n) else (65533, 1)).1 = 65279) : C ∧ x = 65279 := by
  split at h
  · rename_i hc; exact ⟨hc, h⟩
  · simp at h

theorem decodeRune_BOM {l : Bytes} (h : (decodeRune l).1 = BOM) : (decodeRune l).2 = 3 := by
  unfold BOM at h
  cases l with
  | nil => simp [decodeRune] at h
  | cons p0 rest =>
    by_cases h1 : p0 < 0x80
    · have : p0.toNat < 128 := by simpa [UInt8.lt_iff_toNat_lt] using h1
      simp [decodeRune, h1] at h; omega
    · by_cases h2 : p0 < 0xC2
      · simp [decodeRune, h1, h2] at h
      · by_cases h3 : p0 < 0xE0
        · cases rest with
          | nil => simp [decodeRune, h1, h2, h3] at h
          | cons b1 tl =>
            simp only [decodeRune, h1, h2, h3, if_false, if_true] at h
            have := (ite_pair_fst h).2
            omega
        · by_cases h4 : p0 < 0xF0
          · match rest with
            | [] => simp [decodeRune, h1, h2, h3, h4] at h
            | [_] => simp [decodeRune, h1, h2, h3, h4] at h
            | b1 :: b2 :: tl =>
              simp only [decodeRune, h1, h2, h3, h4, if_false, if_true] at h ⊢
              have hc := (ite_pair_fst h).1
              rw [if_pos hc]
          · by_cases h5 : p0 < 0xF5
            · match rest with
              | [] => simp [decodeRune, h1, h2, h3, h4, h5] at h
              | [_] => simp [decodeRune, h1, h2, h3, h4, h5] at h
              | [_, _] => simp [decodeRune, h1, h2, h3, h4, h5] at h
              | b1 :: b2 :: b3 :: tl =>
                simp only [decodeRune, h1, h2, h3, h4, h5, if_false, if_true] at h
                obtain ⟨hc, hx⟩ := ite_pair_fst h
                exfalso
                have hp0 : 240 ≤ p0.toNat := by simpa [UInt8.lt_iff_toNat_lt] using h4
                have hb1 := hc.1
                by_cases hq : p0 = 0xF0
                · subst hq
                  simp only [beq_self_eq_true, if_true] at hb1
                  have : 144 ≤ b1.toNat := by simpa [UInt8.le_iff_toNat_le] using hb1
                  have hb1' := hc.2.1
                  have : b1.toNat ≤ 191 := by
                    have e : ((0xF0 : UInt8) == 244) = false := by decide
                    simp only [e, Bool.false_eq_true, if_false] at hb1'
                    simpa [UInt8.le_iff_toNat_le] using hb1'
                  have hh : (0xF0 : UInt8).toNat = 240 := rfl
                  rw [hh] at hx
                  omega
                · have hne : p0.toNat ≠ 240 := by
                    intro he; apply hq; exact UInt8.toNat_inj.mp (by rw [he]; rfl)
                  have : p0.toNat < 245 := by simpa [UInt8.lt_iff_toNat_lt] using h5
                  omega
            · simp [decodeRune, h1, h2, h3, h4, h5] at h
theorem pushCtx_bal {s : St} (hB : Bal s) : Bal (pushCtx s) := by
  unfold Bal pushCtx at *
  simp only [List.length_append, List.length_cons, List.length_nil]
  omega

/-- `l.bases[last]` of `case tokenEnd` is in range because the two stacks are parallel -/
theorem popCtx_ok {s : St} {c : Nat} (hB : Bal s) (hc : s.contexts.getLast? = some c) :
    ∃ r, popCtx s c = .ok r ∧ r.base = s.base ∧ r.toks = s.toks ∧ r.tagIndex = s.tagIndex ∧ Bal r := by
  unfold popCtx
  have hpos : 0 < s.contexts.length := by
    cases hl : s.contexts with
    | nil => rw [hl] at hc; cases hc
    | cons x xs => simp
  have hlt : s.contexts.length - 1 < s.bases.length := by unfold Bal at hB; omega
  simp only [List.getElem?_eq_getElem hlt]
  refine ⟨_, rfl, ?_, ?_, ?_, ?_⟩
  · show (if _ then _ else _ : St).base = _; split <;> rfl
  · show (if _ then _ else _ : St).toks = _; split <;> rfl
  · show (if _ then _ else _ : St).tagIndex = _; split <;> rfl
  · unfold Bal at *
    split
    all_goals
      show (List.take _ s.bases).length = s.contexts.dropLast.length
      rw [List.length_take, List.length_dropLast]
      omega

/-- `afterIdent` never faults on parallel stacks, keeps them parallel, and changes nothing of
`base`, `toks`, `tagIndex` -/
theorem afterIdent_ok (s1 : St) (l1 : CodeLoc) (typ : Nat) (txt : Bytes) (hB : Bal s1) :
    ∃ r, afterIdent s1 l1 typ txt = .ok r ∧ r.1.base = s1.base ∧ r.1.toks = s1.toks ∧
      r.1.tagIndex = s1.tagIndex ∧ Bal r.1 := by
  unfold afterIdent
  have hp := pushCtx_bal hB
  split
  · split
    · exact ⟨_, rfl, rfl, rfl, rfl, hp⟩
    · split
      · split
        · rename_i c hc
          obtain ⟨r, hr, h1, h2, h3, h4⟩ := popCtx_ok hB hc
          rw [hr]
          exact ⟨_, rfl, h1, h2, h3, h4⟩
        · exact ⟨_, rfl, rfl, rfl, rfl, hB⟩
      · split
        · split
          · exact ⟨_, rfl, rfl, rfl, rfl, hp⟩
          · exact ⟨_, rfl, rfl, rfl, rfl, hB⟩
        · exact ⟨_, rfl, rfl, rfl, rfl, hB⟩
  · split
    · exact ⟨_, rfl, rfl, rfl, rfl, hp⟩
    · split
      · exact ⟨_, rfl, rfl, rfl, rfl, hB⟩
      · exact ⟨_, rfl, rfl, rfl, rfl, hB⟩

theorem codeIdent_ok {E : Env} {endT : Nat} {st : St} {loc : CodeLoc} {c : UInt8}
    (hb : st.base ≤ E.text.length) (hB : Bal st) (h0 : 0 < srcLen E st) :
    ∃ o, codeIdent E endT st loc c = .ok o ∧ CodeGood E endT st o := by
  unfold codeIdent
  simp only []
  have hlt : st.base < E.text.length := by unfold srcLen at h0; omega
  have hd := decodeRune_drop (t := E.text) (i := st.base) hlt
  -- the size of the first character, or an early outcome
  have hsz : ∃ r, (if c = 0x5f ∨ (c < 0x80 ∧ E.U.isLetter c.toNat = true) then pure (Sum.inl 1)
      else
        match decodeRune (E.text.drop st.base) with
        | (r, s) =>
          if (!E.U.isLetter r) = true then
            if r = BOM then
              if st.base = 0 then do
                let st ← skip E st 3
                pure (Sum.inr (CodeOut.cont st loc))
              else pure (Sum.inr (CodeOut.ret st (some (errorf st .bom))))
            else if E.U.isDigit r = true then pure (Sum.inr (CodeOut.ret st (some (errorf st .identDigit))))
            else pure (Sum.inr (CodeOut.ret st (some (errorf st .invalidChar))))
          else pure (Sum.inl s) : Except Fault (Nat ⊕ CodeOut)) = .ok r ∧
      (match r with
       | .inl s => 1 ≤ s ∧ s ≤ srcLen E st
       | .inr o => CodeGood E endT st o) := by
    split
    · exact ⟨_, rfl, Nat.le_refl _, h0⟩
    · cases hrs : decodeRune (E.text.drop st.base) with
      | mk r s =>
        rw [hrs] at hd
        simp only [] at hd ⊢
        split
        · split
          · rename_i hbom
            have h3 : s = 3 := by
              have := decodeRune_BOM (l := E.text.drop st.base) (by rw [hrs]; exact hbom)
              rw [hrs] at this; exact this
            split
            · obtain ⟨s1, hk, heq, e1⟩ := skip_ok (E := E) (st := st) (k := 3) (by unfold srcLen; omega) hb
              simp only [hk, bind_ok, pure_eq_ok]
              exact ⟨_, rfl, e1, by rw [heq], by rw [heq]; show st.base < st.base + 3; omega⟩
            · exact ⟨_, rfl, Ext.refl hb, rfl, by intro h; cases h⟩
          · split
            · exact ⟨_, rfl, Ext.refl hb, rfl, by intro h; cases h⟩
            · exact ⟨_, rfl, Ext.refl hb, rfl, by intro h; cases h⟩
        · exact ⟨_, rfl, hd.1, by unfold srcLen; omega⟩
  obtain ⟨r, hr, hg⟩ := hsz
  simp only [hr, bind_ok]
  cases r with
  | inr o => exact ⟨o, rfl, hg⟩
  | inl s =>
    simp only []
    obtain ⟨st', typ, txt, hl, e, t, hp, _, _⟩ := lexIdent_ok (E := E) (st := st) (s := s) hb hg.1 hg.2
    simp only [hl, bind_ok, pure_eq_ok]
    split
    · obtain ⟨r, hr, a1, a2, a3, a4⟩ := afterIdent_ok st' loc typ txt (e.bal hB)
      simp only [hr, bind_ok]
      exact ⟨_, rfl, e.of_bal a1 a2 (fun _ => a4), by rw [a3]; exact t, by rw [a1]; exact hp⟩
    · simp only [bind_ok]
      exact ⟨_, rfl, e, t, hp⟩

theorem codeStep_ok {E : Env} (hN : NumSpec E) {endT : Nat} {st : St} {loc : CodeLoc}
    (hb : st.base ≤ E.text.length) (hB : Bal st) (h0 : 0 < srcLen E st) :
    ∃ o, codeStep E endT st loc = .ok o ∧ CodeGood E endT st o := by
  unfold codeStep
  obtain ⟨c, hc, hpk⟩ := srcAt_ok_of_lt h0
  simp only [hc, bind_ok]
  have l2 : ∀ x, peek E st 1 = some x → 2 ≤ srcLen E st := by
    intro x h; have := peek_some_lt_srcLen h; omega
  have l3 : ∀ x, peek E st 2 = some x → 3 ≤ srcLen E st := by
    intro x h; have := peek_some_lt_srcLen h; omega
  cases hop : plainOp c (peek E st 1) (peek E st 2) with
  | some tne =>
    obtain ⟨typ, n, elas⟩ := tne
    simp only []
    obtain ⟨h1, h2, h3, h4⟩ := plainOp_spec hop
    apply op_ok hb _ h1
    rcases Nat.lt_or_ge n 2 with hlt | hge
    · omega
    · have hs1 := h2 hge
      obtain ⟨x, hx⟩ := Option.isSome_iff_exists.mp hs1
      have := l2 x hx
      rcases Nat.lt_or_ge n 3 with hlt3 | hge3
      · omega
      · have hs2 := h3 hge3
        obtain ⟨y, hy⟩ := Option.isSome_iff_exists.mp hs2
        have := l3 y hy
        omega
  | none =>
    simp only []
    have h1 : 1 ≤ srcLen E st := h0
    by_cases q1 : c = 0x22
    · rw [if_pos q1]; exact lit_ok (lexInterpretedString_ok hb h1)
    rw [if_neg q1]
    by_cases q2 : c = 0x60
    · rw [if_pos q2]; exact lit_ok (lexRawString_ok hb h1)
    rw [if_neg q2]
    by_cases q3 : c = 0x27
    · rw [if_pos q3]; exact lit_ok (lexRuneLiteral_ok hb h1)
    rw [if_neg q3]
    by_cases q4 : c = 0x2e
    · rw [if_pos q4]
      cases hd : peek E st 1 with
      | none => exact op_ok hb (by omega) (by omega)
      | some d =>
        simp only []
        by_cases hdig : 0x30 ≤ d ∧ d ≤ 0x39
        · rw [if_pos hdig]
          apply lit_ok
          apply hN.lexNumber_ok st hb
          exact ⟨c, hpk, Or.inr ⟨q4, d, hd, hdig⟩⟩
        · rw [if_neg hdig]
          split
          · rename_i h
            have := l3 _ h.2
            exact op_ok hb (by omega) (by omega)
          · exact op_ok hb (by omega) (by omega)
    rw [if_neg q4]
    by_cases q5 : 0x30 ≤ c ∧ c ≤ 0x39
    · rw [if_pos q5]
      apply lit_ok
      apply hN.lexNumber_ok st hb
      exact ⟨c, hpk, Or.inl q5⟩
    rw [if_neg q5]
    by_cases q6 : c = 0x2f
    · rw [if_pos q6]; exact codeSlash_ok hb h0 rfl
    rw [if_neg q6]
    by_cases q7 : c = 0x25
    · rw [if_pos q7]; exact codePercent_ok hb h0 rfl rfl
    rw [if_neg q7]
    by_cases q8 : c = 0x7b
    · rw [if_pos q8]
      obtain ⟨s1, h, e, b, _, t⟩ := emitAdv_ok (E := E) (st := st) (typ := tokenLeftBrace) (n := 1) h1 hb
      simp only [h, bind_ok, pure_eq_ok]
      exact ⟨_, rfl, e, t, by omega⟩
    rw [if_neg q8]
    by_cases q9 : c = 0x7d
    · rw [if_pos q9]
      split
      · rename_i h
        refine ⟨_, rfl, Ext.refl hb, rfl, ?_⟩
        intro _
        have := l2 _ h.2.1
        exact ⟨fun _ => this, fun he => by rw [h.1] at he; exact absurd he tok_ne1⟩
      · obtain ⟨s1, h, e, b, _, t⟩ := emitAdv_ok (E := E) (st := st) (typ := tokenRightBrace) (n := 1) h1 hb
        simp only [h, bind_ok, pure_eq_ok]
        exact ⟨_, rfl, e, t, by omega⟩
    rw [if_neg q9]
    by_cases q10 : c = 0x20 ∨ c = 0x09 ∨ c = 0x0d
    · rw [if_pos q10]
      obtain ⟨s1, hk, heq, e1⟩ := skip_ok (E := E) (st := st) (k := 1) h1 hb
      simp only [hk, bind_ok, pure_eq_ok]
      exact ⟨_, rfl, e1.of_eq rfl rfl, by rw [heq]; rfl, by rw [heq]; show st.base < st.base + 1; omega⟩
    rw [if_neg q10]
    by_cases q11 : c = 0x0a
    · rw [if_pos q11]
      obtain ⟨s1, l1, ha, e1, b1, t1⟩ := autoSemi_ok (E := E) (st := st) (loc := loc) true hb
      simp only [ha, bind_ok]
      obtain ⟨s2, hk, heq, e2⟩ := skip_ok (E := E) (st := newline s1) (k := 1)
        (by show 1 ≤ srcLen E s1; unfold srcLen at h1 ⊢; rw [b1]; exact h1) e1.le_len
      simp only [hk, bind_ok, pure_eq_ok]
      refine ⟨_, rfl, e1.trans (((Ext.refl e1.le_len).of_eq rfl rfl : Ext E s1 (newline s1)).trans e2), ?_, ?_⟩
      · rw [heq]; exact t1
      · rw [heq]; show st.base < s1.base + 1; rw [b1]; omega
    rw [if_neg q11]
    by_cases q12 : c = 0x00
    · rw [if_pos q12]; exact ⟨_, rfl, Ext.refl hb, rfl, by intro h; cases h⟩
    rw [if_neg q12]
    exact codeIdent_ok hb hB h0

theorem codeLoop_ok {E : Env} (hN : NumSpec E) {endT : Nat} : ∀ (fuel : Nat) (st : St) (loc : CodeLoc),
    st.base ≤ E.text.length → Bal st → srcLen E st < fuel →
    ∃ o, codeLoop E endT fuel st loc = .ok o ∧
      (match o with
       | .cont _ _ => False
       | .brk st' _ => Ext E st st' ∧ st'.tagIndex = st.tagIndex
       | .ret st' e => Ext E st st' ∧ st'.tagIndex = st.tagIndex ∧ (e = none → StopOK E endT st')) := by
  intro fuel
  induction fuel with
  | zero => intro _ _ _ _ h; omega
  | succ fuel ih =>
    intro st loc hb hB hf
    unfold codeLoop
    split
    · rename_i h0
      obtain ⟨o, ho, hg⟩ := codeStep_ok hN (endT := endT) (loc := loc) hb hB h0
      simp only [ho, bind_ok]
      cases o with
      | cont s l =>
        simp only []
        obtain ⟨e, t, hp⟩ := hg
        obtain ⟨o2, ho2, hg2⟩ := ih s l e.le_len (e.bal hB) (by have := e.le_len; unfold srcLen at hf ⊢; omega)
        refine ⟨o2, ho2, ?_⟩
        cases o2 with
        | cont _ _ => exact hg2
        | brk s2 l2 => exact ⟨e.trans hg2.1, by rw [hg2.2, t]⟩
        | ret s2 e2 => exact ⟨e.trans hg2.1, by rw [hg2.2.1, t], hg2.2.2⟩
      | brk s l => exact ⟨_, rfl, hg⟩
      | ret s e => exact ⟨_, rfl, hg⟩
    · exact ⟨_, rfl, Ext.refl hb, rfl⟩

theorem tok_eof1 : tokenRightBraces ≠ tokenEOF := by decide
theorem tok_eof2 : tokenEndStatement ≠ tokenEOF := by decide
theorem tok_eof3 : tokenEndStatements ≠ tokenEOF := by decide

theorem stopOK_eof (E : Env) (st : St) : StopOK E tokenEOF st :=
  ⟨fun h => by
     rcases h with h | h
     · exact absurd h.symm tok_eof1
     · exact absurd h.symm tok_eof2,
   fun h => absurd h.symm tok_eof3⟩

/-- `lexCode` meets the specification the template layer relies on, given `lexNumber`'s -/
theorem codeSpec_of_numSpec {E : Env} (hN : NumSpec E) : CodeSpec E := by
  constructor
  intro endT st hb hB
  unfold lexCode
  split
  · split
    · obtain ⟨r, hr, hg⟩ := fail_good (E := E) (st := st) .unexpectedEOF hb
      exact ⟨r.1, r.2, hr, hg.1, hg.2.1, by intro h; cases hr; cases h⟩
    · rename_i hne
      have : endT = tokenEOF := by
        rcases Nat.lt_or_ge endT tokenEOF with h | h
        · exact Decidable.byContradiction (fun hn => hne hn)
        · exact Decidable.byContradiction (fun hn => hne hn)
      refine ⟨st, none, rfl, Ext.refl hb, rfl, fun _ => ?_⟩
      have hs := stopOK_eof E st
      rw [this]; exact hs
  · simp only []
    obtain ⟨o, ho, hg⟩ := codeLoop_ok hN (endT := endT) (srcLen E st + 2) st
      { first := st.totals + 1, macroOrUsing := false, identIndex := 0, identTxt := [], elas := false, unclosed := 0 } hb hB (by omega)
    simp only [ho, bind_ok]
    cases o with
    | cont _ _ => exact absurd hg id
    | ret s e => exact ⟨s, e, rfl, hg.1, hg.2.1, hg.2.2⟩
    | brk s l =>
      simp only []
      split
      · obtain ⟨r, hr, hgd⟩ := fail_good (E := E) (st := s) .unexpectedEOF hg.1.le_len
        exact ⟨r.1, r.2, hr, hg.1.trans hgd.1, by rw [hgd.2.1, hg.2], by intro h; cases hr; cases h⟩
      · rename_i hne
        have heof : endT = tokenEOF := Decidable.byContradiction (fun hn => hne hn)
        split
        · obtain ⟨s2, h2, e2, _, _, _, _, t2, _⟩ := emit_ok (E := E) (st := s) (typ := tokenSemicolon) (n := 0) (Nat.zero_le _) hg.1.le_len
          simp only [h2, bind_ok, pure_eq_ok]
          exact ⟨_, _, rfl, hg.1.trans e2, by rw [t2, hg.2], fun _ => heof ▸ stopOK_eof E s2⟩
        · exact ⟨_, _, rfl, hg.1, hg.2, fun _ => heof ▸ stopOK_eof E s⟩

end ScriggoV.Lexer
