import ScriggoV.Lemmas.Lexer.Code1
/-! # Literal lexers of `lexCode`: rune literals and numbers -/
namespace ScriggoV.Lexer
open ScriggoV ScriggoV.Gen.LexTables

/-! ## rune literals -/

theorem runeEscape_ok {E : Env} {st : St} (h2 : 2 ≤ srcLen E st) :
    ∃ r, runeEscape E st (srcLen E st) = .ok r := by
  unfold runeEscape
  split
  · exact ⟨_, rfl⟩
  · rename_i hne
    obtain ⟨c, hc, _⟩ := srcAt_ok_of_lt (E := E) (st := st) (i := 2) (by omega)
    simp only [hc, bind_ok]
    split
    · split <;> exact ⟨_, rfl⟩
    · split
      · split
        · exact ⟨_, rfl⟩
        · obtain ⟨h0, hh0, _⟩ := srcAt_ok_of_lt (E := E) (st := st) (i := 3) (by omega)
          simp only [hh0, bind_ok]
          split
          · exact ⟨_, rfl⟩
          · obtain ⟨h1, hh1, _⟩ := srcAt_ok_of_lt (E := E) (st := st) (i := 4) (by omega)
            simp only [hh1, bind_ok]
            split <;> exact ⟨_, rfl⟩
      · split
        · generalize (if c = 0x55 then 8 else 4 : Nat) = k
          split
          · exact ⟨_, rfl⟩
          · obtain ⟨r, hr⟩ := hexRun_ok (E := E) (st := st) k 3 0 (by omega)
            simp only [hr, bind_ok]
            cases r with
            | none => exact ⟨_, rfl⟩
            | some v => simp only []; split <;> exact ⟨_, rfl⟩
        · split
          · split
            · exact ⟨_, rfl⟩
            · obtain ⟨o0, ho0, _⟩ := srcAt_ok_of_lt (E := E) (st := st) (i := 3) (by omega)
              simp only [ho0, bind_ok]
              split
              · exact ⟨_, rfl⟩
              · obtain ⟨o1, ho1, _⟩ := srcAt_ok_of_lt (E := E) (st := st) (i := 4) (by omega)
                simp only [ho1, bind_ok]
                split
                · exact ⟨_, rfl⟩
                · split <;> exact ⟨_, rfl⟩
          · exact ⟨_, rfl⟩

theorem runeBody_ok {E : Env} {st : St} (c1 : UInt8) (h2 : 2 ≤ srcLen E st) :
    ∃ r, runeBody E st (srcLen E st) c1 = .ok r := by
  unfold runeBody
  split
  · exact runeEscape_ok h2
  · split
    · exact ⟨_, rfl⟩
    · split
      · exact ⟨_, rfl⟩
      · rw [srcFrom_ok (by omega)]
        simp only [bind_ok]
        cases decodeRune (E.text.drop (st.base + 1)) with
        | mk r s =>
          simp only []
          split
          · exact ⟨_, rfl⟩
          · split <;> exact ⟨_, rfl⟩

theorem lexRuneLiteral_ok {E : Env} {st : St} (hb : st.base ≤ E.text.length) (h1 : 1 ≤ srcLen E st) :
    ∃ r, lexRuneLiteral E st = .ok r ∧ RGood E st r := by
  unfold lexRuneLiteral
  simp only []
  split
  · exact fail_good _ hb
  · rename_i hne
    have h2 : 2 ≤ srcLen E st := by omega
    obtain ⟨c1, hc1, _⟩ := srcAt_ok_of_lt (E := E) (st := st) (i := 1) (by omega)
    simp only [hc1, bind_ok]
    obtain ⟨r, hr⟩ := runeBody_ok (E := E) (st := st) c1 h2
    simp only [hr, bind_ok]
    cases r with
    | inr k => exact fail_good _ hb
    | inl pc =>
      obtain ⟨p, cols⟩ := pc
      simp only []
      split
      · exact fail_good _ hb
      · rename_i hq
        have hq' : peekIs E st p 0x27 = true := by simpa using hq
        have := peekIs_lt hq'
        obtain ⟨st', h, hgd⟩ := emitThen_good (E := E) (st := st) (typ := tokenRune) (n := p + 1) (cols := cols + 1) hb
          (by omega) (by omega)
        simp only [h, bind_ok, pure_eq_ok]
        exact ⟨_, rfl, hgd⟩

end ScriggoV.Lexer
