import ScriggoV.Lemmas.Lexer.Cases2
/-! # The main loop of `scan`: `caseTag`, `ctxSwitch`, `tail`, `delim`, `step`, `mainLoop`, `scan` -/
namespace ScriggoV.Lexer
open ScriggoV ScriggoV.Gen.LexTables

theorem caseTag_ok {E : Env} {F : Fixed} {st : St} {lp : Loop} {c : UInt8} (hI : LoopInv E st lp)
    (hlt : lp.p < srcLen E st) (hc : peek E st lp.p = some c) :
    ∃ o, caseTag E F st lp c = .ok o ∧ CaseGood E st lp o := by
  unfold caseTag
  split
  · rename_i hcond
    simp only []
    split
    · rename_i hslash
      -- `c == '/' && l.src[p] == '>'` cannot hold: `l.src[p]` is `c`
      exfalso
      rcases hcond with h | h
      · rw [h] at hslash; cases hslash
      · have := h.2; unfold peekIs at this; rw [hc] at this
        have : c = 0x3e := by simpa using this
        rw [this] at hslash; cases hslash
    · exact ⟨_, rfl, fall_same hI rfl rfl rfl (Nat.le_refl _) hlt⟩
  · split
    · obtain ⟨st1, attr, next, h1, hs1, hn1, hn2⟩ := scanAttribute_ok (E := E) (st := st) (p := lp.p) (by omega)
      simp only [h1, bind_ok]
      have hb1 : st1.base = st.base := hs1.base
      have ht1 : st1.toks = st.toks := hs1.toks
      have hti1 : st1.tagIndex = st.tagIndex := by rw [hs1]
      have hsl1 : srcLen E st1 = srcLen E st := hs1.srcLen
      split
      · rename_i hgt
        -- start of the attribute value
        have hnone : CaseGood E st lp (.next { st1 with tagAttr := attr } { lp with p := next }) :=
          NextGood.same hI hb1 ht1 (by show st1.tagIndex ≤ st1.base + next; have := hI.tag_le; omega) hgt hn2
            hs1.contexts hs1.bases
        split
        · rename_i q hq
          have hqlt : next < srcLen E st := by
            split at hq
            · have := peek_some_lt_srcLen hq
              show next < srcLen E st
              have e : srcLen E { st1 with tagAttr := attr } = srcLen E st1 := rfl
              rw [e, hsl1] at this; exact this
            · cases hq
          -- after the optional quote
          have hquote : ∃ st2 lp2, (if q = 0x22 ∨ q = 0x27 then
                (addCol { st1 with tagAttr := attr } 1, { ({ lp with p := next } : Loop) with quote := q, p := next + 1 })
              else ({ st1 with tagAttr := attr }, ({ lp with p := next } : Loop))) = (st2, lp2) ∧
              st2.base = st.base ∧ st2.toks = st.toks ∧ st2.tagIndex = st.tagIndex ∧ next ≤ lp2.p ∧ lp2.p ≤ srcLen E st ∧
              st2.contexts = st.contexts ∧ st2.bases = st.bases := by
            split
            · exact ⟨_, _, rfl, hb1, ht1, hti1, by show next ≤ next + 1; omega, by show next + 1 ≤ _; omega,
                hs1.contexts, hs1.bases⟩
            · exact ⟨_, _, rfl, hb1, ht1, hti1, Nat.le_refl _, by show next ≤ _; omega, hs1.contexts, hs1.bases⟩
          obtain ⟨st2, lp2, he, hb2, ht2, hti2, hp2, hp2', hcx2, hbs2⟩ := hquote
          simp only [he]
          have hsl2 : srcLen E st2 = srcLen E st := by unfold srcLen; rw [hb2]
          split
          · -- URL attribute
            obtain ⟨st3, h3, e3, b3, _, _, _, _, _, _, t3, _⟩ := emitAt_ok (E := E) (st := st2) (line := lp2.lin) (col := lp2.tcol)
              (typ := tokenText) (n := lp2.p) (by rw [hsl2]; exact hp2') (by rw [hb2]; exact hI.base_le)
            simp only [h3, bind_ok]
            obtain ⟨st4, h4, e4, b4, _, _, _, t4, _⟩ := emit_ok (E := E)
              (st := { st3 with ctx := if lp2.quote = 0 then ContextUnquotedAttr else ContextQuotedAttr })
              (typ := tokenStartURL) (n := 0) (Nat.zero_le _) e3.le_len
            simp only [h4, bind_ok, pure_eq_ok]
            refine ⟨_, rfl, ?_⟩
            have e23 : Ext E st st3 := by
              have : Ext E st st2 := (Ext.refl hI.base_le).of_eq hb2 ht2 hcx2 hbs2
              exact this.trans e3
            have e34 : Ext E st st4 := e23.trans ((e4 : Ext E _ st4))
            have hbase4 : st4.base = st.base + lp2.p := by rw [b4]; show st3.base + 0 = _; rw [b3, hb2]; omega
            refine ⟨⟨e4.le_len, Nat.zero_le _, ?_⟩, e34, ?_⟩
            · show st4.tagIndex ≤ st4.base + 0
              rw [t4]; show st3.tagIndex ≤ _; rw [t3, hti2, hbase4]; have := hI.tag_le; omega
            · unfold mu
              show 2 * (E.text.length - (st4.base + 0)) + attrCtx st4.ctx < _
              have := attrCtx_le st4.ctx
              have := hI.pos_le
              have : st4.base ≤ E.text.length := e4.le_len
              rw [hbase4] at this ⊢
              omega
          · refine ⟨_, rfl, ?_⟩
            refine NextGood.same hI (st' := { st2 with tagIndex := st2.base + lp2.p, ctx := _ }) hb2 ht2 ?_ ?_ ?_
              hcx2 hbs2
            · exact Nat.le_refl _
            · omega
            · exact hp2'
        · exact ⟨_, rfl, hnone⟩
      · exact ⟨_, rfl, fall_same hI hb1 ht1 hti1 (Nat.le_refl _) hlt hs1.contexts hs1.bases⟩
    · exact ⟨_, rfl, fall_same hI rfl rfl rfl (Nat.le_refl _) hlt⟩

theorem ctxSwitch_ok {E : Env} {F : Fixed} {st : St} {lp : Loop} {c : UInt8} (hI : LoopInv E st lp)
    (hlt : lp.p < srcLen E st) (hc : peek E st lp.p = some c) :
    ∃ o, ctxSwitch E F st lp c = .ok o ∧ CaseGood E st lp o := by
  unfold ctxSwitch
  have hfall : CaseGood E st lp (.fall st lp) := fall_same hI rfl rfl rfl (Nat.le_refl _) hlt
  split
  · obtain ⟨o, ho, hg⟩ := caseMarkdown_ok hI hlt
    simp only [ho, bind_ok]
    cases o with
    | next st' lp' => exact ⟨_, rfl, hg⟩
    | fall st' lp' =>
      simp only []
      split
      · obtain ⟨hI', e', hpos', hlt'⟩ := hg
        obtain ⟨s2, l2, ho2, i2, e2, p2⟩ := caseLT_strict hI' hlt'
        refine ⟨_, ho2, ?_⟩
        exact NextStrict.good hI ⟨i2, e'.trans e2, by omega⟩
      · exact ⟨_, rfl, hg⟩
  · split
    · split
      · exact caseLT_ok hI hlt
      · exact ⟨_, rfl, hfall⟩
    · split
      · exact caseTag_ok hI hlt hc
      · split
        · exact caseAttr_ok hI hlt
        · split
          · exact caseCSS_ok hI hlt
          · split
            · exact caseJS_ok hI hlt
            · split
              · exact caseJSString_ok _ _ hI hlt
              · split
                · exact caseJSON_ok hI hlt
                · split
                  · exact caseJSString_ok _ _ hI hlt
                  · exact ⟨_, rfl, hfall⟩


/-- the tail of an iteration after a `fall`: the position moves at least one byte forward -/
theorem tail_ok {E : Env} {st st' : St} {lp lp' : Loop} (c : UInt8) (_hI : LoopInv E st lp)
    (hg : FallGood E st lp st' lp') :
    LoopInv E (tail E st' lp' c).1 (tail E st' lp' c).2 ∧ Ext E st (tail E st' lp' c).1 ∧
      mu E (tail E st' lp' c).1 (tail E st' lp' c).2 < mu E st lp := by
  obtain ⟨hI', e', hpos, hlt⟩ := hg
  -- every result of `tail` has the same base, tokens and tagIndex as `st'` and `p ≥ lp'.p + 1`
  have key : ∀ (s : St) (l : Loop), s.base = st'.base → s.toks = st'.toks → s.tagIndex = st'.tagIndex →
      s.contexts = st'.contexts → s.bases = st'.bases → lp'.p + 1 ≤ l.p → l.p ≤ srcLen E st' →
      LoopInv E s l ∧ Ext E st s ∧ mu E s l < mu E st lp := by
    intro s l hb ht hti hcx hbs hp hle
    have hs : srcLen E s = srcLen E st' := by unfold srcLen; rw [hb]
    refine ⟨⟨hb ▸ hI'.base_le, by rw [hs]; exact hle, ?_⟩, e'.of_eq hb ht hcx hbs, ?_⟩
    · have := hI'.tag_le; rw [hti, hb]; omega
    · unfold mu
      have := attrCtx_le s.ctx
      have hlen : st'.base + l.p ≤ E.text.length := by
        have := hI'.base_le; unfold srcLen at hle; omega
      rw [hb]
      omega
  unfold tail
  simp only []
  split
  · -- newline
    have hp1 : lp'.p + 1 ≤ (if peekIs E (newline st') (lp'.p + 1) 0x0d = true then lp'.p + 1 + 1 else lp'.p + 1) := by
      split <;> omega
    have hp2 : (if peekIs E (newline st') (lp'.p + 1) 0x0d = true then lp'.p + 1 + 1 else lp'.p + 1) ≤ srcLen E st' := by
      split
      · rename_i h; have := peekIs_lt h
        have e : srcLen E (newline st') = srcLen E st' := rfl
        rw [e] at this; omega
      · omega
    generalize (if peekIs E (newline st') (lp'.p + 1) 0x0d = true then lp'.p + 1 + 1 else lp'.p + 1) = p2 at hp1 hp2
    have hcb := scanCodeBlock_ok (E := E) (newline st') p2 hp2
    obtain ⟨hs, hq1, hq2⟩ := hcb
    have hsb : (scanCodeBlock E (newline st') p2).2.2.base = st'.base := hs.base
    have hst : (scanCodeBlock E (newline st') p2).2.2.toks = st'.toks := hs.toks
    have hsti : (scanCodeBlock E (newline st') p2).2.2.tagIndex = st'.tagIndex := by rw [hs]; rfl
    split
    · exact key _ _ hsb hst hsti hs.contexts hs.bases (by show lp'.p + 1 ≤ (scanCodeBlock E (newline st') p2).1; omega) hq2
    · split
      · split
        · exact key _ _ hsb hst hsti hs.contexts hs.bases (by show lp'.p + 1 ≤ (scanCodeBlock E (newline st') p2).1; omega) hq2
        · exact key _ _ rfl rfl rfl rfl rfl hp1 hp2
      · exact key _ _ rfl rfl rfl rfl rfl hp1 hp2
  · split
    · exact key _ _ rfl rfl rfl rfl rfl (Nat.le_refl _) (by show lp'.p + 1 ≤ _; omega)
    · exact key _ _ rfl rfl rfl rfl rfl (Nat.le_refl _) (by show lp'.p + 1 ≤ _; omega)

/-- `lexShow`, `lexStatement`, `lexStatements` -/
theorem lexBlock_ok {E : Env} (hC : CodeSpec E) {st : St} {openT closeT n : Nat} (hb : st.base ≤ E.text.length)
    (hB : Bal st) (hn : n ≤ srcLen E st)
    (hclose : (n = 2 ∧ (closeT = tokenRightBraces ∨ closeT = tokenEndStatement)) ∨ (n = 3 ∧ closeT = tokenEndStatements)) :
    ∃ st' e, lexBlock E st openT closeT n = .ok (st', e) ∧ Ext E st st' ∧ st'.tagIndex = st.tagIndex ∧
      (e = none → st.base + n + n ≤ st'.base) := by
  unfold lexBlock
  obtain ⟨st1, h1, e1, b1, _, t1⟩ := emitAdv_ok (E := E) (st := st) (typ := openT) (n := n) hn hb
  simp only [h1, bind_ok]
  obtain ⟨st2, e, h2, e2, t2, hpost⟩ := hC.lexCode_ok closeT st1 e1.le_len (e1.bal hB)
  simp only [h2, bind_ok]
  cases e with
  | some err => exact ⟨st2, some err, rfl, e1.trans e2, by rw [t2, t1], by intro h; cases h⟩
  | none =>
    simp only []
    have hn2 : n ≤ srcLen E st2 := by
      obtain ⟨hp1, hp2⟩ := hpost rfl
      rcases hclose with ⟨hn', hc⟩ | ⟨hn', hc⟩
      · have := hp1 hc; omega
      · have := hp2 hc; omega
    obtain ⟨st3, h3, e3, b3, _, t3⟩ := emitAdv_ok (E := E) (st := st2) (typ := closeT) (n := n) hn2 e2.le_len
    simp only [h3, bind_ok, pure_eq_ok]
    refine ⟨st3, none, rfl, (e1.trans e2).trans e3, by rw [t3, t2, t1], ?_⟩
    intro _
    have := e2.base_le
    omega

/-- what a good `Out` is: the loop can go on with a smaller measure, or stops inside the text -/
def OutGood (E : Env) (st : St) (lp : Loop) : Out → Prop
  | .cont st' lp' => LoopInv E st' lp' ∧ Ext E st st' ∧ mu E st' lp' < mu E st lp
  | .stop st' _ _ => Ext E st st'

theorem delim_ok {E : Env} (hC : CodeSpec E) {st : St} {lp : Loop} {which : Nat} (hI : LoopInv E st lp)
    (hB : Bal st)     (h2 : lp.p + 2 ≤ srcLen E st) (hw : which ≤ 2) :
    ∃ o, delim E st lp which = .ok o ∧ OutGood E st lp o := by
  unfold delim
  obtain ⟨st1, h1, e1, b1, _, t1, _⟩ := flushText_ok hI
  simp only [h1, bind_ok]
  have hs1 : srcLen E st1 = srcLen E st - lp.p := by unfold srcLen; rw [b1]; omega
  -- the block
  have hblock : ∃ st2 e, (if which = 0 then lexShow E st1
      else if which = 1 then (if peekIs E st1 2 0x25 = true then lexStatements E st1 else lexStatement E st1)
      else lexComment E st1) = .ok (st2, e) ∧ Ext E st1 st2 ∧ st2.tagIndex = st1.tagIndex ∧
      (e = none → st1.base + 4 ≤ st2.base) := by
    split
    · obtain ⟨st2, e, h, ex, t, p⟩ := lexBlock_ok hC (E := E) (st := st1) (openT := tokenLeftBraces) (closeT := tokenRightBraces)
        (n := 2) e1.le_len (e1.bal hB) (by omega) (Or.inl ⟨rfl, Or.inl rfl⟩)
      exact ⟨st2, e, h, ex, t, fun he => by have := p he; omega⟩
    · split
      · split
        · rename_i hpk
          have := peekIs_lt hpk
          obtain ⟨st2, e, h, ex, t, p⟩ := lexBlock_ok hC (E := E) (st := st1) (openT := tokenStartStatements)
            (closeT := tokenEndStatements) (n := 3) e1.le_len (e1.bal hB) (by omega) (Or.inr ⟨rfl, rfl⟩)
          exact ⟨st2, e, h, ex, t, fun he => by have := p he; omega⟩
        · obtain ⟨st2, e, h, ex, t, p⟩ := lexBlock_ok hC (E := E) (st := st1) (openT := tokenStartStatement)
            (closeT := tokenEndStatement) (n := 2) e1.le_len (e1.bal hB) (by omega) (Or.inl ⟨rfl, Or.inr rfl⟩)
          exact ⟨st2, e, h, ex, t, fun he => by have := p he; omega⟩
      · obtain ⟨st2, e, h, ex, _, p⟩ := lexComment_ok (E := E) (st := st1) e1.le_len (by omega)
        refine ⟨st2, e, h, ex, ?_, p⟩
        -- lexComment keeps tagIndex: it only emits
        have : ∀ st2 e, lexComment E st1 = .ok (st2, e) → st2.tagIndex = st1.tagIndex := by
          intro st2 e hl
          unfold lexComment at hl
          obtain ⟨r, hr, hq⟩ := commentLoop_ok (E := E) (st := st1) (srcLen E st1 + 2) 0 2 (by omega) (by omega)
          simp only [hr, bind_ok] at hl
          cases r with
          | none => simp only [fail_ok] at hl; cases hl; rfl
          | some q =>
            obtain ⟨hq1, hq2⟩ := hq q rfl
            simp only [] at hl
            have hs := SameButPos.addCol st1 2
            obtain ⟨sa, hwk, hsa⟩ := walkCode_ok (E := E) (q - 2 - 2) 2 (addCol st1 2) (by rw [hs.srcLen]; omega)
            simp only [walk, hwk, bind_ok] at hl
            have hs2 : SameButPos st1 (addCol sa 2) := (hs.trans hsa).trans (SameButPos.addCol sa 2)
            obtain ⟨sb, he, _, _, _, _, _, _, _, _, hti, _⟩ :=
              emitAt_ok (E := E) (st := addCol sa 2) (line := st1.line) (col := st1.col) (typ := tokenComment) (n := q)
                (by rw [hs2.srcLen]; exact hq2) (by rw [hs2.base]; exact e1.le_len)
            simp only [he, bind_ok, pure_eq_ok] at hl
            cases hl
            rw [hti]; rw [hs2]
        exact this st2 e h
  obtain ⟨st2, e, hbl, e2, t2, hprog⟩ := hblock
  simp only [hbl, bind_ok]
  cases e with
  | some err => exact ⟨_, rfl, (e1.trans e2 : Ext E st st2)⟩
  | none =>
    simp only []
    have hprog' := hprog rfl
    have hcont : ∀ (s : St) (p : Nat), SameButPos st2 s → p ≤ srcLen E st2 →
        OutGood E st lp (.cont s { resetTok st2 { lp with p := 0 } with p := p }) := by
      intro s p hs hp
      refine ⟨⟨by rw [hs.base]; exact e2.le_len, by rw [hs.srcLen]; exact hp, ?_⟩, (e1.trans e2).trans (hs.ext e2.le_len), ?_⟩
      · show s.tagIndex ≤ s.base + p
        have : s.tagIndex = st2.tagIndex := by rw [hs]
        rw [this, t2, t1, hs.base]
        have := hI.tag_le; omega
      · unfold mu
        show 2 * (E.text.length - (s.base + p)) + attrCtx s.ctx < _
        have := attrCtx_le s.ctx
        have := e2.le_len
        have := hI.pos_le
        rw [hs.base]
        unfold srcLen at hp
        omega
    split
    · cases hm : st2.rawMarker with
      | none =>
        simp only []
        exact ⟨_, rfl, hcont st2 0 (SameButPos.refl st2) (Nat.zero_le _)⟩
      | some m =>
        simp only []
        obtain ⟨s, p, hsk, hs, hp⟩ := skipRawContent_ok (E := E) (st := st2) m
        simp only [hsk, bind_ok, pure_eq_ok]
        exact ⟨_, rfl, hcont s p hs hp⟩
    · exact ⟨_, rfl, hcont st2 0 (SameButPos.refl st2) (Nat.zero_le _)⟩

theorem step_ok {E : Env} (hC : CodeSpec E) {st : St} {lp : Loop} (hI : LoopInv E st lp)
    (hB : Bal st) (hlt : lp.p < srcLen E st) :
    ∃ o, step E st lp = .ok o ∧ OutGood E st lp o := by
  unfold step
  obtain ⟨c, hc, hpk⟩ := srcAt_ok_of_lt hlt
  simp only [hc, bind_ok]
  -- the update of `spacesOnly` does not matter
  have hI' : ∀ b, LoopInv E st (if st.ctx = ContextMarkdown then { lp with spacesOnly := b } else lp) := by
    intro b; split <;> exact ⟨hI.base_le, hI.p_le, hI.tag_le⟩
  have hp' : ∀ b, (if st.ctx = ContextMarkdown then { lp with spacesOnly := b } else lp).p = lp.p := by
    intro b; split <;> rfl
  generalize hlp1 : (if st.ctx = ContextMarkdown then { lp with spacesOnly := lp.spacesOnly && isSpace c } else lp) = lp1
  have hI1 : LoopInv E st lp1 := hlp1 ▸ hI' _
  have hp1 : lp1.p = lp.p := hlp1 ▸ hp' _
  have hmu : mu E st lp1 = mu E st lp := by unfold mu; rw [hp1]
  have lift : ∀ o, OutGood E st lp1 o → OutGood E st lp o := by
    intro o ho
    cases o with
    | cont s l => exact ⟨ho.1, ho.2.1, by rw [← hmu]; exact ho.2.2⟩
    | stop s l e => exact ho
  have hlt1 : lp1.p < srcLen E st := by rw [hp1]; exact hlt
  have hpk1 : peek E st lp1.p = some c := by rw [hp1]; exact hpk
  split
  · -- Markdown backslash
    have hs := SameButPos.addCol st 1
    have hgood : ∀ (s : St) (p : Nat), SameButPos st s → lp1.p + 1 ≤ p → p ≤ srcLen E st →
        OutGood E st lp (.cont s { lp1 with p := p }) := by
      intro s p hss hp hle
      apply lift
      have := NextStrict.same (E := E) (st := st) (st' := s) (lp := lp1) (lp' := { lp1 with p := p }) hI1 hss.base hss.toks
        (by show s.tagIndex ≤ s.base + p
            have : s.tagIndex = st.tagIndex := by rw [hss]
            rw [this, hss.base]; have := hI1.tag_le; omega)
        (by show lp1.p < p; omega) hle hss.contexts hss.bases
      exact this.good hI1
    cases hd : peek E (addCol st 1) (lp1.p + 1) with
    | none =>
      simp only []
      exact ⟨_, rfl, hgood _ _ hs (Nat.le_refl _) (by omega)⟩
    | some d =>
      simp only []
      have hdl := peek_some_lt_srcLen hd
      rw [hs.srcLen] at hdl
      split
      · have hdr := decodeRune_drop (t := E.text) (i := (addCol st 1).base + (lp1.p + 1))
          (by show st.base + (lp1.p + 1) < _; unfold srcLen at hdl; omega)
        cases hrs : decodeRune (E.text.drop ((addCol st 1).base + (lp1.p + 1))) with
        | mk r s =>
          rw [hrs] at hdr
          simp only []
          refine ⟨_, rfl, hgood _ _ (hs.trans (SameButPos.addCol _ 1)) (by omega) ?_⟩
          have hb : (addCol st 1).base = st.base := rfl
          rw [hb] at hdr
          unfold srcLen; omega
      · exact ⟨_, rfl, hgood _ _ hs (Nat.le_refl _) (by omega)⟩
  · -- delimiters
    have hd2 : ∀ x, (if lp1.p + 1 < srcLen E st then peek E st (lp1.p + 1) else none) = some x → lp1.p + 2 ≤ srcLen E st := by
      intro x h
      split at h
      · omega
      · cases h
    generalize hdd : (if lp1.p + 1 < srcLen E st then peek E st (lp1.p + 1) else none) = d at hd2
    split
    · rename_i hcond
      obtain ⟨o, ho, hg⟩ := delim_ok hC (which := 0) hI1 hB (hd2 _ hcond.2.1) (by omega)
      exact ⟨o, ho, lift o hg⟩
    · split
      · rename_i hcond
        obtain ⟨o, ho, hg⟩ := delim_ok hC (which := 1) hI1 hB (hd2 _ hcond.2) (by omega)
        exact ⟨o, ho, lift o hg⟩
      · split
        · rename_i hcond
          obtain ⟨o, ho, hg⟩ := delim_ok hC (which := 2) hI1 hB (hd2 _ hcond.2) (by omega)
          exact ⟨o, ho, lift o hg⟩
        · split
          · obtain ⟨s, hsk, _, hext⟩ := skip_ok (E := E) (st := st) (k := lp1.p) (by omega) hI.base_le
            simp only [hsk, bind_ok, pure_eq_ok]
            exact ⟨_, rfl, hext⟩
          · obtain ⟨o, ho, hg⟩ := ctxSwitch_ok (F := fixedOf st) hI1 hlt1 hpk1
            simp only [ho, bind_ok]
            cases o with
            | next s l => exact ⟨_, rfl, lift _ hg⟩
            | fall s l =>
              simp only []
              have := tail_ok c hI1 hg
              refine ⟨_, rfl, lift _ ?_⟩
              exact this

theorem mainLoop_ok {E : Env} (hC : CodeSpec E) : ∀ (fuel : Nat) (st : St) (lp : Loop),
    LoopInv E st lp → Bal st → mu E st lp < fuel →
    ∃ st' lp' e, mainLoop E fuel st lp = .ok (st', lp', e) ∧ Ext E st st' ∧
      (e = none → lp'.p = srcLen E st') := by
  intro fuel
  induction fuel with
  | zero => intro _ _ _ _ h; omega
  | succ fuel ih =>
    intro st lp hI hB hf
    unfold mainLoop
    split
    · rename_i hlt
      obtain ⟨o, ho, hg⟩ := step_ok hC hI hB hlt
      simp only [ho, bind_ok]
      cases o with
      | cont s l =>
        simp only []
        obtain ⟨hI', e', hm⟩ := hg
        obtain ⟨st', lp', e, h, ex, hp⟩ := ih s l hI' (e'.bal hB) (by omega)
        exact ⟨st', lp', e, h, e'.trans ex, hp⟩
      | stop s l err => exact ⟨s, l, some err, rfl, hg, by intro h; cases h⟩
    · rename_i hge
      refine ⟨st, lp, none, rfl, Ext.refl hI.base_le, ?_⟩
      intro _
      have := hI.p_le; omega

end ScriggoV.Lexer
