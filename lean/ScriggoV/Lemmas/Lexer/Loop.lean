import ScriggoV.Lemmas.Lexer.Cases2
/-! # The main loop of `scan`: `caseTag`, `ctxSwitch`, `tail`, `delim`, `step`, `mainLoop`, `scan` -/
namespace ScriggoV.Lexer
open ScriggoV ScriggoV.Gen.LexTables

theorem caseTag_ok {E : Env} {F : Fixed} {st : St} {lp : Loop} {c : UInt8} (hI : LoopInv E st lp)
    (hlt : lp.p < srcLen E st) (hc : peek E st lp.p = some c) :
    ∃ o, caseTag E F st lp c = .ok o ∧ CaseGood E st lp o := by
  unfold caseTag
  split
  · rename_i hcond
    simp only []
    split
    · rename_i hslash
      -- `c == '/' && l.src[p] == '>'` cannot hold: `l.src[p]` is `c`
      exfalso
      rcases hcond with h | h
      · rw [h] at hslash; cases hslash
      · have := h.2; unfold peekIs at this; rw [hc] at this
        have : c = 0x3e := by simpa using this
        rw [this] at hslash; cases hslash
    · exact ⟨_, rfl, fall_same hI rfl rfl rfl (Nat.le_refl _) hlt⟩
  · split
    · obtain ⟨st1, attr, next, h1, hs1, hn1, hn2⟩ := scanAttribute_ok (E := E) (st := st) (p := lp.p) (by omega)
      simp only [h1, bind_ok]
      have hb1 : st1.base = st.base := hs1.base
      have ht1 : st1.toks = st.toks := hs1.toks
      have hti1 : st1.tagIndex = st.tagIndex := by rw [hs1]
      have hsl1 : srcLen E st1 = srcLen E st := hs1.srcLen
      split
      · rename_i hgt
        -- start of the attribute value
        have hnone : CaseGood E st lp (.next { st1 with tagAttr := attr } { lp with p := next }) :=
          NextGood.same hI hb1 ht1 (by show st1.tagIndex ≤ st1.base + next; have := hI.tag_le; omega) hgt hn2
        split
        · rename_i q hq
          have hqlt : next < srcLen E st := by
            split at hq
            · have := peek_some_lt_srcLen hq
              show next < srcLen E st
              have e : srcLen E { st1 with tagAttr := attr } = srcLen E st1 := rfl
              rw [e, hsl1] at this; exact this
            · cases hq
          -- after the optional quote
          have hquote : ∃ st2 lp2, (if q = 0x22 ∨ q = 0x27 then
                (addCol { st1 with tagAttr := attr } 1, { ({ lp with p := next } : Loop) with quote := q, p := next + 1 })
              else ({ st1 with tagAttr := attr }, ({ lp with p := next } : Loop))) = (st2, lp2) ∧
              st2.base = st.base ∧ st2.toks = st.toks ∧ st2.tagIndex = st.tagIndex ∧ next ≤ lp2.p ∧ lp2.p ≤ srcLen E st := by
            split
            · exact ⟨_, _, rfl, hb1, ht1, hti1, by show next ≤ next + 1; omega, by show next + 1 ≤ _; omega⟩
            · exact ⟨_, _, rfl, hb1, ht1, hti1, Nat.le_refl _, by show next ≤ _; omega⟩
          obtain ⟨st2, lp2, he, hb2, ht2, hti2, hp2, hp2'⟩ := hquote
          simp only [he]
          have hsl2 : srcLen E st2 = srcLen E st := by unfold srcLen; rw [hb2]
          split
          · -- URL attribute
            obtain ⟨st3, h3, e3, b3, _, _, _, _, _, _, t3, _⟩ := emitAt_ok (E := E) (st := st2) (line := lp2.lin) (col := lp2.tcol)
              (typ := tokenText) (n := lp2.p) (by rw [hsl2]; exact hp2') (by rw [hb2]; exact hI.base_le)
            simp only [h3, bind_ok]
            obtain ⟨st4, h4, e4, b4, _, _, _, t4, _⟩ := emit_ok (E := E)
              (st := { st3 with ctx := if lp2.quote = 0 then ContextUnquotedAttr else ContextQuotedAttr })
              (typ := tokenStartURL) (n := 0) (Nat.zero_le _) e3.le_len
            simp only [h4, bind_ok, pure_eq_ok]
            refine ⟨_, rfl, ?_⟩
            have e23 : Ext E st st3 := by
              have : Ext E st st2 := (Ext.refl hI.base_le).of_eq hb2 ht2
              exact this.trans e3
            have e34 : Ext E st st4 := e23.trans ((e4 : Ext E _ st4))
            have hbase4 : st4.base = st.base + lp2.p := by rw [b4]; show st3.base + 0 = _; rw [b3, hb2]; omega
            refine ⟨⟨e4.le_len, Nat.zero_le _, ?_⟩, e34, ?_⟩
            · show st4.tagIndex ≤ st4.base + 0
              rw [t4]; show st3.tagIndex ≤ _; rw [t3, hti2, hbase4]; have := hI.tag_le; omega
            · unfold mu
              show 2 * (E.text.length - (st4.base + 0)) + attrCtx st4.ctx < _
              have := attrCtx_le st4.ctx
              have := hI.pos_le
              have : st4.base ≤ E.text.length := e4.le_len
              rw [hbase4] at this ⊢
              omega
          · refine ⟨_, rfl, ?_⟩
            apply NextGood.same hI (st' := { st2 with tagIndex := st2.base + lp2.p, ctx := _ }) hb2 ht2
            · exact Nat.le_refl _
            · omega
            · exact hp2'
        · exact ⟨_, rfl, hnone⟩
      · exact ⟨_, rfl, fall_same hI hb1 ht1 hti1 (Nat.le_refl _) hlt⟩
    · exact ⟨_, rfl, fall_same hI rfl rfl rfl (Nat.le_refl _) hlt⟩

theorem ctxSwitch_ok {E : Env} {F : Fixed} {st : St} {lp : Loop} {c : UInt8} (hI : LoopInv E st lp)
    (hlt : lp.p < srcLen E st) (hc : peek E st lp.p = some c) :
    ∃ o, ctxSwitch E F st lp c = .ok o ∧ CaseGood E st lp o := by
  unfold ctxSwitch
  have hfall : CaseGood E st lp (.fall st lp) := fall_same hI rfl rfl rfl (Nat.le_refl _) hlt
  split
  · obtain ⟨o, ho, hg⟩ := caseMarkdown_ok hI hlt
    simp only [ho, bind_ok]
    cases o with
    | next st' lp' => exact ⟨_, rfl, hg⟩
    | fall st' lp' =>
      simp only []
      split
      · obtain ⟨hI', e', hpos', hlt'⟩ := hg
        obtain ⟨s2, l2, ho2, i2, e2, p2⟩ := caseLT_strict hI' hlt'
        refine ⟨_, ho2, ?_⟩
        exact NextStrict.good hI ⟨i2, e'.trans e2, by omega⟩
      · exact ⟨_, rfl, hg⟩
  · split
    · split
      · exact caseLT_ok hI hlt
      · exact ⟨_, rfl, hfall⟩
    · split
      · exact caseTag_ok hI hlt hc
      · split
        · exact caseAttr_ok hI hlt
        · split
          · exact caseCSS_ok hI hlt
          · split
            · exact caseJS_ok hI hlt
            · split
              · exact caseJSString_ok _ _ hI hlt
              · split
                · exact caseJSON_ok hI hlt
                · split
                  · exact caseJSString_ok _ _ hI hlt
                  · exact ⟨_, rfl, hfall⟩

end ScriggoV.Lexer
