import ScriggoV.Lemmas.Lexer.Raw
/-! # `scanTag`, `scanAttribute`, `scanCodeBlock`: no fault, bounds, fuel suffices -/
namespace ScriggoV.Lexer
open ScriggoV ScriggoV.Gen.LexTables

theorem scanTagLoop_ok {E : Env} : ∀ (fuel : Nat) (st : St) (p : Nat), p ≤ srcLen E st → srcLen E st - p < fuel →
    ∃ st' q, scanTagLoop E fuel st p = .ok (st', q) ∧ SameButPos st st' ∧ p ≤ q ∧ q ≤ srcLen E st := by
  intro fuel
  induction fuel with
  | zero => intro _ _ _ h; omega
  | succ fuel ih =>
    intro st p hp hf
    unfold scanTagLoop
    split
    · rename_i hlt
      obtain ⟨c, hc, _⟩ := srcAt_ok_of_lt hlt
      simp only [hc, bind_ok]
      split
      · exact ⟨st, p, rfl, SameButPos.refl st, Nat.le_refl _, hp⟩
      · have hs := SameButPos.addCol st 1
        split
        · obtain ⟨st', q, h1, h2, h3, h4⟩ := ih (addCol st 1) (p + 1) (by rw [hs.srcLen]; omega) (by rw [hs.srcLen]; omega)
          exact ⟨st', q, h1, hs.trans h2, by omega, by rw [hs.srcLen] at h4; exact h4⟩
        · have hd := decodeRune_drop (t := E.text) (i := st.base + p) (by unfold srcLen at hlt; omega)
          cases hrs : decodeRune (E.text.drop (st.base + p)) with
          | mk r s =>
            rw [hrs] at hd
            simp only [addCol] at hrs ⊢
            rw [hrs]
            simp only []
            obtain ⟨st', q, h1, h2, h3, h4⟩ := ih (addCol st 1) (p + s)
              (by rw [hs.srcLen]; unfold srcLen; omega) (by rw [hs.srcLen]; omega)
            exact ⟨st', q, h1, hs.trans h2, by omega, by rw [hs.srcLen] at h4; exact h4⟩
    · exact ⟨st, p, rfl, SameButPos.refl st, Nat.le_refl _, hp⟩

theorem scanTag_ok {E : Env} {st : St} {p : Nat} (hp : p ≤ srcLen E st) :
    ∃ st' name q, scanTag E st p = .ok (st', name, q) ∧ SameButPos st st' ∧ p ≤ q ∧ q ≤ srcLen E st := by
  unfold scanTag
  split
  · exact ⟨st, [], p, rfl, SameButPos.refl st, Nat.le_refl _, hp⟩
  · rename_i hne
    obtain ⟨c, hc, _⟩ := srcAt_ok_of_lt (E := E) (st := st) (i := p) (by omega)
    simp only [hc, bind_ok]
    split
    · exact ⟨st, [], p, rfl, SameButPos.refl st, Nat.le_refl _, hp⟩
    · have hs := SameButPos.addCol st 1
      obtain ⟨st', q, h1, h2, h3, h4⟩ := scanTagLoop_ok (E := E) (srcLen E st + 1) (addCol st 1) (p + 1)
        (by rw [hs.srcLen]; omega) (by rw [hs.srcLen]; omega)
      simp only [h1, bind_ok]
      have hs' := hs.trans h2
      rw [hs.srcLen] at h4
      have hlen : (E.text.drop st'.base).length = srcLen E st := by
        rw [hs'.base]; simp [srcLen]
      rw [sliceOf_ok (by omega) (by rw [hlen]; exact h4)]
      simp only [bind_ok]
      exact ⟨st', _, q, rfl, hs', by omega, h4⟩

theorem attrNameLoop_ok {E : Env} : ∀ (fuel : Nat) (st : St) (p : Nat), p ≤ srcLen E st → srcLen E st - p < fuel →
    ∃ r, attrNameLoop E fuel st p = .ok r ∧
      ((∃ st' q, r = .stop st' q ∧ SameButPos st st' ∧ p ≤ q ∧ q ≤ srcLen E st) ∨
       (∃ st' q, r = .done st' q ∧ SameButPos st st' ∧ p ≤ q ∧ q ≤ srcLen E st)) := by
  intro fuel
  induction fuel with
  | zero => intro _ _ _ h; omega
  | succ fuel ih =>
    intro st p hp hf
    unfold attrNameLoop
    split
    · rename_i hlt
      obtain ⟨c, hc, _⟩ := srcAt_ok_of_lt hlt
      simp only [hc, bind_ok]
      split
      · exact ⟨_, rfl, Or.inr ⟨st, p, rfl, SameButPos.refl st, Nat.le_refl _, hp⟩⟩
      · split
        · exact ⟨_, rfl, Or.inl ⟨st, p, rfl, SameButPos.refl st, Nat.le_refl _, hp⟩⟩
        · have hd := decodeRune_drop (t := E.text) (i := st.base + p) (by unfold srcLen at hlt; omega)
          -- the position after the (possibly multi-byte) character
          have hns : ∀ (ns : Option Nat), (∀ p', ns = some p' → p ≤ p' ∧ p' + 1 ≤ srcLen E st) →
              ∃ r, (match ns with
                | none => pure (AttrName.stop st p)
                | some p =>
                  let d := peek E st (p + 1)
                  if c = 0x7b ∧ (d = some 0x7b ∨ d = some 0x25 ∨ d = some 0x23) then pure (AttrName.stop st p)
                  else attrNameLoop E fuel (addCol st 1) (p + 1) : Except Fault AttrName) = .ok r ∧
              ((∃ st' q, r = .stop st' q ∧ SameButPos st st' ∧ p ≤ q ∧ q ≤ srcLen E st) ∨
               (∃ st' q, r = .done st' q ∧ SameButPos st st' ∧ p ≤ q ∧ q ≤ srcLen E st)) := by
            intro ns hns
            cases ns with
            | none => exact ⟨_, rfl, Or.inl ⟨st, p, rfl, SameButPos.refl st, Nat.le_refl _, hp⟩⟩
            | some p' =>
              obtain ⟨h1, h2⟩ := hns p' rfl
              simp only []
              split
              · exact ⟨_, rfl, Or.inl ⟨st, p', rfl, SameButPos.refl st, h1, by omega⟩⟩
              · have hs := SameButPos.addCol st 1
                obtain ⟨r, hr, hcase⟩ := ih (addCol st 1) (p' + 1) (by rw [hs.srcLen]; omega) (by rw [hs.srcLen]; omega)
                refine ⟨r, hr, ?_⟩
                rcases hcase with ⟨st', q, e, s1, s2, s3⟩ | ⟨st', q, e, s1, s2, s3⟩
                · exact Or.inl ⟨st', q, e, hs.trans s1, by omega, by rw [hs.srcLen] at s3; exact s3⟩
                · exact Or.inr ⟨st', q, e, hs.trans s1, by omega, by rw [hs.srcLen] at s3; exact s3⟩
          apply hns
          intro p' hp'
          split at hp'
          · cases hrs : decodeRune (E.text.drop (st.base + p)) with
            | mk r s =>
              rw [hrs] at hd hp'
              simp only [] at hp'
              split at hp'
              · cases hp'
              · split at hp'
                · cases hp'
                · cases hp'
                  unfold srcLen
                  omega
          · cases hp'; omega
    · exact ⟨_, rfl, Or.inr ⟨st, p, rfl, SameButPos.refl st, Nat.le_refl _, hp⟩⟩

/-- the common shape of the `=` and quote loops of `scanAttribute` -/
theorem attrEqLoop_ok {E : Env} : ∀ (fuel : Nat) (st : St) (p : Nat), p ≤ srcLen E st → srcLen E st - p < fuel →
    ∃ r, attrEqLoop E fuel st p = .ok r ∧
      ((∃ st' q, r = .stop st' q ∧ SameButPos st st' ∧ p ≤ q ∧ q ≤ srcLen E st) ∨
       (∃ st' q, r = .done st' q ∧ SameButPos st st' ∧ p ≤ q ∧ q ≤ srcLen E st)) := by
  intro fuel
  induction fuel with
  | zero => intro _ _ _ h; omega
  | succ fuel ih =>
    intro st p hp hf
    unfold attrEqLoop
    split
    · rename_i hlt
      obtain ⟨c, hc, _⟩ := srcAt_ok_of_lt hlt
      simp only [hc, bind_ok]
      split
      · exact ⟨_, rfl, Or.inr ⟨_, p + 1, rfl, SameButPos.addCol st 1, by omega, by omega⟩⟩
      · split
        · have hs : SameButPos st (if c = 0x0a then newline st else addCol st 1) := by
            split
            · exact SameButPos.newline st
            · exact SameButPos.addCol st 1
          obtain ⟨r, hr, hcase⟩ := ih _ (p + 1) (by rw [hs.srcLen]; omega) (by rw [hs.srcLen]; omega)
          refine ⟨r, hr, ?_⟩
          rcases hcase with ⟨st', q, e, s1, s2, s3⟩ | ⟨st', q, e, s1, s2, s3⟩
          · exact Or.inl ⟨st', q, e, hs.trans s1, by omega, by rw [hs.srcLen] at s3; exact s3⟩
          · exact Or.inr ⟨st', q, e, hs.trans s1, by omega, by rw [hs.srcLen] at s3; exact s3⟩
        · exact ⟨_, rfl, Or.inl ⟨st, p, rfl, SameButPos.refl st, Nat.le_refl _, hp⟩⟩
    · exact ⟨_, rfl, Or.inr ⟨st, p, rfl, SameButPos.refl st, Nat.le_refl _, hp⟩⟩

theorem attrQuoteLoop_ok {E : Env} : ∀ (fuel : Nat) (st : St) (p : Nat), p ≤ srcLen E st → srcLen E st - p < fuel →
    ∃ r, attrQuoteLoop E fuel st p = .ok r ∧
      ((∃ st' q, r = .stop st' q ∧ SameButPos st st' ∧ p ≤ q ∧ q ≤ srcLen E st) ∨
       (∃ st' q, r = .done st' q ∧ SameButPos st st' ∧ p ≤ q ∧ q ≤ srcLen E st)) := by
  intro fuel
  induction fuel with
  | zero => intro _ _ _ h; omega
  | succ fuel ih =>
    intro st p hp hf
    unfold attrQuoteLoop
    split
    · rename_i hlt
      obtain ⟨c, hc, _⟩ := srcAt_ok_of_lt hlt
      simp only [hc, bind_ok]
      split
      · exact ⟨_, rfl, Or.inl ⟨st, p, rfl, SameButPos.refl st, Nat.le_refl _, hp⟩⟩
      · split
        · have hs : SameButPos st (if c = 0x0a then newline st else addCol st 1) := by
            split
            · exact SameButPos.newline st
            · exact SameButPos.addCol st 1
          obtain ⟨r, hr, hcase⟩ := ih _ (p + 1) (by rw [hs.srcLen]; omega) (by rw [hs.srcLen]; omega)
          refine ⟨r, hr, ?_⟩
          rcases hcase with ⟨st', q, e, s1, s2, s3⟩ | ⟨st', q, e, s1, s2, s3⟩
          · exact Or.inl ⟨st', q, e, hs.trans s1, by omega, by rw [hs.srcLen] at s3; exact s3⟩
          · exact Or.inr ⟨st', q, e, hs.trans s1, by omega, by rw [hs.srcLen] at s3; exact s3⟩
        · exact ⟨_, rfl, Or.inr ⟨st, p, rfl, SameButPos.refl st, Nat.le_refl _, hp⟩⟩
    · exact ⟨_, rfl, Or.inr ⟨st, p, rfl, SameButPos.refl st, Nat.le_refl _, hp⟩⟩

theorem scanAttribute_ok {E : Env} {st : St} {p : Nat} (hp : p ≤ srcLen E st) :
    ∃ st' name q, scanAttribute E st p = .ok (st', name, q) ∧ SameButPos st st' ∧ p ≤ q ∧ q ≤ srcLen E st := by
  unfold scanAttribute
  simp only []
  obtain ⟨r, hr, hcase⟩ := attrNameLoop_ok (E := E) (srcLen E st + 1) st p hp (by omega)
  simp only [hr, bind_ok]
  rcases hcase with ⟨st1, q1, e, s1, s2, s3⟩ | ⟨st1, q1, e, s1, s2, s3⟩
  · subst e; exact ⟨st1, [], q1, rfl, s1, s2, s3⟩
  · subst e
    simp only []
    split
    · exact ⟨st1, [], q1, rfl, s1, s2, s3⟩
    · have hlen : (E.text.drop st1.base).length = srcLen E st := by rw [s1.base]; simp [srcLen]
      rw [sliceOf_ok s2 (by rw [hlen]; exact s3)]
      simp only [bind_ok]
      obtain ⟨r2, hr2, hcase2⟩ := attrEqLoop_ok (E := E) (srcLen E st + 1) st1 q1 (by rw [s1.srcLen]; exact s3)
        (by rw [s1.srcLen]; omega)
      simp only [hr2, bind_ok]
      rcases hcase2 with ⟨st2, q2, e, t1, t2, t3⟩ | ⟨st2, q2, e, t1, t2, t3⟩
      · subst e; exact ⟨st2, [], q2, rfl, s1.trans t1, by omega, by rw [s1.srcLen] at t3; exact t3⟩
      · subst e
        simp only []
        rw [s1.srcLen] at t3
        obtain ⟨r3, hr3, hcase3⟩ := attrQuoteLoop_ok (E := E) (srcLen E st + 1) st2 q2
          (by rw [(s1.trans t1).srcLen]; exact t3) (by rw [(s1.trans t1).srcLen]; omega)
        simp only [hr3, bind_ok]
        rcases hcase3 with ⟨st3, q3, e, u1, u2, u3⟩ | ⟨st3, q3, e, u1, u2, u3⟩
        · subst e
          exact ⟨st3, [], q3, rfl, (s1.trans t1).trans u1, by omega, by rw [(s1.trans t1).srcLen] at u3; exact u3⟩
        · subst e
          simp only []
          rw [(s1.trans t1).srcLen] at u3
          split
          · exact ⟨st3, [], q3, rfl, (s1.trans t1).trans u1, by omega, u3⟩
          · exact ⟨st3, _, q3, rfl, (s1.trans t1).trans u1, by omega, u3⟩

theorem scanCodeBlock_ok {E : Env} (st : St) (p : Nat) (hp : p ≤ srcLen E st) :
    SameButPos st (scanCodeBlock E st p).2.2 ∧ p ≤ (scanCodeBlock E st p).1 ∧ (scanCodeBlock E st p).1 ≤ srcLen E st := by
  unfold scanCodeBlock
  split
  · rename_i h
    have := peek_some_lt_srcLen h
    exact ⟨SameButPos.addCol st 1, by simp, by simp; omega⟩
  · split
    · rename_i h
      exact ⟨SameButPos.addCol st 4, by simp, by simp; omega⟩
    · exact ⟨SameButPos.refl st, Nat.le_refl _, hp⟩
  · exact ⟨SameButPos.refl st, Nat.le_refl _, hp⟩

end ScriggoV.Lexer
