import ScriggoV.Lemmas.Lexer.Scan
/-! # Literal lexers of `lexCode`: identifiers, interpreted and raw strings, rune literals -/
namespace ScriggoV.Lexer
open ScriggoV ScriggoV.Gen.LexTables

/-- a sub-lexer's result is good: it stays inside the text, only appends tokens, keeps
`tag.index`, and moves forward when it reports no error -/
def RGood (E : Env) (st : St) (r : St × Option LexErr) : Prop :=
  Ext E st r.1 ∧ r.1.tagIndex = st.tagIndex ∧ (r.2 = none → st.base < r.1.base)

theorem fail_good {E : Env} {st : St} (k : ErrKind) (hb : st.base ≤ E.text.length) :
    ∃ r, fail st k = .ok r ∧ RGood E st r :=
  ⟨_, rfl, Ext.refl hb, rfl, by intro h; cases h⟩

theorem failAt_good {E : Env} {st : St} {p cols : Nat} (k : ErrKind) (hb : st.base ≤ E.text.length)
    (hp : p ≤ srcLen E st) : ∃ r, failAt E st p cols k = .ok r ∧ RGood E st r := by
  unfold failAt
  obtain ⟨st', h, heq, hext⟩ := skip_ok (E := E) (st := st) (k := p) hp hb
  simp only [h, bind_ok]
  exact ⟨_, rfl, hext.of_eq rfl rfl, by show (addCol st' cols).tagIndex = _; rw [heq]; rfl, by intro h; cases h⟩

theorem emitThen_good {E : Env} {st : St} {typ n cols : Nat} (hb : st.base ≤ E.text.length) (hn : n ≤ srcLen E st)
    (hpos : 0 < n) :
    ∃ st', emit E st typ n = .ok st' ∧ RGood E st (addCol st' cols, none) := by
  obtain ⟨st', h, e, b, _, _, _, t, _⟩ := emit_ok (E := E) (st := st) (typ := typ) (n := n) hn hb
  exact ⟨st', h, e.of_eq rfl rfl, t, fun _ => by show st.base < st'.base; omega⟩

/-! ## identifiers -/

theorem identLoop_bounds {E : Env} {st : St} : ∀ (fuel p cols : Nat), p ≤ srcLen E st →
    p ≤ (identLoop E st fuel p cols).1 ∧ (identLoop E st fuel p cols).1 ≤ srcLen E st := by
  intro fuel
  induction fuel with
  | zero => intro p cols h; exact ⟨Nat.le_refl _, h⟩
  | succ fuel ih =>
    intro p cols h
    unfold identLoop
    split
    · rename_i hlt
      have hd := decodeRune_drop (t := E.text) (i := st.base + p) (by unfold srcLen at hlt; omega)
      cases hrs : decodeRune (E.text.drop (st.base + p)) with
      | mk r s =>
        rw [hrs] at hd
        simp only []
        split
        · exact ⟨Nat.le_refl _, h⟩
        · have := ih (p + s) (cols + 1) (by unfold srcLen; omega)
          constructor <;> omega
    · exact ⟨Nat.le_refl _, h⟩

theorem lexIdent_ok {E : Env} {st : St} {s : Nat} (hb : st.base ≤ E.text.length) (hs1 : 1 ≤ s) (hs2 : s ≤ srcLen E st) :
    ∃ st' typ txt, lexIdent E st s = .ok (st', typ, txt) ∧ Ext E st st' ∧ st'.tagIndex = st.tagIndex ∧
      st.base < st'.base ∧ st'.ctx = st.ctx ∧ st'.contexts = st.contexts := by
  unfold lexIdent
  have hbd := identLoop_bounds (E := E) (st := st) (srcLen E st + 1) s 1 hs2
  cases hil : identLoop E st (srcLen E st + 1) s 1 with
  | mk p cols =>
    rw [hil] at hbd
    simp only [] at hbd ⊢
    generalize identType E (List.take p (List.drop st.base E.text)) = typ
    obtain ⟨st', h, e, b, _, _, c, _, _, _, t, _⟩ := emitAt_ok (E := E) (st := st) (line := st.line) (col := st.col)
      (typ := typ) (n := p) hbd.2 hb
    have hc : st'.contexts = st.contexts := by
      unfold emitAt at h
      have : ¬ srcLen E st < p := by omega
      simp only [this, if_false] at h
      cases h; rfl
    unfold emit
    simp only [h, bind_ok, pure_eq_ok]
    exact ⟨_, _, _, rfl, e.of_eq rfl rfl, t, by show st.base < st'.base; omega, c, hc⟩

/-! ## interpreted strings -/

theorem hexRun_ok {E : Env} {st : St} : ∀ (n q acc : Nat), q + n ≤ srcLen E st →
    ∃ r, hexRun E st n q acc = .ok r := by
  intro n
  induction n with
  | zero => intro q acc _; exact ⟨_, rfl⟩
  | succ n ih =>
    intro q acc h
    unfold hexRun
    obtain ⟨c, hc, _⟩ := srcAt_ok_of_lt (E := E) (st := st) (i := q) (by omega)
    simp only [hc, bind_ok]
    split
    · exact ih (q + 1) _ (by omega)
    · exact ⟨_, rfl⟩

/-- the outcomes of one step of the string loop keep `p` inside the source -/
def StrGood (E : Env) (st : St) (p : Nat) : StrOut → Prop
  | .cont p' _ => p < p' ∧ p' ≤ srcLen E st
  | .done p' _ => p' < srcLen E st
  | .err _ none => True
  | .err _ (some (q, _)) => q ≤ srcLen E st

theorem strEscU_ok {E : Env} {st : St} {p cols : Nat} (e : UInt8) (hp : p ≤ srcLen E st) :
    ∃ o, strEscU E st p cols e = .ok o ∧ StrGood E st p o := by
  unfold strEscU
  simp only []
  generalize (if e = 0x55 then 8 else 4 : Nat) = n
  split
  · exact ⟨_, rfl, trivial⟩
  · rename_i hlen
    obtain ⟨r, hr⟩ := hexRun_ok (E := E) (st := st) n (p + 2) 0 (by omega)
    simp only [hr, bind_ok]
    cases r with
    | none => exact ⟨_, rfl, hp⟩
    | some v =>
      simp only []
      split
      · exact ⟨_, rfl, hp⟩
      · exact ⟨_, rfl, by omega, by omega⟩

theorem strEscX_ok {E : Env} {st : St} {p cols : Nat} (hp : p + 1 < srcLen E st) :
    ∃ o, strEscX E st p cols = .ok o ∧ StrGood E st p o := by
  have hp' : p ≤ srcLen E st := by omega
  unfold strEscX
  split
  · exact ⟨_, rfl, hp'⟩
  · obtain ⟨h0, hh0, _⟩ := srcAt_ok_of_lt (E := E) (st := st) (i := p + 2) (by omega)
    simp only [hh0, bind_ok]
    split
    · exact ⟨_, rfl, hp'⟩
    · split
      · exact ⟨_, rfl, hp'⟩
      · obtain ⟨h1, hh1, _⟩ := srcAt_ok_of_lt (E := E) (st := st) (i := p + 3) (by omega)
        simp only [hh1, bind_ok]
        split
        · exact ⟨_, rfl, hp'⟩
        · exact ⟨_, rfl, by omega, by omega⟩

theorem strEscOct_ok {E : Env} {st : St} {p cols : Nat} (e : UInt8) (hp : p + 1 < srcLen E st) :
    ∃ o, strEscOct E st p cols e = .ok o ∧ StrGood E st p o := by
  have hp' : p ≤ srcLen E st := by omega
  unfold strEscOct
  split
  · exact ⟨_, rfl, hp'⟩
  · obtain ⟨o0, ho0, _⟩ := srcAt_ok_of_lt (E := E) (st := st) (i := p + 2) (by omega)
    simp only [ho0, bind_ok]
    split
    · exact ⟨_, rfl, hp'⟩
    · split
      · exact ⟨_, rfl, hp'⟩
      · obtain ⟨o1, ho1, _⟩ := srcAt_ok_of_lt (E := E) (st := st) (i := p + 3) (by omega)
        simp only [ho1, bind_ok]
        split
        · exact ⟨_, rfl, hp'⟩
        · split
          · exact ⟨_, rfl, hp'⟩
          · exact ⟨_, rfl, by omega, by omega⟩

theorem strEscape_ok {E : Env} {st : St} {p cols : Nat} (hp : p < srcLen E st) :
    ∃ o, strEscape E st p cols = .ok o ∧ StrGood E st p o := by
  have hp' : p ≤ srcLen E st := by omega
  unfold strEscape
  split
  · exact ⟨_, rfl, trivial⟩
  · rename_i hne2
    have hlt2 : p + 1 < srcLen E st := by omega
    obtain ⟨e, he, _⟩ := srcAt_ok_of_lt hlt2
    simp only [he, bind_ok]
    split
    · exact strEscU_ok e hp'
    · split
      · exact ⟨_, rfl, by omega, by omega⟩
      · split
        · exact strEscX_ok hlt2
        · split
          · exact strEscOct_ok e hlt2
          · exact ⟨_, rfl, hp'⟩

theorem strStep_ok {E : Env} {st : St} {p cols : Nat} (hp : p ≤ srcLen E st) :
    ∃ o, strStep E st p cols = .ok o ∧ StrGood E st p o := by
  unfold strStep
  split
  · exact ⟨_, rfl, trivial⟩
  · rename_i hne
    have hlt : p < srcLen E st := by omega
    obtain ⟨c, hc, _⟩ := srcAt_ok_of_lt hlt
    simp only [hc, bind_ok]
    split
    · exact ⟨_, rfl, hlt⟩
    · split
      · exact strEscape_ok hlt
      · split
        · exact ⟨_, rfl, hp⟩
        · have hd := decodeRune_drop (t := E.text) (i := st.base + p) (by unfold srcLen at hlt; omega)
          cases hrs : decodeRune (E.text.drop (st.base + p)) with
          | mk r s =>
            rw [hrs] at hd
            simp only []
            split
            · exact ⟨_, rfl, hp⟩
            · split
              · exact ⟨_, rfl, trivial⟩
              · exact ⟨_, rfl, by omega, by unfold srcLen; omega⟩

theorem strLoop_ok {E : Env} {st : St} : ∀ (fuel p cols : Nat), p ≤ srcLen E st → srcLen E st - p + 1 < fuel →
    ∃ o, strLoop E st fuel p cols = .ok o ∧
      (match o with
       | .cont _ _ => False
       | .done p' _ => p' < srcLen E st
       | .err _ none => True
       | .err _ (some (q, _)) => q ≤ srcLen E st) := by
  intro fuel
  induction fuel with
  | zero => intro _ _ _ h; omega
  | succ fuel ih =>
    intro p cols hp hf
    unfold strLoop
    obtain ⟨o, ho, hg⟩ := strStep_ok (E := E) (st := st) (p := p) (cols := cols) hp
    simp only [ho, bind_ok]
    cases o with
    | cont p' c' =>
      simp only []
      exact ih p' c' hg.2 (by have := hg.1; have := hg.2; omega)
    | done p' c' => exact ⟨_, rfl, hg⟩
    | err k a =>
      cases a with
      | none => exact ⟨_, rfl, trivial⟩
      | some qc => exact ⟨_, rfl, hg⟩

theorem lexInterpretedString_ok {E : Env} {st : St} (hb : st.base ≤ E.text.length) (h1 : 1 ≤ srcLen E st) :
    ∃ r, lexInterpretedString E st = .ok r ∧ RGood E st r := by
  unfold lexInterpretedString
  obtain ⟨o, ho, hg⟩ := strLoop_ok (E := E) (st := st) (srcLen E st + 2) 1 1 h1 (by omega)
  simp only [ho, bind_ok]
  cases o with
  | cont _ _ => exact absurd hg id
  | done p cols =>
    simp only []
    obtain ⟨st', h, hgd⟩ := emitThen_good (E := E) (st := st) (typ := tokenInterpretedString) (n := p + 1) (cols := cols + 1) hb
      (by have : p < srcLen E st := hg; omega) (by omega)
    simp only [h, bind_ok, pure_eq_ok]
    exact ⟨_, rfl, hgd⟩
  | err k a =>
    cases a with
    | none => exact fail_good k hb
    | some qc =>
      obtain ⟨q, c⟩ := qc
      exact failAt_good k hb hg

/-! ## raw strings -/

theorem rawLoop_ok {E : Env} {lin col : Nat} : ∀ (fuel : Nat) (st : St) (p : Nat), p ≤ srcLen E st →
    srcLen E st - p + 1 < fuel →
    ∃ o, rawLoop E lin col fuel st p = .ok o ∧
      (match o with
       | .cont _ _ => False
       | .done st' p' => SameButPos st st' ∧ p' < srcLen E st
       | .err st' _ none => SameButPos st st'
       | .err st' _ (some q) => SameButPos st st' ∧ q ≤ srcLen E st) := by
  intro fuel
  induction fuel with
  | zero => intro _ _ _ h; omega
  | succ fuel ih =>
    intro st p hp hf
    unfold rawLoop rawStep
    split
    · simp only [pure_eq_ok, bind_ok]
      exact ⟨_, rfl, rfl⟩
    · rename_i hne
      have hlt : p < srcLen E st := by omega
      obtain ⟨c, hc, _⟩ := srcAt_ok_of_lt hlt
      simp only [hc, bind_ok]
      have lift : ∀ (s : St) (p' : Nat), SameButPos st s → p < p' → p' ≤ srcLen E st →
          ∃ o, rawLoop E lin col fuel s p' = .ok o ∧
            (match o with
             | .cont _ _ => False
             | .done st' p'' => SameButPos st st' ∧ p'' < srcLen E st
             | .err st' _ none => SameButPos st st'
             | .err st' _ (some q) => SameButPos st st' ∧ q ≤ srcLen E st) := by
        intro s p' hs hlt' hle'
        obtain ⟨o, ho, hg⟩ := ih s p' (by rw [hs.srcLen]; exact hle') (by rw [hs.srcLen]; omega)
        refine ⟨o, ho, ?_⟩
        cases o with
        | cont _ _ => exact hg
        | done s' q => exact ⟨hs.trans hg.1, by rw [hs.srcLen] at hg; exact hg.2⟩
        | err s' k a =>
          cases a with
          | none => exact hs.trans hg
          | some q => exact ⟨hs.trans hg.1, by rw [hs.srcLen] at hg; exact hg.2⟩
      split
      · simp only [pure_eq_ok, bind_ok]
        exact ⟨_, rfl, SameButPos.addCol st 1, hlt⟩
      · split
        · simp only [pure_eq_ok, bind_ok]
          exact lift _ _ (SameButPos.newline st) (by omega) (by omega)
        · have hd := decodeRune_drop (t := E.text) (i := st.base + p) (by unfold srcLen at hlt; omega)
          cases hrs : decodeRune (E.text.drop (st.base + p)) with
          | mk r s =>
            rw [hrs] at hd
            simp only []
            split
            · simp only [pure_eq_ok, bind_ok]
              exact ⟨_, rfl, SameButPos.refl st, hp⟩
            · split
              · simp only [pure_eq_ok, bind_ok]
                exact ⟨_, rfl, SameButPos.refl st, hp⟩
              · simp only [pure_eq_ok, bind_ok]
                exact lift _ _ (SameButPos.addCol st 1) (by omega) (by unfold srcLen; omega)

theorem lexRawString_ok {E : Env} {st : St} (hb : st.base ≤ E.text.length) (h1 : 1 ≤ srcLen E st) :
    ∃ r, lexRawString E st = .ok r ∧ RGood E st r := by
  unfold lexRawString
  simp only []
  have hs := SameButPos.addCol st 1
  obtain ⟨o, ho, hg⟩ := rawLoop_ok (E := E) (lin := st.line) (col := st.col) (srcLen E st + 2) (addCol st 1) 1
    (by rw [hs.srcLen]; exact h1) (by rw [hs.srcLen]; omega)
  simp only [ho, bind_ok]
  cases o with
  | cont _ _ => exact absurd hg id
  | done s p =>
    simp only []
    have hs2 := hs.trans hg.1
    have hlt : p < srcLen E st := by have := hg.2; rw [hs.srcLen] at this; exact this
    obtain ⟨st', h, e, b, _, _, _, _, _, _, t, _⟩ := emitAt_ok (E := E) (st := s) (line := st.line) (col := st.col)
      (typ := tokenRawString) (n := p + 1) (by rw [hs2.srcLen]; omega) (by rw [hs2.base]; exact hb)
    simp only [h, bind_ok, pure_eq_ok]
    refine ⟨_, rfl, (hs2.ext hb).trans e, ?_, ?_⟩
    · show st'.tagIndex = _; rw [t, hs2]
    · intro _; show st.base < st'.base; rw [b, hs2.base]; omega
  | err s k a =>
    cases a with
    | none =>
      simp only []
      have hs2 : SameButPos st s := hs.trans hg
      obtain ⟨r, hr, hgd⟩ := fail_good (E := E) (st := s) k (by rw [hs2.base]; exact hb)
      exact ⟨r, hr, (hs2.ext hb).trans hgd.1, by rw [hgd.2.1, hs2], by
        intro h; have := hgd.2.2 h; rw [hs2.base] at this; exact this⟩
    | some q =>
      simp only []
      have hs2 : SameButPos st s := hs.trans hg.1
      obtain ⟨r, hr, hgd⟩ := failAt_good (E := E) (st := s) (p := q) (cols := 0) k (by rw [hs2.base]; exact hb)
        (by rw [hs2.srcLen]; have := hg.2; rw [hs.srcLen] at this; exact this)
      exact ⟨r, hr, (hs2.ext hb).trans hgd.1, by rw [hgd.2.1, hs2], by
        intro h; have := hgd.2.2 h; rw [hs2.base] at this; exact this⟩

end ScriggoV.Lexer
