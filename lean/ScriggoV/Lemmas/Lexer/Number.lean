import ScriggoV.Lemmas.Lexer.Code3
/-! # `lexNumber`: no fault, fuel suffices, at least one byte is consumed -/
namespace ScriggoV.Lexer
open ScriggoV ScriggoV.Gen.LexTables

theorem numDigit_cont {c : UInt8} {s s' : NumSt} (h : numDigit c s = .cont s') : s'.p = s.p := by
  unfold numDigit at h
  repeat' split at h
  all_goals first | (cases h; rfl) | cases h

theorem numDigit_brk {c : UInt8} {s s' : NumSt} (h : numDigit c s = .brk s') : s'.p = s.p := by
  unfold numDigit at h
  repeat' split at h
  all_goals first | (cases h; rfl) | cases h

/-- the position of a DIGITS outcome lies in `[lo, hi]` -/
def NumLe (lo hi : Nat) : NumOut → Prop
  | .cont s => lo ≤ s.p ∧ s.p ≤ hi
  | .brk s => lo ≤ s.p ∧ s.p ≤ hi
  | .err _ => True

theorem numExp_ok {E : Env} {st : St} {s : NumSt} (hp : s.p < srcLen E st) :
    ∃ o, numExp E st s = .ok o ∧ NumLe s.p (srcLen E st) o := by
  unfold numExp
  obtain ⟨c, hc, _⟩ := srcAt_ok_of_lt hp
  simp only [hc, bind_ok]
  have hsign : s.p ≤ (if (peekIs E st (s.p + 1) 0x2b || peekIs E st (s.p + 1) 0x2d) = true then s.p + 1 + 1 else s.p + 1) ∧
      (if (peekIs E st (s.p + 1) 0x2b || peekIs E st (s.p + 1) 0x2d) = true then s.p + 1 + 1 else s.p + 1) ≤ srcLen E st := by
    split
    · rename_i h
      have : s.p + 1 < srcLen E st := by
        rcases Bool.or_eq_true _ _ |>.mp h with h | h <;> exact peekIs_lt h
      omega
    · omega
  by_cases q1 : c = 0x65 ∨ c = 0x45
  · rw [if_pos q1]
    by_cases q2 : s.base = 16
    · rw [if_pos q2]
      split
      · exact ⟨_, rfl, trivial⟩
      · exact ⟨_, rfl, Nat.le_refl _, by omega⟩
    · rw [if_neg q2]
      generalize hs' : (if s.base = 8 ∧ (!s.is0o) = true then { s with base := 10 } else s) = s'
      have hp' : s'.p = s.p := by rw [← hs']; split <;> rfl
      split
      · exact ⟨_, rfl, trivial⟩
      · split
        · exact ⟨_, rfl, by show s.p ≤ s'.p; omega, by show s'.p ≤ _; omega⟩
        · refine ⟨_, rfl, ?_⟩
          show s.p ≤ (if (peekIs E st (s'.p + 1) 0x2b || peekIs E st (s'.p + 1) 0x2d) = true then s'.p + 1 + 1 else s'.p + 1) ∧ _
          rw [hp']; exact hsign
  · rw [if_neg q1]
    split
    · split
      · exact ⟨_, rfl, trivial⟩
      · split
        · exact ⟨_, rfl, Nat.le_refl _, by omega⟩
        · exact ⟨_, rfl, hsign⟩
    · exact ⟨_, rfl, Nat.le_refl _, by omega⟩

theorem NumLe.mono {lo lo' hi : Nat} {o : NumOut} (h : NumLe lo hi o) (hl : lo' ≤ lo) : NumLe lo' hi o := by
  cases o with
  | cont s => exact ⟨by have := h.1; omega, h.2⟩
  | brk s => exact ⟨by have := h.1; omega, h.2⟩
  | err k => trivial

theorem numPoint_ok {E : Env} {st : St} {s : NumSt} (hp : s.p < srcLen E st) :
    ∃ o, numPoint E st s = .ok o ∧ NumLe s.p (srcLen E st) o := by
  unfold numPoint
  split
  · exact ⟨_, rfl, Nat.le_refl _, by omega⟩
  · generalize hs' : (if s.base = 8 ∧ (!s.is0o) = true then { s with base := 10 } else s) = s'
    have hp' : s'.p = s.p := by rw [← hs']; split <;> rfl
    simp only []
    split
    · exact ⟨_, rfl, trivial⟩
    · split
      · rename_i heq
        exact ⟨_, rfl, by show s.p ≤ s'.p + 1; omega, by show s'.p + 1 ≤ _; omega⟩
      · rename_i hne
        have hne' : s'.p + 1 ≠ srcLen E st := hne
        obtain ⟨o, ho, hg⟩ := numExp_ok (E := E) (st := st) (s := { s' with dot := true, p := s'.p + 1 })
          (by show s'.p + 1 < _; omega)
        exact ⟨o, ho, hg.mono (by show s.p ≤ s'.p + 1; omega)⟩

theorem numAfter_ok {E : Env} {st : St} {s : NumSt} (hp : s.p ≤ srcLen E st) :
    ∃ o, numAfter E st s = .ok o ∧ NumLe s.p (srcLen E st) o := by
  unfold numAfter
  split
  · rename_i hlt
    obtain ⟨d, hd, _⟩ := srcAt_ok_of_lt hlt
    simp only [hd, bind_ok]
    split
    · cases hx : peek E st (s.p + 1) with
      | none => exact ⟨_, rfl, by show s.p ≤ s.p + 1; omega, by show s.p + 1 ≤ _; omega⟩
      | some x =>
        simp only []
        split
        · exact ⟨_, rfl, by show s.p ≤ s.p + 1; omega, by show s.p + 1 ≤ _; omega⟩
        · exact ⟨_, rfl, by show s.p ≤ s.p + 1; omega, by show s.p + 1 ≤ _; omega⟩
    · split
      · exact numPoint_ok hlt
      · exact numExp_ok hlt
  · exact ⟨_, rfl, Nat.le_refl _, hp⟩

theorem numStep_ok {E : Env} {st : St} {s : NumSt} (hp : s.p < srcLen E st) :
    ∃ o, numStep E st s = .ok o ∧
      (match o with
       | .cont s' => s.p < s'.p ∧ s'.p ≤ srcLen E st
       | .brk s' => s.p ≤ s'.p ∧ s'.p ≤ srcLen E st
       | .err _ => True) ∧
      (∀ c, peek E st s.p = some c → s.base = 10 → isDecDigit c = true → NumLe (s.p + 1) (srcLen E st) o) := by
  unfold numStep
  obtain ⟨c, hc, hpk⟩ := srcAt_ok_of_lt hp
  simp only [hc, bind_ok]
  cases hd : numDigit c s with
  | err k => exact ⟨_, rfl, trivial, fun _ _ _ _ => trivial⟩
  | brk s' =>
    have := numDigit_brk hd
    refine ⟨_, rfl, ⟨by omega, by omega⟩, ?_⟩
    intro c' hc' hb hdig
    rw [hpk] at hc'; cases hc'
    -- base 10 and a decimal digit: `numDigit` continues
    unfold numDigit at hd
    simp [hb, hdig] at hd
  | cont s' =>
    have hsp := numDigit_cont hd
    simp only []
    obtain ⟨o, ho, hg⟩ := numAfter_ok (E := E) (st := st) (s := { s' with p := s'.p + 1 }) (by show s'.p + 1 ≤ _; omega)
    refine ⟨o, ho, ?_, ?_⟩
    · cases o with
      | cont s2 => exact ⟨by have := hg.1; show s.p < s2.p; have : s'.p + 1 ≤ s2.p := hg.1; omega, hg.2⟩
      | brk s2 => exact ⟨by have : s'.p + 1 ≤ s2.p := hg.1; omega, hg.2⟩
      | err k => trivial
    · intro _ _ _ _
      exact hg.mono (by show s.p + 1 ≤ s'.p + 1; omega)

theorem numLoop_ok {E : Env} {st : St} : ∀ (fuel : Nat) (s : NumSt), s.p ≤ srcLen E st → srcLen E st - s.p < fuel →
    ∃ r, numLoop E st fuel s = .ok r ∧ ∀ s', r = .inl s' → s.p ≤ s'.p ∧ s'.p ≤ srcLen E st := by
  intro fuel
  induction fuel with
  | zero => intro _ _ h; omega
  | succ fuel ih =>
    intro s hp hf
    unfold numLoop
    split
    · rename_i hlt
      obtain ⟨o, ho, hg, _⟩ := numStep_ok (E := E) (st := st) (s := s) hlt
      simp only [ho, bind_ok]
      cases o with
      | err k => exact ⟨_, rfl, by intro s' h; cases h⟩
      | brk s1 => exact ⟨_, rfl, by intro s' h; cases h; exact hg⟩
      | cont s1 =>
        simp only []
        obtain ⟨r, hr, hq⟩ := ih s1 hg.2 (by have := hg.1; omega)
        exact ⟨r, hr, fun s' h => by have := hq s' h; have := hg.1; omega⟩
    · exact ⟨_, rfl, by intro s' h; cases h; exact ⟨Nat.le_refl _, hp⟩⟩

/-- the loop entered at `p = 0` in base 10 on a decimal digit leaves `p ≥ 1` -/
theorem numLoop_first {E : Env} {st : St} {s : NumSt} {c0 : UInt8} (_h0 : 0 < srcLen E st) (hp0 : s.p = 0)
    (hb : s.base = 10) (hc0 : peek E st 0 = some c0) (hdig : isDecDigit c0 = true) (fuel : Nat)
    (hf : srcLen E st + 1 < fuel) :
    ∃ r, numLoop E st fuel s = .ok r ∧ ∀ s', r = .inl s' → 1 ≤ s'.p ∧ s'.p ≤ srcLen E st := by
  cases fuel with
  | zero => omega
  | succ fuel =>
    unfold numLoop
    have hlt : s.p < srcLen E st := by omega
    simp only [hlt, if_true]
    obtain ⟨o, ho, _, hfirst⟩ := numStep_ok (E := E) (st := st) (s := s) hlt
    have hg := hfirst c0 (by rw [hp0]; exact hc0) hb hdig
    simp only [ho, bind_ok]
    cases o with
    | err k => exact ⟨_, rfl, by intro s' h; cases h⟩
    | brk s1 => exact ⟨_, rfl, by intro s' h; cases h; exact ⟨by have := hg.1; omega, hg.2⟩⟩
    | cont s1 =>
      simp only []
      obtain ⟨r, hr, hq⟩ := numLoop_ok (E := E) (st := st) fuel s1 hg.2 (by omega)
      exact ⟨r, hr, fun s' h => by have := hq s' h; have := hg.1; omega⟩

theorem numPrefix_ok {E : Env} {st : St} {c0 : UInt8} (_h0 : 0 < srcLen E st) :
    ∃ r, numPrefix E st c0 = .ok r ∧ ∀ s, r = .inl s → s.p ≤ srcLen E st ∧ (s.p = 0 → s.base = 10) := by
  unfold numPrefix
  split
  · rename_i h
    obtain ⟨c1, hc1, _⟩ := srcAt_ok_of_lt (E := E) (st := st) (i := 1) h.2
    simp only [hc1, bind_ok]
    -- the state after the `0x` / `0o` / `0b` / `0_` prefix
    generalize hs : (if c1 = 0x78 ∨ c1 = 0x58 then ({ p := 2, base := 16, dot := false, exponent := 0, is0o := false } : NumSt)
      else if c1 = 0x6f ∨ c1 = 0x4f then { p := 2, base := 8, dot := false, exponent := 0, is0o := true }
      else if c1 = 0x5f ∨ isDecDigit c1 = true then { p := 1, base := 8, dot := false, exponent := 0, is0o := false }
      else if c1 = 0x62 ∨ c1 = 0x42 then { p := 2, base := 2, dot := false, exponent := 0, is0o := false }
      else { p := 0, base := 10, dot := false, exponent := 0, is0o := false }) = s
    have hsp : s.p ≤ 2 ∧ (s.p = 0 → s.base = 10) := by
      rw [← hs]
      repeat' split
      all_goals simp
    split
    · rename_i hu
      have := peekIs_lt hu
      cases hx : peek E st (s.p + 1) with
      | none => exact ⟨_, rfl, by intro s' h; cases h; exact ⟨by show s.p + 1 ≤ _; omega, by intro h; simp at h⟩⟩
      | some x =>
        simp only []
        split
        · exact ⟨_, rfl, by intro s' h; cases h⟩
        · exact ⟨_, rfl, by intro s' h; cases h; exact ⟨by show s.p + 1 ≤ _; omega, by intro h; simp at h⟩⟩
    · exact ⟨_, rfl, by intro s' h; cases h; exact ⟨by have := h.2; omega, hsp.2⟩⟩
  · exact ⟨_, rfl, by intro s h; cases h; exact ⟨Nat.zero_le _, fun _ => rfl⟩⟩

theorem numFinish_ok {E : Env} {st : St} {c0 : UInt8} {s : NumSt} (hb : st.base ≤ E.text.length)
    (h1 : 1 ≤ s.p) (hp : s.p ≤ srcLen E st) :
    ∃ r, numFinish E st c0 s = .ok r ∧ RGood E st r := by
  unfold numFinish
  split
  · exact fail_good _ hb
  · have hlast : ∃ last, srcAtPred E st s.p = .ok last := by
      unfold srcAtPred
      have : ¬ s.p = 0 := by omega
      simp only [this, if_false]
      exact getAt_ok' (by unfold srcLen at hp; omega)
    obtain ⟨last, hl⟩ := hlast
    simp only [hl, bind_ok]
    cases numLastCheck last s with
    | some k => exact fail_good _ hb
    | none =>
      simp only []
      split
      · exact fail_good _ hb
      · split
        · rename_i hi
          have := peekIs_lt hi
          obtain ⟨st', h, hgd⟩ := emitThen_good (E := E) (st := st) (typ := tokenImaginary) (n := s.p + 1) (cols := s.p + 1) hb
            (by omega) (by omega)
          simp only [h, bind_ok, pure_eq_ok]
          exact ⟨_, rfl, hgd⟩
        · have hbad : ∃ b, (if s.p > 0 ∧ s.base = 10 ∧ c0 = 0x30 ∧ (!s.dot) = true ∧ s.exponent = 0 then do
                let body ← sliceOf (E.text.drop st.base) 1 s.p
                pure (has89 body)
              else pure false : Except Fault Bool) = .ok b := by
            split
            · rw [sliceOf_ok h1 (by simp [srcLen] at hp ⊢; omega)]
              exact ⟨_, rfl⟩
            · exact ⟨false, rfl⟩
          obtain ⟨b, hbb⟩ := hbad
          simp only [hbb, bind_ok]
          cases b with
          | true => exact fail_good _ hb
          | false =>
            simp only [Bool.false_eq_true, if_false]
            obtain ⟨st', h, hgd⟩ := emitThen_good (E := E) (st := st)
              (typ := if s.dot = true ∨ s.exponent ≠ 0 then tokenFloat else tokenInt) (n := s.p) (cols := s.p) hb hp (by omega)
            simp only [h, bind_ok, pure_eq_ok]
            exact ⟨_, rfl, hgd⟩

/-- `lexNumber` entered on a decimal digit, or on `.` followed by one -/
theorem numSpec (E : Env) : NumSpec E := by
  constructor
  intro st hb hstart
  obtain ⟨c0, hc0, hcase⟩ := hstart
  have h0 : 0 < srcLen E st := peek_some_lt_srcLen hc0
  unfold lexNumber
  rw [srcAt_eq_peek hc0]
  simp only [bind_ok]
  obtain ⟨r, hr, hpre⟩ := numPrefix_ok (E := E) (st := st) (c0 := c0) h0
  simp only [hr, bind_ok]
  cases r with
  | inr k => exact fail_good _ hb
  | inl s =>
    obtain ⟨hsp, hs0⟩ := hpre s rfl
    simp only []
    -- after the leading '.'
    have hdot : (∃ k, numDot E st s = .inr k) ∨
        (∃ s1, numDot E st s = .inl s1 ∧ s1.p ≤ srcLen E st ∧
          (1 ≤ s1.p ∨ (s1.p = 0 ∧ s1.base = 10 ∧ isDecDigit c0 = true))) := by
      unfold numDot
      split
      · rename_i hd
        have hlt := peekIs_lt hd
        simp only []
        generalize hs' : (if s.base = 8 ∧ (!s.is0o) = true then { s with base := 10 } else s) = s'
        have hp' : s'.p = s.p := by rw [← hs']; split <;> rfl
        split
        · exact Or.inl ⟨_, rfl⟩
        · exact Or.inr ⟨_, rfl, by show s'.p + 1 ≤ _; omega, Or.inl (by show 1 ≤ s'.p + 1; omega)⟩
      · rename_i hnd
        refine Or.inr ⟨s, rfl, hsp, ?_⟩
        rcases Nat.eq_zero_or_pos s.p with hz | hpos
        · right
          refine ⟨hz, hs0 hz, ?_⟩
          rcases hcase with hdig | ⟨hdot, _⟩
          · unfold isDecDigit; simp [hdig.1, hdig.2]
          · -- `c0` is '.', so `peekIs 0 '.'` holds: contradiction
            exfalso
            apply hnd
            unfold peekIs
            rw [hz, hc0, hdot]; rfl
        · left; exact hpos
    rcases hdot with ⟨k, hk⟩ | ⟨s1, hs1, hp1, hfirst⟩
    · rw [hk]; exact fail_good _ hb
    · rw [hs1]
      simp only []
      have hloop : ∃ r, numLoop E st (srcLen E st + 2) s1 = .ok r ∧ ∀ s', r = .inl s' → 1 ≤ s'.p ∧ s'.p ≤ srcLen E st := by
        rcases hfirst with hge | ⟨hz, hb10, hdig⟩
        · obtain ⟨r, hr, hq⟩ := numLoop_ok (E := E) (st := st) (srcLen E st + 2) s1 hp1 (by omega)
          exact ⟨r, hr, fun s' h => by have := hq s' h; omega⟩
        · exact numLoop_first h0 hz hb10 hc0 hdig _ (by omega)
      obtain ⟨r2, hr2, hq2⟩ := hloop
      simp only [hr2, bind_ok]
      cases r2 with
      | inr k => exact fail_good _ hb
      | inl s2 =>
        obtain ⟨h1, h2⟩ := hq2 s2 rfl
        exact numFinish_ok hb h1 h2

/-- `lexCode` meets the specification the template layer relies on -/
theorem codeSpec (E : Env) : CodeSpec E := codeSpec_of_numSpec (numSpec E)

end ScriggoV.Lexer
