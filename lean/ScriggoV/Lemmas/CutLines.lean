import ScriggoV.Model.Cut
import ScriggoV.Spec.CutSpec
/-! C15 helper lemmas, part 1: bytes and lines.

* the two scanning loops of `cutSpaces` in closed form, over the forward decomposition of a text
  into "everything up to and including its last LF" (`doneAux`) and "what follows" (`lastAux`);
* how `splitLines` of the specification walks over the bytes of a text. -/
namespace ScriggoV.Cut
open ScriggoV.CutSpec

/-! ### blank runs -/

def allBlank (bs : Bytes) : Bool := bs.all isBlank
def noLF (bs : Bytes) : Bool := bs.all (· != LF)

theorem isBlank_ne_LF {c : UInt8} (h : isBlank c = true) : (c == LF) = false := by
  unfold isBlank at h
  unfold LF
  rcases Bool.or_eq_true _ _ |>.mp h with h | h
  · rcases Bool.or_eq_true _ _ |>.mp h with h | h
    · have := eq_of_beq h; subst this; decide
    · have := eq_of_beq h; subst this; decide
  · have := eq_of_beq h; subst this; decide

@[simp] theorem allBlank_nil : allBlank [] = true := rfl
@[simp] theorem allBlank_cons (c : UInt8) (bs : Bytes) :
    allBlank (c :: bs) = (isBlank c && allBlank bs) := by simp [allBlank]
@[simp] theorem allBlank_append (a b : Bytes) : allBlank (a ++ b) = (allBlank a && allBlank b) := by
  simp [allBlank]
@[simp] theorem noLF_nil : noLF [] = true := rfl
@[simp] theorem noLF_cons (c : UInt8) (bs : Bytes) : noLF (c :: bs) = ((c != LF) && noLF bs) := by
  simp [noLF]
@[simp] theorem noLF_append (a b : Bytes) : noLF (a ++ b) = (noLF a && noLF b) := by
  simp [noLF]

theorem nlCount_eq_zero_iff (bs : Bytes) : nlCount bs = 0 ↔ noLF bs = true := by
  induction bs with
  | nil => simp [nlCount]
  | cons c cs ih =>
    unfold nlCount at *
    by_cases h : c == LF
    · have : c = LF := eq_of_beq h
      subst this
      simp
    · have hne : c ≠ LF := fun e => h (by simp [e])
      have h1 : (c != LF) = true := by simp [hne]
      rw [noLF_cons, h1, Bool.true_and, ← ih, List.count_cons]
      have : (c == LF) = false := by simpa using h
      simp [this]

/-! ### forward decomposition at the last LF -/

/-- what follows the last LF of `cur ++ bs` (`cur` has none) -/
def lastAux : Bytes → Bytes → Bytes
  | [], cur => cur
  | c :: cs, cur => if c == LF then lastAux cs [] else lastAux cs (cur ++ [c])

/-- `cur ++ bs` up to and including its last LF -/
def doneAux : Bytes → Bytes → Bytes
  | [], _ => []
  | c :: cs, cur => if c == LF then cur ++ [c] ++ doneAux cs [] else doneAux cs (cur ++ [c])

@[simp] theorem lastAux_nil (cur : Bytes) : lastAux [] cur = cur := rfl
@[simp] theorem doneAux_nil (cur : Bytes) : doneAux [] cur = [] := rfl
theorem lastAux_cons_LF (cs cur : Bytes) : lastAux (LF :: cs) cur = lastAux cs [] := by
  simp [lastAux]
theorem lastAux_cons_ne (c : UInt8) (cs cur : Bytes) (h : (c == LF) = false) :
    lastAux (c :: cs) cur = lastAux cs (cur ++ [c]) := by
  simp [lastAux, h]
theorem doneAux_cons_LF (cs cur : Bytes) : doneAux (LF :: cs) cur = cur ++ [LF] ++ doneAux cs [] := by
  simp [doneAux]
theorem doneAux_cons_ne (c : UInt8) (cs cur : Bytes) (h : (c == LF) = false) :
    doneAux (c :: cs) cur = doneAux cs (cur ++ [c]) := by
  simp [doneAux, h]

theorem done_append_last (bs cur : Bytes) : doneAux bs cur ++ lastAux bs cur = cur ++ bs := by
  induction bs generalizing cur with
  | nil => simp
  | cons c cs ih =>
    by_cases h : c == LF
    · have : c = LF := eq_of_beq h
      subst this
      rw [doneAux_cons_LF, lastAux_cons_LF, List.append_assoc, ih []]
      simp
    · have h' : (c == LF) = false := by simpa using h
      rw [doneAux_cons_ne _ _ _ h', lastAux_cons_ne _ _ _ h', ih (cur ++ [c])]
      simp

theorem lastAux_noLF (bs cur : Bytes) (h : noLF cur = true) : noLF (lastAux bs cur) = true := by
  induction bs generalizing cur with
  | nil => simpa using h
  | cons c cs ih =>
    by_cases hc : c == LF
    · have : c = LF := eq_of_beq hc
      subst this
      rw [lastAux_cons_LF]; exact ih [] rfl
    · have hc' : (c == LF) = false := by simpa using hc
      rw [lastAux_cons_ne _ _ _ hc']
      apply ih
      have : (c != LF) = true := by simpa using hc
      simp [h, this]

theorem lastAux_of_noLF (bs cur : Bytes) (h : noLF bs = true) : lastAux bs cur = cur ++ bs := by
  induction bs generalizing cur with
  | nil => simp
  | cons c cs ih =>
    rw [noLF_cons, Bool.and_eq_true] at h
    have hc : (c == LF) = false := by simpa using h.1
    rw [lastAux_cons_ne _ _ _ hc, ih _ h.2]
    simp

theorem doneAux_of_noLF (bs cur : Bytes) (h : noLF bs = true) : doneAux bs cur = [] := by
  induction bs generalizing cur with
  | nil => simp
  | cons c cs ih =>
    rw [noLF_cons, Bool.and_eq_true] at h
    have hc : (c == LF) = false := by simpa using h.1
    rw [doneAux_cons_ne _ _ _ hc]
    exact ih _ h.2

/-- a text with a LF: head line, the LF, the rest -/
theorem split_first_LF (bs : Bytes) (h : noLF bs = false) :
    ∃ H R, bs = H ++ LF :: R ∧ noLF H = true := by
  induction bs with
  | nil => simp at h
  | cons c cs ih =>
    by_cases hc : c == LF
    · exact ⟨[], cs, by simp [eq_of_beq hc], rfl⟩
    · have hc' : (c != LF) = true := by simpa using hc
      rw [noLF_cons, hc', Bool.true_and] at h
      obtain ⟨H, R, e, hH⟩ := ih h
      exact ⟨c :: H, R, by simp [e], by simp [hc', hH]⟩

theorem lastAux_split (H R cur : Bytes) (hH : noLF H = true) :
    lastAux (H ++ LF :: R) cur = lastAux R [] := by
  induction H generalizing cur with
  | nil => simp [lastAux_cons_LF]
  | cons c cs ih =>
    rw [noLF_cons, Bool.and_eq_true] at hH
    have hc : (c == LF) = false := by simpa using hH.1
    rw [List.cons_append, lastAux_cons_ne _ _ _ hc]
    exact ih _ hH.2

theorem doneAux_split (H R cur : Bytes) (hH : noLF H = true) :
    doneAux (H ++ LF :: R) cur = cur ++ H ++ [LF] ++ doneAux R [] := by
  induction H generalizing cur with
  | nil => simp [doneAux_cons_LF]
  | cons c cs ih =>
    rw [noLF_cons, Bool.and_eq_true] at hH
    have hc : (c == LF) = false := by simpa using hH.1
    rw [List.cons_append, doneAux_cons_ne _ _ _ hc, ih _ hH.2]
    simp

/-! ### the backward loop (`first.Text`) -/

@[simp] theorem scanFirstRev_nil : scanFirstRev [] = some 0 := rfl
theorem scanFirstRev_cons_LF (rest : Bytes) : scanFirstRev (LF :: rest) = some (rest.length + 1) := by
  simp [scanFirstRev]
theorem scanFirstRev_cons_ne (c : UInt8) (rest : Bytes) (h : (c == LF) = false) :
    scanFirstRev (c :: rest) = if isBlank c then scanFirstRev rest else none := by
  simp [scanFirstRev, h]

theorem scanFirstRev_blank_prefix (y z : Bytes) (hn : noLF y = true) :
    scanFirstRev (y ++ z) = if allBlank y then scanFirstRev z else none := by
  induction y with
  | nil => simp
  | cons c cs ih =>
    rw [noLF_cons, Bool.and_eq_true] at hn
    have hc : (c == LF) = false := by simpa using hn.1
    rw [List.cons_append, scanFirstRev_cons_ne _ _ hc, allBlank_cons, ih hn.2]
    by_cases hb : isBlank c <;> simp [hb]

/-- `scanFirst` in closed form: it succeeds iff what follows the last LF is blank, and then
returns the length of everything before -/
theorem scanFirst_eq (p c0 x : Bytes) (hp : p = [] ∨ ∃ q, p = q ++ [LF]) (hc : noLF c0 = true) :
    scanFirst (p ++ c0 ++ x)
      = if allBlank (lastAux x c0) then some ((p ++ c0 ++ x).length - (lastAux x c0).length)
        else none := by
  induction x generalizing p c0 with
  | nil =>
    simp only [lastAux_nil, List.append_nil]
    unfold scanFirst
    rw [List.reverse_append, scanFirstRev_blank_prefix _ _ (by simpa [noLF] using hc)]
    have hb : allBlank c0.reverse = allBlank c0 := by simp [allBlank]
    rw [hb]
    rcases hp with rfl | ⟨q, rfl⟩
    · simp
    · rw [List.reverse_append, List.reverse_singleton, List.singleton_append, scanFirstRev_cons_LF]
      by_cases hbb : allBlank c0
      · simp [hbb]; omega
      · simp [hbb]
  | cons c cs ih =>
    by_cases hl : c == LF
    · have : c = LF := eq_of_beq hl
      subst this
      have := ih (p ++ c0 ++ [LF]) [] (Or.inr ⟨p ++ c0, rfl⟩) rfl
      simp only [List.append_nil, List.append_assoc] at this
      rw [lastAux_cons_LF]
      simpa using this
    · have hl' : (c != LF) = true := by simpa using hl
      have hl2 : (c == LF) = false := by simpa using hl
      have := ih p (c0 ++ [c]) hp (by simp [hc, hl'])
      simp only [List.append_assoc] at this
      rw [lastAux_cons_ne _ _ _ hl2]
      simpa using this

theorem scanFirst_closed (x : Bytes) :
    scanFirst x = if allBlank (lastAux x []) then some (doneAux x []).length else none := by
  have h := scanFirst_eq [] [] x (Or.inl rfl) rfl
  simp only [List.nil_append] at h
  rw [h]
  have := done_append_last x []
  have hl : x.length = (doneAux x []).length + (lastAux x []).length := by
    rw [← List.length_append, this]; simp
  split <;> simp <;> omega

/-! ### the forward loop (`last.Text`) -/

@[simp] theorem scanLastFrom_nil (i : Nat) : scanLastFrom [] i = some i := rfl
theorem scanLastFrom_cons_LF (rest : Bytes) (i : Nat) : scanLastFrom (LF :: rest) i = some (i + 1) := by
  simp [scanLastFrom]
theorem scanLastFrom_cons_ne (c : UInt8) (rest : Bytes) (i : Nat) (h : (c == LF) = false) :
    scanLastFrom (c :: rest) i = if isBlank c then scanLastFrom rest (i + 1) else none := by
  simp [scanLastFrom, h]

theorem scanLastFrom_noLF (bs : Bytes) (i : Nat) (h : noLF bs = true) :
    scanLastFrom bs i = if allBlank bs then some (i + bs.length) else none := by
  induction bs generalizing i with
  | nil => simp
  | cons c cs ih =>
    rw [noLF_cons, Bool.and_eq_true] at h
    have hc : (c == LF) = false := by simpa using h.1
    rw [scanLastFrom_cons_ne _ _ _ hc, allBlank_cons, ih _ h.2]
    by_cases hb : isBlank c
    · by_cases hbb : allBlank cs
      · simp [hb, hbb]; omega
      · simp [hb, hbb]
    · simp [hb]

theorem scanLastFrom_split (H R : Bytes) (i : Nat) (h : noLF H = true) :
    scanLastFrom (H ++ LF :: R) i = if allBlank H then some (i + H.length + 1) else none := by
  induction H generalizing i with
  | nil => simp [scanLastFrom_cons_LF]
  | cons c cs ih =>
    rw [noLF_cons, Bool.and_eq_true] at h
    have hc : (c == LF) = false := by simpa using h.1
    rw [List.cons_append, scanLastFrom_cons_ne _ _ _ hc, allBlank_cons, ih _ h.2]
    by_cases hb : isBlank c
    · by_cases hbb : allBlank cs
      · simp [hb, hbb]; omega
      · simp [hb, hbb]
    · simp [hb]

theorem scanLast_noLF (bs : Bytes) (h : noLF bs = true) :
    scanLast bs = if allBlank bs then some bs.length else none := by
  unfold scanLast; rw [scanLastFrom_noLF _ _ h]; simp

theorem scanLast_split (H R : Bytes) (h : noLF H = true) :
    scanLast (H ++ LF :: R) = if allBlank H then some (H.length + 1) else none := by
  unfold scanLast; rw [scanLastFrom_split _ _ _ h]; simp

end ScriggoV.Cut

namespace ScriggoV.CutSpec
open ScriggoV ScriggoV.Cut

/-! ### lines of the specification -/

def bytesI (bs : Bytes) : List Item := bs.map Item.byte

@[simp] theorem bytesI_nil : bytesI [] = [] := rfl
@[simp] theorem bytesI_cons (c : UInt8) (bs : Bytes) : bytesI (c :: bs) = .byte c :: bytesI bs := rfl
@[simp] theorem bytesI_append (a b : Bytes) : bytesI (a ++ b) = bytesI a ++ bytesI b := by
  simp [bytesI]

@[simp] theorem lineToks_append (a b : List Item) : lineToks (a ++ b) = lineToks a ++ lineToks b := by
  induction a with
  | nil => rfl
  | cons i is ih => cases i <;> simp [lineToks, ih]

@[simp] theorem lineToks_bytes (bs : Bytes) : lineToks (bytesI bs) = [] := by
  induction bs with
  | nil => rfl
  | cons c cs ih => simp [lineToks, ih]

@[simp] theorem lineBlank_append (a b : List Item) : lineBlank (a ++ b) = (lineBlank a && lineBlank b) := by
  induction a with
  | nil => simp [lineBlank]
  | cons i is ih => cases i <;> simp [lineBlank, ih, Bool.and_assoc]

theorem lineBlank_bytes (bs : Bytes) (h : noLF bs = true) : lineBlank (bytesI bs) = allBlank bs := by
  induction bs with
  | nil => rfl
  | cons c cs ih =>
    rw [noLF_cons, Bool.and_eq_true] at h
    have hc : (c == LF) = false := by simpa using h.1
    simp [lineBlank, ih h.2, hc]

@[simp] theorem keepLine_append (a b : List Item) : keepLine (a ++ b) = keepLine a ++ keepLine b := by
  induction a with
  | nil => rfl
  | cons i is ih => cases i <;> simp [keepLine, ih]

@[simp] theorem keepLine_bytes (bs : Bytes) : keepLine (bytesI bs) = bs := by
  induction bs with
  | nil => rfl
  | cons c cs ih => simp [keepLine, ih]

theorem cutLine_append (a b : List Item) : cutLine (a ++ b) = cutLine a ++ cutLine b := by
  simp [cutLine]

@[simp] theorem cutLine_bytes (bs : Bytes) : cutLine (bytesI bs) = [] := by simp [cutLine]

/-- a line without tokens is output as it is -/
theorem renderLine_bytes (bs : Bytes) : renderLine (bytesI bs) = bs := by
  unfold renderLine removable
  simp [oneCuttable]

theorem splitLines_byte_LF (is cur : List Item) :
    splitLines (.byte LF :: is) cur = (cur ++ [.byte LF]) :: splitLines is [] := by
  simp [splitLines]
theorem splitLines_byte_ne (c : UInt8) (is cur : List Item) (h : (c == LF) = false) :
    splitLines (.byte c :: is) cur = splitLines is (cur ++ [.byte c]) := by
  simp [splitLines, h]
theorem splitLines_tok (t : NT) (is cur : List Item) :
    splitLines (.tok t :: is) cur = splitLines is (cur ++ [.tok t]) := by
  simp [splitLines]
@[simp] theorem splitLines_nil (cur : List Item) : splitLines [] cur = [cur] := rfl

theorem splitLines_noLF (bs : Bytes) (more cur : List Item) (h : noLF bs = true) :
    splitLines (bytesI bs ++ more) cur = splitLines more (cur ++ bytesI bs) := by
  induction bs generalizing cur with
  | nil => simp
  | cons c cs ih =>
    rw [noLF_cons, Bool.and_eq_true] at h
    have hc : (c == LF) = false := by simpa using h.1
    rw [bytesI_cons, List.cons_append, splitLines_byte_ne _ _ _ hc, ih _ h.2]
    simp

theorem splitLines_first_LF (H R : Bytes) (more cur : List Item) (h : noLF H = true) :
    splitLines (bytesI (H ++ LF :: R) ++ more) cur
      = (cur ++ bytesI H ++ [.byte LF]) :: splitLines (bytesI R ++ more) [] := by
  rw [bytesI_append, List.append_assoc, splitLines_noLF _ _ _ h, bytesI_cons, List.cons_append,
    splitLines_byte_LF]

/-- byte-only lines are output verbatim: walking over a text from a line that so far holds
only the bytes `c0` -/
theorem render_text_lines (x c0 : Bytes) (more : List Item) :
    (splitLines (bytesI x ++ more) (bytesI c0)).flatMap renderLine
      = doneAux x c0 ++ (splitLines more (bytesI (lastAux x c0))).flatMap renderLine := by
  induction x generalizing c0 with
  | nil => simp
  | cons c cs ih =>
    by_cases hc : c == LF
    · have : c = LF := eq_of_beq hc
      subst this
      rw [bytesI_cons, List.cons_append, splitLines_byte_LF, List.flatMap_cons, doneAux_cons_LF,
        lastAux_cons_LF]
      have := ih []
      simp only [bytesI_nil] at this
      rw [this]
      have e : bytesI c0 ++ [Item.byte LF] = bytesI (c0 ++ [LF]) := by simp
      rw [e, renderLine_bytes]
      simp
    · have hc' : (c == LF) = false := by simpa using hc
      rw [bytesI_cons, List.cons_append, splitLines_byte_ne _ _ _ hc', doneAux_cons_ne _ _ _ hc',
        lastAux_cons_ne _ _ _ hc']
      have e : bytesI c0 ++ [Item.byte c] = bytesI (c0 ++ [c]) := by simp
      rw [e, ih]

/-! ### the same walk with the engine's two extra line breaks -/

theorem splitLinesE_byte_LF (is cur : List Item) :
    splitLinesE (.byte LF :: is) cur = (false, cur ++ [.byte LF]) :: splitLinesE is [] := by
  simp [splitLinesE]
theorem splitLinesE_byte_ne (c : UInt8) (is cur : List Item) (h : (c == LF) = false) :
    splitLinesE (.byte c :: is) cur = splitLinesE is (cur ++ [.byte c]) := by
  simp [splitLinesE, h]
theorem splitLinesE_tok_plain (t : NT) (is cur : List Item) (h : breaksBefore t is.isEmpty = false) :
    splitLinesE (.tok t :: is) cur = splitLinesE is (cur ++ [.tok t]) := by
  simp [splitLinesE, h]
theorem splitLinesE_tok_break (t : NT) (is cur : List Item) (h : breaksBefore t is.isEmpty = true) :
    splitLinesE (.tok t :: is) cur = (true, cur) :: splitLinesE is [.tok t] := by
  simp [splitLinesE, h]
@[simp] theorem splitLinesE_nil (cur : List Item) : splitLinesE [] cur = [(false, cur)] := rfl

theorem splitLinesE_noLF (bs : Bytes) (more cur : List Item) (h : noLF bs = true) :
    splitLinesE (bytesI bs ++ more) cur = splitLinesE more (cur ++ bytesI bs) := by
  induction bs generalizing cur with
  | nil => simp
  | cons c cs ih =>
    rw [noLF_cons, Bool.and_eq_true] at h
    have hc : (c == LF) = false := by simpa using h.1
    rw [bytesI_cons, List.cons_append, splitLinesE_byte_ne _ _ _ hc, ih _ h.2]
    simp

theorem splitLinesE_first_LF (H R : Bytes) (more cur : List Item) (h : noLF H = true) :
    splitLinesE (bytesI (H ++ LF :: R) ++ more) cur
      = (false, cur ++ bytesI H ++ [.byte LF]) :: splitLinesE (bytesI R ++ more) [] := by
  rw [bytesI_append, List.append_assoc, splitLinesE_noLF _ _ _ h, bytesI_cons, List.cons_append,
    splitLinesE_byte_LF]

theorem render_text_linesE (x c0 : Bytes) (more : List Item) :
    (splitLinesE (bytesI x ++ more) (bytesI c0)).flatMap renderLineE
      = doneAux x c0 ++ (splitLinesE more (bytesI (lastAux x c0))).flatMap renderLineE := by
  induction x generalizing c0 with
  | nil => simp
  | cons c cs ih =>
    by_cases hc : c == LF
    · have : c = LF := eq_of_beq hc
      subst this
      rw [bytesI_cons, List.cons_append, splitLinesE_byte_LF, List.flatMap_cons, doneAux_cons_LF,
        lastAux_cons_LF]
      have := ih []
      simp only [bytesI_nil] at this
      rw [this]
      have e : bytesI c0 ++ [Item.byte LF] = bytesI (c0 ++ [LF]) := by simp
      simp only [renderLineE]
      rw [e, renderLine_bytes]
      simp
    · have hc' : (c == LF) = false := by simpa using hc
      rw [bytesI_cons, List.cons_append, splitLinesE_byte_ne _ _ _ hc', doneAux_cons_ne _ _ _ hc',
        lastAux_cons_ne _ _ _ hc']
      have e : bytesI c0 ++ [Item.byte c] = bytesI (c0 ++ [c]) := by simp
      rw [e, ih]

end ScriggoV.CutSpec
