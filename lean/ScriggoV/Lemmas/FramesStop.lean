import ScriggoV.Model.Frames
/-! Reachability in the frame machine and the decomposition of a bounded run at a reached state
(used by the Stop/Fatal theorems of `Props/C12.lean`). -/
namespace ScriggoV.Frames
open ScriggoV.DeferLang

/-- `m` steps of the frame machine lead from `s` to `t` -/
inductive StepsTo (p : Prog) : Nat → State → State → Prop where
  | refl (s : State) : StepsTo p 0 s s
  | step {m : Nat} {s s' t : State} : Frames.step p s = .next s' → StepsTo p m s' t → StepsTo p (m + 1) s t

/-- a run with enough fuel passes through every reachable state -/
theorem iterate_stepsTo {p : Prog} {m : Nat} {s t : State} (h : StepsTo p m s t) (n : Nat) :
    iterate (Frames.step p) (fun s => s.out.reverse) (m + n) s =
      iterate (Frames.step p) (fun s => s.out.reverse) n t := by
  induction h with
  | refl s => simp
  | @step m s s' t hs _ ih =>
    have : m + 1 + n = (m + n) + 1 := by omega
    rw [this]
    simp only [iterate, hs]
    exact ih

end ScriggoV.Frames
