import ScriggoV.Lemmas.LexerPos
/-! # Position invariant of the main loop of `scan` (C21), foundations

`PInv`: the lexer's line and column are those of offset `base + p`; the pending text token's line
and column are those of `base`; every emitted token other than an inserted semicolon carries the
line and column of its start offset. -/
namespace ScriggoV.Lexer
open ScriggoV ScriggoV.Gen.LexTables ScriggoV.Spec.Position

/-- a byte that takes exactly one column -/
def plainByte (c : UInt8) : Bool := c != 0x0a && isStartChar c

/-- the `k` bytes from `off` are plain -/
def PlainRun (E : Env) (off k : Nat) : Prop := ∀ j, j < k → ∃ c, E.text[off + j]? = some c ∧ plainByte c = true

theorem posAt_plain {E : Env} {st : St} {off : Nat} (k : Nat) (h : PosAt E st off) (hp : PlainRun E off k) :
    PosAt E (addCol st k) (off + k) := by
  induction k with
  | zero => exact h
  | succ k ih =>
    have h1 := ih (fun j hj => hp j (by omega))
    obtain ⟨c, hc, hpl⟩ := hp k (by omega)
    unfold PosAt at h1 ⊢
    rw [← Nat.add_assoc, take_succ_of_getElem? hc, advance_append, ← h1, advance_one]
    unfold plainByte at hpl
    simp only [Bool.and_eq_true, bne_iff_ne, ne_eq] at hpl
    rw [if_neg hpl.1, if_pos hpl.2]
    rfl

theorem posAt_congr {E : Env} {st st' : St} {off : Nat} (h : PosAt E st off) (hl : st'.line = st.line) (hc : st'.col = st.col) :
    PosAt E st' off := by unfold PosAt at h ⊢; rw [hl, hc]; exact h

/-- the tokens of a state other than inserted semicolons carry the position of their start -/
def AllTok (E : Env) (st : St) : Prop :=
  ∀ t ∈ st.toks, t.typ ≠ tokenSemicolon → (t.line, t.col) = advance (E.text.take t.start.toNat) (1, 1)

theorem emitAt_tok {E : Env} {st st' : St} {line col typ n : Nat} (h : emitAt E st line col typ n = .ok st') :
    ∃ t, st'.toks = t :: st.toks ∧ t.typ = typ ∧ t.line = line ∧ t.col = col ∧
      (typ ≠ tokenSemicolon → t.start = st.base) ∧ st'.line = st.line ∧ st'.col = st.col ∧ st'.base = st.base + n := by
  unfold emitAt at h
  split at h
  · cases h
  · simp only [] at h
    cases h
    refine ⟨_, rfl, rfl, rfl, rfl, ?_, rfl, rfl, rfl⟩
    intro hne
    simp only []
    split
    · simp
    · rfl

theorem allTok_emitAt {E : Env} {st st' : St} {line col typ n : Nat} (h : emitAt E st line col typ n = .ok st')
    (ha : AllTok E st) (hpos : (line, col) = advance (E.text.take st.base) (1, 1)) : AllTok E st' := by
  obtain ⟨t, ht, hty, hl, hc, hs, _⟩ := emitAt_tok h
  intro x hx hne
  rw [ht] at hx
  rcases List.mem_cons.mp hx with rfl | hm
  · rw [hl, hc]
    have : x.start = st.base := hs (by rw [← hty]; exact hne)
    rw [this]; simpa using hpos
  · exact ha x hm hne


structure PInv (E : Env) (st : St) (lp : Loop) : Prop where
  cur : PosAt E st (st.base + lp.p)
  strt : (lp.lin, lp.tcol) = advance (E.text.take st.base) (1, 1)
  toks : AllTok E st

/-- bytes that the tail of an iteration treats alike -/
def SameKind (c c' : UInt8) : Prop := (c = 0x0a ↔ c' = 0x0a) ∧ isStartChar c = isStartChar c'

theorem SameKind.refl (c : UInt8) : SameKind c c := ⟨Iff.rfl, rfl⟩

theorem SameKind.of_plain {c c' : UInt8} (h : plainByte c = true) (h' : plainByte c' = true) : SameKind c c' := by
  unfold plainByte at h h'
  simp only [Bool.and_eq_true, bne_iff_ne, ne_eq] at h h'
  exact ⟨⟨fun e => absurd e h.1, fun e => absurd e h'.1⟩, by rw [h.2, h'.2]⟩

def FallPos (E : Env) (c : UInt8) (st' : St) (lp' : Loop) : Prop :=
  PInv E st' lp' ∧ ∃ c', peek E st' lp'.p = some c' ∧ SameKind c c'

/-- the values `quote` takes: none, `"` or `'` -/
def QuoteOK (q : UInt8) : Prop := q = 0 ∨ q = 0x22 ∨ q = 0x27

theorem QuoteOK.plain {q : UInt8} (h : QuoteOK q) : plainByte q = true := by
  rcases h with h | h | h <;> (subst h; decide)

def CasePos (E : Env) (c : UInt8) : CaseOut → Prop
  | .next st' lp' => PInv E st' lp' ∧ QuoteOK lp'.quote
  | .fall st' lp' => FallPos E c st' lp' ∧ QuoteOK lp'.quote

/-- no LF is directly followed by CR (known finding `lf-cr-column`, hypothesis H3) -/
def NoLFCR (t : Bytes) : Prop := ∀ i : Nat, t[i]? = some (0x0a : UInt8) → t[i + 1]? ≠ some (0x0d : UInt8)

/-- a state that differs from `st` only in fields other than base, toks, line and col keeps the invariant -/
theorem PInv.same {E : Env} {st st' : St} {lp lp' : Loop} (h : PInv E st lp) (hb : st'.base = st.base)
    (ht : st'.toks = st.toks) (hl : st'.line = st.line) (hc : st'.col = st.col) (hp : lp'.p = lp.p)
    (hlin : lp'.lin = lp.lin) (htc : lp'.tcol = lp.tcol) : PInv E st' lp' := by
  refine ⟨?_, ?_, ?_⟩
  · rw [hb, hp]; exact posAt_congr h.cur hl hc
  · rw [hlin, htc, hb]; exact h.strt
  · intro t hm; rw [ht] at hm; exact h.toks t hm

/-- `col += k`, `p += k` over `k` plain bytes -/
theorem PInv.plain {E : Env} {st st' : St} {lp lp' : Loop} (k : Nat) (h : PInv E st lp) (hb : st'.base = st.base)
    (ht : st'.toks = st.toks) (hl : st'.line = st.line) (hc : st'.col = st.col + k) (hp : lp'.p = lp.p + k)
    (hlin : lp'.lin = lp.lin) (htc : lp'.tcol = lp.tcol) (hrun : PlainRun E (st.base + lp.p) k) : PInv E st' lp' := by
  refine ⟨?_, ?_, ?_⟩
  · rw [hb, hp, ← Nat.add_assoc]
    exact posAt_congr (posAt_plain k h.cur hrun) hl hc
  · rw [hlin, htc, hb]; exact h.strt
  · intro t hm; rw [ht] at hm; exact h.toks t hm

/-- the tail of an iteration keeps the invariant -/
theorem tail_pos {E : Env} {c : UInt8} {st' : St} {lp' : Loop} (hno : NoLFCR E.text) (hg : FallPos E c st' lp') :
    PInv E (tail E st' lp' c).1 (tail E st' lp' c).2 := by
  obtain ⟨hI, c', hc', hk⟩ := hg
  have hget : E.text[st'.base + lp'.p]? = some c' := hc'
  unfold tail
  simp only []
  split
  · rename_i hnl
    have hnl' : c' = 0x0a := hk.1.mp hnl
    subst hnl'
    -- after the newline
    have hcr : peekIs E (newline st') (lp'.p + 1) 0x0d = false := by
      unfold peekIs peek
      have := hno _ hget
      show (E.text[st'.base + (lp'.p + 1)]? == some 0x0d) = false
      rw [← Nat.add_assoc]
      cases h : E.text[st'.base + lp'.p + 1]? with
      | none => rfl
      | some x =>
        rw [h] at this
        have : x ≠ 0x0d := fun e => this (by rw [e])
        simp [this]
    simp only [hcr, Bool.false_eq_true, if_false]
    have hcur : PosAt E (newline st') (st'.base + (lp'.p + 1)) := by
      have := hI.cur
      unfold PosAt at this ⊢
      rw [← Nat.add_assoc, take_succ_of_getElem? hget, advance_append, ← this, advance_one]
      rfl
    have base : PInv E (newline st') { lp' with p := lp'.p + 1 } := ⟨hcur, hI.strt, hI.toks⟩
    -- the optional code block indentation
    have hcb : PInv E { (scanCodeBlock E (newline st') (lp'.p + 1)).2.2 with ctx := (scanCodeBlock E (newline st') (lp'.p + 1)).2.1 }
        { lp' with p := (scanCodeBlock E (newline st') (lp'.p + 1)).1 } := by
      unfold scanCodeBlock
      split
      · rename_i hpk
        refine PInv.plain 1 base rfl rfl rfl rfl rfl rfl rfl ?_
        intro j hj
        have : j = 0 := by omega
        subst this
        exact ⟨_, hpk, by decide⟩
      · split
        · rename_i hpk h4
          refine PInv.plain 4 base rfl rfl rfl rfl rfl rfl rfl ?_
          intro j hj
          have hsp : ∀ i, peekIs E (newline st') (lp'.p + 1 + i) 0x20 = true → E.text[st'.base + (lp'.p + 1) + i]? = some 0x20 := by
            intro i h
            unfold peekIs peek at h
            have : E.text[(newline st').base + (lp'.p + 1 + i)]? = some 0x20 := by simpa using h
            rw [← this]; congr 1; show st'.base + (lp'.p + 1) + i = st'.base + (lp'.p + 1 + i); omega
          rcases (by omega : j = 0 ∨ j = 1 ∨ j = 2 ∨ j = 3) with rfl | rfl | rfl | rfl
          · exact ⟨_, hpk, by decide⟩
          · exact ⟨_, hsp 1 h4.2.1, by decide⟩
          · exact ⟨_, hsp 2 h4.2.2.1, by decide⟩
          · exact ⟨_, hsp 3 h4.2.2.2, by decide⟩
        · exact PInv.same base rfl rfl rfl rfl rfl rfl rfl
      · exact PInv.same base rfl rfl rfl rfl rfl rfl rfl
    split
    · exact hcb
    · split
      · split
        · exact hcb
        · exact PInv.same base rfl rfl rfl rfl rfl rfl rfl
      · exact PInv.same base rfl rfl rfl rfl rfl rfl rfl
  · rename_i hnl
    have hnl' : c' ≠ 0x0a := fun e => hnl (hk.1.mpr e)
    split
    · rename_i hs
      have hs' : isStartChar c' = true := by rw [← hk.2]; exact hs
      refine PInv.plain 1 hI rfl rfl rfl rfl rfl rfl rfl ?_
      intro j hj
      have : j = 0 := by omega
      subst this
      exact ⟨c', hget, by unfold plainByte; simp [hnl', hs']⟩
    · rename_i hs
      have hs' : isStartChar c' = false := by rw [← hk.2]; simpa using hs
      refine ⟨?_, hI.strt, hI.toks⟩
      have := hI.cur
      unfold PosAt at this ⊢
      show _ = advance (E.text.take (st'.base + (lp'.p + 1))) (1, 1)
      rw [← Nat.add_assoc, take_succ_of_getElem? hget, advance_append, ← this, advance_one, if_neg hnl']
      simp [hs']

end ScriggoV.Lexer
