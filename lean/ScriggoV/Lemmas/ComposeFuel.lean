import ScriggoV.Lemmas.Compose
/-! C16 helper lemmas, part 2: fuel. A run that succeeds with fuel `n` succeeds with the same result
with any larger fuel, so "the output of `p`" does not depend on the fuel that was enough. -/
namespace ScriggoV.Compose

/-- pointwise: whenever the left succeeds the right succeeds with the same result -/
def OkLe {α β : Type} (R R' : α → Except Err β) : Prop := ∀ p x, R p = .ok x → R' p = .ok x

theorem evalAtom_mono (E : Engine) {R R' : Nat → Except Err (Format × Bytes)} (hR : OkLe R R') :
    ∀ k env a x, evalAtom E R k env a = .ok x → evalAtom E R' (k+1) env a = .ok x := by
  intro k
  induction k with
  | zero =>
    intro env a x h
    cases a with
    | text b => simpa [evalAtom] using h
    | showConst ctx b => simpa [evalAtom] using h
    | call ctx m v => simp [evalAtom] at h
    | render ctx p v =>
      simp only [evalAtom] at h ⊢
      cases hp : R p with
      | error e => rw [hp] at h; cases h
      | ok fc => rw [hp] at h; rw [hR p fc hp]; exact h
  | succ n ih =>
    intro env a x h
    cases a with
    | text b => simpa [evalAtom] using h
    | showConst ctx b => simpa [evalAtom] using h
    | render ctx p v =>
      simp only [evalAtom] at h ⊢
      cases hp : R p with
      | error e => rw [hp] at h; cases h
      | ok fc => rw [hp] at h; rw [hR p fc hp]; exact h
    | call ctx m v =>
      simp only [evalAtom] at h ⊢
      cases hl : lookup env m with
      | none => rw [hl] at h; cases h
      | some mv =>
        obtain ⟨f, body, env'⟩ := mv
        rw [hl] at h
        simp only at h ⊢
        cases hb : mapE (evalAtom E R n env') body with
        | error e => rw [hb] at h; cases h
        | ok content =>
          rw [hb] at h
          rw [mapE_mono body (fun a _ y hy => ih env' a y hy) content hb]
          exact h

theorem stepItem_mono (E : Engine) {R R' : Nat → Except Err (Format × Bytes)}
    {X X' : Nat → Except Err Env} (hR : OkLe R R') (hX : OkLe X X') (n : Nat) (fmt : Format)
    (st : St) (it : Item) (st' : St) (h : stepItem E R X n fmt st it = .ok st') :
    stepItem E R' X' (n+1) fmt st it = .ok st' := by
  cases it with
  | atom a =>
    simp only [stepItem] at h ⊢
    cases ha : evalAtom E R n st.env a with
    | error e => rw [ha] at h; cases h
    | ok x => rw [ha] at h; rw [evalAtom_mono E hR n st.env a x ha]; exact h
  | macroDecl m fm body => exact h
  | extends_ p => exact h
  | import_ q =>
    simp only [stepItem] at h ⊢
    cases hq : X q with
    | error e => rw [hq] at h; cases h
    | ok ex => rw [hq] at h; rw [hX q ex hq]; exact h

theorem runItems_mono (E : Engine) {R R' : Nat → Except Err (Format × Bytes)}
    {X X' : Nat → Except Err Env} (hR : OkLe R R') (hX : OkLe X X') (n : Nat) (fmt : Format)
    (items : List Item) (out : Bytes) (h : runItems E R X n fmt items = .ok out) :
    runItems E R' X' (n+1) fmt items = .ok out := by
  unfold runItems at h ⊢
  cases hf : foldE (stepItem E R X n fmt) ⟨[], []⟩ items with
  | error e => rw [hf] at h; cases h
  | ok st =>
    rw [hf] at h
    obtain ⟨r', h1, h2⟩ := foldE_rel (Rel := fun (a b : St) => a = b)
      (f := stepItem E R X n fmt) (g := stepItem E R' X' (n+1) fmt) items
      (fun s t hst a _ s' hs' => ⟨s', by subst hst; exact stepItem_mono E hR hX n fmt s a s' hs', rfl⟩)
      ⟨[], []⟩ ⟨[], []⟩ rfl st hf
    subst h2
    rw [h1]; exact h

theorem exportStep_mono {X X' : Nat → Except Err Env} (hX : OkLe X X') (fmt : Format) (st : ISt)
    (it : Item) (st' : ISt) (h : exportStep X fmt st it = .ok st') :
    exportStep X' fmt st it = .ok st' := by
  cases it with
  | atom a => exact h
  | macroDecl m fm body => exact h
  | extends_ p => exact h
  | import_ q =>
    simp only [exportStep] at h ⊢
    cases hq : X q with
    | error e => rw [hq] at h; cases h
    | ok ex => rw [hq] at h; rw [hX q ex hq]; exact h

theorem exportsOf_mono (files : List File) :
    ∀ n, OkLe (exportsOf files n) (exportsOf files (n+1)) := by
  intro n
  induction n with
  | zero => intro q ex h; simp [exportsOf] at h
  | succ n ih =>
    intro q ex h
    simp only [exportsOf] at h
    rw [exportsOf]
    cases hf : files[q]? with
    | none => rw [hf] at h; cases h
    | some f =>
      rw [hf] at h
      simp only at h ⊢
      cases hfo : foldE (exportStep (exportsOf files n) f.format) ⟨[], []⟩ f.items with
      | error e => rw [hfo] at h; cases h
      | ok st =>
        rw [hfo] at h
        rw [foldE_mono f.items (fun s a _ s' hs' => exportStep_mono ih f.format s a s' hs') _ st hfo]
        exact h

/-- **fuel sufficiency**: more fuel never changes a result -/
theorem runFile_mono (E : Engine) (files : List File) :
    ∀ n main p r, runFile E files n main p = .ok r → runFile E files (n+1) main p = .ok r := by
  intro n
  induction n with
  | zero => intro main p r h; simp [runFile] at h
  | succ n ih =>
    intro main p r h
    have hR : OkLe (fun q => runFile E files n false q) (fun q => runFile E files (n+1) false q) :=
      fun q x hx => ih false q x hx
    have hX := exportsOf_mono files n
    rw [runFile] at h
    rw [runFile]
    cases hf : files[p]? with
    | none => rw [hf] at h; cases h
    | some f =>
      rw [hf] at h
      simp only at h ⊢
      split at h
      · rename_i l rest heq
        split at h
        · cases h
        · rename_i hmain
          simp only [hmain]
          cases hl : files[l]? with
          | none => rw [hl] at h; cases h
          | some lay =>
            rw [hl] at h
            simp only at h ⊢
            split at h
            · cases h
            · rename_i hok
              simp only [hok]
              cases hi : runItems E (fun q => runFile E files n false q) (exportsOf files n) n lay.format
                  (.import_ p :: lay.items) with
              | error e => rw [hi] at h; cases h
              | ok out =>
                rw [hi] at h
                rw [runItems_mono E hR hX n lay.format _ out hi]
                exact h
      · cases hi : runItems E (fun q => runFile E files n false q) (exportsOf files n) n f.format
            f.items with
        | error e => rw [hi] at h; cases h
        | ok out =>
          rw [hi] at h
          rw [runItems_mono E hR hX n f.format _ out hi]
          exact h

theorem runFile_mono_le (E : Engine) (files : List File) {n n' : Nat} (hle : n ≤ n') (main : Bool)
    (p : Nat) (r : Format × Bytes) (h : runFile E files n main p = .ok r) :
    runFile E files n' main p = .ok r := by
  induction hle with
  | refl => exact h
  | step _ ih => exact runFile_mono E files _ main p r ih

end ScriggoV.Compose
