import ScriggoV.Lemmas.Compose
/-! C16 helper lemmas, part 2: fuel. A run that succeeds with fuel `n` succeeds with the same result
with any larger fuel, so "the output of `p`" does not depend on the fuel that was enough. -/
namespace ScriggoV.Compose

/-- pointwise: whenever the left succeeds the right succeeds with the same result -/
def OkLe {α β : Type} (R R' : α → Except Err β) : Prop := ∀ p x, R p = .ok x → R' p = .ok x

theorem scopeEnv_mono {S S' : Nat → Except Err Env} (hS : OkLe S S') (env : Env) (home : Option Nat)
    (x : Env) (h : scopeEnv S env home = .ok x) : scopeEnv S' env home = .ok x := by
  cases home with
  | none => exact h
  | some q => exact hS q x h

theorem evalAtom_mono (E : Engine) {R R' : Nat → Except Err (Format × Bytes)}
    {S S' : Nat → Except Err Env} (hR : OkLe R R') (hS : OkLe S S') :
    ∀ k env args a x, evalAtom E R S k env args a = .ok x → evalAtom E R' S' (k+1) env args a = .ok x := by
  have hrender : ∀ k k' env args ctx p v x, evalAtom E R S k env args (.render ctx p v) = .ok x →
      evalAtom E R' S' k' env args (.render ctx p v) = .ok x := by
    intro k k' env args ctx p v x h
    cases k <;> cases k' <;>
    · simp only [evalAtom] at h ⊢
      cases hp : R p with
      | error e => rw [hp] at h; cases h
      | ok fc => rw [hp] at h; rw [hR p fc hp]; exact h
  intro k
  induction k with
  | zero =>
    intro env args a x h
    cases a with
    | text b => simpa [evalAtom] using h
    | showConst ctx b => simpa [evalAtom] using h
    | showParam ctx i => simpa [evalAtom] using h
    | call ctx m v cargs => simp [evalAtom] at h
    | render ctx p v => exact hrender 0 1 env args ctx p v x h
  | succ n ih =>
    intro env args a x h
    cases a with
    | text b => simpa [evalAtom] using h
    | showConst ctx b => simpa [evalAtom] using h
    | showParam ctx i => simpa [evalAtom] using h
    | render ctx p v => exact hrender (n+1) (n+2) env args ctx p v x h
    | call ctx m v cargs =>
      simp only [evalAtom] at h ⊢
      cases hl : lookup env m with
      | none => rw [hl] at h; cases h
      | some mv =>
        obtain ⟨f, ps, body, cenv, home⟩ := mv
        rw [hl] at h
        simp only at h ⊢
        split at h
        · cases h
        · rename_i hlen
          rw [if_neg hlen]
          cases hs : scopeEnv S cenv home with
          | error e => rw [hs] at h; cases h
          | ok senv =>
            rw [hs] at h
            rw [scopeEnv_mono hS cenv home senv hs]
            simp only at h ⊢
            cases hb : mapE (evalAtom E R S n senv (ps.zip cargs)) body with
            | error e => rw [hb] at h; cases h
            | ok content =>
              rw [hb] at h
              rw [mapE_mono body (fun a _ y hy => ih senv (ps.zip cargs) a y hy) content hb]
              exact h

theorem stepItem_mono (E : Engine) {R R' : Nat → Except Err (Format × Bytes)}
    {S S' X X' : Nat → Except Err Env} (hR : OkLe R R') (hS : OkLe S S') (hX : OkLe X X') (n : Nat)
    (fmt : Format) (st : St) (it : Item) (st' : St) (h : stepItem E R S X n fmt st it = .ok st') :
    stepItem E R' S' X' (n+1) fmt st it = .ok st' := by
  cases it with
  | atom a =>
    simp only [stepItem] at h ⊢
    cases ha : evalAtom E R S n st.env [] a with
    | error e => rw [ha] at h; cases h
    | ok x => rw [ha] at h; rw [evalAtom_mono E hR hS n st.env [] a x ha]; exact h
  | macroDecl m fm ps body => exact h
  | extends_ p => exact h
  | import_ q =>
    simp only [stepItem] at h ⊢
    cases hq : X q with
    | error e => rw [hq] at h; cases h
    | ok ex => rw [hq] at h; rw [hX q ex hq]; exact h

theorem runItems_mono (E : Engine) {R R' : Nat → Except Err (Format × Bytes)}
    {S S' X X' : Nat → Except Err Env} (hR : OkLe R R') (hS : OkLe S S') (hX : OkLe X X') (n : Nat)
    (fmt : Format) (items : List Item) (out : Bytes) (h : runItems E R S X n fmt items = .ok out) :
    runItems E R' S' X' (n+1) fmt items = .ok out := by
  unfold runItems at h ⊢
  cases hf : foldE (stepItem E R S X n fmt) ⟨[], []⟩ items with
  | error e => rw [hf] at h; cases h
  | ok st =>
    rw [hf] at h
    rw [foldE_mono items (fun s a _ s' hs' => stepItem_mono E hR hS hX n fmt s a s' hs') _ st hf]
    exact h

theorem passStep_mono {X X' : Nat → Except Err Env} (hX : OkLe X X') (q : Nat) (fmt : Format) (st : ISt)
    (it : Item) (st' : ISt) (h : passStep X q fmt st it = .ok st') :
    passStep X' q fmt st it = .ok st' := by
  cases it with
  | atom a => exact h
  | macroDecl m fm ps body => exact h
  | extends_ p => exact h
  | import_ q' =>
    simp only [passStep] at h ⊢
    cases hq : X q' with
    | error e => rw [hq] at h; cases h
    | ok ex => rw [hq] at h; rw [hX q' ex hq]; exact h

theorem expOf_mono {a b : Except Err ISt} (h : ∀ st, a = .ok st → b = .ok st) (x : Env)
    (hx : expOf a = .ok x) : expOf b = .ok x := by
  cases a with
  | error e => cases hx
  | ok st => rw [h st rfl]; exact hx

theorem locOf_mono {a b : Except Err ISt} (h : ∀ st, a = .ok st → b = .ok st) (x : Env)
    (hx : locOf a = .ok x) : locOf b = .ok x := by
  cases a with
  | error e => cases hx
  | ok st => rw [h st rfl]; exact hx

theorem passOf_mono (files : List File) :
    ∀ n, OkLe (passOf files n) (passOf files (n+1)) := by
  intro n
  induction n with
  | zero => intro q st h; simp [passOf] at h
  | succ n ih =>
    intro q st h
    rw [passOf] at h
    rw [passOf]
    cases hf : files[q]? with
    | none => rw [hf] at h; cases h
    | some f =>
      rw [hf] at h
      simp only at h ⊢
      exact foldE_mono f.items (fun s a _ s' hs' =>
        passStep_mono (fun q' x hx => expOf_mono (ih q') x hx) q f.format s a s' hs') _ st h

theorem exportsOf_mono (files : List File) (n : Nat) :
    OkLe (exportsOf files n) (exportsOf files (n+1)) :=
  fun q x hx => expOf_mono (passOf_mono files n q) x hx

theorem scopeOf_mono (files : List File) (n : Nat) :
    OkLe (scopeOf files n) (scopeOf files (n+1)) :=
  fun q x hx => locOf_mono (passOf_mono files n q) x hx

/-- **fuel sufficiency**: more fuel never changes a result -/
theorem runFile_mono (E : Engine) (files : List File) :
    ∀ n main p r, runFile E files n main p = .ok r → runFile E files (n+1) main p = .ok r := by
  intro n
  induction n with
  | zero => intro main p r h; simp [runFile] at h
  | succ n ih =>
    intro main p r h
    have hR : OkLe (fun q => runFile E files n false q) (fun q => runFile E files (n+1) false q) :=
      fun q x hx => ih false q x hx
    have hX := exportsOf_mono files n
    have hS := scopeOf_mono files n
    rw [runFile] at h
    rw [runFile]
    cases hf : files[p]? with
    | none => rw [hf] at h; cases h
    | some f =>
      rw [hf] at h
      simp only at h ⊢
      split at h
      · rename_i l rest heq
        split at h
        · cases h
        · rename_i hmain
          simp only [hmain]
          cases hl : files[l]? with
          | none => rw [hl] at h; cases h
          | some lay =>
            rw [hl] at h
            simp only at h ⊢
            split at h
            · cases h
            · rename_i hok
              simp only [hok]
              cases hi : runItems E (fun q => runFile E files n false q) (scopeOf files n)
                  (exportsOf files n) n lay.format (.import_ p :: lay.items) with
              | error e => rw [hi] at h; cases h
              | ok out =>
                rw [hi] at h
                rw [runItems_mono E hR hS hX n lay.format _ out hi]
                exact h
      · cases hi : runItems E (fun q => runFile E files n false q) (scopeOf files n)
            (exportsOf files n) n f.format f.items with
        | error e => rw [hi] at h; cases h
        | ok out =>
          rw [hi] at h
          rw [runItems_mono E hR hS hX n f.format _ out hi]
          exact h

theorem runFile_mono_le (E : Engine) (files : List File) {n n' : Nat} (hle : n ≤ n') (main : Bool)
    (p : Nat) (r : Format × Bytes) (h : runFile E files n main p = .ok r) :
    runFile E files n' main p = .ok r := by
  induction hle with
  | refl => exact h
  | step _ ih => exact runFile_mono E files _ main p r ih

end ScriggoV.Compose
