import ScriggoV.Model.Lexer.Advance
import ScriggoV.Lemmas.LexerPos
/-! # Soundness of the segment checker (C21)

`Seg.check_sound`: a segment that passes `Seg.check` moves line and column, under its guard, exactly
as `Spec.Position.advance` does over the bytes it advanced, and stays inside the source. -/
namespace ScriggoV.Lexer.Advance
open ScriggoV ScriggoV.Lexer ScriggoV.Spec.Position

/-- every literal of the guard holds -/
def GuardHolds (g : List Lit) (src : Bytes) (p : Nat) (q : UInt8) : Prop := ∀ lit ∈ g, lit.holds src p q

/-- the hand-written `Nat` versions of the byte predicates are the generated ones -/
theorem Pred.evalN_eq (pr : Pred) (c : UInt8) : pr.eval c = pr.evalN c.toNat := by
  have h := allBytes_spec (p := fun c => [Pred.isSpace, .isStartChar, .isASCIISpace, .isAlpha].all
    (fun pr => pr.eval c == pr.evalN c.toNat)) (by decide +kernel) c
  simp only [List.all_cons, List.all_nil, Bool.and_true, Bool.and_eq_true, beq_iff_eq] at h
  cases pr
  · exact h.1
  · exact h.2.1
  · exact h.2.2.1
  · exact h.2.2.2

theorem toNat_eq_iff (c b : UInt8) : (c.toNat == b.toNat) = (c == b) := by
  by_cases h : c = b
  · subst h; simp
  · have hn : c.toNat ≠ b.toNat := fun hn => h (UInt8.toNat_inj.mp hn)
    have h1 : (c.toNat == b.toNat) = false := by simpa using hn
    have h2 : (c == b) = false := by simpa using h
    rw [h1, h2]

theorem Atom.evalN_eq (q c : UInt8) (a : Atom) : a.eval q c = a.evalN q.toNat c.toNat := by
  cases a with
  | byte b => rfl
  | quote => simp only [Atom.eval, Atom.evalN]; exact (toNat_eq_iff c q).symm
  | pred pr => exact Pred.evalN_eq pr c
  | lt n => rfl

theorem okByte_of_holds {src : Bytes} {p k : Nat} {q c : UInt8} {lit : Lit} (hc : src[p + k]? = some c)
    (h : lit.holds src p q) : lit.okByte q.toNat k c.toNat = true := by
  cases lit with
  | is off alts pos =>
    simp only [Lit.okByte]
    by_cases ho : off = k
    · subst ho
      obtain ⟨c', hc', hv⟩ := h
      rw [hc] at hc'; cases hc'
      have : alts.any (Atom.evalN q.toNat c.toNat) = alts.any (Atom.eval q c) := by
        congr 1; funext a; exact (Atom.evalN_eq q c a).symm
      simp [this, hv]
    · simp [ho]
  | inb _ => rfl

theorem quotesN_of {q : UInt8} (hq : q ∈ quotes) : q.toNat ∈ quotesN := by
  simp only [quotes, List.mem_cons, List.not_mem_nil, or_false] at hq
  rcases hq with rfl | rfl | rfl <;> decide

theorem vals?_mem {q c : UInt8} : ∀ {alts : List Atom} {vs : List Nat}, vals? q.toNat alts = some vs →
    alts.any (Atom.eval q c) = true → c.toNat ∈ vs := by
  intro alts
  induction alts with
  | nil => intro vs _ ha; simp at ha
  | cons a rest ih =>
    intro vs hv ha
    unfold vals? at hv
    cases h1 : a.val? q.toNat with
    | none => rw [h1] at hv; simp at hv
    | some v =>
      cases h2 : vals? q.toNat rest with
      | none => rw [h1, h2] at hv; simp at hv
      | some vs' =>
        rw [h1, h2] at hv
        simp only [Option.some.injEq] at hv
        subst hv
        simp only [List.any_cons, Bool.or_eq_true] at ha
        rcases ha with ha | ha
        · have : c.toNat = v := by
            cases a with
            | byte b =>
              simp only [Atom.val?, Option.some.injEq] at h1
              simp only [Atom.eval, beq_iff_eq] at ha
              rw [ha, h1]
            | quote =>
              simp only [Atom.val?, Option.some.injEq] at h1
              simp only [Atom.eval, beq_iff_eq] at ha
              rw [ha, h1]
            | pred _ => simp [Atom.val?] at h1
            | lt _ => simp [Atom.val?] at h1
          rw [this]; exact List.mem_cons_self
        · exact List.mem_cons_of_mem _ (ih h2 ha)

theorem mem_candidates {g : List Lit} {k : Nat} {src : Bytes} {p : Nat} {q c : UInt8}
    (hg : GuardHolds g src p q) (hc : src[p + k]? = some c) : c.toNat ∈ candidates g k q.toNat := by
  unfold candidates
  cases hf : g.findSome? (Lit.vals? q.toNat k) with
  | none => simp [List.mem_range]; exact c.toNat_lt
  | some vs =>
    simp only []
    obtain ⟨lit, hl, hv⟩ := List.exists_of_findSome?_eq_some hf
    cases lit with
    | inb _ => simp [Lit.vals?] at hv
    | is off alts pos =>
      cases pos with
      | false => simp [Lit.vals?] at hv
      | true =>
        simp only [Lit.vals?] at hv
        split at hv
        · rename_i ho
          have ho' : off = k := by simpa using ho
          subst ho'
          obtain ⟨c', hc', ha⟩ := hg _ hl
          rw [hc] at hc'; cases hc'
          exact vals?_mem hv ha
        · cases hv

theorem Atom.evalN_noQuote {a : Atom} (h : a.isQuote = false) (q q' c : Nat) : a.evalN q c = a.evalN q' c := by
  cases a with
  | byte _ => rfl
  | quote => cases h
  | pred _ => rfl
  | lt _ => rfl

theorem Atom.val?_noQuote {a : Atom} (h : a.isQuote = false) (q q' : Nat) : a.val? q = a.val? q' := by
  cases a with
  | byte _ => rfl
  | quote => cases h
  | pred _ => rfl
  | lt _ => rfl

theorem vals?_noQuote : ∀ {alts : List Atom}, alts.any Atom.isQuote = false → ∀ q q', vals? q alts = vals? q' alts := by
  intro alts
  induction alts with
  | nil => intro _ _ _; rfl
  | cons a rest ih =>
    intro h q q'
    simp only [List.any_cons, Bool.or_eq_false_iff] at h
    unfold vals?
    rw [Atom.val?_noQuote h.1 q q', ih h.2 q q']

theorem any_evalN_noQuote {alts : List Atom} (h : alts.any Atom.isQuote = false) (q q' c : Nat) :
    alts.any (Atom.evalN q c) = alts.any (Atom.evalN q' c) := by
  induction alts with
  | nil => rfl
  | cons a rest ih =>
    simp only [List.any_cons, Bool.or_eq_false_iff] at h
    simp only [List.any_cons]
    rw [Atom.evalN_noQuote h.1 q q' c, ih h.2]

theorem Lit.okByte_noQuote {lit : Lit} (h : lit.hasQuote = false) (q q' k c : Nat) : lit.okByte q k c = lit.okByte q' k c := by
  cases lit with
  | inb _ => rfl
  | is off alts pos => simp only [Lit.okByte]; rw [any_evalN_noQuote h q q' c]

theorem Lit.vals?_noQuote {lit : Lit} (h : lit.hasQuote = false) (q q' k : Nat) : lit.vals? q k = lit.vals? q' k := by
  cases lit with
  | inb _ => rfl
  | is off alts pos =>
    cases pos with
    | false => rfl
    | true => simp only [Lit.vals?]; rw [Advance.vals?_noQuote h q q']

theorem findSome?_congr' {α β : Type} {f g : α → Option β} : ∀ {l : List α}, (∀ a ∈ l, f a = g a) → l.findSome? f = l.findSome? g := by
  intro l
  induction l with
  | nil => intro _; rfl
  | cons a rest ih =>
    intro h
    simp only [List.findSome?_cons]
    rw [h a List.mem_cons_self, ih (fun b hb => h b (List.mem_cons_of_mem _ hb))]

theorem allSat_sound {g : List Lit} {k : Nat} {f : Nat → Bool} {src : Bytes} {p : Nat} {q c : UInt8}
    (hq : q ∈ quotes) (hs : allSat g k f = true) (hg : GuardHolds g src p q) (hc : src[p + k]? = some c) :
    f c.toNat = true := by
  unfold allSat at hs
  rw [List.all_eq_true] at hs
  have h2 : g.all (Lit.okByte q.toNat k c.toNat) = true := by
    rw [List.all_eq_true]; intro lit hl; exact okByte_of_holds hc (hg lit hl)
  have hm := mem_candidates hg hc
  unfold quotesFor at hs
  split at hs
  · have h0 := hs q.toNat (quotesN_of hq)
    rw [List.all_eq_true] at h0
    have h1 := h0 c.toNat hm
    simpa [h2] using h1
  · rename_i hnq
    have hnq' : ∀ lit ∈ g, lit.hasQuote = false := by
      intro lit hl
      cases hh : lit.hasQuote with
      | false => rfl
      | true => exact absurd (List.any_eq_true.mpr ⟨lit, hl, hh⟩) hnq
    have h0 := hs 0 (by simp)
    rw [List.all_eq_true] at h0
    have hm0 : c.toNat ∈ candidates g k 0 := by
      have : candidates g k 0 = candidates g k q.toNat := by
        unfold candidates
        congr 1
        exact findSome?_congr' (fun lit hl => Lit.vals?_noQuote (hnq' lit hl) 0 q.toNat k)
      rw [this]; exact hm
    have h1 := h0 c.toNat hm0
    have h3 : g.all (Lit.okByte 0 k c.toNat) = true := by
      rw [List.all_eq_true]; intro lit hl
      rw [Lit.okByte_noQuote (hnq' lit hl) 0 q.toNat k c.toNat]
      exact List.all_eq_true.mp h2 lit hl
    simpa [h3] using h1

theorem reads_sound {g : List Lit} {k : Nat} {src : Bytes} {p : Nat} {q : UInt8}
    (hr : g.any (Lit.reads k) = true) (hg : GuardHolds g src p q) : ∃ c, src[p + k]? = some c := by
  rw [List.any_eq_true] at hr
  obtain ⟨lit, hl, hrd⟩ := hr
  cases lit with
  | is off alts pos =>
    have ho : off = k := by simpa [Lit.reads] using hrd
    subst ho
    obtain ⟨c, hc, _⟩ := hg _ hl
    exact ⟨c, hc⟩
  | inb _ => simp [Lit.reads] at hrd

theorem classAt_sound {g : List Lit} {k : Nat} {cl : Cls} {src : Bytes} {p : Nat} {q : UInt8} (hq : q ∈ quotes)
    (h : classAt g k = some cl) (hg : GuardHolds g src p q) : ∃ c, src[p + k]? = some c ∧ cl.ok c.toNat = true := by
  unfold classAt at h
  split at h
  · cases h
  · rename_i hr
    have hr' : g.any (Lit.reads k) = true := by simpa using hr
    obtain ⟨c, hc⟩ := reads_sound hr' hg
    refine ⟨c, hc, ?_⟩
    split at h
    · rename_i hs; cases h; exact allSat_sound hq hs hg hc
    · split at h
      · rename_i hs; cases h; exact allSat_sound hq hs hg hc
      · split at h
        · rename_i hs; cases h; exact allSat_sound hq hs hg hc
        · cases h

theorem nl_iff (c : UInt8) : (c.toNat == 0x0a) = true ↔ c = 0x0a := by
  have := toNat_eq_iff c 0x0a
  simp only [show (0x0a : UInt8).toNat = 0x0a from rfl] at this
  rw [this]; simp

theorem startChar_eq (c : UInt8) : Pred.evalN .isStartChar c.toNat = Gen.LexTables.isStartChar c :=
  (Pred.evalN_eq .isStartChar c).symm

theorem Eff.apply_fst (e : Eff) (lc : Nat × Nat) : (e.apply lc).1 = lc.1 + e.nl := by
  unfold Eff.apply; split
  · rename_i h; simp [h]
  · rfl

theorem Eff.apply_newline (e : Eff) (lc : Nat × Nat) : e.newline.apply lc = ((e.apply lc).1 + 1, 1) := by
  rw [Eff.apply_fst]
  simp [Eff.apply, Eff.newline, Nat.add_assoc]

theorem Eff.apply_addCol (e : Eff) (k : Nat) (lc : Nat × Nat) : (e.addCol k).apply lc = ((e.apply lc).1, (e.apply lc).2 + k) := by
  unfold Eff.apply Eff.addCol
  split
  · simp [Nat.add_assoc]
  · simp

theorem Eff.apply_zero (lc : Nat × Nat) : (⟨0, 0⟩ : Eff).apply lc = lc := by simp [Eff.apply]

theorem startChar_nl : Gen.LexTables.isStartChar 0x0a = true := by decide

/-- the bytes `[base, base + n)` are all in the source and `advance` over them is the effect
computed from their classes -/
theorem effOfBytes_sound {g : List Lit} {base : Nat} {src : Bytes} {p : Nat} {q : UInt8} (hq : q ∈ quotes)
    (hg : GuardHolds g src p q) : ∀ (n : Nat) (e : Eff), effOfBytes g base n = some e →
    ((src.drop (p + base)).take n).length = n ∧ ∀ lc, advance ((src.drop (p + base)).take n) lc = e.apply lc := by
  intro n
  induction n with
  | zero =>
    intro e h
    simp only [effOfBytes] at h; cases h
    exact ⟨by simp, fun lc => by simp [advance, Eff.apply_zero]⟩
  | succ n ih =>
    intro e h
    simp only [effOfBytes] at h
    cases he : effOfBytes g base n with
    | none => simp [he] at h
    | some e' =>
      cases hcl : classAt g (base + n) with
      | none => simp [he, hcl] at h
      | some cl =>
        obtain ⟨hlen, hadv⟩ := ih e' he
        obtain ⟨c, hc, hok⟩ := classAt_sound hq hcl hg
        have hc' : (src.drop (p + base))[n]? = some c := by
          rw [List.getElem?_drop, ← hc]; congr 1; omega
        have htake := take_succ_of_getElem? hc'
        refine ⟨by rw [htake]; simp [hlen], fun lc => ?_⟩
        rw [htake, advance_append, hadv]
        generalize hlk : e'.apply lc = x
        obtain ⟨l, k⟩ := x
        rw [advance_one]
        rw [he, hcl] at h
        cases cl with
        | nl =>
          simp only [Option.some.injEq] at h; subst h
          have : c = 0x0a := (nl_iff c).mp (by simpa [Cls.ok] using hok)
          rw [if_pos this, Eff.apply_newline, hlk]
        | good =>
          simp only [Option.some.injEq] at h; subst h
          have hh : (c.toNat != 0x0a) = true ∧ Pred.evalN .isStartChar c.toNat = true := by
            simpa [Cls.ok] using hok
          have h1 : c ≠ 0x0a := fun hcn => by
            have := (nl_iff c).mpr hcn
            simp [bne, this] at hh
          rw [if_neg h1, if_pos (by rw [← startChar_eq]; exact hh.2), Eff.apply_addCol, hlk]
        | cont =>
          simp only [Option.some.injEq] at h; subst h
          have hh : Gen.LexTables.isStartChar c = false := by
            rw [← startChar_eq]; simpa [Cls.ok] using hok
          have hne : c ≠ 0x0a := by
            intro hcn; rw [hcn, startChar_nl] at hh; cases hh
          rw [if_neg hne, if_neg (by rw [hh]; decide), hlk]

theorem Ev.step_eff (ev : Ev) (e : Eff) (d : Nat) (lc : Nat × Nat) :
    ev.step (e.apply lc, d) = ((ev.eff (e, d)).1.apply lc, (ev.eff (e, d)).2) := by
  cases ev with
  | adv k => rfl
  | col k =>
    simp only [Ev.eff, Eff.apply_addCol]
    generalize e.apply lc = x
    obtain ⟨l, c⟩ := x
    rfl
  | newline =>
    simp only [Ev.eff, Eff.apply_newline]
    generalize e.apply lc = x
    obtain ⟨l, c⟩ := x
    rfl

/-- running the events is applying their effect -/
theorem run_eff (evs : List Ev) : ∀ (e : Eff) (d : Nat) (lc : Nat × Nat),
    run evs (e.apply lc, d) = ((effOfEvs evs (e, d)).1.apply lc, (effOfEvs evs (e, d)).2) := by
  induction evs with
  | nil => intro e d lc; rfl
  | cons ev rest ih =>
    intro e d lc
    simp only [run, effOfEvs, List.foldl_cons]
    rw [Ev.step_eff]
    exact ih _ _ lc

theorem effOfEvs_mono (evs : List Ev) : ∀ (e : Eff) (d : Nat), d ≤ (effOfEvs evs (e, d)).2 := by
  induction evs with
  | nil => intro e d; exact Nat.le_refl _
  | cons ev rest ih =>
    intro e d
    simp only [effOfEvs, List.foldl_cons]
    cases ev with
    | adv k => exact Nat.le_trans (Nat.le_add_right d k) (ih _ _)
    | col k => exact ih _ _
    | newline => exact ih _ _

/-- a segment that passes the check, under its guard: the bytes it advanced over are in the source,
and its statements move line and column as the specification does over those bytes -/
theorem Seg.check_sound (s : Seg) (h : s.check = true) {src : Bytes} {p : Nat} {q : UInt8} (hq : q ∈ quotes)
    (hg : GuardHolds s.guard src p q) (lc : Nat × Nat) :
    s.base ≤ (run s.evs (lc, s.base)).2 ∧
    ((src.drop (p + s.base)).take ((run s.evs (lc, s.base)).2 - s.base)).length = (run s.evs (lc, s.base)).2 - s.base ∧
    (run s.evs (lc, s.base)).1 = advance ((src.drop (p + s.base)).take ((run s.evs (lc, s.base)).2 - s.base)) lc := by
  have hr := run_eff s.evs ⟨0, 0⟩ s.base lc
  rw [Eff.apply_zero] at hr
  rw [hr]
  simp only []
  unfold Seg.check at h
  simp only [Bool.or_eq_true, List.any_eq_true, beq_iff_eq] at h
  rcases h with h | ⟨lit, hl, hu⟩
  · obtain ⟨hlen, hadv⟩ := effOfBytes_sound hq hg _ _ h
    exact ⟨effOfEvs_mono _ _ _, hlen, (hadv lc).symm⟩
  · -- the guard is contradictory
    exfalso
    cases lit with
    | inb _ => simp at hu
    | is off alts pos =>
      simp only at hu
      obtain ⟨c, hc, _⟩ := hg _ hl
      have := allSat_sound (f := fun _ => false) hq hu hg hc
      cases this

theorem RuneStep.check_sound (r : RuneStep) (h : r.check = true) {src : Bytes} {p : Nat} {q : UInt8} (hq : q ∈ quotes)
    (hg : GuardHolds r.guard src p q) : ∃ c, src[p + r.off]? = some c ∧ c ≠ 0x0a := by
  unfold RuneStep.check at h
  simp only [Bool.and_eq_true] at h
  obtain ⟨c, hc⟩ := reads_sound h.1 hg
  have := allSat_sound hq h.2 hg hc
  refine ⟨c, hc, fun hcn => ?_⟩
  have h2 := (nl_iff c).mpr hcn
  simp [bne, h2] at this

theorem QuoteAssign.check_sound (a : QuoteAssign) (h : a.check = true) {src : Bytes} {p : Nat} {q : UInt8} (hq : q ∈ quotes)
    (hg : GuardHolds a.guard src p q) :
    match a.rhs with
    | .zero => True
    | .dq => True
    | .byte => ∃ c, src[p + a.off]? = some c ∧ c ∈ quotes := by
  unfold QuoteAssign.check at h
  cases hr : a.rhs with
  | zero => trivial
  | dq => trivial
  | byte =>
    rw [hr] at h
    simp only [Bool.and_eq_true] at h
    obtain ⟨c, hc⟩ := reads_sound h.1 hg
    have := allSat_sound hq h.2 hg hc
    refine ⟨c, hc, ?_⟩
    have hm : c.toNat ∈ quotesN := by simpa using this
    simp only [quotesN, List.mem_cons, List.not_mem_nil, or_false] at hm
    simp only [quotes, List.mem_cons, List.not_mem_nil, or_false]
    rcases hm with h0 | h0 | h0
    · exact Or.inl (UInt8.toNat_inj.mp h0)
    · exact Or.inr (Or.inl (UInt8.toNat_inj.mp h0))
    · exact Or.inr (Or.inr (UInt8.toNat_inj.mp h0))

end ScriggoV.Lexer.Advance
