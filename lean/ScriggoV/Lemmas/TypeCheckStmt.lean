import ScriggoV.Lemmas.TypeCheckSound
/-! Lemmas for C03: soundness of statement execution. -/
namespace ScriggoV.TypeCheck

variable {F : Type} (fs : FloatSem F)

/-- assigning to a variable of type `t` -/
theorem assignTo_var_sound {o o' : Operand} {t : BType} {s : Bool} {v : Val F}
    (h : assignTo o t s = .ok o') (hv : ValOK o v) :
    ∃ v', assignVal fs t v = .ok v' ∧ HasType t v' := by
  have hv := vok_of_valOK hv
  cases hv <;> cases t <;> simp [assignTo, bind_ok_iff, map_ok_iff] at h
  all_goals (
    revert h
    try simp only [and_imp, forall_exists_index]
    intros
    subst_vars
    simp_all [assignVal, HasType])

/-- the value of a constant declared with type `t` -/
theorem assignTo_const_sound {o o' : Operand} {t : BType} {v : Val F}
    (h : assignTo o t true = .ok o') (hv : ValOK o v) (hc : o.val.isSome = true) :
    ∃ v', constVal t v = .ok v' ∧ ValOK o' v' ∧ o'.ty = .typed t := by
  have hv := vok_of_valOK hv
  cases hv <;> cases t <;> simp [assignTo, bind_ok_iff, map_ok_iff] at h hc
  all_goals (
    revert h
    try simp only [and_imp, forall_exists_index]
    intros
    subst_vars
    simp_all [constVal, ValOK, constValue])

theorem inferType_sound {o : Operand} {t : BType} {v : Val F}
    (h : inferType o = .ok t) (hv : ValOK o v) : v.btype? = some t := by
  have hv := vok_of_valOK hv
  cases hv <;> simp [inferType] at h <;> subst h <;> rfl

theorem hasType_btype {t : BType} {v : Val F} (h : HasType t v) : v.btype? = some t := by
  cases t <;> cases v <;> simp [HasType] at h <;> simp [Val.btype?, *]

theorem valOK_var_iff {t : BType} {v : Val F} : ValOK (Entry.var t).operand v ↔ HasType t v := by
  simp [Entry.operand, ValOK]

theorem dupdate_sound {Γ : Env} {ρ : DEnv F} (he : EnvOK Γ ρ) {x : Nat} {t : BType} {v : Val F}
    (hl : lookup Γ x = some (.var t)) (hv : HasType t v) : EnvOK Γ (dupdate ρ x v) := by
  induction Γ generalizing ρ with
  | nil => simp [lookup] at hl
  | cons hd tl ih =>
    obtain ⟨y, e⟩ := hd
    cases ρ with
    | nil => simp [EnvOK] at he
    | cons hd' tl' =>
      obtain ⟨y', c, w⟩ := hd'
      simp only [EnvOK] at he
      obtain ⟨rfl, rfl, hw, he'⟩ := he
      simp only [lookup] at hl
      simp only [dupdate]
      by_cases hxy : x = y
      · simp only [hxy, if_true] at hl ⊢
        injection hl with hl; subst hl
        simp only [EnvOK]
        exact ⟨trivial, trivial, valOK_var_iff.2 hv, he'⟩
      · simp only [hxy, if_false] at hl ⊢
        simp only [EnvOK]
        exact ⟨trivial, trivial, hw, ih he' hl⟩

/-- what an acceptable outcome of a statement is: an environment matching the new static
environment, or a run-time panic; never `stuck` -/
def StmtOK (Γ' : Env) (r : Res (DEnv F)) : Prop :=
  match r with
  | .ok ρ' => EnvOK Γ' ρ'
  | .panic _ => True
  | .stuck => False

theorem declare_ok {Γ Γ' : Env} {x : Nat} {e : Entry} (h : declare Γ x e = .ok Γ') : Γ' = (x, e) :: Γ := by
  unfold declare at h
  split at h
  · cases h
  · injection h with h; exact h.symm

theorem assignTo_not_nil {o o' : Operand} {t : BType} {s : Bool} (h : assignTo o t s = .ok o') : o.ty ≠ .nil := by
  intro hn
  obtain ⟨ty, val⟩ := o
  simp only at hn; subst hn
  simp [assignTo] at h

theorem inferType_not_nil {o : Operand} {t : BType} (h : inferType o = .ok t) : o.ty ≠ .nil := by
  intro hn
  obtain ⟨ty, val⟩ := o
  simp only at hn; subst hn
  simp [inferType] at h

/-- declaring a variable initialised by `e` (shared by `var x T = e`, `var x = e`, `x := e`) -/
theorem declVar_sound {Γ : Env} {ρ : DEnv F} (he : EnvOK Γ ρ) {e : Expr} {o o' : Operand} {t : BType} {x : Nat}
    (ho : checkExpr Γ e = .ok o) (ha : assignTo o t false = .ok o') :
    StmtOK ((x, .var t) :: Γ)
      ((eval fs ρ e).bind fun v => (assignVal fs t v).bind fun v' => .ok ((x, false, v') :: ρ)) := by
  have hs := checkExpr_sound fs he e ho (assignTo_not_nil ha)
  cases hr : eval fs ρ e with
  | ok v =>
    rw [hr] at hs
    obtain ⟨v', hv', ht⟩ := assignTo_var_sound fs ha hs
    simp only [Res.bind_ok, hv', StmtOK, EnvOK]
    exact ⟨trivial, rfl, valOK_var_iff.2 ht, he⟩
  | panic p => simp [StmtOK]
  | stuck => rw [hr] at hs; exact hs.elim

/-- one left-hand name of a multi-name `:=`: `Γ₀`/`ρ₀` are the environments before the statement,
`Γ₁`/`ρ₁` the current ones (they agree with the former on `x`) -/
theorem storeShort_sound {Γ₀ Γ₁ : Env} {ρ₀ ρ₁ : DEnv F} (he₀ : EnvOK Γ₀ ρ₀) (he₁ : EnvOK Γ₁ ρ₁)
    (hsame : ∀ ent, lookup Γ₀ x = some ent → lookup Γ₁ x = some ent)
    {o : Operand} {v : Val F} {a : Bool × BType}
    (h : shortTarget Γ₀ x o = .ok a) (hv : ValOK o v) :
    StmtOK (if a.1 then (x, .var a.2) :: Γ₁ else Γ₁) (storeShort fs ρ₀ ρ₁ x v) := by
  unfold shortTarget at h
  cases hl : lookup Γ₀ x with
  | some ent =>
    cases ent with
    | const ty c => simp only [hl] at h; cases h
    | var t =>
      simp only [hl] at h
      obtain ⟨o', ha, h⟩ := (bind_ok_iff _ _ _).1 h
      simp at h; subst h
      obtain ⟨old, hd, hold⟩ := lookup_sound he₀ hl
      obtain ⟨v', hv', ht⟩ := assignTo_var_sound fs ha hv
      simp only [storeShort, hd, hasType_btype (valOK_var_iff.1 hold), hv', Res.bind_ok, StmtOK,
        Bool.false_eq_true, if_false]
      exact dupdate_sound he₁ (hsame _ hl) ht
  | none =>
    simp only [hl] at h
    obtain ⟨t, ht, h⟩ := (bind_ok_iff _ _ _).1 h
    obtain ⟨o', ha, h⟩ := (bind_ok_iff _ _ _).1 h
    simp at h; subst h
    have hdn : dlookup ρ₀ x = none := by
      clear ha ht hv hsame he₁
      induction Γ₀ generalizing ρ₀ with
      | nil => cases ρ₀ with
        | nil => rfl
        | cons hd tl => simp [EnvOK] at he₀
      | cons hd tl ih =>
        obtain ⟨y, e⟩ := hd
        cases ρ₀ with
        | nil => simp [EnvOK] at he₀
        | cons hd' tl' =>
          obtain ⟨y', c, w⟩ := hd'
          simp only [EnvOK] at he₀
          obtain ⟨rfl, _, _, he'⟩ := he₀
          simp only [lookup] at hl
          simp only [dlookup]
          by_cases hxy : x = y
          · simp [hxy] at hl
          · simp only [hxy, if_false] at hl ⊢
            exact ih he' hl
    obtain ⟨v', hv', hty⟩ := assignTo_var_sound fs ha hv
    simp only [storeShort, hdn, inferType_sound ht hv, hv', Res.bind_ok, StmtOK, if_true, EnvOK]
    exact ⟨trivial, rfl, valOK_var_iff.2 hty, he₁⟩

theorem shortTarget_not_nil {Γ : Env} {x : Nat} {o : Operand} {a : Bool × BType}
    (h : shortTarget Γ x o = .ok a) : o.ty ≠ .nil := by
  unfold shortTarget at h
  split at h
  · obtain ⟨o', ha, _⟩ := (bind_ok_iff _ _ _).1 h; exact assignTo_not_nil ha
  · cases h
  · obtain ⟨t, ht, _⟩ := (bind_ok_iff _ _ _).1 h; exact inferType_not_nil ht

theorem checkStmt_sound {Γ Γ' : Env} {ρ : DEnv F} (he : EnvOK Γ ρ) (s : Stmt)
    (h : checkStmt Γ s = .ok Γ') : StmtOK Γ' (exec fs ρ s) := by
  cases s with
  | varDecl x t e =>
    cases t with
    | some t =>
      cases e with
      | some e =>
        simp only [checkStmt] at h
        obtain ⟨o, ho, h⟩ := (bind_ok_iff _ _ _).1 h
        obtain ⟨o', ha, hd⟩ := (bind_ok_iff _ _ _).1 h
        rw [declare_ok hd]
        simp only [exec]
        exact declVar_sound fs he ho ha
      | none =>
        simp only [checkStmt] at h
        rw [declare_ok h]
        simp only [exec, StmtOK, EnvOK]
        refine ⟨trivial, rfl, valOK_var_iff.2 ?_, he⟩
        cases t <;> simp [zeroVal, HasType, inRange, IKind.minVal, IKind.maxVal]
        rename_i k; cases k <;> simp [IKind.signed, IKind.bits]
    | none =>
      cases e with
      | some e =>
        simp only [checkStmt] at h
        obtain ⟨o, ho, h⟩ := (bind_ok_iff _ _ _).1 h
        obtain ⟨t, ht, h⟩ := (bind_ok_iff _ _ _).1 h
        obtain ⟨o', ha, hd⟩ := (bind_ok_iff _ _ _).1 h
        rw [declare_ok hd]
        simp only [exec]
        have hs := checkExpr_sound fs he e ho (inferType_not_nil ht)
        cases hr : eval fs ρ e with
        | ok v =>
          rw [hr] at hs
          have := declVar_sound fs (x := x) he ho ha
          rw [hr] at this
          simpa only [Res.bind_ok, inferType_sound ht hs] using this
        | panic p => simp [StmtOK]
        | stuck => rw [hr] at hs; exact hs.elim
      | none => simp [checkStmt] at h
  | shortDecl x e =>
    simp only [checkStmt] at h
    obtain ⟨o, ho, h⟩ := (bind_ok_iff _ _ _).1 h
    obtain ⟨t, ht, h⟩ := (bind_ok_iff _ _ _).1 h
    obtain ⟨o', ha, hd⟩ := (bind_ok_iff _ _ _).1 h
    have hΓ : Γ' = (x, .var t) :: Γ := by
      split at hd
      · cases hd
      · injection hd with hd; exact hd.symm
    rw [hΓ]
    simp only [exec]
    have hs := checkExpr_sound fs he e ho (inferType_not_nil ht)
    cases hr : eval fs ρ e with
    | ok v =>
      rw [hr] at hs
      have := declVar_sound fs (x := x) he ho ha
      rw [hr] at this
      simpa only [Res.bind_ok, inferType_sound ht hs] using this
    | panic p => simp [StmtOK]
    | stuck => rw [hr] at hs; exact hs.elim
  | shortDecl2 x y e₁ e₂ =>
    simp only [checkStmt] at h
    obtain ⟨o₁, ho₁, h⟩ := (bind_ok_iff _ _ _).1 h
    obtain ⟨o₂, ho₂, h⟩ := (bind_ok_iff _ _ _).1 h
    simp only [ite_error_left] at h
    obtain ⟨hxy, h⟩ := h
    obtain ⟨a, ha, h⟩ := (bind_ok_iff _ _ _).1 h
    obtain ⟨b, hb, h⟩ := (bind_ok_iff _ _ _).1 h
    simp only [ite_error_left, pure_ok_iff] at h
    obtain ⟨_, h⟩ := h
    subst h
    simp only [exec]
    have hs₁ := checkExpr_sound fs he e₁ ho₁ (shortTarget_not_nil ha)
    have hs₂ := checkExpr_sound fs he e₂ ho₂ (shortTarget_not_nil hb)
    cases hr₁ : eval fs ρ e₁ with
    | ok v₁ =>
      rw [hr₁] at hs₁
      simp only [Res.bind_ok]
      cases hr₂ : eval fs ρ e₂ with
      | ok v₂ =>
        rw [hr₂] at hs₂
        simp only [Res.bind_ok]
        have h1 := storeShort_sound fs (x := x) he he (fun _ h => h) ha hs₁
        cases hst : storeShort fs ρ ρ x v₁ with
        | ok ρ₁ =>
          rw [hst] at h1
          simp only [Res.bind_ok]
          refine storeShort_sound fs (x := y) he h1 ?_ hb hs₂
          intro ent hl
          split
          · simp only [lookup]
            have : ¬ y = x := fun h => hxy h.symm
            simp only [this, if_false]; exact hl
          · exact hl
        | panic p => simp [StmtOK]
        | stuck => rw [hst] at h1; exact h1.elim
      | panic p => simp [StmtOK]
      | stuck => rw [hr₂] at hs₂; exact hs₂.elim
    | panic p => simp [StmtOK]
    | stuck => rw [hr₁] at hs₁; exact hs₁.elim
  | constDecl x t e =>
    cases t with
    | some t =>
      simp only [checkStmt] at h
      obtain ⟨o, ho, h⟩ := (bind_ok_iff _ _ _).1 h
      cases hov : o.val with
      | none => simp only [hov] at h; split at h <;> cases h
      | some c =>
        simp only [hov] at h
        obtain ⟨o', ha, h⟩ := (bind_ok_iff _ _ _).1 h
        cases hov' : o'.val with
        | none => simp only [hov'] at h; cases h
        | some c' =>
          simp only [hov'] at h
          rw [declare_ok h]
          simp only [exec]
          have hs := checkExpr_sound fs he e ho (assignTo_not_nil ha)
          cases hr : eval fs ρ e with
          | ok v =>
            rw [hr] at hs
            obtain ⟨v', hv', hok, hty⟩ := assignTo_const_sound ha hs (by simp [hov])
            simp only [Res.bind_ok, hv', StmtOK, EnvOK]
            refine ⟨trivial, rfl, ?_, he⟩
            obtain ⟨ty', val'⟩ := o'
            simp only at hty hov'; subst hty; subst hov'
            exact hok
          | panic p => simp [StmtOK]
          | stuck => rw [hr] at hs; exact hs.elim
    | none =>
      simp only [checkStmt] at h
      obtain ⟨o, ho, h⟩ := (bind_ok_iff _ _ _).1 h
      simp only [ite_error_left] at h
      obtain ⟨hnil, h⟩ := h
      cases hov : o.val with
      | none => simp only [hov] at h; cases h
      | some c =>
        simp only [hov] at h
        rw [declare_ok h]
        simp only [exec]
        have hs := checkExpr_sound fs he e ho hnil
        cases hr : eval fs ρ e with
        | ok v =>
          rw [hr] at hs
          simp only [Res.bind_ok, StmtOK, EnvOK]
          refine ⟨trivial, rfl, ?_, he⟩
          obtain ⟨ty', val'⟩ := o
          simp only at hov; subst hov
          exact hs
        | panic p => simp [StmtOK]
        | stuck => rw [hr] at hs; exact hs.elim
  | assign x e =>
    simp only [checkStmt] at h
    obtain ⟨o, ho, h⟩ := (bind_ok_iff _ _ _).1 h
    cases hl : lookup Γ x with
    | none => simp only [hl] at h; cases h
    | some ent =>
      cases ent with
      | const ty c => simp only [hl] at h; cases h
      | var t =>
        simp only [hl] at h
        obtain ⟨o', ha, h⟩ := (bind_ok_iff _ _ _).1 h
        simp at h; subst h
        obtain ⟨old, hd, hold⟩ := lookup_sound he hl
        have hold := valOK_var_iff.1 hold
        simp only [exec]
        have hs := checkExpr_sound fs he e ho (assignTo_not_nil ha)
        cases hr : eval fs ρ e with
        | ok v =>
          rw [hr] at hs
          obtain ⟨v', hv', ht⟩ := assignTo_var_sound fs ha hs
          simp only [Res.bind_ok, hd, hasType_btype hold, hv', StmtOK]
          exact dupdate_sound he hl ht
        | panic p => simp [StmtOK]
        | stuck => rw [hr] at hs; exact hs.elim
  | assignBlank e =>
    simp only [checkStmt] at h
    obtain ⟨o, ho, h⟩ := (bind_ok_iff _ _ _).1 h
    obtain ⟨t, ht, h⟩ := (bind_ok_iff _ _ _).1 h
    obtain ⟨o', ha, h⟩ := (bind_ok_iff _ _ _).1 h
    simp at h; subst h
    simp only [exec]
    have hs := checkExpr_sound fs he e ho (inferType_not_nil ht)
    cases hr : eval fs ρ e with
    | ok v =>
      rw [hr] at hs
      obtain ⟨v', hv', _⟩ := assignTo_var_sound fs ha hs
      simp only [Res.bind_ok, inferType_sound ht hs, hv', StmtOK]
      exact he
    | panic p => simp [StmtOK]
    | stuck => rw [hr] at hs; exact hs.elim
  | opAssign op x e =>
    simp only [checkStmt] at h
    split at h
    · cases h
    · cases hl : lookup Γ x with
      | none => simp only [hl] at h; cases h
      | some ent =>
        simp only [hl] at h
        obtain ⟨y, hy, h⟩ := (bind_ok_iff _ _ _).1 h
        obtain ⟨r, hb, h⟩ := (bind_ok_iff _ _ _).1 h
        cases ent with
        | const ty c => simp only at h; cases h
        | var t =>
          simp only at h
          obtain ⟨o', ha, h⟩ := (bind_ok_iff _ _ _).1 h
          simp at h; subst h
          obtain ⟨old, hd, hold⟩ := lookup_sound he hl
          simp only [exec, hd]
          have hs := checkExpr_sound fs he e hy (checkBinary_not_nil hb).2
          cases hr : eval fs ρ e with
          | ok w =>
            rw [hr] at hs
            simp only [Res.bind_ok]
            have hbs := binary_sound fs op _ y r old w hb hold hs
            cases hrb : evalBinary fs op old w with
            | ok rv =>
              rw [hrb] at hbs
              obtain ⟨v', hv', ht⟩ := assignTo_var_sound fs ha hbs
              simp only [Res.bind_ok, hasType_btype (valOK_var_iff.1 hold), hv', StmtOK]
              exact dupdate_sound he hl ht
            | panic p => simp [StmtOK]
            | stuck => rw [hrb] at hbs; exact hbs.elim
          | panic p => simp [StmtOK]
          | stuck => rw [hr] at hs; exact hs.elim
  | incDec inc x =>
    simp only [checkStmt] at h
    cases hl : lookup Γ x with
    | none => simp only [hl] at h; cases h
    | some ent =>
      simp only [hl] at h
      split at h
      · cases h
      · obtain ⟨r, hb, h⟩ := (bind_ok_iff _ _ _).1 h
        cases ent with
        | const ty c => simp only at h; cases h
        | var t =>
          simp only at h
          obtain ⟨o', ha, h⟩ := (bind_ok_iff _ _ _).1 h
          simp at h; subst h
          obtain ⟨old, hd, hold⟩ := lookup_sound he hl
          simp only [exec, hd]
          have hone : ValOK (F := F) ⟨.untyped .int, some (.int 1)⟩ (.uint .int 1) := by
            simp [ValOK, constValue]
          have hbs := binary_sound fs _ _ _ r old _ hb hold hone
          cases hrb : evalBinary fs (if inc = true then BinOp.add else BinOp.sub) old (.uint .int 1) with
          | ok rv =>
            rw [hrb] at hbs
            obtain ⟨v', hv', ht⟩ := assignTo_var_sound fs ha hbs
            simp only [Res.bind_ok, hasType_btype (valOK_var_iff.1 hold), hv', StmtOK]
            exact dupdate_sound he hl ht
          | panic p => simp [StmtOK]
          | stuck => rw [hrb] at hbs; exact hbs.elim

theorem checkStmts_sound {Γ Γ' : Env} {ρ : DEnv F} (he : EnvOK Γ ρ) (ss : List Stmt)
    (h : checkStmts Γ ss = .ok Γ') : StmtOK Γ' (execAll fs ρ ss) := by
  induction ss generalizing Γ ρ with
  | nil => simp only [checkStmts] at h; injection h with h; subst h; exact he
  | cons s rest ih =>
    simp only [checkStmts] at h
    obtain ⟨Γ₁, h1, h2⟩ := (bind_ok_iff _ _ _).1 h
    have hs := checkStmt_sound fs he s h1
    simp only [execAll]
    cases hr : exec fs ρ s with
    | ok ρ₁ => rw [hr] at hs; simp only [Res.bind_ok]; exact ih hs h2
    | panic p => simp [StmtOK]
    | stuck => rw [hr] at hs; exact hs.elim

end ScriggoV.TypeCheck
