import ScriggoV.Lemmas.ShowValueParse
import ScriggoV.Lemmas.ShowValueTags
import ScriggoV.Lemmas.ShowValueTime
/-! C08 helper lemmas, part 4: the induction on the value. For every well-shaped value with
finite floats the model of showInJS / showInJSON returns a text (no panic) that the decoder of
`Spec/JSON.lean` takes to `absScriggo` of the value, wherever a value may stand
(`showV_parses`). -/
namespace ScriggoV.ShowValue
open ScriggoV ScriggoV.JSON ScriggoV.Gen.ShowJS

/-! ### hypotheses -/

mutual
/-- every float below is finite — in JavaScript NaN is allowed too (`NaN` is an expression
there); DESIGN §8 row 19 is what happens otherwise -/
def floatsOK (m : Mode) : GoVal → Bool
  | .float _ c _ _ => c == .finite || (m.isJS && c == .nan)
  | .verb _ _ inner => floatsOK m inner
  | .err _ inner => floatsOK m inner
  | .iface v => floatsOK m v
  | .slice _ es => floatsOKL m es
  | .array es => floatsOKL m es
  | .map _ _ vs => floatsOKL m vs
  | .struct _ vs => floatsOKL m vs
  | .ptr _ _ e => floatsOK m e
  | _ => true
def floatsOKL (m : Mode) : List GoVal → Bool
  | [] => true
  | v :: vs => floatsOK m v && floatsOKL m vs
end

/-- the key is one the key loop can stringify, and its kind fits its constructor -/
def keyOK : GoKey → Bool
  | .int k _ => isIntKind k
  | .uint k _ => isUintKind k
  | .float k _ => isFloatKind k
  | .complex k _ => k == .complex64 || k == .complex128
  | .other _ => false
  | _ => true

/-- the key loop (type switch, then toString through its regenerated kind switch) spells a key
as the specification says -/
theorem keyString_eq (k : GoKey) (h : keyOK k = true) : keyString k = .ok (keySpec k) := by
  cases k with
  | stringer s => rfl
  | envStringer s => rfl
  | bool b => cases b <;> rfl
  | int k i => cases k <;> first | rfl | (simp [keyOK, isIntKind] at h)
  | uint k n => cases k <;> first | rfl | (simp [keyOK, isUintKind] at h)
  | float k d => cases k <;> first | rfl | (simp [keyOK, isFloatKind] at h)
  | str s => rfl
  | complex k t => cases k <;> first | rfl | (simp [keyOK] at h)
  | other k => simp [keyOK] at h

theorem keyStrings_eq (ks : List GoKey) (h : ks.all keyOK = true) :
    keyStrings ks = .ok (ks.map keySpec) := by
  induction ks with
  | nil => rfl
  | cons k ks ih =>
    simp only [List.all_cons, Bool.and_eq_true] at h
    rw [keyStrings, keyString_eq k h.1, ih h.2]
    rfl

mutual
/-- the description is one reflect can give, and the parameters behave as assumed:
* kinds fit the constructors (`KindOK`), keys/fields and values have the same length;
* **assumption on strconv.FormatFloat**: the digits of a *finite* float are an RFC 8259 number;
* what an envelope type (`native.JS`, `JSON()` …) yields is itself a text for some data in the
  context it is used in;
* in JS a time's year is within ±999999 (showTimeInJS panics otherwise); every map key is of a
  kind `toString` has a case for, with a kind that fits its constructor (`keyOK`);
* **assumption on strconv.FormatFloat**: NaN is spelled `NaN`;
* a non-nil pointer is not an `unsafe.Pointer` (that panics: finding `unsafe-pointer-host-panic`);
* in JS the `%s` of an unrepresentable type contains no `*/` (finding
  `js-undefined-comment-not-escaped`). -/
def Shaped (m : Mode) : GoVal → Prop
  | .nil => True
  | .verb js json inner =>
    KindOK inner = true ∧
    (match (if m.isJS then js else json) with
     | some raw => ∃ d, ParsesTo m.isJS raw d
     | none => Shaped m inner)
  | .time t => m.isJS = true → jsYearMin ≤ t.year ∧ t.year ≤ jsYearMax
  | .err _ inner => KindOK inner = true
  | .iface v => Shaped m v
  | .bool _ => True
  | .int k _ => isIntKind k = true
  | .uint k _ => isUintKind k = true
  | .float k c _ digits =>
    isFloatKind k = true ∧ (c = .finite → isNumber digits = true) ∧ (c = .nan → digits = kwNaN)
  | .str _ => True
  | .bytes _ _ => True
  | .nbytes _ _ => True
  | .slice _ es => ShapedL m es
  | .array es => ShapedL m es
  | .ptr u isNil e => isNil = true ∨ (u = false ∧ Shaped m e)
  | .struct fs vs => fs.length = vs.length ∧ ShapedL m vs
  | .map isNil ks vs => isNil = true ∨ (ks.length = vs.length ∧ ks.all keyOK = true ∧ ShapedL m vs)
  | .other k name => isOtherKind k = true ∧ (m.isJS = true → noCE name = true)
def ShapedL (m : Mode) : List GoVal → Prop
  | [] => True
  | v :: vs => (KindOK v = true ∧ Shaped m v) ∧ ShapedL m vs
end

/-! ### the regenerated tables: which kind goes where, what the literals are -/
section tables
variable (m : Mode)
theorem branch_bool : m.branch .bool = .bool := by cases m <;> rfl
theorem branch_string : m.branch .string = .string := by cases m <;> rfl
theorem branch_slice : m.branch .slice = .slice := by cases m <;> rfl
theorem branch_array : m.branch .array = .array := by cases m <;> rfl
theorem branch_pointer : m.branch .pointer = .pointer := by cases m <;> rfl
theorem branch_unsafePointer : m.branch .unsafePointer = .pointer := by cases m <;> rfl
theorem branch_struct : m.branch .struct = .struct := by cases m <;> rfl
theorem branch_map : m.branch .map = .map := by cases m <;> rfl
theorem branch_uint8 : m.branch .uint8 = .uint := by cases m <;> rfl
theorem branch_int (k : RKind) (h : isIntKind k = true) : m.branch k = .int := by
  cases m <;> cases k <;> first | rfl | exact absurd h (by decide)
theorem branch_uint (k : RKind) (h : isUintKind k = true) : m.branch k = .uint := by
  cases m <;> cases k <;> first | rfl | exact absurd h (by decide)
theorem branch_float (k : RKind) (h : isFloatKind k = true) :
    m.branch k = .float32 ∨ m.branch k = .float64 := by
  cases m <;> cases k <;> first | exact Or.inl rfl | exact Or.inr rfl | exact absurd h (by decide)
theorem branch_other (k : RKind) (h : isOtherKind k = true) : m.branch k = .default := by
  cases m <;> cases k <;> first | rfl | exact absurd h (by decide)

theorem lit_nilIface : m.lits.nilIface = kwNull := by cases m <;> rfl
theorem lit_true : m.lits.trueLit = kwTrue := by cases m <;> rfl
theorem lit_false : m.lits.falseLit = kwFalse := by cases m <;> rfl
theorem lit_strOpen : m.lits.strOpen = [0x22] := by cases m <;> rfl
theorem lit_strClose : m.lits.strClose = [0x22] := by cases m <;> rfl
theorem lit_nilSlice : m.lits.nilSlice = kwNull := by cases m <;> rfl
theorem lit_nilPtr : m.lits.nilPtr = kwNull := by cases m <;> rfl
theorem lit_nilMap : m.lits.nilMap = kwNull := by cases m <;> rfl
theorem lit_emptyArray : m.lits.emptyArray = [0x5B, 0x5D] := by cases m <;> rfl
theorem lit_arrOpen : m.lits.arrOpen = [0x5B] := by cases m <;> rfl
theorem lit_arrSep : m.lits.arrSep = [0x2C] := by cases m <;> rfl
theorem lit_arrClose : m.lits.arrClose = [0x5D] := by cases m <;> rfl
theorem lit_structOpen : m.lits.structOpen = [0x7B] := by cases m <;> rfl
theorem lit_structClose : m.lits.structClose = [0x7D] := by cases m <;> rfl
theorem lit_memberFirst : m.lits.memberFirst = [0x22] := by cases m <;> rfl
theorem lit_memberNext : m.lits.memberNext = [0x2C, 0x22] := by cases m <;> rfl
theorem lit_memberColon : m.lits.memberColon = [0x22, 0x3A] := by cases m <;> rfl
theorem lit_mapOpen : m.lits.mapOpen = [0x7B] := by cases m <;> rfl
theorem lit_mapClose : m.lits.mapClose = [0x7D] := by cases m <;> rfl
theorem lit_mapFirst : m.lits.mapFirst = [0x22] := by cases m <;> rfl
theorem lit_mapNext : m.lits.mapNext = [0x2C, 0x22] := by cases m <;> rfl
theorem lit_mapColon : m.lits.mapColon = [0x22, 0x3A] := by cases m <;> rfl
end tables

theorem lit_json_time : Mode.json.lits.timeOpen = [0x22] ∧ Mode.json.lits.timeClose = [0x22] := ⟨rfl, rfl⟩
theorem lit_json_default : Mode.json.lits.defaultShowsType = false ∧ Mode.json.lits.defaultPrefix = kwNull := ⟨rfl, rfl⟩

/-- the comment of the JS default branch: ` scriggo: cannot represent a ` … ` value ` -/
def jsCommentHead : Bytes := (Mode.js.lits.defaultPrefix.drop 11)
def jsCommentTail : Bytes := (Mode.js.lits.defaultSuffix.take (Mode.js.lits.defaultSuffix.length - 2))

theorem lit_js_default :
    Mode.js.lits.defaultShowsType = true ∧
    Mode.js.lits.defaultPrefix = kwUndefined ++ 0x2F :: 0x2A :: jsCommentHead ∧
    Mode.js.lits.defaultSuffix = jsCommentTail ++ [0x2A, 0x2F] ∧
    noCE jsCommentHead = true ∧ noCE jsCommentTail = true ∧
    jsCommentHead.getLast? ≠ some 0x2A ∧ jsCommentTail.head? ≠ some 0x2F := by
  refine ⟨rfl, by decide, by decide, by decide, by decide, by decide, by decide⟩

/-! ### an RFC 8259 number consists of number characters -/

theorem all_of_take_drop {p q : UInt8 → Bool} (l : Bytes) (h1 : ∀ c, p c = true → q c = true)
    (h2 : (l.dropWhile p).all q = true) : l.all q = true := by
  induction l with
  | nil => rfl
  | cons a r ih =>
    by_cases ha : p a = true
    · simp only [List.dropWhile, ha] at h2
      simp [h1 a ha, ih h2]
    · have : p a = false := by simpa using ha
      simp only [List.dropWhile, this] at h2
      exact h2

theorem all_digits_numChar (l : Bytes) (h : l.all isDigit = true) : l.all isNumChar = true := by
  rw [List.all_eq_true] at h ⊢
  intro c hc; exact isNumChar_of_isDigit c (h c hc)

theorem isExpPart_numChar (l : Bytes) (h : isExpPart l = true) : l.all isNumChar = true := by
  unfold isExpPart at h
  split at h
  · rfl
  · rename_i c r
    split at h
    · rename_i hc
      have hcn : isNumChar c = true := by
        simp only [Bool.or_eq_true, beq_iff_eq] at hc
        rcases hc with hc | hc <;> subst hc <;> decide
      split at h
      · exact absurd h (by simp)
      · rename_i s r'
        split at h
        · rename_i hs
          have hsn : isNumChar s = true := by
            simp only [Bool.or_eq_true, beq_iff_eq] at hs
            rcases hs with hs | hs <;> subst hs <;> decide
          simp only [Bool.and_eq_true] at h
          simp [hcn, hsn, all_digits_numChar r' h.2]
        · simp only [List.all_cons, hcn, Bool.true_and]
          exact all_digits_numChar _ h
    · exact absurd h (by simp)

theorem isFracExp_numChar (l : Bytes) (h : isFracExp l = true) : l.all isNumChar = true := by
  unfold isFracExp at h
  split at h
  · rfl
  · rename_i c r
    split at h
    · rename_i hc
      have hcn : isNumChar c = true := by
        rw [beq_iff_eq] at hc; subst hc; decide
      split at h
      · exact absurd h (by simp)
      · rename_i d r'
        simp only [Bool.and_eq_true] at h
        have := all_of_take_drop (p := isDigit) (q := isNumChar) r' isNumChar_of_isDigit
          (isExpPart_numChar _ h.2)
        simp [hcn, isNumChar_of_isDigit d h.1, this]
    · exact isExpPart_numChar _ h

theorem isUnsignedNumber_numChar (l : Bytes) (h : isUnsignedNumber l = true) :
    l.all isNumChar = true := by
  unfold isUnsignedNumber at h
  split at h
  · exact absurd h (by simp)
  · rename_i c r
    split at h
    · rename_i hc
      have hcn : isNumChar c = true := by rw [beq_iff_eq] at hc; subst hc; decide
      simp [hcn, isFracExp_numChar r h]
    · split at h
      · rename_i hd
        have := all_of_take_drop (p := isDigit) (q := isNumChar) r isNumChar_of_isDigit
          (isFracExp_numChar _ h)
        simp [isNumChar_of_isDigit c hd, this]
      · exact absurd h (by simp)

theorem isNumber_numChar (l : Bytes) (h : isNumber l = true) : l.all isNumChar = true := by
  unfold isNumber at h
  split at h
  · exact absurd h (by simp)
  · rename_i c r
    split at h
    · rename_i hc
      have hcn : isNumChar c = true := by rw [beq_iff_eq] at hc; subst hc; decide
      simp [hcn, isUnsignedNumber_numChar r h]
    · exact isUnsignedNumber_numChar _ h

/-! ### members as triples (key, text, data) -/

abbrev Triple := Bytes × (Bytes × Data)
def Triple.kt (z : Triple) : Bytes × Bytes := (z.1, z.2.1)
def Triple.kd (z : Triple) : Bytes × Data := (z.1, z.2.2)

theorem allParse_triples (js : Bool) (S : List Triple) (h : ∀ z ∈ S, ParsesTo js z.2.1 z.2.2) :
    AllParse js ((S.map Triple.kt).map (·.2)) (S.map (·.2.2)) := by
  induction S with
  | nil => simp [AllParse]
  | cons z S ih =>
    simp only [List.map_cons, AllParse]
    exact ⟨h z (List.mem_cons_self), ih (fun w hw => h w (List.mem_cons_of_mem _ hw))⟩

theorem zip_triples (S : List Triple) :
    ((S.map Triple.kt).map (·.1)).zip (S.map (·.2.2)) = S.map Triple.kd := by
  induction S with
  | nil => rfl
  | cons z S ih =>
    simp only [List.map_cons, List.zip_cons_cons, ih]
    rfl

theorem parsesTo_obj_triples (js : Bool) (S : List Triple)
    (h : ∀ z ∈ S, ParsesTo js z.2.1 z.2.2) :
    ParsesTo js (0x7B :: joinKV' true (S.map Triple.kt) ++ [0x7D]) (.obj (S.map Triple.kd)) := by
  cases S with
  | nil => simpa [joinKV'_nil] using parsesTo_obj_empty js
  | cons z S =>
    have := parsesTo_obj js ((z :: S).map Triple.kt) ((z :: S).map (·.2.2))
      (allParse_triples js _ h) (by simp)
    rw [zip_triples] at this
    exact this

/-! ### sorting by key -/

theorem insertByKey_map {α β : Type} (g : α → β) (p : Bytes × α) (l : List (Bytes × α)) :
    insertByKey (p.1, g p.2) (l.map (fun q => (q.1, g q.2)))
      = (insertByKey p l).map (fun q => (q.1, g q.2)) := by
  induction l with
  | nil => rfl
  | cons q r ih =>
    simp only [List.map_cons, insertByKey]
    split
    · rfl
    · simp [ih]

theorem sortByKey_map {α β : Type} (g : α → β) (l : List (Bytes × α)) :
    sortByKey (l.map (fun q => (q.1, g q.2))) = (sortByKey l).map (fun q => (q.1, g q.2)) := by
  induction l with
  | nil => rfl
  | cons p r ih =>
    simp only [List.map_cons, sortByKey]
    rw [ih]
    exact insertByKey_map g p (sortByKey r)

theorem mem_insertByKey {α : Type} (p z : Bytes × α) (l : List (Bytes × α))
    (h : z ∈ insertByKey p l) : z = p ∨ z ∈ l := by
  induction l with
  | nil => simp [insertByKey] at h; exact Or.inl h
  | cons q r ih =>
    simp only [insertByKey] at h
    split at h
    · simp only [List.mem_cons] at h ⊢
      rcases h with h | h | h
      · exact Or.inl h
      · exact Or.inr (Or.inl h)
      · exact Or.inr (Or.inr h)
    · simp only [List.mem_cons] at h ⊢
      rcases h with h | h
      · exact Or.inr (Or.inl h)
      · rcases ih h with h | h
        · exact Or.inl h
        · exact Or.inr (Or.inr h)

theorem mem_sortByKey {α : Type} (z : Bytes × α) (l : List (Bytes × α)) (h : z ∈ sortByKey l) :
    z ∈ l := by
  induction l with
  | nil => simp [sortByKey] at h
  | cons p r ih =>
    simp only [sortByKey] at h
    rcases mem_insertByKey p z _ h with h | h
    · subst h; exact List.mem_cons_self
    · exact List.mem_cons_of_mem _ (ih h)

/-- keys, texts and data zipped together -/
theorem zip3 (js : Bool) (ks : List Bytes) (rs : List Bytes) (ds : List Data)
    (h : AllParse js rs ds) :
    (ks.zip (rs.zip ds)).map Triple.kt = ks.zip rs ∧ (ks.zip (rs.zip ds)).map Triple.kd = ks.zip ds ∧
      ∀ z ∈ ks.zip (rs.zip ds), ParsesTo js z.2.1 z.2.2 := by
  induction ks generalizing rs ds with
  | nil => simp
  | cons k ks ih =>
    cases rs with
    | nil =>
      cases ds with
      | nil => simp
      | cons _ _ => exact absurd h (by simp [AllParse])
    | cons r rs =>
      cases ds with
      | nil => exact absurd h (by simp [AllParse])
      | cons d ds =>
        obtain ⟨h1, h2⟩ := h
        obtain ⟨i1, i2, i3⟩ := ih rs ds h2
        refine ⟨by simp [Triple.kt, ← i1], by simp [Triple.kd, ← i2], ?_⟩
        intro z hz
        simp only [List.zip_cons_cons, List.mem_cons] at hz
        rcases hz with hz | hz
        · subst hz; exact h1
        · exact i3 z hz

/-! ### the induction -/

/-- Scriggo's own reading of its output: `abs` without the encoding/json clauses -/
abbrev cfgS : Bool := false

theorem kt_eq : (Triple.kt : Triple → Bytes × Bytes) = fun q => (q.1, Prod.fst q.2) := rfl
theorem kd_eq : (Triple.kd : Triple → Bytes × Data) = fun q => (q.1, Prod.snd q.2) := rfl

theorem quoted_eq (m : Mode) (s : Bytes) : quoted m.lits s = 0x22 :: jsStrEsc s ++ [0x22] := by
  unfold quoted; rw [lit_strOpen, lit_strClose]; simp

theorem ok_bind {α β : Type} (a : α) (f : α → Except Fault β) :
    (Except.ok a >>= f) = f a := rfl

/-- with `std = false` an embedded struct is an ordinary field -/
theorem absFields_scriggo_cons (m : Mode) (f : Field) (fs : List Field) (v : GoVal) (vs : List GoVal) :
    absFields false m (f :: fs) (v :: vs) =
      match fieldName false f v with
      | none => absFields false m fs vs
      | some name => (name, abs false m v) :: absFields false m fs vs := by
  rw [absFields.eq_def]
  simp
  cases fieldName false f v <;> rfl

mutual
theorem showV_parses (m : Mode) : ∀ (v : GoVal), Shaped m v → floatsOK m v = true →
    ∃ s, showV m v = .ok s ∧ ParsesTo m.isJS s (abs cfgS m v)
  | .nil, _, _ => by
    refine ⟨kwNull, ?_, ?_⟩
    · rw [showV, lit_nilIface]
    · rw [abs]; exact parsesTo_null _
  | .verb js json inner, h, hf => by
    rw [Shaped] at h
    rw [floatsOK] at hf
    rw [showV, abs]
    generalize (if m.isJS = true then js else json) = sel at h ⊢
    cases sel with
    | none => exact showV_parses m inner h.2 hf
    | some raw =>
      obtain ⟨d, hd⟩ := h.2
      refine ⟨raw, rfl, ?_⟩
      simp only [hd.top, Option.getD_some]
      exact hd
  | .time t, h, _ => by
    rw [Shaped] at h
    rw [showV, abs]
    cases m with
    | js =>
      simp only [Mode.isJS, if_true] at h ⊢
      obtain ⟨h1, h2⟩ := h trivial
      refine ⟨_, showTimeInJS_eq t h1 h2, ?_⟩
      exact parsesTo_date (ecmaDate t) (ecmaDate_plain t)
    | json =>
      refine ⟨_, rfl, ?_⟩
      simp only [Mode.isJS, Bool.false_eq_true, if_false, cfgS]
      rw [lit_json_time.1, lit_json_time.2]
      exact parsesTo_str false _ _ (fun rest => parseStr_plain_all _ rest (fmtRFC3339_plain t))
  | .err msg inner, _, _ => by
    rw [showV, abs, branch_string]
    refine ⟨_, rfl, ?_⟩
    rw [quoted_eq]
    exact parsesTo_str _ _ msg (parseStr_jsStrEsc msg)
  | .iface v, h, hf => by
    rw [Shaped] at h
    rw [floatsOK] at hf
    rw [showV, abs]
    exact showV_parses m v h hf
  | .bool b, _, _ => by
    rw [showV, abs, branch_bool]
    refine ⟨_, rfl, ?_⟩
    cases b
    · simp only [Bool.false_eq_true, if_false]; rw [lit_false]; exact parsesTo_false _
    · simp only [if_true]; rw [lit_true]; exact parsesTo_true _
  | .int k i, h, _ => by
    rw [Shaped] at h
    rw [showV, abs, branch_int m k h]
    exact ⟨_, rfl, parsesTo_num _ _ (isNumber_fmtInt i) (fmtInt_all_numChar i)⟩
  | .uint k n, h, _ => by
    rw [Shaped] at h
    rw [showV, abs, branch_uint m k h]
    exact ⟨_, rfl, parsesTo_num _ _ (isNumber_natDigits n) (natDigits_all_numChar n)⟩
  | .float k c z digits, h, hf => by
    rw [Shaped] at h
    rw [floatsOK] at hf
    rw [showV, abs]
    have hp : ParsesTo m.isJS digits (.num digits) := by
      simp only [Bool.or_eq_true, Bool.and_eq_true, beq_iff_eq] at hf
      rcases hf with hc | ⟨hj, hc⟩
      · have hn := h.2.1 hc
        exact parsesTo_num _ _ hn (isNumber_numChar _ hn)
      · rw [h.2.2 hc, hj]; exact parsesTo_nan
    rcases branch_float m k h.1 with hb | hb <;> rw [hb] <;> exact ⟨_, rfl, hp⟩
  | .str s, _, _ => by
    rw [showV, abs, branch_string]
    refine ⟨_, rfl, ?_⟩
    rw [quoted_eq]
    exact parsesTo_str _ _ s (parseStr_jsStrEsc s)
  | .bytes isNil b, _, _ => by
    rw [showV, abs, branch_slice]
    refine ⟨_, rfl, ?_⟩
    simp only [cfgS, Bool.false_and, Bool.false_eq_true, if_false]
    exact parsesTo_str _ (base64 b) (base64 b) (fun rest => parseStr_plain_all _ rest (base64_plain b))
  | .slice isNil es, h, hf => by
    rw [Shaped] at h
    rw [floatsOK] at hf
    rw [showV, abs, branch_slice]
    cases isNil with
    | true =>
      simp only [if_true]
      refine ⟨_, rfl, ?_⟩
      rw [lit_nilSlice]; exact parsesTo_null _
    | false =>
      simp only [Bool.false_eq_true, if_false]
      cases es with
      | nil =>
        simp only [List.isEmpty_nil, if_true]
        refine ⟨_, rfl, ?_⟩
        rw [lit_emptyArray, absList]; exact parsesTo_arr_empty _
      | cons v vs =>
        simp only [List.isEmpty_cons, Bool.false_eq_true, if_false]
        obtain ⟨rs, h1, h2⟩ := showList_parses m (v :: vs) h hf
        rw [h1]
        refine ⟨_, rfl, ?_⟩
        rw [lit_arrOpen, lit_arrSep, lit_arrClose]
        have hne : rs ≠ [] := by
          intro e; subst e; rw [absList] at h2; exact h2
        have := parsesTo_arr m.isJS rs _ h2 hne
        simpa using this
  | .nbytes isNil b, _, _ => by
    rw [showV, abs, branch_slice]
    cases isNil with
    | true =>
      simp only [if_true]
      exact ⟨_, rfl, by rw [lit_nilSlice]; exact parsesTo_null _⟩
    | false =>
      simp only [Bool.false_eq_true, if_false, cfgS]
      cases b with
      | nil =>
        simp only [List.isEmpty_nil, if_true, List.map_nil]
        exact ⟨_, rfl, by rw [lit_emptyArray]; exact parsesTo_arr_empty _⟩
      | cons c cs =>
        simp only [List.isEmpty_cons, Bool.false_eq_true, if_false, branch_uint8]
        refine ⟨_, rfl, ?_⟩
        rw [lit_arrOpen, lit_arrSep, lit_arrClose]
        have hall : ∀ l : Bytes, AllParse m.isJS (l.map (fun c => natDigits c.toNat))
            (l.map (fun c => Data.num (natDigits c.toNat))) := by
          intro l
          induction l with
          | nil => simp [AllParse]
          | cons x xs ih =>
            simp only [List.map_cons, AllParse]
            exact ⟨parsesTo_num _ _ (isNumber_natDigits _) (natDigits_all_numChar _), ih⟩
        have := parsesTo_arr m.isJS _ _ (hall (c :: cs)) (by simp)
        simpa using this
  | .array es, h, hf => by
    rw [Shaped] at h
    rw [floatsOK] at hf
    rw [showV, abs, branch_array]
    cases es with
    | nil =>
      simp only [List.isEmpty_nil, if_true]
      refine ⟨_, rfl, ?_⟩
      rw [lit_emptyArray, absList]; exact parsesTo_arr_empty _
    | cons v vs =>
      simp only [List.isEmpty_cons, Bool.false_eq_true, if_false]
      obtain ⟨rs, h1, h2⟩ := showList_parses m (v :: vs) h hf
      rw [h1]
      refine ⟨_, rfl, ?_⟩
      rw [lit_arrOpen, lit_arrSep, lit_arrClose]
      have hne : rs ≠ [] := by
        intro e; subst e; rw [absList] at h2; exact h2
      have := parsesTo_arr m.isJS rs _ h2 hne
      simpa using this
  | .ptr u isNil e, h, hf => by
    rw [Shaped] at h
    rw [floatsOK] at hf
    rw [showV, abs]
    cases isNil with
    | true =>
      cases u <;> simp only [if_true, Bool.false_eq_true, if_false, branch_pointer, branch_unsafePointer] <;>
        exact ⟨_, rfl, by rw [lit_nilPtr]; exact parsesTo_null _⟩
    | false =>
      rcases h with h | ⟨hu, he⟩
      · exact absurd h (by simp)
      · subst hu
        simp only [Bool.false_eq_true, if_false, branch_pointer]
        exact showV_parses m e he hf
  | .struct fs vs, h, hf => by
    rw [Shaped] at h
    rw [floatsOK] at hf
    rw [showV, abs, branch_struct]
    obtain ⟨S, h1, h2, h3⟩ := showFields_parses m true fs vs h.1 h.2 hf
    rw [h1, h3]
    refine ⟨_, rfl, ?_⟩
    rw [lit_structOpen, lit_structClose]
    have := parsesTo_obj_triples m.isJS S h2
    simpa using this
  | .map isNil ks vs, h, hf => by
    rw [Shaped] at h
    rw [floatsOK] at hf
    rw [showV, abs, branch_map]
    cases isNil with
    | true =>
      simp only [if_true]
      exact ⟨_, rfl, by rw [lit_nilMap]; exact parsesTo_null _⟩
    | false =>
      rcases h with h | ⟨hl, hs⟩
      · exact absurd h (by simp)
      · simp only [Bool.false_eq_true, if_false]
        have : (ks.length != vs.length) = false := by simp [hl]
        simp only [this, Bool.false_eq_true, if_false]
        rw [keyStrings_eq ks hs.1]
        obtain ⟨rs, h1, h2⟩ := showList_parses m vs hs.2 hf
        simp only [ok_bind]
        rw [h1]
        refine ⟨_, rfl, ?_⟩
        obtain ⟨z1, z2, z3⟩ := zip3 m.isJS (ks.map keySpec) rs _ h2
        have e1 : sortPairs ((ks.map keySpec).zip rs)
            = (sortByKey ((ks.map keySpec).zip (rs.zip (absList cfgS m vs)))).map Triple.kt := by
          unfold sortPairs
          rw [← z1, kt_eq, sortByKey_map]
        have e2 : sortByKey ((ks.map keySpec).zip (absList cfgS m vs))
            = (sortByKey ((ks.map keySpec).zip (rs.zip (absList cfgS m vs)))).map Triple.kd := by
          rw [← z2, kd_eq, sortByKey_map]
        rw [e1, e2, lit_mapOpen, lit_mapClose]
        unfold joinMembers
        rw [lit_mapFirst, lit_mapNext, lit_mapColon]
        have := parsesTo_obj_triples m.isJS (sortByKey ((ks.map keySpec).zip (rs.zip (absList cfgS m vs))))
          (fun z hz => z3 z (mem_sortByKey z _ hz))
        simpa using this
  | .other k name, h, _ => by
    rw [Shaped] at h
    rw [showV, abs, branch_other m k h.1]
    cases m with
    | json =>
      simp only [lit_json_default.1, Bool.false_eq_true, if_false, Mode.isJS]
      exact ⟨_, rfl, by rw [lit_json_default.2]; exact parsesTo_null _⟩
    | js =>
      obtain ⟨l1, l2, l3, l4, l5, l6, l7⟩ := lit_js_default
      simp only [l1, if_true, Mode.isJS]
      refine ⟨_, rfl, ?_⟩
      rw [l2, l3]
      have hn := h.2 rfl
      have hb : noCE (jsCommentHead ++ name ++ jsCommentTail) = true :=
        noCE_append _ _ (noCE_append _ _ l4 hn (Or.inl l6)) l5 (Or.inr l7)
      have := parsesTo_undefined (jsCommentHead ++ name ++ jsCommentTail) hb
      simpa using this

theorem showList_parses (m : Mode) : ∀ (vs : List GoVal), ShapedL m vs → floatsOKL m vs = true →
    ∃ rs, showList m vs = .ok rs ∧ AllParse m.isJS rs (absList cfgS m vs)
  | [], _, _ => ⟨[], by rw [showList], by rw [absList]; trivial⟩
  | v :: vs, h, hf => by
    rw [ShapedL] at h
    rw [floatsOKL, Bool.and_eq_true] at hf
    obtain ⟨r, h1, h2⟩ := showV_parses m v h.1.2 hf.1
    obtain ⟨rs, h3, h4⟩ := showList_parses m vs h.2 hf.2
    refine ⟨r :: rs, ?_, ?_⟩
    · rw [showList, h1, h3]; rfl
    · rw [absList]; exact ⟨h2, h4⟩

theorem showFields_parses (m : Mode) : ∀ (first : Bool) (fs : List Field) (vs : List GoVal),
    fs.length = vs.length → ShapedL m vs → floatsOKL m vs = true →
    ∃ S : List Triple, showFields m first fs vs = .ok (joinKV' first (S.map Triple.kt)) ∧
      (∀ z ∈ S, ParsesTo m.isJS z.2.1 z.2.2) ∧ absFields cfgS m fs vs = S.map Triple.kd
  | first, [], [], _, _, _ => ⟨[], by simp [showFields, joinKV'_nil], by simp, by simp [absFields]⟩
  | first, f :: fs, v :: vs, hl, h, hf => by
    rw [ShapedL] at h
    rw [floatsOKL, Bool.and_eq_true] at hf
    have hl' : fs.length = vs.length := by simpa using hl
    rw [showFields, absFields_scriggo_cons]
    by_cases he : f.exported = true
    · simp only [he, Bool.not_true, Bool.false_eq_true, if_false]
      rw [fieldDecision_eq f v he h.1.1]
      cases hn : fieldName false f v with
      | none =>
        simp only []
        exact showFields_parses m first fs vs hl' h.2 hf.2
      | some name =>
        simp only []
        obtain ⟨val, h1, h2⟩ := showV_parses m v h.1.2 hf.1
        obtain ⟨S, h3, h4, h5⟩ := showFields_parses m false fs vs hl' h.2 hf.2
        refine ⟨(name, val, abs cfgS m v) :: S, ?_, ?_, ?_⟩
        · rw [h1, h3, lit_memberFirst, lit_memberNext, lit_memberColon]
          simp only [ok_bind, List.map_cons, Triple.kt]
          cases first <;> simp [joinKV', joinKV]
        · intro z hz
          simp only [List.mem_cons] at hz
          rcases hz with hz | hz
          · subst hz; exact h2
          · exact h4 z hz
        · simp only [List.map_cons, Triple.kd]
          rw [← h5]
    · have he' : f.exported = false := by simpa using he
      have hn : fieldName false f v = none := by unfold fieldName; simp [he']
      simp only [he', Bool.not_false, if_true, hn]
      exact showFields_parses m first fs vs hl' h.2 hf.2
  | _, [], _ :: _, hl, _, _ => by simp at hl
  | _, _ :: _, [], hl, _, _ => by simp at hl
end

end ScriggoV.ShowValue
