import ScriggoV.Basic.Utf8
/-! UTF-8 round trip for C25: decoding the encoding of a valid code point gives it back, with
the width of the encoding, whatever follows; every decoded value is a valid code point. -/
namespace ScriggoV.Utf8

theorem toNat_toUInt8 (n : Nat) (h : n < 256) : n.toUInt8.toNat = n := by
  simp [Nat.toUInt8, UInt8.toNat_ofNat']
  omega

/-- a Unicode scalar value: what `utf8.ValidRune` accepts -/
def ValidRune (r : Nat) : Prop := r ≤ 0x10FFFF ∧ ¬ (0xD800 ≤ r ∧ r ≤ 0xDFFF)

theorem decode_encode (r : Nat) (hv : ValidRune r) (t : Bytes) :
    decodeRune (encodeRune r ++ t) = (r, (encodeRune r).length) := by
  obtain ⟨hmax, hsur⟩ := hv
  unfold encodeRune
  by_cases h1 : r < 0x80
  · rw [if_pos h1]
    simp only [List.cons_append, List.nil_append, decodeRune, toNat_toUInt8 r (by omega), h1, if_true,
      List.length_cons, List.length_nil]
  · rw [if_neg h1]
    by_cases h2 : r < 0x800
    · rw [if_pos h2]
      have e0 := toNat_toUInt8 (0xC0 + r / 64) (by omega)
      have e1 := toNat_toUInt8 (0x80 + r % 64) (by omega)
      have hl : leadInfo (0xC0 + r / 64) = some (2, 0x80, 0xBF) := by
        unfold leadInfo; rw [if_pos (by omega)]
      simp only [List.cons_append, List.nil_append, decodeRune, e0, e1, hl]
      rw [if_neg (by omega), if_neg (by omega)]
      simp only [if_true, List.length_cons, List.length_nil]
      congr 1
      omega
    · rw [if_neg h2]
      have hns : (decide (r > 0x10FFFF) || isSurrogate r) = false := by
        unfold isSurrogate
        simp only [Bool.or_eq_false_iff, decide_eq_false_iff_not, Bool.and_eq_false_iff]
        refine ⟨by omega, ?_⟩
        by_cases h : 0xD800 ≤ r
        · right; omega
        · left; exact h
      rw [hns]
      simp only [Bool.false_eq_true, if_false]
      by_cases h3 : r < 0x10000
      · rw [if_pos h3]
        have e0 := toNat_toUInt8 (0xE0 + r / 4096) (by omega)
        have e1 := toNat_toUInt8 (0x80 + r / 64 % 64) (by omega)
        have e2 := toNat_toUInt8 (0x80 + r % 64) (by omega)
        have hc2 : isCont (0x80 + r % 64).toUInt8 = true := by
          unfold isCont; rw [e2]; simp; omega
        have hl : ∃ lo hi, leadInfo (0xE0 + r / 4096) = some (3, lo, hi) ∧ lo ≤ 0x80 + r / 64 % 64 ∧
            0x80 + r / 64 % 64 ≤ hi := by
          unfold leadInfo
          rw [if_neg (by omega)]
          by_cases ha : 0xE0 + r / 4096 = 0xE0
          · rw [if_pos ha]; exact ⟨_, _, rfl, by omega, by omega⟩
          · rw [if_neg ha]
            by_cases hb : 0xE1 ≤ 0xE0 + r / 4096 ∧ 0xE0 + r / 4096 ≤ 0xEC
            · rw [if_pos hb]; exact ⟨_, _, rfl, by omega, by omega⟩
            · rw [if_neg hb]
              by_cases hd : 0xE0 + r / 4096 = 0xED
              · rw [if_pos hd]; exact ⟨_, _, rfl, by omega, by omega⟩
              · rw [if_neg hd, if_pos (by omega)]; exact ⟨_, _, rfl, by omega, by omega⟩
        obtain ⟨lo, hi, hl, hlo, hhi⟩ := hl
        simp only [List.cons_append, List.nil_append, decodeRune, e0, e1, e2, hl, hc2]
        rw [if_neg (by omega), if_neg (by omega)]
        simp only [Bool.not_true, Bool.false_eq_true, if_false, if_true, List.length_cons, List.length_nil]
        rw [if_neg (by omega)]
        congr 1
        omega
      · rw [if_neg h3]
        have e0 := toNat_toUInt8 (0xF0 + r / 262144) (by omega)
        have e1 := toNat_toUInt8 (0x80 + r / 4096 % 64) (by omega)
        have e2 := toNat_toUInt8 (0x80 + r / 64 % 64) (by omega)
        have e3 := toNat_toUInt8 (0x80 + r % 64) (by omega)
        have hc2 : isCont (0x80 + r / 64 % 64).toUInt8 = true := by
          unfold isCont; rw [e2]; simp; omega
        have hc3 : isCont (0x80 + r % 64).toUInt8 = true := by
          unfold isCont; rw [e3]; simp; omega
        have hl : ∃ lo hi, leadInfo (0xF0 + r / 262144) = some (4, lo, hi) ∧ lo ≤ 0x80 + r / 4096 % 64 ∧
            0x80 + r / 4096 % 64 ≤ hi := by
          unfold leadInfo
          rw [if_neg (by omega), if_neg (by omega), if_neg (by omega), if_neg (by omega), if_neg (by omega)]
          by_cases ha : 0xF0 + r / 262144 = 0xF0
          · rw [if_pos ha]; exact ⟨_, _, rfl, by omega, by omega⟩
          · rw [if_neg ha]
            by_cases hb : 0xF1 ≤ 0xF0 + r / 262144 ∧ 0xF0 + r / 262144 ≤ 0xF3
            · rw [if_pos hb]; exact ⟨_, _, rfl, by omega, by omega⟩
            · rw [if_neg hb, if_pos (by omega)]; exact ⟨_, _, rfl, by omega, by omega⟩
        obtain ⟨lo, hi, hl, hlo, hhi⟩ := hl
        simp only [List.cons_append, List.nil_append, decodeRune, e0, e1, e2, e3, hl, hc2, hc3]
        rw [if_neg (by omega), if_neg (by omega)]
        simp only [Bool.not_true, Bool.false_eq_true, if_false, List.length_cons, List.length_nil]
        rw [if_neg (by omega), if_neg (by omega)]
        congr 1
        omega

theorem leadInfo_facts (p0 sz lo hi : Nat) (h : leadInfo p0 = some (sz, lo, hi)) :
    0x80 ≤ lo ∧ hi ≤ 0xBF ∧ ((sz = 2 ∧ 0xC2 ≤ p0 ∧ p0 ≤ 0xDF) ∨
    (sz = 3 ∧ 0xE0 ≤ p0 ∧ p0 ≤ 0xEF ∧ (p0 = 0xED → hi = 0x9F)) ∨
    (sz = 4 ∧ 0xF0 ≤ p0 ∧ p0 ≤ 0xF4 ∧ (p0 = 0xF4 → hi = 0x8F) ∧ (p0 = 0xF0 → lo = 0x90))) ∧
    (p0 = 0xE0 → lo = 0xA0) := by
  unfold leadInfo at h
  repeat' split at h
  all_goals cases h
  all_goals omega

theorem decodeRune_valid (s : Bytes) : ValidRune (decodeRune s).1 := by
  unfold ValidRune
  match s with
  | [] => simp [decodeRune, runeError]
  | p0 :: rest =>
    have hp := p0.toNat_lt
    simp only [decodeRune]
    split
    · simp only []; omega
    · split
      · simp [runeError]
      · rename_i sz lo hi hl
        have hf := leadInfo_facts _ _ _ _ hl
        split
        · simp [runeError]
        · rename_i b1 r1
          have hb1 := b1.toNat_lt
          split
          · simp [runeError]
          · rename_i hr
            split
            · simp only []; omega
            · split
              · simp [runeError]
              · rename_i b2 r2
                have hb2 := b2.toNat_lt
                split
                · simp [runeError]
                · split
                  · simp only []; omega
                  · split
                    · simp [runeError]
                    · rename_i b3 r3
                      have hb3 := b3.toNat_lt
                      split
                      · simp [runeError]
                      · simp only []; omega

theorem toUInt8_of_toNat (b : UInt8) (n : Nat) (h : b.toNat = n) : n.toUInt8 = b := by
  subst h; simp

/-- a decoded rune other than the replacement character re-encodes to the bytes it was decoded from -/
theorem encode_decode (s : Bytes) (h : (decodeRune s).1 ≠ runeError) :
    encodeRune (decodeRune s).1 = s.take (decodeRune s).2 := by
  match s with
  | [] => simp [decodeRune] at h
  | p0 :: rest =>
    have hp := p0.toNat_lt
    simp only [decodeRune] at h ⊢
    split
    · rename_i ha
      simp only [encodeRune, ha, if_true, List.take_succ_cons, List.take_zero]
      rw [toUInt8_of_toNat p0 _ rfl]
    · rename_i ha
      split
      · rename_i hl; simp [hl, ha] at h
      · rename_i sz lo hi hl
        obtain ⟨hlo, hhi, hf, hE0⟩ := leadInfo_facts _ _ _ _ hl
        simp only [hl, ha, if_false] at h
        split
        · simp at h
        · rename_i b1 r1
          have hb1 := b1.toNat_lt
          simp only [] at h
          split
          · rename_i hr; simp [hr] at h
          · rename_i hr
            simp only [hr, if_false] at h
            split
            · rename_i hsz
              -- two bytes
              have hv1 : ¬ (p0.toNat % 32 * 64 + b1.toNat % 64 < 0x80) := by omega
              have hv2 : p0.toNat % 32 * 64 + b1.toNat % 64 < 0x800 := by omega
              simp only [encodeRune, hv1, hv2, if_true, if_false, List.take_succ_cons, List.take_zero]
              rw [toUInt8_of_toNat p0 _ (by omega), toUInt8_of_toNat b1 _ (by omega)]
            · rename_i hsz
              simp only [hsz, if_false] at h
              split
              · simp at h
              · rename_i b2 r2
                have hb2 := b2.toNat_lt
                simp only [] at h
                split
                · rename_i hc; simp [hc] at h
                · rename_i hc
                  have hc' : isCont b2 = true := by simpa using hc
                  unfold isCont at hc'
                  simp only [Bool.and_eq_true, decide_eq_true_eq] at hc'
                  simp only [hc] at h
                  split
                  · rename_i hsz3
                    -- three bytes
                    have hv1 : ¬ (p0.toNat % 16 * 4096 + b1.toNat % 64 * 64 + b2.toNat % 64 < 0x80) := by omega
                    have hv2 : ¬ (p0.toNat % 16 * 4096 + b1.toNat % 64 * 64 + b2.toNat % 64 < 0x800) := by omega
                    have hv3 : (decide (p0.toNat % 16 * 4096 + b1.toNat % 64 * 64 + b2.toNat % 64 > 0x10FFFF) ||
                        isSurrogate (p0.toNat % 16 * 4096 + b1.toNat % 64 * 64 + b2.toNat % 64)) = false := by
                      unfold isSurrogate
                      simp only [Bool.or_eq_false_iff, decide_eq_false_iff_not, Bool.and_eq_false_iff]
                      refine ⟨by omega, ?_⟩
                      by_cases hh : 0xD800 ≤ p0.toNat % 16 * 4096 + b1.toNat % 64 * 64 + b2.toNat % 64
                      · right; omega
                      · left; exact hh
                    have hv4 : p0.toNat % 16 * 4096 + b1.toNat % 64 * 64 + b2.toNat % 64 < 0x10000 := by omega
                    simp only [encodeRune, hv1, hv2, hv3, hv4, if_true, if_false, Bool.false_eq_true,
                      List.take_succ_cons, List.take_zero]
                    rw [toUInt8_of_toNat p0 _ (by omega), toUInt8_of_toNat b1 _ (by omega),
                      toUInt8_of_toNat b2 _ (by omega)]
                  · rename_i hsz3
                    simp only [hsz3, if_false] at h
                    split
                    · simp at h
                    · rename_i b3 r3
                      have hb3 := b3.toNat_lt
                      simp only [] at h
                      split
                      · rename_i hc3; simp [hc3] at h
                      · rename_i hc3
                        have hc3' : isCont b3 = true := by simpa using hc3
                        unfold isCont at hc3'
                        simp only [Bool.and_eq_true, decide_eq_true_eq] at hc3'
                        -- four bytes
                        have hv1 : ¬ (p0.toNat % 8 * 262144 + b1.toNat % 64 * 4096 + b2.toNat % 64 * 64 + b3.toNat % 64 < 0x80) := by omega
                        have hv2 : ¬ (p0.toNat % 8 * 262144 + b1.toNat % 64 * 4096 + b2.toNat % 64 * 64 + b3.toNat % 64 < 0x800) := by omega
                        have hv3 : (decide (p0.toNat % 8 * 262144 + b1.toNat % 64 * 4096 + b2.toNat % 64 * 64 + b3.toNat % 64 > 0x10FFFF) ||
                            isSurrogate (p0.toNat % 8 * 262144 + b1.toNat % 64 * 4096 + b2.toNat % 64 * 64 + b3.toNat % 64)) = false := by
                          unfold isSurrogate
                          simp only [Bool.or_eq_false_iff, decide_eq_false_iff_not, Bool.and_eq_false_iff]
                          refine ⟨by omega, Or.inr (by omega)⟩
                        have hv4 : ¬ (p0.toNat % 8 * 262144 + b1.toNat % 64 * 4096 + b2.toNat % 64 * 64 + b3.toNat % 64 < 0x10000) := by omega
                        simp only [encodeRune, hv1, hv2, hv3, hv4, if_false, Bool.false_eq_true,
                          List.take_succ_cons, List.take_zero]
                        rw [toUInt8_of_toNat p0 _ (by omega), toUInt8_of_toNat b1 _ (by omega),
                          toUInt8_of_toNat b2 _ (by omega), toUInt8_of_toNat b3 _ (by omega)]

end ScriggoV.Utf8
