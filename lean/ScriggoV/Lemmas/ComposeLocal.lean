import ScriggoV.Model.ComposeLocal
/-! C16 — local declarations shadow the names of other files: lemmas about `Model/ComposeLocal.lean`. -/
namespace ScriggoV.Compose.Local

theorem resolveLocal_append_of_none (pre rest : Chain) (n : Nat)
    (h : ∀ g ∈ pre, find g.decls n = none) : resolveLocal (pre ++ rest) n = resolveLocal rest n := by
  induction pre with
  | nil => rfl
  | cons g gs ih =>
    simp only [List.cons_append, resolveLocal]
    rw [h g (List.mem_cons_self ..)]
    exact ih (fun x hx => h x (List.mem_cons_of_mem _ hx))

/-- what is declared in the current function is a local of the lexical scope -/
theorem resolveLocal_of_declaredInFunc (c : Chain) (n : Nat) (h : declaredInFunc c n = true) :
    (resolveLocal c n).isSome = true := by
  induction c with
  | nil => simp [declaredInFunc] at h
  | cons f rest ih =>
    simp only [resolveLocal]
    cases hf : find f.decls n with
    | some d => rfl
    | none =>
      simp only [declaredInFunc, hf, Option.isSome_none, Bool.false_or, Bool.and_eq_true] at h
      exact ih h.2

/-- a closure variable is not declared in the current function (the pair `(true, true)` of the two
atoms of the guard does not occur) -/
theorem isClosureVar_of_declaredInFunc (c : Chain) (n : Nat) (h : declaredInFunc c n = true) :
    isClosureVar c n = false := by
  simp [isClosureVar, h]

/-- a name with no local declaration around the use: whatever the guard, the emitter's callee is the
lexical one (the package table's function, or nothing) -/
theorem emitCallee_of_not_local (g : Bool → Bool → Bool) (c : Chain) (t : Table) (n : Nat)
    (h : resolveLocal c n = none) : emitCallee g c t n = resolve c t n := by
  unfold emitCallee
  split
  · cases hf : find t n with
    | none => rfl
    | some d => simp [resolve, h, hf]
  · rfl

/-- a name declared in the current function: the local wins as soon as the guard refuses the direct
call for locals -/
theorem emitCallee_of_declaredInFunc (g : Bool → Bool → Bool) (hg : g true false = false) (c : Chain)
    (t : Table) (n : Nat) (h : declaredInFunc c n = true) : emitCallee g c t n = resolve c t n := by
  unfold emitCallee
  simp [h, isClosureVar_of_declaredInFunc c n h, hg]

/-- a local of an enclosing function: it wins as soon as the guard refuses the direct call for closure
variables -/
theorem emitCallee_of_closureVar (g : Bool → Bool → Bool) (hg : g false true = false) (c : Chain)
    (t : Table) (n : Nat) (hd : declaredInFunc c n = false) (hl : (resolveLocal c n).isSome = true) :
    emitCallee g c t n = resolve c t n := by
  unfold emitCallee
  simp [hd, isClosureVar, hl, hg]

end ScriggoV.Compose.Local
