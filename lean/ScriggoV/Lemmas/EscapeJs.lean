import ScriggoV.Lemmas.EscapeLoop
import ScriggoV.Lemmas.Utf8
/-! JavaScript / JSON strings. Part 1: the range loop of `jsStringEscape` (runes, `last`,
chunks) never faults and writes a per-byte substitution `jsSimple`, in which the only
multi-byte unit is the three-byte encoding of U+2028 / U+2029. Part 2: one step of the
string-literal decoder undoes each piece. -/
namespace ScriggoV.Escape
open ScriggoV ScriggoV.Decode ScriggoV.Utf8 ScriggoV.Gen.EscapeTables

def u2028 : Bytes := [0x5C, 0x75, 0x32, 0x30, 0x32, 0x38]
def u2029 : Bytes := [0x5C, 0x75, 0x32, 0x30, 0x32, 0x39]

/-- `c :: rest` starts with `E2 80 last` -/
def isSep (last : UInt8) (c : UInt8) (rest : Bytes) : Bool :=
  c == 0xE2 && (match rest with
    | x :: y :: _ => x == 0x80 && y == last
    | _ => false)

/-- table entry of a byte (`[]` = none) -/
def jsByteEsc (c : UInt8) : Bytes :=
  match jsStringEscapes[c.toNat]? with
  | some e => e
  | none => []

def jsPiece (c : UInt8) (rest : Bytes) : Bytes :=
  if isSep 0xA8 c rest then u2028
  else if isSep 0xA9 c rest then u2029
  else match jsByteEsc c with
    | [] => [c]
    | e :: es => e :: es

/-- the output of `jsStringEscape` as a substitution; `k` = bytes still to be dropped (the
tail of a U+2028 / U+2029 just replaced) -/
def jsSimple : Nat → Bytes → Bytes
  | _, [] => []
  | k+1, _ :: rest => jsSimple k rest
  | 0, c :: rest =>
    jsPiece c rest ++ jsSimple (if isSep 0xA8 c rest || isSep 0xA9 c rest then 2 else 0) rest

/-! ### table facts -/
theorem jsTable_short : jsStringEscapes.length ≤ 128 := by decide

theorem jsEscOf_ge (r : Nat) (h : 128 ≤ r) (h1 : r ≠ 0x2028) (h2 : r ≠ 0x2029) : jsEscOf r = [] := by
  unfold jsEscOf
  have : jsStringEscapes[r]? = none := by
    apply List.getElem?_eq_none
    have := jsTable_short
    omega
  simp [this, h1, h2]

theorem jsEscOf_2028 : jsEscOf 0x2028 = u2028 := by decide
theorem jsEscOf_2029 : jsEscOf 0x2029 = u2029 := by decide

theorem jsEscOf_byte (c : UInt8) : jsEscOf c.toNat = jsByteEsc c := by
  unfold jsEscOf jsByteEsc
  cases h : jsStringEscapes[c.toNat]? with
  | some e => rfl
  | none =>
    have := c.toNat_lt
    have h1 : c.toNat ≠ 0x2028 := by omega
    have h2 : c.toNat ≠ 0x2029 := by omega
    simp [h1, h2]

theorem jsByteEsc_ge (c : UInt8) (h : 128 ≤ c.toNat) : jsByteEsc c = [] := by
  rw [← jsEscOf_byte]
  have := c.toNat_lt
  exact jsEscOf_ge _ h (by omega) (by omega)

/-! ### the decoded rune at a separator -/
theorem isSep_iff (last c : UInt8) (rest : Bytes) :
    isSep last c rest = true ↔ c = 0xE2 ∧ ∃ t, rest = 0x80 :: last :: t := by
  unfold isSep
  constructor
  · intro h
    simp only [Bool.and_eq_true, beq_iff_eq] at h
    obtain ⟨hc, hr⟩ := h
    refine ⟨hc, ?_⟩
    match rest, hr with
    | x :: y :: t, hr =>
      simp only [Bool.and_eq_true, beq_iff_eq] at hr
      exact ⟨t, by rw [hr.1, hr.2]⟩
  · rintro ⟨hc, t, hr⟩
    subst hc hr
    simp

theorem decodeRune_2028 (t : Bytes) : decodeRune (0xE2 :: 0x80 :: 0xA8 :: t) = (0x2028, 3) := by
  simp [decodeRune, leadInfo, isCont]
theorem decodeRune_2029 (t : Bytes) : decodeRune (0xE2 :: 0x80 :: 0xA9 :: t) = (0x2029, 3) := by
  simp [decodeRune, leadInfo, isCont]

theorem toNat_eq_of (c : UInt8) (n : Nat) (hn : n < 256) (h : c.toNat = n) : c = n.toUInt8 := by
  apply UInt8.toNat_inj.mp
  simp [h, Nat.mod_eq_of_lt hn]

/-- at a byte ≥ 0x80 that does not start `E2 80 A8` / `E2 80 A9`, the rune is ≥ 0x80 and is
neither U+2028 nor U+2029, and the bytes it spans after the first are continuation bytes -/
theorem decodeRune_other (c : UInt8) (rest : Bytes) (hc : 128 ≤ c.toNat)
    (h8 : isSep 0xA8 c rest = false) (h9 : isSep 0xA9 c rest = false) :
    128 ≤ (decodeRune (c :: rest)).1 ∧ (decodeRune (c :: rest)).1 ≠ 0x2028 ∧
    (decodeRune (c :: rest)).1 ≠ 0x2029 ∧ contPrefix ((decodeRune (c :: rest)).2 - 1) rest := by
  rcases decodeRune_cases c rest hc with h | ⟨b1, t, hr, hc1, hge, hle, h⟩ | ⟨b1, b2, t, hr, hc1, hc2, hge, hle, he0, h⟩ |
      ⟨b1, b2, b3, t, hr, hc1, hc2, hc3, hge, hle, hf0, h⟩
  · rw [h]; simp [runeError, contPrefix]
  · rw [h]
    rw [isCont_iff] at hc1
    subst hr
    refine ⟨?_, ?_, ?_, ?_⟩
    · simp only; omega
    · simp only; omega
    · simp only; omega
    · simp [contPrefix, isCont_iff]; omega
  · rw [h]
    have hc1' := (isCont_iff b1).mp hc1
    have hc2' := (isCont_iff b2).mp hc2
    subst hr
    have key : ∀ last : UInt8, last.toNat = 0xA8 ∨ last.toNat = 0xA9 → isSep last c (b1 :: b2 :: t) = false →
        (c.toNat % 16) * 4096 + (b1.toNat % 64) * 64 + b2.toNat % 64 ≠ 0x2000 + last.toNat - 0x80 := by
      intro last hl hs heq
      have e1 : c.toNat = 0xE2 := by omega
      have e2 : b1.toNat = 0x80 := by omega
      have e3 : b2.toNat = last.toNat := by omega
      have : isSep last c (b1 :: b2 :: t) = true := by
        rw [isSep_iff]
        refine ⟨toNat_eq_of c 0xE2 (by omega) e1, t, ?_⟩
        rw [toNat_eq_of b1 0x80 (by omega) e2, UInt8.toNat_inj.mp e3]
        rfl
      rw [this] at hs; cases hs
    have : c.toNat = 0xE0 ∨ 0xE1 ≤ c.toNat := by omega
    refine ⟨?_, ?_, ?_, ?_⟩
    · simp only; rcases this with e | e
      · have := he0 e; omega
      · omega
    · have := key 0xA8 (Or.inl rfl) h8; simpa using this
    · have := key 0xA9 (Or.inr rfl) h9; simpa using this
    · simp [contPrefix, hc1, hc2]
  · rw [h]
    have hc1' := (isCont_iff b1).mp hc1
    have hc2' := (isCont_iff b2).mp hc2
    have hc3' := (isCont_iff b3).mp hc3
    subst hr
    have : c.toNat = 0xF0 ∨ 0xF1 ≤ c.toNat := by omega
    refine ⟨?_, ?_, ?_, ?_⟩
    · simp only; rcases this with e | e
      · have := hf0 e; omega
      · omega
    · simp only; rcases this with e | e
      · have := hf0 e; omega
      · omega
    · simp only; rcases this with e | e
      · have := hf0 e; omega
      · omega
    · simp [contPrefix, hc1, hc2, hc3]

/-! ### part 1: the loop -/
theorem jsLoop_zero_nil (pending : Bytes) (c : UInt8) (rest : Bytes)
    (h : jsEscOf (decodeRune (c :: rest)).1 = []) :
    jsLoop 0 0 pending (c :: rest) = jsLoop ((decodeRune (c :: rest)).2 - 1) 0 (pending ++ [c]) rest := by
  rw [jsLoop]
  simp only [h]
  simp

theorem jsLoop_zero_cons (pending : Bytes) (c : UInt8) (rest : Bytes) (e : UInt8) (es : Bytes)
    (cs : List Bytes)
    (h : jsEscOf (decodeRune (c :: rest)).1 = e :: es)
    (hrec : jsLoop ((decodeRune (c :: rest)).2 - 1) (jsLastAdvance (decodeRune (c :: rest)).1 - 1) [] rest
      = .ok cs) :
    jsLoop 0 0 pending (c :: rest) = .ok (flush pending ++ [e :: es] ++ cs) := by
  rw [jsLoop]
  simp only [h]
  simp [hrec]

theorem jsLoop_succ_zero (k : Nat) (pending : Bytes) (c : UInt8) (rest : Bytes) :
    jsLoop (k + 1) 0 pending (c :: rest) = jsLoop k 0 (pending ++ [c]) rest := by
  rw [jsLoop]; simp

theorem jsLoop_succ_succ (k d : Nat) (pending : Bytes) (c : UInt8) (rest : Bytes) :
    jsLoop (k + 1) (d + 1) pending (c :: rest) = jsLoop k d pending rest := by
  rw [jsLoop]; simp

theorem isSep_of_small (last c : UInt8) (rest : Bytes) (h : c.toNat ≤ 0xBF) : isSep last c rest = false := by
  unfold isSep
  have : (c == 0xE2) = false := by
    cases hc : c == 0xE2 with
    | false => rfl
    | true => simp at hc; subst hc; simp at h
  simp [this]

/-- a continuation byte (inside a rune that is not replaced) is written unchanged -/
theorem jsSimple_cont (c : UInt8) (rest : Bytes) (h : isCont c = true) :
    jsSimple 0 (c :: rest) = c :: jsSimple 0 rest := by
  rw [isCont_iff] at h
  have h8 := isSep_of_small 0xA8 c rest h.2
  have h9 := isSep_of_small 0xA9 c rest h.2
  simp [jsSimple, jsPiece, h8, h9, jsByteEsc_ge c h.1]

theorem jsSimple_plain (c : UInt8) (rest : Bytes) (h8 : isSep 0xA8 c rest = false)
    (h9 : isSep 0xA9 c rest = false) (he : jsByteEsc c = []) :
    jsSimple 0 (c :: rest) = c :: jsSimple 0 rest := by
  simp [jsSimple, jsPiece, h8, h9, he]

theorem jsSimple_esc (c : UInt8) (rest : Bytes) (h8 : isSep 0xA8 c rest = false)
    (h9 : isSep 0xA9 c rest = false) (e : UInt8) (es : Bytes) (he : jsByteEsc c = e :: es) :
    jsSimple 0 (c :: rest) = (e :: es) ++ jsSimple 0 rest := by
  simp [jsSimple, jsPiece, h8, h9, he]

theorem jsSimple_2028 (t : Bytes) :
    jsSimple 0 (0xE2 :: 0x80 :: 0xA8 :: t) = u2028 ++ jsSimple 0 t := by
  simp [jsSimple, jsPiece, isSep]
theorem jsSimple_2029 (t : Bytes) :
    jsSimple 0 (0xE2 :: 0x80 :: 0xA9 :: t) = u2029 ++ jsSimple 0 t := by
  simp [jsSimple, jsPiece, isSep]

/-- **the range loop**: no slice fault, and the chunks concatenate to `pending ++ jsSimple` -/
theorem jsLoop_spec (s : Bytes) : ∀ (skip drop : Nat) (pending : Bytes),
    drop ≤ skip → contPrefix skip s →
    ∃ cs, jsLoop skip drop pending s = .ok cs ∧ cs.flatten = pending ++ jsSimple drop s := by
  induction s with
  | nil =>
    intro skip drop pending hle hcp
    cases skip with
    | succ k => simp [contPrefix] at hcp
    | zero =>
      have : drop = 0 := by omega
      subst this
      exact ⟨flush pending, by simp [jsLoop], by simp [flush_flatten, jsSimple]⟩
  | cons c rest ih =>
    intro skip drop pending hle hcp
    cases skip with
    | succ k =>
      simp only [contPrefix] at hcp
      obtain ⟨hcont, hcp⟩ := hcp
      cases drop with
      | zero =>
        obtain ⟨cs, h1, h2⟩ := ih k 0 (pending ++ [c]) (by omega) hcp
        refine ⟨cs, by rw [jsLoop_succ_zero]; exact h1, ?_⟩
        rw [h2, jsSimple_cont c rest hcont]; simp
      | succ d =>
        obtain ⟨cs, h1, h2⟩ := ih k d pending (by omega) hcp
        exact ⟨cs, by rw [jsLoop_succ_succ]; exact h1, by rw [h2]; simp [jsSimple]⟩
    | zero =>
      have : drop = 0 := by omega
      subst this
      by_cases h8 : isSep 0xA8 c rest = true
      · obtain ⟨hc, t, hr⟩ := (isSep_iff _ _ _).mp h8
        subst hc hr
        obtain ⟨cs, h1, h2⟩ := ih 2 2 [] (by omega) (by simp [contPrefix, isCont])
        refine ⟨flush pending ++ [u2028] ++ cs, ?_, ?_⟩
        · apply jsLoop_zero_cons
          · rw [decodeRune_2028]; exact jsEscOf_2028
          · rw [decodeRune_2028]; exact h1
        · rw [jsSimple_2028]
          simp only [List.flatten_append, flush_flatten, h2, List.nil_append]
          simp [jsSimple]
      · by_cases h9 : isSep 0xA9 c rest = true
        · obtain ⟨hc, t, hr⟩ := (isSep_iff _ _ _).mp h9
          subst hc hr
          obtain ⟨cs, h1, h2⟩ := ih 2 2 [] (by omega) (by simp [contPrefix, isCont])
          refine ⟨flush pending ++ [u2029] ++ cs, ?_, ?_⟩
          · apply jsLoop_zero_cons
            · rw [decodeRune_2029]; exact jsEscOf_2029
            · rw [decodeRune_2029]; exact h1
          · rw [jsSimple_2029]
            simp only [List.flatten_append, flush_flatten, h2, List.nil_append]
            simp [jsSimple]
        · have h8' : isSep 0xA8 c rest = false := by simpa using h8
          have h9' : isSep 0xA9 c rest = false := by simpa using h9
          by_cases hc : c.toNat < 128
          · have hd := decodeRune_ascii c rest hc
            cases he : jsByteEsc c with
            | nil =>
              obtain ⟨cs, h1, h2⟩ := ih 0 0 (pending ++ [c]) (by omega) (by simp [contPrefix])
              refine ⟨cs, ?_, ?_⟩
              · rw [jsLoop_zero_nil _ _ _ (by rw [hd]; simp only; rw [jsEscOf_byte, he]), hd]
                exact h1
              · rw [h2, jsSimple_plain c rest h8' h9' he]; simp
            | cons e es =>
              obtain ⟨cs, h1, h2⟩ := ih 0 0 [] (by omega) (by simp [contPrefix])
              refine ⟨flush pending ++ [e :: es] ++ cs, ?_, ?_⟩
              · apply jsLoop_zero_cons
                · rw [hd]; simp only; rw [jsEscOf_byte, he]
                · rw [hd]
                  have : jsLastAdvance c.toNat = 1 := by
                    unfold jsLastAdvance
                    rw [if_neg (by omega)]
                  simp only [this]
                  exact h1
              · rw [jsSimple_esc c rest h8' h9' e es he]
                simp only [List.flatten_append, flush_flatten, h2, List.nil_append]
                simp
          · obtain ⟨hge, hn8, hn9, hcp'⟩ := decodeRune_other c rest (by omega) h8' h9'
            obtain ⟨cs, h1, h2⟩ := ih ((decodeRune (c :: rest)).2 - 1) 0 (pending ++ [c]) (by omega) hcp'
            refine ⟨cs, ?_, ?_⟩
            · rw [jsLoop_zero_nil _ _ _ (jsEscOf_ge _ hge hn8 hn9)]
              exact h1
            · rw [h2, jsSimple_plain c rest h8' h9' (jsByteEsc_ge c (by omega))]; simp
/-! ### part 2: decoding -/

/-- the two-byte escapes that mean the same in JavaScript and JSON -/
def jsSimpleEsc (x : UInt8) : Option UInt8 :=
  if x == 0x62 then some 8 else if x == 0x66 then some 12 else if x == 0x6E then some 10
  else if x == 0x72 then some 13 else if x == 0x74 then some 9
  else if x == 0x22 then some 0x22 else if x == 0x5C then some 0x5C else none

/-- per byte: a byte written unchanged may appear raw in a JS string between either kind of
quote and in a JSON string; a table entry is `\x` (one of the escapes common to both
languages) or `\uXXXX` with the value of an ASCII byte — and that value is the byte -/
def jsFact (c : UInt8) : Bool :=
  match jsByteEsc c with
  | [] => c != 0x5C && c != 0x22 && c != 0x27 && c != 10 && c != 13 && decide (0x20 ≤ c.toNat)
  | e :: es =>
    decide (c.toNat < 128) &&
    (match e :: es with
     | [b, x] => b == 0x5C && jsSimpleEsc x == some c
     | [b, u, h1, h2, h3, h4] =>
       b == 0x5C && u == 0x75 &&
       (match hexDig? h1, hexDig? h2, hexDig? h3, hexDig? h4 with
        | some p, some q, some r, some s => ((p * 16 + q) * 16 + r) * 16 + s == c.toNat
        | _, _, _, _ => false)
     | _ => false)

theorem jsFact_all : ∀ c, jsFact c = true := allBytes_spec (by decide +kernel)

theorem jsEscape_simple (json : Bool) (x c : UInt8) (X : Bytes) (h : jsSimpleEsc x = some c) :
    jsEscape json (x :: X) = some ([c], X) := by
  unfold jsSimpleEsc at h
  repeat' split at h
  all_goals cases h
  all_goals (rename_i hx; have := eq_of_beq hx; subst this; simp [jsEscape])

theorem jsEscape_u4 (json : Bool) (h1 h2 h3 h4 : UInt8) (p q r s : Nat) (c : UInt8) (X : Bytes)
    (e1 : hexDig? h1 = some p) (e2 : hexDig? h2 = some q) (e3 : hexDig? h3 = some r)
    (e4 : hexDig? h4 = some s) (hv : ((p * 16 + q) * 16 + r) * 16 + s = c.toNat)
    (hlt : c.toNat < 128) :
    jsEscape json (0x75 :: h1 :: h2 :: h3 :: h4 :: X) = some ([c], X) := by
  have h7b : (h1 == 0x7B) = false := by
    cases hb : h1 == 0x7B with
    | false => rfl
    | true => simp at hb; subst hb; simp [hexDig?] at e1
  have hhs : isHighSurrogate c.toNat = false := by simp [isHighSurrogate]; omega
  simp [jsEscape, jsEscapeU, h7b, hex4, e1, e2, e3, e4, hv, jsUnit, hhs, encodeRune_ascii c hlt]


theorem jsStep_bs (json : Bool) (Y : Bytes) : jsStep json (0x5C :: Y) = jsEscape json Y := by
  simp [jsStep]

theorem jsStep_raw (json : Bool) (c : UInt8) (X : Bytes)
    (h : (c != 0x5C && c != 0x22 && c != 0x27 && c != 10 && c != 13 && decide (0x20 ≤ c.toNat)) = true) :
    jsStep json (c :: X) = some ([c], X) := by
  simp only [Bool.and_eq_true, bne_iff_ne, ne_eq, decide_eq_true_eq] at h
  obtain ⟨⟨⟨⟨⟨h1, h2⟩, h3⟩, h4⟩, h5⟩, h6⟩ := h
  have : ¬ c.toNat < 0x20 := by omega
  cases json <;> simp [jsStep, h1, h2, h3, h4, h5, this]

theorem jsStep_u2028 (json : Bool) (Y : Bytes) :
    jsStep json (u2028 ++ Y) = some ([0xE2, 0x80, 0xA8], Y) := by
  have d0 : hexDig? 0x30 = some 0 := by decide
  have d2 : hexDig? 0x32 = some 2 := by decide
  have d8 : hexDig? 0x38 = some 8 := by decide
  have hs : isHighSurrogate 8232 = false := by decide
  have he : encodeRune 8232 = [0xE2, 0x80, 0xA8] := by decide
  simp [u2028, jsStep_bs, jsEscape, jsEscapeU, hex4, d0, d2, d8, jsUnit, hs, he]

theorem jsStep_u2029 (json : Bool) (Y : Bytes) :
    jsStep json (u2029 ++ Y) = some ([0xE2, 0x80, 0xA9], Y) := by
  have d0 : hexDig? 0x30 = some 0 := by decide
  have d2 : hexDig? 0x32 = some 2 := by decide
  have d9 : hexDig? 0x39 = some 9 := by decide
  have hs : isHighSurrogate 8233 = false := by decide
  have he : encodeRune 8233 = [0xE2, 0x80, 0xA9] := by decide
  simp [u2029, jsStep_bs, jsEscape, jsEscapeU, hex4, d0, d2, d9, jsUnit, hs, he]

/-- one decoder step undoes a table entry, whatever follows -/
theorem jsStep_entry (json : Bool) (c e : UInt8) (es : Bytes) (he : jsByteEsc c = e :: es) (X : Bytes) :
    jsStep json ((e :: es) ++ X) = some ([c], X) := by
  have hf := jsFact_all c
  unfold jsFact at hf
  rw [he] at hf
  simp only [Bool.and_eq_true, decide_eq_true_eq] at hf
  obtain ⟨hlt, hm⟩ := hf
  match e, es, hm with
  | b, [x], hm =>
    simp only [Bool.and_eq_true, beq_iff_eq] at hm
    obtain ⟨hb, hx⟩ := hm
    subst hb
    simp only [List.cons_append, List.nil_append]
    rw [jsStep_bs, jsEscape_simple json x c X hx]
  | b, [u, h1, h2, h3, h4], hm =>
    simp only [Bool.and_eq_true, beq_iff_eq] at hm
    obtain ⟨⟨hb, hu⟩, hv⟩ := hm
    subst hb hu
    cases e1 : hexDig? h1 with
    | none => simp [e1] at hv
    | some p =>
      cases e2 : hexDig? h2 with
      | none => simp [e1, e2] at hv
      | some q =>
        cases e3 : hexDig? h3 with
        | none => simp [e1, e2, e3] at hv
        | some r =>
          cases e4 : hexDig? h4 with
          | none => simp [e1, e2, e3, e4] at hv
          | some s =>
            simp only [e1, e2, e3, e4, beq_iff_eq] at hv
            simp only [List.cons_append, List.nil_append]
            rw [jsStep_bs, jsEscape_u4 json h1 h2 h3 h4 p q r s c X e1 e2 e3 e4 hv hlt]

/-- decoding the substitution gives the input back (what `k` says was dropped stays dropped) -/
theorem js_decode_simple (json : Bool) (s : Bytes) : ∀ (k n : Nat), (jsSimple k s).length < n →
    decodeF (jsStep json) n (jsSimple k s) = some (s.drop k) := by
  induction s with
  | nil => intro k n _; cases n <;> simp [jsSimple, decodeF]
  | cons c rest ih =>
    intro k n hn
    cases k with
    | succ k =>
      simp only [jsSimple, List.drop_succ_cons] at hn ⊢
      exact ih k n hn
    | zero =>
      cases n with
      | zero => omega
      | succ n =>
        simp only [List.drop_zero]
        by_cases h8 : isSep 0xA8 c rest = true
        · obtain ⟨hc, t, hr⟩ := (isSep_iff _ _ _).mp h8
          subst hc hr
          rw [jsSimple_2028] at hn ⊢
          have h2 : jsSimple 2 (0x80 :: 0xA8 :: t) = jsSimple 0 t := by simp [jsSimple]
          rw [decodeF_step _ n _ _ _ (by simp [u2028]) (jsStep_u2028 json _), ← h2,
            ih 2 n (by rw [h2]; simp [u2028] at hn; omega)]
          simp
        · by_cases h9 : isSep 0xA9 c rest = true
          · obtain ⟨hc, t, hr⟩ := (isSep_iff _ _ _).mp h9
            subst hc hr
            rw [jsSimple_2029] at hn ⊢
            have h2 : jsSimple 2 (0x80 :: 0xA9 :: t) = jsSimple 0 t := by simp [jsSimple]
            rw [decodeF_step _ n _ _ _ (by simp [u2029]) (jsStep_u2029 json _), ← h2,
              ih 2 n (by rw [h2]; simp [u2029] at hn; omega)]
            simp
          · have h8' : isSep 0xA8 c rest = false := by simpa using h8
            have h9' : isSep 0xA9 c rest = false := by simpa using h9
            cases he : jsByteEsc c with
            | nil =>
              rw [jsSimple_plain c rest h8' h9' he] at hn ⊢
              have hf := jsFact_all c
              unfold jsFact at hf
              rw [he] at hf
              rw [decodeF_step _ n _ _ _ (by simp) (jsStep_raw json c _ hf),
                ih 0 n (by simp at hn; omega)]
              simp
            | cons e es =>
              rw [jsSimple_esc c rest h8' h9' e es he] at hn ⊢
              rw [decodeF_step _ n _ _ _ (by simp) (jsStep_entry json c e es he _),
                ih 0 n (by simp at hn; omega)]
              simp

/-- `jsStringEscape` never faults and its output is `jsSimple 0 s` -/
theorem jsStringEscape_ok (s : Bytes) :
    ∃ cs, jsStringEscapeChunksE s = .ok cs ∧ cs.flatten = jsSimple 0 s := by
  obtain ⟨cs, h1, h2⟩ := jsLoop_spec s 0 0 [] (by omega) (by simp [contPrefix])
  exact ⟨cs, h1, by simpa using h2⟩

theorem jsStringEscapeOut_eq (s : Bytes) : jsStringEscapeOut s = jsSimple 0 s := by
  obtain ⟨cs, h1, h2⟩ := jsStringEscape_ok s
  unfold jsStringEscapeOut jsStringEscapeChunks
  rw [h1]
  exact h2

theorem js_decode_out (json : Bool) (s : Bytes) : jsDecode json (jsStringEscapeOut s) = some s := by
  rw [jsStringEscapeOut_eq]
  unfold jsDecode decodeAll
  have := js_decode_simple json s 0 _ (Nat.lt_succ_self _)
  simpa using this

end ScriggoV.Escape
