import ScriggoV.Lemmas.SlotsHtml
import ScriggoV.Lemmas.EscapeUrl
/-! C06, URL part: the output of `pathEscape` / `queryEscape` stays inside the attribute value
(quoted or unquoted) it is written into, and contains no `<`.

`pathBody` looks ahead only through `pctFollows rest`, so the piece written for a byte is one of
two pieces that depend on the byte alone; both are checked for all 256 bytes. -/
namespace ScriggoV.Slots
open ScriggoV ScriggoV.Slots ScriggoV.Escape ScriggoV.Gen.EscapeTables

theorem pathEscapeOut_eq (q : Bool) (s : Bytes) : pathEscapeOut q s = simple (pathBody q) s := by
  simp [pathEscapeOut, pathEscapeChunks, escLoop_flatten]

theorem queryEscapeOut_eq (s : Bytes) : queryEscapeOut s = simple queryBody s := by
  simp [queryEscapeOut, queryEscapeChunks, escLoop_flatten]

/-- the look-ahead of `pathBody` is one bit -/
theorem pathBody_rest (q : Bool) (c : UInt8) (rest : Bytes) :
    pathBody q c rest = pathBody q c (if pctFollows rest then [0x30, 0x30] else []) := by
  have h0 : pctFollows [] = false := rfl
  have h1 : pctFollows [0x30, 0x30] = true := by decide
  cases h : pctFollows rest
  · simp only [Bool.false_eq_true, if_false]
    unfold pathBody
    rw [h, h0]
  · simp only [if_true]
    unfold pathBody
    rw [h, h1]

theorem piece_path_rest (q : Bool) (c : UInt8) (rest : Bytes) :
    piece (pathBody q) c rest = piece (pathBody q) c [] ∨
    piece (pathBody q) c rest = piece (pathBody q) c [0x30, 0x30] := by
  unfold piece
  rw [pathBody_rest q c rest]
  cases pctFollows rest
  · left; rfl
  · right; rfl

theorem piece_query_rest (c : UInt8) (rest : Bytes) :
    piece queryBody c rest = piece queryBody c [] := rfl

/-! ### table facts -/

/-- a non-empty piece all of whose bytes satisfy `p` -/
def pieceOk (p : UInt8 → Bool) (e : Bytes) : Bool := !e.isEmpty && e.all p

/-- what an unquoted URL attribute value must not contain: white space, `>`, `"`, `'`, `<` -/
def pUnqUrl (c : UInt8) : Bool := unqOk c && c != 0x3C

def pathFact (c : UInt8) : Bool :=
  pieceOk pQuoted (piece (pathBody true) c []) &&
  pieceOk pQuoted (piece (pathBody true) c [0x30, 0x30]) &&
  pieceOk pUnqUrl (piece (pathBody false) c []) &&
  pieceOk pUnqUrl (piece (pathBody false) c [0x30, 0x30])

theorem pathFact_all : ∀ c, pathFact c = true := allBytes_spec (by decide +kernel)

def querySlotFact (c : UInt8) : Bool := pieceOk pUnqUrl (piece queryBody c [])

theorem querySlotFact_all : ∀ c, querySlotFact c = true := allBytes_spec (by decide +kernel)

theorem piece_path_true (c : UInt8) (rest : Bytes) :
    pieceOk pQuoted (piece (pathBody true) c rest) = true := by
  have h := pathFact_all c
  simp only [pathFact, Bool.and_eq_true] at h
  rcases piece_path_rest true c rest with e | e <;> rw [e]
  · exact h.1.1.1
  · exact h.1.1.2

theorem piece_path_false (c : UInt8) (rest : Bytes) :
    pieceOk pUnqUrl (piece (pathBody false) c rest) = true := by
  have h := pathFact_all c
  simp only [pathFact, Bool.and_eq_true] at h
  rcases piece_path_rest false c rest with e | e <;> rw [e]
  · exact h.1.2
  · exact h.2

theorem piece_query_ok (c : UInt8) (rest : Bytes) :
    pieceOk pUnqUrl (piece queryBody c rest) = true := by
  rw [piece_query_rest]
  exact querySlotFact_all c

theorem pieceOk_all (p : UInt8 → Bool) (e : Bytes) (h : pieceOk p e = true) : e.all p = true := by
  simp only [pieceOk, Bool.and_eq_true] at h
  exact h.2

theorem pieceOk_ne_nil (p : UInt8 → Bool) (e : Bytes) (h : pieceOk p e = true) : e ≠ [] := by
  intro he
  subst he
  simp [pieceOk] at h

/-! ### the outputs -/

theorem path_true_all (s : Bytes) : (pathEscapeOut true s).all pQuoted = true := by
  rw [pathEscapeOut_eq]
  exact simple_all _ pQuoted (fun c rest => pieceOk_all _ _ (piece_path_true c rest)) s

theorem path_false_all (s : Bytes) : (pathEscapeOut false s).all pUnqUrl = true := by
  rw [pathEscapeOut_eq]
  exact simple_all _ pUnqUrl (fun c rest => pieceOk_all _ _ (piece_path_false c rest)) s

theorem query_all (s : Bytes) : (queryEscapeOut s).all pUnqUrl = true := by
  rw [queryEscapeOut_eq]
  exact simple_all _ pUnqUrl (fun c rest => pieceOk_all _ _ (piece_query_ok c rest)) s

theorem pQuoted_dq (c : UInt8) (h : pQuoted c = true) : (c != 0x22) = true := by
  simp only [pQuoted, Bool.and_eq_true] at h
  exact h.1.2

theorem pQuoted_sq (c : UInt8) (h : pQuoted c = true) : (c != 0x27) = true := by
  simp only [pQuoted, Bool.and_eq_true] at h
  exact h.2

theorem pQuoted_lt (c : UInt8) (h : pQuoted c = true) : (c != 0x3C) = true := by
  simp only [pQuoted, Bool.and_eq_true] at h
  exact h.1.1

theorem pUnqUrl_unqOk (c : UInt8) (h : pUnqUrl c = true) : unqOk c = true := by
  simp only [pUnqUrl, Bool.and_eq_true] at h
  exact h.1

theorem pUnqUrl_lt (c : UInt8) (h : pUnqUrl c = true) : (c != 0x3C) = true := by
  simp only [pUnqUrl, Bool.and_eq_true] at h
  exact h.2

theorem pUnqUrl_dq (c : UInt8) (h : pUnqUrl c = true) : (c != 0x22) = true := by
  have h' := pUnqUrl_unqOk c h
  simp only [unqOk, Bool.not_eq_true', Bool.or_eq_false_iff] at h'
  simpa using h'.1.2

theorem pUnqUrl_sq (c : UInt8) (h : pUnqUrl c = true) : (c != 0x27) = true := by
  have h' := pUnqUrl_unqOk c h
  simp only [unqOk, Bool.not_eq_true', Bool.or_eq_false_iff] at h'
  simpa using h'.2

/-! ### the theorems -/

/-- **`href="{{ path }}"`** (a space is written unchanged there; it does not end the value) -/
theorem path_dq (s : Bytes) : attrDqConfined (pathEscapeOut true s) = true :=
  attrDq_of_all _ (all_mono pQuoted _ pQuoted_dq _ (path_true_all s))

/-- **`href='{{ path }}'`** -/
theorem path_sq (s : Bytes) : attrSqConfined (pathEscapeOut true s) = true :=
  attrSq_of_all _ (all_mono pQuoted _ pQuoted_sq _ (path_true_all s))

/-- **`href={{ path }}`**, non-empty path -/
theorem path_unq (s : Bytes) (h : s ≠ []) : attrUnqConfined (pathEscapeOut false s) = true := by
  apply attrUnq_of_all
  · rw [pathEscapeOut_eq]
    exact simple_ne_nil _ (fun c rest => pieceOk_ne_nil _ _ (piece_path_false c rest)) s h
  · exact all_mono pUnqUrl _ pUnqUrl_unqOk _ (path_false_all s)

/-- no `<` in an escaped path, quoted or not -/
theorem path_data (q : Bool) (s : Bytes) : dataConfined (pathEscapeOut q s) = true := by
  apply dataConfined_of_all
  cases q
  · exact all_mono pUnqUrl _ pUnqUrl_lt _ (path_false_all s)
  · exact all_mono pQuoted _ pQuoted_lt _ (path_true_all s)

theorem query_dq (s : Bytes) : attrDqConfined (queryEscapeOut s) = true :=
  attrDq_of_all _ (all_mono pUnqUrl _ pUnqUrl_dq _ (query_all s))

theorem query_sq (s : Bytes) : attrSqConfined (queryEscapeOut s) = true :=
  attrSq_of_all _ (all_mono pUnqUrl _ pUnqUrl_sq _ (query_all s))

theorem query_unq (s : Bytes) (h : s ≠ []) : attrUnqConfined (queryEscapeOut s) = true := by
  apply attrUnq_of_all
  · rw [queryEscapeOut_eq]
    exact simple_ne_nil _ (fun c rest => pieceOk_ne_nil _ _ (piece_query_ok c rest)) s h
  · exact all_mono pUnqUrl _ pUnqUrl_unqOk _ (query_all s)

end ScriggoV.Slots
