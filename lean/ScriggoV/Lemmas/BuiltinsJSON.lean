import ScriggoV.Model.Builtins
/-! Lemmas for C25: `lookupJSONSpace` table facts (over the regenerated table), the loop
invariants of `onlyJSONWhitespace` and `trimJSONSpace`. -/
namespace ScriggoV.Builtins
open ScriggoV.Gen.BuiltinTables ScriggoV.GoExpr

/-- RFC 8259 §2: `ws = %x20 / %x09 / %x0A / %x0D` -/
def isWS (c : UInt8) : Bool := c == 32 || c == 9 || c == 10 || c == 13

/-- the table entry for byte `c` exists and is 1 for JSON whitespace, 0 otherwise -/
def tblOK (c : UInt8) : Bool :=
  match getAt lookupJSONSpace c.toNat with
  | .ok v => v == (if isWS c then 1 else 0)
  | .error _ => false

/-- whole-table fact over all 256 byte values; false at `c = 0xff` for a 255-entry table -/
theorem lookup_table_fact : allBytes tblOK = true := by decide +kernel

theorem lookup_at (c : UInt8) : getAt lookupJSONSpace c.toNat = .ok (if isWS c then 1 else 0) := by
  have h := allBytes_spec lookup_table_fact c
  unfold tblOK at h
  split at h
  · rename_i v hv
    rw [hv]; congr 1; simpa using h
  · cases h

theorem getAtI_nat (s : Bytes) (i : Nat) : getAtI s (i : Int) = getAt s i := by
  unfold getAtI
  have : ¬ ((i : Int) < 0) := by omega
  simp [this]

theorem getAt_mid (pre : Bytes) (c : UInt8) (post : Bytes) :
    getAt (pre ++ c :: post) pre.length = .ok c := by
  unfold getAt
  simp

theorem tbl_is_one (c : UInt8) :
    gEqB (gTbl lookupJSONSpace (.ok c)) (gByte 1) = .ok (isWS c) := by
  simp only [gTbl, lookup_at, gEqB, gBin, gByte]
  cases isWS c <;> simp

theorem tbl_is_zero (c : UInt8) :
    gEqB (gTbl lookupJSONSpace (.ok c)) (gByte 0) = .ok (!isWS c) := by
  simp only [gTbl, lookup_at, gEqB, gBin, gByte]
  cases isWS c <;> simp

/-- loop invariant of `onlyJSONWhitespace` -/
theorem onlyWSFrom_spec (post : Bytes) : ∀ pre : Bytes,
    onlyWSFrom (pre ++ post) (List.range' pre.length post.length) = .ok (post.all isWS) := by
  induction post with
  | nil => intro pre; simp [onlyWSFrom]
  | cons c cs ih =>
    intro pre
    simp only [List.length_cons, List.range'_succ, onlyWSFrom, onlyWSStop, gInt, gIdx, getAtI_nat,
      getAt_mid, tbl_is_zero]
    cases h : isWS c
    · simp [h]
    · have := ih (pre ++ [c])
      simp only [List.append_assoc, List.cons_append, List.nil_append, List.length_append,
        List.length_cons, List.length_nil, Nat.zero_add] at this
      simp [this, h]

/-! ### trimJSONSpace -/

theorem trimCond1_stop (data : Bytes) (i j : Int) (h : ¬ i ≤ j) : trimCond1 data i j = .ok false := by
  simp [trimCond1, gAnd, gLeI, gBin, gInt, h]

theorem trimCond1_at (pre : Bytes) (c : UInt8) (post : Bytes) (j : Int) (h : (pre.length : Int) ≤ j) :
    trimCond1 (pre ++ c :: post) pre.length j = .ok (isWS c) := by
  simp only [trimCond1, gInt, gIdx, getAtI_nat, getAt_mid, tbl_is_one]
  simp [gAnd, gLeI, gBin, h]

theorem trimCond2_stop (data : Bytes) (i j : Int) (h : ¬ i ≤ j) : trimCond2 data i j = .ok false := by
  simp [trimCond2, gAnd, gLeI, gBin, gInt, h]

theorem trimCond2_at (pre : Bytes) (c : UInt8) (post : Bytes) (i : Int) (h : i ≤ (pre.length : Int)) :
    trimCond2 (pre ++ c :: post) i pre.length = .ok (isWS c) := by
  simp only [trimCond2, gInt, gIdx, getAtI_nat, getAt_mid, tbl_is_one]
  simp [gAnd, gLeI, gBin, h]

/-- first loop: from `i = |pre|` it stops after the whitespace prefix of `post` -/
theorem trimLoop1_spec (post : Bytes) : ∀ (pre : Bytes) (fuel : Nat), post.length + 1 ≤ fuel →
    trimLoop1 (pre ++ post) (((pre ++ post).length : Int) - 1) fuel pre.length
      = .ok ((pre.length + (post.takeWhile isWS).length : Nat) : Int) := by
  induction post with
  | nil =>
    intro pre fuel hf
    obtain ⟨f, rfl⟩ : ∃ f, fuel = f + 1 := ⟨fuel - 1, by simp at hf; omega⟩
    simp only [trimLoop1, List.append_nil]
    rw [trimCond1_stop _ _ _ (by omega)]
    simp
  | cons c cs ih =>
    intro pre fuel hf
    obtain ⟨f, rfl⟩ : ∃ f, fuel = f + 1 := ⟨fuel - 1, by simp at hf; omega⟩
    simp only [trimLoop1]
    rw [trimCond1_at _ _ _ _ (by simp; omega)]
    cases h : isWS c
    · simp [h]
    · have := ih (pre ++ [c]) f (by simp at hf ⊢; omega)
      simp only [List.append_assoc, List.cons_append, List.nil_append, List.length_append,
        List.length_cons, List.length_nil, Nat.zero_add] at this
      simp only [List.length_append, List.length_cons, List.takeWhile_cons, h, if_true]
      have e : ((pre.length : Int) + 1) = ((pre.length + 1 : Nat) : Int) := by simp
      rw [e, this]
      congr 2; omega

/-- where the second loop stops: `j + 1 = |P|` -/
def StopsAt (P : Bytes) (i : Nat) : Prop :=
  P.length = i ∨ (∃ P' x, P = P' ++ [x] ∧ isWS x = false ∧ i < P.length)

/-- second loop: walks down over the trailing whitespace `Tr.reverse` -/
theorem trimLoop2_spec (P : Bytes) (i : Nat) (hP : StopsAt P i) (Tr : Bytes) :
    ∀ (S : Bytes) (fuel : Nat), Tr.all isWS = true → Tr.length + 1 ≤ fuel →
    trimLoop2 (P ++ Tr.reverse ++ S) i fuel ((P.length + Tr.length : Nat) - 1 : Int)
      = .ok ((P.length : Int) - 1) := by
  induction Tr with
  | nil =>
    intro S fuel _ hf
    obtain ⟨f, rfl⟩ : ∃ f, fuel = f + 1 := ⟨fuel - 1, by simp at hf; omega⟩
    simp only [trimLoop2, List.reverse_nil, List.append_nil, List.length_nil, Nat.add_zero]
    rcases hP with h | ⟨P', x, rfl, hx, hi⟩
    · rw [trimCond2_stop _ _ _ (by omega)]
    · have e : (((P' ++ [x]).length : Nat) : Int) - 1 = (P'.length : Int) := by simp
      rw [e]
      have := trimCond2_at P' x S i (by simp at hi; omega)
      simp only [List.append_assoc, List.cons_append, List.nil_append]
      rw [this, hx]
  | cons t Tr' ih =>
    intro S fuel hall hf
    obtain ⟨f, rfl⟩ : ∃ f, fuel = f + 1 := ⟨fuel - 1, by simp at hf; omega⟩
    simp only [List.all_cons, Bool.and_eq_true] at hall
    have hi : i ≤ P.length := by
      rcases hP with h | ⟨_, _, _, _, h⟩ <;> omega
    have e1 : P ++ (t :: Tr').reverse ++ S = (P ++ Tr'.reverse) ++ t :: S := by simp
    have e2 : (((P.length + (t :: Tr').length : Nat) : Int) - 1) = (((P ++ Tr'.reverse).length : Nat) : Int) := by
      simp; omega
    simp only [trimLoop2]
    rw [e1, e2, trimCond2_at _ _ _ _ (by simp; omega), hall.1]
    have := ih (t :: S) f hall.2 (by simp at hf ⊢; omega)
    have e3 : (((P ++ Tr'.reverse).length : Nat) : Int) - 1 = ((P.length + Tr'.length : Nat) : Int) - 1 := by simp
    simp only [e3]
    rw [← this]

/-- specification: `data` without its leading and trailing JSON whitespace -/
def trimSpec (data : Bytes) : Bytes :=
  ((data.dropWhile isWS).reverse.dropWhile isWS).reverse

theorem dropWhile_head_not (p : UInt8 → Bool) (l : Bytes) (x : UInt8) (xs : Bytes)
    (h : l.dropWhile p = x :: xs) : p x = false := by
  induction l with
  | nil => simp at h
  | cons a as ih =>
    rw [List.dropWhile_cons] at h
    split at h
    · exact ih h
    · cases h; simp_all

theorem trimJSONSpace_ok (data : Bytes) : trimJSONSpace data = .ok (trimSpec data) := by
  unfold trimJSONSpace
  by_cases h0 : data.length = 0
  · have : data = [] := List.eq_nil_of_length_eq_zero h0
    subst this; rfl
  · have hb : (data.length == 0) = false := by simpa using h0
    simp only [hb, Bool.false_eq_true, if_false, trimInitI, trimInitJ, trimLo, trimHi]
    -- first loop
    have l1 := trimLoop1_spec data [] (data.length + 1) (by omega)
    simp only [List.nil_append, List.length_nil, Nat.zero_add] at l1
    have e0 : ((0 : Nat) : Int) = 0 := rfl
    rw [e0] at l1
    rw [l1]
    -- decomposition data = W ++ Q.reverse ++ Tr.reverse
    let W := data.takeWhile isWS
    let R := data.dropWhile isWS
    let Tr := R.reverse.takeWhile isWS
    let Q := R.reverse.dropWhile isWS
    have hR : R = Q.reverse ++ Tr.reverse := by
      have : R.reverse = Tr ++ Q := (List.takeWhile_append_dropWhile).symm
      have := congrArg List.reverse this
      simpa using this
    have hdata : data = (W ++ Q.reverse) ++ Tr.reverse ++ [] := by
      have : data = W ++ R := (List.takeWhile_append_dropWhile).symm
      rw [this, hR]; simp
    have hTr : Tr.all isWS = true := List.all_takeWhile
    have hstop : StopsAt (W ++ Q.reverse) W.length := by
      cases hq : Q with
      | nil => left; simp
      | cons x Q' =>
        right
        refine ⟨W ++ Q'.reverse, x, by simp, dropWhile_head_not isWS R.reverse x Q' hq, by simp⟩
    have l2 := trimLoop2_spec (W ++ Q.reverse) W.length hstop Tr [] (data.length + 1) hTr (by
      have := congrArg List.length hdata
      simp at this; omega)
    rw [← hdata] at l2
    have ej : ((data.length : Int) - 1) = ((((W ++ Q.reverse).length + Tr.length : Nat) : Int) - 1) := by
      have := congrArg List.length hdata
      simp at this ⊢; omega
    rw [ej]
    dsimp only
    rw [l2]
    dsimp only
    -- the slice
    unfold sliceOfI
    have hlen : (W ++ Q.reverse).length ≤ data.length := by
      have := congrArg List.length hdata
      simp at this ⊢; omega
    have hc : 0 ≤ ((W.length : Nat) : Int) ∧ ((W.length : Nat) : Int) ≤ ((W ++ Q.reverse).length : Int) - 1 + 1
        ∧ ((W ++ Q.reverse).length : Int) - 1 + 1 ≤ (data.length : Int) := by
      refine ⟨by omega, by simp; omega, by omega⟩
    rw [if_pos hc]
    congr 1
    have e5 : (((W ++ Q.reverse).length : Int) - 1 + 1).toNat = (W ++ Q.reverse).length := by omega
    rw [e5, Int.toNat_natCast]
    have key : ∀ (d A B C : Bytes), d = A ++ B ++ C ++ [] →
        (d.take (A ++ B).length).drop A.length = B := by
      intro d A B C h; subst h
      rw [List.append_nil, List.append_assoc, ← List.append_assoc A B C, List.take_left', List.drop_left']
      · rfl
      · rfl
    exact key data W Q.reverse Tr.reverse hdata

end ScriggoV.Builtins
