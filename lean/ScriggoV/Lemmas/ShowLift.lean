import ScriggoV.Lemmas.Show
/-! C09 — from the facts about single types (`Facts c`, obtained from the explored tables) to
all type descriptors: induction over the descriptor, following the recursion of
`checkShowJS/JSON` on one side and of `showInJS/JSON` on the other. -/
namespace ScriggoV.Show
open ScriggoV.Gen

theorem TDesc.info_not_iface (t : TDesc) (hw : t.wf = true) (hi : t.isInterface = false) :
    t.info.isIface = false := by
  cases t <;> simp_all [TDesc.wf, TDesc.isInterface, TDesc.info, mapInfoWF, TInfo.isIface]

theorem isOk_ok : Res.ok.isOk = true := rfl

theorem isOk_of_beq {r : Res} (h : (r == .ok) = true) : r.isOk = true := h

section
set_option linter.unusedSectionVars false
variable {c : Ctx} (F : Facts c)
include F

/-- the key of a map: accepted by the checker's key decision ⇒ shown by the renderer's -/
theorem key_lift (i : TInfo) (k : TDesc) (hi : mapInfoWF i = true) (hk : k.wf = true)
    (ha : keyAccepted c i k = true) :
    ((staticFns c).key i k.info).leaf.isOk = true →
    ((dynFns c).key i (dynKeyInfo k)).leaf.isOk = true := by
  rw [Act.isOk_leaf, Act.isOk_leaf]
  intro hs
  cases k with
  | ifaceNil j => exact F.keyNil i j hi hs
  | ifaceVal j d =>
    simp only [keyAccepted, Bool.and_eq_true, Bool.not_eq_true'] at ha
    have hd : d.info.isIface = false := TDesc.info_not_iface d (by simpa [TDesc.wf] using hk) ha.1
    have hsd : ((staticFns c).key i d.info).leafOk = true := by
      rw [← Act.isOk_leaf]; exact isOk_of_beq ha.2
    exact F.key i d.info hi hd hsd
  | basic j => exact F.key i j hi (TDesc.info_not_iface (.basic j) hk rfl) hs
  | seen j => exact F.key i j hi (TDesc.info_not_iface (.seen j) hk rfl) hs
  | elem j e => exact F.key i j hi (TDesc.info_not_iface (.elem j e) hk rfl) hs
  | map j a b => exact F.key i j hi (TDesc.info_not_iface (.map j a b) hk rfl) hs
  | struct j fs => exact F.key i j hi (TDesc.info_not_iface (.struct j fs) hk rfl) hs

mutual
/-- **Components.** A component the recursive check accepts is shown without failure, provided
the values held in interfaces inside it have accepted dynamic types. -/
theorem comp_sound : ∀ t : TDesc, t.wf = true → dynAccepted c t = true →
    (staticRec (staticFns c) (ShowTables.checkShowSeen c.inURL c.ast) t).isOk = true →
    (dynRec (dynFns c) t).isOk = true
  | .seen _, _, _, _ => rfl
  | .basic i, hw, _, hs => by
    simp only [staticRec] at hs
    simp only [dynRec]
    have hi : i.isIface = false := by simpa [TDesc.wf] using hw
    exact node_lift (F.comp i hi) id id id hs
  | .ifaceNil i, _, _, hs => by
    simp only [staticRec, Act.isOk_leaf] at hs
    simp only [dynRec, Act.isOk_leaf]
    exact F.compNil i hs
  | .ifaceVal _ d, hw, ha, _ => by
    simp only [dynAccepted, Bool.and_eq_true, Bool.not_eq_true'] at ha
    simp only [dynRec]
    exact comp_sound d (by simpa [TDesc.wf] using hw) ha.2 (isOk_of_beq ha.1.2)
  | .elem i e, hw, ha, hs => by
    simp only [TDesc.wf, Bool.and_eq_true, Bool.not_eq_true'] at hw
    simp only [dynAccepted] at ha
    simp only [staticRec] at hs
    simp only [dynRec]
    exact node_lift (F.comp i hw.1) (comp_sound e hw.2 ha) id id hs
  | .map i k v, hw, ha, hs => by
    simp only [TDesc.wf, Bool.and_eq_true] at hw
    simp only [dynAccepted, Bool.and_eq_true] at ha
    simp only [staticRec] at hs
    simp only [dynRec]
    have hi : i.isIface = false := by
      have := hw.1.1
      simp only [mapInfoWF, Bool.and_eq_true, beq_iff_eq] at this
      simp [TInfo.isIface, this.1, this.2]
    exact node_lift (F.comp i hi) (comp_sound v hw.2 ha.2) id (key_lift F i k hw.1.1 hw.1.2 ha.1) hs
  | .struct i fs, hw, ha, hs => by
    simp only [TDesc.wf, Bool.and_eq_true, Bool.not_eq_true'] at hw
    simp only [dynAccepted] at ha
    simp only [staticRec] at hs
    simp only [dynRec]
    exact node_lift (F.comp i hw.1) id (fields_sound fs hw.2 ha) id hs
theorem fields_sound : ∀ fs : TFields, fs.wf = true → fieldsAccepted c fs = true →
    (staticFields (staticFns c) (ShowTables.checkShowSeen c.inURL c.ast) fs).isOk = true →
    (dynFields (dynFns c) fs).isOk = true
  | .nil, _, _, _ => rfl
  | .cons exported t rest, hw, ha, hs => by
    simp only [TFields.wf, Bool.and_eq_true] at hw
    simp only [fieldsAccepted, Bool.and_eq_true] at ha
    simp only [staticFields] at hs
    simp only [dynFields]
    cases exported with
    | false =>
      simp only [Bool.false_eq_true, if_false] at hs ⊢
      exact fields_sound rest hw.2 ha.2 hs
    | true =>
      simp only [if_true] at hs ⊢
      cases hst : staticRec (staticFns c) (ShowTables.checkShowSeen c.inURL c.ast) t with
      | ok =>
        rw [hst] at hs
        have h1 := comp_sound t hw.1 ha.1 (by rw [hst]; rfl)
        have h2 := fields_sound rest hw.2 ha.2 hs
        cases hdt : dynRec (dynFns c) t with
        | ok => simpa using h2
        | fail => rw [hdt] at h1; cases h1
        | panic => rw [hdt] at h1; cases h1
      | fail => rw [hst] at hs; cases hs
      | panic => rw [hst] at hs; cases hs
end

/-- **The shown value, static type not an interface.** -/
theorem top_sound_noniface (t : TDesc) (hw : t.wf = true) (hni : t.isInterface = false)
    (ha : dynAccepted c t = true) :
    (staticTop c t).isOk = true → (dynTop c t).isOk = true := by
  intro hs
  cases t with
  | ifaceNil i => cases hni
  | ifaceVal i d => cases hni
  | basic i =>
    simp only [staticTop] at hs
    simp only [dynTop]
    exact node_lift (F.top i (by simpa [TDesc.wf] using hw)) id id id hs
  | seen i =>
    simp only [staticTop] at hs
    simp only [dynTop]
    exact node_lift (F.top i (by simpa [TDesc.wf] using hw)) id id id hs
  | elem i e =>
    simp only [TDesc.wf, Bool.and_eq_true, Bool.not_eq_true'] at hw
    simp only [dynAccepted] at ha
    simp only [staticTop] at hs
    simp only [dynTop]
    exact node_lift (F.top i hw.1) (comp_sound F e hw.2 ha) id id hs
  | map i k v =>
    simp only [TDesc.wf, Bool.and_eq_true] at hw
    simp only [dynAccepted, Bool.and_eq_true] at ha
    simp only [staticTop] at hs
    simp only [dynTop]
    have hi : i.isIface = false := by
      have := hw.1.1
      simp only [mapInfoWF, Bool.and_eq_true, beq_iff_eq] at this
      simp [TInfo.isIface, this.1, this.2]
    exact node_lift (F.top i hi) (comp_sound F v hw.2 ha.2) id (key_lift F i k hw.1.1 hw.1.2 ha.1) hs
  | struct i fs =>
    simp only [TDesc.wf, Bool.and_eq_true, Bool.not_eq_true'] at hw
    simp only [dynAccepted] at ha
    simp only [staticTop] at hs
    simp only [dynTop]
    exact node_lift (F.top i hw.1) id (fields_sound F fs hw.2 ha) id hs

/-- **The shown value, any static type**: an interface holds nil, or a value whose dynamic type
the checker accepts. -/
theorem top_sound (t : TDesc) (hw : t.wf = true) (ha : dynAcceptedTop c t = true) :
    staticOK c t = true → dynOK c t = true := by
  intro hs
  have hs' : (staticTop c t).isOk = true := hs
  show (dynTop c t).isOk = true
  cases t with
  | ifaceNil i =>
    simp only [staticTop, Act.isOk_leaf] at hs'
    simp only [dynTop, Act.isOk_leaf]
    exact F.topNil i hs'
  | ifaceVal i d =>
    simp only [dynAcceptedTop, Bool.and_eq_true, Bool.not_eq_true'] at ha
    simp only [dynTop]
    exact top_sound_noniface F d (by simpa [TDesc.wf] using hw) ha.1.1 ha.2 ha.1.2
  | basic i => exact top_sound_noniface F _ hw rfl (by simpa [dynAcceptedTop] using ha) hs'
  | seen i => exact top_sound_noniface F _ hw rfl (by simpa [dynAcceptedTop] using ha) hs'
  | elem i e => exact top_sound_noniface F _ hw rfl (by simpa [dynAcceptedTop] using ha) hs'
  | map i k v => exact top_sound_noniface F _ hw rfl (by simpa [dynAcceptedTop] using ha) hs'
  | struct i fs => exact top_sound_noniface F _ hw rfl (by simpa [dynAcceptedTop] using ha) hs'

end

/-! ### descriptors of static types: interfaces hold nothing yet -/

mutual
/-- no interface inside the descriptor is given a value: the descriptor of a static type -/
def TDesc.plain : TDesc → Bool
  | .basic _ | .seen _ | .ifaceNil _ => true
  | .ifaceVal _ _ => false
  | .elem _ e => e.plain
  | .map _ k v => k.plain && v.plain
  | .struct _ fs => fs.plain
def TFields.plain : TFields → Bool
  | .nil => true
  | .cons _ t rest => t.plain && rest.plain
end

mutual
theorem dynAccepted_of_plain (c : Ctx) : ∀ t : TDesc, t.plain = true → dynAccepted c t = true
  | .basic _, _ => rfl
  | .seen _, _ => rfl
  | .ifaceNil _, _ => rfl
  | .ifaceVal _ _, h => by cases h
  | .elem _ e, h => by
    simp only [TDesc.plain] at h
    simp only [dynAccepted]
    exact dynAccepted_of_plain c e h
  | .map i k v, h => by
    simp only [TDesc.plain, Bool.and_eq_true] at h
    simp only [dynAccepted, Bool.and_eq_true]
    refine ⟨?_, dynAccepted_of_plain c v h.2⟩
    cases k <;> simp_all [keyAccepted, TDesc.plain]
  | .struct _ fs, h => by
    simp only [TDesc.plain] at h
    simp only [dynAccepted]
    exact fieldsAccepted_of_plain c fs h
theorem fieldsAccepted_of_plain (c : Ctx) : ∀ fs : TFields, fs.plain = true → fieldsAccepted c fs = true
  | .nil, _ => rfl
  | .cons _ t rest, h => by
    simp only [TFields.plain, Bool.and_eq_true] at h
    simp only [fieldsAccepted, Bool.and_eq_true]
    exact ⟨dynAccepted_of_plain c t h.1, fieldsAccepted_of_plain c rest h.2⟩
end

theorem dynAcceptedTop_of_plain (c : Ctx) (t : TDesc) (h : t.plain = true) : dynAcceptedTop c t = true := by
  cases t with
  | ifaceVal _ _ => cases h
  | basic i => exact dynAccepted_of_plain c _ h
  | seen i => exact dynAccepted_of_plain c _ h
  | ifaceNil i => exact dynAccepted_of_plain c _ h
  | elem i e => exact dynAccepted_of_plain c _ h
  | map i k v => exact dynAccepted_of_plain c _ h
  | struct i fs => exact dynAccepted_of_plain c _ h

end ScriggoV.Show
