import ScriggoV.Lemmas.ShowValueStr
/-! C08 helper lemmas, part 2: how the decoder of `Spec/JSON.lean` runs over texts put
together from pieces that are themselves decodable (`ParsesTo`): atoms, strings, arrays joined
by commas, members joined by commas. -/
namespace ScriggoV.ShowValue
open ScriggoV ScriggoV.JSON

/-! ### white space -/

/-- a first byte at which `skipWs` stops -/
def startOK (c : UInt8) : Bool := !isWs c && c != 0x2F

theorem skipWs_nil (js : Bool) : skipWs js false [] = some [] := by rw [skipWs.eq_def]

theorem skipWs_start (js : Bool) (c : UInt8) (r : Bytes) (h : startOK c = true) :
    skipWs js false (c :: r) = some (c :: r) := by
  simp only [startOK, Bool.and_eq_true, Bool.not_eq_true', bne_iff_ne, ne_eq] at h
  rw [skipWs.eq_def]
  simp only [h.1]
  cases r with
  | nil => simp
  | cons d r' =>
    have : (c == 0x2F) = false := by simpa using h.2
    simp [this]

/-- `skipWs` is idempotent: it stops where it would stop again -/
theorem skipWs_idem (js : Bool) (st : Bool) (s s' : Bytes) (h : skipWs js st s = some s') :
    skipWs js false s' = some s' := by
  induction st, s using skipWs.induct js with
  | case1 => rw [skipWs.eq_def] at h; simp at h; subst h; exact skipWs_nil js
  | case2 => rw [skipWs.eq_def] at h; simp at h
  | case3 c r hc ih => rw [skipWs.eq_def] at h; simp only [hc, if_true] at h; exact ih h
  | case4 c hc =>
    rw [skipWs.eq_def] at h; simp only [hc] at h; simp at h; subst h
    rw [skipWs.eq_def]; simp [hc]
  | case5 c hc d r' hcd ih =>
    rw [skipWs.eq_def] at h; simp only [hc, hcd] at h; simp at h; exact ih h
  | case6 c hc d r' hcd =>
    rw [skipWs.eq_def] at h; simp only [hc, hcd] at h; simp at h; subst h
    rw [skipWs.eq_def]; simp [hc, hcd]
  | case7 c => rw [skipWs.eq_def] at h; simp at h
  | case8 c d r' hcd ih => rw [skipWs.eq_def] at h; simp only [hcd] at h; simp at h; exact ih h
  | case9 c d r' hcd ih => rw [skipWs.eq_def] at h; simp only [hcd] at h; simp at h; exact ih h

/-- what follows a value inside an array or object, or the end of the text -/
def Delim (rest : Bytes) : Prop :=
  rest = [] ∨ ∃ c r, rest = c :: r ∧ (c = 0x2C ∨ c = 0x5D ∨ c = 0x7D)

theorem Delim.nil : Delim [] := Or.inl rfl
theorem Delim.comma (r : Bytes) : Delim (0x2C :: r) := Or.inr ⟨_, _, rfl, Or.inl rfl⟩
theorem Delim.rbracket (r : Bytes) : Delim (0x5D :: r) := Or.inr ⟨_, _, rfl, Or.inr (Or.inl rfl)⟩
theorem Delim.rbrace (r : Bytes) : Delim (0x7D :: r) := Or.inr ⟨_, _, rfl, Or.inr (Or.inr rfl)⟩

theorem skipWs_delim (js : Bool) (rest : Bytes) (h : Delim rest) : skipWs js false rest = some rest := by
  rcases h with h | ⟨c, r, h, hc⟩
  · subst h; exact skipWs_nil js
  · subst h
    apply skipWs_start
    rcases hc with hc | hc | hc <;> subst hc <;> decide

theorem Delim.head_not_numChar (rest : Bytes) (h : Delim rest) :
    rest.dropWhile isNumChar = rest ∧ rest.takeWhile isNumChar = [] := by
  rcases h with h | ⟨c, r, h, hc⟩
  · subst h; simp
  · subst h
    have : isNumChar c = false := by rcases hc with hc | hc | hc <;> subst hc <;> decide
    simp [List.dropWhile, List.takeWhile, this]

/-! ### `ParsesTo` -/

/-- `s` is a text for `d` wherever a value may stand: followed by a delimiter (or nothing), with
fuel for the whole remaining input, the decoder returns `d` and stops at something that is the
delimiter after white space (for JS: after the trailing comment). -/
def ParsesTo (js : Bool) (s : Bytes) (d : Data) : Prop :=
  s ≠ [] ∧ ∀ rest f, Delim rest → 2 * (s ++ rest).length + 2 ≤ f →
    ∃ r', parseValue js f (s ++ rest) = some (d, r') ∧ skipWs js false r' = some rest

/-- the decoder looks at its input only after `skipWs` -/
theorem parseValue_skipWs (js : Bool) (f : Nat) (s s' : Bytes) (h : skipWs js false s = some s') :
    parseValue js f s = parseValue js f s' := by
  cases f with
  | zero => rw [parseValue.eq_1, parseValue.eq_1]
  | succ f => rw [parseValue.eq_2, parseValue.eq_2, h, skipWs_idem js false s s' h]

theorem parseElems_skipWs (js : Bool) (f : Nat) (s s' : Bytes) (h : skipWs js false s = some s') :
    parseElems js f s = parseElems js f s' := by
  cases f with
  | zero => rw [parseElems.eq_1, parseElems.eq_1]
  | succ f => rw [parseElems.eq_2, parseElems.eq_2, parseValue_skipWs js f s s' h]

theorem stripPrefix_append (p s : Bytes) : stripPrefix p (p ++ s) = some s := by
  induction p with
  | nil => rfl
  | cons a p ih => simp [stripPrefix, ih]

/-- a first byte no value starts with -/
def closer (c : UInt8) : Bool := c == 0x2C || c == 0x5D || c == 0x7D

theorem parseAtom_closer (js : Bool) (c : UInt8) (r : Bytes) (h : closer c = true) :
    parseAtom js (c :: r) = none := by
  have hn : isNumChar c = false := by
    simp only [closer, Bool.or_eq_true, beq_iff_eq] at h
    rcases h with (h | h) | h <;> subst h <;> decide
  simp only [closer, Bool.or_eq_true, beq_iff_eq] at h
  unfold parseAtom
  rcases h with (h | h) | h <;> subst h <;> cases js <;>
    simp [stripPrefix, kwNull, kwTrue, kwFalse, kwUndefined, kwNewDate, kwNaN, List.takeWhile, isNumber, isNumChar, isDigit]

/-- a text that decodes starts (after white space) with a byte that is not `,` `]` `}` -/
theorem parseValue_head (js : Bool) (f : Nat) (s : Bytes) (x : Data × Bytes)
    (h : parseValue js f s = some x) :
    ∃ c t, skipWs js false s = some (c :: t) ∧ closer c = false := by
  cases f with
  | zero => rw [parseValue.eq_1] at h; exact absurd h (by simp)
  | succ f =>
    rw [parseValue.eq_2] at h
    split at h
    · exact absurd h (by simp)
    · exact absurd h (by simp)
    · rename_i c r hs
      refine ⟨c, r, hs, ?_⟩
      cases hc : closer c with
      | false => rfl
      | true =>
        have h1 : (c == 0x5B) = false := by
          simp only [closer, Bool.or_eq_true, beq_iff_eq] at hc
          rcases hc with (hc | hc) | hc <;> subst hc <;> decide
        have h2 : (c == 0x7B) = false := by
          simp only [closer, Bool.or_eq_true, beq_iff_eq] at hc
          rcases hc with (hc | hc) | hc <;> subst hc <;> decide
        have h3 : (c == 0x22) = false := by
          simp only [closer, Bool.or_eq_true, beq_iff_eq] at hc
          rcases hc with (hc | hc) | hc <;> subst hc <;> decide
        simp only [h1, h2, h3] at h
        rw [if_neg (by simp), if_neg (by simp), if_neg (by simp), parseAtom_closer js c r hc] at h
        exact absurd h (by simp)

theorem ParsesTo.top {js : Bool} {s : Bytes} {d : Data} (h : ParsesTo js s d) :
    parseTop js s = some d := by
  obtain ⟨r', h1, h2⟩ := h.2 [] (2 * s.length + 2) Delim.nil (by simp)
  unfold parseTop
  simp only [List.append_nil] at h1
  rw [h1]
  simp [h2]

/-! ### atoms -/

/-- generic: a text starting with a byte that is none of `[ { "`, not white space, on which
`parseAtom` gives `(d, rest)` -/
theorem parsesTo_of_atom (js : Bool) (c : UInt8) (t : Bytes) (d : Data)
    (hs : startOK c = true) (h1 : c ≠ 0x5B) (h2 : c ≠ 0x7B) (h3 : c ≠ 0x22)
    (h : ∀ rest, Delim rest → ∃ r', parseAtom js (c :: t ++ rest) = some (d, r') ∧
      skipWs js false r' = some rest) :
    ParsesTo js (c :: t) d := by
  refine ⟨by simp, ?_⟩
  intro rest f hd hf
  cases f with
  | zero => omega
  | succ f =>
    rw [parseValue.eq_2]
    simp only [List.cons_append]
    rw [skipWs_start js c _ hs]
    have e1 : (c == 0x5B) = false := by simpa using h1
    have e2 : (c == 0x7B) = false := by simpa using h2
    have e3 : (c == 0x22) = false := by simpa using h3
    simp only [e1, e2, e3]
    rw [if_neg (by simp), if_neg (by simp), if_neg (by simp)]
    exact h rest hd

theorem parsesTo_null (js : Bool) : ParsesTo js kwNull .null := by
  apply parsesTo_of_atom js 0x6E [0x75, 0x6C, 0x6C] .null (by decide) (by decide) (by decide) (by decide)
  intro rest hd
  refine ⟨rest, ?_, skipWs_delim js rest hd⟩
  unfold parseAtom
  have : stripPrefix kwNull (0x6E :: [0x75, 0x6C, 0x6C] ++ rest) = some rest := stripPrefix_append kwNull rest
  rw [this]

theorem parsesTo_true (js : Bool) : ParsesTo js kwTrue (.bool true) := by
  apply parsesTo_of_atom js 0x74 [0x72, 0x75, 0x65] _ (by decide) (by decide) (by decide) (by decide)
  intro rest hd
  refine ⟨rest, ?_, skipWs_delim js rest hd⟩
  unfold parseAtom
  have h0 : stripPrefix kwNull (0x74 :: [0x72, 0x75, 0x65] ++ rest) = none := by simp [stripPrefix, kwNull]
  have : stripPrefix kwTrue (0x74 :: [0x72, 0x75, 0x65] ++ rest) = some rest := stripPrefix_append kwTrue rest
  rw [h0, this]

theorem parsesTo_false (js : Bool) : ParsesTo js kwFalse (.bool false) := by
  apply parsesTo_of_atom js 0x66 [0x61, 0x6C, 0x73, 0x65] _ (by decide) (by decide) (by decide) (by decide)
  intro rest hd
  refine ⟨rest, ?_, skipWs_delim js rest hd⟩
  unfold parseAtom
  have h0 : stripPrefix kwNull (0x66 :: [0x61, 0x6C, 0x73, 0x65] ++ rest) = none := by simp [stripPrefix, kwNull]
  have h1 : stripPrefix kwTrue (0x66 :: [0x61, 0x6C, 0x73, 0x65] ++ rest) = none := by simp [stripPrefix, kwTrue]
  have : stripPrefix kwFalse (0x66 :: [0x61, 0x6C, 0x73, 0x65] ++ rest) = some rest := stripPrefix_append kwFalse rest
  rw [h0, h1, this]

/-- facts about the first byte of a number token, all 256 bytes -/
def numStartCheck (c : UInt8) : Bool :=
  !isNumChar c || (startOK c && c != 0x5B && c != 0x7B && c != 0x22 && c != 0x6E && c != 0x74 && c != 0x66 && c != 0x75 && c != 0x4E)

theorem numStartCheck_all : allBytes numStartCheck = true := by decide +kernel

theorem takeWhile_append_of_all {p : UInt8 → Bool} (a b : Bytes) (ha : a.all p = true)
    (hb : b.takeWhile p = []) : (a ++ b).takeWhile p = a := by
  induction a with
  | nil => simpa using hb
  | cons x a ih =>
    simp only [List.all_cons, Bool.and_eq_true] at ha
    simp [ha.1, ih ha.2]

theorem dropWhile_append_of_all {p : UInt8 → Bool} (a b : Bytes) (ha : a.all p = true)
    (hb : b.dropWhile p = b) : (a ++ b).dropWhile p = b := by
  induction a with
  | nil => simpa using hb
  | cons x a ih =>
    simp only [List.all_cons, Bool.and_eq_true] at ha
    simp [ha.1, ih ha.2]

/-- an RFC 8259 number token decodes to itself -/
theorem parsesTo_num (js : Bool) (tok : Bytes) (hn : isNumber tok = true)
    (ha : tok.all isNumChar = true) : ParsesTo js tok (.num tok) := by
  cases tok with
  | nil => exact absurd hn (by simp [isNumber])
  | cons c t =>
    have hc : isNumChar c = true := by
      simp only [List.all_cons, Bool.and_eq_true] at ha; exact ha.1
    have hk := allBytes_spec numStartCheck_all c
    simp only [numStartCheck, hc, Bool.not_true, Bool.false_or, Bool.and_eq_true, bne_iff_ne, ne_eq] at hk
    obtain ⟨⟨⟨⟨⟨⟨⟨⟨k0, k1⟩, k2⟩, k3⟩, k4⟩, k5⟩, k6⟩, k7⟩, k8⟩ := hk
    apply parsesTo_of_atom js c t _ k0 k1 k2 k3
    intro rest hd
    refine ⟨rest, ?_, skipWs_delim js rest hd⟩
    obtain ⟨hd1, hd2⟩ := hd.head_not_numChar
    unfold parseAtom
    have n1 : stripPrefix kwNull (c :: t ++ rest) = none := by
      have : (0x6E == c) = false := by simpa using (Ne.symm k4)
      simp [stripPrefix, kwNull, this]
    have n2 : stripPrefix kwTrue (c :: t ++ rest) = none := by
      have : (0x74 == c) = false := by simpa using (Ne.symm k5)
      simp [stripPrefix, kwTrue, this]
    have n3 : stripPrefix kwFalse (c :: t ++ rest) = none := by
      have : (0x66 == c) = false := by simpa using (Ne.symm k6)
      simp [stripPrefix, kwFalse, this]
    have n4 : (if js = true then stripPrefix kwUndefined (c :: t ++ rest) else none) = none := by
      have : (0x75 == c) = false := by simpa using (Ne.symm k7)
      cases js <;> simp [stripPrefix, kwUndefined, this]
    have n5 : (if js = true then stripPrefix kwNewDate (c :: t ++ rest) else none) = none := by
      have : (0x6E == c) = false := by simpa using (Ne.symm k4)
      cases js <;> simp [stripPrefix, kwNewDate, this]
    have n6 : (if js = true then stripPrefix kwNaN (c :: t ++ rest) else none) = none := by
      have : (0x4E == c) = false := by simpa using (Ne.symm k8)
      cases js <;> simp [stripPrefix, kwNaN, this]
    rw [n1, n2, n3, n4, n5, n6]
    have e1 : (c :: t ++ rest).takeWhile isNumChar = c :: t := takeWhile_append_of_all (c :: t) rest ha hd2
    have e2 : (c :: t ++ rest).dropWhile isNumChar = rest := dropWhile_append_of_all (c :: t) rest ha hd1
    simp only [e1, e2, hn, if_true]

/-- JavaScript: the global `NaN` -/
theorem parsesTo_nan : ParsesTo true kwNaN (.num kwNaN) := by
  apply parsesTo_of_atom true 0x4E [0x61, 0x4E] _ (by decide) (by decide) (by decide) (by decide)
  intro rest hd
  refine ⟨rest, ?_, skipWs_delim true rest hd⟩
  unfold parseAtom
  have n1 : ∀ z, stripPrefix kwNull (0x4E :: z) = none := by intro z; simp [stripPrefix, kwNull]
  have n2 : ∀ z, stripPrefix kwTrue (0x4E :: z) = none := by intro z; simp [stripPrefix, kwTrue]
  have n3 : ∀ z, stripPrefix kwFalse (0x4E :: z) = none := by intro z; simp [stripPrefix, kwFalse]
  have n4 : ∀ z, stripPrefix kwUndefined (0x4E :: z) = none := by intro z; simp [stripPrefix, kwUndefined]
  have n5 : ∀ z, stripPrefix kwNewDate (0x4E :: z) = none := by intro z; simp [stripPrefix, kwNewDate]
  simp only [List.cons_append]
  rw [n1, n2, n3]
  simp only [if_true, n4, n5]
  have : 0x4E :: 0x61 :: 0x4E :: ([] ++ rest) = kwNaN ++ rest := by simp [kwNaN]
  rw [this, stripPrefix_append]

/-! ### strings -/

/-- a quoted body that the string decoder takes back to `decoded` -/
theorem parsesTo_str (js : Bool) (body decoded : Bytes)
    (h : ∀ rest, parseStr (body ++ 0x22 :: rest) = some (decoded, rest)) :
    ParsesTo js (0x22 :: body ++ [0x22]) (.str decoded) := by
  refine ⟨by simp, ?_⟩
  intro rest f hd hf
  cases f with
  | zero => omega
  | succ f =>
    refine ⟨rest, ?_, skipWs_delim js rest hd⟩
    rw [parseValue.eq_2]
    simp only [List.cons_append, List.append_assoc]
    rw [skipWs_start js 0x22 _ (by decide)]
    simp only []
    rw [if_neg (by decide), if_neg (by decide), if_pos (by decide)]
    have := h rest
    simp only [List.nil_append] at this ⊢
    rw [this]

/-! ### JavaScript only: `undefined` with its comment, `new Date("…")` -/

/-- no `*/` inside -/
def noCE : Bytes → Bool
  | [] => true
  | [_] => true
  | c :: d :: r => !(c == 0x2A && d == 0x2F) && noCE (d :: r)

/-- the scanner in comment state runs to the first `*/` -/
theorem skipWs_comment (js : Bool) (s rest : Bytes) (h : noCE s = true) :
    skipWs js true (s ++ 0x2A :: 0x2F :: rest) = skipWs js false rest := by
  induction s with
  | nil => rw [skipWs.eq_def]; simp
  | cons c t ih =>
    cases t with
    | nil =>
      rw [skipWs.eq_def]
      simp only [List.cons_append, List.nil_append]
      rw [if_neg (by simp)]
      exact ih rfl
    | cons d r =>
      rw [noCE] at h
      simp only [Bool.and_eq_true, Bool.not_eq_true'] at h
      rw [skipWs.eq_def]
      simp only [List.cons_append]
      rw [if_neg (by simp [h.1])]
      exact ih h.2

theorem noCE_append (x y : Bytes) (hx : noCE x = true) (hy : noCE y = true)
    (hj : x.getLast? ≠ some 0x2A ∨ y.head? ≠ some 0x2F) : noCE (x ++ y) = true := by
  induction x with
  | nil => simpa using hy
  | cons c t ih =>
    cases t with
    | nil =>
      cases y with
      | nil => rfl
      | cons d r =>
        simp only [List.cons_append, List.nil_append]
        rw [noCE]
        simp only [Bool.and_eq_true, Bool.not_eq_true']
        refine ⟨?_, hy⟩
        rcases hj with hj | hj
        · have : c ≠ 0x2A := by simpa using hj
          simp [this]
        · have : d ≠ 0x2F := by simpa using hj
          simp [this]
    | cons d r =>
      rw [noCE] at hx
      simp only [Bool.and_eq_true, Bool.not_eq_true'] at hx
      simp only [List.cons_append]
      rw [noCE]
      simp only [Bool.and_eq_true, Bool.not_eq_true']
      refine ⟨hx.1, ?_⟩
      apply ih hx.2
      rcases hj with hj | hj
      · left; simpa [List.getLast?_cons_cons] using hj
      · right; exact hj

/-- `undefined/*` body `*/` is the JS expression `undefined` followed by a comment -/
theorem parsesTo_undefined (body : Bytes) (h : noCE body = true) :
    ParsesTo true (kwUndefined ++ 0x2F :: 0x2A :: body ++ [0x2A, 0x2F]) .undefined := by
  have e : kwUndefined ++ 0x2F :: 0x2A :: body ++ [0x2A, 0x2F]
      = 0x75 :: ([0x6E, 0x64, 0x65, 0x66, 0x69, 0x6E, 0x65, 0x64] ++ 0x2F :: 0x2A :: body ++ [0x2A, 0x2F]) := by
    simp [kwUndefined]
  rw [e]
  apply parsesTo_of_atom true 0x75 _ _ (by decide) (by decide) (by decide) (by decide)
  intro rest hd
  refine ⟨0x2F :: 0x2A :: (body ++ 0x2A :: 0x2F :: rest), ?_, ?_⟩
  · unfold parseAtom
    have n1 : ∀ z, stripPrefix kwNull (0x75 :: z) = none := by intro z; simp [stripPrefix, kwNull]
    have n2 : ∀ z, stripPrefix kwTrue (0x75 :: z) = none := by intro z; simp [stripPrefix, kwTrue]
    have n3 : ∀ z, stripPrefix kwFalse (0x75 :: z) = none := by intro z; simp [stripPrefix, kwFalse]
    have : 0x75 :: ([0x6E, 0x64, 0x65, 0x66, 0x69, 0x6E, 0x65, 0x64] ++ 0x2F :: 0x2A :: body ++ [0x2A, 0x2F]) ++ rest
        = kwUndefined ++ (0x2F :: 0x2A :: (body ++ 0x2A :: 0x2F :: rest)) := by simp [kwUndefined]
    simp only [List.cons_append]
    rw [n1, n2, n3]
    simp only [List.cons_append] at this
    rw [this]
    simp only [if_true, stripPrefix_append]
  · rw [skipWs.eq_def]
    simp only []
    rw [if_neg (by decide)]
    simp only [Bool.true_and]
    rw [if_pos (by decide), skipWs_comment true body rest h]
    exact skipWs_delim true rest hd

/-- `new Date("` plain body `")` -/
theorem parsesTo_date (body : Bytes) (h : body.all plain = true) :
    ParsesTo true (kwNewDate ++ body ++ [0x22, 0x29]) (.date body) := by
  have e : kwNewDate ++ body ++ [0x22, 0x29]
      = 0x6E :: ([0x65, 0x77, 0x20, 0x44, 0x61, 0x74, 0x65, 0x28, 0x22] ++ body ++ [0x22, 0x29]) := by
    simp [kwNewDate]
  rw [e]
  apply parsesTo_of_atom true 0x6E _ _ (by decide) (by decide) (by decide) (by decide)
  intro rest hd
  refine ⟨rest, ?_, skipWs_delim true rest hd⟩
  unfold parseAtom
  have n1 : ∀ z, stripPrefix kwNull (0x6E :: 0x65 :: z) = none := by intro z; simp [stripPrefix, kwNull]
  have n2 : ∀ z, stripPrefix kwTrue (0x6E :: z) = none := by intro z; simp [stripPrefix, kwTrue]
  have n3 : ∀ z, stripPrefix kwFalse (0x6E :: z) = none := by intro z; simp [stripPrefix, kwFalse]
  have n4 : ∀ z, stripPrefix kwUndefined (0x6E :: z) = none := by intro z; simp [stripPrefix, kwUndefined]
  have : 0x6E :: ([0x65, 0x77, 0x20, 0x44, 0x61, 0x74, 0x65, 0x28, 0x22] ++ body ++ [0x22, 0x29]) ++ rest
      = kwNewDate ++ (body ++ 0x22 :: 0x29 :: rest) := by simp [kwNewDate]
  have t1 : 0x6E :: ([0x65, 0x77, 0x20, 0x44, 0x61, 0x74, 0x65, 0x28, 0x22] ++ body ++ [0x22, 0x29]) ++ rest
      = 0x6E :: 0x65 :: ([0x77, 0x20, 0x44, 0x61, 0x74, 0x65, 0x28, 0x22] ++ body ++ [0x22, 0x29] ++ rest) := by simp
  rw [t1, n1, n2, n3]
  simp only [if_true, n4]
  rw [← t1, this, stripPrefix_append]
  simp only []
  rw [parseStr_plain_all body (0x29 :: rest) h]
  simp

/-! ### arrays -/

/-- element texts and what they decode to, pairwise -/
def AllParse (js : Bool) : List Bytes → List Data → Prop
  | [], [] => True
  | r :: rs, d :: ds => ParsesTo js r d ∧ AllParse js rs ds
  | _, _ => False

theorem joinElems_cons2 (sep x y : Bytes) (r : List Bytes) :
    joinElems sep (x :: y :: r) = x ++ sep ++ joinElems sep (y :: r) := by rw [joinElems]

theorem joinElems_single (sep x : Bytes) : joinElems sep [x] = x := by rw [joinElems]

theorem joinElems_ne_nil (sep : Bytes) (r : Bytes) (rs : List Bytes) (h : r ≠ []) :
    joinElems sep (r :: rs) ≠ [] := by
  cases rs with
  | nil => rw [joinElems_single]; exact h
  | cons y t => rw [joinElems_cons2]; simp [h]

/-- `value (, value)* ]` -/
theorem parseElems_join (js : Bool) (rs : List Bytes) (ds : List Data) (h : AllParse js rs ds)
    (hne : rs ≠ []) (rest : Bytes) (f : Nat)
    (hf : 2 * (joinElems [0x2C] rs ++ 0x5D :: rest).length + 3 ≤ f) :
    parseElems js f (joinElems [0x2C] rs ++ 0x5D :: rest) = some (ds, rest) := by
  induction rs generalizing ds f with
  | nil => exact absurd rfl hne
  | cons r rs ih =>
    cases ds with
    | nil => exact absurd h (by simp [AllParse])
    | cons d ds =>
      obtain ⟨h1, h2⟩ := h
      cases f with
      | zero => omega
      | succ f =>
        rw [parseElems.eq_2]
        cases rs with
        | nil =>
          cases ds with
          | cons _ _ => exact absurd h2 (by simp [AllParse])
          | nil =>
            rw [joinElems_single] at hf ⊢
            obtain ⟨r', p1, p2⟩ := h1.2 (0x5D :: rest) f (Delim.rbracket rest) (by omega)
            rw [p1]
            simp only [p2]
            rw [if_neg (by decide), if_pos (by decide)]
        | cons y t =>
          rw [joinElems_cons2] at hf ⊢
          have e : r ++ [0x2C] ++ joinElems [0x2C] (y :: t) ++ 0x5D :: rest
              = r ++ 0x2C :: (joinElems [0x2C] (y :: t) ++ 0x5D :: rest) := by simp
          rw [e] at hf ⊢
          obtain ⟨r', p1, p2⟩ := h1.2 (0x2C :: (joinElems [0x2C] (y :: t) ++ 0x5D :: rest)) f (Delim.comma _) (by omega)
          rw [p1]
          simp only [p2]
          rw [if_pos (by decide)]
          have hr : r ≠ [] := h1.1
          have hl : 0 < r.length := List.length_pos_iff.mpr hr
          rw [ih ds h2 (by simp) f (by simp only [List.length_append, List.length_cons] at hf ⊢; omega)]

/-- a text `parseElems` accepts starts (after white space) with a byte that is not a closer -/
theorem parseValue_head_of_elems (js : Bool) (f : Nat) (s : Bytes) (x : List Data × Bytes)
    (h : parseElems js f s = some x) :
    ∃ c t, skipWs js false s = some (c :: t) ∧ closer c = false := by
  cases f with
  | zero => rw [parseElems.eq_1] at h; exact absurd h (by simp)
  | succ f =>
    rw [parseElems.eq_2] at h
    split at h
    · exact absurd h (by simp)
    · rename_i d r hv
      exact parseValue_head js f s (d, r) hv

/-- `[` elements `]` -/
theorem parsesTo_arr (js : Bool) (rs : List Bytes) (ds : List Data) (h : AllParse js rs ds)
    (hne : rs ≠ []) :
    ParsesTo js (0x5B :: joinElems [0x2C] rs ++ [0x5D]) (.arr ds) := by
  refine ⟨by simp, ?_⟩
  intro rest f hd hf
  cases f with
  | zero => omega
  | succ f =>
    refine ⟨rest, ?_, skipWs_delim js rest hd⟩
    rw [parseValue.eq_2]
    simp only [List.cons_append, List.append_assoc, List.nil_append]
    rw [skipWs_start js 0x5B _ (by decide)]
    simp only []
    rw [if_pos (by decide)]
    have key := parseElems_join js rs ds h hne rest f
      (by simp only [List.cons_append, List.append_assoc, List.length_cons, List.length_append, List.length_nil] at hf ⊢; omega)
    -- the first element's first byte
    cases rs with
    | nil => exact absurd rfl hne
    | cons r rs' =>
      cases ds with
      | nil => exact absurd h (by simp [AllParse])
      | cons d ds' =>
        obtain ⟨c, t, hs, hc⟩ := parseValue_head_of_elems js f _ _ key
        rw [hs]
        simp only []
        have : (c == 0x5D) = false := by
          cases hcc : c == 0x5D with
          | false => rfl
          | true => rw [beq_iff_eq] at hcc; subst hcc; exact absurd hc (by decide)
        simp only [this]
        rw [if_neg (by simp), ← parseElems_skipWs js f _ _ hs, key]

theorem parsesTo_arr_empty (js : Bool) : ParsesTo js [0x5B, 0x5D] (.arr []) := by
  refine ⟨by simp, ?_⟩
  intro rest f hd hf
  cases f with
  | zero => omega
  | succ f =>
    refine ⟨rest, ?_, skipWs_delim js rest hd⟩
    rw [parseValue.eq_2]
    simp only [List.cons_append, List.nil_append]
    rw [skipWs_start js 0x5B _ (by decide)]
    simp only []
    rw [if_pos (by decide), skipWs_start js 0x5D _ (by decide)]
    simp

/-! ### objects -/

/-- the member loops with the literals both functions use -/
abbrev joinKV' : Bool → List (Bytes × Bytes) → Bytes := joinKV [0x22] [0x2C, 0x22] [0x22, 0x3A]

theorem joinKV'_true (k v : Bytes) (r : List (Bytes × Bytes)) :
    joinKV' true ((k, v) :: r) = 0x22 :: (jsStrEsc k ++ 0x22 :: 0x3A :: (v ++ joinKV' false r)) := by
  simp [joinKV', joinKV]

theorem joinKV'_false (k v : Bytes) (r : List (Bytes × Bytes)) :
    joinKV' false ((k, v) :: r) = 0x2C :: joinKV' true ((k, v) :: r) := by
  simp [joinKV', joinKV]

theorem joinKV'_nil (b : Bool) : joinKV' b [] = [] := by simp [joinKV', joinKV]

/-- `string : value (, string : value)* }` -/
theorem parseMembers_join (js : Bool) (ps : List (Bytes × Bytes)) (ds : List Data)
    (h : AllParse js (ps.map (·.2)) ds) (hne : ps ≠ []) (rest : Bytes) (f : Nat)
    (hf : 2 * (joinKV' true ps ++ 0x7D :: rest).length + 3 ≤ f) :
    parseMembers js f (joinKV' true ps ++ 0x7D :: rest) = some ((ps.map (·.1)).zip ds, rest) := by
  induction ps generalizing ds f with
  | nil => exact absurd rfl hne
  | cons p ps ih =>
    obtain ⟨k, v⟩ := p
    cases ds with
    | nil => exact absurd h (by simp [AllParse])
    | cons d ds =>
      simp only [List.map_cons] at h
      obtain ⟨h1, h2⟩ := h
      cases f with
      | zero => omega
      | succ f =>
        rw [parseMembers.eq_2, joinKV'_true]
        rw [joinKV'_true] at hf
        simp only [List.cons_append, List.append_assoc]
        rw [skipWs_start js 0x22 _ (by decide)]
        simp only []
        rw [if_neg (by decide), parseStr_jsStrEsc]
        simp only []
        rw [skipWs_start js 0x3A _ (by decide)]
        simp only []
        rw [if_neg (by decide)]
        cases ps with
        | nil =>
          cases ds with
          | cons _ _ => exact absurd h2 (by simp [AllParse])
          | nil =>
            rw [joinKV'_nil]
            simp only [List.nil_append]
            obtain ⟨r', p1, p2⟩ := h1.2 (0x7D :: rest) f (Delim.rbrace rest)
              (by simp only [joinKV'_nil, List.cons_append, List.append_assoc, List.length_cons,
                    List.length_append, List.nil_append] at hf ⊢; omega)
            rw [p1]
            simp only [p2]
            rw [if_neg (by decide), if_pos (by decide)]
            simp
        | cons q qs =>
          obtain ⟨k2, v2⟩ := q
          rw [joinKV'_false]
          rw [joinKV'_false] at hf
          simp only [List.cons_append]
          obtain ⟨r', p1, p2⟩ := h1.2 (0x2C :: (joinKV' true ((k2, v2) :: qs) ++ 0x7D :: rest)) f
            (Delim.comma _)
            (by simp only [List.cons_append, List.append_assoc, List.length_cons,
                  List.length_append] at hf ⊢; omega)
          rw [p1]
          simp only [p2]
          rw [if_pos (by decide)]
          rw [ih ds h2 (by simp) f
            (by simp only [List.cons_append, List.append_assoc, List.length_cons,
                  List.length_append] at hf ⊢; omega)]
          simp

/-- `{` members `}` -/
theorem parsesTo_obj (js : Bool) (ps : List (Bytes × Bytes)) (ds : List Data)
    (h : AllParse js (ps.map (·.2)) ds) (hne : ps ≠ []) :
    ParsesTo js (0x7B :: joinKV' true ps ++ [0x7D]) (.obj ((ps.map (·.1)).zip ds)) := by
  refine ⟨by simp, ?_⟩
  intro rest f hd hf
  cases f with
  | zero => omega
  | succ f =>
    refine ⟨rest, ?_, skipWs_delim js rest hd⟩
    rw [parseValue.eq_2]
    simp only [List.cons_append, List.append_assoc, List.nil_append]
    rw [skipWs_start js 0x7B _ (by decide)]
    simp only []
    rw [if_neg (by decide), if_pos (by decide)]
    have key := parseMembers_join js ps ds h hne rest f
      (by simp only [List.cons_append, List.append_assoc, List.length_cons, List.length_append, List.length_nil] at hf ⊢; omega)
    cases ps with
    | nil => exact absurd rfl hne
    | cons p ps' =>
      obtain ⟨k, v⟩ := p
      rw [joinKV'_true] at key ⊢
      simp only [List.cons_append] at key ⊢
      rw [skipWs_start js 0x22 _ (by decide)]
      simp only []
      rw [if_neg (by decide), key]

theorem parsesTo_obj_empty (js : Bool) : ParsesTo js [0x7B, 0x7D] (.obj []) := by
  refine ⟨by simp, ?_⟩
  intro rest f hd hf
  cases f with
  | zero => omega
  | succ f =>
    refine ⟨rest, ?_, skipWs_delim js rest hd⟩
    rw [parseValue.eq_2]
    simp only [List.cons_append, List.nil_append]
    rw [skipWs_start js 0x7B _ (by decide)]
    simp only []
    rw [if_neg (by decide), if_pos (by decide), skipWs_start js 0x7D _ (by decide)]
    simp

end ScriggoV.ShowValue
