import ScriggoV.Lemmas.LexCtxAllStep
/-! # C06 layer 2, every hole — which tokens a delimiter-free iteration pushes

An iteration of the main loop at a position where no delimiter starts (HTML family of contexts)
pushes only Text, StartURL and EndURL tokens. Stated for an arbitrary predicate `Q` on the token
list (most recent first) that is closed under pushing such tokens: `step_plain_toks`.
Hoare-style (`Post` of `LexShowPreserve`). Core Lean only. -/
namespace ScriggoV.LexCtx
open ScriggoV ScriggoV.Lexer ScriggoV.Gen.LexTables

/-- `Q` survives the push of a Text / StartURL / EndURL token -/
def PushClosed (Q : List Tok → Prop) : Prop :=
  ∀ (t : Tok) (l : List Tok), (t.typ = tokenText ∨ t.typ = tokenStartURL ∨ t.typ = tokenEndURL) → Q l → Q (t :: l)

def QC (Q : List Tok → Prop) : CaseOut → Prop
  | .next st _ => Q st.toks
  | .fall st _ => Q st.toks

section
variable {Q : List Tok → Prop}

theorem emitAt_Q {E : Env} {st : St} {line col typ n : Nat} (hQ : PushClosed Q)
    (ht : typ = tokenText ∨ typ = tokenStartURL ∨ typ = tokenEndURL) (h : Q st.toks) :
    Post (emitAt E st line col typ n) (fun s => Q s.toks) := by
  intro s hs
  unfold emitAt at hs
  split at hs
  · cases hs
  · cases hs; exact hQ _ _ ht h

theorem emit_Q {E : Env} {st : St} {typ n : Nat} (hQ : PushClosed Q)
    (ht : typ = tokenText ∨ typ = tokenStartURL ∨ typ = tokenEndURL) (h : Q st.toks) :
    Post (emit E st typ n) (fun s => Q s.toks) := emitAt_Q hQ ht h

theorem flushText_Q {E : Env} {st : St} {lp : Loop} (hQ : PushClosed Q) (h : Q st.toks) :
    Post (flushText E st lp) (fun s => Q s.toks) := by
  unfold flushText
  split
  · exact emitAt_Q hQ (Or.inl rfl) h
  · exact Post.pure h

theorem walkCode_Q {E : Env} : ∀ (n i : Nat) (st : St), Q st.toks → Post (walkCode E n i st) (fun s => Q s.toks) := by
  intro n
  induction n with
  | zero => intro i st h; exact Post.pure h
  | succ n ih =>
    intro i st h
    unfold walkCode
    refine Post.bind_any (fun c => ?_)
    apply ih
    split
    · exact h
    · split <;> exact h

theorem scanTag_Q {E : Env} {st : St} {p : Nat} (h : Q st.toks) (hp : p ≤ srcLen E st) :
    Post (scanTag E st p) (fun r => Q r.1.toks) := by
  obtain ⟨st', name, q, hok, hs, _⟩ := scanTag_ok (E := E) (st := st) (p := p) hp
  intro r hr
  rw [hok] at hr; cases hr
  show Q st'.toks
  rw [hs.toks]; exact h

theorem scanAttribute_Q {E : Env} {st : St} {p : Nat} (h : Q st.toks) (hp : p ≤ srcLen E st) :
    Post (scanAttribute E st p) (fun r => Q r.1.toks) := by
  obtain ⟨st', name, q, hok, hs, _⟩ := scanAttribute_ok (E := E) (st := st) (p := p) hp
  intro r hr
  rw [hok] at hr; cases hr
  show Q st'.toks
  rw [hs.toks]; exact h

theorem typeAttr_Q {E : Env} {F : Fixed} {st : St} {p : Nat} (h : Q st.toks) :
    Post (typeAttr E F st p) (fun s => Q s.toks) := by
  unfold typeAttr
  split
  · split
    · refine Post.bind_any (fun typ => ?_)
      split
      · exact Post.pure h
      · dsimp only
        split
        · split
          · exact Post.pure h
          · split <;> exact Post.pure h
        · exact Post.pure h
    · split
      · refine Post.bind_any (fun typ => ?_)
        dsimp only
        split <;> exact Post.pure h
      · exact Post.pure h
  · exact Post.pure h

theorem caseLT_Q {E : Env} {st : St} {lp : Loop} (h : Q st.toks) (hlt : lp.p < srcLen E st) :
    Post (caseLT E st lp) (QC Q) := by
  unfold caseLT
  refine Post.bind_any (fun cdata => ?_)
  split
  · refine Post.bind_any (fun rest => ?_)
    refine Post.bind (walkCode_Q _ _ (addCol st 6) h) (fun s hs => ?_)
    exact Post.pure hs
  · refine Post.bind (scanTag_Q (st := addCol st 1) (p := lp.p + 1) h (by show lp.p + 1 ≤ srcLen E st; omega))
      (fun r hr => ?_)
    obtain ⟨s, name, q⟩ := r
    refine Post.pure ?_
    show Q _
    dsimp only
    split
    · split
      · exact hr
      · split <;> exact hr
    · exact hr

theorem caseTag_Q {E : Env} {F : Fixed} {st : St} {lp : Loop} {c : UInt8} (hQ : PushClosed Q) (h : Q st.toks)
    (hlt : lp.p < srcLen E st) : Post (caseTag E F st lp c) (QC Q) := by
  unfold caseTag
  split
  · split <;> exact Post.pure h
  · split
    · refine Post.bind (scanAttribute_Q (p := lp.p) h (by omega)) (fun r hr => ?_)
      obtain ⟨s, attr, next⟩ := r
      dsimp only
      split
      · split
        · split
          · split
            · refine Post.bind (emitAt_Q hQ (Or.inl rfl) hr) (fun s1 hs1 => ?_)
              refine Post.bind (emit_Q (st := { s1 with ctx := _ }) hQ (Or.inr (Or.inl rfl)) hs1) (fun s2 hs2 => ?_)
              exact Post.pure hs2
            · exact Post.pure hr
          · split
            · refine Post.bind (emitAt_Q hQ (Or.inl rfl) hr) (fun s1 hs1 => ?_)
              refine Post.bind (emit_Q (st := { s1 with ctx := _ }) hQ (Or.inr (Or.inl rfl)) hs1) (fun s2 hs2 => ?_)
              exact Post.pure hs2
            · exact Post.pure hr
        · exact Post.pure hr
      · exact Post.pure hr
    · exact Post.pure h

theorem caseAttr_Q {E : Env} {F : Fixed} {st : St} {lp : Loop} {c : UInt8} (hQ : PushClosed Q) (h : Q st.toks) :
    Post (caseAttr E F st lp c) (QC Q) := by
  unfold caseAttr
  split
  · dsimp only
    have hmid : Post (if lp.emittedURL = true then do
          let st ← flushText E st { lp with quote := 0 }
          let st ← emit E st tokenEndURL 0
          pure (st, { resetTok st { lp with quote := 0 } with emittedURL := false })
        else do
          let st ← typeAttr E F st lp.p
          pure (st, { lp with quote := 0 }) : Except Fault (St × Loop)) (fun r => Q r.1.toks) := by
      split
      · refine Post.bind (flushText_Q hQ h) (fun s1 hs1 => ?_)
        refine Post.bind (emit_Q hQ (Or.inr (Or.inr rfl)) hs1) (fun s2 hs2 => ?_)
        exact Post.pure hs2
      · refine Post.bind (typeAttr_Q h) (fun s1 hs1 => ?_)
        exact Post.pure hs1
    refine Post.bind hmid (fun r hr => ?_)
    obtain ⟨s, l⟩ := r
    dsimp only
    split <;> exact Post.pure hr
  · exact Post.pure h

theorem endStyleAt_any {E : Env} {F : Fixed} {st : St} {lp : Loop} {c : UInt8} {α : Type}
    {f : Bool → Except Fault α} {P : α → Prop} (hf : ∀ b, Post (f b) P) :
    Post (endStyleAt E F st lp c >>= f) P := Post.bind_any hf

theorem caseCSS_Q {E : Env} {F : Fixed} {st : St} {lp : Loop} {c : UInt8} (h : Q st.toks) :
    Post (caseCSS E F st lp c) (QC Q) := by
  unfold caseCSS
  split
  · refine Post.bind_any (fun b => ?_)
    split
    · exact Post.pure h
    · split <;> exact Post.pure h
  · split
    · split <;> exact Post.pure h
    · split
      · exact Post.pure h
      · split
        · refine Post.bind_any (fun b => ?_)
          split <;> exact Post.pure h
        · exact Post.pure h

theorem caseJS_Q {E : Env} {F : Fixed} {st : St} {lp : Loop} {c : UInt8} (h : Q st.toks) :
    Post (caseJS E F st lp c) (QC Q) := by
  unfold caseJS
  refine Post.bind_any (fun b => ?_)
  split
  · exact Post.pure h
  · split
    · split <;> exact Post.pure h
    · split
      · split <;> exact Post.pure h
      · split
        · split <;> exact Post.pure h
        · split <;> exact Post.pure h

theorem caseJSString_Q {E : Env} {F : Fixed} {st : St} {lp : Loop} {c : UInt8} {back : Nat} {q : UInt8}
    (h : Q st.toks) : Post (caseJSString E F st lp c back q) (QC Q) := by
  unfold caseJSString
  split
  · split <;> exact Post.pure h
  · split
    · exact Post.pure h
    · split
      · refine Post.bind_any (fun b => ?_)
        split <;> exact Post.pure h
      · exact Post.pure h

theorem caseJSON_Q {E : Env} {F : Fixed} {st : St} {lp : Loop} {c : UInt8} (h : Q st.toks) :
    Post (caseJSON E F st lp c) (QC Q) := by
  unfold caseJSON
  refine Post.bind_any (fun b => ?_)
  split
  · exact Post.pure h
  · split <;> exact Post.pure h

theorem ctxSwitch_Q {E : Env} {F : Fixed} {st : St} {lp : Loop} {c : UInt8} (hQ : PushClosed Q) (h : Q st.toks)
    (hlt : lp.p < srcLen E st) (hm : ¬ st.ctx = ContextMarkdown) : Post (ctxSwitch E F st lp c) (QC Q) := by
  unfold ctxSwitch
  rw [if_neg hm]
  split
  · split
    · exact caseLT_Q h hlt
    · exact Post.pure h
  · split
    · exact caseTag_Q hQ h hlt
    · split
      · exact caseAttr_Q hQ h
      · split
        · exact caseCSS_Q h
        · split
          · exact caseJS_Q h
          · split
            · exact caseJSString_Q h
            · split
              · exact caseJSON_Q h
              · split
                · exact caseJSString_Q h
                · exact Post.pure h

theorem scanCodeBlock_toks (E : Env) (st : St) (p : Nat) : (scanCodeBlock E st p).2.2.toks = st.toks := by
  unfold scanCodeBlock
  split
  · rfl
  · split <;> rfl
  · rfl

theorem tail_toks (E : Env) (st : St) (lp : Loop) (c : UInt8) : (tail E st lp c).1.toks = st.toks := by
  unfold tail
  dsimp only
  split
  · split
    · exact scanCodeBlock_toks E _ _
    · split
      · split
        · exact scanCodeBlock_toks E _ _
        · rfl
      · rfl
  · split <;> rfl

end

/-- **The tokens of a delimiter-free iteration.** In a context of the HTML family and at a position
where no delimiter starts, an iteration of the main loop pushes only Text, StartURL and EndURL
tokens: every property of the token list that survives such pushes is preserved. -/
theorem step_plain_toks {E : Env} {st st' : St} {lp lp' : Loop} {Q : List Tok → Prop} (hQ : PushClosed Q)
    (hI : LoopInv E st lp) (hlt : lp.p < srcLen E st) (hf : htmlFamily st.ctx)
    (hd : delimAt E.text (st.base + lp.p) = false) (hs : step E st lp = .ok (.cont st' lp'))
    (h : Q st.toks) : Q st'.toks := by
  obtain ⟨c, hc, hpk⟩ := srcAt_ok_of_lt hlt
  have hm := hf.not_md
  have hdel := delimAt_false hd hpk
  unfold step at hs
  simp only [hc, bind_ok, hm, false_and, if_false] at hs
  have hdd : (if lp.p + 1 < srcLen E st then peek E st (lp.p + 1) else none) = E.text[st.base + lp.p + 1]? := by
    split
    · unfold peek; rw [Nat.add_assoc]
    · rename_i hge
      symm
      apply List.getElem?_eq_none
      have := hI.base_le
      unfold srcLen at hge; omega
  rw [hdd] at hs
  have n1 : ¬ (c = 0x7b ∧ E.text[st.base + lp.p + 1]? = some 0x7b ∧ (!E.noParseShow) = true) :=
    fun h => hdel.1 ⟨h.1, h.2.1⟩
  simp only [if_neg n1, if_neg hdel.2.1, if_neg hdel.2.2.1, if_neg hdel.2.2.2] at hs
  have hsw := ctxSwitch_Q (E := E) (F := fixedOf st) (c := c) hQ h hlt hm
  cases ho : ctxSwitch E (fixedOf st) st lp c with
  | error f => rw [ho] at hs; cases hs
  | ok o =>
    have ho' := hsw o ho
    rw [ho] at hs
    simp only [bind_ok] at hs
    cases o with
    | next s l =>
      simp only [pure_eq_ok] at hs
      injection hs with hs
      injection hs with e1 e2
      subst e1
      exact ho'
    | fall s l =>
      simp only [pure_eq_ok] at hs
      injection hs with hs
      injection hs with e1 e2
      subst e1
      rw [tail_toks]
      exact ho'

end ScriggoV.LexCtx
