import ScriggoV.Gen.GoFlag
/-! # The "start the next native call as a goroutine" flag (C14)

`go f(args)` is compiled to OpGo followed by the call instruction of `f(args)`. OpGo calls
`vm.startGoroutine()`: for a Scriggo callee (OpCallFunc, OpCallIndirect on a Scriggo function value)
it starts the function on a new VM and skips the call instruction; for a native callee
(OpCallNative, OpCallIndirect on a function value that holds a native function) it returns true,
OpGo sets the flag `startNativeGoroutine` — a local of `run` — and the call instruction that
follows hands the flag to `vm.callNative`, which starts the native function with `go`. That call
instruction must reset the flag: a flag left set makes the NEXT native call of the activation a
goroutine as well — the caller does not wait for it and never sees its results.

Two parts:

* the instructions of one activation in sequence (`run`), under a `Policy` that says which
  instructions set and reset the flag, against the specification `spec`: a call is started as a
  goroutine exactly when the instruction before it is the OpGo of its go statement;
* the abstract execution (`exec`) of the clauses' control-flow skeletons as extracted from run.go
  (`Gen/GoFlag.lean`), from which the policy of the code is read off.

Core Lean only (plus the generated file). -/
namespace ScriggoV.GoFlag
open ScriggoV.Gen.GoFlag

/-! ## the skeletons -/

/-- the outcome of one path through a clause: the flag at the end, and the flag values handed to
`vm.callNative` on the way (`none`: a call that is synchronous whatever the flag) -/
structure Path where
  flag : Bool
  uses : List (Option Bool) := []
  bad : Bool := false          -- out of fuel
deriving DecidableEq, Repr

mutual
def execL (wasNative nativeCallee : Bool) : Nat → List F → Path → List (Bool × Path)
  | 0, _, p => [(false, { p with bad := true })]
  | _ + 1, [], p => [(true, p)]
  | fuel + 1, s :: rest, p =>
    (execF wasNative nativeCallee fuel s p).flatMap (fun o =>
      -- (true, p'): the statement was left at its end, the rest follows; (false, p'): the clause was left
      if o.1 then execL wasNative nativeCallee fuel rest o.2 else [o])
def execF (wasNative nativeCallee : Bool) : Nat → F → Path → List (Bool × Path)
  | 0, _, p => [(false, { p with bad := true })]
  | fuel + 1, s, p =>
    match s with
    | .set => [(true, { p with flag := true })]
    | .clear => [(true, { p with flag := false })]
    | .use => [(true, { p with uses := p.uses ++ [some p.flag] })]
    | .callSync => [(true, { p with uses := p.uses ++ [none] })]
    | .start => [(true, p)]
    | .ret => [(false, p)]
    | .brk => [(false, p)]
    | .cont => [(false, p)]
    | .ite c t e =>
      match c with
      | .wasNative => execL wasNative nativeCallee fuel (if wasNative then t else e) p
      | .nativeCallee => execL wasNative nativeCallee fuel (if nativeCallee then t else e) p
      | .other _ => execL wasNative nativeCallee fuel t p ++ execL wasNative nativeCallee fuel e p
    | .loop b =>
      -- zero iterations, or one pass of the body; a body that changes the flag or uses it is
      -- reported as bad (no clause has one)
      (true, p) :: (execL wasNative nativeCallee fuel b p).map (fun o =>
        (true, { o.2 with bad := o.2.bad || o.2.flag != p.flag || o.2.uses != p.uses }))
    | .sw bs => bs.flatMap (fun b => (execL wasNative nativeCallee fuel b p).map (fun o => (true, o.2)))
end

/-- every path through a clause entered with the flag at `flag` -/
def paths (clause : List F) (wasNative nativeCallee flag : Bool) : List Path :=
  (execL wasNative nativeCallee 64 clause { flag := flag }).map (·.2)

/-- on every path: no fuel problem, the flag ends as `f flag`, the calls see `uses flag` -/
def allPaths (clause : List F) (wasNative nativeCallee : Bool) (flagAfter : Bool → Bool)
    (uses : Bool → List (Option Bool)) : Bool :=
  [false, true].all (fun flag =>
    let ps := paths clause wasNative nativeCallee flag
    !ps.isEmpty && ps.all (fun p => !p.bad && p.flag = flagAfter flag && p.uses = uses flag))

/-! ## the instructions of an activation -/

inductive Callee where
  | native | indirectNative      -- OpCallNative; OpCallIndirect, the value holds a native function
  | func | indirectFunc | macroCall  -- OpCallFunc; OpCallIndirect on a Scriggo function; OpCallMacro
deriving DecidableEq, Repr

def Callee.isNative : Callee → Bool
  | .native | .indirectNative => true
  | _ => false

inductive Instr where
  | go                 -- OpGo
  | call (c : Callee)
  | other
deriving DecidableEq, Repr

/-- what the instructions do to the flag -/
structure Policy where
  goSetsIfNative : Bool        -- OpGo: sets the flag when startGoroutine says "native", else leaves it
  nativeResets : Bool          -- OpCallNative: calls with the flag, then resets it
  indirectNativeResets : Bool  -- OpCallIndirect, native callee: calls with the flag, then resets it
  scriggoCallsLeave : Bool     -- OpCallFunc, OpCallMacro, OpCallIndirect on a Scriggo function: do not touch the flag
deriving DecidableEq, Repr

def Policy.good : Policy := ⟨true, true, true, true⟩

/-- a call as executed: its index, whether it was started as a goroutine, the flag it found -/
structure Ev where
  idx : Nat
  callee : Callee
  asGoroutine : Bool
  flagSeen : Bool
deriving DecidableEq, Repr

/-- what OpGo found behind it -/
inductive Pending where
  | none
  | nativeGo     -- startGoroutine returned true: the call instruction runs next, with the flag
  | scriggoGo    -- startGoroutine started the function on a new VM: the call instruction is skipped
deriving DecidableEq, Repr

def resets (pol : Policy) : Callee → Bool
  | .native => pol.nativeResets
  | .indirectNative => pol.indirectNativeResets
  | _ => false

/-- the activation's instructions in sequence (`i` = index of the head, `f` = the flag) -/
def run (pol : Policy) : Nat → Bool → Pending → List Instr → List Ev
  | _, _, _, [] => []
  | i, f, _, .other :: rest => run pol (i + 1) f .none rest
  | i, f, _, .go :: rest =>
    match rest.head? with
    | some (.call c) =>
      if c.isNative then run pol (i + 1) (if pol.goSetsIfNative then true else f) .nativeGo rest
      else run pol (i + 1) (if pol.goSetsIfNative then f else true) .scriggoGo rest
    | _ => run pol (i + 1) (if pol.goSetsIfNative then true else f) .nativeGo rest   -- startGoroutine: default: return true
  | i, f, .scriggoGo, .call c :: rest => ⟨i, c, true, f⟩ :: run pol (i + 1) f .none rest
  | i, f, _, .call c :: rest =>
    if c.isNative then ⟨i, c, f, f⟩ :: run pol (i + 1) (if resets pol c then false else f) .none rest
    else ⟨i, c, false, f⟩ :: run pol (i + 1) (if pol.scriggoCallsLeave then f else !f) .none rest

/-- Go: the call of a go statement — the instruction after OpGo — is a goroutine, no other call is;
and the flag is set at a call only if it is the native call of a go statement -/
def spec : Nat → Bool → List Instr → List Ev
  | _, _, [] => []
  | i, _, .other :: rest => spec (i + 1) false rest
  | i, _, .go :: rest => spec (i + 1) true rest
  | i, afterGo, .call c :: rest => ⟨i, c, afterGo, afterGo && c.isNative⟩ :: spec (i + 1) false rest

/-- compiled code: every OpGo is followed by the call instruction of its go statement -/
def wf : List Instr → Bool
  | [] => true
  | .go :: rest => (match rest.head? with | some (.call _) => true | _ => false) && wf rest
  | _ :: rest => wf rest

/-! ## the policy of run.go -/

def policyOf (goC nativeC indirectC funcC macroC : List F) : Policy :=
  { goSetsIfNative :=
      allPaths goC true false (fun _ => true) (fun _ => []) && allPaths goC false false id (fun _ => []),
    nativeResets := allPaths nativeC false false (fun _ => false) (fun f => [some f]),
    indirectNativeResets := allPaths indirectC false true (fun _ => false) (fun f => [some f]),
    scriggoCallsLeave :=
      allPaths indirectC false false id (fun _ => []) && allPaths funcC false false id (fun _ => []) &&
      allPaths macroC false false id (fun _ => []) }

def policyOfCode : Policy := policyOf opGo opCallNative opCallIndirect opCallFunc opCallMacro

end ScriggoV.GoFlag
